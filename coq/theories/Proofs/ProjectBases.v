(* Proofs/ProjectBases.v -- alias maps are the ones the import statements write, name expansion only ever gains
   information along a run, hence the base classes that compute_mro finally keeps do not depend on the schedule. *)
From Coq Require Import ZArith NArith List Bool Lia Permutation.
From PydoctorVerif Require Import Base.Sexp Model.Project Spec.ProjectStatic Proofs.ProjectBase Proofs.ProjectRegistry
     Proofs.ProjectKeep Proofs.ProjectAlias Proofs.ProjectMove.
Import ListNotations.
Local Open Scope N_scope.

Section Keys.
  Variable p : project.
  Hypothesis Hwf : parents_first p.
  Notation nm := (sname p).
  Notation par := (sparent p).

  Lemma sparent_module m : par (m, 0, 0) =
    match modinfo_of p m with
    | Some mi => match m_parent mi with Some q => Some (q, 0, 0) | None => None end
    | None => None end.
  Proof. unfold sparent, sobj. cbn [N.eqb]. destruct (modinfo_of p m); reflexivity. Qed.

  (* qualified names of modules do not depend on the fuel once it exceeds the module index *)
  Lemma qname_module_stable : forall n m f f',
    (N.to_nat m < n)%nat -> (N.to_nat m < f)%nat -> (N.to_nat m < f')%nat ->
    qname_f nm par f (m, 0, 0) = qname_f nm par f' (m, 0, 0).
  Proof.
    induction n as [|n IH]; intros m f f' Hn Hf Hf'; [lia|].
    destruct f as [|f]; [lia|]. destruct f' as [|f']; [lia|]. cbn [qname_f]. rewrite sparent_module.
    destruct (modinfo_of p m) as [mi|] eqn:Em; [|reflexivity].
    destruct (m_parent mi) as [q|] eqn:Eq; [|reflexivity].
    pose proof (Hwf m mi q Em Eq) as Hq. rewrite (IH q f f') by lia. reflexivity.
  Qed.

  Lemma sobj_module_lt m i j : sobj p (m, i, j) <> None -> (N.to_nat m < length p)%nat.
  Proof.
    unfold sobj. intros H. assert (Hm : modinfo_of p m <> None).
    { destruct (N.eqb i 0).
      - destruct (N.eqb j 0); [|congruence]. destruct (modinfo_of p m); congruence.
      - unfold stmt_at in H. destruct (modinfo_of p m); congruence. }
    unfold modinfo_of in Hm. apply nth_error_Some in Hm. exact Hm.
  Qed.

  (* the parent of an object of the static domain: shape *)
  Lemma sparent_shape o q : par o = Some q ->
    sobj p o <> None /\
    ((snd (fst o) = 0 /\ snd o = 0 /\ snd (fst q) = 0 /\ snd q = 0 /\ fst (fst q) < fst (fst o)) \/
     (snd (fst o) <> 0 /\ snd o = 0 /\ q = (fst (fst o), 0, 0)) \/
     (snd (fst o) <> 0 /\ snd o <> 0 /\ q = (fst (fst o), snd (fst o), 0))).
  Proof.
    destruct o as [[m i] j]. unfold sparent. destruct (sobj p (m, i, j)) as [si|] eqn:Es; [|discriminate].
    intros Hq. split; [discriminate|]. cbn [fst snd]. unfold sobj in Es.
    destruct (N.eqb i 0) eqn:Ei.
    - apply N.eqb_eq in Ei. subst i. destruct (N.eqb j 0) eqn:Ej; [|discriminate]. apply N.eqb_eq in Ej. subst j.
      destruct (modinfo_of p m) as [mi|] eqn:Em; [|discriminate]. inversion Es; subst si. cbn [s_parent] in Hq.
      destruct (m_parent mi) as [q0|] eqn:Eq; [|discriminate]. inversion Hq; subst q. left. cbn [fst snd].
      repeat split; try reflexivity. exact (Hwf m mi q0 Em Eq).
    - apply N.eqb_neq in Ei. destruct (stmt_at p m i) as [st|]; [|discriminate].
      destruct st; cbn [stmt_info] in Es; try discriminate.
      + destruct (N.eqb j 0) eqn:Ej.
        * apply N.eqb_eq in Ej. subst j. inversion Es; subst si. inversion Hq. right. left. auto.
        * apply N.eqb_neq in Ej. destruct (nth_error members (N.to_nat (j - 1))) as [[[mk nn] dd]|]; [|discriminate].
          inversion Es; subst si. unfold member_info in Hq. right. right. destruct (N.eqb mk 0); inversion Hq; auto.
      + destruct (N.eqb j 0) eqn:Ej; [|discriminate]. apply N.eqb_eq in Ej. subst j. inversion Es; subst si. inversion Hq. right. left. auto.
      + destruct (N.eqb j 0) eqn:Ej; [|discriminate]. apply N.eqb_eq in Ej. subst j. inversion Es; subst si. inversion Hq. right. left. auto.
  Qed.

  Lemma member_parent_class m i j : sobj p (m, i, j) <> None -> i <> 0 -> j <> 0 -> par (m, i, 0) = Some (m, 0, 0).
  Proof.
    intros Hd Hi Hj. unfold sparent. unfold sobj in *. apply N.eqb_neq in Hi. rewrite Hi in *. apply N.eqb_neq in Hj.
    destruct (stmt_at p m i) as [st|]; [|congruence].
    destruct st; cbn [stmt_info] in *; rewrite ?Hj in Hd; try congruence. cbn [N.eqb]. reflexivity.
  Qed.

  (* the qualified name of an object is the qualified name of its parent followed by its own name *)
  Lemma skey_parent o q : par o = Some q -> skey p o = skey p q ++ [nm o].
  Proof.
    intros Hq. destruct (sparent_shape o q Hq) as [Hd Hs]. destruct o as [[m i] j]. cbn [fst snd] in Hs.
    pose proof (sobj_module_lt m i j Hd) as Hm.
    assert (E : skey p (m, i, j) = qname_f nm par (length p + 3) q ++ [nm (m, i, j)]).
    { unfold skey, depth_fuel. replace (length p + 4)%nat with (S (length p + 3)) by lia. cbn [qname_f]. rewrite Hq. reflexivity. }
    rewrite E. f_equal. unfold skey, depth_fuel.
    destruct Hs as [(-> & -> & Hq1 & Hq2 & Hlt)|[(Hi & -> & ->)|(Hi & Hj & ->)]].
    - destruct q as [[q1 q2] q3]. cbn [fst snd] in *. subst q2 q3.
      apply (qname_module_stable (length p) q1); lia.
    - apply (qname_module_stable (length p) m); lia.
    - assert (Hp : par (m, i, 0) = Some (m, 0, 0)) by (apply member_parent_class with j; assumption).
      replace (length p + 3)%nat with (S (length p + 2)) by lia. replace (length p + 4)%nat with (S (length p + 3)) by lia.
      cbn [qname_f]. rewrite Hp. f_equal. apply (qname_module_stable (length p) m); lia.
  Qed.

  Lemma skey_root o : par o = None -> skey p o = [nm o].
  Proof. intros H. unfold skey, depth_fuel. rewrite Nat.add_comm. cbn [Nat.add qname_f]. rewrite H. reflexivity. Qed.

  Lemma skey_nonempty o : skey p o <> [].
  Proof.
    unfold skey, depth_fuel. rewrite Nat.add_comm. cbn [Nat.add qname_f]. destruct (par o); [|discriminate].
    intros H. apply app_eq_nil in H. destruct H; discriminate.
  Qed.
End Keys.

Section Prefix.
  Variable p : project.
  Hypothesis Hwf : parents_first p.
  Hypothesis Hinj : keys_distinct p.
  Notation nm := (sname p).
  Notation par := (sparent p).

  Lemma sparent_dom o q : par o = Some q -> sobj p q <> None.
  Proof.
    intros Hq. destruct (sparent_shape p Hwf o q Hq) as [Hd Hs]. destruct o as [[m i] j]. cbn [fst snd] in Hs.
    pose proof (sobj_module_lt p m i j Hd) as Hm.
    assert (Hmod : forall m', (N.to_nat m' < length p)%nat -> sobj p (m', 0, 0) <> None).
    { intros m' Hlt. unfold sobj. cbn [N.eqb]. unfold modinfo_of. destruct (nth_error p (N.to_nat m')) eqn:E; [discriminate|].
      apply nth_error_None in E. lia. }
    destruct Hs as [(-> & -> & Hq1 & Hq2 & Hlt)|[(Hi & -> & ->)|(Hi & Hj & ->)]].
    - destruct q as [[q1 q2] q3]. cbn [fst snd] in *. subst q2 q3. apply Hmod. lia.
    - apply Hmod. exact Hm.
    - pose proof (member_parent_class p m i j Hd Hi Hj) as Hp. unfold sparent in Hp. destruct (sobj p (m, i, 0)); [discriminate|discriminate].
  Qed.

  (* a qualified name that extends the qualified name of o by one component is the name of a child of o *)
  Lemma key_child c o a : sobj p c <> None -> sobj p o <> None -> skey p c = skey p o ++ [a] -> par c = Some o /\ nm c = a.
  Proof.
    intros Hc Ho E. destruct (par c) as [q|] eqn:Eq.
    - rewrite (skey_parent p Hwf c q Eq) in E. apply app_inj_tail in E. destruct E as [E1 E2].
      assert (q = o) by (apply Hinj; [eapply sparent_dom; exact Eq|exact Ho|exact E1]). subst q. inversion E2. auto.
    - rewrite (skey_root p c Eq) in E. exfalso. destruct (skey p o) as [|x l] eqn:Ek; [exact (skey_nonempty p o Ek)|].
      cbn [app] in E. inversion E as [[E1 E2]]. symmetry in E2. apply app_eq_nil in E2. destruct E2; discriminate.
  Qed.

  (* registered names are closed under non-empty prefixes *)
  Lemma registry_prefix C s k : OA p nm par C s -> OR p nm par C s -> k <> [] ->
    forall rest c, pget (k ++ rest) (allobjs s) = Some c -> exists a, pget k (allobjs s) = Some a.
  Proof.
    intros HA HR Hk rest. induction rest as [|x l IH] using rev_ind; intros c Hc.
    - rewrite app_nil_r in Hc. eauto.
    - destruct (or_sound _ _ _ _ _ HR _ _ Hc) as [Cc Kc]. change (key p nm par c) with (skey p c) in Kc.
      destruct (par c) as [q|] eqn:Eq.
      + rewrite (skey_parent p Hwf c q Eq), app_assoc in Kc. apply app_inj_tail in Kc. destruct Kc as [Kq _].
        assert (Cq : C q) by (eapply (oa_closed _ _ _ _ _ HA); eassumption).
        pose proof (or_complete _ _ _ _ _ HR q Cq) as Hq. change (key p nm par q) with (skey p q) in Hq. rewrite Kq in Hq.
        exact (IH q Hq).
      + rewrite (skey_root p c Eq), app_assoc in Kc. exfalso. destruct (k ++ l) as [|y l'] eqn:Ekl.
        * apply app_eq_nil in Ekl. destruct Ekl. contradiction.
        * cbn [app] in Kc. inversion Kc as [[E1 E2]]. symmetry in E2. apply app_eq_nil in E2. destruct E2; discriminate.
  Qed.
End Prefix.

(* ================================================================ name expansion only gains information *)
Section Mono.
  Variable p : project.
  Hypothesis Hwf : parents_first p.
  Hypothesis Hinj : keys_distinct p.
  Hypothesis Hbo : bind_once p.
  Hypothesis Hns : no_shadow_roots p.
  Notation nm := (sname p).
  Notation par := (sparent p).
  Notation Inv0 := (Inv p nm par GoodT).

  Variables s s' : state.
  Hypothesis HI : Inv0 s.
  Hypothesis HI' : Inv0 s'.
  Hypothesis Hcm : forall o, created_of p s o -> created_of p s' o.
  Hypothesis Ham : forall o ob ob' a q, objs s o = Some ob -> objs s' o = Some ob' ->
                                        nget a (o_alias ob) = Some q -> nget a (o_alias ob') = Some q.
  Hypothesis Hna : forall o ob, objs s o = Some ob -> is_module_tag (o_tag ob) = false -> o_alias ob = [].
  Hypothesis Hna' : forall o ob, objs s' o = Some ob -> is_module_tag (o_tag ob) = false -> o_alias ob = [].
  Hypothesis Hsa' : forall m mi mb a q, modinfo_of p m = Some mi -> objs s' (m, 0, 0) = Some mb ->
                                        nget a (o_alias mb) = Some q ->
                                        In a (import_names mi) /\ (In a (root_names p) -> q = [a]).

  Let HA := i_oa p _ _ _ s HI.
  Let HR := i_or p _ _ _ s HI.
  Let HA' := i_oa p _ _ _ s' HI'.
  Let HR' := i_or p _ _ _ s' HI'.

  Lemma exists_created o ob : objs s o = Some ob -> created_of p s o.
  Proof. intros H. apply (oa_exists _ _ _ _ _ HA). congruence. Qed.

  Lemma obj_mono o ob : objs s o = Some ob ->
    exists ob', objs s' o = Some ob' /\ o_tag ob' = o_tag ob /\ o_parent ob' = o_parent ob /\ o_name ob' = o_name ob.
  Proof.
    intros Ho. pose proof (Hcm o (exists_created o ob Ho)) as Co'.
    destruct (objs s' o) as [ob'|] eqn:Eo'; [|exfalso; apply (oa_exists _ _ _ _ _ HA') in Co'; congruence].
    exists ob'. split; [reflexivity|]. pose proof (oa_dom _ _ _ _ _ HA' o Co') as Hd.
    destruct (sobj p o) as [si|] eqn:Es; [|congruence].
    destruct (oa_static _ _ _ _ _ HA o ob si Ho Es) as (T1 & _ & N1 & P1 & _).
    destruct (oa_static _ _ _ _ _ HA' o ob' si Eo' Es) as (T2 & _ & N2 & P2 & _). repeat split; congruence.
  Qed.

  Lemma full_name_mono o : created_of p s o -> full_name s' o = full_name s o.
  Proof.
    intros Co. rewrite (full_name_key p nm par _ s o HA Co). rewrite (full_name_key p nm par _ s' o HA' (Hcm o Co)). reflexivity.
  Qed.

  Lemma reg_mono k o : pget k (allobjs s) = Some o -> pget k (allobjs s') = Some o.
  Proof.
    intros H. destruct (or_sound _ _ _ _ _ HR k o H) as [Co <-]. apply (or_complete _ _ _ _ _ HR'). apply Hcm. exact Co.
  Qed.

  Lemma contents_mono o ob ob' n c : objs s o = Some ob -> objs s' o = Some ob' ->
    nget n (o_contents ob) = Some c -> nget n (o_contents ob') = Some c.
  Proof.
    intros Ho Ho' Hn. destruct (oa_contents _ _ _ _ _ HA o ob n c Ho Hn) as (Cc & Pc & Nc).
    destruct (oa_complete _ _ _ _ _ HA' c o (Hcm c Cc) Pc) as (ob2 & E2 & Hg). rewrite Ho' in E2. inversion E2; subst ob2.
    rewrite Nc in Hg. exact Hg.
  Qed.

  (* a child that appears later in the contents of a scope that already exists: a definition of that module *)
  Lemma late_child_is_def o ob ob' n c :
    objs s o = Some ob -> objs s' o = Some ob' -> nget n (o_contents ob) = None -> nget n (o_contents ob') = Some c ->
    exists m mi, o = (m, 0, 0) /\ modinfo_of p m = Some mi /\ In n (def_names mi).
  Proof.
    intros Ho Ho' Hn Hn'. destruct (oa_contents _ _ _ _ _ HA' o ob' n c Ho' Hn') as (Cc' & Pc & Nc).
    assert (HnC : ~ created_of p s c).
    { intros Cc. destruct (oa_complete _ _ _ _ _ HA c o Cc Pc) as (ob2 & E2 & Hg). rewrite Ho in E2. inversion E2; subst ob2.
      rewrite Nc in Hg. congruence. }
    pose proof (exists_created o ob Ho) as Co.
    destruct (sparent_shape p Hwf c o Pc) as [Hdc Hs]. destruct c as [[m i] j]. cbn [fst snd] in Hs.
    destruct Hs as [(-> & -> & Hq1 & Hq2 & Hlt)|[(Hi & -> & ->)|(Hi & Hj & ->)]].
    - (* a sub-module: exists from the start *)
      exfalso. apply HnC. split; [exact Hdc|left; reflexivity].
    - exists m. assert (Hm : exists mi, modinfo_of p m = Some mi).
      { unfold sobj in Hdc. apply N.eqb_neq in Hi. rewrite Hi in Hdc. unfold stmt_at in Hdc. destruct (modinfo_of p m); [eauto|congruence]. }
      destruct Hm as (mi & Hmi). exists mi. split; [reflexivity|]. split; [exact Hmi|].
      unfold sname in Nc. unfold sobj in Nc, Hdc. apply N.eqb_neq in Hi. rewrite Hi in Nc, Hdc.
      destruct (stmt_at p m i) as [st|] eqn:Est; [|congruence]. unfold stmt_at in Est. rewrite Hmi, Hi in Est.
      apply nth_error_In in Est. unfold def_names. apply in_flat_map. exists st. split; [exact Est|].
      destruct st; cbn [stmt_info N.eqb s_name def_name] in *; try congruence; left; exact Nc.
    - (* a member: created together with its class *)
      exfalso. apply HnC. destruct Co as [_ Co]. cbn [fst snd] in Co. split; [exact Hdc|]. cbn [fst snd].
      destruct Co as [Hz|Hp]; [contradiction|right; exact Hp].
  Qed.

  Lemma root_name_of k o : pget [k] (allobjs s) = Some o -> In k (root_names p).
  Proof.
    intros H. destruct (or_sound _ _ _ _ _ HR _ _ H) as [Co Ko]. change (key p nm par o) with (skey p o) in Ko.
    destruct (par o) as [q|] eqn:Eq.
    - rewrite (skey_parent p Hwf o q Eq) in Ko. exfalso. destruct (skey p q) as [|y l] eqn:Ek; [exact (skey_nonempty p q Ek)|].
      cbn [app] in Ko. inversion Ko as [[E1 E2]]. apply app_eq_nil in E2. destruct E2; discriminate.
    - rewrite (skey_root p o Eq) in Ko. inversion Ko as [Hn]. pose proof (oa_dom _ _ _ _ _ HA o Co) as Hd.
      destruct o as [[m i] j]. unfold sparent, sname in *. unfold sobj in *.
      destruct (N.eqb i 0).
      + destruct (N.eqb j 0); [|congruence]. destruct (modinfo_of p m) as [mi|] eqn:Em; [|congruence]. cbn [s_parent s_name] in *.
        destruct (m_parent mi) eqn:Ep; [discriminate|]. unfold root_names. apply in_flat_map. exists mi.
        split; [unfold modinfo_of in Em; eapply nth_error_In; exact Em|]. rewrite Ep. left. congruence.
      + destruct (stmt_at p m i) as [st|]; [|congruence]. exfalso.
        destruct st; cbn [stmt_info] in *; try congruence.
        * destruct (N.eqb j 0); [discriminate|]. destruct (nth_error members (N.to_nat (j - 1))) as [[[mk nn] dd]|]; [|congruence].
          unfold member_info in Eq. destruct (N.eqb mk 0); discriminate.
        * destruct (N.eqb j 0); [discriminate|congruence].
        * destruct (N.eqb j 0); [discriminate|congruence].
  Qed.

  Hypothesis Hane : forall o ob a q, objs s o = Some ob -> nget a (o_alias ob) = Some q -> q <> [].

  Lemma module_tag_shape o si : sobj p o = Some si -> is_module_tag (s_tag si) = true ->
    exists m mi, o = (m, 0, 0) /\ modinfo_of p m = Some mi.
  Proof.
    destruct o as [[m i] j]. unfold sobj. destruct (N.eqb i 0) eqn:Ei.
    - destruct (N.eqb j 0) eqn:Ej; [|discriminate]. destruct (modinfo_of p m) as [mi|] eqn:Em; [|discriminate].
      intros _ _. apply N.eqb_eq in Ei. apply N.eqb_eq in Ej. subst. eauto.
    - destruct (stmt_at p m i) as [st|]; [|discriminate]. destruct st; cbn [stmt_info]; try discriminate.
      + destruct (N.eqb j 0); [intros H; inversion H; subst; cbn; discriminate|].
        destruct (nth_error members (N.to_nat (j - 1))) as [[[mk n0] d0]|]; [|discriminate].
        intros H; inversion H; subst. unfold member_info. destruct (N.eqb mk 0); cbn; discriminate.
      + destruct (N.eqb j 0); [intros H; inversion H; subst; cbn; discriminate|discriminate].
      + destruct (N.eqb j 0); [intros H; inversion H; subst; cbn; discriminate|discriminate].
  Qed.

  Lemma module_obj_shape o ob : objs s o = Some ob -> is_module_tag (o_tag ob) = true ->
    exists m mi, o = (m, 0, 0) /\ modinfo_of p m = Some mi.
  Proof.
    intros Ho Ht. pose proof (oa_dom _ _ _ _ _ HA o (exists_created o ob Ho)) as Hd.
    destruct (sobj p o) as [si|] eqn:Es; [|congruence]. destruct (oa_static _ _ _ _ _ HA o ob si Ho Es) as (T1 & _).
    rewrite T1 in Ht. eapply module_tag_shape; eassumption.
  Qed.

  Lemma late_child_module o ob ob' n c :
    objs s o = Some ob -> objs s' o = Some ob' -> nget n (o_contents ob) = None -> nget n (o_contents ob') = Some c ->
    is_module_tag (o_tag ob) = true.
  Proof.
    intros Ho Ho' Hn Hn'. destruct (late_child_is_def o ob ob' n c Ho Ho' Hn Hn') as (m & mi & -> & Hmi & _).
    assert (Hs : exists si, sobj p (m, 0, 0) = Some si /\ is_module_tag (s_tag si) = true).
    { unfold sobj. cbn [N.eqb]. rewrite Hmi. eexists. split; [reflexivity|]. cbn [s_tag]. destruct (m_pkg mi); reflexivity. }
    destruct Hs as (si & Es & Ht). destruct (oa_static _ _ _ _ _ HA _ ob si Ho Es) as (T1 & _). rewrite T1. exact Ht.
  Qed.

  (* one lookup: when it led somewhere, it leads to the same place later *)
  Lemma l2f_mono : forall f o ob n nxt,
    objs s o = Some ob -> pget (local_to_full_f f s o n) (allobjs s) = Some nxt ->
    local_to_full_f f s' o n = local_to_full_f f s o n.
  Proof.
    induction f as [|f IH]; intros o ob n nxt Ho Hp; cbn [local_to_full_f]; [reflexivity|].
    cbn [local_to_full_f] in Hp. rewrite Ho in *. destruct (obj_mono o ob Ho) as (ob' & Ho' & Ht & Hpar & _). rewrite Ho', Ht, Hpar.
    assert (Hcont : forall c, nget n (o_contents ob) = Some c -> nget n (o_contents ob') = Some c /\ full_name s' c = full_name s c).
    { intros c Hc. split; [eapply contents_mono; eassumption|]. apply full_name_mono.
      destruct (oa_contents _ _ _ _ _ HA o ob n c Ho Hc) as (Cc & _). exact Cc. }
    assert (Hpar_ok : forall P, o_parent ob = Some P -> exists pb, objs s P = Some pb).
    { intros P HP. pose proof (exists_created o ob Ho) as Co. pose proof (oa_dom _ _ _ _ _ HA o Co) as Hd.
      destruct (sobj p o) as [si|] eqn:Es; [|congruence]. destruct (oa_static _ _ _ _ _ HA o ob si Ho Es) as (_ & _ & _ & P1 & _).
      rewrite HP in P1. symmetry in P1. pose proof (oa_closed _ _ _ _ _ HA o P Co P1) as CP.
      destruct (objs s P) eqn:E; [eauto|]. apply (oa_exists _ _ _ _ _ HA) in CP. congruence. }
    destruct (is_module_tag (o_tag ob)) eqn:Emod.
    - destruct (module_obj_shape o ob Ho Emod) as (m & mi & -> & Hmi).
      destruct (nget n (o_contents ob)) as [c|] eqn:Ec.
      + destruct (Hcont c eq_refl) as [-> ->]. reflexivity.
      + destruct (nget n (o_alias ob)) as [q|] eqn:Ea.
        * rewrite (Ham _ ob ob' n q Ho Ho' Ea).
          destruct (nget n (o_contents ob')) as [c'|] eqn:Ec'; [|reflexivity]. exfalso.
          destruct (late_child_is_def _ ob ob' n c' Ho Ho' Ec Ec') as (m2 & mi2 & E2 & Hmi2 & Hdef). inversion E2; subst m2.
          rewrite Hmi in Hmi2. inversion Hmi2; subst mi2.
          destruct (Hsa' m mi ob' n q Hmi Ho' (Ham _ ob ob' n q Ho Ho' Ea)) as [Himp _].
          destruct (Hbo m mi Hmi) as [_ Hdis]. destruct (Hdis n Himp) as [Hnd _]. contradiction.
        * pose proof (root_name_of n nxt Hp) as Hroot.
          destruct (nget n (o_contents ob')) as [c'|] eqn:Ec'.
          -- exfalso. destruct (late_child_is_def _ ob ob' n c' Ho Ho' Ec Ec') as (m2 & mi2 & E2 & Hmi2 & Hdef). inversion E2; subst m2.
             rewrite Hmi in Hmi2. inversion Hmi2; subst mi2. destruct (Hns m mi n Hmi Hroot) as [Hnd _]. contradiction.
          -- destruct (nget n (o_alias ob')) as [q'|] eqn:Ea'; [|reflexivity].
             destruct (Hsa' m mi ob' n q' Hmi Ho' Ea') as [_ Hq]. exact (Hq Hroot).
    - assert (Hal : o_alias ob = []) by (eapply Hna; eassumption).
      assert (Hal' : o_alias ob' = []) by (eapply Hna'; [exact Ho'|rewrite Ht; exact Emod]).
      assert (Hcn : nget n (o_contents ob) = None -> nget n (o_contents ob') = None).
      { intros Hn. destruct (nget n (o_contents ob')) as [c'|] eqn:Ec'; [|reflexivity]. exfalso.
        pose proof (late_child_module o ob ob' n c' Ho Ho' Hn Ec') as Hm. congruence. }
      destruct (N.eqb (o_tag ob) T_CLASS).
      + destruct (nget n (o_contents ob)) as [c|] eqn:Ec.
        * destruct (Hcont c eq_refl) as [-> ->]. reflexivity.
        * rewrite (Hcn eq_refl), Hal, Hal' in *. cbn [nget aget] in *.
          destruct (o_parent ob) as [P|] eqn:EP; [|reflexivity]. destruct (Hpar_ok P eq_refl) as (pb & EPb).
          eapply IH; eassumption.
      + destruct (o_parent ob) as [P|] eqn:EP; [|reflexivity]. destruct (Hpar_ok P eq_refl) as (pb & EPb).
        eapply IH; eassumption.
  Qed.

  Lemma dfuel_eq : dfuel s' = dfuel s.
  Proof. rewrite (oa_fuel _ _ _ _ _ HA), (oa_fuel _ _ _ _ _ HA'). reflexivity. Qed.

  Lemma dfuel_pos : exists f, dfuel s = S f.
  Proof. rewrite (oa_fuel _ _ _ _ _ HA). unfold depth_fuel. exists (length p + 3)%nat. lia. Qed.

  (* a name found in the contents of a module or class scope *)
  Lemma l2f_contents o ob n c :
    objs s o = Some ob -> (is_module_tag (o_tag ob) = true \/ o_tag ob = T_CLASS) -> nget n (o_contents ob) = Some c ->
    local_to_full s o n = full_name s c.
  Proof.
    intros Ho Ht Hc. unfold local_to_full. destruct dfuel_pos as (f & ->). cbn [local_to_full_f]. rewrite Ho.
    destruct Ht as [Ht|Ht].
    - rewrite Ht, Hc. reflexivity.
    - rewrite Ht. cbn [is_module_tag T_CLASS T_MODULE T_PACKAGE N.eqb orb]. rewrite Hc. reflexivity.
  Qed.

  Lemma l2f_nonempty : forall f o n, local_to_full_f f s o n <> [].
  Proof.
    induction f as [|f IH]; intros o n; cbn [local_to_full_f]; [discriminate|].
    destruct (objs s o) as [ob|] eqn:Ho; [|discriminate].
    assert (Hc : forall c, nget n (o_contents ob) = Some c -> full_name s c <> []).
    { intros c Hc. destruct (oa_contents _ _ _ _ _ HA o ob n c Ho Hc) as (Cc & _).
      rewrite (full_name_key p nm par _ s c HA Cc). apply skey_nonempty. }
    destruct (is_module_tag (o_tag ob)).
    - destruct (nget n (o_contents ob)) as [c|] eqn:Ec; [exact (Hc c eq_refl)|].
      destruct (nget n (o_alias ob)) as [q|] eqn:Ea; [eapply Hane; eassumption|discriminate].
    - destruct (N.eqb (o_tag ob) T_CLASS).
      + destruct (nget n (o_contents ob)) as [c|] eqn:Ec; [exact (Hc c eq_refl)|].
        destruct (nget n (o_alias ob)) as [q|] eqn:Ea; [eapply Hane; eassumption|].
        destruct (o_parent ob); [apply IH|discriminate].
      + destruct (o_parent ob); [apply IH|discriminate].
  Qed.

  (* the parents of objects are module or class scopes *)
  Lemma parent_is_scope a o ob : created_of p s a -> par a = Some o -> objs s o = Some ob ->
    is_module_tag (o_tag ob) = true \/ o_tag ob = T_CLASS.
  Proof.
    intros Ca Pa Ho. pose proof (oa_dom _ _ _ _ _ HA a Ca) as Hda.
    destruct (sparent_shape p Hwf a o Pa) as [_ Hs]. destruct a as [[m i] j]. cbn [fst snd] in Hs.
    assert (Hmodule : forall m', o = (m', 0, 0) -> is_module_tag (o_tag ob) = true).
    { intros m' ->. pose proof (oa_dom _ _ _ _ _ HA _ (exists_created _ ob Ho)) as Hd.
      destruct (sobj p (m', 0, 0)) as [si|] eqn:Es; [|congruence]. destruct (oa_static _ _ _ _ _ HA _ ob si Ho Es) as (T1 & _).
      rewrite T1. unfold sobj in Es. cbn [N.eqb] in Es. destruct (modinfo_of p m') as [mi|]; [|discriminate]. inversion Es. cbn.
      destruct (m_pkg mi); reflexivity. }
    destruct Hs as [(-> & -> & Hq1 & Hq2 & Hlt)|[(Hi & -> & ->)|(Hi & Hj & ->)]].
    - left. destruct o as [[q1 q2] q3]. cbn [fst snd] in *. subst. eapply Hmodule. reflexivity.
    - left. eapply Hmodule. reflexivity.
    - right. pose proof (oa_dom _ _ _ _ _ HA _ (exists_created _ ob Ho)) as Hd.
      destruct (sobj p (m, i, 0)) as [si|] eqn:Es; [|congruence]. destruct (oa_static _ _ _ _ _ HA _ ob si Ho Es) as (T1 & _).
      rewrite T1. unfold sobj in Es, Hda. apply N.eqb_neq in Hi. rewrite Hi in Es, Hda. apply N.eqb_neq in Hj.
      destruct (stmt_at p m i) as [st|]; [|discriminate]. destruct st; cbn [stmt_info N.eqb] in *; rewrite ?Hj in Hda; try congruence.
      inversion Es. reflexivity.
  Qed.

  Lemma expand_mono : forall parts o ob first c,
    objs s o = Some ob -> pget (expand_loop s o first parts) (allobjs s) = Some c ->
    expand_loop s' o first parts = expand_loop s o first parts.
  Proof.
    induction parts as [|n rest IH]; intros o ob first c Ho Hp; [reflexivity|].
    cbn [expand_loop] in *. unfold local_to_full in *. rewrite dfuel_eq.
    set (fn := local_to_full_f (dfuel s) s o n) in *.
    destruct (path_eqb fn [n] && negb first) eqn:Eb.
    - (* not found: then nothing can be registered under that name *)
      exfalso. apply andb_true_iff in Eb. destruct Eb as [Efn _]. apply path_eqb_eq in Efn.
      pose proof (exists_created o ob Ho) as Co. rewrite (full_name_key p nm par _ s o HA Co) in Hp.
      change (key p nm par o) with (skey p o) in Hp.
      replace (skey p o ++ n :: rest) with ((skey p o ++ [n]) ++ rest) in Hp by (rewrite <- app_assoc; reflexivity).
      destruct (registry_prefix p Hwf _ s (skey p o ++ [n]) HA HR ltac:(intros E; apply app_eq_nil in E; destruct E; discriminate) rest c Hp)
        as (a & Ha).
      destruct (or_sound _ _ _ _ _ HR _ _ Ha) as [Ca Ka]. change (key p nm par a) with (skey p a) in Ka.
      destruct (key_child p Hwf Hinj a o n (oa_dom _ _ _ _ _ HA a Ca) (oa_dom _ _ _ _ _ HA o Co) Ka) as [Pa Na].
      destruct (oa_complete _ _ _ _ _ HA a o Ca Pa) as (ob2 & E2 & Hg). rewrite Ho in E2. inversion E2; subst ob2. rewrite Na in Hg.
      pose proof (l2f_contents o ob n a Ho (parent_is_scope a o ob Ca Pa Ho) Hg) as Hl. unfold local_to_full in Hl. fold fn in Hl.
      rewrite (full_name_key p nm par _ s a HA Ca) in Hl. change (key p nm par a) with (skey p a) in Hl. rewrite Ka, Efn in Hl.
      destruct (skey p o) as [|y l] eqn:Ek; [exact (skey_nonempty p o Ek)|]. cbn [app] in Hl. inversion Hl as [[E1 E3]].
      symmetry in E3. apply app_eq_nil in E3. destruct E3; discriminate.
    - destruct (pget fn (allobjs s)) as [nxt|] eqn:En.
      + assert (Hfn : local_to_full_f (dfuel s) s' o n = fn) by (eapply l2f_mono; eassumption).
        rewrite Hfn, Eb, (reg_mono fn nxt En).
        destruct rest as [|n2 rest2]; [reflexivity|].
        destruct (or_sound _ _ _ _ _ HR _ _ En) as [Cn _].
        destruct (objs s nxt) as [nb|] eqn:Enb; [|exfalso; apply (oa_exists _ _ _ _ _ HA) in Cn; congruence].
        eapply IH; eassumption.
      + exfalso. destruct rest as [|n2 rest2]; [rewrite app_nil_r in Hp; congruence|].
        destruct (registry_prefix p Hwf _ s fn HA HR (l2f_nonempty _ _ _) (n2 :: rest2) c Hp) as (a & Ha). congruence.
  Qed.

  Lemma resolve_mono o ob name c :
    objs s o = Some ob -> resolve_name s o name = Some c -> resolve_name s' o name = Some c.
  Proof.
    unfold resolve_name, expand_name. intros Ho Hr. rewrite (expand_mono name o ob true c Ho Hr). apply reg_mono. exact Hr.
  Qed.
End Mono.

(* ================================================================ the invariant about alias maps and bases *)
Section Run.
  Variable p : project.
  Hypothesis Hwf : parents_first p.
  Hypothesis Hinj : keys_distinct p.
  Hypothesis Hnomove : no_move p.
  Hypothesis Hplain : plain_imports p.
  Hypothesis Hbo : bind_once p.
  Hypothesis Hns : no_shadow_roots p.
  Notation nm := (sname p).
  Notation par := (sparent p).
  Notation Inv0 := (Inv p nm par GoodT).

  Definition AInv (s : state) : Prop :=
    (forall o ob, objs s o = Some ob -> is_module_tag (o_tag ob) = false -> o_alias ob = []) /\
    (forall m mi mb, modinfo_of p m = Some mi -> objs s (m, 0, 0) = Some mb ->
       (In m (unproc s) -> o_alias mb = []) /\
       (forall fr, In fr (frames s) -> f_mod fr = m ->
          exists pre, expand_stmts (m_stmts mi) = pre ++ f_todo fr /\ (f_modname fr, o_alias mb) = alias_ops p m pre) /\
       (~ In m (unproc s) -> (forall fr, In fr (frames s) -> f_mod fr <> m) -> o_alias mb = static_alias p m)).

  Definition BInv (s : state) : Prop :=
    forall o ob P, objs s o = Some ob -> o_tag ob = T_CLASS -> o_parent ob = Some P ->
      (forall n d bases mem, stmt_at p (fst (fst o)) (snd (fst o)) = Some (SClass n d bases mem) -> o_rawbases ob = bases) /\
      length (o_initbases ob) = length (o_rawbases ob) /\
      (forall i raw e c, nth_error (o_rawbases ob) i = Some raw -> nth_error (o_initbases ob) i = Some (e, Some c) ->
                         resolve_name s P raw = Some c /\ tag_of s c = Some T_CLASS).

  Record Inv3 (s : state) : Prop := { i3_inv : Inv0 s; i3_a : AInv s; i3_b : BInv s }.

  Lemma frame_dec (fs : list frame) m : (exists fr, In fr fs /\ f_mod fr = m) \/ (forall fr, In fr fs -> f_mod fr <> m).
  Proof.
    induction fs as [|fr fs IH]; [right; intros fr []|].
    destruct (N.eq_dec (f_mod fr) m) as [E|E]; [left; exists fr; split; [left; reflexivity|exact E]|].
    destruct IH as [(fr0 & Hin & Hm)|Hn]; [left; exists fr0; split; [right; exact Hin|exact Hm]|].
    right. intros fr0 [<-|Hin]; [exact E|apply Hn; exact Hin].
  Qed.

  (* the alias map of a module is the one written by a prefix of its operations *)
  Lemma alias_is_prefix s m mi mb : AInv s -> modinfo_of p m = Some mi -> objs s (m, 0, 0) = Some mb ->
    exists pre post, expand_stmts (m_stmts mi) = pre ++ post /\ o_alias mb = snd (alias_ops p m pre).
  Proof.
    intros [_ HA2] Hmi Hmb. destruct (HA2 m mi mb Hmi Hmb) as (Hu & Hf & Hd).
    destruct (in_dec N.eq_dec m (unproc s)) as [Hin|Hni].
    - exists [], (expand_stmts (m_stmts mi)). split; [reflexivity|]. rewrite (Hu Hin). reflexivity.
    - destruct (frame_dec (frames s) m) as [(fr & Hin & Hm)|Hn].
      + destruct (Hf fr Hin Hm) as (pre & He & Ha). exists pre, (f_todo fr). split; [exact He|].
        rewrite <- Ha. reflexivity.
      + exists (expand_stmts (m_stmts mi)), []. split; [rewrite app_nil_r; reflexivity|].
        rewrite (Hd Hni Hn). unfold static_alias. rewrite Hmi. reflexivity.
  Qed.

  Lemma expand_ops_ok mi m : modinfo_of p m = Some mi -> forall op, In op (expand_stmts (m_stmts mi)) -> op_ok op.
  Proof.
    intros Hmi op Hin. destruct op as [i st| | | | |]; try exact I. destruct st; try exact I. destruct target; [|exact I].
    unfold expand_stmts in Hin. apply In_expand_from_MStmt in Hin. destruct Hin as (n & Hn & _ & _).
    apply nth_error_In in Hn. pose proof (Hplain m mi _ Hmi Hn) as Hp. discriminate.
  Qed.

  Lemma alias_static_facts s m mi mb a q : AInv s -> modinfo_of p m = Some mi -> objs s (m, 0, 0) = Some mb ->
    nget a (o_alias mb) = Some q ->
    In a (import_names mi) /\ (In a (root_names p) -> q = [a]) /\ q <> [].
  Proof.
    intros HAI Hmi Hmb Hg. destruct (alias_is_prefix s m mi mb HAI Hmi Hmb) as (pre & post & He & Ha). rewrite Ha in Hg.
    destruct (Hbo m mi Hmi) as [Hnd _]. unfold import_names in Hnd. rewrite He in Hnd.
    pose proof (alias_prefix_mono p m pre post a q Hnd Hg) as Hfull. rewrite <- He in Hfull.
    split; [|split].
    - unfold import_names. rewrite He. change (flat_map op_import_name (pre ++ post)) with (op_names (pre ++ post)).
      rewrite op_names_app. apply in_or_app. left. apply (alias_ops_keys p m). eapply nget_Some_In. exact Hg.
    - intros Hr. destruct (Hns m mi a Hmi Hr) as [_ Hq]. apply Hq. unfold static_alias. rewrite Hmi. apply nget_In. exact Hfull.
    - apply (alias_ops_vals p m pre) with a; [|exact Hg]. intros op Hin. apply (expand_ops_ok mi m Hmi). rewrite He.
      apply in_or_app. left. exact Hin.
  Qed.

  (* static resolution of a (relative) module name, for any module *)
  Lemma up_parents_static_gen s : Inv0 s -> forall k y, created_of p s y ->
    up_parents k s (Some y) = up_static p k (Some y) /\ (forall q, up_static p k (Some y) = Some q -> created_of p s q).
  Proof.
    intros HI. pose proof (i_oa p _ _ _ s HI) as HA. induction k as [|k IH]; intros y Cy; cbn [up_parents up_static].
    - split; [reflexivity|]. intros q E. inversion E; subst. exact Cy.
    - destruct (objs s y) as [yb|] eqn:Ey; [|exfalso; apply (oa_exists _ _ _ _ _ HA) in Cy; congruence].
      pose proof (oa_dom _ _ _ _ _ HA y Cy) as Hd. destruct (sobj p y) as [si|] eqn:Es; [|congruence].
      destruct (oa_static _ _ _ _ _ HA y yb si Ey Es) as (_ & _ & _ & Hp & _). rewrite Hp.
      destruct (par y) as [q|] eqn:Eq.
      + apply IH. eapply (oa_closed _ _ _ _ _ HA); eassumption.
      + split; [|intros q E; destruct k; discriminate]. destruct k; reflexivity.
  Qed.

  Lemma resolve_static_gen s m mi lvl mn : Inv0 s -> modinfo_of p m = Some mi ->
    resolve_modname s m lvl mn = static_modname p m lvl mn.
  Proof.
    intros HI Hmi. pose proof (i_oa p _ _ _ s HI) as HA. unfold resolve_modname, static_modname.
    destruct (N.eqb lvl 0); [reflexivity|]. cbv zeta.
    pose proof (created_module p s m mi Hmi) as CM.
    destruct (objs s (m, 0, 0)) as [rb|] eqn:Er; [|exfalso; apply (oa_exists _ _ _ _ _ HA) in CM; congruence].
    assert (Hs : sobj p (m, 0, 0) = Some {| s_tag := if m_pkg mi then T_PACKAGE else T_MODULE; s_kind := if m_pkg mi then K_PACKAGE else K_MODULE;
                                          s_name := m_name mi; s_parent := match m_parent mi with Some q => Some (q, 0, 0) | None => None end;
                                          s_doc := m_doc mi |}) by (unfold sobj; cbn [N.eqb]; rewrite Hmi; reflexivity).
    destruct (oa_static _ _ _ _ _ HA _ rb _ Er Hs) as (Ht & _). cbn [s_tag] in Ht.
    unfold tag_of. rewrite Er, Ht, Hmi.
    assert (Hpk : N.eqb (if m_pkg mi then T_PACKAGE else T_MODULE) T_PACKAGE = m_pkg mi) by (destruct (m_pkg mi); reflexivity).
    rewrite Hpk.
    destruct (up_parents_static_gen s HI (N.to_nat (if m_pkg mi then lvl - 1 else lvl)) (m, 0, 0) CM) as [E Hq].
    rewrite E.
    assert (Haux : forall u : option oid, (forall q, u = Some q -> created_of p s q) ->
                   match u with Some q => Some (full_name s q ++ mn) | None => None end =
                   match u with Some q => Some (skey p q ++ mn) | None => None end).
    { intros [q|] Hu; [|reflexivity]. rewrite (full_name_key p nm par _ s q HA (Hu q eq_refl)). reflexivity. }
    apply Haux. exact Hq.
  Qed.

  (* ---- transfer of the bases invariant along a transition ---- *)
  Definition alias_grows (s s' : state) : Prop :=
    forall o ob ob' a q, objs s o = Some ob -> objs s' o = Some ob' -> nget a (o_alias ob) = Some q -> nget a (o_alias ob') = Some q.

  Lemma resolve_mono_run s s' : Inv0 s -> Inv0 s' -> AInv s -> AInv s' ->
    (forall o, created_of p s o -> created_of p s' o) -> alias_grows s s' ->
    forall o ob name c, objs s o = Some ob -> resolve_name s o name = Some c -> resolve_name s' o name = Some c.
  Proof.
    intros HI HI' HAI HAI' Hcm Ham. apply (resolve_mono p Hwf Hinj Hbo Hns s s' HI HI' Hcm Ham (proj1 HAI) (proj1 HAI')).
    - intros m mi mb a q Hmi Hmb Hg. destruct (alias_static_facts s' m mi mb a q HAI' Hmi Hmb Hg) as (A & B & _). auto.
    - intros o ob a q Ho Hg. destruct (is_module_tag (o_tag ob)) eqn:Et.
      + destruct (module_obj_shape p s HI o ob Ho Et) as (m & mi & -> & Hmi).
        destruct (alias_static_facts s m mi ob a q HAI Hmi Ho Hg) as (_ & _ & C'). exact C'.
      + rewrite (proj1 HAI o ob Ho Et) in Hg. discriminate.
  Qed.

  Lemma BInv_trans s s' (X : oid -> Prop) :
    Inv0 s -> Inv0 s' -> AInv s -> AInv s' -> BInv s ->
    (forall o, created_of p s o -> created_of p s' o) -> alias_grows s s' ->
    keep FB X s s' -> (forall x ob, objs s x = Some ob -> ~ X x) ->
    (forall o ob P, objs s o = None -> objs s' o = Some ob -> o_tag ob = T_CLASS -> o_parent ob = Some P ->
       (forall n d bases mem, stmt_at p (fst (fst o)) (snd (fst o)) = Some (SClass n d bases mem) -> o_rawbases ob = bases) /\
       length (o_initbases ob) = length (o_rawbases ob) /\
       (forall i raw e c, nth_error (o_rawbases ob) i = Some raw -> nth_error (o_initbases ob) i = Some (e, Some c) ->
                          resolve_name s P raw = Some c /\ tag_of s c = Some T_CLASS /\ objs s P <> None)) ->
    BInv s'.
  Proof.
    intros HI HI' HAI HAI' HB Hcm Ham Hk HX Hnew o ob P Ho' Ht Hp.
    pose proof (resolve_mono_run s s' HI HI' HAI HAI' Hcm Ham) as Hmono.
    assert (Htag : forall c, tag_of s c = Some T_CLASS -> tag_of s' c = Some T_CLASS).
    { intros c Hc. unfold tag_of in *. destruct (objs s c) as [cb|] eqn:Ec; [|discriminate].
      destruct (obj_mono p s s' HI HI' Hcm c cb Ec) as (cb' & Ec' & T' & _). rewrite Ec', T'. exact Hc. }
    destruct (objs s o) as [ob0|] eqn:Eo.
    - destruct (Hk o ob0 Eo (HX o ob0 Eo)) as (ob1 & E1 & F1). rewrite Ho' in E1. inversion E1; subst ob1.
      unfold FB in F1. inversion F1 as [[Fr Fi]].
      destruct (obj_mono p s s' HI HI' Hcm o ob0 Eo) as (ob2 & E2 & T2 & P2 & _). rewrite Ho' in E2. inversion E2; subst ob2.
      destruct (HB o ob0 P Eo ltac:(congruence) ltac:(congruence)) as (A & L & R). rewrite Fr, Fi.
      split; [exact A|]. split; [exact L|]. intros i raw e c Hr Hi. destruct (R i raw e c Hr Hi) as [R1 R2].
      assert (HPex : exists pb, objs s P = Some pb).
      { pose proof (i_oa p _ _ _ s HI) as HA. assert (Co : created_of p s o) by (apply (oa_exists _ _ _ _ _ HA); congruence).
        pose proof (oa_dom _ _ _ _ _ HA o Co) as Hd. destruct (sobj p o) as [si|] eqn:Es; [|congruence].
        destruct (oa_static _ _ _ _ _ HA o ob0 si Eo Es) as (_ & _ & _ & P1 & _).
        assert (Hpar : par o = Some P) by congruence. pose proof (oa_closed _ _ _ _ _ HA o P Co Hpar) as CP.
        destruct (objs s P) eqn:E; [eauto|]. apply (oa_exists _ _ _ _ _ HA) in CP. congruence. }
      destruct HPex as (pb & EP). split; [eapply Hmono; eassumption|apply Htag; exact R2].
    - destruct (Hnew o ob P Eo Ho' Ht Hp) as (A & L & R). split; [exact A|]. split; [exact L|].
      intros i raw e c Hr Hi. destruct (R i raw e c Hr Hi) as (R1 & R2 & R3).
      destruct (objs s P) as [pb|] eqn:EP; [|congruence]. split; [eapply Hmono; eassumption|apply Htag; exact R2].
  Qed.

  (* ---- processModule starts ---- *)
  Lemma Inv3_begin s m s' : Inv3 s -> begin_module p s m = Next s' -> Inv3 s'.
  Proof.
    intros [HI HAI HB] Hb. pose proof (Inv_begin p nm par GoodT s m s' HI Hb I) as HI'.
    destruct (begin_module_ctl p _ _ _ Hb) as (mi & Hmi & Hmst & Hin & Hun & Hfr & _).
    assert (Hnd : NoDup (unproc s)) by apply (c_nodup p s (i_ctl p _ _ _ s HI)).
    destruct (begin_module_inv p _ _ _ Hb) as (mi' & Hmi' & _ & _ & Hs'). rewrite Hmi in Hmi'. inversion Hmi'; subst mi'.
    (* objects: only docstring and __all__ of the module change *)
    assert (Hobj : forall x xb, objs s x = Some xb -> exists xb', objs s' x = Some xb' /\ o_alias xb' = o_alias xb /\ FB xb' = FB xb /\ o_tag xb' = o_tag xb).
    { intros x xb Hx. rewrite Hs'. cbn [set_frames objs].
      match goal with |- context [upd_obj ?s0 ?o ?f] => set (s0' := s0); set (f' := f) end.
      destruct (oid_eq_dec x (m, 0, 0)) as [->|Hne].
      - assert (E0 : objs s0' (m, 0, 0) = Some xb) by exact Hx. rewrite (upd_obj_some s0' _ f' xb E0), objs_set_obj_same.
        eexists. split; [reflexivity|]. repeat split.
      - destruct (objs s0' (m, 0, 0)) as [mb|] eqn:E0; [rewrite (upd_obj_some s0' _ f' mb E0), objs_set_obj_other by exact Hne|rewrite (upd_obj_none s0' _ f' E0)];
          (exists xb; split; [exact Hx|repeat split]). }
    assert (Hobj' : forall x xb', objs s' x = Some xb' -> exists xb, objs s x = Some xb /\ o_alias xb' = o_alias xb /\ o_tag xb' = o_tag xb).
    { intros x xb' Hx'. destruct (objs s x) as [xb|] eqn:Ex.
      - destruct (Hobj x xb Ex) as (xb2 & E2 & A2 & _ & T2). rewrite Hx' in E2. inversion E2; subst xb2. eauto.
      - exfalso. pose proof (i_oa p _ _ _ s' HI') as HA'. pose proof (i_oa p _ _ _ s HI) as HA.
        assert (Cx : created_of p s' x) by (apply (oa_exists _ _ _ _ _ HA'); congruence).
        apply (created_begin p s m s' (i_ctl p _ _ _ s HI) Hb) in Cx. apply (oa_exists _ _ _ _ _ HA) in Cx. congruence. }
    assert (HAI' : AInv s').
    { destruct HAI as [HA1 HA2]. split.
      - intros x xb' Hx' Ht. destruct (Hobj' x xb' Hx') as (xb & Ex & A & T'). rewrite A. apply (HA1 x xb Ex). congruence.
      - intros m2 mi2 mb' Hmi2 Hmb'. destruct (Hobj' _ mb' Hmb') as (mb & Emb & A & _). rewrite A.
        destruct (HA2 m2 mi2 mb Hmi2 Emb) as (Hu & Hf & Hd). rewrite Hun, Hfr. split; [|split].
        + intros Hx. apply (remove1_In_iff m (unproc s) m2 Hnd) in Hx. apply Hu. tauto.
        + intros fr [<-|Hinf] Hm2; cbn [f_mod f_todo f_modname] in *.
          * subst m2. rewrite Hmi in Hmi2. inversion Hmi2; subst mi2. exists []. split; [reflexivity|]. rewrite (Hu Hin). reflexivity.
          * apply Hf; assumption.
        + intros Hnu Hnf. assert (Hne : m2 <> m) by (intros ->; apply (Hnf _ (or_introl eq_refl)); reflexivity).
          apply Hd; [intros Hx; apply Hnu; apply (remove1_In_iff m (unproc s) m2 Hnd); tauto|].
          intros fr Hinf. apply Hnf. right. exact Hinf. }
    assert (Hcm : forall o, created_of p s o -> created_of p s' o) by (intros o; apply (created_begin p s m s' (i_ctl p _ _ _ s HI) Hb)).
    assert (Ham : alias_grows s s').
    { intros o ob ob' a q Ho Ho' Hg. destruct (Hobj o ob Ho) as (ob2 & E2 & A2 & _). rewrite Ho' in E2. inversion E2; subst ob2. rewrite A2. exact Hg. }
    constructor; [exact HI'|exact HAI'|].
    apply (BInv_trans s s' (fun _ => False) HI HI' HAI HAI' HB Hcm Ham).
    - intros x xb Hx _. destruct (Hobj x xb Hx) as (xb' & E' & _ & F' & _). eauto.
    - intros x xb _ F. exact F.
    - intros o ob P Hn Ho'. exfalso. destruct (Hobj' o ob Ho') as (xb & Ex & _). congruence.
  Qed.

  (* ---- processModule ends ---- *)
  Lemma Inv3_finish s fr rest :
    Inv3 s -> frames s = fr :: rest -> f_todo fr = [] ->
    Ctl p (set_frames (set_mst s (f_mod fr) PROCESSED) rest) ->
    Inv3 (set_frames (set_mst s (f_mod fr) PROCESSED) rest).
  Proof.
    intros [HI HAI HB] Hf Ht HC'. set (s' := set_frames (set_mst s (f_mod fr) PROCESSED) rest).
    pose proof (Inv_finish p nm par GoodT s fr rest HI Hf Ht HC' I) as HI'. fold s' in HI'.
    assert (HAI' : AInv s').
    { destruct HAI as [HA1 HA2]. split; [exact HA1|]. intros m mi mb Hmi Hmb. destruct (HA2 m mi mb Hmi Hmb) as (Hu & Hfr & Hd).
      unfold s'. cbn [set_frames set_mst unproc frames]. split; [exact Hu|]. split.
      - intros fr0 Hin. apply Hfr. rewrite Hf. right. exact Hin.
      - intros Hnu Hnf. destruct (N.eq_dec (f_mod fr) m) as [E|E].
        + destruct (Hfr fr ltac:(rewrite Hf; left; reflexivity) E) as (pre & He & Ha). rewrite Ht, app_nil_r in He.
          unfold static_alias. rewrite Hmi, He, <- Ha. reflexivity.
        + apply Hd; [exact Hnu|]. intros fr0 Hin. rewrite Hf in Hin. destruct Hin as [<-|Hin]; [exact E|apply Hnf; exact Hin]. }
    constructor; [exact HI'|exact HAI'|].
    apply (BInv_trans s s' (fun _ => False) HI HI' HAI HAI' HB).
    - intros o. apply (created_finish p s fr rest Hf Ht).
    - intros o ob ob' a q Ho Ho' Hg. change (objs s' o) with (objs s o) in Ho'. congruence.
    - intros x xb Hx _. exists xb. split; [exact Hx|reflexivity].
    - intros x xb _ F. exact F.
    - intros o ob P Hn Ho'. change (objs s' o) with (objs s o) in Ho'. congruence.
  Qed.

  (* ---- one micro-operation ---- *)
  Lemma nth_error_map_Some {X Y} (f : X -> Y) l i y : nth_error (map f l) i = Some y -> exists x, nth_error l i = Some x /\ f x = y.
  Proof.
    revert i. induction l as [|x l IH]; intros [|i]; cbn [map nth_error]; try discriminate.
    - intros E. inversion E. eauto.
    - apply IH.
  Qed.

  Lemma Inv3_op s fr rest op todo s1 fr1 en :
    Inv3 s -> frames s = fr :: rest -> f_todo fr = op :: todo ->
    exec_op s (with_todo todo fr) op = (s1, fr1, en) -> Ctl p (set_frames s1 (fr1 :: rest)) ->
    Inv3 (set_frames s1 (fr1 :: rest)).
  Proof.
    intros [HI HAI HB] Hf Ht He HC2. set (s2 := set_frames s1 (fr1 :: rest)). set (m0 := f_mod fr).
    pose proof (ctl_exec_op s (with_todo todo fr) op) as Hctl. pose proof (exec_op_frame s (with_todo todo fr) op) as Hfr.
    rewrite He in Hctl, Hfr. cbn [fst snd] in Hctl, Hfr. destruct Hfr as (Hfm & Hft). cbn [with_todo f_mod f_todo] in Hfm, Hft.
    destruct (op_mi p nm par GoodT s fr rest op todo HI Hf Ht) as (mi & pre0 & Hmi & Hexp). fold m0 in Hmi.
    assert (Hop_name : forall o a mi', op = MImportName o a -> modinfo_of p (f_mod fr) = Some mi' -> ~ In a (exports_of_mod mi')).
    { intros o a mi' Hop Hmi'. fold m0 in Hmi'. rewrite Hmi in Hmi'. inversion Hmi'; subst mi'.
      assert (Hin : In (MImportName o a) (expand_stmts (m_stmts mi))) by (rewrite Hexp, Hop; apply in_or_app; right; left; reflexivity).
      destruct (In_expand_from_ImportName _ _ _ _ Hin) as (lv & mn & names & Hst & Hoa). exact (Hnomove _ mi _ Hmi Hst (o, a) Hoa). }
    assert (Hop_all : forall mi', op = MImportAll -> modinfo_of p (f_mod fr) = Some mi' -> exports_of_mod mi' = []).
    { intros mi' Hop Hmi'. fold m0 in Hmi'. rewrite Hmi in Hmi'. inversion Hmi'; subst mi'.
      assert (Hin : In MImportAll (expand_stmts (m_stmts mi))) by (rewrite Hexp, Hop; apply in_or_app; right; left; reflexivity).
      destruct (In_expand_from_ImportAll _ _ Hin) as (lv & mn & Hst). exact (Hnomove _ mi _ Hmi Hst). }
    assert (Hnostar : op <> MImportAll).
    { intros Hop. assert (Hin : In MImportAll (expand_stmts (m_stmts mi))) by (rewrite Hexp, Hop; apply in_or_app; right; left; reflexivity).
      destruct (In_expand_from_ImportAll _ _ Hin) as (lv & mn & Hst). pose proof (Hplain _ mi _ Hmi Hst). discriminate. }
    pose proof (Inv_op p nm par Hinj GoodT (static0 p) s fr rest op todo s1 fr1 en HI Hf Ht He HC2 I Hop_name Hop_all) as HI2. fold s2 in HI2.
    destruct (op_triple p nm par Hinj GoodT (static0 p) s fr rest op todo s1 fr1 en HI Hf Ht He Hop_name Hop_all) as (A2 & R2 & M2).
    fold m0 in M2.
    pose proof (created_after p nm par GoodT s fr rest op todo s1 fr1 HI Hf Ht Hctl Hfm Hft) as Hcr. fold s2 m0 in Hcr.
    pose proof (i_oa p _ _ _ s HI) as HA. pose proof (i_oa p _ _ _ s2 HI2) as HA2'.
    assert (Hcm : forall o, created_of p s o -> created_of p s2 o) by (intros o Co; apply Hcr; left; exact Co).
    pose proof (op_not_unproc p nm par GoodT s fr rest HI Hf) as Hnu. fold m0 in Hnu.
    assert (Hmod : created_of p s (m0, 0, 0)) by (eapply created_module; exact Hmi).
    destruct (objs s (m0, 0, 0)) as [mb|] eqn:Emb; [|exfalso; apply (oa_exists _ _ _ _ _ HA) in Hmod; congruence].
    (* where the walk of m0 stands *)
    destruct HAI as [HA1 HAm]. destruct (HAm m0 mi mb Hmi Emb) as (_ & Hfrm & _).
    destruct (Hfrm fr ltac:(rewrite Hf; left; reflexivity) eq_refl) as (pre & Hpre & Hal). rewrite Ht in Hpre.
    (* statements at the head *)
    assert (Hstmt : forall i st, op = MStmt i st -> stmt_at p m0 i = Some st /\ i <> 0 /\ In st (m_stmts mi)).
    { intros i st Hop. assert (Hin : In (MStmt i st) (expand_stmts (m_stmts mi))) by (rewrite Hexp, Hop; apply in_or_app; right; left; reflexivity).
      destruct (In_expand_stmt_at p m0 i st mi Hmi Hin) as [H1 H2]. split; [exact H1|]. split; [exact H2|].
      unfold expand_stmts in Hin. apply In_expand_from_MStmt in Hin. destruct Hin as (k & Hk & _). eapply nth_error_In. exact Hk. }
    assert (Hfresh : forall i st, op = MStmt i st -> forall j, ~ created_of p s (m0, i, j)).
    { intros i st Hop j [_ [Hz|Hn]]; cbn [fst snd] in *; [destruct (Hstmt i st Hop) as (_ & Hi & _); contradiction|].
      apply Hn. right. exists fr, st. split; [rewrite Hf; left; reflexivity|]. split; [reflexivity|]. rewrite Ht, Hop. left. reflexivity. }
    (* 1. the alias map and the local modname of the walking module *)
    assert (Hstep : exists mb1, objs s1 (m0, 0, 0) = Some mb1 /\ (f_modname fr1, o_alias mb1) = alias_op p m0 (f_modname fr, o_alias mb) op).
    { destruct op as [i st|level modname| |orgname|orgname asname|]; cbn [exec_op] in He; change (f_mod (with_todo todo fr)) with m0 in He;
        change (f_modname (with_todo todo fr)) with (f_modname fr) in He; change (f_modobj (with_todo todo fr)) with (f_modobj fr) in He.
      - destruct (Hstmt i st eq_refl) as (Hst & Hi & Hin).
        assert (Hs1 : s1 = exec_stmt s m0 i st) by congruence. assert (Hf1 : fr1 = with_todo todo fr) by congruence.
        pose proof (Hplain m0 mi st Hmi Hin) as Hpl.
        assert (Hdef : forall stx, stx = st ->
                          match stx with SClass _ _ _ _ | SFunc _ _ | SVar _ _ | SAll _ | SImportFrom _ _ _ | SImportStar _ _ => True | _ => False end ->
                          alias_op p m0 (f_modname fr, o_alias mb) (MStmt i stx) = (f_modname fr, o_alias mb) ->
                          exists mb1, objs s1 (m0, 0, 0) = Some mb1 /\
                                      (f_modname fr1, o_alias mb1) = alias_op p m0 (f_modname fr, o_alias mb) (MStmt i st)).
        { intros stx -> Hd Ha. destruct (keepA_exec_def s m0 i st Hd (m0, 0, 0) mb Emb) as (mb1 & E1 & A1);
            [intros [_ Hx]; cbn [fst snd] in Hx; congruence|]. exists mb1. rewrite Hs1. split; [exact E1|]. rewrite Hf1, A1, Ha. reflexivity. }
        destruct st as [cn cd bs ms|fn fd|vn vd|target value|target asname|lv mn names|lv mn|names]; try discriminate Hpl;
          try (eapply Hdef; [reflexivity|exact I|reflexivity]).
        exists (with_alias (let '(a, t) := if N.eqb asname 0 then (hd 0 target, [hd 0 target]) else (asname, target) in nset a t (o_alias mb)) mb).
        rewrite Hs1, Hf1. cbn [exec_stmt]. cbv zeta. cbn [alias_op with_todo f_modname fst snd].
        destruct (N.eqb asname 0); rewrite (upd_obj_some s (m0, 0, 0) _ mb Emb), objs_set_obj_same; split; reflexivity.
      - inversion He; subst s1 fr1 en. exists mb. split; [exact Emb|]. cbn [alias_op with_modvars with_todo f_modname snd].
        rewrite (resolve_static_gen s m0 mi level modname HI Hmi). reflexivity.
      - exists mb. destruct (f_modname fr) eqn:Emn; inversion He; subst s1 fr1 en; (split; [exact Emb|]);
          cbn [alias_op with_modvars with_todo f_modname]; rewrite ?Emn; reflexivity.
      - exists mb. assert (Hx : s1 = s /\ fr1 = with_todo todo fr).
        { destruct (f_modname fr); [|inversion He; auto]. destruct (f_modobj fr) as [mo|]; [|inversion He; auto].
          destruct (tag_of s mo) as [tg|]; [|inversion He; auto]. destruct (N.eqb tg T_PACKAGE); inversion He; auto. }
        destruct Hx as [-> ->]. split; [exact Emb|reflexivity].
      - destruct (f_modname fr) as [t|] eqn:Emn.
        + assert (Hs1 : s1 = import_name s m0 t (f_modobj fr) orgname asname) by congruence. assert (Hf1 : fr1 = with_todo todo fr) by congruence.
          pose proof (Hop_name orgname asname mi eq_refl Hmi) as Hne.
          assert (Himp : import_name s m0 t (f_modobj fr) orgname asname =
                         upd_obj s (m0, 0, 0) (fun mb0 => with_alias (nset asname (t ++ [orgname]) (o_alias mb0)) mb0)).
          { unfold import_name. cbv zeta. rewrite (exports_static p nm par GoodT s m0 mi mb HI Hmi Hnu Emb).
            destruct (f_modobj fr) as [g|]; [|reflexivity].
            rewrite (handle_reexport_not_exported s (m0, 0, 0) _ orgname asname g Hne). reflexivity. }
          rewrite Hs1, Himp, Hf1, (upd_obj_some s (m0, 0, 0) _ mb Emb), objs_set_obj_same. eexists. split; [reflexivity|].
          cbn [alias_op with_todo f_modname fst snd with_alias o_alias]. rewrite Emn. reflexivity.
        + inversion He; subst s1 fr1 en. exists mb. split; [exact Emb|]. cbn [alias_op with_todo f_modname fst]. rewrite Emn. reflexivity.
      - exfalso. apply Hnostar. reflexivity. }
    destruct Hstep as (mb1 & Emb1 & Hal1).
    (* 2. no new object unless the operation is a definition; new objects have no alias *)
    assert (Hnew_alias : forall x xb, objs s x = None -> objs s1 x = Some xb -> o_alias xb = []).
    { intros x xb Hx Hx1.
      assert (Cx : created_of p s2 x) by (apply (oa_exists _ _ _ _ _ HA2'); change (objs s2 x) with (objs s1 x); congruence).
      apply Hcr in Cx. destruct Cx as [Cx|(_ & _ & _ & st & Hop)]; [apply (oa_exists _ _ _ _ _ HA) in Cx; congruence|].
      destruct (Hstmt _ st Hop) as (_ & _ & Hin). pose proof (Hplain m0 mi st Hmi Hin) as Hpl.
      assert (Hs1 : s1 = exec_stmt s m0 (snd (fst x)) st) by (rewrite Hop in He; cbn [exec_op] in He; change (f_mod (with_todo todo fr)) with m0 in He; congruence).
      assert (Hnil : alias_nil_on (fun y => objs s y = None) s1).
      { rewrite Hs1. destruct st; try discriminate Hpl; try (apply anil_exec_def; [exact I|intros y yb Hy Hyb; congruence]).
        (* import: no object is created *)
        exfalso. rewrite Hs1 in Hx1. cbn [exec_stmt] in Hx1. cbv zeta in Hx1.
        destruct (N.eqb asname 0); rewrite (upd_obj_some s (m0, 0, 0) _ mb Emb) in Hx1; cbn [set_obj objs] in Hx1;
          (destruct (oid_eqb x (m0, 0, 0)) eqn:E; [apply oid_eqb_eq in E; subst x; congruence|congruence]). }
      exact (Hnil x xb Hx Hx1). }
    assert (Hold : forall x xb, objs s x = Some xb -> x <> (m0, 0, 0) -> exists xb1, objs s1 x = Some xb1 /\ o_alias xb1 = o_alias xb).
    { intros x xb Hx Hne. destruct (M2 x xb Hx) as (xb1 & E1 & _ & _ & A1). exists xb1. split; [exact E1|apply A1; exact Hne]. }
    assert (HAI2 : AInv s2).
    { split.
      - intros x xb Hx Htag. change (objs s2 x) with (objs s1 x) in Hx. destruct (objs s x) as [xb0|] eqn:Ex0.
        + assert (Hne : x <> (m0, 0, 0)).
          { intros ->. rewrite Emb1 in Hx. inversion Hx; subst xb.
            destruct (obj_mono p s s2 HI HI2 Hcm _ mb Emb) as (mb' & E' & T' & _). change (objs s2 (m0, 0, 0)) with (objs s1 (m0, 0, 0)) in E'.
            rewrite Emb1 in E'. inversion E'; subst mb'.
            assert (Hs : exists si, sobj p (m0, 0, 0) = Some si /\ is_module_tag (s_tag si) = true).
            { unfold sobj. cbn [N.eqb]. rewrite Hmi. eexists. split; [reflexivity|]. cbn [s_tag]. destruct (m_pkg mi); reflexivity. }
            destruct Hs as (si & Es & Hts). destruct (oa_static _ _ _ _ _ HA _ mb si Emb Es) as (T1 & _). congruence. }
          destruct (Hold x xb0 Ex0 Hne) as (xb1 & E1 & A1). rewrite Hx in E1. inversion E1; subst xb1. rewrite A1.
          apply (HA1 x xb0 Ex0). destruct (obj_mono p s s2 HI HI2 Hcm x xb0 Ex0) as (xb' & E' & T' & _).
          change (objs s2 x) with (objs s1 x) in E'. rewrite Hx in E'. inversion E'; subst xb'. congruence.
        + eapply Hnew_alias; eassumption.
      - intros m mi2 mb2 Hmi2 Hmb2. change (objs s2 (m, 0, 0)) with (objs s1 (m, 0, 0)) in Hmb2.
        unfold s2. cbn [set_frames unproc frames]. destruct Hctl as (_ & Hu & _). rewrite Hu.
        destruct (N.eq_dec m m0) as [->|Hne].
        + rewrite Hmi in Hmi2. inversion Hmi2; subst mi2. rewrite Emb1 in Hmb2. inversion Hmb2; subst mb2.
          split; [intros Hx; contradiction|]. split.
          * intros fr0 [<-|Hin] Hm.
            -- exists (pre ++ [op]). rewrite Hft, <- app_assoc. split; [exact Hpre|]. rewrite alias_ops_snoc, <- Hal. exact Hal1.
            -- exfalso. exact (op_rest_mod p nm par GoodT s fr rest HI Hf fr0 Hin Hm).
          * intros _ Hnf. exfalso. apply (Hnf fr1 (or_introl eq_refl)). exact Hfm.
        + pose proof (created_module p s m mi2 Hmi2) as Cm. destruct (objs s (m, 0, 0)) as [mbm|] eqn:Em; [|exfalso; apply (oa_exists _ _ _ _ _ HA) in Cm; congruence].
          destruct (Hold _ mbm Em ltac:(intros E; inversion E; congruence)) as (xb1 & E1 & A1). rewrite Hmb2 in E1. inversion E1; subst xb1.
          rewrite A1. destruct (HAm m mi2 mbm Hmi2 Em) as (Hu' & Hf' & Hd'). split; [exact Hu'|]. split.
          * intros fr0 [<-|Hin] Hm; [exfalso; apply Hne; rewrite <- Hm; exact Hfm|]. apply Hf'; [rewrite Hf; right; exact Hin|exact Hm].
          * intros Hnu' Hnf. apply Hd'; [exact Hnu'|]. intros fr0 Hin. rewrite Hf in Hin. destruct Hin as [<-|Hin]; [intros E; apply Hne; symmetry; exact E|].
            apply Hnf. right. exact Hin. }
    (* 3. alias maps only grow *)
    assert (Ham : alias_grows s s2).
    { intros x xb xb' a q Hx Hx' Hg. change (objs s2 x) with (objs s1 x) in Hx'. destruct (oid_eq_dec x (m0, 0, 0)) as [->|Hne].
      - rewrite Emb in Hx. inversion Hx; subst xb. rewrite Emb1 in Hx'. inversion Hx'; subst xb'.
        assert (E : o_alias mb1 = snd (alias_op p m0 (f_modname fr, o_alias mb) op)) by (rewrite <- Hal1; reflexivity).
        rewrite E. apply alias_op_mono; [|exact Hg]. cbn [snd]. intros a' Ha' Hin.
        destruct (Hbo m0 mi Hmi) as [Hnd _]. unfold import_names in Hnd. rewrite Hpre in Hnd.
        change (flat_map op_import_name (pre ++ op :: todo)) with (op_names (pre ++ op :: todo)) in Hnd.
        rewrite op_names_app in Hnd. cbn [op_names flat_map] in Hnd.
        assert (Hk : In a' (op_names pre)) by (apply (alias_ops_keys p m0); rewrite <- Hal; exact Hin).
        clear -Hnd Hk Ha'. induction (op_names pre) as [|y l IHl]; [destruct Hk|]. cbn [app] in Hnd. inversion Hnd as [|? ? Hni Hnd']; subst.
        destruct Hk as [->|Hk]; [apply Hni; apply in_or_app; right; apply in_or_app; left; exact Ha'|exact (IHl Hnd' Hk)].
      - destruct (Hold x xb Hx Hne) as (xb1 & E1 & A1). rewrite Hx' in E1. inversion E1; subst xb1. rewrite A1. exact Hg. }
    constructor; [exact HI2|exact HAI2|].
    (* 4. the bases *)
    pose proof (keepB_exec_op s (with_todo todo fr) op) as HkB. rewrite He in HkB. cbn [fst] in HkB. change (f_mod (with_todo todo fr)) with m0 in HkB.
    apply (BInv_trans s s2 (Xop m0 op) HI HI2 (conj HA1 HAm) HAI2 HB Hcm Ham).
    - exact HkB.
    - intros x xb Hx HX. destruct op as [i st| | | | |]; cbn [Xop] in HX; try exact HX.
      destruct HX as [E1 E2]. destruct x as [[xm xi] xj]. cbn [fst snd] in *. subst xm xi.
      apply (Hfresh i st eq_refl xj). apply (oa_exists _ _ _ _ _ HA). congruence.
    - intros o ob P Hn Ho' Htag Hpar. change (objs s2 o) with (objs s1 o) in Ho'.
      assert (Co : created_of p s2 o) by (apply (oa_exists _ _ _ _ _ HA2'); change (objs s2 o) with (objs s1 o); congruence).
      pose proof Co as Co'. apply Hcr in Co'. destruct Co' as [Co'|(Hd & Hm' & Hi & st & Hop)]; [apply (oa_exists _ _ _ _ _ HA) in Co'; congruence|].
      destruct o as [[om oi] oj]. cbn [fst snd] in *. subst om.
      destruct (Hstmt oi st Hop) as (Hst & _ & _).
      destruct (sobj p (m0, oi, oj)) as [si|] eqn:Es; [|congruence].
      destruct (oa_static _ _ _ _ _ HA2' _ ob si Ho' Es) as (T1 & _ & _ & P1 & _).
      rewrite (sobj_stmt p m0 oi oj st Hst) in Es.
      assert (Hcls : exists cn cd bs ms, st = SClass cn cd bs ms /\ oj = 0).
      { destruct st; cbn [stmt_info] in Es; try discriminate.
        - destruct (N.eqb oj 0) eqn:Ej; [apply N.eqb_eq in Ej; eauto 6|].
          destruct (nth_error members (N.to_nat (oj - 1))) as [[[mk n0] d0]|]; [|discriminate]. inversion Es; subst si.
          unfold member_info in T1. destruct (N.eqb mk 0); cbn [s_tag] in T1; rewrite T1 in Htag; discriminate.
        - destruct (N.eqb oj 0); [|discriminate]. inversion Es; subst si. cbn [s_tag] in T1. rewrite T1 in Htag. discriminate.
        - destruct (N.eqb oj 0); [|discriminate]. inversion Es; subst si. cbn [s_tag] in T1. rewrite T1 in Htag. discriminate. }
      destruct Hcls as (cn & cd & bs & ms & -> & ->).
      assert (Hs1 : s1 = exec_stmt s m0 oi (SClass cn cd bs ms)) by (rewrite Hop in He; cbn [exec_op] in He; change (f_mod (with_todo todo fr)) with m0 in He; congruence).
      destruct (exec_class_bases s m0 oi cn cd bs ms Hi) as (ob' & E' & Hraw & Hinit). rewrite <- Hs1, Ho' in E'.
      assert (Hob : ob' = ob) by congruence. rewrite Hob in Hraw, Hinit. clear E' Hob.
      assert (HP : P = (m0, 0, 0)).
      { cbn [stmt_info N.eqb] in Es. inversion Es; subst si. cbn [s_parent] in P1. unfold sparent in P1.
        rewrite (sobj_stmt p m0 oi 0 _ Hst) in P1. cbn [stmt_info N.eqb s_parent] in P1. congruence. }
      subst P. split; [|split].
      + intros n' d' bases' mem' Hst'. rewrite Hst in Hst'. congruence.
      + rewrite Hinit, Hraw. apply map_length.
      + intros i raw e c Hr Hie. rewrite Hinit in Hie. apply nth_error_map_Some in Hie. destruct Hie as (b & Hb & Hfb).
        rewrite Hraw in Hr. rewrite Hb in Hr. assert (raw = b) by congruence. subst raw. cbv zeta in Hfb. injection Hfb as He1 He2.
        unfold class_of in He2. destruct (pget (expand_name s (m0, 0, 0) b) (allobjs s)) as [c0|] eqn:Eg; [|discriminate].
        destruct (tag_of s c0) as [t0|] eqn:Et0; [|discriminate]. destruct (N.eqb t0 T_CLASS) eqn:Et1; [|discriminate].
        assert (c0 = c) by congruence. subst c0. apply N.eqb_eq in Et1. subst t0.
        split; [unfold resolve_name; exact Eg|]. split; [exact Et0|congruence].
  Qed.

  Lemma Inv3_step s s' : Inv3 s -> step p s = Next s' -> Inv3 s'.
  Proof.
    intros H3 H. pose proof (Ctl_step p s s' (i_ctl p _ _ _ s (i3_inv s H3)) H) as HC'.
    destruct (step_cases p _ _ H) as [(Hf & m & rest & Hu & Hb)|[(fr & rest & Hf & Ht & ->)|
      (fr & rest & op & todo & s1 & fr1 & en & Hf & Ht & He & Hen)]].
    - eapply Inv3_begin; eassumption.
    - apply Inv3_finish; assumption.
    - pose proof (Ctl_op p s fr rest op todo s1 fr1 en (i_ctl p _ _ _ s (i3_inv s H3)) Hf He) as HC1.
      pose proof (Inv3_op s fr rest op todo s1 fr1 en H3 Hf Ht He HC1) as H2.
      destruct (ensure_cases p _ _ _ Hen) as [->|(o & _ & _ & Hb)]; [exact H2|]. eapply Inv3_begin; eassumption.
  Qed.

  Lemma run_machine_ok3 fuel : forall s,
    Inv3 s -> (mu p s < fuel)%nat ->
    exists s', run_machine p fuel s = Ok s' /\ Inv3 s' /\ frames s' = [] /\ unproc s' = [].
  Proof.
    induction fuel as [|f IH]; intros s H3 Hlt; [lia|]. cbn [run_machine].
    destruct (step p s) as [s1| |k] eqn:Es.
    - apply IH; [eapply Inv3_step; eassumption|]. pose proof (step_mu p _ _ Es). lia.
    - exists s. destruct (step_halt p s Es). auto.
    - exfalso. exact (step_not_stuck p s k (i_ctl p _ _ _ s (i3_inv s H3)) (Inv_modules_valid p _ _ _ s (i3_inv s H3)) Es).
  Qed.

  (* ---- the initial state ---- *)
  Lemma Inv3_init sigma : Permutation sigma (module_ids p) -> Inv3 (init_state p sigma).
  Proof.
    intros Hperm. pose proof (Inv_init p Hinj Hwf sigma Hperm) as HI. pose proof (i_oa p _ _ _ _ HI) as HA.
    assert (Hnil : alias_nil_on (fun _ => True) (init_state p sigma)).
    { unfold init_state. eapply anil_objs; [reflexivity|]. apply anil_add_modules. intros x xb _ Hx. discriminate. }
    assert (Hfr : frames (init_state p sigma) = []) by (unfold init_state; cbn [set_unproc frames]; rewrite frames_add_modules; reflexivity).
    assert (Hin : forall m, modinfo_of p m <> None -> In m (unproc (init_state p sigma))).
    { intros m Hm. unfold init_state. cbn [set_unproc unproc]. eapply Permutation_in; [apply Permutation_sym; exact Hperm|].
      apply module_ids_In. exact Hm. }
    assert (Hmodonly : forall o ob, objs (init_state p sigma) o = Some ob -> is_module_tag (o_tag ob) = true).
    { intros o ob Ho. assert (Co : created_of p (init_state p sigma) o) by (apply (oa_exists _ _ _ _ _ HA); congruence).
      destruct Co as [Hd Hc]. destruct (sobj p o) as [si|] eqn:Es; [|congruence].
      destruct (oa_static _ _ _ _ _ HA o ob si Ho Es) as (T1 & _). rewrite T1.
      destruct o as [[m i] j]. cbn [fst snd] in Hc. destruct Hc as [->|Hn].
      - unfold sobj in Es. cbn [N.eqb] in Es. destruct (N.eqb j 0); [|discriminate]. destruct (modinfo_of p m) as [mi|]; [|discriminate].
        inversion Es. cbn. destruct (m_pkg mi); reflexivity.
      - exfalso. apply Hn. left. apply Hin. unfold sobj in Es. destruct (N.eqb i 0).
        + destruct (N.eqb j 0); [|discriminate]. destruct (modinfo_of p m); [discriminate|discriminate].
        + unfold stmt_at in Es. destruct (modinfo_of p m); [discriminate|discriminate]. }
    constructor; [exact HI| |].
    - split.
      + intros o ob Ho _. exact (Hnil o ob I Ho).
      + intros m mi mb Hmi Hmb. split; [intros _; exact (Hnil _ mb I Hmb)|]. split.
        * rewrite Hfr. intros fr [].
        * intros Hn. exfalso. apply Hn. apply Hin. congruence.
    - intros o ob P Ho Ht. pose proof (Hmodonly o ob Ho) as Hm. rewrite Ht in Hm. discriminate.
  Qed.
End Run.

(* ================================================================ the theorems *)
Section BasesTheorems.
  Variable p : project.
  Hypothesis Hwf : parents_first p.
  Hypothesis Hinj : keys_distinct p.
  Hypothesis Hnomove : no_move p.
  Hypothesis Hplain : plain_imports p.
  Hypothesis Hbo : bind_once p.
  Hypothesis Hns : no_shadow_roots p.
  Notation nm := (sname p).
  Notation par := (sparent p).
  Notation Inv0 := (Inv p nm par GoodT).
  Notation Inv3' := (Inv3 p).

  Lemma run_final sigma : Permutation sigma (module_ids p) ->
    exists s, run_state p sigma = Ok s /\ Inv3' s /\ frames s = [] /\ unproc s = [].
  Proof.
    intros Hperm. unfold run_state.
    exact (run_machine_ok3 p Hwf Hinj Hnomove Hplain Hbo Hns (run_fuel p) (init_state p sigma)
                           (Inv3_init p Hwf Hinj sigma Hperm) (init_mu p sigma Hperm)).
  Qed.

  Lemma final_created s : frames s = [] -> unproc s = [] -> forall o, created_of p s o <-> sobj p o <> None.
  Proof.
    intros Hfr Hun o. unfold created_of, pending_of. rewrite Hfr, Hun. split; [tauto|]. intros Hd. split; [exact Hd|]. right.
    intros [[]|(fr & st & [] & _)].
  Qed.

  (* (3) the final alias map of every module is the one its import statements write *)
  Lemma final_alias s : Inv3' s -> frames s = [] -> unproc s = [] ->
    forall m mi, modinfo_of p m = Some mi -> exists mb, objs s (m, 0, 0) = Some mb /\ o_alias mb = static_alias p m.
  Proof.
    intros [HI [_ HAm] _] Hfr Hun m mi Hmi. pose proof (i_oa p _ _ _ s HI) as HA.
    pose proof (created_module p s m mi Hmi) as Cm.
    destruct (objs s (m, 0, 0)) as [mb|] eqn:Em; [|exfalso; apply (oa_exists _ _ _ _ _ HA) in Cm; congruence].
    exists mb. split; [reflexivity|]. destruct (HAm m mi mb Hmi Em) as (_ & _ & Hd). apply Hd; [rewrite Hun; intros []|rewrite Hfr; intros fr []].
  Qed.

  Lemma class_of_some s c : tag_of s c = Some T_CLASS -> class_of s (Some c) = Some c.
  Proof. intros H. unfold class_of. rewrite H. reflexivity. Qed.

  Lemma final_base_snd s P : forall raws inits,
    length inits = length raws ->
    (forall i raw e c, nth_error raws i = Some raw -> nth_error inits i = Some (e, Some c) ->
                       resolve_name s P raw = Some c /\ tag_of s c = Some T_CLASS) ->
    map snd (zip_with (final_base s (Some P)) raws inits) = map (fun raw => class_of s (resolve_name s P raw)) raws.
  Proof.
    induction raws as [|raw raws IH]; intros [|ib inits] Hl Hc; cbn [zip_with map length] in *; try reflexivity; try discriminate.
    f_equal.
    - unfold final_base. destruct ib as [e [b|]]; cbn [snd fst].
      + destruct (Hc 0%nat raw e b eq_refl eq_refl) as [R1 R2]. rewrite R1, (class_of_some s b R2). reflexivity.
      + destruct (class_of s (resolve_name s P raw)); reflexivity.
    - apply IH; [lia|]. intros i raw' e c H1 H2. exact (Hc (S i) raw' e c H1 H2).
  Qed.

  Lemma class_shape s o ob : Inv0 s -> objs s o = Some ob -> o_tag ob = T_CLASS ->
    exists m i cn cd bs ms, o = (m, i, 0) /\ stmt_at p m i = Some (SClass cn cd bs ms) /\ o_parent ob = Some (m, 0, 0).
  Proof.
    intros HI Ho Ht. pose proof (i_oa p _ _ _ s HI) as HA.
    assert (Co : created_of p s o) by (apply (oa_exists _ _ _ _ _ HA); congruence).
    pose proof (oa_dom _ _ _ _ _ HA o Co) as Hd. destruct (sobj p o) as [si|] eqn:Es; [|congruence].
    destruct (oa_static _ _ _ _ _ HA o ob si Ho Es) as (T1 & _ & _ & P1 & _).
    destruct o as [[m i] j]. unfold sparent in P1. rewrite Es in P1. unfold sobj in Es.
    destruct (N.eqb i 0) eqn:Ei.
    - destruct (N.eqb j 0); [|discriminate]. destruct (modinfo_of p m) as [mi|]; [|discriminate]. inversion Es; subst si.
      cbn [s_tag] in T1. rewrite T1 in Ht. destruct (m_pkg mi); discriminate.
    - destruct (stmt_at p m i) as [st|] eqn:Est; [|discriminate]. destruct st; cbn [stmt_info] in Es; try discriminate.
      + destruct (N.eqb j 0) eqn:Ej.
        * apply N.eqb_eq in Ej. subst j. inversion Es; subst si. cbn [s_parent] in P1. exists m, i, name, doc, bases, members. auto.
        * destruct (nth_error members (N.to_nat (j - 1))) as [[[mk n0] d0]|]; [|discriminate]. inversion Es; subst si.
          unfold member_info in T1. destruct (N.eqb mk 0); cbn [s_tag] in T1; rewrite T1 in Ht; discriminate.
      + destruct (N.eqb j 0); [|discriminate]. inversion Es; subst si. cbn [s_tag] in T1. rewrite T1 in Ht. discriminate.
      + destruct (N.eqb j 0); [|discriminate]. inversion Es; subst si. cbn [s_tag] in T1. rewrite T1 in Ht. discriminate.
  Qed.

  (* two final states are related in both directions *)
  Lemma finals_related s1 s2 :
    Inv3' s1 -> frames s1 = [] -> unproc s1 = [] -> Inv3' s2 -> frames s2 = [] -> unproc s2 = [] ->
    (forall o, created_of p s1 o -> created_of p s2 o) /\ alias_grows s1 s2.
  Proof.
    intros H1 F1 U1 H2 F2 U2. split.
    - intros o Co. apply (proj2 (final_created s2 F2 U2 o)). apply (proj1 (final_created s1 F1 U1 o)). exact Co.
    - intros o ob ob' a q Ho Ho' Hg. destruct (is_module_tag (o_tag ob)) eqn:Et.
      + destruct (module_obj_shape p s1 (i3_inv p s1 H1) o ob Ho Et) as (m & mi & -> & Hmi).
        destruct (final_alias s1 H1 F1 U1 m mi Hmi) as (mb1 & E1 & A1). destruct (final_alias s2 H2 F2 U2 m mi Hmi) as (mb2 & E2 & A2).
        rewrite Ho in E1. inversion E1; subst mb1. rewrite Ho' in E2. inversion E2; subst mb2. rewrite A2, <- A1. exact Hg.
      + destruct (i3_a p s1 H1) as [HA1 _]. rewrite (HA1 o ob Ho Et) in Hg. discriminate.
  Qed.

  Theorem bases_order_free sigma1 sigma2 :
    Permutation sigma1 (module_ids p) -> Permutation sigma2 (module_ids p) ->
    exists s1 s2, run_state p sigma1 = Ok s1 /\ run_state p sigma2 = Ok s2 /\
                  forall k, baseobjs_view s1 k = baseobjs_view s2 k.
  Proof.
    intros P1 P2. destruct (run_final sigma1 P1) as (s1 & R1 & H1 & F1 & U1). destruct (run_final sigma2 P2) as (s2 & R2 & H2 & F2 & U2).
    exists s1, s2. split; [exact R1|]. split; [exact R2|]. intros k.
    pose proof (i3_inv p s1 H1) as HI1. pose proof (i3_inv p s2 H2) as HI2.
    pose proof (i_oa p _ _ _ s1 HI1) as HA1. pose proof (i_or p _ _ _ s1 HI1) as HR1.
    pose proof (i_oa p _ _ _ s2 HI2) as HA2. pose proof (i_or p _ _ _ s2 HI2) as HR2.
    destruct (finals_related s1 s2 H1 F1 U1 H2 F2 U2) as [C12 G12]. destruct (finals_related s2 s1 H2 F2 U2 H1 F1 U1) as [C21 G21].
    assert (Hreg : pget k (allobjs s1) = pget k (allobjs s2)).
    { destruct (pget k (allobjs s1)) as [o|] eqn:E1.
      - symmetry. apply (reg_mono p s1 s2 HI1 HI2 C12). exact E1.
      - destruct (pget k (allobjs s2)) as [o|] eqn:E2; [|reflexivity]. rewrite (reg_mono p s2 s1 HI2 HI1 C21 k o E2) in E1. discriminate. }
    unfold baseobjs_view. rewrite <- Hreg. destruct (pget k (allobjs s1)) as [o|] eqn:Ek; [|reflexivity].
    destruct (or_sound _ _ _ _ _ HR1 _ _ Ek) as [Co1 _]. pose proof (C12 o Co1) as Co2.
    destruct (objs s1 o) as [ob1|] eqn:Eo1; [|exfalso; apply (oa_exists _ _ _ _ _ HA1) in Co1; congruence].
    destruct (obj_mono p s1 s2 HI1 HI2 C12 o ob1 Eo1) as (ob2 & Eo2 & T12 & P12 & _).
    unfold tag_of. rewrite Eo1, Eo2, T12. destruct (N.eqb (o_tag ob1) T_CLASS) eqn:Ecls; [|reflexivity].
    apply N.eqb_eq in Ecls. f_equal.
    destruct (class_shape s1 o ob1 HI1 Eo1 Ecls) as (m & i & cn & cd & bs & ms & -> & Hst & Hp1).
    assert (Hp2 : o_parent ob2 = Some (m, 0, 0)) by congruence.
    destruct (i3_b p s1 H1 _ ob1 _ Eo1 Ecls Hp1) as (A1 & L1 & B1). destruct (i3_b p s2 H2 _ ob2 _ Eo2 ltac:(congruence) Hp2) as (A2 & L2 & B2).
    cbn [fst snd] in A1, A2. pose proof (A1 _ _ _ _ Hst) as Hr1. pose proof (A2 _ _ _ _ Hst) as Hr2.
    transitivity (map (fun x : option oid => match x with Some c => Some (full_name s1 c) | None => None end) (map snd (final_bases s1 (m, i, 0))));
      [rewrite map_map; reflexivity|].
    transitivity (map (fun x : option oid => match x with Some c => Some (full_name s2 c) | None => None end) (map snd (final_bases s2 (m, i, 0))));
      [|rewrite map_map; reflexivity].
    unfold final_bases. rewrite Eo1, Eo2, Hp1, Hp2.
    pose proof (final_base_snd s1 (m, 0, 0) _ _ L1 B1) as E1x. pose proof (final_base_snd s2 (m, 0, 0) _ _ L2 B2) as E2x.
    etransitivity; [apply f_equal; exact E1x|]. etransitivity; [|symmetry; apply f_equal; exact E2x].
    rewrite Hr1, Hr2, !map_map.
    apply map_ext. intros raw.
    pose proof (created_module p s1 m) as Cm.
    assert (Hmi : exists mi, modinfo_of p m = Some mi) by (unfold stmt_at in Hst; destruct (modinfo_of p m); [eauto|discriminate]).
    destruct Hmi as (mi & Hmi). specialize (Cm mi Hmi).
    destruct (objs s1 (m, 0, 0)) as [mb1|] eqn:Em1; [|exfalso; apply (oa_exists _ _ _ _ _ HA1) in Cm; congruence].
    destruct (obj_mono p s1 s2 HI1 HI2 C12 _ mb1 Em1) as (mb2 & Em2 & _).
    pose proof (resolve_mono_run p Hwf Hinj Hplain Hbo Hns s1 s2 HI1 HI2 (i3_a p s1 H1) (i3_a p s2 H2) C12 G12 (m, 0, 0) mb1 raw) as M12.
    pose proof (resolve_mono_run p Hwf Hinj Hplain Hbo Hns s2 s1 HI2 HI1 (i3_a p s2 H2) (i3_a p s1 H1) C21 G21 (m, 0, 0) mb2 raw) as M21.
    assert (Hres : resolve_name s1 (m, 0, 0) raw = resolve_name s2 (m, 0, 0) raw).
    { destruct (resolve_name s1 (m, 0, 0) raw) as [c|] eqn:E1; [symmetry; apply (M12 c Em1 eq_refl)|].
      destruct (resolve_name s2 (m, 0, 0) raw) as [c|] eqn:E2; [|reflexivity]. pose proof (M21 c Em2 eq_refl). congruence. }
    rewrite <- Hres. destruct (resolve_name s1 (m, 0, 0) raw) as [c|] eqn:Er; [|reflexivity].
    unfold resolve_name in Er. destruct (or_sound _ _ _ _ _ HR1 _ _ Er) as [Cc1 _].
    destruct (objs s1 c) as [cb1|] eqn:Ec1; [|exfalso; apply (oa_exists _ _ _ _ _ HA1) in Cc1; congruence].
    destruct (obj_mono p s1 s2 HI1 HI2 C12 c cb1 Ec1) as (cb2 & Ec2 & Tc & _).
    unfold class_of, tag_of. rewrite Ec1, Ec2, Tc. destruct (N.eqb (o_tag cb1) T_CLASS); [|reflexivity].
    rewrite (full_name_mono p s1 s2 HI1 HI2 C12 c Cc1). reflexivity.
  Qed.

  Theorem alias_maps_syntactic sigma :
    Permutation sigma (module_ids p) ->
    exists s, run_state p sigma = Ok s /\
              forall m mi, modinfo_of p m = Some mi -> forall a, alias_view s (skey p (m, 0, 0)) a = nget a (static_alias p m).
  Proof.
    intros Hperm. destruct (run_final sigma Hperm) as (s & R & H3 & F & U). exists s. split; [exact R|]. intros m mi Hmi a.
    destruct (final_alias s H3 F U m mi Hmi) as (mb & Em & Ea).
    pose proof (i_or p _ _ _ s (i3_inv p s H3)) as HR.
    pose proof (or_complete _ _ _ _ _ HR _ (created_module p s m mi Hmi)) as Hg. change (key p nm par (m, 0, 0)) with (skey p (m, 0, 0)) in Hg.
    unfold alias_view. rewrite Hg, Em, Ea. reflexivity.
  Qed.
End BasesTheorems.
