(* Proofs/NamesIRProofs.v -- C04, the tie to the source: the bodies of Module._localNameToFullName,
   Class._localNameToFullName, Class.find and Documentable.expandName, translated from the CURRENT pydoctor/model.py into
   the language of Model/NamesIR.v (Gen/NamesCode.v), interpret to l2f / find_member / expand_name of Model/Names.v, for
   all inputs.  Straight-line bodies: pure symbolic execution (cbn + case analysis on the dictionary lookups); loops: a
   specification of one round of the body, proved by symbolic execution against the model's step, plus a loop rule. *)
From Coq Require Import ZArith NArith List Bool Arith Lia.
From PydoctorVerif Require Import Base.ImportSyntax Model.Names Model.NamesIR Gen.NamesCode
     Proofs.NamesProofs Proofs.NamesInvProofs Proofs.NamesRunProofs.
Import ListNotations.

(* ---------------------------------------------------------------- straight-line bodies: symbolic execution *)
Ltac symex :=
  repeat (cbn -[l2f find_member mro_chain expand_name];
          match goal with
          | |- context [match child ?st ?o ?n with _ => _ end] => destruct (child st o n) eqn:?
          | |- context [match assoc ?n ?l with _ => _ end] => destruct (assoc n l) eqn:?
          | |- context [is_some (child ?st ?o ?n)] => destruct (child st o n) eqn:?
          | |- context [is_some (assoc ?n ?l)] => destruct (assoc n l) eqn:?
          end);
  cbn -[l2f find_member mro_chain expand_name]; try reflexivity.

Theorem code_module_l2f_is_model : forall st o n fuel cl cf cm,
  is_modkind (o_kind o) = true ->
  run_body st o (VStr [n]) cl cf cm code_module_l2f fuel = RReturn (VStr (l2f st o n)).
Proof.
  intros st o n fuel cl cf cm Hk. rewrite l2f_unfold. unfold run_body, code_module_l2f.
  destruct (o_kind o); try discriminate; symex.
Qed.

Theorem code_class_l2f_is_model : forall st o par n fuel cf cm,
  o_kind o = KClass -> parent_of st o = Some par ->
  run_body st o (VStr [n]) (l2f st) cf cm code_class_l2f fuel = RReturn (VStr (l2f st o n)).
Proof.
  intros st o par n fuel cf cm Hk Hpar.
  assert (Hlen : S (length (o_path par)) = length (o_path o)).
  { unfold parent_of, parent_path in Hpar. destruct (removelast (o_path o)) eqn:Er; [discriminate|].
    apply obj_for_some in Hpar. destruct Hpar as [_ Hp]. rewrite Hp, <- Er.
    apply length_removelast. intro E. rewrite E in Er. discriminate. }
  destruct (own st o n) eqn:Eo.
  - rewrite l2f_unfold. unfold run_body, code_class_l2f. unfold own in Eo. symex; discriminate.
  - rewrite (l2f_parent st o par n Hk Eo Hpar Hlen). unfold run_body, code_class_l2f. unfold own in Eo.
    symex; try discriminate; rewrite Hpar; reflexivity.
Qed.

(* ---------------------------------------------------------------- Class.find: a for loop with an early return *)
Fixpoint find_first (sel : obj -> option obj) (l : list obj) : option obj :=
  match l with
  | [] => None
  | b :: l' => match sel b with Some c => Some c | None => find_first sel l' end
  end.

Lemma find_member_chain : forall st n f c,
  find_member f st c n = find_first (fun b => child st b n) (mro_chain f st c).
Proof.
  intros st n. induction f as [|f IH]; intros c; cbn.
  - destruct (child st c n); reflexivity.
  - destruct (child st c n); [reflexivity|]. destruct (o_baseobj c); [|reflexivity].
    destruct (by_id st p); [apply IH | reflexivity].
Qed.

Lemma for_first_some : forall (B : env -> res) x (sel : obj -> option obj),
  (forall en b, match sel b with
                | Some c => B (setv en x (VObjV b)) = RReturn (VObjV c)
                | None => exists en', B (setv en x (VObjV b)) = RNormal en'
                end) ->
  forall l k en,
    match find_first sel l with
    | Some c => for_loop B None x k (map VObjV l) en = RReturn (VObjV c)
    | None => exists en', for_loop B None x k (map VObjV l) en = RNormal en'
    end.
Proof.
  intros B x sel HB. induction l as [|b l IH]; intros k en; cbn.
  - eauto.
  - specialize (HB en b). destruct (sel b) as [c|].
    + rewrite HB. reflexivity.
    + destruct HB as [en' HB]. rewrite HB. apply IH.
Qed.

Theorem code_find_is_model : forall st o n f fuel cl cf,
  run_body st o (VStr [n]) cl cf (mro_chain f st) code_find fuel = RReturn (of_opt_obj (find_member f st o n)).
Proof.
  intros st o n f fuel cl cf. rewrite find_member_chain. unfold run_body, code_find. cbn [exec eval].
  match goal with
  | |- context [for_loop ?B None ?x 0 (map VObjV ?l) ?en0] =>
    pose proof (for_first_some B x (fun b => child st b n)) as H;
    assert (HB : forall e1 b, match child st b n with
                              | Some c => B (setv e1 x (VObjV b)) = RReturn (VObjV c)
                              | None => exists e2, B (setv e1 x (VObjV b)) = RNormal e2
                              end);
    [ intros e1 b; cbn; destruct (child st b n) eqn:?; cbn; eauto
    | specialize (H HB l 0%nat en0) ]
  end.
  destruct (find_first (fun b => child st b n) (mro_chain f st o)) as [c|].
  - rewrite H. reflexivity.
  - destruct H as [en' H]. rewrite H. reflexivity.
Qed.

(* ---------------------------------------------------------------- expandName *)
Section ExpandName.
  Variable st : state.
  Definition cfind (o : obj) (n : name) : option obj := find_member (length (objs st)) st o n.

  (* one round of the model's loop: the name computed for one part, and whether the walk stops there *)
  Definition step_fn (o : obj) (first : bool) (p : name) : path * bool :=
    let fn := l2f st o p in
    let notfound := path_eqb fn [p] && negb first in
    let fn1 := if notfound then match find_for st o p with Some inh => o_path inh | None => fn end else fn in
    if notfound && path_eqb fn1 [p] then (o_path o ++ [p], true) else (fn1, false).

  Lemma expand_from_step : forall o first p rest,
    expand_from st o first (p :: rest) =
    let '(q, brk) := step_fn o first p in
    if brk then q ++ rest
    else match rest with
         | [] => q
         | _ => match obj_for st q with None => q ++ rest | Some nxt => expand_from st nxt false rest end
         end.
  Proof.
    intros o first p rest. cbn [expand_from]. unfold step_fn.
    destruct (path_eqb (l2f st o p) [p] && negb first); cbn [andb].
    - destruct (path_eqb match find_for st o p with Some inh => o_path inh | None => l2f st o p end [p]); reflexivity.
    - reflexivity.
  Qed.

  Lemma join_segs : forall l, join_dots (map (fun n => VStr [n]) l) = Some l.
  Proof. induction l as [|n l IH]; cbn; [reflexivity | rewrite IH; reflexivity]. Qed.

  Lemma join_cons_segs : forall q l, join_dots (VStr q :: map (fun n => VStr [n]) l) = Some (q ++ l).
  Proof. intros q l. cbn. rewrite join_segs. reflexivity. Qed.

  Lemma skipn_map : forall {A B} (f : A -> B) k l, skipn k (map f l) = map f (skipn k l).
  Proof. intros A B f. induction k as [|k IH]; intros l; [reflexivity|]. destruct l; cbn; [reflexivity | apply IH]. Qed.

  (* ---- shape 1: `for i, p in enumerate(parts)` with breaks, result '.'.join([full_name] + parts[i+1:]) *)
  Section ForShape.
    Variables (B : env -> res) (vparts vo vi vp vf : var).

    Definition for_body_spec : Prop :=
      forall en o k p pv, en vo = Some (VObjV o) -> en vparts = Some pv ->
        let en1 := setv (setv en vi (VInt (Z.of_nat k))) vp (VStr [p]) in
        let '(q, brk) := step_fn o (Nat.eqb k 0) p in
        if brk then
          exists en2, B en1 = RBreak en2 /\ en2 vf = Some (VStr q) /\ en2 vi = Some (VInt (Z.of_nat k)) /\ en2 vparts = Some pv
        else match obj_for st q with
             | None => exists en2, B en1 = RBreak en2 /\ en2 vf = Some (VStr q) /\ en2 vi = Some (VInt (Z.of_nat k))
                                   /\ en2 vparts = Some pv
             | Some nxt => exists en2, B en1 = RNormal en2 /\ en2 vf = Some (VStr q) /\ en2 vi = Some (VInt (Z.of_nat k))
                                       /\ en2 vparts = Some pv /\ en2 vo = Some (VObjV nxt)
             end.

    Lemma for_expand_rule : for_body_spec ->
      forall suffix o k en pv, suffix <> [] -> en vo = Some (VObjV o) -> en vparts = Some pv ->
      exists en' fn K,
        for_loop B (Some vi) vp k (map (fun n => VStr [n]) suffix) en = RNormal en' /\
        en' vf = Some (VStr fn) /\ en' vi = Some (VInt (Z.of_nat K)) /\ en' vparts = Some pv /\
        (k <= K)%nat /\ fn ++ skipn (S K - k) suffix = expand_from st o (Nat.eqb k 0) suffix.
    Proof.
      intros HB. induction suffix as [|p rest IH]; intros o k en pv Hne Ho Hp; [congruence|].
      cbn [map for_loop]. rewrite expand_from_step.
      specialize (HB en o k p pv Ho Hp). cbn zeta in HB.
      destruct (step_fn o (Nat.eqb k 0) p) as [q brk]. destruct brk.
      - destruct HB as [en2 [HBe [Hf [Hi Hpp]]]]. rewrite HBe.
        exists en2, q, k. repeat split; auto. replace (S k - k)%nat with 1%nat by lia. reflexivity.
      - destruct (obj_for st q) as [nxt|] eqn:Eo.
        + destruct HB as [en2 [HBe [Hf [Hi [Hpp Hon]]]]]. rewrite HBe.
          destruct rest as [|p2 rest].
          * cbn [map for_loop]. exists en2, q, k. replace (S k - k)%nat with 1%nat by lia.
            repeat split; auto. cbn. apply app_nil_r.
          * destruct (IH nxt (S k) en2 pv ltac:(discriminate) Hon Hpp) as [en' [fn [K [Hl [Hf' [Hi' [Hp' [Hle Heq]]]]]]]].
            exists en', fn, K. repeat split; auto; [lia|].
            replace (S K - k)%nat with (S (S K - S k)) by lia. cbn [skipn]. exact Heq.
        + destruct HB as [en2 [HBe [Hf [Hi Hpp]]]]. rewrite HBe.
          exists en2, q, k. repeat split; auto. replace (S k - k)%nat with 1%nat by lia. cbn [skipn].
          destruct rest; [apply app_nil_r | reflexivity].
    Qed.
  End ForShape.
End ExpandName.

Lemma split_dots_map : forall p, p <> [] -> split_dots p = map (fun n => VStr [n]) p.
Proof. intros p H. destruct p; [congruence | reflexivity]. Qed.

Lemma of_nat_eqb0 : forall k, Z.eqb (Z.of_nat k) 0 = Nat.eqb k 0.
Proof. destruct k; reflexivity. Qed.

(* symbolic execution of one round of the loop body against the model's step *)
Ltac step_cases st o p :=
  repeat match goal with
         | |- context [path_eqb (l2f st o p) [p]] => destruct (path_eqb (l2f st o p) [p]) eqn:?
         | |- context [kind_eqb (o_kind o) KClass] => destruct (o_kind o) eqn:?
         | |- context [match o_kind o with _ => _ end] => destruct (o_kind o) eqn:?
         | |- context [find_member ?f st o p] => destruct (find_member f st o p) eqn:?
         | |- context [path_eqb (o_path ?i) [p]] => destruct (path_eqb (o_path i) [p]) eqn:?
         end.

Section ExecLemmas.
  Variables (st : state) (self : obj) (arg : ival) (cl : obj -> name -> path) (cf : obj -> name -> option obj)
            (cm : obj -> list obj).
  Notation ex := (exec st self arg cl cf cm).
  Lemma exec_seq : forall a b fuel en,
    ex (SSeq a b) fuel en = match ex a fuel en with RNormal en' => ex b fuel en' | r => r end.
  Proof. reflexivity. Qed.
  Lemma exec_assign : forall x e fuel en,
    ex (SAssign x e) fuel en = match eval st self arg cl cf cm en e with Some v => RNormal (setv en x v) | None => RError end.
  Proof. reflexivity. Qed.
  Lemma exec_for : forall i x e body fuel en,
    ex (SFor i x e body) fuel en =
    match eval st self arg cl cf cm en e with Some (VList l) => for_loop (ex body fuel) i x O l en | _ => RError end.
  Proof. reflexivity. Qed.
  Lemma exec_while : forall e body fuel en,
    ex (SWhile e body) fuel en = while_loop (fun en' => eval st self arg cl cf cm en' e) (ex body fuel) fuel en.
  Proof. reflexivity. Qed.
  Lemma exec_return : forall e fuel en,
    ex (SReturn e) fuel en = match eval st self arg cl cf cm en e with Some v => RReturn v | None => RError end.
  Proof. reflexivity. Qed.
End ExecLemmas.

Ltac skeleton :=
  repeat (rewrite exec_seq || rewrite exec_assign || rewrite exec_for || rewrite exec_while
          || (progress cbn -[exec for_loop while_loop l2f find_member expand_name cfind])).

Ltac tidy :=
  repeat match goal with
         | H : Some ?a = Some ?b |- _ => first [ is_var a; inversion H; subst a | is_var b; inversion H; subst b ]; clear H
         | H1 : ?t = Some ?a, H2 : ?t = Some ?b |- _ => rewrite H1 in H2
         | H1 : ?t = Some _, H2 : ?t = None |- _ => rewrite H1 in H2; discriminate
         end.

Ltac objfor_cases st Hvo Hparts :=
  repeat (match goal with |- context [obj_for st ?q] => destruct (obj_for st q) eqn:? end;
          cbn -[l2f find_member Z.of_nat Z.eqb]; rewrite ?Hvo, ?Hparts).


(* ---- shape 2: first segment looked up before a `while True` loop that starts each round with objForFullName,
        a counter `consumed`, result '.'.join([expanded] + rest[consumed:]) *)
Section WhileShape.
  Variable st : state.
  Variables (B : env -> res) (cond : env -> option ival) (vrest vf vc : var) (rest : list name).

  Definition wstate (en : env) (q : path) (c : nat) : Prop :=
    en vf = Some (VStr q) /\ en vc = Some (VInt (Z.of_nat c)) /\
    en vrest = Some (VList (map (fun n => VStr [n]) rest)) /\ (c <= length rest)%nat.

  Definition while_body_spec : Prop :=
    forall en q c, wstate en q c ->
      match obj_for st q with
      | None => exists en2, B en = RBreak en2 /\ wstate en2 q c
      | Some nxt =>
        match nth_error rest c with
        | None => exists en2, B en = RBreak en2 /\ wstate en2 q c
        | Some p =>
          let '(q', brk) := step_fn st nxt false p in
          if brk then exists en2, B en = RBreak en2 /\ wstate en2 q' (S c)
          else exists en2, (B en = RNormal en2 \/ B en = RContinue en2) /\ wstate en2 q' (S c)
        end
      end.

  Lemma nth_error_skipn : forall {A} (l : list A) c x, nth_error l c = Some x -> skipn c l = x :: skipn (S c) l.
  Proof.
    intros A l. induction l as [|y l IH]; intros c x H; destruct c; cbn in *; try discriminate.
    - inversion H; reflexivity.
    - apply IH. exact H.
  Qed.

  Lemma nth_error_none_skipn : forall {A} (l : list A) c, nth_error l c = None -> skipn c l = [].
  Proof. intros A l c H. apply skipn_all2. apply nth_error_None. exact H. Qed.

  Lemma while_expand_rule : while_body_spec -> (forall en, cond en = Some (VBool true)) ->
    forall fuel c en q, (length rest - c < fuel)%nat -> wstate en q c ->
    exists en' fn K, while_loop cond B fuel en = RNormal en' /\ wstate en' fn K /\
                     fn ++ skipn K rest = continue_ st q (skipn c rest).
  Proof.
    intros HB Hc. induction fuel as [|f IH]; intros c en q Hf Hw; [lia|].
    cbn [while_loop]. rewrite Hc. cbn [truthy].
    specialize (HB en q c Hw). unfold continue_.
    destruct (obj_for st q) as [nxt|] eqn:Eo.
    - destruct (nth_error rest c) as [p|] eqn:En.
      + rewrite (nth_error_skipn _ _ _ En). rewrite expand_from_step.
        destruct (step_fn st nxt false p) as [q' brk]. destruct brk.
        * destruct HB as [en2 [HBe Hw2]]. rewrite HBe. exists en2, q', (S c). auto.
        * destruct HB as [en2 [HBe Hw2]].
          assert (Hlen : (length rest - S c < f)%nat).
          { assert (c < length rest)%nat by (apply nth_error_Some; congruence). lia. }
          destruct (IH (S c) en2 q' Hlen Hw2) as [en' [fn [K [Hl [Hw' Heq]]]]].
          exists en', fn, K. split; [destruct HBe as [E|E]; rewrite E; exact Hl|]. split; [exact Hw'|].
          rewrite Heq. unfold continue_. reflexivity.
      + destruct HB as [en2 [HBe Hw2]]. rewrite HBe. exists en2, q, c. split; [reflexivity|]. split; [exact Hw2|].
        rewrite (nth_error_none_skipn _ _ En). apply app_nil_r.
    - destruct HB as [en2 [HBe Hw2]]. rewrite HBe. exists en2, q, c. split; [reflexivity|]. split; [exact Hw2|].
      destruct (skipn c rest); [apply app_nil_r | reflexivity].
  Qed.
End WhileShape.

(* ---- shape 3: `for part in parts` with an explicit counter of consumed parts (incremented in the body),
        result '.'.join([full_name] + parts[consumed:]) *)
Section ForCounterShape.
  Variable st : state.
  Variables (B : env -> res) (vparts vo vp vf vc : var).

  Definition forc_body_spec : Prop :=
    forall en o k p pv, en vo = Some (VObjV o) -> en vparts = Some pv -> en vc = Some (VInt (Z.of_nat k)) ->
      let en1 := setv en vp (VStr [p]) in
      let '(q, brk) := step_fn st o (Nat.eqb k 0) p in
      if brk then
        exists en2, B en1 = RBreak en2 /\ en2 vf = Some (VStr q) /\ en2 vc = Some (VInt (Z.of_nat (S k))) /\ en2 vparts = Some pv
      else match obj_for st q with
           | None => exists en2, B en1 = RBreak en2 /\ en2 vf = Some (VStr q) /\ en2 vc = Some (VInt (Z.of_nat (S k)))
                                 /\ en2 vparts = Some pv
           | Some nxt => exists en2, B en1 = RNormal en2 /\ en2 vf = Some (VStr q) /\ en2 vc = Some (VInt (Z.of_nat (S k)))
                                     /\ en2 vparts = Some pv /\ en2 vo = Some (VObjV nxt)
           end.

  Lemma forc_expand_rule : forc_body_spec ->
    forall suffix o k j en pv, suffix <> [] -> en vo = Some (VObjV o) -> en vparts = Some pv ->
      en vc = Some (VInt (Z.of_nat k)) ->
    exists en' fn C,
      for_loop B None vp j (map (fun n => VStr [n]) suffix) en = RNormal en' /\
      en' vf = Some (VStr fn) /\ en' vc = Some (VInt (Z.of_nat C)) /\ en' vparts = Some pv /\
      (k < C)%nat /\ fn ++ skipn (C - k) suffix = expand_from st o (Nat.eqb k 0) suffix.
  Proof.
    intros HB. induction suffix as [|p rest IH]; intros o k j en pv Hne Ho Hp Hc; [congruence|].
    cbn [map for_loop]. rewrite expand_from_step.
    specialize (HB en o k p pv Ho Hp Hc). cbn zeta in HB.
    destruct (step_fn st o (Nat.eqb k 0) p) as [q brk]. destruct brk.
    - destruct HB as [en2 [HBe [Hf [Hc2 Hpp]]]]. rewrite HBe.
      exists en2, q, (S k). replace (S k - k)%nat with 1%nat by lia. repeat split; auto.
    - destruct (obj_for st q) as [nxt|] eqn:Eo.
      + destruct HB as [en2 [HBe [Hf [Hc2 [Hpp Hon]]]]]. rewrite HBe.
        destruct rest as [|p2 rest].
        * cbn [map for_loop]. exists en2, q, (S k). replace (S k - k)%nat with 1%nat by lia.
          repeat split; auto. cbn. apply app_nil_r.
        * destruct (IH nxt (S k) (S j) en2 pv ltac:(discriminate) Hon Hpp Hc2) as [en' [fn [C [Hl [Hf' [Hc' [Hp' [Hle Heq]]]]]]]].
          exists en', fn, C. repeat split; auto; [lia|].
          replace (C - k)%nat with (S (C - S k)) by lia. cbn [skipn]. exact Heq.
      + destruct HB as [en2 [HBe [Hf [Hc2 Hpp]]]]. rewrite HBe.
        exists en2, q, (S k). replace (S k - k)%nat with 1%nat by lia. repeat split; auto. cbn [skipn].
        destruct rest; [apply app_nil_r | reflexivity].
  Qed.
End ForCounterShape.

(* ---- shape 4: the first part looked up before a `while obj is not None and used < len(parts)` loop that keeps the object
        the expanded prefix denotes (None once a part is not found), result '.'.join([full_name] + parts[used:]) *)
Section WhileObjShape.
  Variable st : state.
  Variables (B : env -> res) (cond : env -> option ival) (vparts vf vu vobj : var) (all : list name).

  Definition ostate (en : env) (q : path) (c : nat) (oo : option obj) : Prop :=
    en vf = Some (VStr q) /\ en vu = Some (VInt (Z.of_nat c)) /\
    en vparts = Some (VList (map (fun n => VStr [n]) all)) /\ en vobj = Some (of_opt_obj oo) /\
    (c <= length all)%nat.

  Definition wo_cond_spec : Prop :=
    forall en q c oo, ostate en q c oo -> cond en = Some (VBool (is_some oo && Nat.ltb c (length all))).

  Definition wo_body_spec : Prop :=
    forall en q c nxt p, ostate en q c (Some nxt) -> nth_error all c = Some p ->
      let '(q', brk) := step_fn st nxt false p in
      exists en2, (B en = RNormal en2 \/ B en = RContinue en2) /\
                  ostate en2 q' (S c) (if brk then None else obj_for st q').

  Definition wo_target (q : path) (c : nat) (oo : option obj) : path :=
    match oo with
    | None => q ++ skipn c all
    | Some nxt => match skipn c all with [] => q | rs => expand_from st nxt false rs end
    end.

  Lemma wo_expand_rule : wo_cond_spec -> wo_body_spec ->
    forall fuel c en q oo, (length all - c < fuel)%nat -> ostate en q c oo ->
    exists en' fn K oo', while_loop cond B fuel en = RNormal en' /\ ostate en' fn K oo' /\
                         fn ++ skipn K all = wo_target q c oo.
  Proof.
    intros Hcs HB. induction fuel as [|f IH]; intros c en q oo Hf Hw; [lia|].
    cbn [while_loop]. rewrite (Hcs en q c oo Hw). cbn [truthy]. unfold wo_target.
    destruct oo as [nxt|]; cbn [is_some andb].
    - destruct (Nat.ltb c (length all)) eqn:El.
      + apply Nat.ltb_lt in El.
        destruct (nth_error all c) as [p|] eqn:En; [|apply nth_error_None in En; lia].
        specialize (HB en q c nxt p Hw En). rewrite (nth_error_skipn _ _ _ En). rewrite expand_from_step.
        destruct (step_fn st nxt false p) as [q' brk]. destruct HB as [en2 [HBe Hw2]].
        assert (Hlen : (length all - S c < f)%nat) by lia.
        destruct (IH (S c) en2 q' _ Hlen Hw2) as [en' [fn [K [oo' [Hl [Hw' Heq]]]]]].
        exists en', fn, K, oo'. split; [destruct HBe as [E|E]; rewrite E; exact Hl|]. split; [exact Hw'|].
        rewrite Heq. unfold wo_target. destruct brk; [reflexivity|].
        destruct (obj_for st q'); destruct (skipn (S c) all); try reflexivity. apply app_nil_r.
      + apply Nat.ltb_ge in El. exists en, q, c, (Some nxt). split; [reflexivity|]. split; [exact Hw|].
        rewrite skipn_all2 by exact El. apply app_nil_r.
    - exists en, q, c, None. auto.
  Qed.
End WhileObjShape.

Lemma of_nat_succ_z : forall c, (Z.of_nat c + 1)%Z = Z.of_nat (S c).
Proof. intro c. lia. Qed.

(* ---- the proof scripts of the four shapes, as tactics: symbolic execution of the translated loop body against the model's step,
        then the loop rule of the shape *)
Ltac for_body_tac st :=
  intros en o k p pv Hvo Hparts; unfold step_fn, find_for, cfind;
  rewrite <- of_nat_eqb0; destruct (Z.eqb (Z.of_nat k) 0) eqn:Ek;
  (repeat (progress (cbn -[l2f find_member Z.of_nat Z.eqb]; rewrite ?Hvo, ?Hparts, ?Ek); step_cases st o p);
   objfor_cases st Hvo Hparts;
   try congruence; tidy; try congruence;
   try (eexists; repeat split; cbn -[l2f find_member Z.of_nat Z.eqb]; rewrite ?Hvo, ?Hparts; reflexivity)).

Ltac for_rest_tac st ctx dotted Hne HB :=
  let en' := fresh "en'" in let fn := fresh "fn" in let K := fresh "K" in let Hloop := fresh "Hloop" in
  let Hf := fresh "Hf" in let Hi := fresh "Hi" in let Hp := fresh "Hp" in let Heq := fresh "Heq" in
  skeleton; rewrite (split_dots_map dotted Hne);
  match goal with
  | |- context [for_loop ?B (Some ?vi) ?vp 0 _ ?en0] =>
    match type of HB with for_body_spec _ _ ?vparts ?vo _ _ ?vf =>
      destruct (for_expand_rule st B vparts vo vi vp vf HB dotted ctx 0%nat en0
                  (VList (map (fun n => VStr [n]) dotted)) Hne eq_refl eq_refl)
        as [en' [fn [K [Hloop [Hf [Hi [Hp [_ Heq]]]]]]]]
    end
  end;
  match goal with |- context [for_loop ?a ?b ?c ?d ?e ?f] =>
    replace (for_loop a b c d e f) with (RNormal en') by (symmetry; exact Hloop) end;
  rewrite exec_return; cbn [eval]; rewrite Hf, Hi, Hp;
  replace (Z.of_nat K + 1)%Z with (Z.of_nat (S K)) by lia;
  destruct (Z.ltb_spec (Z.of_nat (S K)) 0); [lia|]; rewrite Nat2Z.id, skipn_map;
  cbn [app]; rewrite join_cons_segs;
  unfold expand_name; change (Nat.eqb 0 0) with true in Heq; rewrite <- Heq;
  replace (S K - 0)%nat with (S K) by lia; reflexivity.

Ltac for_shape_tac st ctx dotted fuel Hne :=
  unfold run_body, code_expand_name;
  match goal with
  | |- context [SSeq (SAssign ?vo ESelf) (SSeq (SFor (Some ?vi) ?vp (EVar ?vparts) ?body) (SReturn (EJoin (EConcat (ESingleton (EVar ?vf)) _))))] =>
    let HB := fresh "HB" in
    assert (HB : for_body_spec st (exec st ctx (VStr dotted) (l2f st) (cfind st) (fun _ => []) body fuel) vparts vo vi vp vf);
    [ for_body_tac st | for_rest_tac st ctx dotted Hne HB ]
  end.

Ltac while_crunch Hf Hc Hr Eo E1 E2 E3 :=
  repeat (progress (cbn -[l2f find_member Z.of_nat Z.eqb Z.ltb Z.to_nat nth_error Z.add];
                    rewrite ?Hf, ?Hc, ?Hr, ?Eo, ?E1, ?E2, ?E3, ?of_nat_succ_z)).

Ltac while_body_tac st :=
  let rest := fresh "rest" in let en := fresh "en" in let q := fresh "q" in let c := fresh "c" in
  let Hf := fresh "Hf" in let Hc := fresh "Hc" in let Hr := fresh "Hr" in let Hle := fresh "Hle" in
  let E1 := fresh "E1" in let E2 := fresh "E2" in let E3 := fresh "E3" in let Eo := fresh "Eo" in
  let En := fresh "En" in let nxt := fresh "nxt" in let p := fresh "p" in let Hlt := fresh "Hlt" in
  intros rest en q c [Hf [Hc [Hr Hle]]];
  assert (E1 : (Z.of_nat c =? Z.of_nat (length (map (fun n : name => VStr [n]) rest)))%Z
               = match nth_error rest c with Some _ => false | None => true end);
  [ rewrite map_length; destruct (nth_error rest c) eqn:En;
    [ assert (c < length rest)%nat by (apply nth_error_Some; congruence); apply Z.eqb_neq; lia
    | apply nth_error_None in En; apply Z.eqb_eq; lia ] |];
  assert (E2 : (Z.of_nat c <? 0)%Z = false) by (apply Z.ltb_ge; lia);
  assert (E3 : nth_error (map (fun n : name => VStr [n]) rest) (Z.to_nat (Z.of_nat c))
               = option_map (fun n => VStr [n]) (nth_error rest c)) by (rewrite Nat2Z.id; apply nth_error_map);
  destruct (obj_for st q) as [nxt|] eqn:Eo; [destruct (nth_error rest c) as [p|] eqn:En|];
  unfold step_fn, find_for, cfind;
  [ assert (Hlt : (S c <= length rest)%nat) by (apply nth_error_Some; congruence);
    repeat (progress (cbn -[l2f find_member Z.of_nat Z.eqb Z.ltb Z.to_nat nth_error Z.add];
                      rewrite ?Hf, ?Hc, ?Hr, ?Eo, ?E1, ?E2, ?E3, ?of_nat_succ_z); step_cases st nxt p);
    try congruence; tidy; try congruence;
    (eexists; split; [first [reflexivity | left; reflexivity | right; reflexivity]|];
     unfold wstate; repeat split;
     cbn -[l2f find_member Z.of_nat Z.eqb Z.ltb Z.to_nat nth_error Z.add];
     rewrite ?Hf, ?Hc, ?Hr, ?of_nat_succ_z; try reflexivity; try lia)
  | while_crunch Hf Hc Hr Eo E1 E2 E3;
    eexists; split; [reflexivity|]; unfold wstate; repeat split; cbn; rewrite ?Hf, ?Hc, ?Hr; try reflexivity; try lia
  | while_crunch Hf Hc Hr Eo E1 E2 E3;
    eexists; split; [reflexivity|]; unfold wstate; repeat split; cbn; rewrite ?Hf, ?Hc, ?Hr; try reflexivity; try lia ].

Ltac while_rest_tac st ctx dotted fuel Hne Hfuel HB :=
  let en' := fresh "en'" in let fn := fresh "fn" in let K := fresh "K" in let Hloop := fresh "Hloop" in
  let Hf := fresh "Hf" in let Hc := fresh "Hc" in let Hr := fresh "Hr" in let Hle := fresh "Hle" in
  let Heq := fresh "Heq" in let p0 := fresh "p0" in let rest := fresh "rest" in
  destruct dotted as [|p0 rest]; [congruence|];
  skeleton;
  match goal with
  | |- context [while_loop ?cond ?B fuel ?en0] =>
    match type of HB with forall r, while_body_spec _ _ ?vrest ?vf ?vc r =>
      destruct (while_expand_rule st B cond vrest vf vc rest (HB rest) (fun _ => eq_refl) fuel 0%nat en0 (l2f st ctx p0))
        as [en' [fn [K [Hloop [[Hf [Hc [Hr Hle]]] Heq]]]]];
      [ cbn in Hfuel; lia
      | unfold wstate; repeat split; try reflexivity; lia
      | ]
    end
  end;
  match goal with |- context [while_loop ?a ?b ?c ?d] =>
    replace (while_loop a b c d) with (RNormal en') by (symmetry; exact Hloop) end;
  rewrite exec_return; cbn [eval]; rewrite Hf, Hc, Hr;
  destruct (Z.ltb_spec (Z.of_nat K) 0); [lia|]; rewrite Nat2Z.id, skipn_map;
  cbn [app]; rewrite join_cons_segs;
  unfold expand_name; rewrite expand_from_step; unfold step_fn; cbn [negb andb]; rewrite andb_false_r;
  unfold continue_ in Heq; cbn [skipn] in Heq; rewrite Heq; reflexivity.

Ltac while_shape_tac st ctx dotted fuel Hne Hfuel :=
  unfold run_body, code_expand_name;
  match goal with
  | |- context [SSeq (SWhile ?c ?body) (SReturn (EJoin (EConcat (ESingleton (EVar ?vf)) (ESliceFrom (EVar ?vrest) (EVar ?vc)))))] =>
    let HB := fresh "HB" in
    assert (HB : forall rest, while_body_spec st (exec st ctx (VStr dotted) (l2f st) (cfind st) (fun _ => []) body fuel) vrest vf vc rest);
    [ while_body_tac st | while_rest_tac st ctx dotted fuel Hne Hfuel HB ]
  end.

Lemma ltb_1_succ : forall k, (1 <? Z.of_nat (S k))%Z = negb (Nat.eqb k 0).
Proof. destruct k; [reflexivity|]. cbn [Nat.eqb negb]. apply Z.ltb_lt. lia. Qed.
Lemma eqb_succ_1 : forall k, (Z.of_nat (S k) =? 1)%Z = Nat.eqb k 0.
Proof. destruct k; [reflexivity|]. cbn [Nat.eqb]. apply Z.eqb_neq. lia. Qed.
Lemma ltb_succ_2 : forall k, (Z.of_nat (S k) <? 2)%Z = Nat.eqb k 0.
Proof. destruct k; [reflexivity|]. cbn [Nat.eqb]. apply Z.ltb_ge. lia. Qed.

Ltac forc_body_tac st :=
  let en := fresh "en" in let o := fresh "o" in let k := fresh "k" in let p := fresh "p" in let pv := fresh "pv" in
  let Hvo := fresh "Hvo" in let Hparts := fresh "Hparts" in let Hc := fresh "Hc" in let Ek := fresh "Ek" in
  intros en o k p pv Hvo Hparts Hc; unfold step_fn, find_for, cfind;
  destruct (Nat.eqb k 0) eqn:Ek;
  (repeat (progress (cbn -[l2f find_member Z.of_nat Z.eqb Z.ltb Z.add];
                     rewrite ?Hvo, ?Hparts, ?Hc, ?of_nat_succ_z, ?ltb_1_succ, ?eqb_succ_1, ?ltb_succ_2, ?Ek);
           step_cases st o p);
   objfor_cases st Hvo Hparts;
   try congruence; tidy; try congruence;
   try (eexists; repeat split; cbn -[l2f find_member Z.of_nat Z.eqb Z.ltb Z.add];
        rewrite ?Hvo, ?Hparts, ?Hc, ?of_nat_succ_z; reflexivity)).

Ltac forc_rest_tac st ctx dotted Hne HB :=
  let en' := fresh "en'" in let fn := fresh "fn" in let C := fresh "C" in let Hloop := fresh "Hloop" in
  let Hf := fresh "Hf" in let Hc := fresh "Hc" in let Hp := fresh "Hp" in let Heq := fresh "Heq" in
  skeleton; rewrite (split_dots_map dotted Hne);
  match goal with
  | |- context [for_loop ?B None ?vp 0 _ ?en0] =>
    match type of HB with forc_body_spec _ _ ?vparts ?vo _ ?vf ?vc =>
      destruct (forc_expand_rule st B vparts vo vp vf vc HB dotted ctx 0%nat 0%nat en0
                  (VList (map (fun n => VStr [n]) dotted)) Hne eq_refl eq_refl eq_refl)
        as [en' [fn [C [Hloop [Hf [Hc [Hp [_ Heq]]]]]]]]
    end
  end;
  match goal with |- context [for_loop ?a ?b ?c ?d ?e ?f] =>
    replace (for_loop a b c d e f) with (RNormal en') by (symmetry; exact Hloop) end;
  rewrite exec_return; cbn [eval]; rewrite Hf, Hc, Hp;
  destruct (Z.ltb_spec (Z.of_nat C) 0); [lia|]; rewrite Nat2Z.id, skipn_map;
  cbn [app]; rewrite join_cons_segs;
  unfold expand_name; change (Nat.eqb 0 0) with true in Heq; rewrite <- Heq;
  replace (C - 0)%nat with C by lia; reflexivity.

Ltac forc_shape_tac st ctx dotted fuel Hne :=
  unfold run_body, code_expand_name;
  match goal with
  | |- context [SAssign ?vo ESelf] =>
    match goal with
    | |- context [SFor None ?vp (EVar ?vparts) ?body] =>
      match goal with
      | |- context [SReturn (EJoin (EConcat (ESingleton (EVar ?vf)) (ESliceFrom (EVar vparts) (EVar ?vc))))] =>
        let HB := fresh "HB" in
        assert (HB : forc_body_spec st (exec st ctx (VStr dotted) (l2f st) (cfind st) (fun _ => []) body fuel) vparts vo vp vf vc);
        [ forc_body_tac st | forc_rest_tac st ctx dotted Hne HB ]
      end
    end
  end.

Lemma ltb_of_nat : forall a b, (Z.of_nat a <? Z.of_nat b)%Z = Nat.ltb a b.
Proof.
  intros a b. destruct (Nat.ltb a b) eqn:E.
  - apply Nat.ltb_lt in E. apply Z.ltb_lt. lia.
  - apply Nat.ltb_ge in E. apply Z.ltb_ge. lia.
Qed.

Ltac wo_cond_tac :=
  let en := fresh "en" in let q := fresh "q" in let c := fresh "c" in let oo := fresh "oo" in
  let Hf := fresh "Hf" in let Hu := fresh "Hu" in let Hp := fresh "Hp" in let Ho := fresh "Ho" in let Hle := fresh "Hle" in
  intros en q c oo [Hf [Hu [Hp [Ho Hle]]]];
  cbn -[Z.of_nat Z.ltb Nat.ltb]; rewrite ?Ho, ?Hu, ?Hp;
  destruct oo; cbn -[Z.of_nat Z.ltb Nat.ltb]; rewrite ?Ho, ?Hu, ?Hp, ?map_length, ?ltb_of_nat;
  cbn -[Z.of_nat Z.ltb Nat.ltb]; rewrite ?map_length, ?ltb_of_nat; reflexivity.

Ltac wo_body_tac st all :=
  let en := fresh "en" in let q := fresh "q" in let c := fresh "c" in let nxt := fresh "nxt" in let p := fresh "p" in
  let Hf := fresh "Hf" in let Hu := fresh "Hu" in let Hp := fresh "Hp" in let Ho := fresh "Ho" in let Hle := fresh "Hle" in
  let En := fresh "En" in let E2 := fresh "E2" in let E3 := fresh "E3" in let Hlt := fresh "Hlt" in
  intros en q c nxt p [Hf [Hu [Hp [Ho Hle]]]] En;
  assert (Hlt : (S c <= length all)%nat) by (apply nth_error_Some; congruence);
  assert (E2 : (Z.of_nat c <? 0)%Z = false) by (apply Z.ltb_ge; lia);
  assert (E3 : nth_error (map (fun n : name => VStr [n]) all) (Z.to_nat (Z.of_nat c)) = Some (VStr [p]))
    by (rewrite Nat2Z.id, nth_error_map, En; reflexivity);
  cbn [of_opt_obj] in Ho;
  unfold step_fn, find_for, cfind;
  repeat (progress (cbn -[l2f find_member Z.of_nat Z.eqb Z.ltb Z.to_nat nth_error Z.add obj_for];
                    rewrite ?Hf, ?Hu, ?Hp, ?Ho, ?E2, ?E3, ?of_nat_succ_z); step_cases st nxt p);
  try congruence; tidy; try congruence;
  (eexists; split; [first [left; reflexivity | right; reflexivity]|];
   unfold ostate; repeat split;
   cbn -[l2f find_member Z.of_nat Z.eqb Z.ltb Z.to_nat nth_error Z.add obj_for];
   rewrite ?Hf, ?Hu, ?Hp, ?Ho, ?of_nat_succ_z; try reflexivity; try lia).

Ltac wo_rest_tac st ctx dotted fuel Hne Hfuel HC HB :=
  let en' := fresh "en'" in let fn := fresh "fn" in let K := fresh "K" in let oo' := fresh "oo'" in
  let Hloop := fresh "Hloop" in let Hf := fresh "Hf" in let Hu := fresh "Hu" in let Hp := fresh "Hp" in
  let Ho := fresh "Ho" in let Hle := fresh "Hle" in let Heq := fresh "Heq" in
  let p0 := fresh "p0" in let rest := fresh "rest" in
  destruct dotted as [|p0 rest]; [congruence|];
  skeleton; try (rewrite (split_dots_map (p0 :: rest) Hne); skeleton);
  match goal with
  | |- context [while_loop ?cond ?B fuel ?en0] =>
    match type of HB with forall a, wo_body_spec _ _ ?vparts ?vf ?vu ?vobj a =>
      destruct (wo_expand_rule st B cond vparts vf vu vobj (p0 :: rest) (HC (p0 :: rest)) (HB (p0 :: rest))
                  fuel 1%nat en0 (l2f st ctx p0) (obj_for st (l2f st ctx p0)))
        as [en' [fn [K [oo' [Hloop [[Hf [Hu [Hp [Ho Hle]]]] Heq]]]]]];
      [ cbn [length] in Hfuel |- *; lia
      | unfold ostate; repeat split; try reflexivity; cbn [length]; lia
      | ]
    end
  end;
  match goal with |- context [while_loop ?a ?b ?c ?d] =>
    replace (while_loop a b c d) with (RNormal en') by (symmetry; exact Hloop) end;
  rewrite exec_return; cbn [eval]; rewrite Hf, Hu, Hp;
  destruct (Z.ltb_spec (Z.of_nat K) 0); [lia|]; rewrite Nat2Z.id, skipn_map;
  cbn [app]; rewrite join_cons_segs; rewrite Heq;
  unfold expand_name; rewrite expand_from_step; unfold step_fn, wo_target; cbn [negb andb skipn]; rewrite andb_false_r; cbn [andb];
  destruct (obj_for st (l2f st ctx p0)); destruct rest; try reflexivity; rewrite ?app_nil_r; reflexivity.

Ltac wo_shape_tac st ctx dotted fuel Hne Hfuel :=
  unfold run_body, code_expand_name;
  match goal with
  | |- context [SSeq (SWhile ?c ?body) (SReturn (EJoin (EConcat (ESingleton (EVar ?vf)) (ESliceFrom (EVar ?vparts) (EVar ?vu)))))] =>
    match c with context [EIsNotNone (EVar ?vobj)] =>
      let HC := fresh "HC" in let HB := fresh "HB" in let a := fresh "a" in
      assert (HC : forall a, wo_cond_spec (fun en' => eval st ctx (VStr dotted) (l2f st) (cfind st) (fun _ => []) en' c) vparts vf vu vobj a);
      [ intro a; wo_cond_tac
      | assert (HB : forall a, wo_body_spec st (exec st ctx (VStr dotted) (l2f st) (cfind st) (fun _ => []) body fuel) vparts vf vu vobj a);
        [ intro a; wo_body_tac st a | wo_rest_tac st ctx dotted fuel Hne Hfuel HC HB ] ]
    end
  end.

(* Documentable.expandName, as it is in the source NOW (four loop shapes are recognised, each with its own loop
   rule proved above: `for i, p in enumerate(parts)` with breaks; `for p in parts` with breaks and a counter of consumed
   parts; a first lookup followed by `while True` with a counter; a first lookup followed by
   `while obj is not None and used < len(parts)` whose body may call a translated module-level helper): interpreting the translated body is
   expand_name of Model/Names.v, for every registry state, context object and non-empty dotted name; in particular it
   neither raises nor runs out of fuel when fuel >= number of segments. *)
Theorem code_expand_name_is_model : forall st ctx dotted fuel,
  dotted <> [] -> (length dotted <= fuel)%nat ->
  run_body st ctx (VStr dotted) (l2f st) (cfind st) (fun _ => []) code_expand_name fuel
  = RReturn (VStr (expand_name st ctx dotted)).
Proof.
  intros st ctx dotted fuel Hne Hfuel.
  first [ solve [for_shape_tac st ctx dotted fuel Hne]
        | solve [forc_shape_tac st ctx dotted fuel Hne]
        | solve [wo_shape_tac st ctx dotted fuel Hne Hfuel]
        | solve [while_shape_tac st ctx dotted fuel Hne Hfuel] ].
Qed.
