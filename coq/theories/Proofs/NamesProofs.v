(* Proofs/NamesProofs.v -- lemmas for C04 (Model/Names.v against Spec/PyImport.v). *)
From Coq Require Import NArith List Bool Arith Lia.
From PydoctorVerif Require Import Base.ImportSyntax Model.Names Spec.PyImport.
Import ListNotations.

Lemma removelast_firstn_len : forall (A : Type) (l : list A), removelast l = firstn (length l - 1) l.
Proof.
  induction l as [|a l IH]; [reflexivity|].
  destruct l as [|b l]; [reflexivity|].
  change (removelast (a :: b :: l)) with (a :: removelast (b :: l)).
  rewrite IH. cbn [length]. replace (S (S (length l)) - 1) with (S (S (length l) - 1)) by lia.
  reflexivity.
Qed.

Lemma parent_path_spec : forall q : path,
  parent_path q = if length q <=? 1 then None else Some (firstn (length q - 1) q).
Proof.
  intros q. unfold parent_path. rewrite removelast_firstn_len.
  destruct q as [|a [|b q]]; cbn; try reflexivity.
Qed.

Lemma walk_up_spec : forall s (p : path), p <> [] ->
  walk_up s (Some p) = if s <? length p then Some (firstn (length p - s) p) else None.
Proof.
  induction s as [|s IH]; intros p Hp.
  - cbn [walk_up]. destruct p as [|a p]; [congruence|]. cbn [length].
    replace (S (length p) - 0) with (length (a :: p)) by (cbn; lia). rewrite firstn_all. reflexivity.
  - cbn [walk_up]. rewrite parent_path_spec.
    destruct (length p <=? 1) eqn:E.
    + apply Nat.leb_le in E.
      assert (Hw : forall k, walk_up k None = None) by (destruct k; reflexivity).
      rewrite Hw. destruct (Nat.ltb_spec (S s) (length p)); try reflexivity; try lia.
    + apply Nat.leb_gt in E.
      rewrite IH.
      * rewrite firstn_length. rewrite Nat.min_l by lia.
        destruct (Nat.ltb_spec s (length p - 1)); destruct (Nat.ltb_spec (S s) (length p)); try lia; try reflexivity.
        rewrite firstn_firstn. f_equal. f_equal. lia.
      * intro H. apply (f_equal (@length _)) in H. rewrite firstn_length in H. cbn in H. lia.
Qed.

Theorem relative_level : forall (mpath : path) (is_pkg : bool) (level : nat) (modname : path),
  mpath <> [] -> import_base mpath is_pkg level modname = resolve_relative mpath is_pkg level modname.
Proof.
  intros mpath is_pkg level modname Hne.
  destruct level as [|l]; [reflexivity|].
  unfold import_base, resolve_relative.
  rewrite (walk_up_spec _ mpath Hne).
  destruct is_pkg.
  - destruct mpath as [|a mp]; [congruence|].
    set (p := a :: mp) in *.
    destruct (Nat.ltb_spec l (length p)); destruct (Nat.ltb_spec (length p) (S l)); try lia; reflexivity.
  - rewrite removelast_firstn_len.
    destruct (firstn (length mpath - 1) mpath) eqn:EF.
    + assert (length mpath <= 1).
      { apply (f_equal (@length _)) in EF. rewrite firstn_length in EF. cbn in EF. lia. }
      destruct (Nat.ltb_spec (S l) (length mpath)); [lia | reflexivity].
    + rewrite <- EF.
      assert (Hl : length (firstn (length mpath - 1) mpath) = length mpath - 1).
      { rewrite firstn_length. lia. }
      assert (length mpath >= 2).
      { apply (f_equal (@length _)) in EF. rewrite firstn_length in EF. cbn in EF. lia. }
      rewrite Hl.
      destruct (Nat.ltb_spec (S l) (length mpath)); destruct (Nat.ltb_spec (length mpath - 1) (S l)); try lia; try reflexivity.
      rewrite firstn_firstn. do 3 f_equal. lia.
Qed.
