(* Proofs/NamesProofs.v -- lemmas for C04, part 1: relative-import arithmetic; soundness of expandName for every
   state that satisfies the registry / alias-map invariants (Layer A).  Part 2 (the visitor establishes those
   invariants) is Proofs/NamesInvProofs.v. *)
From Coq Require Import NArith List Bool Arith Lia.
From PydoctorVerif Require Import Base.ImportSyntax Model.Names Spec.PyImport.
Import ListNotations.

Lemma removelast_firstn_len : forall (A : Type) (l : list A), removelast l = firstn (length l - 1) l.
Proof.
  induction l as [|a l IH]; [reflexivity|].
  destruct l as [|b l]; [reflexivity|].
  change (removelast (a :: b :: l)) with (a :: removelast (b :: l)).
  rewrite IH. cbn [length]. replace (S (S (length l)) - 1) with (S (S (length l) - 1)) by lia.
  reflexivity.
Qed.

Lemma parent_path_spec : forall q : path,
  parent_path q = if length q <=? 1 then None else Some (firstn (length q - 1) q).
Proof.
  intros q. unfold parent_path. rewrite removelast_firstn_len.
  destruct q as [|a [|b q]]; cbn; try reflexivity.
Qed.

Lemma walk_up_spec : forall s (p : path), p <> [] ->
  walk_up s (Some p) = if s <? length p then Some (firstn (length p - s) p) else None.
Proof.
  induction s as [|s IH]; intros p Hp.
  - cbn [walk_up]. destruct p as [|a p]; [congruence|]. cbn [length].
    replace (S (length p) - 0) with (length (a :: p)) by (cbn; lia). rewrite firstn_all. reflexivity.
  - cbn [walk_up]. rewrite parent_path_spec.
    destruct (length p <=? 1) eqn:E.
    + apply Nat.leb_le in E.
      assert (Hw : forall k, walk_up k None = None) by (destruct k; reflexivity).
      rewrite Hw. destruct (Nat.ltb_spec (S s) (length p)); try reflexivity; try lia.
    + apply Nat.leb_gt in E.
      rewrite IH.
      * rewrite firstn_length. rewrite Nat.min_l by lia.
        destruct (Nat.ltb_spec s (length p - 1)); destruct (Nat.ltb_spec (S s) (length p)); try lia; try reflexivity.
        rewrite firstn_firstn. f_equal. f_equal. lia.
      * intro H. apply (f_equal (@length _)) in H. rewrite firstn_length in H. cbn in H. lia.
Qed.

Theorem relative_level : forall (mpath : path) (is_pkg : bool) (level : nat) (modname : path),
  mpath <> [] -> import_base mpath is_pkg level modname = resolve_relative mpath is_pkg level modname.
Proof.
  intros mpath is_pkg level modname Hne.
  destruct level as [|l]; [reflexivity|].
  unfold import_base, resolve_relative.
  rewrite (walk_up_spec _ mpath Hne).
  destruct is_pkg.
  - destruct mpath as [|a mp]; [congruence|].
    set (p := a :: mp) in *.
    destruct (Nat.ltb_spec l (length p)); destruct (Nat.ltb_spec (length p) (S l)); try lia; reflexivity.
  - rewrite removelast_firstn_len.
    destruct (firstn (length mpath - 1) mpath) eqn:EF.
    + assert (length mpath <= 1).
      { apply (f_equal (@length _)) in EF. rewrite firstn_length in EF. cbn in EF. lia. }
      destruct (Nat.ltb_spec (S l) (length mpath)); [lia | reflexivity].
    + rewrite <- EF.
      assert (Hl : length (firstn (length mpath - 1) mpath) = length mpath - 1).
      { rewrite firstn_length. lia. }
      assert (length mpath >= 2).
      { apply (f_equal (@length _)) in EF. rewrite firstn_length in EF. cbn in EF. lia. }
      rewrite Hl.
      destruct (Nat.ltb_spec (S l) (length mpath)); destruct (Nat.ltb_spec (length mpath - 1) (S l)); try lia; try reflexivity.
      rewrite firstn_firstn. do 3 f_equal. lia.
Qed.
Lemma path_eqb_eq : forall a b : path, path_eqb a b = true <-> a = b.
Proof.
  induction a as [|x a IH]; destruct b as [|y b]; cbn; split; intro H; try reflexivity; try discriminate.
  - apply andb_true_iff in H. destruct H as [H1 H2]. apply N.eqb_eq in H1. apply IH in H2. congruence.
  - inversion H; subst. apply andb_true_iff. split; [apply N.eqb_refl | apply IH; reflexivity].
Qed.

Lemma path_eqb_refl : forall a, path_eqb a a = true.
Proof. intro a. apply path_eqb_eq. reflexivity. Qed.

Lemma obj_for_some : forall st q o, obj_for st q = Some o -> In o (objs st) /\ o_path o = q.
Proof.
  unfold obj_for. intros st q o H. apply find_some in H. destruct H as [H1 H2].
  split; [exact H1 | apply path_eqb_eq; exact H2].
Qed.

Definition flat (v : value) : path := match v with VMod m => m | VObj m q => m ++ q end.
Definition is_modv (v : value) : bool := match v with VMod _ => true | VObj _ _ => false end.
Definition denotes (o : obj) (v : value) : Prop := o_id o = flat v /\ is_modkind (o_kind o) = is_modv v.
Definition scope_val (m qual : path) : value := match qual with [] => VMod m | _ => VObj m qual end.

Section Sound.
  Variable P : project.
  Variable st : state.

  Record coherent : Prop := {
    (* the registry is sound: an object registered under a full name IS what that name denotes in Python *)
    C_reg : forall o v, In o (objs st) -> py_abs P (o_path o) v -> denotes o v;
    (* every alias-map entry n |-> q of a namespace object: q, read as an absolute Python expression, has the
       value of attribute n of that namespace *)
    C_amap : forall o n q vo v', In o (objs st) -> assoc n (o_amap o) = Some q ->
               py_abs P (o_path o) vo -> py_attr P vo n v' -> py_abs P q v';
    (* names pydoctor knows in a class namespace are bound by the class body itself *)
    C_own : forall o m qual body n, In o (objs st) -> py_abs P (o_path o) (VObj m qual) ->
               own st o n = true ->
               scope_body P m qual = Some body -> binder_of body n <> None;
    (* Class.find: a member found in a base class is the inherited attribute *)
    C_find : forall c n inh vo v', In c (objs st) ->
               child st c n = None -> assoc n (o_amap c) = None ->
               find_for st c n = Some inh -> find_closed (length (objs st)) st c n = true ->
               py_abs P (o_path c) vo -> py_attr P vo n v' -> py_abs P (o_path inh) v'
  }.

  Lemma py_attrs_app : forall v r1 v1 r2 v2,
    py_attrs P v r1 v1 -> py_attrs P v1 r2 v2 -> py_attrs P v (r1 ++ r2) v2.
  Proof.
    intros v r1. revert v. induction r1 as [|n r1 IH]; intros v v1 r2 v2 H1 H2.
    - inversion H1; subst. exact H2.
    - inversion H1; subst. cbn. econstructor; [eassumption|]. eapply IH; eassumption.
  Qed.

  Lemma py_abs_app : forall q vo rest v,
    py_abs P q vo -> py_attrs P vo rest v -> py_abs P (q ++ rest) v.
  Proof.
    intros q vo rest v Hq Hr. destruct q as [|a q]; [destruct Hq|].
    destruct Hq as [Hm Ha]. cbn. split; [exact Hm|]. eapply py_attrs_app; eassumption.
  Qed.

  Lemma py_abs_snoc : forall q vo p v', py_abs P q vo -> py_attr P vo p v' -> py_abs P (q ++ [p]) v'.
  Proof.
    intros. eapply py_abs_app; [eassumption|]. econstructor; [eassumption|constructor].
  Qed.

  (* the Python step for one part: LOAD_NAME for the first part, getattr afterwards *)
  Definition pstep (first : bool) (vo : value) (p : name) (v' : value) : Prop :=
    if first then exists m qual, vo = scope_val m qual /\ py_name P m qual p v'
    else py_attr P vo p v'.

  Hypothesis Hc : coherent.

  (* a name found in the context itself is an attribute of the context value *)
  Lemma first_step_attr : forall o vo p v',
    In o (objs st) -> py_abs P (o_path o) vo -> pstep true vo p v' ->
    own st o p = true ->
    py_attr P vo p v'.
  Proof.
    intros o vo p v' Hin Hden [m [qual [Hvo Hn]]] Hown. subst vo.
    destruct qual as [|c qual].
    - cbn in *. inversion Hn; subst.
      + constructor. assumption.
      + congruence.
    - cbn [scope_val] in *. inversion Hn; subst.
      + apply pa_own; [discriminate | assumption].
      + exfalso. eapply (C_own Hc); eauto.
  Qed.


  Lemma l2f_unfold : forall o n,
    l2f st o n =
    match child st o n with
    | Some c => o_path c
    | None => match assoc n (o_amap o) with
              | Some q => q
              | None => match o_kind o with
                        | KClass => match length (o_path o) with
                                    | O => [n]
                                    | S f => match parent_of st o with
                                             | Some p => local_to_full f st p n
                                             | None => [n]
                                             end
                                    end
                        | _ => [n]
                        end
              end
    end.
  Proof. intros o n. unfold l2f. destruct (length (o_path o)); reflexivity. Qed.

  Lemma child_path : forall o p c, child st o p = Some c -> In c (objs st) /\ o_path c = o_path o ++ [p].
  Proof. intros o p c H. unfold child in H. apply obj_for_some in H. exact H. Qed.

  Lemma snoc_not_single : forall (q : path) p, q <> [] -> path_eqb (q ++ [p]) [p] = false.
  Proof.
    intros q p Hq. destruct (path_eqb (q ++ [p]) [p]) eqn:E; [|reflexivity].
    apply path_eqb_eq in E. apply (f_equal (@length _)) in E. rewrite app_length in E. cbn in E.
    destruct q; [congruence | cbn in E; lia].
  Qed.

  Lemma py_abs_nonempty : forall q v, py_abs P q v -> q <> [].
  Proof. intros q v H. destruct q; [destruct H | discriminate]. Qed.

  (* what happens after the name of one part has been computed *)
  Definition continue_ (fn1 : path) (rest : list name) : path :=
    match rest with
    | [] => fn1
    | _ => match obj_for st fn1 with
           | None => fn1 ++ rest
           | Some nxt => expand_from st nxt false rest
           end
    end.
  Definition continue_ok (fn1 : path) (rest : list name) : bool :=
    match rest with
    | [] => true
    | _ => match obj_for st fn1 with
           | None => true
           | Some nxt => trail_ok st nxt false rest
           end
    end.

  Lemma expand_from_sound : forall parts o first vo v,
    In o (objs st) -> py_abs P (o_path o) vo ->
    (match parts with
     | [] => False
     | p :: rest => exists v', pstep first vo p v' /\ py_attrs P v' rest v
     end) ->
    trail_ok st o first parts = true ->
    py_abs P (expand_from st o first parts) v.
  Proof.
    induction parts as [|p rest IH]; intros o first vo v Hin Habs Hpy Hok; [destruct Hpy|].
    destruct Hpy as [v' [Hstep Hrest]].
    assert (Hne : o_path o <> []) by (eapply py_abs_nonempty; eassumption).
    (* the continuation is sound for any sound name of this part *)
    assert (Hcont : forall fn1, py_abs P fn1 v' -> continue_ok fn1 rest = true ->
                                py_abs P (continue_ fn1 rest) v).
    { intros fn1 Hfn1 Hk. unfold continue_, continue_ok in *.
      destruct rest as [|r rest'].
      - inversion Hrest; subst. exact Hfn1.
      - destruct (obj_for st fn1) as [nxt|] eqn:En.
        + apply obj_for_some in En. destruct En as [Hinn Hpn].
          eapply IH; [exact Hinn | rewrite Hpn; exact Hfn1 | | exact Hk].
          inversion Hrest; subst. eexists. split; [cbn; eassumption | eassumption].
        + eapply py_abs_app; eassumption. }
    (* the break is always sound *)
    assert (Hbreak : py_attr P vo p v' -> py_abs P ((o_path o ++ [p]) ++ rest) v).
    { intro Ha. eapply py_abs_app; [eapply py_abs_snoc; eassumption | exact Hrest]. }
    cbn [trail_ok] in Hok. cbn [expand_from]. unfold own in Hok.
    fold (continue_ok) in Hok.
    rewrite (l2f_unfold o p) in *.
    apply andb_true_iff in Hok. destruct Hok as [Hhere Hk].
    destruct (child st o p) as [c|] eqn:Ech.
    - (* the name is in the contents of the object *)
      assert (Hattr : py_attr P vo p v').
      { destruct first; [|exact Hstep]. eapply first_step_attr; eauto. unfold own. rewrite Ech. reflexivity. }
      destruct (child_path _ _ _ Ech) as [_ Hpc].
      rewrite Hpc in *. rewrite (snoc_not_single _ p Hne) in *. cbn [andb] in *.
      apply Hcont; [eapply py_abs_snoc; eassumption | exact Hk].
    - destruct (assoc p (o_amap o)) as [q|] eqn:Eas.
      + (* the name is in the alias map of the object *)
        assert (Hattr : py_attr P vo p v').
        { destruct first; [|exact Hstep]. eapply first_step_attr; eauto. unfold own. rewrite Ech, Eas. reflexivity. }
        assert (Hq : py_abs P q v') by (eapply (C_amap Hc); eassumption).
        cbn [is_some orb] in Hhere.
        destruct (path_eqb q [p] && negb first) eqn:Enf.
        * apply andb_true_iff in Enf. destruct Enf as [Eq Ef]. destruct first; [discriminate|].
          assert (Efm : find_for st o p = None).
          { unfold find_for in *. destruct (o_kind o); try reflexivity.
            rewrite Eq in Hhere. cbn in Hhere. destruct (find_member _ st o p); [discriminate|reflexivity]. }
          rewrite Efm in *. rewrite Eq in *. cbn [andb] in *. apply Hbreak. exact Hattr.
        * cbn [andb] in *. apply Hcont; assumption.
      + (* not found in the object itself *)
        cbn [is_some orb] in Hhere.
        destruct first; [discriminate|]. cbn [negb andb] in *. rewrite andb_true_r in *.
        cbn [pstep] in Hstep.
        destruct (find_for st o p) as [inh|] eqn:Efm.
        * assert (Hk' : o_kind o = KClass).
          { unfold find_for in Efm. destruct (o_kind o); try discriminate. reflexivity. }
          rewrite Hk' in *. cbn [is_some negb orb] in Hhere.
          apply andb_true_iff in Hhere. destruct Hhere as [Hhere Hclosed]. rewrite Hhere in *.
          assert (Hinh : py_abs P (o_path inh) v') by (eapply (C_find Hc); eassumption).
          destruct (path_eqb (o_path inh) [p]) eqn:Ei.
          -- apply Hbreak. exact Hstep.
          -- apply Hcont; assumption.
        * assert (Efn : path_eqb
                   match o_kind o with
                   | KClass => match length (o_path o) with
                               | 0 => [p]
                               | S f => match parent_of st o with
                                        | Some p0 => local_to_full f st p0 p
                                        | None => [p]
                                        end
                               end
                   | _ => [p]
                   end [p] = true).
          { destruct (o_kind o); try apply path_eqb_refl. apply andb_true_iff in Hhere. apply Hhere. }
          rewrite Efn in *. rewrite Efn. apply Hbreak. exact Hstep.
  Qed.

  (* expandName: the dotted name it returns, read as a Python expression over sys.modules, has the value
     Python gives the original name in the context *)
  Theorem expand_sound : forall ctx m qual dotted v,
    In ctx (objs st) -> py_abs P (o_path ctx) (scope_val m qual) ->
    py_lookup P m qual dotted v ->
    trail_ok st ctx true dotted = true ->
    py_abs P (expand_name st ctx dotted) v.
  Proof.
    intros ctx m qual dotted v Hin Habs Hpy Hok. unfold expand_name.
    eapply expand_from_sound; try eassumption.
    unfold py_lookup in Hpy. inversion Hpy; subst.
    eexists. split; [|eassumption]. cbn. exists m, qual. split; [reflexivity|assumption].
  Qed.

  Theorem resolve_sound : forall ctx m qual dotted v o,
    In ctx (objs st) -> py_abs P (o_path ctx) (scope_val m qual) ->
    py_lookup P m qual dotted v ->
    trail_ok st ctx true dotted = true ->
    resolve_name st ctx dotted = Some o ->
    denotes o v.
  Proof.
    intros ctx m qual dotted v o Hin Habs Hpy Hok Hres. unfold resolve_name in Hres.
    apply obj_for_some in Hres. destruct Hres as [Hino Hpo].
    eapply (C_reg Hc); [exact Hino|]. rewrite Hpo. eapply expand_sound; eassumption.
  Qed.
End Sound.

(* ---------------------------------------------------------------- the evaluator of Spec/PyImport.v is sound for the relations *)
Definition top_no_star (l : list stmt) : bool :=
  forallb (fun s => match s with SStar _ _ => false | _ => true end) l.

Lemma scan_body_rev : forall n sv eb d body, top_no_star body = true ->
  forall l2, scan_body n sv eb d (rev body ++ l2) =
             match binder_of body n with Some b => eb b | None => scan_body n sv eb d l2 end.
Proof.
  intros n sv eb d. induction body as [|s rest IH]; intros Hns l2; [reflexivity|].
  cbn [top_no_star forallb] in Hns. apply andb_true_iff in Hns. destruct Hns as [Hs Hrest].
  cbn [rev]. rewrite <- app_assoc. cbn [app]. rewrite (IH Hrest). cbn [binder_of].
  destruct (binder_of rest n); [reflexivity|].
  destruct s; try discriminate; reflexivity.
Qed.

Lemma no_star_top : forall body, forallb no_star_stmt body = true -> top_no_star body = true.
Proof.
  intros body H. unfold top_no_star. rewrite forallb_forall in *. intros s Hs. specialize (H s Hs).
  destruct s; try reflexivity. discriminate.
Qed.

Lemma from_binder_not_class : forall l m names n base b, from_binder l m names n <> Some (BClass base b).
Proof.
  induction names as [|[o a] names IH]; intros n base b H; [discriminate|].
  cbn in H. destruct (from_binder l m names n) eqn:E.
  - inversion H; subst. eapply IH; eassumption.
  - destruct (N.eqb _ n); discriminate.
Qed.

Lemma binder_class_in : forall body c base b, binder_of body c = Some (BClass base b) -> In (SClass c base b) body.
Proof.
  induction body as [|s rest IH]; intros c base b H; [discriminate|].
  cbn in H. destruct (binder_of rest c) eqn:E.
  - inversion H; subst. right. apply IH. exact E.
  - left. destruct s as [t a | l m ns | l m | c0 base0 b0 | f | x e]; cbn in H.
    + destruct t; destruct a; try discriminate; destruct (N.eqb _ c); discriminate.
    + exfalso. eapply from_binder_not_class; eassumption.
    + discriminate.
    + destruct (N.eqb c0 c) eqn:En; [|discriminate]. apply N.eqb_eq in En. inversion H; subst. reflexivity.
    + destruct (N.eqb f c); discriminate.
    + destruct (N.eqb x c); discriminate.
Qed.

Lemma descend_no_star : forall qual body b, forallb no_star_stmt body = true -> descend body qual = Some b ->
  forallb no_star_stmt b = true.
Proof.
  induction qual as [|c qual IH]; intros body b Hns Hd.
  - inversion Hd; subst. exact Hns.
  - cbn in Hd. destruct (binder_of body c) as [[base cb| | | | |]|] eqn:E; try discriminate.
    apply binder_class_in in E. rewrite forallb_forall in Hns. specialize (Hns _ E). cbn in Hns.
    eapply IH; [|eassumption]. exact Hns.
Qed.

Lemma scan_body_cases : forall n sv eb d body l2 v,
  scan_body n sv eb d (rev body ++ l2) = Some v ->
  (exists l mn, In (SStar l mn) body /\ sv l mn = Some v) \/
  (exists b, binder_of body n = Some b /\ eb b = Some v) \/
  (binder_of body n = None /\ scan_body n sv eb d l2 = Some v).
Proof.
  intros n sv eb d. induction body as [|s rest IH]; intros l2 v H.
  - right. right. split; [reflexivity | exact H].
  - cbn [rev] in H. rewrite <- app_assoc in H. cbn [app] in H.
    destruct (IH _ _ H) as [[l [mn [Hin Hs]]] | [[b [Hb He]] | [Hb Hs]]].
    + left. exists l, mn. split; [right; exact Hin | exact Hs].
    + right. left. exists b. split; [cbn; rewrite Hb; reflexivity | exact He].
    + cbn [binder_of]. rewrite Hb.
      destruct s as [t a | l m ns | l mn | c base cb | f | x e]; cbn [scan_body] in Hs.
      * destruct (stmt_binder (SImport t a) n) as [b|] eqn:E; [right; left; eauto | right; right; auto].
      * destruct (stmt_binder (SFrom l m ns) n) as [b|] eqn:E; [right; left; eauto | right; right; auto].
      * destruct (sv l mn) as [v'|] eqn:E.
        -- inversion Hs; subst. left. exists l, mn. split; [left; reflexivity | exact E].
        -- right. right. split; [reflexivity | exact Hs].
      * destruct (stmt_binder (SClass c base cb) n) as [b|] eqn:E; [right; left; eauto | right; right; auto].
      * destruct (stmt_binder (SDef f) n) as [b|] eqn:E; [right; left; eauto | right; right; auto].
      * destruct (stmt_binder (SAlias x e) n) as [b|] eqn:E; [right; left; eauto | right; right; auto].
Qed.

Section EvSound.
  Variable P : project.

  Definition req_sem (r : req) (v : value) : Prop :=
    match r with
    | RNs m qual n => py_ns P m qual n v
    | RAttr vo n => py_attr P vo n v
    | RName m qual d => py_name P m qual d v
    | REval m qual e => py_eval P m qual e v
    end.

  Lemma fold_attrs : forall f rest acc v,
    (forall r v, ev P f r = Some v -> req_sem r v) ->
    fold_left (fun acc p => match acc with Some v => ev P f (RAttr v p) | None => None end) rest (Some acc) = Some v ->
    py_attrs P acc rest v.
  Proof.
    intros f rest. induction rest as [|p rest IH]; intros acc v Hev H.
    - cbn in H. inversion H; subst. constructor.
    - cbn in H. destruct (ev P f (RAttr acc p)) as [v1|] eqn:E.
      + econstructor; [apply (Hev (RAttr acc p)); exact E | apply IH; assumption].
      + exfalso. clear -H. induction rest as [|q rest IHr]; cbn in H; [discriminate | auto].
  Qed.

  Theorem ev_sound : forall fuel r v, ev P fuel r = Some v -> req_sem r v.
  Proof.
    induction fuel as [|f IH]; intros r v H; [discriminate|].
    destruct r as [m qual n | vo n | m qual d | m qual e]; cbn [ev] in H; cbn [req_sem].
    - (* namespace *)
      destruct (find_module P m) as [mm|] eqn:Efm; [|discriminate].
      destruct (scope_body P m qual) as [body|] eqn:Esb; [|discriminate].
      rewrite <- (app_nil_r (rev body)) in H.
      apply scan_body_cases in H. destruct H as [[l [mn [Hin H]]] | [[b [Eb H]] | [Eb H]]].
      + (* bound by a star import *)
        destruct qual as [|q0 qual]; [|discriminate].
        destruct (resolve_relative m (m_pkg mm) l mn) as [X|] eqn:Er; [|discriminate].
        destruct (is_module P X) eqn:Em; [|discriminate].
        destruct (path_eqb X m) eqn:Ex; [discriminate|]. cbn [negb andb] in H.
        destruct (exported P X n) eqn:Ee; [|discriminate].
        assert (Hb : body = m_body mm).
        { unfold scope_body in Esb. rewrite Efm in Esb. cbn in Esb. inversion Esb; reflexivity. }
        subst body.
        eapply ns_star; try eassumption. apply (IH (RNs X [] n)). exact H.
      + eapply ns_bind; try eassumption.
        destruct b as [base cb | | a | t | level modname orig | expr].
        * inversion H; subst. constructor.
        * inversion H; subst. constructor.
        * destruct (is_module P [a]) eqn:Em; [|discriminate]. inversion H; subst. constructor. exact Em.
        * destruct (is_module P t) eqn:Em; [|discriminate]. inversion H; subst. constructor. exact Em.
        * destruct (resolve_relative m (m_pkg mm) level modname) as [X|] eqn:Er; [|discriminate].
          destruct (path_eqb X m) eqn:Ex.
          -- apply path_eqb_eq in Ex. subst X.
             destruct (is_module P (m ++ [orig])) eqn:Em; [|discriminate]. inversion H; subst.
             eapply pb_from_self; eassumption.
          -- destruct (is_module P X) eqn:Em; [|discriminate].
             eapply pb_from; try eassumption. apply (IH (RNs X [] orig)). exact H.
        * constructor. apply (IH (REval m qual expr)). exact H.
      + cbn [scan_body] in H. destruct qual as [|q0 qual]; [|discriminate].
        destruct (m_pkg mm) eqn:Ep; [|discriminate]. cbn in H.
        destruct (is_module P (m ++ [n])) eqn:Em; [|discriminate]. inversion H; subst.
        eapply ns_submod; try eassumption.
        unfold scope_body in Esb. rewrite Efm in Esb. cbn in Esb. inversion Esb; subst. exact Eb.
    - (* attribute *)
      destruct vo as [X | m qual].
      + constructor. apply (IH (RNs X [] n)). exact H.
      + destruct qual as [|q0 qual]; [discriminate|].
        destruct (scope_body P m (q0 :: qual)) as [body|] eqn:Esb; [|discriminate].
        destruct (binder_of body n) as [b|] eqn:Eb.
        * apply pa_own; [discriminate|]. apply (IH (RNs m (q0 :: qual) n)). exact H.
        * destruct (class_base P m (q0 :: qual)) as [bexpr|] eqn:Ecb; [|discriminate].
          destruct (ev P f (REval m (removelast (q0 :: qual)) bexpr)) as [[X|m' q']|] eqn:Ee; try discriminate.
          eapply pa_inh; try eassumption; [discriminate | |].
          -- apply (IH (REval m (removelast (q0 :: qual)) bexpr)). exact Ee.
          -- apply (IH (RAttr (VObj m' q') n)). exact H.
    - (* name *)
      destruct qual as [|q0 qual].
      + apply pn_own. apply (IH (RNs m [] d)). exact H.
      + destruct (scope_body P m (q0 :: qual)) as [body|] eqn:Esb; [|discriminate].
        destruct (binder_of body d) as [b|] eqn:Eb.
        * apply pn_own. apply (IH (RNs m (q0 :: qual) d)). exact H.
        * eapply pn_global; try eassumption; [discriminate|]. apply (IH (RNs m [] d)). exact H.
    - (* dotted expression *)
      destruct e as [|d rest]; [discriminate|].
      destruct (ev P f (RName m qual d)) as [v0|] eqn:En; [|discriminate].
      econstructor; [apply (IH (RName m qual d)); exact En|].
      eapply fold_attrs; [exact IH | exact H].
  Qed.
End EvSound.

(* absolute names through the evaluator *)
Definition ev_abs (P : project) (fuel : nat) (q : path) : option value :=
  match q with
  | [] => None
  | a :: rest =>
    if is_module P [a]
    then fold_left (fun acc p => match acc with Some v => ev P fuel (RAttr v p) | None => None end) rest (Some (VMod [a]))
    else None
  end.

Lemma ev_abs_sound : forall P fuel q v, ev_abs P fuel q = Some v -> py_abs P q v.
Proof.
  intros P fuel q v H. destruct q as [|a rest]; [discriminate|]. cbn in H.
  destruct (is_module P [a]) eqn:E; [|discriminate]. cbn. split; [exact E|].
  eapply fold_attrs; [|exact H]. intros r v0 Hr. eapply ev_sound; eassumption.
Qed.

(* ---------------------------------------------------------------- names that always resolve *)
Lemma direct_import_resolves : forall st ctx k q o,
  child st ctx k = None -> assoc k (o_amap ctx) = Some q -> obj_for st q = Some o ->
  resolve_name st ctx [k] = Some o.
Proof.
  intros st ctx k q o Hc Ha Ho. unfold resolve_name, expand_name. cbn [expand_from].
  unfold l2f. assert (Hl : forall f, local_to_full f st ctx k = q).
  { intro f. destruct f; cbn; rewrite Hc, Ha; reflexivity. }
  rewrite Hl. cbn [negb andb]. rewrite andb_false_r. cbn. exact Ho.
Qed.

Lemma module_alias_resolves : forall st ctx k X mo n o,
  child st ctx k = None -> assoc k (o_amap ctx) = Some X -> obj_for st X = Some mo -> X <> [] ->
  (child st mo n = Some o \/
   (child st mo n = None /\ exists q, assoc n (o_amap mo) = Some q /\ path_eqb q [n] = false /\ obj_for st q = Some o)) ->
  resolve_name st ctx [k; n] = Some o.
Proof.
  intros st ctx k X mo n o Hc Ha Hmo Hne Hn. unfold resolve_name, expand_name. cbn [expand_from].
  assert (Hl : l2f st ctx k = X).
  { unfold l2f. destruct (length (o_path ctx)); cbn; rewrite Hc, Ha; reflexivity. }
  rewrite Hl. cbn [negb andb]. rewrite andb_false_r. cbn [andb]. rewrite Hmo.
  pose proof (obj_for_some _ _ _ Hmo) as [_ Hpm].
  destruct Hn as [Hch | [Hch [q [Hq [Hqn Hoq]]]]].
  - assert (Hl2 : l2f st mo n = o_path o).
    { unfold l2f. destruct (length (o_path mo)); cbn; rewrite Hch; reflexivity. }
    rewrite Hl2. unfold child in Hch. pose proof (obj_for_some _ _ _ Hch) as [_ Hpo].
    assert (Hns : path_eqb (o_path o) [n] = false).
    { rewrite Hpo. destruct (path_eqb (o_path mo ++ [n]) [n]) eqn:E; [|reflexivity].
      apply path_eqb_eq in E. apply (f_equal (@length _)) in E. rewrite app_length in E. cbn in E.
      rewrite Hpm in E. destruct X; [congruence | cbn in E; lia]. }
    rewrite Hns. cbn. rewrite Hpo. exact Hch.
  - assert (Hl2 : l2f st mo n = q).
    { unfold l2f. destruct (length (o_path mo)); cbn; rewrite Hch, Hq; reflexivity. }
    rewrite Hl2, Hqn. cbn. exact Hoq.
Qed.

(* ---------------------------------------------------------------- class scope falling back to its module *)
Lemma l2f_nonclass_fuel : forall f st o n, o_kind o <> KClass -> local_to_full f st o n = l2f st o n.
Proof.
  intros f st o n Hk. unfold l2f.
  assert (H : forall g, local_to_full g st o n =
                        match child st o n with
                        | Some c => o_path c
                        | None => match assoc n (o_amap o) with Some q => q | None => [n] end
                        end).
  { intro g. destruct g; cbn; destruct (child st o n); try reflexivity;
      destruct (assoc n (o_amap o)); try reflexivity; destruct (o_kind o); try reflexivity; congruence. }
  rewrite !H. reflexivity.
Qed.

Lemma class_fallback_expand : forall st ctx pm p rest,
  o_kind ctx = KClass -> child st ctx p = None -> assoc p (o_amap ctx) = None ->
  parent_of st ctx = Some pm -> o_kind pm <> KClass -> o_path ctx <> [] ->
  expand_from st ctx true (p :: rest) = expand_from st pm true (p :: rest).
Proof.
  intros st ctx pm p rest Hk Hc Ha Hp Hpk Hne.
  assert (Hl : l2f st ctx p = l2f st pm p).
  { unfold l2f at 1. destruct (length (o_path ctx)) eqn:El.
    - destruct (o_path ctx); [congruence | discriminate].
    - cbn. rewrite Hc, Ha, Hk, Hp. apply l2f_nonclass_fuel. exact Hpk. }
  cbn [expand_from]. rewrite Hl. cbn [negb andb]. rewrite !andb_false_r. reflexivity.
Qed.

Section Fallback.
  Variable P : project.
  Variable st : state.
  Hypothesis Hc : coherent P st.

  (* a class directly inside a module: a name the class body does not bind is looked up in the module, by
     pydoctor (Class._localNameToFullName -> parent) and by Python (LOAD_NAME: class namespace, then globals) *)
  Theorem expand_sound_class_fallback : forall ctx pm m qual p rest v,
    In ctx (objs st) -> o_kind ctx = KClass -> o_path ctx <> [] -> qual <> [] ->
    parent_of st ctx = Some pm -> In pm (objs st) -> o_kind pm <> KClass ->
    py_abs P (o_path pm) (VMod m) ->
    child st ctx p = None -> assoc p (o_amap ctx) = None ->
    (forall body, scope_body P m qual = Some body -> binder_of body p = None) ->
    py_lookup P m qual (p :: rest) v ->
    trail_ok st pm true (p :: rest) = true ->
    py_abs P (expand_name st ctx (p :: rest)) v.
  Proof.
    intros ctx pm m qual p rest v Hin Hk Hne Hq Hpar Hinp Hpk Habs Hch Has Hnb Hpy Hok.
    unfold expand_name. rewrite (class_fallback_expand st ctx pm p rest Hk Hch Has Hpar Hpk Hne).
    apply (expand_sound P st Hc pm m [] (p :: rest) v Hinp Habs); [|exact Hok].
    unfold py_lookup in *. inversion Hpy as [m0 qual0 d rest0 v0 v1 Hn Hat]; subst.
    econstructor; [|exact Hat]. apply pn_own.
    inversion Hn as [m0 qual0 d v1 Hns | m0 qual0 body d v1 Hq' Hsb Hb Hns]; subst.
    - exfalso. inversion Hns as [m0 qual0 body0 n0 b0 v1 Hsb0 Hbo Hpb | m0 mm0 n0 Hfm0 Hpk0 Hbo0 Him0
                                 | m0 mm0 l0 mn0 X0 n0 v1 Hfm0 Hin0 Hrr0 Him0 Hne0 Hex0 Hns0]; subst.
      + rewrite (Hnb _ Hsb0) in Hbo. discriminate.
      + congruence.
      + congruence.
    - exact Hns.
  Qed.
End Fallback.
