(* Proofs/RstFieldsProofs.v -- _SplitFieldsTranslator (Model/RstFields.v) against Spec/RstSplit.v. *)
From Coq Require Import ZArith NArith List Bool Arith Lia.
From PydoctorVerif Require Import Base.Sexp Model.FieldTypes Gen.TablesC09 Model.Segments Model.RstFields Spec.Conserve Spec.RstSplit
     Proofs.SegmentsProofs.
Import ListNotations.

Lemma lstrip_split : forall t, exists ws, t = ws ++ lstrip_ws t /\ blanks ws.
Proof.
  intros t. unfold lstrip_ws. destruct (dropwhile_split is_py_space t) as (ws & H1 & H2 & _).
  exists ws. split; [exact H1 | exact H2].
Qed.

Lemma trim_separator_spec : forall t, exists sep, t = sep ++ trim_separator t /\ is_separator sep.
Proof.
  intros t. unfold trim_separator. destruct t as [|c t1]; [exists []; split; [reflexivity | left; reflexivity]|].
  destruct (N.eqb c 58 || N.eqb c 45) eqn:E1.
  - destruct (lstrip_split t1) as (ws & H1 & H2). exists (c :: ws). split; [cbn; f_equal; exact H1|].
    right. exists ws. split; [exact H2|]. apply orb_true_iff in E1. destruct E1 as [E | E]; apply N.eqb_eq in E; subst; auto.
  - destruct t1 as [|d t2]; [exists []; split; [reflexivity | left; reflexivity]|].
    destruct (N.eqb c 32 && (N.eqb d 45 || N.eqb d 58)) eqn:E2; [|exists []; split; [reflexivity | left; reflexivity]].
    apply andb_true_iff in E2. destruct E2 as [Ec Ed]. apply N.eqb_eq in Ec. subst c.
    destruct (lstrip_split t2) as (ws & H1 & H2). exists (32%N :: d :: ws). split; [cbn; do 2 f_equal; exact H1|].
    right. exists ws. split; [exact H2|]. apply orb_true_iff in Ed. destruct Ed as [E | E]; apply N.eqb_eq in E; subst; auto.
Qed.

Lemma strip_first_spec : forall prest, exists sep, separator_removed prest (strip_first_text prest) sep.
Proof.
  intros [|[t|tag kids] r]; cbn [strip_first_text separator_removed].
  - exists []. split; reflexivity.
  - destruct (trim_separator_spec t) as (sep & H1 & H2). exists sep, (trim_separator t). repeat split; assumption.
  - exists []. split; reflexivity.
Qed.

Lemma is_tag_elem : forall t n, is_tag t n = true -> exists kids, n = RElem t kids.
Proof.
  intros t [x|t' kids] H; cbn in H; [discriminate|]. exists kids. f_equal.
  destruct t, t'; cbn in H; try discriminate; try reflexivity. apply N.eqb_eq in H. subst. reflexivity.
Qed.

Lemma check_bullet_ok : forall entry items n, check_bullet n items = None ->
  exists seps, Forall3 (bullet_item_spec entry) items (map (bullet_field entry) items) seps.
Proof.
  intros entry items. induction items as [|item rest IH]; intros n H; [exists []; constructor|].
  cbn [check_bullet] in H.
  destruct item as [x|[] kids]; try discriminate. destruct kids as [|first irest]; [discriminate|].
  destruct first as [x|[] pk]; try discriminate. destruct pk as [|p0 prest]; [discriminate|].
  destruct (is_tag RTitleRef p0) eqn:Et; [|discriminate].
  destruct (is_tag_elem _ _ Et) as (tref & ->).
  destruct (IH _ H) as (seps & Hs). destruct (strip_first_spec prest) as (sep & Hsep).
  exists (sep :: seps). cbn [map]. constructor; [|exact Hs].
  cbn [bullet_field astext]. apply bullet_item_intro. exact Hsep.
Qed.

Lemma last_node_two : forall a b, last_node [a; b] = Some b.
Proof. reflexivity. Qed.

Lemma check_deflist_ok : forall entry items n, check_deflist n items = None ->
  Forall2 (def_item_spec entry) items (map (deflist_fields entry) items).
Proof.
  intros entry items. induction items as [|item rest IH]; intros n H; [constructor|].
  cbn [check_deflist] in H.
  destruct item as [x|[] kids]; try discriminate.
  destruct (Nat.ltb (length kids) 2) eqn:E2; [discriminate|].
  destruct (last_node kids) as [l|] eqn:El; [|discriminate].
  destruct (is_tag RDefinition l) eqn:Ed; [|discriminate]. cbn [negb] in H.
  destruct (Nat.ltb 3 (length kids)) eqn:E3; [discriminate|].
  destruct kids as [|term more]; [discriminate|].
  assert (Hcls : match more with [RText _; _] => False | _ => True end).
  { destruct more as [|[x|ct ck] [|m2 [|m3 m]]]; try exact I. discriminate. }
  assert (H' : (if term_ok term then check_deflist (S n) rest else Some (8%N, S n)) = None).
  { destruct more as [|[x|ct ck] [|m2 [|m3 m]]]; try exact H. contradiction. }
  clear H. rename H' into H.
  destruct (term_ok term) eqn:Et; [|discriminate].
  cbn [map]. constructor; [|apply (IH _ H)].
  apply Nat.ltb_ge in E2. apply Nat.ltb_ge in E3. cbn [length] in E2, E3.
  unfold term_ok in Et. destruct term as [x|ttag tk]; [discriminate|]. cbn [kids_of] in Et.
  destruct tk as [|t0 trest]; [discriminate|]. apply andb_true_iff in Et. destruct Et as [_ Et].
  assert (Htr : Forall (fun c => astext c = []) trest).
  { apply Forall_forall. intros c Hc. rewrite forallb_forall in Et. specialize (Et c Hc). destruct (astext c); [reflexivity | discriminate]. }
  destruct (is_tag_elem _ _ Ed) as (dbody & ->).
  destruct more as [|m1 [|m2 [|m3 more]]]; cbn [length] in *; try lia.
  - cbn [last_node] in El. inversion El; subst. cbn [deflist_fields kids_of last_node]. apply def_item_plain. exact Htr.
  - cbn [last_node] in El. inversion El; subst. cbn [deflist_fields kids_of last_node].
    destruct m1 as [x|ctag cbody]; [contradiction|]. apply def_item_typed. exact Htr.
Qed.

Theorem visit_field_ok : forall lower name body st,
  let st' := visit_field lower name body st in
  exists added errs,
    rs_fields st' = rs_fields st ++ added /\ rs_errors st' = rs_errors st ++ errs /\
    field_split_ok (fst (split_name name)) (snd (split_name name)) body added errs.
Proof.
  intros lower name body st. unfold visit_field.
  destruct (split_name name) as [tagname arg]. cbn [fst snd].
  destruct arg as [a|].
  - exists [plain_field tagname (Some a) body], []. cbn [rs_fields rs_errors]. rewrite app_nil_r.
    repeat split. left. split; reflexivity.
  - destruct (assoc_text' (lower tagname) consolidated_fields) as [entry|].
    + unfold consolidated_field.
      assert (Hbad : forall c n,
        exists added errs,
          rs_fields st ++ (if mem_text (lower tagname) (rs_newfields st) then [] else
             [{| of_tag := [110; 101; 119; 102; 105; 101; 108; 100]%N; of_arg := Some (lower tagname);
                 of_body := [RText tagname]; of_newfield := true |}]) ++ [plain_field tagname None body]
          = rs_fields st ++ added /\ rs_errors st ++ [(c, n)] = rs_errors st ++ errs /\
          field_split_ok tagname None body added errs).
      { intros c n. eexists. exists [(c, n)]. split; [reflexivity|]. split; [reflexivity|].
        right. right. right. eexists. eexists. split; [reflexivity|]. split; [|reflexivity].
        destruct (mem_text (lower tagname) (rs_newfields st)); [left; reflexivity | right; eexists; split; reflexivity]. }
      destruct body as [|b [|b2 body']]; cbn [rs_fields rs_errors]; try apply Hbad.
      destruct (is_tag RBulletList b) eqn:Eb.
      * destruct (is_tag_elem _ _ Eb) as (items & ->). cbn [kids_of]. unfold consolidated_bullet.
        destruct (check_bullet 0 items) as [[c n]|] eqn:Ec; cbn [rs_fields rs_errors]; [apply Hbad|].
        destruct (check_bullet_ok entry items 0 Ec) as (seps & Hs).
        exists (map (bullet_field entry) items), []. rewrite app_nil_r. repeat split.
        right. left. repeat split. exists entry, items, (map (bullet_field entry) items), seps. repeat split. exact Hs.
      * destruct (is_tag RDefList b && mem_text entry consolidated_deflist_fields) eqn:Ed.
        -- apply andb_true_iff in Ed. destruct Ed as [Ed _]. destruct (is_tag_elem _ _ Ed) as (items & ->). cbn [kids_of].
           unfold consolidated_deflist.
           destruct (check_deflist 0 items) as [[c n]|] eqn:Ec; cbn [rs_fields rs_errors]; [apply Hbad|].
           exists (flat_map (deflist_fields entry) items), []. rewrite app_nil_r. repeat split.
           right. right. left. repeat split. exists entry, items, (map (deflist_fields entry) items). repeat split.
           ++ apply (check_deflist_ok entry items 0 Ec).
           ++ rewrite flat_map_concat_map. reflexivity.
        -- destruct (mem_text entry consolidated_deflist_fields); cbn [rs_fields rs_errors]; apply Hbad.
    + exists [plain_field tagname None body], []. cbn [rs_fields rs_errors]. rewrite app_nil_r.
      repeat split. left. split; reflexivity.
Qed.

Definition is_sep_or_nil (sep : text) : Prop := is_separator sep.

(* ---- no text of the body is dropped ------------------------------------------------------------------------------------ *)
Lemma separator_text : forall before after sep, separator_removed before after sep ->
  nodes_text before = sep ++ nodes_text after.
Proof.
  intros [|[t|tag kids] r] after sep H; cbn [separator_removed] in H.
  - destruct H as [-> ->]. reflexivity.
  - destruct H as (t' & -> & _ & ->). unfold nodes_text. cbn [flat_map astext]. rewrite <- app_assoc. reflexivity.
  - destruct H as [-> ->]. reflexivity.
Qed.

(* the text of a list item = the marked identifier, the separator, the body of the field made from it *)
Lemma bullet_item_text : forall entry item f sep, bullet_item_spec entry item f sep ->
  exists arg, of_arg f = Some arg /\ astext item = arg ++ sep ++ nodes_text (of_body f).
Proof.
  intros entry item f sep H. inversion H; subst. eexists. split; [reflexivity|].
  cbn [of_body astext flat_map]. fold (nodes_text tref). fold (nodes_text prest). fold (nodes_text irest).
  rewrite (separator_text _ _ _ H0). unfold nodes_text. cbn [flat_map astext].
  rewrite <- !app_assoc. reflexivity.
Qed.

Lemma def_item_text : forall entry item fs, def_item_spec entry item fs ->
  match fs with
  | [f] => exists arg, of_arg f = Some arg /\ astext item = arg ++ nodes_text (of_body f)
  | [f; ty] => exists arg, of_arg f = Some arg /\ of_arg ty = Some arg /\
                           astext item = arg ++ nodes_text (of_body ty) ++ nodes_text (of_body f)
  | _ => False
  end.
Proof.
  assert (E : forall trest, Forall (fun c => astext c = []) trest -> flat_map astext trest = []).
  { induction 1 as [|c l Hc Hl IH]; [reflexivity|]. cbn [flat_map]. rewrite Hc, IH. reflexivity. }
  intros entry item fs H. inversion H; subst.
  - eexists. split; [reflexivity|]. cbn [astext flat_map of_body]. rewrite (E _ H0). rewrite !app_nil_r. reflexivity.
  - eexists. split; [reflexivity|]. split; [reflexivity|]. cbn [astext flat_map of_body]. rewrite (E _ H0).
    rewrite !app_nil_r. reflexivity.
Qed.

(* every node of a field body ends up in the body of exactly one of the fields made from it (or is the marked identifier
   that became the argument, or the separator): counted on the text, in order *)
Theorem split_conserves_text : forall tagname arg body added errs,
  field_split_ok tagname arg body added errs ->
  (exists f, In f added /\ of_body f = body /\ of_newfield f = false)
  \/ (exists items fs seps, body = [RElem RBulletList items] /\ added = fs /\
        Forall3 (fun item f sep => exists a, of_arg f = Some a /\ astext item = a ++ sep ++ nodes_text (of_body f) /\ is_sep_or_nil sep)
                items fs seps)
  \/ (exists items fss, body = [RElem RDefList items] /\ added = concat fss /\
        Forall2 (fun item fs => match fs with
                                | [f] => exists a, of_arg f = Some a /\ astext item = a ++ nodes_text (of_body f)
                                | [f; ty] => exists a, of_arg f = Some a /\ of_arg ty = Some a /\
                                                       astext item = a ++ nodes_text (of_body ty) ++ nodes_text (of_body f)
                                | _ => False
                                end) items fss).
Proof.
  intros tagname arg body added errs [(He & Ha) | [(He & Harg & entry & items & fs & seps & Hb & Hf & Ha) |
                                      [(He & Harg & entry & items & fss & Hb & Hf & Ha) | (e & nf & He & Hn & Ha)]]].
  - left. exists (plain_field tagname arg body). subst. split; [left; reflexivity | split; reflexivity].
  - right. left. exists items, fs, seps. repeat split; try assumption.
    clear - Hf. induction Hf as [|item f sep items fs seps H Hr IH]; constructor; [|exact IH].
    destruct (bullet_item_text _ _ _ _ H) as (a & H1 & H2). exists a. repeat split; try assumption.
    inversion H as [tref0 prest0 prest0' irest0 sep0 Hs]; subst. unfold is_sep_or_nil. clear - Hs.
    destruct prest0 as [|[t|tg k] r]; cbn [separator_removed] in Hs.
    + destruct Hs as [-> _]. left. reflexivity.
    + destruct Hs as (t' & _ & Hs & _). exact Hs.
    + destruct Hs as [-> _]. left. reflexivity.
  - right. right. exists items, fss. repeat split; try assumption.
    clear - Hf. induction Hf as [|item fs items fss H Hr IH]; constructor; [|exact IH]. apply (def_item_text _ _ _ H).
  - left. exists (plain_field tagname None body). subst. split; [apply in_or_app; right; left; reflexivity | split; reflexivity].
Qed.

