(* Proofs/SigProofs.v -- lemmas behind Props/C14.v *)
From Coq Require Import ZArith NArith List Bool Lia.
From PydoctorVerif Require Import Base.Sexp Spec.SigStr Model.Sig.
Import ListNotations.
Local Open Scope Z_scope.

(* ================================================================================================ *)
(* 0. text equality                                                                                  *)
(* ================================================================================================ *)
Lemma text_eqb_eq a b : text_eqb a b = true <-> a = b.
Proof.
  revert b. induction a as [|x a IH]; intros [|y b]; cbn; split; intro H; try discriminate; auto.
  - apply andb_true_iff in H as [H1 H2]. apply N.eqb_eq in H1. apply IH in H2. congruence.
  - injection H as -> ->. rewrite N.eqb_refl. cbn. apply IH. reflexivity.
Qed.

Lemma text_eqb_refl a : text_eqb a a = true.
Proof. apply text_eqb_eq. reflexivity. Qed.

Lemma text_eqb_neq a b : text_eqb a b = false <-> a <> b.
Proof.
  split.
  - intros H E. apply text_eqb_eq in E. congruence.
  - intros H. destruct (text_eqb a b) eqn:E; auto. apply text_eqb_eq in E. contradiction.
Qed.

Lemma mem_text_In x l : mem_text x l = true <-> In x l.
Proof.
  unfold mem_text. rewrite existsb_exists. split.
  - intros [y [Hy E]]. apply text_eqb_eq in E. subst. exact Hy.
  - intros H. exists x. split; auto. apply text_eqb_refl.
Qed.

Lemma mem_text_false x l : mem_text x l = false <-> ~ In x l.
Proof.
  split.
  - intros H I. apply mem_text_In in I. congruence.
  - intros H. destruct (mem_text x l) eqn:E; auto. apply mem_text_In in E. contradiction.
Qed.

(* ================================================================================================ *)
(* A. get_default / the right-aligned defaults                                                        *)
(* ================================================================================================ *)
(* what "right-aligned" means, stated without indices: n parameters, the last |d| of them have the defaults d *)
Definition aligned_defaults (n : nat) (d : list expr) : list (option expr) :=
  repeat None (n - length d) ++ map Some d.

Lemma aligned_length n d : (length d <= n)%nat -> length (aligned_defaults n d) = n.
Proof. intros H. unfold aligned_defaults. rewrite app_length, repeat_length, map_length. lia. Qed.

(* get_default's assert and its indexing never fail for an index that enumerate() can produce -- whatever
   the lengths are *)
Lemma get_default_total (n : nat) (d : list expr) (i : nat) :
  (i < n)%nat ->
  exists o, get_default (Z.of_nat n) (Z.of_nat n - zlen d) d (Z.of_nat i) = Ok o.
Proof.
  intros Hi. unfold get_default, zlen.
  replace ((0 <=? Z.of_nat i) && (Z.of_nat i <? Z.of_nat n)) with true
    by (symmetry; apply andb_true_iff; split; [apply Z.leb_le | apply Z.ltb_lt]; lia).
  destruct (Z.of_nat i - (Z.of_nat n - Z.of_nat (length d)) <? 0) eqn:E.
  - eexists; reflexivity.
  - apply Z.ltb_ge in E.
    destruct (nth_error d (Z.to_nat (Z.of_nat i - (Z.of_nat n - Z.of_nat (length d))))) eqn:E2.
    + eexists; reflexivity.
    + apply nth_error_None in E2. lia.
Qed.

(* ... and under the parser's invariant it returns the right-aligned default *)
Lemma get_default_aligned (n : nat) (d : list expr) (i : nat) :
  (length d <= n)%nat -> (i < n)%nat ->
  get_default (Z.of_nat n) (Z.of_nat n - zlen d) d (Z.of_nat i) = Ok (nth i (aligned_defaults n d) None).
Proof.
  intros Hd Hi. unfold get_default, zlen, aligned_defaults.
  replace ((0 <=? Z.of_nat i) && (Z.of_nat i <? Z.of_nat n)) with true
    by (symmetry; apply andb_true_iff; split; [apply Z.leb_le | apply Z.ltb_lt]; lia).
  destruct (Z.of_nat i - (Z.of_nat n - Z.of_nat (length d)) <? 0) eqn:E.
  - apply Z.ltb_lt in E. rewrite app_nth1 by (rewrite repeat_length; lia).
    rewrite nth_repeat. reflexivity.
  - apply Z.ltb_ge in E.
    rewrite app_nth2 by (rewrite repeat_length; lia). rewrite repeat_length.
    replace (Z.to_nat (Z.of_nat i - (Z.of_nat n - Z.of_nat (length d)))) with (i - (n - length d))%nat by lia.
    destruct (nth_error d (i - (n - length d))) eqn:E2.
    + erewrite nth_error_nth; [reflexivity|]. rewrite nth_error_map, E2. reflexivity.
    + apply nth_error_None in E2. lia.
Qed.

Lemma skipn_S_tl {A} (n : nat) (l : list A) : skipn (S n) l = tl (skipn n l).
Proof. revert l. induction n as [|n IH]; intros [|x l]; cbn [skipn tl]; auto. rewrite <- IH. reflexivity. Qed.

(* the loop over one of the two positional lists *)
Lemma loop_positional_aligned ann (n : nat) d k (l : list ast_arg) :
  forall start : nat,
    (length d <= n)%nat -> (start + length l <= n)%nat ->
    loop_positional ann (get_default (Z.of_nat n) (Z.of_nat n - zlen d) d) k (Z.of_nat start) l =
    Ok (map (fun ad => add_arg ann (a_name (fst ad)) k (snd ad))
            (combine l (firstn (length l) (skipn start (aligned_defaults n d))))).
Proof.
  induction l as [|a r IH]; intros start Hd Hs; cbn [loop_positional length firstn combine map].
  - reflexivity.
  - cbn [length] in Hs.
    rewrite get_default_aligned by lia.
    replace (Z.of_nat start + 1)%Z with (Z.of_nat (S start)) by lia.
    rewrite IH by lia.
    assert (Hlen : (start < length (aligned_defaults n d))%nat) by (rewrite aligned_length; lia).
    destruct (skipn start (aligned_defaults n d)) as [|x xs] eqn:Esk.
    + exfalso. apply (f_equal (@length _)) in Esk. rewrite skipn_length in Esk. cbn in Esk. lia.
    + assert (Hx : nth start (aligned_defaults n d) None = x).
      { rewrite <- (firstn_skipn start (aligned_defaults n d)) at 1.
        rewrite app_nth2 by (rewrite firstn_length; lia).
        rewrite firstn_length, Nat.min_l by lia. rewrite Nat.sub_diag, Esk. reflexivity. }
      assert (Hxs : skipn (S start) (aligned_defaults n d) = xs).
      { rewrite skipn_S_tl, Esk. reflexivity. }
      rewrite Hx, Hxs. reflexivity.
Qed.

Lemma loop_positional_total ann (n : nat) d k (l : list ast_arg) :
  forall start : nat,
    (start + length l <= n)%nat ->
    exists ps, loop_positional ann (get_default (Z.of_nat n) (Z.of_nat n - zlen d) d) k (Z.of_nat start) l = Ok ps.
Proof.
  induction l as [|a r IH]; intros start Hs; cbn [loop_positional].
  - eexists; reflexivity.
  - cbn [length] in Hs.
    destruct (get_default_total n d start) as [o Ho]; [lia|]. rewrite Ho.
    replace (Z.of_nat start + 1)%Z with (Z.of_nat (S start)) by lia.
    destruct (IH (S start)) as [ps Hps]; [lia|]. rewrite Hps. eexists; reflexivity.
Qed.

Lemma loop_kwonly_spec ann l ds :
  length l = length ds ->
  loop_kwonly ann l ds = map (fun ad => add_arg ann (a_name (fst ad)) KEYWORD_ONLY (snd ad)) (combine l ds).
Proof.
  revert ds. induction l as [|a r IH]; intros [|d ds] H; cbn in *; try discriminate; auto.
  f_equal. apply IH. lia.
Qed.

Definition wf_args (a : ast_args) : Prop :=
  (length (defaults a) <= length (posonlyargs a) + length (args a))%nat /\
  length (kw_defaults a) = length (kwonlyargs a).

Definition var_param ann (k : kind) (v : option ast_arg) : list param :=
  match v with Some v => [add_arg ann (a_name v) k None] | None => [] end.

(* the five segments of build_params, with the defaults the parser's record means *)
Definition expected_params ann (a : ast_args) : list param :=
  let n := (length (posonlyargs a) + length (args a))%nat in
  let al := aligned_defaults n (defaults a) in
  map (fun ad => add_arg ann (a_name (fst ad)) POSITIONAL_ONLY (snd ad))
      (combine (posonlyargs a) (firstn (length (posonlyargs a)) al))
  ++ map (fun ad => add_arg ann (a_name (fst ad)) POSITIONAL_OR_KEYWORD (snd ad))
         (combine (args a) (skipn (length (posonlyargs a)) al))
  ++ var_param ann VAR_POSITIONAL (vararg a)
  ++ map (fun ad => add_arg ann (a_name (fst ad)) KEYWORD_ONLY (snd ad)) (combine (kwonlyargs a) (kw_defaults a))
  ++ var_param ann VAR_KEYWORD (kwarg a).

Lemma build_params_expected ann a :
  wf_args a -> build_params ann a = Ok (expected_params ann a).
Proof.
  intros [Hd Hk]. unfold build_params, expected_params.
  set (n := (length (posonlyargs a) + length (args a))%nat).
  replace (zlen (posonlyargs a) + zlen (args a))%Z with (Z.of_nat n) by (unfold zlen, n; lia).
  pose proof (loop_positional_aligned ann n (defaults a) POSITIONAL_ONLY (posonlyargs a) 0 Hd) as H1.
  cbn [Z.of_nat] in H1. rewrite H1 by (unfold n; lia). clear H1.
  change (zlen (posonlyargs a)) with (Z.of_nat (length (posonlyargs a))).
  rewrite (loop_positional_aligned ann n (defaults a) POSITIONAL_OR_KEYWORD (args a) (length (posonlyargs a)) Hd)
    by (unfold n; lia).
  rewrite Hk, Nat.eqb_refl. cbn [negb].
  rewrite loop_kwonly_spec by auto.
  cbn [skipn].
  assert (Hal : length (aligned_defaults n (defaults a)) = n) by (apply aligned_length; exact Hd).
  rewrite (firstn_all2 (n := length (args a))) by (rewrite skipn_length; lia).
  unfold var_param. reflexivity.
Qed.

(* the assert in get_default and the subscript can never fail, for ANY ast.arguments record *)
Lemma build_params_no_assert ann a :
  build_params ann a = Raise KwAssertionError \/ exists ps, build_params ann a = Ok ps.
Proof.
  unfold build_params.
  set (n := (length (posonlyargs a) + length (args a))%nat).
  replace (zlen (posonlyargs a) + zlen (args a))%Z with (Z.of_nat n) by (unfold zlen, n; lia).
  destruct (loop_positional_total ann n (defaults a) POSITIONAL_ONLY (posonlyargs a) 0) as [p1 H1];
    [unfold n; lia|].
  cbn [Z.of_nat] in H1. rewrite H1.
  change (zlen (posonlyargs a)) with (Z.of_nat (length (posonlyargs a))).
  destruct (loop_positional_total ann n (defaults a) POSITIONAL_OR_KEYWORD (args a) (length (posonlyargs a)))
    as [p2 H2]; [unfold n; lia|].
  rewrite H2.
  destruct (negb (length (kwonlyargs a) =? length (kw_defaults a))%nat).
  - left; reflexivity.
  - right. eexists; reflexivity.
Qed.

(* projections of the expected parameters *)
Lemma combine_map_fst {A B} (l : list A) (l' : list B) :
  length l = length l' -> map fst (combine l l') = l.
Proof. revert l'. induction l; intros [|]; cbn; intros; try discriminate; auto. f_equal. apply IHl. lia. Qed.
Lemma combine_map_snd {A B} (l : list A) (l' : list B) :
  length l = length l' -> map snd (combine l l') = l'.
Proof. revert l'. induction l; intros [|]; cbn; intros; try discriminate; auto. f_equal. apply IHl. lia. Qed.

Definition opt_name (v : option ast_arg) : list text := match v with Some v => [a_name v] | None => [] end.
Definition opt_none (v : option ast_arg) : list (option expr) := match v with Some _ => [None] | None => [] end.
Definition opt_kind (k : kind) (v : option ast_arg) : list kind := match v with Some _ => [k] | None => [] end.

Lemma expected_params_defaults ann a :
  wf_args a ->
  map pdefault (expected_params ann a) =
  aligned_defaults (length (posonlyargs a) + length (args a)) (defaults a)
  ++ opt_none (vararg a) ++ kw_defaults a ++ opt_none (kwarg a).
Proof.
  intros [Hd Hk]. unfold expected_params.
  set (n := (length (posonlyargs a) + length (args a))%nat).
  assert (Hal : length (aligned_defaults n (defaults a)) = n) by (apply aligned_length; exact Hd).
  rewrite !map_app, !map_map. cbn [pdefault add_arg].
  rewrite <- (firstn_skipn (length (posonlyargs a)) (aligned_defaults n (defaults a))) at 3.
  rewrite <- !app_assoc. f_equal; [|f_equal; [|f_equal; [|f_equal]]].
  - change (fun x : ast_arg * option expr => snd x) with (@snd ast_arg (option expr)).
    apply combine_map_snd. rewrite firstn_length. lia.
  - change (fun x : ast_arg * option expr => snd x) with (@snd ast_arg (option expr)).
    apply combine_map_snd. rewrite skipn_length. lia.
  - destruct (vararg a); reflexivity.
  - change (fun x : ast_arg * option expr => snd x) with (@snd ast_arg (option expr)).
    apply combine_map_snd. lia.
  - destruct (kwarg a); reflexivity.
Qed.

Lemma expected_params_names ann a :
  wf_args a -> map pname (expected_params ann a) = map a_name (all_args a).
Proof.
  intros [Hd Hk]. unfold expected_params, all_args.
  set (n := (length (posonlyargs a) + length (args a))%nat).
  assert (Hal : length (aligned_defaults n (defaults a)) = n) by (apply aligned_length; exact Hd).
  rewrite !map_app, !map_map. cbn [pname add_arg].
  f_equal; [|f_equal; [|f_equal; [|f_equal]]].
  - rewrite <- (map_map fst a_name). f_equal. apply combine_map_fst. rewrite firstn_length. lia.
  - rewrite <- (map_map fst a_name). f_equal. apply combine_map_fst. rewrite skipn_length. lia.
  - destruct (vararg a); reflexivity.
  - rewrite <- (map_map fst a_name). f_equal. apply combine_map_fst. lia.
  - destruct (kwarg a); reflexivity.
Qed.

Lemma expected_params_kinds ann a :
  wf_args a ->
  map pkind (expected_params ann a) =
  repeat POSITIONAL_ONLY (length (posonlyargs a)) ++ repeat POSITIONAL_OR_KEYWORD (length (args a))
  ++ opt_kind VAR_POSITIONAL (vararg a) ++ repeat KEYWORD_ONLY (length (kwonlyargs a))
  ++ opt_kind VAR_KEYWORD (kwarg a).
Proof.
  intros [Hd Hk]. unfold expected_params.
  set (n := (length (posonlyargs a) + length (args a))%nat).
  assert (Hal : length (aligned_defaults n (defaults a)) = n) by (apply aligned_length; exact Hd).
  assert (Hconst : forall (k : kind) (l : list (ast_arg * option expr)),
             map (fun x => pkind (add_arg ann (a_name (fst x)) k (snd x))) l = repeat k (length l)).
  { intros k l. induction l; cbn; auto. f_equal. exact IHl. }
  rewrite !map_app, !map_map, !Hconst, !combine_length.
  rewrite firstn_length, skipn_length, Hal, Hk.
  replace (Nat.min (length (posonlyargs a)) (Nat.min (length (posonlyargs a)) n)) with (length (posonlyargs a))
    by (unfold n; lia).
  replace (Nat.min (length (args a)) (n - length (posonlyargs a))) with (length (args a)) by (unfold n; lia).
  rewrite Nat.min_id.
  destruct (vararg a), (kwarg a); reflexivity.
Qed.

(* ================================================================================================ *)
(* B. Signature(...) validation: only duplicate names can be rejected                                 *)
(* ================================================================================================ *)
Local Open Scope N_scope.

Lemma kind_rank_inj a b : kind_rank a = kind_rank b -> a = b.
Proof. destruct a, b; cbn; intro H; try reflexivity; discriminate. Qed.

Fixpoint sorted_from (top : kind) (ks : list kind) : Prop :=
  match ks with
  | [] => True
  | k :: r => kind_rank top <= kind_rank k /\ sorted_from k r
  end.

(* among the positional parameters, no parameter without default after one with a default *)
Fixpoint dflt_ok (sd : bool) (ks : list kind) (ds : list (option expr)) : Prop :=
  match ks, ds with
  | k :: ks', d :: ds' =>
    if is_positional k then
      match d with
      | None => sd = false /\ dflt_ok false ks' ds'
      | Some _ => dflt_ok true ks' ds'
      end
    else dflt_ok sd ks' ds'
  | _, _ => True
  end.

Fixpoint dup_free (seen : list text) (names : list text) : bool :=
  match names with
  | [] => true
  | n :: r => negb (mem_text n seen) && dup_free (n :: seen) r
  end.

Lemma dup_free_spec names : forall seen,
  dup_free seen names = true <-> (NoDup names /\ forall x, In x names -> ~ In x seen).
Proof.
  induction names as [|n r IH]; intros seen; cbn [dup_free].
  - split; [intros _; split; [constructor | intros x []] | reflexivity].
  - rewrite andb_true_iff, negb_true_iff, mem_text_false, IH. split.
    + intros [Hn [Hnd Hdis]]. split.
      * constructor; auto. intros Hin. apply (Hdis n Hin). left; reflexivity.
      * intros x [<- | Hx]; auto. intros Hs. apply (Hdis x Hx). right; exact Hs.
    + intros [Hnd Hdis]. inversion Hnd as [|? ? Hnotin Hnd']; subst. split; [|split].
      * apply Hdis. left; reflexivity.
      * exact Hnd'.
      * intros x Hx [<- | Hs]; [contradiction|]. apply (Hdis x); [right; exact Hx | exact Hs].
Qed.

Lemma sig_validate_sorted ps : forall top sd seen,
  sorted_from top (map pkind ps) -> dflt_ok sd (map pkind ps) (map pdefault ps) ->
  sig_validate top sd seen ps = if dup_free seen (map pname ps) then None else Some DuplicateName.
Proof.
  induction ps as [|p r IH]; intros top sd seen Hs Hd; cbn [sig_validate map dup_free].
  - reflexivity.
  - cbn [map sorted_from] in Hs. destruct Hs as [Hle Hs].
    cbn [map dflt_ok] in Hd.
    replace (kind_rank (pkind p) <? kind_rank top) with false by (symmetry; apply N.ltb_ge; exact Hle).
    assert (Htop : (if kind_rank top <? kind_rank (pkind p) then pkind p else top) = pkind p).
    { destruct (kind_rank top <? kind_rank (pkind p)) eqn:E; auto.
      apply N.ltb_ge in E. apply kind_rank_inj. lia. }
    rewrite Htop.
    destruct (is_positional (pkind p)).
    + destruct (pdefault p).
      * destruct (mem_text (pname p) seen); cbn [negb andb]; auto.
      * destruct Hd as [-> Hd]. destruct (mem_text (pname p) seen); cbn [negb andb]; auto.
    + destruct (mem_text (pname p) seen); cbn [negb andb]; auto.
Qed.

Lemma sorted_weaken top top' ks :
  kind_rank top' <= kind_rank top -> sorted_from top ks -> sorted_from top' ks.
Proof. destruct ks as [|k r]; cbn; auto. intros H [H1 H2]. split; auto. lia. Qed.

Lemma sorted_repeat k n ks : sorted_from k ks -> sorted_from k (repeat k n ++ ks).
Proof. induction n as [|n IH]; cbn; auto. intros H. split; [lia | auto]. Qed.

Lemma sorted_shape a b (v w : option ast_arg) c :
  sorted_from POSITIONAL_ONLY
              (repeat POSITIONAL_ONLY a ++ repeat POSITIONAL_OR_KEYWORD b ++ opt_kind VAR_POSITIONAL v
               ++ repeat KEYWORD_ONLY c ++ opt_kind VAR_KEYWORD w).
Proof.
  apply sorted_repeat. apply sorted_weaken with POSITIONAL_OR_KEYWORD; [cbn; lia|].
  apply sorted_repeat.
  assert (H4 : sorted_from KEYWORD_ONLY (repeat KEYWORD_ONLY c ++ opt_kind VAR_KEYWORD w)).
  { apply sorted_repeat. destruct w; cbn; auto. split; [lia|auto]. }
  destruct v; cbn [opt_kind app].
  - cbn [sorted_from]. split; [cbn; lia|]. apply sorted_weaken with KEYWORD_ONLY; [cbn; lia | exact H4].
  - apply sorted_weaken with KEYWORD_ONLY; [cbn; lia | exact H4].
Qed.

Lemma dflt_ok_nonpos ks : forall sd ds,
  Forall (fun k => is_positional k = false) ks -> dflt_ok sd ks ds.
Proof.
  induction ks as [|k r IH]; intros sd [|d ds] H; cbn; auto.
  inversion H as [|? ? Hk Hr]; subst. rewrite Hk. apply IH. exact Hr.
Qed.

Lemma dflt_ok_somes ks : forall sd (d : list expr) rk rd,
  Forall (fun k => is_positional k = true) ks -> length ks = length d ->
  Forall (fun k => is_positional k = false) rk ->
  dflt_ok sd (ks ++ rk) (map Some d ++ rd).
Proof.
  induction ks as [|k r IH]; intros sd [|x d] rk rd Hp Hl Hn; cbn in Hl; try discriminate.
  - cbn. apply dflt_ok_nonpos. exact Hn.
  - inversion Hp as [|? ? Hk Hr]; subst. cbn. rewrite Hk. apply IH; auto.
Qed.

Lemma dflt_ok_aligned x : forall ks (d : list expr) rk rd,
  Forall (fun k => is_positional k = true) ks -> length ks = (x + length d)%nat ->
  Forall (fun k => is_positional k = false) rk ->
  dflt_ok false (ks ++ rk) ((repeat None x ++ map Some d) ++ rd).
Proof.
  induction x as [|x IH]; intros ks d rk rd Hp Hl Hn.
  - cbn [repeat app]. apply dflt_ok_somes; auto.
  - destruct ks as [|k r]; cbn in Hl; [discriminate|].
    inversion Hp as [|? ? Hk Hr]; subst. cbn. rewrite Hk. split; [reflexivity | apply IH; auto].
Qed.

Lemma expected_params_valid ann a :
  wf_args a ->
  sig_validate POSITIONAL_ONLY false [] (expected_params ann a) =
  if dup_free [] (map a_name (all_args a)) then None else Some DuplicateName.
Proof.
  intros Hwf. rewrite sig_validate_sorted.
  - rewrite expected_params_names by exact Hwf. reflexivity.
  - rewrite expected_params_kinds by exact Hwf. apply sorted_shape.
  - rewrite expected_params_kinds, expected_params_defaults by exact Hwf.
    destruct Hwf as [Hd Hk].
    rewrite (app_assoc (repeat POSITIONAL_ONLY _)).
    unfold aligned_defaults.
    apply dflt_ok_aligned.
    + apply Forall_app; split; apply Forall_forall; intros k Hk'; apply repeat_spec in Hk'; subst; reflexivity.
    + rewrite app_length, !repeat_length. lia.
    + apply Forall_app; split; [destruct (vararg a); cbn; auto|].
      apply Forall_app; split; [|destruct (kwarg a); cbn; auto].
      apply Forall_forall; intros k Hk'; apply repeat_spec in Hk'; subst; reflexivity.
Qed.

Lemma dup_free_nil names : dup_free [] names = true <-> NoDup names.
Proof. rewrite dup_free_spec. split; [intros [H _]; exact H | intros H; split; [exact H | intros x _ []]]. Qed.

(* ================================================================================================ *)
(* C. Signature.__str__ read back by the def grammar                                                 *)
(* ================================================================================================ *)
Definition name_ok (n : text) : Prop := n <> [] /\ forallb is_ident_char n = true.

(* ---- C.1 the lexer on the characters Signature.__str__ writes ---- *)
Lemma lex_expr st e r : lex st (PE e :: r) = flush_st st ++ TExpr e :: lex LS0 r.
Proof. reflexivity. Qed.
Lemma lex_colon st r : lex st (PC 58 :: r) = flush_st st ++ TColon :: lex LS0 r.
Proof. reflexivity. Qed.
Lemma lex_equal st r : lex st (PC 61 :: r) = flush_st st ++ TEq :: lex LS0 r.
Proof. reflexivity. Qed.
Lemma lex_comma st r : lex st (PC 44 :: r) = flush_st st ++ TComma :: lex LS0 r.
Proof. reflexivity. Qed.
Lemma lex_rpar st r : lex st (PC 41 :: r) = flush_st st ++ TR :: lex LS0 r.
Proof. reflexivity. Qed.
Lemma lex_lpar st r : lex st (PC 40 :: r) = flush_st st ++ TL :: lex LS0 r.
Proof. reflexivity. Qed.
Lemma lex_slash st r : lex st (PC 47 :: r) = flush_st st ++ TSlash :: lex LS0 r.
Proof. reflexivity. Qed.
Lemma lex_space st r : lex st (PC 32 :: r) = flush_st st ++ lex LS0 r.
Proof. reflexivity. Qed.
Lemma lex_star0 r : lex LS0 (PC 42 :: r) = lex LSStar r.
Proof. reflexivity. Qed.
Lemma lex_star2 r : lex LSStar (PC 42 :: r) = TDStar :: lex LS0 r.
Proof. reflexivity. Qed.

Lemma lex_ident_run n : forall acc rest,
  forallb is_ident_char n = true -> lex (LSId acc) (pcs n ++ rest) = lex (LSId (acc ++ n)) rest.
Proof.
  induction n as [|c n IH]; intros acc rest H; cbn [pcs map app].
  - rewrite app_nil_r. reflexivity.
  - cbn [forallb] in H. apply andb_true_iff in H as [Hc Hn].
    cbn [lex]. rewrite Hc. fold (pcs n). rewrite IH by exact Hn. rewrite <- app_assoc. reflexivity.
Qed.

(* a name, read from the start state or right after a single '*' *)
Lemma lex_name st n rest :
  (st = LS0 \/ st = LSStar) -> name_ok n ->
  lex st (pcs n ++ rest) = flush_st st ++ lex (LSId n) rest.
Proof.
  intros Hst [Hne Hid]. destruct n as [|c n]; [contradiction|].
  cbn [forallb] in Hid. apply andb_true_iff in Hid as [Hc Hn].
  cbn [pcs map app lex]. rewrite Hc. fold (pcs n).
  destruct Hst as [-> | ->]; cbn [flush_st app]; rewrite (lex_ident_run n [c] rest Hn); reflexivity.
Qed.

Definition closes (rest : list piece) : Prop := exists c r, rest = PC c :: r /\ (c = 44 \/ c = 41).

(* ---- C.2 entries of the parameter list: pieces and tokens ---- *)
Definition tail_pieces (a d : option expr) : list piece :=
  match a, d with
  | Some a, Some d => pcs [58; 32] ++ [PE a] ++ pcs [32; 61; 32] ++ [PE d]
  | Some a, None => pcs [58; 32] ++ [PE a]
  | None, Some d => pcs [61] ++ [PE d]
  | None, None => []
  end.

Definition item_pieces (it : item) : list piece :=
  match it with
  | ISlash => [PC 47]
  | IStar => [PC 42]
  | IVar n a => PC 42 :: pcs n ++ tail_pieces a None
  | IKwargs n a => PC 42 :: PC 42 :: pcs n ++ tail_pieces a None
  | IPlain n a d => pcs n ++ tail_pieces a d
  end.

Definition annot_toks (a : option expr) : list token := match a with Some a => [TColon; TExpr a] | None => [] end.
Definition default_toks (d : option expr) : list token := match d with Some d => [TEq; TExpr d] | None => [] end.

Definition item_toks (it : item) : list token :=
  match it with
  | ISlash => [TSlash]
  | IStar => [TStar]
  | IVar n a => TStar :: TName n :: annot_toks a
  | IKwargs n a => TDStar :: TName n :: annot_toks a
  | IPlain n a d => TName n :: annot_toks a ++ default_toks d
  end.

Definition item_name_ok (it : item) : Prop :=
  match it with
  | ISlash | IStar => True
  | IVar n _ | IKwargs n _ | IPlain n _ _ => name_ok n
  end.

Definition item_of_param (p : param) : item :=
  match pkind p with
  | VAR_POSITIONAL => IVar (pname p) (pannot p)
  | VAR_KEYWORD => IKwargs (pname p) (pannot p)
  | _ => IPlain (pname p) (pannot p) (pdefault p)
  end.

Definition var_no_default (p : param) : Prop :=
  match pkind p with VAR_POSITIONAL | VAR_KEYWORD => pdefault p = None | _ => True end.

Lemma param_str_item p : var_no_default p -> param_str p = item_pieces (item_of_param p).
Proof.
  destruct p as [n k d a]. unfold var_no_default, param_str, item_of_param. cbn [pkind pdefault pname pannot].
  destruct k; intros H; try subst d; destruct a; try destruct d; cbn [item_pieces tail_pieces];
    repeat rewrite <- app_assoc; rewrite ?app_nil_r; reflexivity.
Qed.

Lemma lex_tail n a d rest :
  closes rest ->
  lex (LSId n) (tail_pieces a d ++ rest) = TName n :: annot_toks a ++ default_toks d ++ lex LS0 rest.
Proof.
  intros (c & r & -> & Hc).
  destruct a as [a|], d as [d|]; cbn [tail_pieces pcs map app annot_toks default_toks].
  - rewrite lex_colon, lex_space, lex_expr, lex_space, lex_equal, lex_space, lex_expr. reflexivity.
  - rewrite lex_colon, lex_space, lex_expr. reflexivity.
  - rewrite lex_equal, lex_expr. reflexivity.
  - destruct Hc as [-> | ->]; reflexivity.
Qed.

Definition lexes_to (e : list piece) (ts : list token) : Prop :=
  forall rest, closes rest -> lex LS0 (e ++ rest) = ts ++ lex LS0 rest.

Lemma item_lexes it : item_name_ok it -> lexes_to (item_pieces it) (item_toks it).
Proof.
  intros Hn rest Hr. destruct it as [| |n a|n a|n a d]; cbn [item_pieces item_toks item_name_ok] in *.
  - reflexivity.
  - destruct Hr as (c & r & -> & [-> | ->]); reflexivity.
  - cbn [app]. rewrite lex_star0. rewrite <- app_assoc.
    rewrite (lex_name LSStar n _ (or_intror eq_refl) Hn). rewrite lex_tail by exact Hr.
    cbn [flush_st default_toks app]. reflexivity.
  - cbn [app]. rewrite lex_star0, lex_star2. rewrite <- app_assoc.
    rewrite (lex_name LS0 n _ (or_introl eq_refl) Hn). rewrite lex_tail by exact Hr.
    cbn [flush_st default_toks app]. reflexivity.
  - rewrite <- app_assoc. rewrite (lex_name LS0 n _ (or_introl eq_refl) Hn). rewrite lex_tail by exact Hr.
    cbn [flush_st app]. rewrite <- app_assoc. reflexivity.
Qed.

Fixpoint tjoin (l : list (list token)) : list token :=
  match l with
  | [] => []
  | [x] => x
  | x :: r => x ++ TComma :: tjoin r
  end.

Lemma lex_join es : forall tss tail,
  Forall2 lexes_to es tss ->
  lex LS0 (join [PC 44; PC 32] es ++ PC 41 :: tail) = tjoin tss ++ TR :: lex LS0 tail.
Proof.
  induction es as [|e es IH]; intros tss tail H; inversion H as [|? ts ? tss' He Hes]; subst.
  - reflexivity.
  - destruct es as [|e2 es].
    + inversion Hes; subst. cbn [join tjoin].
      rewrite (He (PC 41 :: tail)) by (exists 41, tail; auto). reflexivity.
    + inversion Hes as [|? ts2 ? tss2 He2 Hes2]; subst.
      change (join [PC 44; PC 32] (e :: e2 :: es)) with (e ++ [PC 44; PC 32] ++ join [PC 44; PC 32] (e2 :: es)).
      change (tjoin (ts :: ts2 :: tss2)) with (ts ++ TComma :: tjoin (ts2 :: tss2)).
      rewrite <- ?app_assoc. cbn [app].
      rewrite (He (PC 44 :: PC 32 :: join [PC 44; PC 32] (e2 :: es) ++ PC 41 :: tail)) by (eexists _, _; auto).
      rewrite lex_comma, lex_space. cbn [flush_st app].
      rewrite (IH (ts2 :: tss2) tail Hes). reflexivity.
Qed.

Definition ret_toks (ret : option expr) : list token := match ret with Some a => [TArrow; TExpr a] | None => [] end.

Lemma lex_ret ret : lex LS0 (ret_str ret) = ret_toks ret.
Proof. destruct ret; reflexivity. Qed.

(* the whole text, once the entries written by the loop are known to be `its` *)
Lemma lex_sig_str ps ret its :
  sig_loop false true ps = map item_pieces its -> Forall item_name_ok its ->
  lex LS0 (sig_str (mkSig ps ret)) = TL :: tjoin (map item_toks its) ++ TR :: ret_toks ret.
Proof.
  intros Hl Hn. unfold sig_str. cbn [sig_params sig_ret]. rewrite Hl.
  rewrite lex_lpar. cbn [flush_st app]. f_equal.
  change ([PC 41] ++ ret_str ret) with (PC 41 :: ret_str ret).
  assert (HF : Forall2 lexes_to (map item_pieces its) (map item_toks its)).
  { clear Hl. induction its as [|it its IH]; cbn [map]; constructor.
    - apply item_lexes. inversion Hn; auto.
    - apply IH. inversion Hn; auto. }
  rewrite (lex_join (map item_pieces its) (map item_toks its) (ret_str ret) HF).
  rewrite lex_ret. reflexivity.
Qed.

(* ---- C.3 the entries the loop of Signature.__str__ writes for a well-ordered parameter list ---- *)
Definition seg_ok (k : kind) (l : list param) : Prop := Forall (fun p => pkind p = k) l.
Definition var_ok (k : kind) (l : list param) : Prop :=
  (length l <= 1)%nat /\ Forall (fun p => pkind p = k /\ pdefault p = None) l.

Definition slash_entry (po : list param) : list (list piece) := match po with [] => [] | _ => [[PC 47]] end.

Lemma loop_po po : forall rp rk rest,
  seg_ok POSITIONAL_ONLY po -> po <> [] ->
  sig_loop rp rk (po ++ rest) = map param_str po ++ sig_loop true rk rest.
Proof.
  induction po as [|p po IH]; intros rp rk rest Hs Hne; [contradiction|].
  inversion Hs as [|? ? Hp Hpo]; subst.
  cbn [app sig_loop map]. rewrite Hp. cbn [kind_eqb kind_rank N.eqb Pos.eqb andb app].
  f_equal. destruct po as [|p2 po]; [reflexivity|].
  apply IH; [exact Hpo | discriminate].
Qed.

Lemma loop_slash rk rest :
  Forall (fun p => pkind p <> POSITIONAL_ONLY) rest ->
  sig_loop true rk rest = [PC 47] :: sig_loop false rk rest.
Proof.
  intros H. destruct rest as [|p r]; [reflexivity|].
  inversion H as [|? ? Hp _]; subst. cbn [sig_loop].
  destruct (pkind p); try contradiction; reflexivity.
Qed.

Lemma loop_po_gen po rk rest :
  seg_ok POSITIONAL_ONLY po -> Forall (fun p => pkind p <> POSITIONAL_ONLY) rest ->
  sig_loop false rk (po ++ rest) = map param_str po ++ slash_entry po ++ sig_loop false rk rest.
Proof.
  intros Hs Hr. destruct po as [|p po]; [reflexivity|].
  rewrite loop_po by (auto; discriminate). rewrite loop_slash by exact Hr. reflexivity.
Qed.

Lemma loop_pk pk : forall rk rest,
  seg_ok POSITIONAL_OR_KEYWORD pk ->
  sig_loop false rk (pk ++ rest) = map param_str pk ++ sig_loop false rk rest.
Proof.
  induction pk as [|p pk IH]; intros rk rest Hs; [reflexivity|].
  inversion Hs as [|? ? Hp Hpk]; subst.
  cbn [app sig_loop map]. rewrite Hp. cbn [kind_eqb kind_rank N.eqb Pos.eqb andb app].
  f_equal. apply IH. exact Hpk.
Qed.

Lemma loop_va va rk rest :
  var_ok VAR_POSITIONAL va ->
  sig_loop false rk (va ++ rest) =
  map param_str va ++ sig_loop false (match va with [] => rk | _ => false end) rest.
Proof.
  intros [Hl Hf]. destruct va as [|v [|v2 va]]; [reflexivity| |cbn in Hl; lia].
  inversion Hf as [|? ? [Hk _] _]; subst.
  cbn [app sig_loop map]. rewrite Hk. reflexivity.
Qed.

Definition star_entry (rk : bool) (ko : list param) : list (list piece) :=
  if rk then match ko with [] => [] | _ => [[PC 42]] end else [].

Lemma loop_ko_false ko : forall rest,
  seg_ok KEYWORD_ONLY ko ->
  sig_loop false false (ko ++ rest) = map param_str ko ++ sig_loop false false rest.
Proof.
  induction ko as [|p ko IH]; intros rest Hs; [reflexivity|].
  inversion Hs as [|? ? Hp Hko]; subst.
  cbn [app sig_loop map]. rewrite Hp. cbn [kind_eqb kind_rank N.eqb Pos.eqb andb app].
  f_equal. apply IH. exact Hko.
Qed.

Lemma loop_ko ko rk rest :
  seg_ok KEYWORD_ONLY ko ->
  sig_loop false rk (ko ++ rest) =
  star_entry rk ko ++ map param_str ko ++ sig_loop false (match ko with [] => rk | _ => false end) rest.
Proof.
  intros Hs. destruct rk.
  - destruct ko as [|p ko]; [reflexivity|].
    inversion Hs as [|? ? Hp Hko]; subst.
    cbn [app sig_loop map star_entry]. rewrite Hp. cbn [kind_eqb kind_rank N.eqb Pos.eqb andb app].
    do 2 f_equal. apply loop_ko_false. exact Hko.
  - cbn [star_entry app]. rewrite loop_ko_false by exact Hs. destruct ko; reflexivity.
Qed.

Lemma loop_vk vk rk :
  var_ok VAR_KEYWORD vk -> sig_loop false rk vk = map param_str vk.
Proof.
  intros [Hl Hf]. destruct vk as [|v [|v2 vk]]; [reflexivity| |cbn in Hl; lia].
  inversion Hf as [|? ? [Hk _] _]; subst.
  cbn [sig_loop map]. rewrite Hk. reflexivity.
Qed.

Definition plain (p : param) : item := IPlain (pname p) (pannot p) (pdefault p).
Definition ivar (p : param) : item := IVar (pname p) (pannot p).
Definition ikw (p : param) : item := IKwargs (pname p) (pannot p).

Definition items5 (po pk va ko vk : list param) : list item :=
  map plain po ++ (match po with [] => [] | _ => [ISlash] end)
  ++ map plain pk
  ++ map ivar va
  ++ (match va, ko with [], _ :: _ => [IStar] | _, _ => [] end)
  ++ map plain ko
  ++ map ikw vk.

Lemma map_param_str_plain k l :
  seg_ok k l -> k <> VAR_POSITIONAL -> k <> VAR_KEYWORD ->
  map param_str l = map item_pieces (map plain l).
Proof.
  intros Hs H1 H2. rewrite map_map. apply map_ext_in. intros p Hp.
  pose proof (proj1 (Forall_forall _ _) Hs p Hp) as Hk. cbn beta in Hk.
  rewrite param_str_item.
  - unfold item_of_param, plain. rewrite Hk. destruct k; try contradiction; reflexivity.
  - unfold var_no_default. rewrite Hk. destruct k; try contradiction; exact I.
Qed.

Lemma map_param_str_var k l (mk : param -> item) :
  var_ok k l -> (forall p, pkind p = k -> item_of_param p = mk p) -> (k = VAR_POSITIONAL \/ k = VAR_KEYWORD) ->
  map param_str l = map item_pieces (map mk l).
Proof.
  intros [_ Hf] Hmk Hk. rewrite map_map. apply map_ext_in. intros p Hp.
  pose proof (proj1 (Forall_forall _ _) Hf p Hp) as [Hkp Hd]. cbn beta in *.
  rewrite param_str_item.
  - rewrite Hmk by exact Hkp. reflexivity.
  - unfold var_no_default. rewrite Hkp. destruct Hk as [-> | ->]; exact Hd.
Qed.

Lemma sig_loop_items po pk va ko vk :
  seg_ok POSITIONAL_ONLY po -> seg_ok POSITIONAL_OR_KEYWORD pk -> var_ok VAR_POSITIONAL va ->
  seg_ok KEYWORD_ONLY ko -> var_ok VAR_KEYWORD vk ->
  sig_loop false true (po ++ pk ++ va ++ ko ++ vk) = map item_pieces (items5 po pk va ko vk).
Proof.
  intros Hpo Hpk Hva Hko Hvk.
  assert (Hrest : Forall (fun p => pkind p <> POSITIONAL_ONLY) (pk ++ va ++ ko ++ vk)).
  { repeat (apply Forall_app; split).
    - eapply Forall_impl; [|exact Hpk]. cbn. intros p ->. discriminate.
    - destruct Hva as [_ Hva]. eapply Forall_impl; [|exact Hva]. cbn. intros p [-> _]. discriminate.
    - eapply Forall_impl; [|exact Hko]. cbn. intros p ->. discriminate.
    - destruct Hvk as [_ Hvk]. eapply Forall_impl; [|exact Hvk]. cbn. intros p [-> _]. discriminate. }
  rewrite loop_po_gen by assumption.
  rewrite loop_pk by assumption.
  rewrite loop_va by assumption.
  rewrite loop_ko by assumption.
  rewrite loop_vk by assumption.
  unfold items5. rewrite !map_app.
  rewrite (map_param_str_plain POSITIONAL_ONLY po Hpo) by discriminate.
  rewrite (map_param_str_plain POSITIONAL_OR_KEYWORD pk Hpk) by discriminate.
  rewrite (map_param_str_plain KEYWORD_ONLY ko Hko) by discriminate.
  rewrite (map_param_str_var VAR_POSITIONAL va ivar Hva)
    by (auto; intros p Hp; unfold item_of_param, ivar; rewrite Hp; reflexivity).
  rewrite (map_param_str_var VAR_KEYWORD vk ikw Hvk)
    by (auto; intros p Hp; unfold item_of_param, ikw; rewrite Hp; reflexivity).
  destruct po, va, ko; reflexivity.
Qed.

(* ---- C.4 the reader ---- *)
Lemma break_rpar_app ts after :
  Forall (fun t => is_rpar t = false) ts -> break_rpar (ts ++ TR :: after) = Some (ts, after).
Proof.
  induction ts as [|t ts IH]; intros H; cbn [app break_rpar is_rpar].
  - reflexivity.
  - inversion H as [|? ? Ht Hts]; subst. rewrite Ht, IH by exact Hts. reflexivity.
Qed.

Lemma split_commas_free x : Forall (fun t => is_comma t = false) x -> split_commas x = [x].
Proof.
  induction x as [|t x IH]; intros H; cbn [split_commas]; [reflexivity|].
  inversion H as [|? ? Ht Hx]; subst. rewrite Ht, IH by exact Hx. reflexivity.
Qed.

Lemma split_commas_app x rest :
  Forall (fun t => is_comma t = false) x -> split_commas (x ++ TComma :: rest) = x :: split_commas rest.
Proof.
  induction x as [|t x IH]; intros H; cbn [app split_commas is_comma]; [reflexivity|].
  inversion H as [|? ? Ht Hx]; subst. rewrite Ht, IH by exact Hx. reflexivity.
Qed.

Lemma split_commas_tjoin tss :
  tss <> [] -> Forall (Forall (fun t => is_comma t = false)) tss -> split_commas (tjoin tss) = tss.
Proof.
  induction tss as [|x tss IH]; intros Hne H; [contradiction|].
  inversion H as [|? ? Hx Htss]; subst.
  destruct tss as [|y tss].
  - cbn [tjoin]. apply split_commas_free. exact Hx.
  - change (tjoin (x :: y :: tss)) with (x ++ TComma :: tjoin (y :: tss)).
    rewrite split_commas_app by exact Hx. f_equal. apply IH; [discriminate | exact Htss].
Qed.

Lemma item_toks_clean it :
  Forall (fun t => is_comma t = false) (item_toks it) /\ Forall (fun t => is_rpar t = false) (item_toks it).
Proof. destruct it as [| |n [a|]|n [a|]|n [a|] [d|]]; cbn; split; repeat constructor. Qed.

Lemma item_toks_nonempty it : item_toks it <> [].
Proof. destruct it; cbn; discriminate. Qed.

Lemma parse_item_toks it : parse_item (item_toks it) = Some it.
Proof. destruct it as [| |n [a|]|n [a|]|n [a|] [d|]]; reflexivity. Qed.

Lemma parse_items_toks its : parse_items (map item_toks its) = Some its.
Proof.
  induction its as [|it its IH]; cbn [map parse_items]; [reflexivity|].
  rewrite parse_item_toks, IH. reflexivity.
Qed.

Lemma tjoin_clean tss :
  Forall (Forall (fun t => is_rpar t = false)) tss -> Forall (fun t => is_rpar t = false) (tjoin tss).
Proof.
  induction tss as [|x tss IH]; intros H; [constructor|].
  inversion H as [|? ? Hx Htss]; subst. destruct tss as [|y tss]; [exact Hx|].
  change (tjoin (x :: y :: tss)) with (x ++ TComma :: tjoin (y :: tss)).
  apply Forall_app; split; [exact Hx|]. constructor; [reflexivity | apply IH; exact Htss].
Qed.

Lemma tjoin_nonempty tss : tss <> [] -> Forall (fun x => x <> []) tss -> tjoin tss <> [].
Proof.
  destruct tss as [|x tss]; [contradiction|]. intros _ H. inversion H as [|? ? Hx _]; subst.
  destruct tss as [|y tss]; [exact Hx|].
  change (tjoin (x :: y :: tss)) with (x ++ TComma :: tjoin (y :: tss)).
  destruct x; [contradiction | discriminate].
Qed.

(* read_sig on the tokens of a parameter list whose entries are `its` *)
Lemma read_sig_items its ret :
  read_sig (TL :: tjoin (map item_toks its) ++ TR :: ret_toks ret) =
  match its with
  | [] => Some (mkSig [] ret)
  | _ => match read_items its with Some ps => Some (mkSig ps ret) | None => None end
  end.
Proof.
  unfold read_sig.
  rewrite break_rpar_app.
  2:{ apply tjoin_clean. apply Forall_map. apply Forall_forall. intros it _. apply item_toks_clean. }
  assert (Hret : read_ret (ret_toks ret) = Some ret) by (destruct ret; reflexivity).
  rewrite Hret.
  destruct its as [|it its]; [reflexivity|].
  assert (Hne : tjoin (map item_toks (it :: its)) <> []).
  { apply tjoin_nonempty; [discriminate|]. apply Forall_map. apply Forall_forall. intros x _. apply item_toks_nonempty. }
  destruct (tjoin (map item_toks (it :: its))) as [|t ts] eqn:E; [contradiction|].
  rewrite <- E. rewrite split_commas_tjoin.
  - rewrite parse_items_toks. reflexivity.
  - discriminate.
  - apply Forall_map. apply Forall_forall. intros x _. apply item_toks_clean.
Qed.

(* positional defaults: once a parameter has one, the following ones have one; returns the final flag *)
Fixpoint pmono (sd : bool) (l : list param) : option bool :=
  match l with
  | [] => Some sd
  | p :: r => match pdefault p with
              | Some _ => pmono true r
              | None => if sd then None else pmono false r
              end
  end.

Lemma pmono_app l1 : forall sd l2,
  pmono sd (l1 ++ l2) = match pmono sd l1 with Some sd1 => pmono sd1 l2 | None => None end.
Proof.
  induction l1 as [|p l1 IH]; intros sd l2; cbn [app pmono]; [reflexivity|].
  destruct (pdefault p); [apply IH|]. destruct sd; [reflexivity | apply IH].
Qed.

Lemma param_eta p : mkParam (pname p) (pkind p) (pdefault p) (pannot p) = p.
Proof. destruct p; reflexivity. Qed.

Lemma split_slash_plain l : forall rest,
  split_slash (map plain l ++ rest) = (map plain l ++ fst (split_slash rest), snd (split_slash rest)).
Proof.
  induction l as [|p l IH]; intros rest; cbn [map app].
  - destruct (split_slash rest); reflexivity.
  - unfold plain at 1. cbn [split_slash]. rewrite IH. reflexivity.
Qed.

Definition no_slash (its : list item) : Prop := Forall (fun it => it <> ISlash) its.

Lemma split_slash_none its : no_slash its -> split_slash its = (its, None).
Proof.
  induction its as [|it its IH]; intros H; [reflexivity|].
  inversion H as [|? ? Hit Hits]; subst. cbn [split_slash].
  destruct it; try contradiction; rewrite IH by exact Hits; reflexivity.
Qed.

Lemma plain_params_spec k l : forall sd sd',
  seg_ok k l -> pmono sd l = Some sd' -> plain_params k sd (map plain l) = Some (l, sd').
Proof.
  induction l as [|p l IH]; intros sd sd' Hs Hm; cbn [map plain_params pmono] in *.
  - injection Hm as ->. reflexivity.
  - inversion Hs as [|? ? Hp Hl]; subst. unfold plain at 1.
    destruct (pdefault p) as [d|] eqn:Ed.
    + rewrite (IH true sd' Hl Hm). rewrite <- Ed, param_eta. reflexivity.
    + destruct sd; [discriminate|]. rewrite (IH false sd' Hl Hm). rewrite <- Ed, param_eta. reflexivity.
Qed.

Lemma classify_pk pk : forall sd sd' rest,
  seg_ok POSITIONAL_OR_KEYWORD pk -> pmono sd pk = Some sd' ->
  classify PhPos sd (map plain pk ++ rest) = option_map (app pk) (classify PhPos sd' rest).
Proof.
  induction pk as [|p pk IH]; intros sd sd' rest Hs Hm; cbn [map app pmono] in *.
  - injection Hm as ->. destruct (classify PhPos sd' rest); reflexivity.
  - inversion Hs as [|? ? Hp Hpk]; subst. unfold plain at 1. cbn [classify].
    destruct (pdefault p) as [d|] eqn:Ed.
    + rewrite (IH true sd' rest Hpk Hm). rewrite <- Ed, <- Hp, param_eta.
      destruct (classify PhPos sd' rest); reflexivity.
    + destruct sd; [discriminate|]. rewrite (IH false sd' rest Hpk Hm). rewrite <- Ed, <- Hp, param_eta.
      destruct (classify PhPos sd' rest); reflexivity.
Qed.

Lemma classify_ko ko : forall sd rest,
  seg_ok KEYWORD_ONLY ko ->
  classify PhKw sd (map plain ko ++ rest) = option_map (app ko) (classify PhKw sd rest).
Proof.
  induction ko as [|p ko IH]; intros sd rest Hs; cbn [map app].
  - destruct (classify PhKw sd rest); reflexivity.
  - inversion Hs as [|? ? Hp Hko]; subst. unfold plain at 1. cbn [classify].
    rewrite (IH sd rest Hko). rewrite <- Hp, param_eta. destruct (classify PhKw sd rest); reflexivity.
Qed.

Lemma classify_vk ph sd vk :
  (ph = PhPos \/ ph = PhKw) -> var_ok VAR_KEYWORD vk -> classify ph sd (map ikw vk) = Some vk.
Proof.
  intros Hph [Hl Hf]. destruct vk as [|v [|v2 vk]]; [| |cbn in Hl; lia].
  - destruct Hph as [-> | ->]; reflexivity.
  - inversion Hf as [|? ? [Hk Hd] _]; subst. cbn [map]. unfold ikw.
    destruct Hph as [-> | ->]; cbn [classify option_map]; rewrite <- Hk, <- Hd, param_eta; reflexivity.
Qed.

(* everything after the positional-or-keyword parameters *)
Lemma classify_tail sd va ko vk :
  var_ok VAR_POSITIONAL va -> seg_ok KEYWORD_ONLY ko -> var_ok VAR_KEYWORD vk ->
  classify PhPos sd (map ivar va ++ (match va, ko with [], _ :: _ => [IStar] | _, _ => [] end)
                     ++ map plain ko ++ map ikw vk) = Some (va ++ ko ++ vk).
Proof.
  intros [Hl Hf] Hko Hvk. destruct va as [|v [|v2 va]]; [| |cbn in Hl; lia].
  - cbn [map app]. destruct ko as [|k ko].
    + cbn [map app]. apply classify_vk; auto.
    + inversion Hko as [|? ? Hk Hko']; subst. cbn [map app classify]. unfold plain at 1. cbn [classify].
      rewrite (classify_ko ko sd (map ikw vk) Hko'). rewrite classify_vk by auto.
      cbn [option_map]. rewrite <- Hk, param_eta. reflexivity.
  - inversion Hf as [|? ? [Hk Hd] _]; subst. cbn [map app]. unfold ivar. cbn [classify].
    rewrite (classify_ko ko sd (map ikw vk) Hko). rewrite classify_vk by auto.
    cbn [option_map]. rewrite <- Hk, <- Hd, param_eta. reflexivity.
Qed.

Lemma read_items5 po pk va ko vk sd :
  seg_ok POSITIONAL_ONLY po -> seg_ok POSITIONAL_OR_KEYWORD pk -> var_ok VAR_POSITIONAL va ->
  seg_ok KEYWORD_ONLY ko -> var_ok VAR_KEYWORD vk -> pmono false (po ++ pk) = Some sd ->
  read_items (items5 po pk va ko vk) = Some (po ++ pk ++ va ++ ko ++ vk).
Proof.
  intros Hpo Hpk Hva Hko Hvk Hm.
  rewrite pmono_app in Hm. destruct (pmono false po) as [sd1|] eqn:E1; [|discriminate].
  set (tailits := map ivar va ++ (match va, ko with [], _ :: _ => [IStar] | _, _ => [] end)
                  ++ map plain ko ++ map ikw vk).
  assert (Hns : no_slash (map plain pk ++ tailits)).
  { unfold no_slash, tailits. repeat (apply Forall_app; split);
      try (apply Forall_map; apply Forall_forall; intros x _; discriminate).
    destruct va, ko; repeat constructor; discriminate. }
  assert (Hcl : classify PhPos sd1 (map plain pk ++ tailits) = Some (pk ++ va ++ ko ++ vk)).
  { rewrite (classify_pk pk sd1 sd tailits Hpk Hm). unfold tailits.
    rewrite classify_tail by assumption. reflexivity. }
  unfold read_items, items5. fold tailits.
  destruct po as [|p po].
  - cbn [map app]. rewrite split_slash_none by exact Hns.
    cbn [pmono] in E1. injection E1 as <-. exact Hcl.
  - rewrite split_slash_plain. cbn [app split_slash fst snd]. rewrite app_nil_r.
    cbn [map]. rewrite <- (map_cons plain p po).
    rewrite (plain_params_spec POSITIONAL_ONLY (p :: po) false sd1 Hpo E1).
    rewrite Hcl. reflexivity.
Qed.

(* ---- C.5 the round trip for a parameter list in Signature order ---- *)
Theorem sig_str_roundtrip po pk va ko vk ret sd :
  seg_ok POSITIONAL_ONLY po -> seg_ok POSITIONAL_OR_KEYWORD pk -> var_ok VAR_POSITIONAL va ->
  seg_ok KEYWORD_ONLY ko -> var_ok VAR_KEYWORD vk -> pmono false (po ++ pk) = Some sd ->
  Forall (fun p => name_ok (pname p)) (po ++ pk ++ va ++ ko ++ vk) ->
  read_sig (lex LS0 (sig_str (mkSig (po ++ pk ++ va ++ ko ++ vk) ret))) =
  Some (mkSig (po ++ pk ++ va ++ ko ++ vk) ret).
Proof.
  intros Hpo Hpk Hva Hko Hvk Hm Hn.
  rewrite (lex_sig_str _ ret (items5 po pk va ko vk)).
  - rewrite read_sig_items. rewrite (read_items5 po pk va ko vk sd) by assumption.
    destruct (items5 po pk va ko vk) eqn:E; [|reflexivity].
    unfold items5 in E.
    destruct po; [|discriminate]. destruct pk; [|discriminate]. destruct va; [|discriminate].
    destruct ko; [|discriminate]. destruct vk; [|discriminate]. reflexivity.
  - apply sig_loop_items; assumption.
  - rewrite !Forall_app in Hn. destruct Hn as (H1 & H2 & H3 & H4 & H5).
    unfold items5. repeat (apply Forall_app; split);
      try (apply Forall_map; eapply Forall_impl; [|eassumption]; cbn; auto).
    + destruct po; repeat constructor.
    + destruct va, ko; repeat constructor.
Qed.

(* ================================================================================================ *)
(* D. from the definition as written to what is displayed                                            *)
(* ================================================================================================ *)
(* the ast.arguments record CPython's parser builds for a parameter list as written *)
Definition arg_of (p : sparam) : ast_arg := mkArg (sp_name p) (sp_annot p).
Definition arg_of_var (v : svar) : ast_arg := mkArg (sv_name v) (sv_annot v).
Definition to_ast (s : src_sig) : ast_args :=
  mkArgs (map arg_of (s_posonly s)) (map arg_of (s_args s)) (option_map arg_of_var (s_vararg s))
         (map arg_of (s_kwonly s)) (src_kw_defaults s) (option_map arg_of_var (s_kwarg s)) (src_defaults s).

Definition src_names (s : src_sig) : list text := map pname (params_of_src s).

(* an annotation as displayed: unstring_annotation's first component *)
Definition shown_annot (a : option expr) : option expr :=
  match a with Some e => Some (fst (unstring_annotation e)) | None => None end.
Definition shown_param (p : param) : param := mkParam (pname p) (pkind p) (pdefault p) (shown_annot (pannot p)).
Definition displayed_params (s : src_sig) : list param := map shown_param (params_of_src s).
Definition displayed_ret (s : src_sig) : option expr :=
  match shown_annot (s_returns s) with
  | Some r => if is_none_literal r then None else Some r
  | None => None
  end.
Definition annot_report (a : option expr) : list report :=
  match a with
  | Some e => if snd (unstring_annotation e) then [SyntaxErrorInAnnotation] else []
  | None => []
  end.
Definition annotation_reports (s : src_sig) : list report :=
  flat_map annot_report (map pannot (params_of_src s) ++ opt_list (option_map Some (s_returns s))).

(* ---- D.1 the annotations dict ---- *)
Lemma dict_get_set_same k v d : dict_get k (dict_set k v d) = v.
Proof.
  induction d as [|[k' v'] d IH]; cbn [dict_set dict_get].
  - rewrite text_eqb_refl. reflexivity.
  - destruct (text_eqb k k') eqn:E; cbn [dict_get]; rewrite ?text_eqb_refl, ?E; auto.
Qed.

Lemma dict_get_set_other k k' v d : k <> k' -> dict_get k (dict_set k' v d) = dict_get k d.
Proof.
  intros Hne. induction d as [|[k2 v2] d IH]; cbn [dict_set dict_get].
  - apply text_eqb_neq in Hne. rewrite Hne. reflexivity.
  - destruct (text_eqb k' k2) eqn:E; cbn [dict_get].
    + apply text_eqb_eq in E. subst k2. apply text_eqb_neq in Hne. rewrite Hne. reflexivity.
    + destruct (text_eqb k k2); auto.
Qed.

Definition dstep (d : dict) (nv : text * option expr) : dict := dict_set (fst nv) (shown_annot (snd nv)) d.

Lemma build_annotations_fst pairs : forall d, fst (build_annotations pairs d) = fold_left dstep pairs d.
Proof.
  induction pairs as [|[n [v|]] r IH]; intros d; cbn [build_annotations fold_left].
  - reflexivity.
  - destruct (unstring_annotation v) as [v' rep] eqn:E.
    specialize (IH (dict_set n (Some v') d)).
    destruct (build_annotations r (dict_set n (Some v') d)) as [d' reps]. cbn [fst] in *.
    rewrite IH. unfold dstep at 3. cbn [fst snd shown_annot]. rewrite E. reflexivity.
  - rewrite IH. reflexivity.
Qed.

Lemma build_annotations_snd pairs : forall d,
  snd (build_annotations pairs d) = flat_map annot_report (map snd pairs).
Proof.
  induction pairs as [|[n [v|]] r IH]; intros d; cbn [build_annotations map flat_map snd].
  - reflexivity.
  - unfold annot_report at 1. destruct (unstring_annotation v) as [v' rep] eqn:E.
    specialize (IH (dict_set n (Some v') d)).
    destruct (build_annotations r (dict_set n (Some v') d)) as [d' reps]. cbn [snd] in *.
    rewrite IH. reflexivity.
  - rewrite IH. reflexivity.
Qed.

Lemma fold_get_notin pairs : forall d k,
  ~ In k (map fst pairs) -> dict_get k (fold_left dstep pairs d) = dict_get k d.
Proof.
  induction pairs as [|[n v] r IH]; intros d k Hk; cbn [fold_left]; [reflexivity|].
  cbn [map fst In] in Hk. rewrite IH by tauto.
  unfold dstep. cbn [fst snd]. apply dict_get_set_other. intros ->. tauto.
Qed.

Lemma fold_get_in pairs : forall d k v,
  NoDup (map fst pairs) -> In (k, v) pairs -> dict_get k (fold_left dstep pairs d) = shown_annot v.
Proof.
  induction pairs as [|[n v0] r IH]; intros d k v Hnd Hin; [destruct Hin|].
  cbn [map fst] in Hnd. inversion Hnd as [|? ? Hnot Hnd']; subst.
  cbn [fold_left]. destruct Hin as [E | Hin].
  - injection E as -> ->. rewrite fold_get_notin by exact Hnot.
    unfold dstep. cbn [fst snd]. apply dict_get_set_same.
  - apply IH; assumption.
Qed.

(* ---- D.2 the record the parser builds, and the parameters as written ---- *)
Definition src_pairs (s : src_sig) : list (text * option expr) :=
  map (fun p => (pname p, pannot p)) (params_of_src s).

Lemma all_args_to_ast s :
  map (fun x => (a_name x, a_annot x)) (all_args (to_ast s)) = src_pairs s.
Proof.
  unfold all_args, to_ast, src_pairs, params_of_src. cbn [posonlyargs args vararg kwonlyargs kwarg].
  rewrite !map_app, !map_map. cbn [a_name a_annot arg_of pname pannot].
  destruct (s_vararg s), (s_kwarg s); reflexivity.
Qed.

Lemma src_pairs_fst s : map fst (src_pairs s) = src_names s.
Proof. unfold src_pairs, src_names. rewrite map_map. reflexivity. Qed.

Lemma flat_defaults_length (l : list sparam) :
  (length (flat_map (fun p => match sp_default p with Some d => [d] | None => [] end) l) <= length l)%nat.
Proof. induction l as [|p l IH]; cbn; [lia|]. destruct (sp_default p); cbn; lia. Qed.

Lemma wf_to_ast s : wf_args (to_ast s).
Proof.
  unfold wf_args, to_ast, src_defaults, src_kw_defaults. cbn [defaults posonlyargs args kw_defaults kwonlyargs].
  rewrite !map_length. split; [|reflexivity].
  rewrite <- app_length. apply flat_defaults_length.
Qed.

(* all have a default *)
Lemma monotone_true_all l :
  defaults_monotone true l = true ->
  map sp_default l = map Some (flat_map (fun p => match sp_default p with Some d => [d] | None => [] end) l).
Proof.
  induction l as [|p l IH]; cbn [defaults_monotone map flat_map]; [reflexivity|].
  destruct (sp_default p) as [d|]; [|discriminate].
  intros H. cbn [app map]. f_equal. apply IH. exact H.
Qed.

(* valid source: the right-aligned reading of `defaults` is what was written *)
Lemma aligned_src l :
  defaults_monotone false l = true ->
  aligned_defaults (length l) (flat_map (fun p => match sp_default p with Some d => [d] | None => [] end) l)
  = map sp_default l.
Proof.
  unfold aligned_defaults. induction l as [|p l IH]; cbn [defaults_monotone map flat_map length]; [reflexivity|].
  destruct (sp_default p) as [d|] eqn:Ed.
  - intros H. pose proof (monotone_true_all l H) as Hall.
    pose proof (f_equal (@length _) Hall) as Hl. rewrite !map_length in Hl.
    cbn [app length map]. rewrite <- Hl. rewrite Nat.sub_diag. cbn [repeat app]. rewrite Hall. reflexivity.
  - cbn [negb andb app]. intros H.
    pose proof (flat_defaults_length l) as Hle.
    rewrite Nat.sub_succ_l by exact Hle. cbn [repeat app]. f_equal. apply IH. exact H.
Qed.

Lemma map_combine_maps {A B C D} (f : B * C -> D) (g : A -> B) (h : A -> C) (l : list A) :
  map f (combine (map g l) (map h l)) = map (fun x => f (g x, h x)) l.
Proof. induction l; cbn; congruence. Qed.

Lemma expected_params_to_ast ann s :
  valid_src s ->
  (forall p, In p (params_of_src s) -> dict_get (pname p) ann = shown_annot (pannot p)) ->
  expected_params ann (to_ast s) = displayed_params s.
Proof.
  intros Hv Hann. unfold expected_params, displayed_params, params_of_src in *.
  unfold to_ast. cbn [posonlyargs args vararg kwonlyargs kwarg kw_defaults defaults].
  rewrite !map_length. unfold src_defaults, src_kw_defaults.
  rewrite <- app_length. rewrite aligned_src by exact Hv.
  rewrite map_app, firstn_app, skipn_app, !map_length.
  rewrite Nat.sub_diag, firstn_O, skipn_O, app_nil_r.
  rewrite firstn_all2 by (rewrite map_length; lia).
  rewrite skipn_all2 by (rewrite map_length; lia). cbn [app].
  rewrite !map_combine_maps. rewrite !map_app, !map_map.
  cbn [fst snd arg_of a_name].
  assert (Hseg : forall (k : kind) (l : list sparam),
             (forall p, In p l -> dict_get (sp_name p) ann = shown_annot (sp_annot p)) ->
             map (fun x => add_arg ann (sp_name x) k (sp_default x)) l =
             map (fun x => shown_param (mkParam (sp_name x) k (sp_default x) (sp_annot x))) l).
  { intros k l Hl. apply map_ext_in. intros p Hp. unfold add_arg, shown_param. cbn. rewrite Hl by exact Hp. reflexivity. }
  rewrite !Hseg.
  - f_equal. f_equal. f_equal; [|f_equal].
    + destruct (s_vararg s) as [v|]; [|reflexivity]. cbn. unfold add_arg, shown_param. cbn.
      assert (Hx := Hann (mkParam (sv_name v) VAR_POSITIONAL None (sv_annot v))). cbn [pname pannot] in Hx.
      rewrite Hx; [reflexivity|].
      rewrite !in_app_iff. right. right. left. left. reflexivity.
    + destruct (s_kwarg s) as [v|]; [|reflexivity]. cbn. unfold add_arg, shown_param. cbn.
      assert (Hx := Hann (mkParam (sv_name v) VAR_KEYWORD None (sv_annot v))). cbn [pname pannot] in Hx.
      rewrite Hx; [reflexivity|].
      rewrite !in_app_iff. right. right. right. right. left. reflexivity.
  - intros p Hp. apply (Hann (mkParam (sp_name p) KEYWORD_ONLY (sp_default p) (sp_annot p))).
    rewrite !in_app_iff. right. right. right. left. apply in_map_iff. exists p. auto.
  - intros p Hp. apply (Hann (mkParam (sp_name p) POSITIONAL_OR_KEYWORD (sp_default p) (sp_annot p))).
    rewrite !in_app_iff. right. left. apply in_map_iff. exists p. auto.
  - intros p Hp. apply (Hann (mkParam (sp_name p) POSITIONAL_ONLY (sp_default p) (sp_annot p))).
    rewrite !in_app_iff. left. apply in_map_iff. exists p. auto.
Qed.

(* ---- D.3 handle_signature on a definition as written, and its display read back ---- *)
Lemma NoDup_snoc {A} (l : list A) x : NoDup l -> ~ In x l -> NoDup (l ++ [x]).
Proof.
  induction l as [|y l IH]; intros Hnd Hx; cbn [app].
  - constructor; [intros []|constructor].
  - inversion Hnd as [|? ? Hy Hl]; subst. constructor.
    + rewrite in_app_iff. intros [H | [H | []]]; [contradiction|]. apply Hx. left. auto.
    + apply IH; [exact Hl|]. intros H. apply Hx. right. exact H.
Qed.

Lemma all_ast_annotations_to_ast s :
  all_ast_annotations (to_ast s) (s_returns s) =
  src_pairs s ++ match s_returns s with Some r => [(return_key, Some r)] | None => [] end.
Proof. unfold all_ast_annotations. rewrite all_args_to_ast. reflexivity. Qed.

Lemma annotations_lookup s :
  NoDup (src_names s) -> ~ In return_key (src_names s) ->
  (forall p, In p (params_of_src s) ->
             dict_get (pname p) (fst (annotations_from_function (to_ast s) (s_returns s))) = shown_annot (pannot p))
  /\ dict_get return_key (fst (annotations_from_function (to_ast s) (s_returns s))) = shown_annot (s_returns s).
Proof.
  intros Hnd Hret. unfold annotations_from_function.
  rewrite build_annotations_fst, all_ast_annotations_to_ast.
  assert (Hkeys : NoDup (map fst (src_pairs s ++ match s_returns s with
                                                 | Some r => [(return_key, Some r)] | None => [] end))).
  { rewrite map_app, src_pairs_fst. destruct (s_returns s); cbn [map fst].
    - apply NoDup_snoc; assumption.
    - rewrite app_nil_r. exact Hnd. }
  split.
  - intros p Hp. apply fold_get_in; [exact Hkeys|].
    rewrite in_app_iff. left. unfold src_pairs. apply in_map_iff. exists p. auto.
  - destruct (s_returns s) as [r|] eqn:Er.
    + apply fold_get_in; [exact Hkeys|]. rewrite in_app_iff. right. left. reflexivity.
    + rewrite fold_get_notin; [reflexivity|]. rewrite app_nil_r, src_pairs_fst. exact Hret.
Qed.

Lemma annotations_reports s :
  snd (annotations_from_function (to_ast s) (s_returns s)) = annotation_reports s.
Proof.
  unfold annotations_from_function, annotation_reports.
  rewrite build_annotations_snd, all_ast_annotations_to_ast, map_app. f_equal. f_equal.
  - unfold src_pairs. rewrite map_map. reflexivity.
  - destruct (s_returns s); reflexivity.
Qed.

Lemma to_ast_names s : map a_name (all_args (to_ast s)) = src_names s.
Proof.
  rewrite <- src_pairs_fst, <- all_args_to_ast, map_map. reflexivity.
Qed.

Lemma pmono_of_src l : forall ps sd,
  map pdefault ps = map sp_default l -> defaults_monotone sd l = true -> exists sd', pmono sd ps = Some sd'.
Proof.
  induction l as [|x l IH]; intros [|p ps] sd Hm Hd; cbn [map] in Hm; try discriminate.
  - eexists; reflexivity.
  - injection Hm as Hp Hps. cbn [defaults_monotone] in Hd. cbn [pmono]. rewrite Hp.
    destruct (sp_default x).
    + apply IH; assumption.
    + apply andb_true_iff in Hd as [Hsd Hd]. destruct sd; [discriminate|]. apply IH; assumption.
Qed.

Definition shown_sig (s : src_sig) : signature := mkSig (displayed_params s) (displayed_ret s).

Theorem handle_signature_src s ov asy :
  valid_src s -> NoDup (src_names s) -> ~ In return_key (src_names s) ->
  handle_signature (mkDef (to_ast s) (s_returns s) ov asy) = Ok (shown_sig s, annotation_reports s).
Proof.
  intros Hv Hnd Hret. unfold handle_signature. cbn [fd_args fd_returns].
  pose proof (annotations_lookup s Hnd Hret) as [Hget Hgetr].
  pose proof (annotations_reports s) as Hreps.
  destruct (annotations_from_function (to_ast s) (s_returns s)) as [ann reps]. cbn [fst snd] in *.
  rewrite build_params_expected by apply wf_to_ast.
  rewrite Hgetr.
  unfold signature_init.
  rewrite expected_params_valid by apply wf_to_ast.
  rewrite to_ast_names.
  replace (dup_free [] (src_names s)) with true by (symmetry; apply dup_free_nil; exact Hnd).
  rewrite (expected_params_to_ast ann s Hv Hget). subst reps. reflexivity.
Qed.

Lemma displayed_segments s :
  displayed_params s =
  map shown_param (map (fun p => mkParam (sp_name p) POSITIONAL_ONLY (sp_default p) (sp_annot p)) (s_posonly s))
  ++ map shown_param (map (fun p => mkParam (sp_name p) POSITIONAL_OR_KEYWORD (sp_default p) (sp_annot p)) (s_args s))
  ++ map shown_param (match s_vararg s with Some v => [mkParam (sv_name v) VAR_POSITIONAL None (sv_annot v)] | None => [] end)
  ++ map shown_param (map (fun p => mkParam (sp_name p) KEYWORD_ONLY (sp_default p) (sp_annot p)) (s_kwonly s))
  ++ map shown_param (match s_kwarg s with Some v => [mkParam (sv_name v) VAR_KEYWORD None (sv_annot v)] | None => [] end).
Proof. unfold displayed_params, params_of_src. rewrite !map_app. reflexivity. Qed.

Theorem displayed_roundtrip s :
  valid_src s -> Forall name_ok (src_names s) ->
  read_sig (lex LS0 (format_signature (Some (shown_sig s)))) = Some (shown_sig s).
Proof.
  intros Hv Hn. unfold format_signature, shown_sig.
  destruct (pmono_of_src (s_posonly s ++ s_args s)
             (map shown_param (map (fun p => mkParam (sp_name p) POSITIONAL_ONLY (sp_default p) (sp_annot p)) (s_posonly s))
              ++ map shown_param (map (fun p => mkParam (sp_name p) POSITIONAL_OR_KEYWORD (sp_default p) (sp_annot p)) (s_args s)))
             false) as [sd Hsd].
  { rewrite !map_app, !map_map. reflexivity. }
  { exact Hv. }
  rewrite displayed_segments.
  apply (sig_str_roundtrip _ _ _ _ _ _ sd).
  - apply Forall_map, Forall_map, Forall_forall. intros; reflexivity.
  - apply Forall_map, Forall_map, Forall_forall. intros; reflexivity.
  - split; destruct (s_vararg s); cbn; try lia; repeat constructor.
  - apply Forall_map, Forall_map, Forall_forall. intros; reflexivity.
  - split; destruct (s_kwarg s); cbn; try lia; repeat constructor.
  - exact Hsd.
  - rewrite <- displayed_segments. unfold displayed_params, src_names in *.
    apply Forall_map. rewrite Forall_map in Hn. eapply Forall_impl; [|exact Hn]. cbn. auto.
Qed.

(* ================================================================================================ *)
(* E. unstring_annotation                                                                            *)
(* ================================================================================================ *)
Lemma expr_ind' (P : expr -> Prop) :
  P ENoneLit ->
  (forall sid, P (EStr sid None)) ->
  (forall sid p, P p -> P (EStr sid (Some p))) ->
  (forall v s, P v -> P s -> P (ESub v s)) ->
  (forall id, P (EName id)) ->
  (forall v a, P v -> P (EAttr v a)) ->
  (forall t ks, Forall P ks -> P (ENode t ks)) ->
  (forall l, Forall P l -> P (EList l)) ->
  forall e, P e.
Proof.
  intros H1 H2 H3 H4 H5 H6 H7 H8. fix IH 1. intros [|sid [p|]|v s|id|v a|t ks|l].
  - exact H1.
  - apply H3. apply IH.
  - apply H2.
  - apply H4; apply IH.
  - apply H5.
  - apply H6. apply IH.
  - apply H7. induction ks as [|k ks IHks]; constructor; [apply IH | exact IHks].
  - apply H8. induction l as [|k ks IHks]; constructor; [apply IH | exact IHks].
Qed.

Fixpoint visit_list (l : list expr) : option (list expr) :=
  match l with
  | [] => Some []
  | k :: r =>
    match visit k with
    | None => None
    | Some k' => match visit_list r with Some r' => Some (k' :: r') | None => None end
    end
  end.

Lemma visit_node t ks :
  visit (ENode t ks) = match visit_list ks with Some ks' => Some (ENode t ks') | None => None end.
Proof. reflexivity. Qed.
Lemma visit_elist l :
  visit (EList l) = match visit_list l with Some l' => Some (EList l') | None => None end.
Proof. reflexivity. Qed.

Definition visit_correct (e : expr) : Prop :=
  (forall e', visit e = Some e' <-> unstrung e e') /\ (visit e = None <-> bad_string e).

Lemma visit_list_correct l :
  Forall visit_correct l ->
  (forall l', visit_list l = Some l' <-> Forall2 unstrung l l') /\ (visit_list l = None <-> Exists bad_string l).
Proof.
  induction l as [|k r IH]; intros HF.
  - split.
    + intros l'. cbn. split; [intros E; injection E as <-; constructor | intros H; inversion H; reflexivity].
    + cbn. split; [discriminate | intros H; inversion H].
  - inversion HF as [|? ? [Hk1 Hk2] Hr]; subst. destruct (IH Hr) as [IH1 IH2]. cbn [visit_list].
    destruct (visit k) as [k'|] eqn:Ek.
    + destruct (visit_list r) as [r'|] eqn:Er.
      * split.
        -- intros l'. split.
           ++ intros E; injection E as <-. constructor; [apply Hk1; reflexivity | apply IH1; reflexivity].
           ++ intros H. inversion H as [|? k2 ? r2 Hk Hr2]; subst.
              apply Hk1 in Hk. apply IH1 in Hr2. congruence.
        -- split; [discriminate|]. intros H. inversion H as [? ? Hb | ? ? Hb]; subst.
           ++ apply Hk2 in Hb. congruence.
           ++ apply IH2 in Hb. congruence.
      * split.
        -- intros l'. split; [discriminate|]. intros H. inversion H as [|? k2 ? r2 Hk Hr2]; subst.
           apply IH1 in Hr2. congruence.
        -- split; [|reflexivity]. intros _. apply Exists_cons_tl. apply IH2. reflexivity.
    + split.
      * intros l'. split; [discriminate|]. intros H. inversion H as [|? k2 ? r2 Hk Hr2]; subst.
        apply Hk1 in Hk. congruence.
      * split; [|reflexivity]. intros _. apply Exists_cons_hd. apply Hk2. reflexivity.
Qed.

Lemma visit_is_unstrung : forall e, visit_correct e.
Proof.
  apply expr_ind'; unfold visit_correct.
  - (* None *) split.
    + intros e'. cbn. split; [intros E; injection E as <-; constructor | intros H; inversion H; reflexivity].
    + cbn. split; [discriminate | intros H; inversion H].
  - (* bad string *) intros sid. split.
    + intros e'. cbn. split; [discriminate | intros H; inversion H].
    + cbn. split; [intros _; constructor | reflexivity].
  - (* string *) intros sid p [IH1 IH2]. split.
    + intros e'. cbn [visit]. rewrite IH1. split; [intros H; constructor; exact H | intros H; inversion H; auto].
    + cbn [visit]. rewrite IH2. split; [intros H; constructor; exact H | intros H; inversion H; auto].
  - (* subscript *) intros v s [IHv1 IHv2] [IHs1 IHs2]. cbn [visit].
    destruct (visit v) as [v'|] eqn:Ev.
    + assert (Hv : unstrung v v') by (apply IHv1; reflexivity).
      assert (Hvu : forall v2, unstrung v v2 -> v2 = v') by (intros v2 H2; apply IHv1 in H2; congruence).
      destruct (is_literal_head v') eqn:El.
      * split.
        -- intros e'. split.
           ++ intros E; injection E as <-. apply U_sub_lit; assumption.
           ++ intros H. inversion H as [| | | |? v2 ? H2 Hl|? v2 ? s2 H2 Hl Hs| |]; subst;
                apply Hvu in H2; subst v2; [reflexivity | congruence].
        -- split; [discriminate|]. intros H. inversion H as [| | |? ? Hb|? v2 ? H2 Hl Hb| |]; subst.
           ++ apply IHv2 in Hb. congruence.
           ++ apply Hvu in H2. subst v2. congruence.
      * destruct (visit s) as [s'|] eqn:Es.
        -- split.
           ++ intros e'. split.
              ** intros E; injection E as <-. apply U_sub; [assumption..|apply IHs1; reflexivity].
              ** intros H. inversion H as [| | | |? v2 ? H2 Hl|? v2 ? s2 H2 Hl Hs| |]; subst;
                   apply Hvu in H2; subst v2; [congruence|]. apply IHs1 in Hs. congruence.
           ++ split; [discriminate|]. intros H. inversion H as [| | |? ? Hb|? v2 ? H2 Hl Hb| |]; subst.
              ** apply IHv2 in Hb. congruence.
              ** apply IHs2 in Hb. congruence.
        -- split.
           ++ intros e'. split; [discriminate|].
              intros H. inversion H as [| | | |? v2 ? H2 Hl|? v2 ? s2 H2 Hl Hs| |]; subst;
                apply Hvu in H2; subst v2; [congruence|]. apply IHs1 in Hs. congruence.
           ++ split; [|reflexivity]. intros _. apply B_sub_s with v'; auto. apply IHs2. reflexivity.
    + split.
      * intros e'. split; [discriminate|].
        intros H. inversion H as [| | | |? v2 ? H2 Hl|? v2 ? s2 H2 Hl Hs| |]; subst; apply IHv1 in H2; congruence.
      * split; [|reflexivity]. intros _. apply B_sub_v. apply IHv2. reflexivity.
  - (* name *) intros id. split.
    + intros e'. cbn. split; [intros E; injection E as <-; constructor | intros H; inversion H; reflexivity].
    + cbn. split; [discriminate | intros H; inversion H].
  - (* attribute *) intros v a [IH1 IH2]. cbn [visit]. destruct (visit v) as [v'|] eqn:Ev.
    + split.
      * intros e'. split.
        -- intros E; injection E as <-. constructor. apply IH1. reflexivity.
        -- intros H. inversion H as [| | |? v2 ? H2| | | |]; subst. apply IH1 in H2. congruence.
      * split; [discriminate|]. intros H. inversion H as [| |? ? Hb| | | |]; subst. apply IH2 in Hb. congruence.
    + split.
      * intros e'. split; [discriminate|]. intros H. inversion H as [| | |? v2 ? H2| | | |]; subst.
        apply IH1 in H2. congruence.
      * split; [|reflexivity]. intros _. constructor. apply IH2. reflexivity.
  - (* other node *) intros t ks HF. destruct (visit_list_correct ks HF) as [L1 L2]. rewrite visit_node.
    destruct (visit_list ks) as [ks'|] eqn:E.
    + split.
      * intros e'. split.
        -- intros E2; injection E2 as <-. constructor. apply L1. reflexivity.
        -- intros H. inversion H as [| | | | | |? ? ks2 H2|]; subst. apply L1 in H2. congruence.
      * split; [discriminate|]. intros H. inversion H as [| | | | |? ? Hb|]; subst. apply L2 in Hb. congruence.
    + split.
      * intros e'. split; [discriminate|]. intros H. inversion H as [| | | | | |? ? ks2 H2|]; subst.
        apply L1 in H2. congruence.
      * split; [|reflexivity]. intros _. constructor. apply L2. reflexivity.
  - (* list field *) intros l HF. destruct (visit_list_correct l HF) as [L1 L2]. rewrite visit_elist.
    destruct (visit_list l) as [l'|] eqn:E.
    + split.
      * intros e'. split.
        -- intros E2; injection E2 as <-. constructor. apply L1. reflexivity.
        -- intros H. inversion H as [| | | | | | |? l2 H2]; subst. apply L1 in H2. congruence.
      * split; [discriminate|]. intros H. inversion H as [| | | | | |? Hb]; subst. apply L2 in Hb. congruence.
    + split.
      * intros e'. split; [discriminate|]. intros H. inversion H as [| | | | | | |? l2 H2]; subst.
        apply L1 in H2. congruence.
      * split; [|reflexivity]. intros _. constructor. apply L2. reflexivity.
Qed.

Theorem unstring_annotation_spec e :
  (forall e', unstring_annotation e = (e', false) <-> unstrung e e') /\
  (snd (unstring_annotation e) = true <-> bad_string e) /\
  (bad_string e -> unstring_annotation e = (after e, true)).
Proof.
  destruct (visit_is_unstrung e) as [H1 H2]. unfold unstring_annotation.
  destruct (visit e) as [e2|] eqn:E.
  - split; [|split].
    + intros e'. rewrite <- H1. split; [intros H; injection H as <-; reflexivity | intros H; injection H as <-; reflexivity].
    + cbn. split; [discriminate|]. intros H. apply H2 in H. discriminate.
    + intros H. apply H2 in H. discriminate.
  - split; [|split].
    + intros e'. split; [discriminate|]. intros H. apply H1 in H. discriminate.
    + cbn. split; [intros _; apply H2; reflexivity | reflexivity].
    + reflexivity.
Qed.

(* ================================================================================================ *)
(* F. overloads                                                                                      *)
(* ================================================================================================ *)
Definition kw_wf (d : funcdef) : Prop := length (kw_defaults (fd_args d)) = length (kwonlyargs (fd_args d)).

(* the Signature _handleFunctionDef computes for one definition, on its own *)
Definition sig_of (d : funcdef) : signature :=
  match handle_signature d with Ok (s, _) => s | Raise _ => mkSig [] None end.
Definition reports_of (d : funcdef) : list report :=
  match handle_signature d with Ok (_, r) => r | Raise _ => [] end.

Lemma handle_signature_total d : kw_wf d -> handle_signature d = Ok (sig_of d, reports_of d).
Proof.
  intros Hk. unfold sig_of, reports_of. unfold handle_signature.
  destruct (annotations_from_function (fd_args d) (fd_returns d)) as [ann reps].
  assert (Ht : exists ps, build_params ann (fd_args d) = Ok ps).
  { unfold build_params. unfold kw_wf in Hk.
    set (n := (length (posonlyargs (fd_args d)) + length (args (fd_args d)))%nat).
    replace (zlen (posonlyargs (fd_args d)) + zlen (args (fd_args d)))%Z with (Z.of_nat n) by (unfold zlen, n; lia).
    destruct (loop_positional_total ann n (defaults (fd_args d)) POSITIONAL_ONLY (posonlyargs (fd_args d)) 0) as [p1 H1];
      [unfold n; lia|].
    cbn [Z.of_nat] in H1. rewrite H1.
    change (zlen (posonlyargs (fd_args d))) with (Z.of_nat (length (posonlyargs (fd_args d)))).
    destruct (loop_positional_total ann n (defaults (fd_args d)) POSITIONAL_OR_KEYWORD (args (fd_args d))
                                    (length (posonlyargs (fd_args d)))) as [p2 H2]; [unfold n; lia|].
    rewrite H2. rewrite Hk, Nat.eqb_refl. cbn [negb]. eexists; reflexivity. }
  destruct Ht as [ps H].
  - rewrite H. destruct (signature_init ps _); reflexivity.
Qed.

(* a run of @overload definitions on a Function that has no primary signature yet *)
Lemma handle_defs_overloads ovs : forall f0,
  Forall kw_wf ovs -> Forall (fun d => fd_overload d = true) ovs ->
  fn_signature f0 = None ->
  (fn_overloads f0 <> [] \/ (f0 = mkFun None [] false)) ->
  ovs <> [] ->
  exists f reps,
    handle_defs (Some f0) ovs = Ok (Some f, reps) /\
    fn_signature f = None /\ fn_overloads f = fn_overloads f0 ++ map sig_of ovs /\
    reps = flat_map reports_of ovs /\
    fn_async f = fd_async (last ovs (mkDef (mkArgs [] [] None [] [] None []) None true false)).
Proof.
  induction ovs as [|d ovs IH]; intros f0 Hwf Hov Hsig Hf0 Hne; [contradiction|].
  inversion Hwf as [|? ? Hd Hwf']; subst. inversion Hov as [|? ? Hdo Hov']; subst.
  cbn [handle_defs]. unfold handle_def.
  set (f1 := mkFun None (fn_overloads f0 ++ [sig_of d]) (fd_async d)).
  assert (Hd1 : handle_def (Some f0) d = Ok (f1, reports_of d)).
  { unfold handle_def. rewrite handle_signature_total by exact Hd. rewrite Hdo.
    destruct Hf0 as [Hf0 | ->].
    - destruct (fn_overloads f0) as [|o os] eqn:Eo; [contradiction|]. rewrite Hsig. unfold f1. cbn [fn_overloads fn_signature]. rewrite ?Eo. reflexivity.
    - reflexivity. }
  unfold handle_def in Hd1. rewrite Hd1.
  destruct ovs as [|d2 ovs].
  - cbn [handle_defs]. exists f1, (reports_of d ++ []).
    split; [reflexivity|]. split; [reflexivity|]. split; [reflexivity|].
    split; [cbn [flat_map]; reflexivity | reflexivity].
  - destruct (IH f1 Hwf' Hov' eq_refl) as (f & reps & Hh & Hs & Ho & Hr & Ha).
    + left. unfold f1. cbn [fn_overloads]. destruct (fn_overloads f0); discriminate.
    + discriminate.
    + rewrite Hh. exists f, (reports_of d ++ reps).
      split; [reflexivity|]. split; [exact Hs|]. split; [|split].
      * rewrite Ho. unfold f1. cbn [fn_overloads map]. rewrite <- app_assoc. reflexivity.
      * rewrite Hr. reflexivity.
      * exact Ha.
Qed.

Lemma displayed_defs_overloaded name f ovs :
  fn_overloads f = map sig_of ovs -> ovs <> [] ->
  displayed_defs name f = map (fun d => format_function_def name (fn_async f) false (Some (sig_of d))) ovs.
Proof.
  intros Ho Hne. unfold displayed_defs. rewrite Ho, map_map.
  destruct ovs as [|d ovs]; [contradiction|].
  change (format_function_def name (fn_async f)
            match map sig_of (d :: ovs) with [] => false | _ :: _ => true end (fn_signature f))
    with (@nil piece).
  apply app_nil_r.
Qed.

Definition dummy_def : funcdef := mkDef (mkArgs [] [] None [] [] None []) None true false.

(* @overload definitions followed by the implementation: each overload keeps its own signature, in order;
   the entry shows one definition line per overload and not the implementation's *)
Theorem overloads_then_primary name ovs prim :
  Forall kw_wf ovs -> kw_wf prim -> Forall (fun d => fd_overload d = true) ovs -> fd_overload prim = false ->
  ovs <> [] ->
  exists f,
    handle_defs None (ovs ++ [prim]) = Ok (Some f, flat_map reports_of (ovs ++ [prim])) /\
    fn_overloads f = map sig_of ovs /\ fn_signature f = Some (sig_of prim) /\
    displayed_defs name f =
    map (fun d => format_function_def name (fd_async prim) false (Some (sig_of d))) ovs.
Proof.
  intros Hwf Hp Hov Hpo Hne.
  destruct ovs as [|d ovs]; [contradiction|].
  inversion Hwf as [|? ? Hd Hwf']; subst. inversion Hov as [|? ? Hdo Hov']; subst.
  (* first definition: a new Function *)
  assert (H1 : handle_def None d = Ok (mkFun None [sig_of d] (fd_async d), reports_of d)).
  { unfold handle_def. rewrite handle_signature_total by exact Hd. rewrite Hdo. reflexivity. }
  set (f1 := mkFun None [sig_of d] (fd_async d)) in *.
  (* the implementation, on a Function f that has overloads and no primary yet *)
  assert (Hprim : forall f, fn_signature f = None -> fn_overloads f <> [] ->
                            handle_def (Some f) prim =
                            Ok (mkFun (Some (sig_of prim)) (fn_overloads f) (fd_async prim), reports_of prim)).
  { intros f Hs Ho. unfold handle_def. rewrite handle_signature_total by exact Hp. rewrite Hpo.
    destruct (fn_overloads f) as [|o os] eqn:Eo; [contradiction|]. rewrite Hs. cbn [fn_overloads fn_signature]. rewrite ?Eo. reflexivity. }
  cbn [app handle_defs]. rewrite H1.
  destruct ovs as [|d2 ovs].
  - cbn [app handle_defs]. rewrite (Hprim f1 eq_refl) by discriminate.
    eexists. split; [|split; [|split]].
    + cbn [flat_map app]. rewrite !app_nil_r. reflexivity.
    + reflexivity.
    + reflexivity.
    + rewrite (displayed_defs_overloaded name _ [d]); [reflexivity | reflexivity | discriminate].
  - (* the remaining overloads, then the implementation *)
    assert (Hsplit : forall ds f0, handle_defs (Some f0) (ds ++ [prim]) =
                                   match handle_defs (Some f0) ds with
                                   | Ok (Some f, reps) =>
                                     match handle_def (Some f) prim with
                                     | Ok (f', reps') => Ok (Some f', reps ++ reps' ++ [])
                                     | Raise e => Raise e
                                     end
                                   | Ok (None, reps) => Raise IndexError
                                   | Raise e => Raise e
                                   end).
    { induction ds as [|x ds IHds]; intros f0; cbn [app handle_defs].
      - destruct (handle_def (Some f0) prim) as [[f' reps']|]; reflexivity.
      - destruct (handle_def (Some f0) x) as [[fx repsx]|]; [|reflexivity].
        rewrite IHds. destruct (handle_defs (Some fx) ds) as [[[f|] reps]|]; try reflexivity.
        destruct (handle_def (Some f) prim) as [[f' reps']|]; [|reflexivity].
        rewrite <- app_assoc. reflexivity. }
    rewrite Hsplit.
    destruct (handle_defs_overloads (d2 :: ovs) f1 Hwf' Hov' eq_refl) as (f & reps & Hh & Hs & Ho & Hr & Ha).
    + left. discriminate.
    + discriminate.
    + rewrite Hh. rewrite (Hprim f Hs) by (rewrite Ho; discriminate).
      exists (mkFun (Some (sig_of prim)) (fn_overloads f) (fd_async prim)). split; [|split; [|split]].
      * rewrite Hr. do 2 f_equal.
        change (flat_map reports_of (d :: (d2 :: ovs) ++ [prim]))
          with (reports_of d ++ flat_map reports_of ((d2 :: ovs) ++ [prim])).
        rewrite flat_map_app. cbn [flat_map]. reflexivity.
      * cbn [fn_overloads]. rewrite Ho. reflexivity.
      * reflexivity.
      * rewrite (displayed_defs_overloaded name _ (d :: d2 :: ovs)); [reflexivity | | discriminate].
        cbn [fn_overloads]. rewrite Ho. reflexivity.
Qed.

(* no overloads: the entry shows the definition itself *)
Theorem primary_alone name prim :
  kw_wf prim -> fd_overload prim = false ->
  handle_defs None [prim] = Ok (Some (mkFun (Some (sig_of prim)) [] (fd_async prim)), reports_of prim ++ []) /\
  displayed_defs name (mkFun (Some (sig_of prim)) [] (fd_async prim)) =
  [format_function_def name (fd_async prim) false (Some (sig_of prim))].
Proof.
  intros Hp Hpo. split.
  - cbn [handle_defs]. unfold handle_def. rewrite handle_signature_total by exact Hp. rewrite Hpo. reflexivity.
  - unfold displayed_defs. cbn [fn_overloads fn_signature fn_async map app].
    unfold format_function_def. destruct (fd_async prim); reflexivity.
Qed.

(* only @overload definitions (a stub file): every one is shown *)
Theorem overloads_only name ovs :
  Forall kw_wf ovs -> Forall (fun d => fd_overload d = true) ovs -> ovs <> [] ->
  exists f,
    handle_defs None ovs = Ok (Some f, flat_map reports_of ovs) /\
    fn_overloads f = map sig_of ovs /\ fn_signature f = None /\
    displayed_defs name f = map (fun d => format_function_def name (fn_async f) false (Some (sig_of d))) ovs.
Proof.
  intros Hwf Hov Hne.
  assert (Hsame : handle_defs None ovs = handle_defs (Some (mkFun None [] false)) ovs).
  { destruct ovs as [|d ovs]; [contradiction|]. reflexivity. }
  destruct (handle_defs_overloads ovs (mkFun None [] false) Hwf Hov eq_refl (or_intror eq_refl) Hne)
    as (f & reps & Hh & Hs & Ho & Hr & _).
  exists f. rewrite Hsame, Hh, Hr. cbn [fn_overloads app] in Ho.
  split; [reflexivity|]. split; [exact Ho|]. split; [exact Hs|].
  apply displayed_defs_overloaded; assumption.
Qed.

(* ---- what is handed back when unstringing fails: the in-place, partly transformed original ---- *)
Fixpoint after_node_go (l : list expr) : list expr :=
  match l with
  | [] => []
  | k :: r => match visit k with Some k' => k' :: after_node_go r | None => after k :: r end
  end.
Fixpoint after_list_go (l : list expr) : list expr :=
  match l with
  | [] => []
  | k :: r => match visit k with Some _ => after k :: after_list_go r | None => after k :: r end
  end.
Lemma after_node t ks : after (ENode t ks) = ENode t (after_node_go ks).
Proof. reflexivity. Qed.
Lemma after_elist l :
  after (EList l) = match visit (EList l) with Some l' => l' | None => EList (after_list_go l) end.
Proof. reflexivity. Qed.

Lemma Forall2_partly_refl l : Forall2 partly l l.
Proof. induction l; constructor; [apply P_keep | assumption]. Qed.

Theorem after_partly : forall e, partly e (after e).
Proof.
  apply expr_ind'.
  - apply P_keep.
  - intros. apply P_keep.
  - intros. apply P_keep.
  - intros v s IHv IHs. cbn [after].
    destruct (visit v) as [v'|] eqn:Ev.
    + destruct (is_literal_head v') eqn:El.
      * apply P_sub; [exact IHv | apply P_keep | reflexivity].
      * apply P_sub; [exact IHv | exact IHs|].
        intros v2 H2 Hl. apply (proj1 (visit_is_unstrung v)) in H2. congruence.
    + apply P_sub; [exact IHv | apply P_keep | reflexivity].
  - intros. apply P_keep.
  - intros v a IH. cbn [after]. destruct (visit v) as [v'|] eqn:Ev.
    + apply P_attr. apply P_full. apply (proj1 (visit_is_unstrung v)). exact Ev.
    + apply P_attr. exact IH.
  - intros t ks HF. rewrite after_node. apply P_node.
    induction ks as [|k r IH]; [constructor|].
    inversion HF as [|? ? Hk Hr]; subst. cbn [after_node_go].
    destruct (visit k) as [k'|] eqn:Ek.
    + constructor; [apply P_full; apply (proj1 (visit_is_unstrung k)); exact Ek | apply IH; exact Hr].
    + constructor; [exact Hk | apply Forall2_partly_refl].
  - intros l HF. rewrite after_elist. destruct (visit (EList l)) as [l'|] eqn:El.
    + apply P_full. apply (proj1 (visit_is_unstrung (EList l))). exact El.
    + apply P_list. clear El.
      induction l as [|k r IH]; [constructor|].
      inversion HF as [|? ? Hk Hr]; subst. cbn [after_list_go].
      destruct (visit k) as [k'|] eqn:Ek.
      * constructor; [exact Hk | apply IH; exact Hr].
      * constructor; [exact Hk | apply Forall2_partly_refl].
Qed.

(* ---- overload detection: @overload counts wherever it stands among the decorators ---- *)
Lemma is_overload_fold ds : forall acc,
  fold_left (fun (acc d : bool) => if d then true else acc) ds acc = acc || existsb (fun d => d) ds.
Proof.
  induction ds as [|d ds IH]; intros acc; cbn [fold_left existsb].
  - rewrite orb_false_r. reflexivity.
  - rewrite IH. destruct d, acc; reflexivity.
Qed.

Theorem is_overload_func_any ds : is_overload_func ds = true <-> In true ds.
Proof.
  unfold is_overload_func. rewrite is_overload_fold. cbn [orb]. rewrite existsb_exists. split.
  - intros [x [Hx E]]. subst. exact Hx.
  - intros H. exists true. auto.
Qed.
