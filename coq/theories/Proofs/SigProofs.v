(* Proofs/SigProofs.v -- lemmas behind Props/C14.v *)
From Coq Require Import ZArith NArith List Bool Lia.
From PydoctorVerif Require Import Base.Sexp Spec.SigStr Model.Sig.
Import ListNotations.
Local Open Scope Z_scope.

(* ================================================================================================ *)
(* 0. text equality                                                                                  *)
(* ================================================================================================ *)
Lemma text_eqb_eq a b : text_eqb a b = true <-> a = b.
Proof.
  revert b. induction a as [|x a IH]; intros [|y b]; cbn; split; intro H; try discriminate; auto.
  - apply andb_true_iff in H as [H1 H2]. apply N.eqb_eq in H1. apply IH in H2. congruence.
  - injection H as -> ->. rewrite N.eqb_refl. cbn. apply IH. reflexivity.
Qed.

Lemma text_eqb_refl a : text_eqb a a = true.
Proof. apply text_eqb_eq. reflexivity. Qed.

Lemma text_eqb_neq a b : text_eqb a b = false <-> a <> b.
Proof.
  split.
  - intros H E. apply text_eqb_eq in E. congruence.
  - intros H. destruct (text_eqb a b) eqn:E; auto. apply text_eqb_eq in E. contradiction.
Qed.

Lemma mem_text_In x l : mem_text x l = true <-> In x l.
Proof.
  unfold mem_text. rewrite existsb_exists. split.
  - intros [y [Hy E]]. apply text_eqb_eq in E. subst. exact Hy.
  - intros H. exists x. split; auto. apply text_eqb_refl.
Qed.

Lemma mem_text_false x l : mem_text x l = false <-> ~ In x l.
Proof.
  split.
  - intros H I. apply mem_text_In in I. congruence.
  - intros H. destruct (mem_text x l) eqn:E; auto. apply mem_text_In in E. contradiction.
Qed.

(* ================================================================================================ *)
(* A. get_default / the right-aligned defaults                                                        *)
(* ================================================================================================ *)
(* what "right-aligned" means, stated without indices: n parameters, the last |d| of them have the defaults d *)
Definition aligned_defaults (n : nat) (d : list expr) : list (option expr) :=
  repeat None (n - length d) ++ map Some d.

Lemma aligned_length n d : (length d <= n)%nat -> length (aligned_defaults n d) = n.
Proof. intros H. unfold aligned_defaults. rewrite app_length, repeat_length, map_length. lia. Qed.

(* get_default's assert and its indexing never fail for an index that enumerate() can produce -- whatever
   the lengths are *)
Lemma get_default_total (n : nat) (d : list expr) (i : nat) :
  (i < n)%nat ->
  exists o, get_default (Z.of_nat n) (Z.of_nat n - zlen d) d (Z.of_nat i) = Ok o.
Proof.
  intros Hi. unfold get_default, zlen.
  replace ((0 <=? Z.of_nat i) && (Z.of_nat i <? Z.of_nat n)) with true
    by (symmetry; apply andb_true_iff; split; [apply Z.leb_le | apply Z.ltb_lt]; lia).
  destruct (Z.of_nat i - (Z.of_nat n - Z.of_nat (length d)) <? 0) eqn:E.
  - eexists; reflexivity.
  - apply Z.ltb_ge in E.
    destruct (nth_error d (Z.to_nat (Z.of_nat i - (Z.of_nat n - Z.of_nat (length d))))) eqn:E2.
    + eexists; reflexivity.
    + apply nth_error_None in E2. lia.
Qed.

(* ... and under the parser's invariant it returns the right-aligned default *)
Lemma get_default_aligned (n : nat) (d : list expr) (i : nat) :
  (length d <= n)%nat -> (i < n)%nat ->
  get_default (Z.of_nat n) (Z.of_nat n - zlen d) d (Z.of_nat i) = Ok (nth i (aligned_defaults n d) None).
Proof.
  intros Hd Hi. unfold get_default, zlen, aligned_defaults.
  replace ((0 <=? Z.of_nat i) && (Z.of_nat i <? Z.of_nat n)) with true
    by (symmetry; apply andb_true_iff; split; [apply Z.leb_le | apply Z.ltb_lt]; lia).
  destruct (Z.of_nat i - (Z.of_nat n - Z.of_nat (length d)) <? 0) eqn:E.
  - apply Z.ltb_lt in E. rewrite app_nth1 by (rewrite repeat_length; lia).
    rewrite nth_repeat. reflexivity.
  - apply Z.ltb_ge in E.
    rewrite app_nth2 by (rewrite repeat_length; lia). rewrite repeat_length.
    replace (Z.to_nat (Z.of_nat i - (Z.of_nat n - Z.of_nat (length d)))) with (i - (n - length d))%nat by lia.
    destruct (nth_error d (i - (n - length d))) eqn:E2.
    + erewrite nth_error_nth; [reflexivity|]. rewrite nth_error_map, E2. reflexivity.
    + apply nth_error_None in E2. lia.
Qed.

Lemma skipn_S_tl {A} (n : nat) (l : list A) : skipn (S n) l = tl (skipn n l).
Proof. revert l. induction n as [|n IH]; intros [|x l]; cbn [skipn tl]; auto. rewrite <- IH. reflexivity. Qed.

(* the loop over one of the two positional lists *)
Lemma loop_positional_aligned ann (n : nat) d k (l : list ast_arg) :
  forall start : nat,
    (length d <= n)%nat -> (start + length l <= n)%nat ->
    loop_positional ann (get_default (Z.of_nat n) (Z.of_nat n - zlen d) d) k (Z.of_nat start) l =
    Ok (map (fun ad => add_arg ann (a_name (fst ad)) k (snd ad))
            (combine l (firstn (length l) (skipn start (aligned_defaults n d))))).
Proof.
  induction l as [|a r IH]; intros start Hd Hs; cbn [loop_positional length firstn combine map].
  - reflexivity.
  - cbn [length] in Hs.
    rewrite get_default_aligned by lia.
    replace (Z.of_nat start + 1)%Z with (Z.of_nat (S start)) by lia.
    rewrite IH by lia.
    assert (Hlen : (start < length (aligned_defaults n d))%nat) by (rewrite aligned_length; lia).
    destruct (skipn start (aligned_defaults n d)) as [|x xs] eqn:Esk.
    + exfalso. apply (f_equal (@length _)) in Esk. rewrite skipn_length in Esk. cbn in Esk. lia.
    + assert (Hx : nth start (aligned_defaults n d) None = x).
      { rewrite <- (firstn_skipn start (aligned_defaults n d)) at 1.
        rewrite app_nth2 by (rewrite firstn_length; lia).
        rewrite firstn_length, Nat.min_l by lia. rewrite Nat.sub_diag, Esk. reflexivity. }
      assert (Hxs : skipn (S start) (aligned_defaults n d) = xs).
      { rewrite skipn_S_tl, Esk. reflexivity. }
      rewrite Hx, Hxs. reflexivity.
Qed.

Lemma loop_positional_total ann (n : nat) d k (l : list ast_arg) :
  forall start : nat,
    (start + length l <= n)%nat ->
    exists ps, loop_positional ann (get_default (Z.of_nat n) (Z.of_nat n - zlen d) d) k (Z.of_nat start) l = Ok ps.
Proof.
  induction l as [|a r IH]; intros start Hs; cbn [loop_positional].
  - eexists; reflexivity.
  - cbn [length] in Hs.
    destruct (get_default_total n d start) as [o Ho]; [lia|]. rewrite Ho.
    replace (Z.of_nat start + 1)%Z with (Z.of_nat (S start)) by lia.
    destruct (IH (S start)) as [ps Hps]; [lia|]. rewrite Hps. eexists; reflexivity.
Qed.

Lemma loop_kwonly_spec ann l ds :
  length l = length ds ->
  loop_kwonly ann l ds = map (fun ad => add_arg ann (a_name (fst ad)) KEYWORD_ONLY (snd ad)) (combine l ds).
Proof.
  revert ds. induction l as [|a r IH]; intros [|d ds] H; cbn in *; try discriminate; auto.
  f_equal. apply IH. lia.
Qed.

Definition wf_args (a : ast_args) : Prop :=
  (length (defaults a) <= length (posonlyargs a) + length (args a))%nat /\
  length (kw_defaults a) = length (kwonlyargs a).

Definition var_param ann (k : kind) (v : option ast_arg) : list param :=
  match v with Some v => [add_arg ann (a_name v) k None] | None => [] end.

(* the five segments of build_params, with the defaults the parser's record means *)
Definition expected_params ann (a : ast_args) : list param :=
  let n := (length (posonlyargs a) + length (args a))%nat in
  let al := aligned_defaults n (defaults a) in
  map (fun ad => add_arg ann (a_name (fst ad)) POSITIONAL_ONLY (snd ad))
      (combine (posonlyargs a) (firstn (length (posonlyargs a)) al))
  ++ map (fun ad => add_arg ann (a_name (fst ad)) POSITIONAL_OR_KEYWORD (snd ad))
         (combine (args a) (skipn (length (posonlyargs a)) al))
  ++ var_param ann VAR_POSITIONAL (vararg a)
  ++ map (fun ad => add_arg ann (a_name (fst ad)) KEYWORD_ONLY (snd ad)) (combine (kwonlyargs a) (kw_defaults a))
  ++ var_param ann VAR_KEYWORD (kwarg a).

Lemma build_params_expected ann a :
  wf_args a -> build_params ann a = Ok (expected_params ann a).
Proof.
  intros [Hd Hk]. unfold build_params, expected_params.
  set (n := (length (posonlyargs a) + length (args a))%nat).
  replace (zlen (posonlyargs a) + zlen (args a))%Z with (Z.of_nat n) by (unfold zlen, n; lia).
  pose proof (loop_positional_aligned ann n (defaults a) POSITIONAL_ONLY (posonlyargs a) 0 Hd) as H1.
  cbn [Z.of_nat] in H1. rewrite H1 by (unfold n; lia). clear H1.
  change (zlen (posonlyargs a)) with (Z.of_nat (length (posonlyargs a))).
  rewrite (loop_positional_aligned ann n (defaults a) POSITIONAL_OR_KEYWORD (args a) (length (posonlyargs a)) Hd)
    by (unfold n; lia).
  rewrite Hk, Nat.eqb_refl. cbn [negb].
  rewrite loop_kwonly_spec by auto.
  cbn [skipn].
  assert (Hal : length (aligned_defaults n (defaults a)) = n) by (apply aligned_length; exact Hd).
  rewrite (firstn_all2 (n := length (args a))) by (rewrite skipn_length; lia).
  unfold var_param. reflexivity.
Qed.

(* the assert in get_default and the subscript can never fail, for ANY ast.arguments record *)
Lemma build_params_no_assert ann a :
  build_params ann a = Raise KwAssertionError \/ exists ps, build_params ann a = Ok ps.
Proof.
  unfold build_params.
  set (n := (length (posonlyargs a) + length (args a))%nat).
  replace (zlen (posonlyargs a) + zlen (args a))%Z with (Z.of_nat n) by (unfold zlen, n; lia).
  destruct (loop_positional_total ann n (defaults a) POSITIONAL_ONLY (posonlyargs a) 0) as [p1 H1];
    [unfold n; lia|].
  cbn [Z.of_nat] in H1. rewrite H1.
  change (zlen (posonlyargs a)) with (Z.of_nat (length (posonlyargs a))).
  destruct (loop_positional_total ann n (defaults a) POSITIONAL_OR_KEYWORD (args a) (length (posonlyargs a)))
    as [p2 H2]; [unfold n; lia|].
  rewrite H2.
  destruct (negb (length (kwonlyargs a) =? length (kw_defaults a))%nat).
  - left; reflexivity.
  - right. eexists; reflexivity.
Qed.

(* projections of the expected parameters *)
Lemma combine_map_fst {A B} (l : list A) (l' : list B) :
  length l = length l' -> map fst (combine l l') = l.
Proof. revert l'. induction l; intros [|]; cbn; intros; try discriminate; auto. f_equal. apply IHl. lia. Qed.
Lemma combine_map_snd {A B} (l : list A) (l' : list B) :
  length l = length l' -> map snd (combine l l') = l'.
Proof. revert l'. induction l; intros [|]; cbn; intros; try discriminate; auto. f_equal. apply IHl. lia. Qed.

Definition opt_name (v : option ast_arg) : list text := match v with Some v => [a_name v] | None => [] end.
Definition opt_none (v : option ast_arg) : list (option expr) := match v with Some _ => [None] | None => [] end.
Definition opt_kind (k : kind) (v : option ast_arg) : list kind := match v with Some _ => [k] | None => [] end.

Lemma expected_params_defaults ann a :
  wf_args a ->
  map pdefault (expected_params ann a) =
  aligned_defaults (length (posonlyargs a) + length (args a)) (defaults a)
  ++ opt_none (vararg a) ++ kw_defaults a ++ opt_none (kwarg a).
Proof.
  intros [Hd Hk]. unfold expected_params.
  set (n := (length (posonlyargs a) + length (args a))%nat).
  assert (Hal : length (aligned_defaults n (defaults a)) = n) by (apply aligned_length; exact Hd).
  rewrite !map_app, !map_map. cbn [pdefault add_arg].
  rewrite <- (firstn_skipn (length (posonlyargs a)) (aligned_defaults n (defaults a))) at 3.
  rewrite <- !app_assoc. f_equal; [|f_equal; [|f_equal; [|f_equal]]].
  - change (fun x : ast_arg * option expr => snd x) with (@snd ast_arg (option expr)).
    apply combine_map_snd. rewrite firstn_length. lia.
  - change (fun x : ast_arg * option expr => snd x) with (@snd ast_arg (option expr)).
    apply combine_map_snd. rewrite skipn_length. lia.
  - destruct (vararg a); reflexivity.
  - change (fun x : ast_arg * option expr => snd x) with (@snd ast_arg (option expr)).
    apply combine_map_snd. lia.
  - destruct (kwarg a); reflexivity.
Qed.

Lemma expected_params_names ann a :
  wf_args a -> map pname (expected_params ann a) = map a_name (all_args a).
Proof.
  intros [Hd Hk]. unfold expected_params, all_args.
  set (n := (length (posonlyargs a) + length (args a))%nat).
  assert (Hal : length (aligned_defaults n (defaults a)) = n) by (apply aligned_length; exact Hd).
  rewrite !map_app, !map_map. cbn [pname add_arg].
  f_equal; [|f_equal; [|f_equal; [|f_equal]]].
  - rewrite <- (map_map fst a_name). f_equal. apply combine_map_fst. rewrite firstn_length. lia.
  - rewrite <- (map_map fst a_name). f_equal. apply combine_map_fst. rewrite skipn_length. lia.
  - destruct (vararg a); reflexivity.
  - rewrite <- (map_map fst a_name). f_equal. apply combine_map_fst. lia.
  - destruct (kwarg a); reflexivity.
Qed.

Lemma expected_params_kinds ann a :
  wf_args a ->
  map pkind (expected_params ann a) =
  repeat POSITIONAL_ONLY (length (posonlyargs a)) ++ repeat POSITIONAL_OR_KEYWORD (length (args a))
  ++ opt_kind VAR_POSITIONAL (vararg a) ++ repeat KEYWORD_ONLY (length (kwonlyargs a))
  ++ opt_kind VAR_KEYWORD (kwarg a).
Proof.
  intros [Hd Hk]. unfold expected_params.
  set (n := (length (posonlyargs a) + length (args a))%nat).
  assert (Hal : length (aligned_defaults n (defaults a)) = n) by (apply aligned_length; exact Hd).
  assert (Hconst : forall (k : kind) (l : list (ast_arg * option expr)),
             map (fun x => pkind (add_arg ann (a_name (fst x)) k (snd x))) l = repeat k (length l)).
  { intros k l. induction l; cbn; auto. f_equal. exact IHl. }
  rewrite !map_app, !map_map, !Hconst, !combine_length.
  rewrite firstn_length, skipn_length, Hal, Hk.
  replace (Nat.min (length (posonlyargs a)) (Nat.min (length (posonlyargs a)) n)) with (length (posonlyargs a))
    by (unfold n; lia).
  replace (Nat.min (length (args a)) (n - length (posonlyargs a))) with (length (args a)) by (unfold n; lia).
  rewrite Nat.min_id.
  destruct (vararg a), (kwarg a); reflexivity.
Qed.

(* ================================================================================================ *)
(* B. Signature(...) validation: only duplicate names can be rejected                                 *)
(* ================================================================================================ *)
Local Open Scope N_scope.

Lemma kind_rank_inj a b : kind_rank a = kind_rank b -> a = b.
Proof. destruct a, b; cbn; intro H; try reflexivity; discriminate. Qed.

Fixpoint sorted_from (top : kind) (ks : list kind) : Prop :=
  match ks with
  | [] => True
  | k :: r => kind_rank top <= kind_rank k /\ sorted_from k r
  end.

(* among the positional parameters, no parameter without default after one with a default *)
Fixpoint dflt_ok (sd : bool) (ks : list kind) (ds : list (option expr)) : Prop :=
  match ks, ds with
  | k :: ks', d :: ds' =>
    if is_positional k then
      match d with
      | None => sd = false /\ dflt_ok false ks' ds'
      | Some _ => dflt_ok true ks' ds'
      end
    else dflt_ok sd ks' ds'
  | _, _ => True
  end.

Fixpoint dup_free (seen : list text) (names : list text) : bool :=
  match names with
  | [] => true
  | n :: r => negb (mem_text n seen) && dup_free (n :: seen) r
  end.

Lemma dup_free_spec names : forall seen,
  dup_free seen names = true <-> (NoDup names /\ forall x, In x names -> ~ In x seen).
Proof.
  induction names as [|n r IH]; intros seen; cbn [dup_free].
  - split; [intros _; split; [constructor | intros x []] | reflexivity].
  - rewrite andb_true_iff, negb_true_iff, mem_text_false, IH. split.
    + intros [Hn [Hnd Hdis]]. split.
      * constructor; auto. intros Hin. apply (Hdis n Hin). left; reflexivity.
      * intros x [<- | Hx]; auto. intros Hs. apply (Hdis x Hx). right; exact Hs.
    + intros [Hnd Hdis]. inversion Hnd as [|? ? Hnotin Hnd']; subst. split; [|split].
      * apply Hdis. left; reflexivity.
      * exact Hnd'.
      * intros x Hx [<- | Hs]; [contradiction|]. apply (Hdis x); [right; exact Hx | exact Hs].
Qed.

Lemma sig_validate_sorted ps : forall top sd seen,
  sorted_from top (map pkind ps) -> dflt_ok sd (map pkind ps) (map pdefault ps) ->
  sig_validate top sd seen ps = if dup_free seen (map pname ps) then None else Some DuplicateName.
Proof.
  induction ps as [|p r IH]; intros top sd seen Hs Hd; cbn [sig_validate map dup_free].
  - reflexivity.
  - cbn [map sorted_from] in Hs. destruct Hs as [Hle Hs].
    cbn [map dflt_ok] in Hd.
    replace (kind_rank (pkind p) <? kind_rank top) with false by (symmetry; apply N.ltb_ge; exact Hle).
    assert (Htop : (if kind_rank top <? kind_rank (pkind p) then pkind p else top) = pkind p).
    { destruct (kind_rank top <? kind_rank (pkind p)) eqn:E; auto.
      apply N.ltb_ge in E. apply kind_rank_inj. lia. }
    rewrite Htop.
    destruct (is_positional (pkind p)).
    + destruct (pdefault p).
      * destruct (mem_text (pname p) seen); cbn [negb andb]; auto.
      * destruct Hd as [-> Hd]. destruct (mem_text (pname p) seen); cbn [negb andb]; auto.
    + destruct (mem_text (pname p) seen); cbn [negb andb]; auto.
Qed.

Lemma sorted_weaken top top' ks :
  kind_rank top' <= kind_rank top -> sorted_from top ks -> sorted_from top' ks.
Proof. destruct ks as [|k r]; cbn; auto. intros H [H1 H2]. split; auto. lia. Qed.

Lemma sorted_repeat k n ks : sorted_from k ks -> sorted_from k (repeat k n ++ ks).
Proof. induction n as [|n IH]; cbn; auto. intros H. split; [lia | auto]. Qed.

Lemma sorted_shape a b (v w : option ast_arg) c :
  sorted_from POSITIONAL_ONLY
              (repeat POSITIONAL_ONLY a ++ repeat POSITIONAL_OR_KEYWORD b ++ opt_kind VAR_POSITIONAL v
               ++ repeat KEYWORD_ONLY c ++ opt_kind VAR_KEYWORD w).
Proof.
  apply sorted_repeat. apply sorted_weaken with POSITIONAL_OR_KEYWORD; [cbn; lia|].
  apply sorted_repeat.
  assert (H4 : sorted_from KEYWORD_ONLY (repeat KEYWORD_ONLY c ++ opt_kind VAR_KEYWORD w)).
  { apply sorted_repeat. destruct w; cbn; auto. split; [lia|auto]. }
  destruct v; cbn [opt_kind app].
  - cbn [sorted_from]. split; [cbn; lia|]. apply sorted_weaken with KEYWORD_ONLY; [cbn; lia | exact H4].
  - apply sorted_weaken with KEYWORD_ONLY; [cbn; lia | exact H4].
Qed.

Lemma dflt_ok_nonpos ks : forall sd ds,
  Forall (fun k => is_positional k = false) ks -> dflt_ok sd ks ds.
Proof.
  induction ks as [|k r IH]; intros sd [|d ds] H; cbn; auto.
  inversion H as [|? ? Hk Hr]; subst. rewrite Hk. apply IH. exact Hr.
Qed.

Lemma dflt_ok_somes ks : forall sd (d : list expr) rk rd,
  Forall (fun k => is_positional k = true) ks -> length ks = length d ->
  Forall (fun k => is_positional k = false) rk ->
  dflt_ok sd (ks ++ rk) (map Some d ++ rd).
Proof.
  induction ks as [|k r IH]; intros sd [|x d] rk rd Hp Hl Hn; cbn in Hl; try discriminate.
  - cbn. apply dflt_ok_nonpos. exact Hn.
  - inversion Hp as [|? ? Hk Hr]; subst. cbn. rewrite Hk. apply IH; auto.
Qed.

Lemma dflt_ok_aligned x : forall ks (d : list expr) rk rd,
  Forall (fun k => is_positional k = true) ks -> length ks = (x + length d)%nat ->
  Forall (fun k => is_positional k = false) rk ->
  dflt_ok false (ks ++ rk) ((repeat None x ++ map Some d) ++ rd).
Proof.
  induction x as [|x IH]; intros ks d rk rd Hp Hl Hn.
  - cbn [repeat app]. apply dflt_ok_somes; auto.
  - destruct ks as [|k r]; cbn in Hl; [discriminate|].
    inversion Hp as [|? ? Hk Hr]; subst. cbn. rewrite Hk. split; auto. apply IH; auto.
Qed.

Lemma expected_params_valid ann a :
  wf_args a ->
  sig_validate POSITIONAL_ONLY false [] (expected_params ann a) =
  if dup_free [] (map a_name (all_args a)) then None else Some DuplicateName.
Proof.
  intros Hwf. rewrite sig_validate_sorted.
  - rewrite expected_params_names by exact Hwf. reflexivity.
  - rewrite expected_params_kinds by exact Hwf. apply sorted_shape.
  - rewrite expected_params_kinds, expected_params_defaults by exact Hwf.
    destruct Hwf as [Hd Hk].
    rewrite (app_assoc (repeat POSITIONAL_ONLY _)).
    unfold aligned_defaults.
    apply dflt_ok_aligned.
    + apply Forall_app; split; apply Forall_forall; intros k Hk'; apply repeat_spec in Hk'; subst; reflexivity.
    + rewrite app_length, !repeat_length. lia.
    + apply Forall_app; split; [destruct (vararg a); cbn; auto|].
      apply Forall_app; split; [|destruct (kwarg a); cbn; auto].
      apply Forall_forall; intros k Hk'; apply repeat_spec in Hk'; subst; reflexivity.
Qed.

Lemma dup_free_nil names : dup_free [] names = true <-> NoDup names.
Proof. rewrite dup_free_spec. split; [intros [H _]; exact H | intros H; split; [exact H | intros x _ []]]. Qed.
