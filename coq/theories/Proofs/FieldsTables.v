(* Proofs/FieldsTables.v -- the regenerated handler table (Gen/TablesC09.v) agrees with the documented
   meaning of the tags (Spec/Routing.v).  Everything here is re-checked by the kernel against the
   table printed from the live FieldHandler: binding a tag to another handler breaks these lemmas. *)
From Coq Require Import ZArith NArith List Bool Arith Lia String.
From PydoctorVerif Require Import Base.Sexp Model.FieldTypes Gen.TablesC09 Model.Fields Spec.Routing Proofs.FieldsCount.
Import ListNotations.

Definition spec_entry (h : handler) : option entry :=
  match h with
  | HReturn | HReturnType => Some EnReturns
  | HYield | HYieldType => Some EnYields
  | HType | HParam | HKeyword => Some EnParameters
  | HElsewhere => None
  | HRaises => Some EnRaises
  | HWarns => Some EnWarns
  | HSeeAlso => Some EnSeeAlso
  | HNote => Some EnNote
  | HAuthor => Some EnAuthor
  | HSince => Some EnSince
  end.

Definition spec_slot (h : handler) : option slot :=
  match h with
  | HReturn => Some SlReturn | HReturnType => Some SlRtype | HYield => Some SlYield | HYieldType => Some SlYtype
  | _ => None
  end.

Definition entry_eqb (a b : entry) : bool :=
  match a, b with
  | EnParameters, EnParameters | EnReturns, EnReturns | EnYields, EnYields | EnRaises, EnRaises
  | EnWarns, EnWarns | EnSeeAlso, EnSeeAlso | EnNote, EnNote | EnAuthor, EnAuthor | EnSince, EnSince => true
  | EnUnknown x, EnUnknown y => text_eqb x y
  | _, _ => false
  end.

Lemma entry_eqb_eq : forall a b, entry_eqb a b = true -> a = b.
Proof.
  intros [] []; cbn; intro H; try reflexivity; try discriminate.
  apply text_eqb_eq in H. subst. reflexivity.
Qed.

Definition opt_eqb' {X} (eqb : X -> X -> bool) (a b : option X) : bool :=
  match a, b with None, None => true | Some x, Some y => eqb x y | _, _ => false end.

(* the four tag classes the guard of the theorem speaks about *)
Definition tag_is (names : list string) (tag : text) : bool := existsb (fun k => text_eqb (T k) tag) names.

Definition row_ok (e : text * handler) : bool :=
  let '(tag, h) := e in
  opt_eqb' entry_eqb (entry_of_tag tag) (spec_entry h) &&
  opt_eqb' slot_eqb (assoc_tag tag slot_tags) (spec_slot h) &&
  Bool.eqb (tag_is ["type"%string] tag) (handler_eqb h HType) &&
  Bool.eqb (tag_is param_tags tag) (handler_eqb h HParam || handler_eqb h HKeyword) &&
  Bool.eqb (is_var_tag tag) (handler_eqb h HElsewhere).

Lemma handler_table_ok : forallb row_ok handler_table = true.
Proof. vm_compute. reflexivity. Qed.

Lemma lookup_handler_In : forall tag tbl h, lookup_handler tag tbl = Some h -> In (tag, h) tbl.
Proof.
  intros tag tbl h. induction tbl as [|[k h'] tbl IH]; cbn; [discriminate|].
  destruct (text_eqb k tag) eqn:E.
  - intro H. inversion H; subst. apply text_eqb_eq in E. subst. left. reflexivity.
  - intro H. right. apply IH. exact H.
Qed.

Lemma lookup_row_ok : forall tag h, lookup_handler tag handler_table = Some h -> row_ok (tag, h) = true.
Proof.
  intros tag h H. apply lookup_handler_In in H.
  pose proof handler_table_ok as T0. rewrite forallb_forall in T0. apply T0. exact H.
Qed.

Lemma slot_eqb_eq : forall a b, slot_eqb a b = true -> a = b.
Proof. intros [] []; cbn; intro H; try reflexivity; discriminate. Qed.

Lemma opt_eqb'_eq : forall {X} (eqb : X -> X -> bool) (Heq : forall a b, eqb a b = true -> a = b) a b,
  opt_eqb' eqb a b = true -> a = b.
Proof. intros X eqb Heq [x|] [y|]; cbn; intro H; try discriminate; [f_equal; apply Heq; exact H | reflexivity]. Qed.

Lemma known_handler_facts : forall tag h, lookup_handler tag handler_table = Some h ->
  entry_of_tag tag = spec_entry h /\ assoc_tag tag slot_tags = spec_slot h /\
  tag_is ["type"%string] tag = handler_eqb h HType /\
  tag_is param_tags tag = (handler_eqb h HParam || handler_eqb h HKeyword) /\
  is_var_tag tag = handler_eqb h HElsewhere.
Proof.
  intros tag h H. apply lookup_row_ok in H. unfold row_ok in H.
  repeat (apply andb_true_iff in H; destruct H as [H ?]).
  repeat split.
  - apply (opt_eqb'_eq entry_eqb entry_eqb_eq). assumption.
  - apply (opt_eqb'_eq slot_eqb slot_eqb_eq). assumption.
  - apply eqb_prop. assumption.
  - apply eqb_prop. assumption.
  - apply eqb_prop. assumption.
Qed.

(* every tag the specification names has a handler: a tag without handler is none of them *)
Definition spec_keys : list string :=
  map fst known_tags ++ var_tags ++ map fst slot_tags ++ ["type"%string] ++ param_tags.

Lemma spec_keys_have_handlers :
  forallb (fun k => match lookup_handler (T k) handler_table with Some _ => true | None => false end) spec_keys = true.
Proof. vm_compute. reflexivity. Qed.

Lemma unknown_tag_key : forall tag k, lookup_handler tag handler_table = None -> In k spec_keys ->
  text_eqb (T k) tag = false.
Proof.
  intros tag k H Hk. destruct (text_eqb (T k) tag) eqn:E; [|reflexivity].
  apply text_eqb_eq in E. subst tag.
  pose proof spec_keys_have_handlers as S0. rewrite forallb_forall in S0. specialize (S0 k Hk).
  rewrite H in S0. discriminate.
Qed.

Lemma assoc_tag_none : forall {X} tag (l : list (string * X)),
  (forall k, In k (map fst l) -> text_eqb (T k) tag = false) -> assoc_tag tag l = None.
Proof.
  intros X tag l. induction l as [|[k v] l IH]; intro H; cbn; [reflexivity|].
  rewrite (H k) by (left; reflexivity). apply IH. intros k' Hk'. apply H. right. exact Hk'.
Qed.

Lemma tag_is_false : forall tag names, (forall k, In k names -> text_eqb (T k) tag = false) -> tag_is names tag = false.
Proof.
  intros tag names. induction names as [|k names IH]; intro H; cbn; [reflexivity|].
  rewrite (H k) by (left; reflexivity). cbn. apply IH. intros k' Hk'. apply H. right. exact Hk'.
Qed.

Lemma unknown_handler_facts : forall tag, lookup_handler tag handler_table = None ->
  entry_of_tag tag = Some (EnUnknown tag) /\ assoc_tag tag slot_tags = None /\
  tag_is ["type"%string] tag = false /\ tag_is param_tags tag = false /\ is_var_tag tag = false.
Proof.
  intros tag H.
  assert (K : forall k, In k spec_keys -> text_eqb (T k) tag = false) by (intros; apply unknown_tag_key; assumption).
  assert (V : is_var_tag tag = false).
  { apply (tag_is_false tag var_tags). intros k Hk. apply K. unfold spec_keys. rewrite !in_app_iff. auto. }
  repeat split.
  - unfold entry_of_tag. rewrite assoc_tag_none.
    + rewrite V. reflexivity.
    + intros k Hk. apply K. unfold spec_keys. rewrite !in_app_iff. auto.
  - apply assoc_tag_none. intros k Hk. apply K. unfold spec_keys. rewrite !in_app_iff. auto.
  - apply tag_is_false. intros k Hk. apply K. unfold spec_keys. rewrite !in_app_iff. auto.
  - apply tag_is_false. intros k Hk. apply K. unfold spec_keys. rewrite !in_app_iff. auto 6.
  - exact V.
Qed.

(* labels: which of the documented labels belongs to which entry *)
Lemma label_checks :
  forall tag,
    text_eqb (T "Parameters") (T "Unknown Field: " ++ tag) = false /\
    text_eqb (T "Returns") (T "Unknown Field: " ++ tag) = false /\
    text_eqb (T "Yields") (T "Unknown Field: " ++ tag) = false /\
    text_eqb (T "Raises") (T "Unknown Field: " ++ tag) = false /\
    text_eqb (T "Warns") (T "Unknown Field: " ++ tag) = false /\
    text_eqb (T "Author") (T "Unknown Field: " ++ tag) = false /\
    text_eqb (T "Authors") (T "Unknown Field: " ++ tag) = false /\
    text_eqb (T "See Also") (T "Unknown Field: " ++ tag) = false /\
    text_eqb (T "Present Since") (T "Unknown Field: " ++ tag) = false /\
    text_eqb (T "Note") (T "Unknown Field: " ++ tag) = false /\
    text_eqb (T "Notes") (T "Unknown Field: " ++ tag) = false.
Proof. intros tag. vm_compute. repeat split; reflexivity. Qed.

(* @keyword is the tag (the only one) bound to handle_keyword; @param / @arg are bound to handle_param *)
Lemma keyword_rows : forallb (fun e : text * handler => Bool.eqb (tag_is ["keyword"%string] (fst e)) (handler_eqb (snd e) HKeyword))
                             handler_table = true.
Proof. vm_compute. reflexivity. Qed.

Lemma keyword_handler_fact : forall tag h, lookup_handler tag handler_table = Some h ->
  tag_is ["keyword"%string] tag = handler_eqb h HKeyword.
Proof.
  intros tag h H. apply lookup_handler_In in H. pose proof keyword_rows as K. rewrite forallb_forall in K.
  specialize (K _ H). cbn [fst snd] in K. apply eqb_prop. exact K.
Qed.
