(* Proofs/EpyProofs.v -- the epytext tokenizer model (Model/EpyLines.v) meets Spec/EpyBlocks.v. *)
From Coq Require Import List Bool Arith Lia.
From PydoctorVerif Require Import Base.Sexp Model.EpyLines Spec.EpyBlocks.
Import ListNotations.

Lemma para_scan_le : forall rest pi dc, fst (para_scan pi dc rest) <= length rest.
Proof.
  induction rest as [|l r IH]; intros pi dc; cbn [para_scan]; [cbn; lia|].
  destruct dc; [cbn; lia|]. destruct (blank l); [cbn; lia|].
  destruct (negb (l_indent l =? pi)); [cbn; lia|]. destruct (l_bullet l); [cbn; lia|].
  specialize (IH pi (l_dcolon l)). destruct (para_scan pi (l_dcolon l) r) as [n es]. cbn [fst length] in *. lia.
Qed.

Lemma listart_scan_le : forall rest bi pi dc, fst (listart_scan bi pi dc rest) <= length rest.
Proof.
  induction rest as [|l r IH]; intros bi pi dc; cbn [listart_scan]; [cbn; lia|].
  destruct dc; [cbn; lia|]. destruct (blank l); [cbn; lia|].
  destruct (l_indent l <? bi); [cbn; lia|]. destruct (l_bullet l); [cbn; lia|].
  set (p := match pi with None => l_indent l | Some p => p end).
  destruct (negb (l_indent l =? p)); [cbn; lia|].
  specialize (IH bi (Some p) (l_dcolon l)). destruct (listart_scan bi (Some p) (l_dcolon l) r) as [n pi'].
  cbn [fst length] in *. lia.
Qed.

Lemma doctest_scan_le : forall rest bi, fst (doctest_scan bi rest) <= length rest.
Proof.
  induction rest as [|l r IH]; intros bi; cbn [doctest_scan]; [cbn; lia|].
  destruct (blank l); [cbn; lia|]. specialize (IH bi). destruct (doctest_scan bi r) as [n es].
  cbn [fst length] in *. lia.
Qed.

Lemma literal_len_pos : forall bi rest, 1 <= literal_len bi rest.
Proof. intros bi [|l r]; cbn; lia. Qed.

Definition mk (a b : nat) (t : list tag) : block := {| b_start := a; b_stop := b; b_tags := t |}.

(* the shape of what one iteration of the loop produces *)
Lemma step_shape : forall pos l r bs es used,
  step pos l r = (bs, es, used) ->
  (blank l = true /\ bs = [] /\ used = 1) \/
  (blank l = false /\
   exists u1 tags, 1 <= u1 <= S (length r) /\ tags <> [] /\ tags <> [LBLOCK] /\
     ((bs = [mk pos (pos + u1) tags] /\ used = u1) \/
      (exists m, 1 <= m /\ bs = [mk pos (pos + u1) tags; mk (pos + u1) (pos + u1 + m) [LBLOCK]] /\ used = u1 + m))).
Proof.
  intros pos l r bs es used H. unfold step in H. destruct (blank l) eqn:Hb.
  - left. injection H as <- <- <-. auto.
  - right. split; [reflexivity|]. destruct (l_doctest l).
    + pose proof (doctest_scan_le r (l_indent l)) as Hle. destruct (doctest_scan (l_indent l) r) as [n e0].
      cbn [fst] in Hle. injection H as <- <- <-. exists (S n), [DTBLOCK]. repeat split; try lia; try discriminate.
      left. split; reflexivity.
    + destruct (l_bullet l).
      * pose proof (listart_scan_le r (l_indent l) None (l_dcolon l)) as Hle.
        destruct (listart_scan (l_indent l) None (l_dcolon l) r) as [n pi]. cbn [fst] in Hle.
        set (has_para := (l_rest l || negb (n =? 0))%bool) in *.
        set (tags := BULLET :: (if has_para then [PARA] else [])) in *.
        assert (Ht1 : tags <> []) by (unfold tags; discriminate).
        assert (Ht2 : tags <> [LBLOCK]) by (unfold tags; discriminate).
        destruct (has_para && (if n =? 0 then l_rest_dcolon l else last_dcolon l (firstn n r)))%bool.
        -- injection H as <- <- <-. exists (S n), tags. repeat split; try lia; try assumption.
           right. eexists. split; [apply literal_len_pos|]. split; reflexivity.
        -- injection H as <- <- <-. exists (S n), tags. repeat split; try lia; try assumption.
           left. split; reflexivity.
      * pose proof (para_scan_le r (l_indent l) false) as Hle.
        destruct (para_scan (l_indent l) false r) as [n e1]. cbn [fst] in Hle.
        destruct r as [|l1 r'].
        -- cbn [andb] in H. destruct (last_dcolon l (firstn n [])).
           ++ injection H as <- <- <-. exists (S n), [PARA]. repeat split; try lia; try discriminate.
              right. eexists. split; [apply literal_len_pos|]. split; reflexivity.
           ++ injection H as <- <- <-. exists (S n), [PARA]. repeat split; try lia; try discriminate.
              left. split; reflexivity.
        -- destruct ((negb (n =? 0) && l_underline l1 && (absdiff (l_striplen l) (l_striplen l1) <=? 5))
                       && (l_striplen l =? l_striplen l1))%bool.
           ++ injection H as <- <- <-. exists 2, [HEADING]. cbn [length]. repeat split; try lia; try discriminate.
              left. split; reflexivity.
           ++ destruct (last_dcolon l (firstn n (l1 :: r'))).
              ** injection H as <- <- <-. exists (S n), [PARA]. repeat split; try lia; try discriminate.
                 right. eexists. split; [apply literal_len_pos|]. split; reflexivity.
              ** injection H as <- <- <-. exists (S n), [PARA]. repeat split; try lia; try discriminate.
                 left. split; reflexivity.
Qed.

Lemma blocks_ok_skip_blank : forall lines pos pos' bs,
  pos <= pos' -> (forall j, pos <= j < pos' -> blank_at lines j) ->
  blocks_ok lines pos' bs -> blocks_ok lines pos bs.
Proof.
  intros lines pos pos' [|b r] Hle Hgap H; cbn [blocks_ok] in *.
  - intros j Hj. destruct (Nat.lt_ge_cases j pos'); [apply Hgap; lia|apply H; lia].
  - destruct H as [H1 [H2 H3]]. split; [lia|]. split; [|exact H3].
    intros j Hj. destruct (Nat.lt_ge_cases j pos'); [apply Hgap; lia|apply H2; lia].
Qed.

Lemma skipn_cons_nth : forall {X} (lines : list X) pos l r,
  skipn pos lines = l :: r -> nth_error lines pos = Some l /\ skipn (S pos) lines = r /\ pos + S (length r) = length lines.
Proof.
  intros X lines. induction lines as [|x lines IH]; intros pos l r H.
  - destruct pos; discriminate.
  - destruct pos as [|pos].
    + cbn in H. injection H as <- <-. cbn. auto.
    + cbn [skipn] in H. destruct (IH pos l r H) as [A [B C]]. cbn [nth_error length]. repeat split; try assumption. lia.
Qed.

Lemma skipn_skipn' : forall {X} b a (l : list X), skipn a (skipn b l) = skipn (b + a) l.
Proof.
  intros X b. induction b as [|b IH]; intros a l; [reflexivity|].
  destruct l as [|x l]; cbn [skipn Nat.add]; [destruct a; reflexivity|apply IH].
Qed.

Lemma tokenize_from_ok : forall fuel pos lines,
  length (skipn pos lines) <= fuel ->
  exists bs es, tokenize_from fuel pos (skipn pos lines) = Some (bs, es) /\ blocks_ok lines pos bs.
Proof.
  induction fuel as [|f IH]; intros pos lines Hf.
  - destruct (skipn pos lines) as [|l r] eqn:E; [|cbn in Hf; lia].
    exists [], []. split; [reflexivity|]. cbn. intros j Hj. unfold blank_at.
    assert (Hlen : length lines <= pos).
    { destruct (Nat.lt_ge_cases pos (length lines)) as [Hlt|]; [|assumption].
      assert (length (skipn pos lines) = length lines - pos) by apply skipn_length. rewrite E in H. cbn in H. lia. }
    rewrite (proj2 (nth_error_None lines j)); [exact I|lia].
  - destruct (skipn pos lines) as [|l r] eqn:E.
    + exists [], []. split; [reflexivity|]. cbn. intros j Hj. unfold blank_at.
      assert (Hlen : length lines <= pos).
      { destruct (Nat.lt_ge_cases pos (length lines)) as [Hlt|]; [|assumption].
        assert (length (skipn pos lines) = length lines - pos) by apply skipn_length. rewrite E in H. cbn in H. lia. }
      rewrite (proj2 (nth_error_None lines j)); [exact I|lia].
    + destruct (skipn_cons_nth lines pos l r E) as [Hnth [Hr Hlen]].
      cbn [tokenize_from]. destruct (step pos l r) as [[bs1 es1] used] eqn:Hs.
      assert (Hskip : skipn used (l :: r) = skipn (pos + used) lines).
      { rewrite <- E. apply skipn_skipn'. }
      rewrite Hskip.
      destruct (step_shape pos l r bs1 es1 used Hs) as [[Hb [-> ->]]|[Hb [u1 [tags [Hu [Ht1 [Ht2 Hsh]]]]]]].
      * destruct (IH (pos + 1) lines) as [bs' [es' [Ht Hok]]].
        { rewrite skipn_length. cbn [length] in Hf. lia. }
        rewrite Ht. exists bs', (es1 ++ es'). split; [reflexivity|].
        apply (blocks_ok_skip_blank lines pos (pos + 1) bs'); [lia| |exact Hok].
        intros j Hj. assert (j = pos) by lia. subst j. unfold blank_at. rewrite Hnth. exact Hb.
      * assert (Hused : u1 <= used) by (destruct Hsh as [[_ ->]|[m [Hm [_ ->]]]]; lia).
        destruct (IH (pos + used) lines) as [bs' [es' [Ht Hok]]].
        { rewrite skipn_length. cbn [length] in Hf. lia. }
        rewrite Ht. exists (bs1 ++ bs'), (es1 ++ es'). split; [reflexivity|].
        assert (Hfirst : is_lblock (mk pos (pos + u1) tags) = false).
        { unfold is_lblock, mk. cbn [b_tags]. destruct tags as [|t [|t' ts]]; try reflexivity.
          all: destruct t; try reflexivity. exfalso. apply Ht2. reflexivity. }
        destruct Hsh as [[-> ->]|[m [Hm [-> ->]]]]; cbn [app blocks_ok mk b_start b_stop b_tags].
        -- split; [lia|]. split; [intros j Hj; lia|]. split; [lia|]. split; [exact Ht1|]. split; [|exact Hok].
           intros _. split; [lia|]. exists l. split; assumption.
        -- split; [lia|]. split; [intros j Hj; lia|]. split; [lia|]. split; [exact Ht1|]. split.
           { intros _. split; [lia|]. exists l. split; assumption. }
           split; [lia|]. split; [intros j Hj; lia|]. split; [lia|]. split; [discriminate|]. split.
           { intros Hl. discriminate. }
           replace (pos + u1 + m) with (pos + (u1 + m)) by lia. exact Hok.
Qed.

Lemma tokenize_ok : forall lines, exists bs es, tokenize lines = Some (bs, es) /\ blocks_ok lines 0 bs.
Proof.
  intros lines. unfold tokenize.
  destruct (tokenize_from_ok (length lines) 0 lines) as [bs [es [H Hok]]]; [cbn; lia|].
  cbn [skipn] in H. eauto.
Qed.

(* every non-blank line lies in exactly the block whose span contains it *)
Lemma blocks_cover : forall lines bs pos, blocks_ok lines pos bs ->
  forall j l, pos <= j -> nth_error lines j = Some l -> blank l = false ->
  exists b, In b bs /\ b_start b <= j < b_stop b.
Proof.
  intros lines. induction bs as [|b r IH]; intros pos Hok j l Hj Hn Hb; cbn [blocks_ok] in Hok.
  - specialize (Hok j Hj). unfold blank_at in Hok. rewrite Hn in Hok. congruence.
  - destruct Hok as [H1 [H2 [H3 [H4 [H5 H6]]]]].
    destruct (Nat.lt_ge_cases j (b_start b)) as [Hlt|Hge].
    + specialize (H2 j (conj Hj Hlt)). unfold blank_at in H2. rewrite Hn in H2. congruence.
    + destruct (Nat.lt_ge_cases j (b_stop b)) as [Hlt|Hge2].
      * exists b. split; [left; reflexivity|lia].
      * destruct (IH _ H6 j l Hge2 Hn Hb) as [b' [Hin Hr]]. exists b'. split; [right; exact Hin|exact Hr].
Qed.

(* blocks are in order and do not overlap *)
Lemma blocks_sorted : forall lines bs pos, blocks_ok lines pos bs ->
  forall b, In b bs -> pos <= b_start b /\ b_start b < b_stop b.
Proof.
  intros lines. induction bs as [|b r IH]; intros pos Hok b' Hin; [destruct Hin|].
  cbn [blocks_ok] in Hok. destruct Hok as [H1 [H2 [H3 [H4 [H5 H6]]]]]. destruct Hin as [Heq|Hin]; [subst b'; lia|].
  destruct (IH _ H6 b' Hin). lia.
Qed.

Lemma tokens_of_start : forall bs t z, In (t, z) (tokens_of bs) -> exists b, In b bs /\ z = b_start b /\ In t (b_tags b).
Proof.
  intros bs t z H. unfold tokens_of in H. apply in_flat_map in H as [b [Hb Hin]].
  apply in_map_iff in Hin as [t' [Heq Ht]]. injection Heq as Ht' Hz. subst t' z. exists b. auto.
Qed.

Lemma block_in_ok : forall lines bs pos, blocks_ok lines pos bs ->
  forall b, In b bs -> is_lblock b = false ->
  b_stop b <= length lines /\ exists l, nth_error lines (b_start b) = Some l /\ blank l = false.
Proof.
  intros lines. induction bs as [|b r IH]; intros pos Hok b' Hin Hl; [destruct Hin|].
  cbn [blocks_ok] in Hok. destruct Hok as [H1 [H2 [H3 [H4 [H5 H6]]]]]. destruct Hin as [Heq|Hin].
  - subst b'. exact (H5 Hl).
  - exact (IH _ H6 b' Hin Hl).
Qed.

(* two blocks that contain the same line are the same position in the list: spans are disjoint *)
Lemma blocks_disjoint : forall lines bs pos, blocks_ok lines pos bs ->
  forall i1 i2 b1 b2 j, nth_error bs i1 = Some b1 -> nth_error bs i2 = Some b2 ->
  b_start b1 <= j < b_stop b1 -> b_start b2 <= j < b_stop b2 -> i1 = i2.
Proof.
  intros lines. induction bs as [|b r IH]; intros pos Hok i1 i2 b1 b2 j E1 E2 R1 R2.
  - destruct i1; discriminate.
  - cbn [blocks_ok] in Hok. destruct Hok as [H1 [H2 [H3 [H4 [H5 H6]]]]].
    destruct i1 as [|i1], i2 as [|i2]; cbn [nth_error] in E1, E2.
    + reflexivity.
    + injection E1 as <-. apply nth_error_In in E2. destruct (blocks_sorted lines r _ H6 b2 E2). lia.
    + injection E2 as <-. apply nth_error_In in E1. destruct (blocks_sorted lines r _ H6 b1 E1). lia.
    + f_equal. exact (IH _ H6 i1 i2 b1 b2 j E1 E2 R1 R2).
Qed.

(* ---- tokenizer errors name a non-blank line, hence a line of some block ----------------------------------- *)
Definition nonblank_at (rest : list eline) (i : nat) : Prop :=
  exists l', nth_error rest i = Some l' /\ blank l' = false.

Lemma para_scan_errs : forall rest pi dc e, In e (snd (para_scan pi dc rest)) -> nonblank_at rest e.
Proof.
  induction rest as [|l r IH]; intros pi dc e H; cbn [para_scan] in H; [destruct H|].
  destruct dc; [destruct H|]. destruct (blank l) eqn:Hb; [destruct H|].
  destruct (negb (l_indent l =? pi)); [destruct H|]. destruct (l_bullet l); [destruct H|].
  specialize (IH pi (l_dcolon l)). destruct (para_scan pi (l_dcolon l) r) as [n es]. cbn [snd] in *.
  apply in_app_or in H as [H|H].
  - destruct (l_at l); [|destruct H]. destruct H as [<-|[]]. exists l. auto.
  - apply in_map_iff in H as [e' [<- He']]. destruct (IH e' He') as [l' [Hn Hb']]. exists l'. auto.
Qed.

Lemma doctest_scan_errs : forall rest bi e, In e (snd (doctest_scan bi rest)) -> nonblank_at rest e.
Proof.
  induction rest as [|l r IH]; intros bi e H; cbn [doctest_scan] in H; [destruct H|].
  destruct (blank l) eqn:Hb; [destruct H|]. specialize (IH bi). destruct (doctest_scan bi r) as [n es]. cbn [snd] in *.
  apply in_app_or in H as [H|H].
  - destruct (l_indent l <? bi); [|destruct H]. destruct H as [<-|[]]. exists l. auto.
  - apply in_map_iff in H as [e' [<- He']]. destruct (IH e' He') as [l' [Hn Hb']]. exists l'. auto.
Qed.

Lemma step_errs : forall pos l r bs es used k z,
  step pos l r = (bs, es, used) -> In (k, z) es -> pos <= z /\ nonblank_at (l :: r) (z - pos).
Proof.
  intros pos l r bs es used k z H Hin. unfold step in H. destruct (blank l) eqn:Hb.
  - injection H as <- <- <-. destruct Hin.
  - assert (H0 : nonblank_at (l :: r) 0) by (exists l; auto).
    assert (Hsucc : forall e, nonblank_at r e -> nonblank_at (l :: r) (pos + S e - pos)).
    { intros e He. replace (pos + S e - pos) with (S e) by lia. exact He. }
    destruct (l_doctest l).
    + pose proof (doctest_scan_errs r (l_indent l)) as He. destruct (doctest_scan (l_indent l) r) as [n e0].
      cbn [snd] in He. injection H as <- <- <-. apply in_map_iff in Hin as [e [Heq Hine]]. injection Heq as <- <-.
      split; [lia|]. apply Hsucc. apply He. exact Hine.
    + destruct (l_bullet l).
      * destruct (listart_scan (l_indent l) None (l_dcolon l) r) as [n pi].
        destruct ((l_rest l || negb (n =? 0)) && (if n =? 0 then l_rest_dcolon l else last_dcolon l (firstn n r)))%bool;
          injection H as <- <- <-; destruct Hin.
      * pose proof (para_scan_errs r (l_indent l) false) as He.
        destruct (para_scan (l_indent l) false r) as [n e1]. cbn [snd] in He.
        assert (Hall : forall k z, In (k, z) ((if l_at l then [(MalformedField, pos)] else []) ++
                                              map (fun e => (MalformedField, pos + S e)) e1 ++ [(HeadingTypo, pos)]) ->
                                   pos <= z /\ nonblank_at (l :: r) (z - pos)).
        { intros k' z' Hi. apply in_app_or in Hi as [Hi|Hi].
          - destruct (l_at l); [|destruct Hi]. destruct Hi as [Heq|[]]. injection Heq as <- <-.
            split; [lia|]. rewrite Nat.sub_diag. exact H0.
          - apply in_app_or in Hi as [Hi|Hi].
            + apply in_map_iff in Hi as [e [Heq Hine]]. injection Heq as <- <-. split; [lia|]. apply Hsucc. apply He. exact Hine.
            + destruct Hi as [Heq|[]]. injection Heq as <- <-. split; [lia|]. rewrite Nat.sub_diag. exact H0. }
        assert (Hsub : forall (X : list eerr), (X = [] \/ X = [(HeadingTypo, pos)]) ->
                  In (k, z) ((if l_at l then [(MalformedField, pos)] else []) ++
                             map (fun e => (MalformedField, pos + S e)) e1 ++ X) -> pos <= z /\ nonblank_at (l :: r) (z - pos)).
        { intros X HX Hi. apply (Hall k z). apply in_app_or in Hi as [Hi|Hi]; [apply in_or_app; left; exact Hi|].
          apply in_or_app. right. apply in_app_or in Hi as [Hi|Hi]; apply in_or_app; [left; exact Hi|].
          destruct HX as [->| ->]; [destruct Hi|right; exact Hi]. }
        destruct r as [|l1 r'].
        -- cbn [andb] in H. destruct (last_dcolon l (firstn n [])); injection H as <- <- <-;
             apply (Hsub []); auto.
        -- destruct ((negb (n =? 0) && l_underline l1 && (absdiff (l_striplen l) (l_striplen l1) <=? 5)))%bool eqn:Hh;
           destruct (l_striplen l =? l_striplen l1) eqn:Hsame; cbn [andb] in H.
           ++ injection H as <- <- <-. apply (Hsub []); [auto|]. rewrite app_nil_r. exact Hin.
           ++ destruct (last_dcolon l (firstn n (l1 :: r'))); injection H as <- <- <-; apply (Hsub [(HeadingTypo, pos)]); auto.
           ++ destruct (last_dcolon l (firstn n (l1 :: r'))); injection H as <- <- <-; apply (Hsub []); auto.
           ++ destruct (last_dcolon l (firstn n (l1 :: r'))); injection H as <- <- <-; apply (Hsub []); auto.
Qed.

Lemma nth_error_skipn' : forall {X} (l : list X) a i, nth_error (skipn a l) i = nth_error l (a + i).
Proof.
  intros X l a. revert l. induction a as [|a IH]; intros l i; [reflexivity|].
  destruct l as [|x l]; cbn [skipn Nat.add nth_error]; [destruct i; reflexivity|apply IH].
Qed.

Lemma tokenize_from_errs : forall fuel pos lines bs es,
  tokenize_from fuel pos (skipn pos lines) = Some (bs, es) ->
  forall k z, In (k, z) es -> nonblank_at lines z.
Proof.
  induction fuel as [|f IH]; intros pos lines bs es H k z Hin.
  - destruct (skipn pos lines); [injection H as <- <-; destruct Hin|discriminate].
  - destruct (skipn pos lines) as [|l r] eqn:E; [injection H as <- <-; destruct Hin|].
    cbn [tokenize_from] in H. destruct (step pos l r) as [[bs1 es1] used] eqn:Hs.
    assert (Hskip : skipn used (l :: r) = skipn (pos + used) lines) by (rewrite <- E; apply skipn_skipn').
    rewrite Hskip in H.
    destruct (tokenize_from f (pos + used) (skipn (pos + used) lines)) as [[bs' es']|] eqn:Ht; [|discriminate].
    injection H as <- <-. apply in_app_or in Hin as [Hin|Hin].
    + destruct (step_errs pos l r bs1 es1 used k z Hs Hin) as [Hle [l' [Hn Hb]]].
      exists l'. split; [|exact Hb]. rewrite <- E in Hn. rewrite nth_error_skipn' in Hn.
      replace (pos + (z - pos)) with z in Hn by lia. exact Hn.
    + exact (IH _ _ _ _ Ht k z Hin).
Qed.

Lemma tokenize_errors_in_blocks : forall lines bs es k z,
  tokenize lines = Some (bs, es) -> In (k, z) es ->
  exists b, In b bs /\ b_start b <= z < b_stop b.
Proof.
  intros lines bs es k z H Hin.
  destruct (tokenize_ok lines) as [bs' [es' [Ht Hok]]]. rewrite H in Ht. injection Ht as <- <-.
  destruct (tokenize_from_errs (length lines) 0 lines bs es H k z Hin) as [l' [Hn Hb]].
  exact (blocks_cover lines bs 0 Hok z l' (Nat.le_0_l z) Hn Hb).
Qed.

(* ---- with the line arithmetic: an epytext error / field of a block is reported on the physical line of the
        block's first line ------------------------------------------------------------------------------ *)
From Coq Require Import ZArith.
From PydoctorVerif Require Import Spec.CleanDoc Spec.Reporting Model.Msg Model.Lines Proofs.LinesProofs.

Lemma epytext_report_first_line : forall (s : text) (n0 ln : Z) (m : bool) (d : text)
    (lines : list eline) bs es b,
  (1 <= n0)%Z -> has_content s = true -> leading_ws_fit s = true ->
  length lines = length (cleandoc_lines s) ->
  tokenize lines = Some (bs, es) -> In b bs -> is_lblock b = false ->
  exists j : nat,
    report_line sec_docstring (linenum_of_docstring false n0 s) ln
                (perr_offset (epytext_perr d (Z.of_nat (b_start b)))) m = Num (phys_line n0 j) /\
    nth_error (cleandoc_lines s) (b_start b) = clean_line_of_value_line s j /\
    (exists l, nth_error lines (b_start b) = Some l /\ EpyLines.blank l = false).
Proof.
  intros s n0 ln m d lines bs es b Hn0 Hc Hfit Hlen Htok Hin Hl.
  destruct (tokenize_ok lines) as [bs' [es' [Ht Hok]]]. rewrite Htok in Ht. injection Ht as <- <-.
  destruct (block_in_ok lines bs 0 Hok b Hin Hl) as [Hstop Hnb].
  pose proof (blocks_sorted lines bs 0 Hok b Hin) as [_ Hlt].
  assert (Hi : (b_start b < length (cleandoc_lines s))%nat) by lia.
  destruct (cleandoc_alignment s n0 (b_start b) Hc Hfit Hi) as [j [Hj Hline]].
  exists j. split; [|split; assumption].
  rewrite epytext_parse_error_line.
  - rewrite Hj. reflexivity.
  - pose proof (linenum_ge n0 s). lia.
  - lia.
Qed.
