(* Proofs/ExitIRProofs.v -- interpreting the exit-status region of driver.main as translated from the CURRENT source
   (Gen/ExitCode.v) gives Model.Proc.exit_status, for all counts and both settings of --warnings-as-errors. *)
From Coq Require Import ZArith NArith List Bool Lia.
From PydoctorVerif Require Import Model.Proc Model.ExitIR Gen.ExitCode.

Theorem run_exit_eq d o v w :
  run_exit exit_code_of_main d o v w = exit_status d o v w.
Proof.
  unfold run_exit, exit_status, exit_code_of_main, code_exit_body. cbn [xc_body xc_result].
  (* symbolic execution: split on the four atoms the code can test, then compute *)
  destruct d as [|pd], o as [|po], v as [|pv], w; cbn; reflexivity.
Qed.
