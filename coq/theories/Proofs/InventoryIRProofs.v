(* Proofs/InventoryIRProofs.v -- the interpretation of the bodies translated from the CURRENT pydoctor/sphinx.py
   (Gen/InventoryCode.v) is the hand-written Model/Inventory.v: _parseInventoryLine = parse_line for every line and
   every behaviour of int(); SphinxInventory.getLink = get_link for every map and name.
   The proofs are symbolic executions: they step through whatever code was generated, case split on what the code
   inspects (list positions, int(), emptiness) and compare the leaves with the model; the loop of the column search is
   handled by an induction over the position reached, generalised over the locals the loop assigns. *)
From Coq Require Import ZArith NArith List Bool Lia Arith.
From PydoctorVerif Require Import Base.Sexp Model.Inventory Model.InventoryIR Gen.InventoryCode Proofs.InventoryProofs.
Import ListNotations.

Lemma split_on_length c t : (length (split_on c t) <= S (length t))%nat.
Proof.
  induction t as [|x r IH]; cbn [split_on length]; [lia|].
  destruct (N.eqb x c); cbn [length]; [lia|]. destruct (split_on c r); cbn [length] in *; lia.
Qed.

Local Arguments ends_with : simpl never.
Local Arguments py_slice : simpl never.
Local Arguments py_index : simpl never.
Local Arguments split_on : simpl never.
Local Arguments join : simpl never.
Local Arguments lookup : simpl never.
Local Arguments iter : simpl never.

(* ---- primitives against the operations of the hand model *)
Lemma ends_with_single c t : ends_with [c] t = ends_with_char c t.
Proof.
  unfold ends_with, ends_with_char. cbn [rev app]. destruct (rev t) as [|x r]; cbn [starts_with]; [reflexivity|].
  rewrite andb_true_r. apply N.eqb_sym.
Qed.

Lemma py_slice_drop_last {X} (l : list X) : py_slice None (Some (-1)%Z) l = removelast l.
Proof.
  unfold py_slice, norm_idx. cbn [Z.ltb Z.compare]. rewrite Nat.sub_0_r. cbn [skipn].
  rewrite removelast_firstn_len. f_equal. lia.
Qed.

Lemma py_slice_upto {X} (l : list X) (n : nat) : py_slice None (Some (Z.of_nat n)) l = firstn n l.
Proof.
  unfold py_slice, norm_idx. destruct (Z.ltb_spec (Z.of_nat n) 0); [lia|]. rewrite Nat2Z.id, Nat.sub_0_r. reflexivity.
Qed.

Lemma py_slice_from {X} (l : list X) (n : nat) : py_slice (Some (Z.of_nat n)) None l = skipn n l.
Proof.
  unfold py_slice, norm_idx. destruct (Z.ltb_spec (Z.of_nat n) 0); [lia|]. rewrite Nat2Z.id.
  rewrite <- skipn_length. apply firstn_all.
Qed.

Lemma py_index_nat {X} (l : list X) (n : nat) : py_index l (Z.of_nat n) = nth_error l n.
Proof. unfold py_index. destruct (Z.ltb_spec (Z.of_nat n) 0); [lia|]. rewrite Nat2Z.id. reflexivity. Qed.

Lemma nth_error_firstn_lt {X} (l : list X) (n i : nat) : (i < n)%nat -> nth_error (firstn n l) i = nth_error l i.
Proof.
  revert n i. induction l as [|x l IH]; intros n i Hi; [destruct n, i; reflexivity|].
  destruct n as [|n]; [lia|]. destruct i as [|i]; [reflexivity|]. cbn [firstn nth_error]. apply IH. lia.
Qed.

Lemma skipn_some {X} (l : list X) (n : nat) (x : X) : nth_error l n = Some x -> skipn n l = x :: skipn (n + 1) l.
Proof.
  rewrite Nat.add_1_r. revert n. induction l as [|y l IH]; intros n H; [destruct n; discriminate|].
  destruct n as [|n]; [inversion H; reflexivity|]. cbn [nth_error] in H. cbn [skipn]. rewrite (IH n H). reflexivity.
Qed.

Lemma skipn_none {X} (l : list X) (n : nat) : nth_error l n = None -> skipn n l = [].
Proof. intros H. apply skipn_all2. apply nth_error_None, H. Qed.

(* ================================================================== getLink *)
Theorem get_link_ir_eq (links : dict) (name : text) :
  get_link_ir code_get_link links name = result_of_link (get_link links name).
Proof.
  unfold get_link_ir, run_body, get_link. cbn.
  destruct (lookup name links) as [[base rel]|]; cbn; [|reflexivity].
  destruct rel as [|c rel]; cbn; [reflexivity|].
  rewrite ?ends_with_single. destruct (ends_with_char 36 (c :: rel)); cbn;
    rewrite ?py_slice_drop_last, <- ?app_assoc; reflexivity.
Qed.

(* ================================================================== _parseInventoryLine *)
(* locals assigned somewhere in a statement *)
Fixpoint assigned (s : stmt) : list var :=
  match s with
  | SSeq a b => assigned a ++ assigned b
  | SAssign x _ => [x]
  | SUnpack xs _ => xs
  | SUnpackStar b st a _ => b ++ [st] ++ a
  | SCall t _ _ _ _ => match t with TVar x => [x] | TTuple xs => xs | TStar b st a => b ++ [st] ++ a end
  | SIf _ a b => assigned a ++ assigned b
  | SLoop b => assigned b
  | STry b hs o => assigned b ++ assigned_h hs ++ assigned o
  | _ => []
  end
with assigned_h (hs : handlers) : list var :=
  match hs with
  | HNil => []
  | HCons _ b r => assigned b ++ assigned_h r
  end.

(* the environment at the head of the search loop when position k has been reached: the counter holds k, the other
   locals the loop assigns hold anything (u), everything else is as on entry *)
Fixpoint havoc (i : nat) (a : list var) (cnt : var) (k : nat) (u : var -> value) (E : env) : env :=
  match E with
  | [] => []
  | v :: r => (if Nat.eqb i cnt then VInt (Z.of_nat k) else if existsb (Nat.eqb i) a then u i else v)
              :: havoc (S i) a cnt k u r
  end.

(* the counter: the local assigned in the loop that holds an int on entry *)
Fixpoint find_counter (i : nat) (a : list var) (E : env) : var :=
  match E with
  | [] => O
  | VInt _ :: r => if existsb (Nat.eqb i) a then i else find_counter (S i) a r
  | _ :: r => find_counter (S i) a r
  end.

Section ParseIR.
  Variable int_of : text -> option Z.
  Variable line : text.
  Let parts := split_on SP line.

  Definition rejected_before (k : nat) : Prop :=
    forall j q, (2 <= j < k)%nat -> nth_error parts j = Some q -> int_of q = None.

  (* the hand model, once the priority column is known *)
  Lemma parse_none_at k :
    (2 <= k)%nat -> rejected_before k -> nth_error parts k = None -> parse_line int_of line = Raise ValueError.
  Proof.
    intros Hk Hrej Hnone.
    destruct (parse_line_total int_of line) as [(c & Hc)|Hc]; [|exact Hc]. exfalso.
    apply parse_line_sound in Hc. destruct Hc as (ps & k' & p & Hf & Hk' & Hp & Hz & Hbefore & _).
    apply is_fields_unique in Hf. subst ps. fold parts in Hp, Hbefore.
    apply nth_error_None in Hnone. assert (k' < length parts)%nat by (apply nth_error_Some; congruence).
    assert (int_of p = None) by (apply (Hrej k' p); [lia|exact Hp]). congruence.
  Qed.

  Lemma parse_found_at k p z :
    (2 <= k)%nat -> rejected_before k -> nth_error parts k = Some p -> int_of p = Some z ->
    parse_line int_of line =
    match nth_error parts (k - 1) with
    | None => Raise IndexError
    | Some typ =>
      match nth_error parts (k + 1) with
      | None => Raise ValueError
      | Some loc =>
        if is_empty (join sp (skipn (k + 2) parts)) then Raise ValueError
        else Ok (Cols (join sp (firstn (k - 1) parts)) typ z loc (join sp (skipn (k + 2) parts)))
      end
    end.
  Proof.
    intros Hk Hrej Hp Hz. unfold parse_line, parse_line_gen. fold parts.
    assert (Hklt : (k < length parts)%nat) by (apply nth_error_Some; congruence).
    rewrite (find_prio_hit int_of (find_prio_fuel parts) parts 2 k p z); try assumption; [|unfold find_prio_fuel; lia].
    unfold get. destruct (nth_error parts (k - 1)); [|reflexivity]. destruct (nth_error parts (k + 1)); reflexivity.
  Qed.

  Definition loopk (f : nat) (B : env -> (outcome -> outcome) -> outcome) (K : outcome -> outcome) : outcome -> outcome :=
    fun o => match o with
             | ONormal e1 | OContinue e1 => iter f B e1 K
             | OBreak e1 => K (ONormal e1)
             | _ => K o
             end.

  (* the induction behind every column search: if one iteration at position k (a) ends the function with the model's
     answer when k is past the end, (b) does so too when parts[k] is an int, (c) goes to the loop head at k + 1 when
     parts[k] is not an int, then the loop started at any k that has only rejected fields before it yields the model's answer *)
  Lemma search_loop (B : env -> (outcome -> outcome) -> outcome) (K : outcome -> outcome)
        (H : nat -> (var -> value) -> env) (R : result) :
    (forall k u f, (2 <= k)%nat -> rejected_before k -> nth_error parts k = None ->
                   finish (B (H k u) (loopk f B K)) = R) ->
    (forall k u f p z, (2 <= k)%nat -> rejected_before k -> nth_error parts k = Some p -> int_of p = Some z ->
                       finish (B (H k u) (loopk f B K)) = R) ->
    (forall k u f p, (2 <= k)%nat -> nth_error parts k = Some p -> int_of p = None ->
                     exists E', B (H k u) (loopk f B K) = iter f B E' K /\
                                E' = H (S k) (fun i => nth i E' VUnbound)) ->
    forall fuel k u, (2 <= k)%nat -> rejected_before k -> (length parts - k < fuel)%nat ->
                     finish (iter fuel B (H k u) K) = R.
  Proof.
    intros Hend Hfound Hnext. induction fuel as [|f IH]; intros k u Hk Hrej Hf; [lia|].
    change (iter (S f) B (H k u) K) with (B (H k u) (loopk f B K)).
    destruct (nth_error parts k) as [p|] eqn:Hp; [|apply Hend; assumption].
    destruct (int_of p) as [z|] eqn:Hz; [eapply Hfound; eassumption|].
    destruct (Hnext k u f p Hk Hp Hz) as (E' & -> & ->).
    assert (k < length parts)%nat by (apply nth_error_Some; congruence).
    apply IH; [lia| |lia].
    intros j q Hj Hq. destruct (Nat.eq_dec j k) as [->|Hne]; [congruence|]. apply (Hrej j q); [lia|exact Hq].
  Qed.
End ParseIR.

Arguments exec _ _ _ !_ _ _ /.

Ltac start_search_loop int_of line :=
  match goal with
  | |- finish (iter ?f (exec ?io ?lk ?f2 ?body) ?E ?K) = ?R =>
    let a := eval cbv in (assigned body) in
    let cnt := eval cbv in (find_counter 0 a E) in
    refine (search_loop int_of line (exec io lk f2 body) K (fun k u => havoc 0 a cnt k u E) R _ _ _
                        f 2%nat (fun i => nth i E VUnbound) _ _ _)
  end.

(* Z.of_nat a +/- constant  ->  Z.of_nat (a +/- constant) *)
Ltac znat :=
  repeat match goal with
  | |- context [(Z.of_nat ?a + Z.pos ?p)%Z] =>
    let n := eval compute in (Pos.to_nat p) in
    replace (Z.of_nat a + Z.pos p)%Z with (Z.of_nat (a + n)) by lia
  | |- context [(Z.of_nat ?a - Z.pos ?p)%Z] =>
    let n := eval compute in (Pos.to_nat p) in
    replace (Z.of_nat a - Z.pos p)%Z with (Z.of_nat (a - n)) by lia
  end.

Ltac norm_nat :=
  repeat match goal with
  | |- context [(?a + ?b + ?c)%nat] =>
    let n := eval compute in (b + c)%nat in replace (a + b + c)%nat with (a + n)%nat by lia
  | |- context [S (?a + ?b)%nat] =>
    let n := eval compute in (S b) in replace (S (a + b)%nat) with (a + n)%nat by lia
  end.

(* k < length parts etc. as hypotheses of their own, for the side conditions of the list lemmas *)
Ltac bound_facts :=
  repeat match goal with
  | H : nth_error ?l ?n = Some _ |- _ =>
    lazymatch goal with
    | _ : (n < length l)%nat |- _ => fail
    | _ => assert (n < length l)%nat by (apply nth_error_Some; rewrite H; discriminate)
    end
  end.

Ltac list_step :=
  rewrite ?Nat.sub_0_r, ?Nat.add_0_r, ?firstn_all, ?firstn_firstn;
  rewrite ?firstn_length_le by lia;
  rewrite ?Nat.min_l by lia;
  rewrite ?nth_error_firstn_lt by lia.

Ltac nth_facts :=
  repeat match goal with
  | H : context [length (skipn _ _)] |- _ => rewrite skipn_length in H
  | H : context [length (firstn _ _)] |- _ => rewrite firstn_length in H
  end;
  repeat match goal with
  | H : nth_error ?l ?n = None |- _ => apply nth_error_None in H
  | H : nth_error ?l ?n = Some ?x |- _ =>
    let H' := fresh in
    assert (H' : (n < length l)%nat) by (apply nth_error_Some; rewrite H; discriminate); clear H
  end.

Ltac use_facts :=
  repeat match goal with
  | H : nth_error ?l ?n = _ |- context [nth_error ?l ?n] => rewrite H
  | H : ?io ?p = _ |- context [?io ?p] => rewrite H
  end.

Ltac sym_step :=
  cbn; unfold assign_star; cbn; znat; rewrite ?py_index_nat, ?py_slice_upto, ?py_slice_from; norm_nat; list_step; norm_nat; use_facts.

Ltac split_case :=
  match goal with
  | H : nth_error ?l ?n = Some _ |- context [match skipn ?n ?l with _ => _ end] => rewrite !(skipn_some _ _ _ H); norm_nat
  | H : nth_error ?l ?n = None |- context [match skipn ?n ?l with _ => _ end] => rewrite !(skipn_none _ _ H)
  | |- context [match skipn ?n ?l with _ => _ end] =>
    let H := fresh "Hsk" in
    destruct (nth_error l n) eqn:H; [rewrite !(skipn_some _ _ _ H); norm_nat|rewrite !(skipn_none _ _ H)]
  | |- context [match nth_error ?l ?n with _ => _ end] => destruct (nth_error l n) eqn:?
  | |- context [(?a >=? ?b)%Z] => destruct (Z.geb_spec a b)
  | |- context [(?a >? ?b)%Z] => destruct (Z.gtb_spec a b)
  | |- context [(?a <? ?b)%Z] => destruct (Z.ltb_spec a b)
  | |- context [(?a <=? ?b)%Z] => destruct (Z.leb_spec a b)
  | |- context [(?a =? ?b)%Z] => destruct (Z.eqb_spec a b)
  | |- context [(?a <? ?b)%nat] => destruct (Nat.ltb_spec a b)
  | |- context [(?a <=? ?b)%nat] => destruct (Nat.leb_spec a b)
  | |- context [is_empty ?t] => destruct (is_empty t) eqn:?
  end.

Ltac crush :=
  bound_facts; repeat sym_step;
  repeat (first [reflexivity | solve [exfalso; nth_facts; lia] | (split_case; repeat sym_step)]).

(* stated as a call with any sufficient fuel, so that the callers of _parseInventoryLine can use it too *)
Theorem call_parse_line_eq (int_of : text -> option Z) (line : text) (fuel : nat) :
  (length line + 3 <= fuel)%nat ->
  call_fn int_of [] fuel code_parse_line [VStr line] = result_of_columns (parse_line int_of line).
Proof.
  intros Hfuel. unfold call_fn. cbn.
  start_search_loop int_of line.
  - (* position k is past the end *)
    intros k u f Hk Hrej Hnone. rewrite (parse_none_at int_of line k Hk Hrej Hnone).
    unfold sp, SP in *. crush.
  - (* parts[k] is an int *)
    intros k u f p z Hk Hrej Hp Hz. rewrite (parse_found_at int_of line k p z Hk Hrej Hp Hz).
    unfold sp, SP in *. crush.
  - (* parts[k] is not an int: next position *)
    intros k u f p Hk Hp Hz. unfold sp, SP in *.
    eexists. split; [crush|].
    cbn. rewrite ?Nat.add_1_r. reflexivity.
  - lia.
  - intros j q Hj. lia.
  - assert (Hl := split_on_length SP line). lia.
Qed.

Theorem parse_line_ir_eq (int_of : text -> option Z) (line : text) :
  parse_line_ir code_parse_line int_of line = result_of_columns (parse_line int_of line).
Proof. rewrite <- (call_parse_line_eq int_of line (length line + 3) (le_n _)). reflexivity. Qed.

(* the robustness core of C17 stated on the translated code: whatever the line and whatever int() does, the code of
   _parseInventoryLine returns a value or raises ValueError -- it is never stuck, never out of fuel, never IndexError *)
Lemma code_parse_total (int_of : text -> option Z) (line : text) :
  (exists v, parse_line_ir code_parse_line int_of line = RReturn v) \/
  parse_line_ir code_parse_line int_of line = RRaise ValueError.
Proof.
  rewrite parse_line_ir_eq. destruct (parse_line_total int_of line) as [(c & Hc)|Hc]; rewrite Hc; cbn; eauto.
Qed.

(* getLink as translated always returns (None or a str) *)
Lemma code_get_link_returns (links : dict) (name : text) :
  get_link_ir code_get_link links name = RReturn VNone \/ exists u, get_link_ir code_get_link links name = RReturn (VStr u).
Proof. rewrite get_link_ir_eq. destruct (get_link links name); cbn; eauto. Qed.
