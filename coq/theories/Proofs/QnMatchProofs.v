(* Proofs/QnMatchProofs.v -- lemmas for C13.
   Layers:
     A. translate p  =  "(?s:" ++ render (Glob.lex p) ++ ")\Z"         (model loop vs spec lexer)
     B. tokenize (render ts)  =  concat (map rtoks ts)                  (Tokenizer of re)
     C. read_items (rtoks ts ++ ")\Z") = map tok_item ts                (parser of re, sets and ranges)
     D. match_items (map tok_item ts) n = Glob.gmatch ts n              (regex semantics vs glob meaning)
   and the privacy lemmas (precedence, default rule, cache, rule parsing). *)
From Coq Require Import NArith List Bool Lia Arith.
From PydoctorVerif Require Import Base.Sexp Spec.ReFrag Spec.Glob Model.QnMatch.
Import ListNotations.
Local Open Scope N_scope.

(* ------------------------------------------------------------------ generalities *)
Lemma bind_ok {X Y} (x : X) (f : X -> outcome Y) : bind (Ok x) f = f x.
Proof. reflexivity. Qed.

Ltac neq_consts := unfold c_bang, c_lpar, c_rpar, c_star, c_plus, c_dash, c_dot, c_colon, c_qm, c_Z, c_lbr,
  c_bsl, c_rbr, c_hat, c_us, c_s, c_lbrace, c_pipe, c_dollar, g_bang, g_star, g_dash, g_dot, g_qm, g_lbr, g_rbr in *.

(* ------------------------------------------------------------------ A. translate vs lex *)
(* the regex text translate writes for one glob token *)
Definition render_set (neg : bool) (seq : text) : text :=
  let d := double_bsl seq in
  if neg then c_hat :: d
  else match d with
       | h :: _ => if (h =? c_hat) || (h =? c_lbr) then c_bsl :: d else d
       | [] => d
       end.

Definition render_tok (t : gtok) : text :=
  match t with
  | GStar => t_star
  | GStarStar => t_starstar
  | GAny => t_qm
  | GSet neg seq => [c_lbr] ++ render_set neg seq ++ [c_rbr]
  | GLit c => re_escape c
  end.

Definition render (ts : list gtok) : text := concat (map render_tok ts).

Lemma find_close_split : forall t j,
  match split_close t with
  | Some (a, b) => find_close t j = (j + length a)%nat /\ t = a ++ c_rbr :: b
  | None => find_close t j = (j + length t)%nat
  end.
Proof.
  induction t as [|d t IH]; intros j; cbn [split_close find_close].
  - cbn. lia.
  - change g_rbr with c_rbr. destruct (d =? c_rbr) eqn:E.
    + apply N.eqb_eq in E. subst d. cbn. split; [lia|reflexivity].
    + specialize (IH (S j)). destruct (split_close t) as [[a b]|].
      * destruct IH as [H1 H2]. cbn. split; [lia|]. now rewrite H2 at 1.
      * cbn. lia.
  Qed.

(* what the j-scan of the "[" branch computes, stated with the spec's `bracket` *)
Definition scan_j (r : text) : nat :=
  let j := O in
  let j := if char_at r j c_bang then S j else j in
  let j := if char_at r j c_rbr then S j else j in
  find_close (skipn j r) j.

Lemma firstn_app_len {X} (a b : list X) k : k = length a -> firstn k (a ++ b) = a.
Proof. intros ->. rewrite firstn_app, Nat.sub_diag, firstn_all. cbn. now rewrite app_nil_r. Qed.

Lemma skipn_app_len {X} (a b : list X) k : k = length a -> skipn k (a ++ b) = b.
Proof. intros ->. rewrite skipn_app, Nat.sub_diag, skipn_all. reflexivity. Qed.

(* generic: a prefix `pre`, then the scan of r2 *)
Lemma scan_tail : forall (pre r2 : text),
  match split_close r2 with
  | Some (a, b) =>
      let j := find_close r2 (length pre) in
      (j < length (pre ++ r2))%nat /\ firstn j (pre ++ r2) = pre ++ a /\ skipn (S j) (pre ++ r2) = b
  | None => (length (pre ++ r2) <= find_close r2 (length pre))%nat
  end.
Proof.
  intros pre r2. pose proof (find_close_split r2 (length pre)) as H.
  destruct (split_close r2) as [[a b]|].
  - destruct H as [H1 H2]. cbn zeta. rewrite H1. subst r2. repeat split.
    + rewrite !app_length. cbn. lia.
    + rewrite app_assoc. apply firstn_app_len. rewrite app_length. lia.
    + replace (pre ++ a ++ c_rbr :: b) with ((pre ++ a ++ [c_rbr]) ++ b).
      * apply skipn_app_len. rewrite !app_length. cbn. lia.
      * rewrite <- !app_assoc. reflexivity.
  - rewrite H, app_length. lia.
Qed.

Lemma scan_j_nil : scan_j [] = O.
Proof. reflexivity. Qed.

Lemma scan_j_bang1 : scan_j [c_bang] = 1%nat.
Proof. reflexivity. Qed.

Lemma scan_j_bang : forall d r2, scan_j (c_bang :: d :: r2) = find_close r2 2.
Proof.
  intros d r2. unfold scan_j, char_at. cbn [nth_error]. rewrite N.eqb_refl. cbn [nth_error].
  destruct (d =? c_rbr) eqn:E; cbn [skipn find_close]; [reflexivity|]. now rewrite E.
Qed.

Lemma scan_j_other : forall c r', (c =? c_bang) = false -> scan_j (c :: r') = find_close r' 1.
Proof.
  intros c r' Hc. unfold scan_j, char_at. cbn [nth_error]. rewrite Hc. cbn [nth_error].
  destruct (c =? c_rbr) eqn:E; cbn [skipn find_close]; [reflexivity|]. now rewrite E.
Qed.

Lemma scan_bracket : forall r,
  match bracket r with
  | Some (neg, seq, rest) =>
      (scan_j r < length r)%nat /\
      firstn (scan_j r) r = (if neg then c_bang :: seq else seq) /\
      skipn (S (scan_j r)) r = rest /\
      (neg = false -> forall h s, seq = h :: s -> h <> c_bang) /\ seq <> []
  | None => (length r <= scan_j r)%nat
  end.
Proof.
  intros r. unfold bracket. change g_bang with c_bang.
  destruct r as [|c r'].
  - cbn. lia.
  - destruct (c =? c_bang) eqn:Eb.
    + apply N.eqb_eq in Eb. subst c.
      destruct r' as [|d r2].
      * cbn. lia.
      * rewrite scan_j_bang. pose proof (scan_tail [c_bang; d] r2) as H.
        destruct (split_close r2) as [[a b]|]; cbn [length app] in *.
        -- destruct H as (H1 & H2 & H3). repeat split; try assumption; try discriminate.
        -- exact H.
    + rewrite scan_j_other by assumption. pose proof (scan_tail [c] r') as H.
      destruct (split_close r') as [[a b]|]; cbn [length app] in *.
      * destruct H as (H1 & H2 & H3). repeat split; try assumption; try discriminate.
        intros _ h s Hs. injection Hs as <- _. now apply N.eqb_neq.
      * exact H.
Qed.

Lemma bracket_length : forall r neg seq rest, bracket r = Some (neg, seq, rest) -> (length rest < length r)%nat.
Proof.
  intros r neg seq rest H. pose proof (scan_bracket r) as S. rewrite H in S.
  destruct S as (H1 & _ & H3 & _). subst rest. rewrite skipn_length. lia.
Qed.

Lemma double_bsl_bang : forall seq, double_bsl (c_bang :: seq) = c_bang :: double_bsl seq.
Proof. reflexivity. Qed.

Lemma double_bsl_head_not_bang : forall h s, h <> c_bang ->
  match double_bsl (h :: s) with h' :: _ => (h' =? c_bang) = false | [] => False end.
Proof.
  intros h s Hh. cbn [double_bsl]. destruct (h =? c_bsl) eqn:E.
  - reflexivity.
  - now apply N.eqb_neq.
Qed.

Lemma translate_loop_lex : forall f p acc, (length p <= f)%nat ->
  translate_loop (S f) p acc = Ok (acc ++ render (lex_fuel f p)).
Proof.
  induction f as [|f IH]; intros p acc Hl.
  - destruct p; [|cbn in Hl; lia]. cbn. now rewrite app_nil_r.
  - destruct p as [|c r].
    + cbn. now rewrite app_nil_r.
    + cbn [length] in Hl. assert (Hr : (length r <= f)%nat) by lia.
      cbn [lex_fuel]. remember (S f) as f1 eqn:Ef1. cbn [translate_loop]. subst f1. change g_star with c_star. change g_qm with c_qm. change g_lbr with c_lbr.
      destruct (c =? c_star) eqn:Es.
      { destruct r as [|c2 r2].
        - unfold char_at. cbn [nth_error]. rewrite IH by assumption.
          unfold render. cbn [map concat render_tok]. now rewrite app_assoc.
        - unfold char_at. cbn [nth_error]. destruct (c2 =? c_star) eqn:E2.
          + cbn [skipn]. rewrite IH by (cbn in Hr; lia).
            unfold render. cbn [map concat render_tok]. now rewrite app_assoc.
          + rewrite IH by assumption. unfold render. cbn [map concat render_tok]. now rewrite app_assoc. }
      destruct (c =? c_qm) eqn:Eq.
      { rewrite IH by assumption. unfold render. cbn [map concat render_tok]. now rewrite app_assoc. }
      destruct (c =? c_lbr) eqn:El.
      { fold (scan_j r). pose proof (scan_bracket r) as SB. pose proof (bracket_length r) as BL.
        destruct (bracket r) as [[[neg seq] rest]|].
        - destruct SB as (H1 & H2 & H3 & H4 & H5).
          apply Nat.leb_gt in H1. rewrite H1. rewrite H2, H3.
          specialize (BL _ _ _ eq_refl).
          destruct neg.
          + rewrite double_bsl_bang. rewrite N.eqb_refl.
            rewrite IH by lia. unfold render. cbn [map concat render_tok]. unfold render_set.
            rewrite <- !app_assoc. reflexivity.
          + destruct seq as [|h s]; [congruence|].
            pose proof (double_bsl_head_not_bang h s (H4 eq_refl h s eq_refl)) as Hd.
            unfold render. cbn [map concat render_tok]. unfold render_set.
            destruct (double_bsl (h :: s)) as [|h' tl'] eqn:Ed; [contradiction|].
            rewrite Hd. rewrite IH by lia.
            destruct ((h' =? c_hat) || (h' =? c_lbr)); rewrite <- !app_assoc; reflexivity.
        - apply Nat.leb_le in SB. rewrite SB. rewrite IH by assumption.
          unfold render. cbn [map concat render_tok].
          apply N.eqb_eq in El. subst c. rewrite app_assoc. reflexivity. }
      rewrite IH by assumption. unfold render. cbn [map concat render_tok]. now rewrite app_assoc.
Qed.

Theorem translate_render : forall p, translate p = Ok (t_prefix ++ render (lex p) ++ t_suffix).
Proof.
  intros p. unfold translate, lex. rewrite translate_loop_lex by lia. reflexivity.
Qed.

(* ------------------------------------------------------------------ B. Tokenizer on rendered text *)
(* text s reads as the tokens ts, whatever follows *)
Definition Aligned (s : text) (ts : list rtok) : Prop :=
  forall rest, tokenize (s ++ rest) = bind (tokenize rest) (fun r => Ok (ts ++ r)).

Lemma aligned_nil : Aligned [] [].
Proof. intros rest. cbn. destruct (tokenize rest); reflexivity. Qed.

Lemma aligned_plain : forall c, (c =? c_bsl) = false -> Aligned [c] [Plain c].
Proof. intros c H rest. cbn. rewrite H. destruct (tokenize rest); reflexivity. Qed.

Lemma aligned_esc : forall c, Aligned [c_bsl; c] [Esc c].
Proof. intros c rest. cbn. destruct (tokenize rest); reflexivity. Qed.

Lemma aligned_app : forall s1 t1 s2 t2, Aligned s1 t1 -> Aligned s2 t2 -> Aligned (s1 ++ s2) (t1 ++ t2).
Proof.
  intros s1 t1 s2 t2 H1 H2 rest. rewrite <- app_assoc, H1, H2.
  destruct (tokenize rest); cbn; [now rewrite app_assoc|reflexivity].
Qed.

Lemma aligned_cons_plain : forall c s t, (c =? c_bsl) = false -> Aligned s t -> Aligned (c :: s) (Plain c :: t).
Proof. intros c s t H A. apply (aligned_app [c] [Plain c] s t); [now apply aligned_plain|assumption]. Qed.

Lemma aligned_cons_esc : forall c s t, Aligned s t -> Aligned (c_bsl :: c :: s) (Esc c :: t).
Proof. intros c s t A. apply (aligned_app [c_bsl; c] [Esc c] s t); [apply aligned_esc|assumption]. Qed.

(* a member of a set as translate writes it: backslash doubled, everything else as is *)
Definition enc1 (c : N) : rtok := if c =? c_bsl then Esc c_bsl else Plain c.

Lemma aligned_double : forall seq, Aligned (double_bsl seq) (map enc1 seq).
Proof.
  induction seq as [|c r IH]; cbn [double_bsl map].
  - apply aligned_nil.
  - unfold enc1 at 1. destruct (c =? c_bsl) eqn:E.
    + apply N.eqb_eq in E. subst c. now apply aligned_cons_esc.
    + now apply aligned_cons_plain.
Qed.

(* tokens of a set body; e = the first member is written with a backslash in front *)
Definition stoks (e : bool) (seq : text) : list rtok :=
  match seq with
  | [] => []
  | c :: s => (if e then Esc c else enc1 c) :: map enc1 s
  end.

Definition first_escaped (seq : text) : bool :=
  match seq with
  | h :: _ => (h =? c_hat) || (h =? c_lbr)
  | [] => false
  end.

Definition set_toks (neg : bool) (seq : text) : list rtok :=
  if neg then Plain c_hat :: map enc1 seq else stoks (first_escaped seq) seq.

Lemma aligned_render_set : forall neg seq, Aligned (render_set neg seq) (set_toks neg seq).
Proof.
  intros neg seq. unfold render_set, set_toks. destruct neg.
  - apply aligned_cons_plain; [reflexivity|apply aligned_double].
  - destruct seq as [|h s]; [apply aligned_nil|].
    pose proof (aligned_double (h :: s)) as AD. cbn [double_bsl map] in *. unfold first_escaped, stoks.
    destruct (h =? c_bsl) eqn:Eb.
    + apply N.eqb_eq in Eb. subst h. cbn. exact AD.
    + destruct ((h =? c_hat) || (h =? c_lbr)) eqn:Ee.
      * apply aligned_cons_esc.
        intros rest. specialize (AD rest). cbn [app tokenize] in AD. rewrite Eb in AD.
        unfold enc1 in AD at 1. rewrite Eb in AD.
        destruct (tokenize (double_bsl s ++ rest)) as [x|e]; cbn in AD.
        -- destruct (tokenize rest); cbn in *; [injection AD as AD; now subst x|discriminate].
        -- destruct (tokenize rest); cbn in *; [discriminate|assumption].
      * exact AD.
Qed.

Definition rtoks (t : gtok) : list rtok :=
  match t with
  | GStar => [Plain c_lbr; Plain c_hat; Esc c_dot; Plain c_rbr; Plain c_star; Plain c_qm]
  | GStarStar => [Plain c_dot; Plain c_star; Plain c_qm]
  | GAny => [Plain c_dot]
  | GSet neg seq => Plain c_lbr :: set_toks neg seq ++ [Plain c_rbr]
  | GLit c => if re_escaped c then [Esc c] else [Plain c]
  end.

Lemma re_escaped_bsl : re_escaped c_bsl = true.
Proof. reflexivity. Qed.

Lemma aligned_render_tok : forall t, Aligned (render_tok t) (rtoks t).
Proof.
  destruct t as [| | |neg seq|c]; cbn [render_tok rtoks].
  - intros rest. cbn. destruct (tokenize rest); reflexivity.
  - intros rest. cbn. destruct (tokenize rest); reflexivity.
  - intros rest. cbn. destruct (tokenize rest); reflexivity.
  - apply (aligned_app [c_lbr] [Plain c_lbr]); [now apply aligned_plain|].
    apply aligned_app; [apply aligned_render_set|now apply aligned_plain].
  - unfold re_escape. destruct (re_escaped c) eqn:E.
    + apply aligned_esc.
    + apply aligned_plain. destruct (c =? c_bsl) eqn:Eb; [|reflexivity].
      apply N.eqb_eq in Eb. subst c. rewrite re_escaped_bsl in E. discriminate.
Qed.

Lemma aligned_render : forall ts, Aligned (render ts) (concat (map rtoks ts)).
Proof.
  induction ts as [|t r IH]; unfold render in *; cbn [map concat].
  - apply aligned_nil.
  - apply aligned_app; [apply aligned_render_tok|exact IH].
Qed.

Definition prefix_toks : list rtok := [Plain c_lpar; Plain c_qm; Plain c_s; Plain c_colon].
Definition suffix_toks : list rtok := [Plain c_rpar; Esc c_Z].

Theorem tokenize_translated : forall ts,
  tokenize (t_prefix ++ render ts ++ t_suffix) = Ok (prefix_toks ++ concat (map rtoks ts) ++ suffix_toks).
Proof.
  intros ts.
  assert (A : Aligned (t_prefix ++ render ts ++ t_suffix) (prefix_toks ++ concat (map rtoks ts) ++ suffix_toks)).
  { apply aligned_app.
    - intros rest. cbn. destruct (tokenize rest); reflexivity.
    - apply aligned_app; [apply aligned_render|].
      intros rest. cbn. destruct (tokenize rest); reflexivity. }
  specialize (A []). rewrite !app_nil_r in A. rewrite A. cbn. now rewrite app_nil_r.
Qed.

(* ------------------------------------------------------------------ C. the parser of re on those tokens *)
(* the members `re` reads from a set body *)
Fixpoint seq_items (seq : text) : list setitem :=
  match seq with
  | [] => []
  | lo :: r1 =>
    match r1 with
    | d :: hi :: r => if d =? c_dash then SRange lo hi :: seq_items r else SLit lo :: seq_items r1
    | _ => SLit lo :: seq_items r1
    end
  end.

Lemma seq_items_lit : forall lo d s, (d =? c_dash) = false -> seq_items (lo :: d :: s) = SLit lo :: seq_items (d :: s).
Proof. intros lo d s H. destruct s; cbn [seq_items]; [reflexivity|now rewrite H]. Qed.
Lemma seq_items_range : forall lo hi r, seq_items (lo :: c_dash :: hi :: r) = SRange lo hi :: seq_items r.
Proof. reflexivity. Qed.
Lemma seq_wf_lit : forall lo d s, (d =? c_dash) = false -> seq_wf (lo :: d :: s) = seq_wf (d :: s).
Proof. intros lo d s H. destruct s; cbn [seq_wf]; [reflexivity|]. change g_dash with c_dash. now rewrite H. Qed.
Lemma seq_wf_range : forall lo hi r, seq_wf (lo :: c_dash :: hi :: r) = (lo <=? hi) && seq_wf r.
Proof. reflexivity. Qed.
Lemma in_seq_lit : forall x lo d s, (d =? c_dash) = false -> in_seq x (lo :: d :: s) = (x =? lo) || in_seq x (d :: s).
Proof. intros x lo d s H. destruct s; cbn [in_seq]; [reflexivity|]. change g_dash with c_dash. now rewrite H. Qed.
Lemma in_seq_range : forall x lo hi r, in_seq x (lo :: c_dash :: hi :: r) = ((lo <=? x) && (x <=? hi)) || in_seq x r.
Proof. reflexivity. Qed.

Definition this_tok (e : bool) (c : N) : rtok := if e then Esc c else enc1 c.

Lemma not_closing : forall e c first, (c = c_rbr -> first = true) ->
  match this_tok e c with Plain c0 => (c0 =? c_rbr) && negb first | Esc _ => false end = false.
Proof.
  intros e c first H. unfold this_tok, enc1. destruct e; [reflexivity|].
  destruct (c =? c_bsl); [reflexivity|].
  destruct (c =? c_rbr) eqn:E; [|reflexivity].
  apply N.eqb_eq in E. rewrite (H E). reflexivity.
Qed.

Lemma set_code_this : forall e c, (e = true -> is_ascii_alnum c = false) -> set_code (this_tok e c) = Ok c.
Proof.
  intros e c H. unfold this_tok, enc1. destruct e.
  - cbn. now rewrite H.
  - destruct (c =? c_bsl) eqn:E; [|reflexivity]. apply N.eqb_eq in E. subst c. reflexivity.
Qed.

Lemma stoks_cons : forall e c s, stoks e (c :: s) = this_tok e c :: map enc1 s.
Proof. reflexivity. Qed.

Lemma stoks_false : forall s, stoks false s = map enc1 s.
Proof. destruct s; reflexivity. Qed.

Lemma read_set_close : forall f rest, read_set (S f) false (Plain c_rbr :: rest) = Ok ([], rest).
Proof. reflexivity. Qed.

(* reading a set body: the members when no range is inverted, re.error "bad character range" otherwise *)
Definition set_result (seq : text) (rest : list rtok) : outcome (list setitem * list rtok) :=
  if seq_wf seq then Ok (seq_items seq, rest) else Err BadRange.

Lemma read_set_gen : forall f e seq first rest,
  (length seq < f)%nat ->
  (first = true -> seq <> []) ->
  (forall c s, seq = c :: s -> (c = c_rbr -> first = true) /\ ~ In c_rbr s /\ (e = true -> is_ascii_alnum c = false)) ->
  read_set f first (stoks e seq ++ Plain c_rbr :: rest) = set_result seq rest.
Proof.
  induction f as [|f IH]; intros e seq first rest Hlen Hne Hhd; [lia|].
  destruct seq as [|c s].
  - destruct first; [exfalso; now apply Hne|]. reflexivity.
  - destruct (Hhd c s eq_refl) as (Hc & Hs & He). clear Hhd.
    rewrite stoks_cons. cbn [app read_set].
    rewrite (not_closing e c first Hc), (set_code_this e c He). cbn [bind].
    cbn [length] in Hlen.
    destruct s as [|d s'].
    + (* single member, then the closing bracket *)
      cbn [map app]. destruct f as [|f']; [lia|].
      replace (c_rbr =? c_dash) with false by reflexivity. rewrite read_set_close. reflexivity.
    + assert (Hd : d <> c_rbr) by (intros ->; apply Hs; now left).
      assert (Hs' : ~ In c_rbr s') by (intros Hin; apply Hs; now right).
      cbn [map app length] in *.
      (* the recursive reading of d :: s' as a fresh member list *)
      assert (Rec : read_set f false (enc1 d :: map enc1 s' ++ Plain c_rbr :: rest) = set_result (d :: s') rest).
      { change (enc1 d :: map enc1 s' ++ Plain c_rbr :: rest) with (stoks false (d :: s') ++ Plain c_rbr :: rest).
        apply IH; [cbn [length]; lia|discriminate|].
        intros c0 s0 E0. injection E0 as <- <-. repeat split; [intros; contradiction|assumption|discriminate]. }
      destruct (d =? c_dash) eqn:Edash.
      * apply N.eqb_eq in Edash. subst d. replace (enc1 c_dash) with (Plain c_dash) by reflexivity.
        rewrite N.eqb_refl.
        destruct s' as [|hi r'].
        -- cbn [map app]. rewrite N.eqb_refl. reflexivity.
        -- assert (Hhi : hi <> c_rbr) by (intros ->; apply Hs'; now left).
           assert (Hr' : ~ In c_rbr r') by (intros Hin; apply Hs'; now right).
           assert (Rec2 : read_set f false (map enc1 r' ++ Plain c_rbr :: rest) = set_result r' rest).
           { rewrite <- (stoks_false r'). apply IH; [cbn [length] in Hlen; lia|discriminate|].
             intros c0 s0 E0. subst r'. repeat split.
             - intros ->. exfalso. apply Hr'. now left.
             - intros Hin. apply Hr'. now right.
             - discriminate. }
           assert (Fin : (if hi <? c then Err BadRange
                          else bind (read_set f false (map enc1 r' ++ Plain c_rbr :: rest))
                                    (fun p => Ok (SRange c hi :: fst p, snd p)))
                         = set_result (c :: c_dash :: hi :: r') rest).
           { unfold set_result. rewrite seq_wf_range, seq_items_range. rewrite Rec2. unfold set_result.
             destruct (c <=? hi) eqn:Hle.
             - assert (Hlt : (hi <? c) = false) by (apply N.ltb_ge; now apply N.leb_le). rewrite Hlt. cbn [andb].
               destruct (seq_wf r'); reflexivity.
             - assert (Hlt : (hi <? c) = true) by (apply N.ltb_lt; now apply N.leb_gt). rewrite Hlt. reflexivity. }
           cbn [map app]. unfold enc1 at 1.
           destruct (hi =? c_bsl) eqn:Eb.
           ++ apply N.eqb_eq in Eb. subst hi. change (set_code (enc1 c_bsl)) with (@Ok N c_bsl).
              cbn [bind]. exact Fin.
           ++ apply N.eqb_neq in Hhi. rewrite Hhi. exact Fin.
      * assert (Fin : bind (read_set f false (enc1 d :: map enc1 s' ++ Plain c_rbr :: rest))
                           (fun p => Ok (SLit c :: fst p, snd p)) = set_result (c :: d :: s') rest).
        { rewrite Rec. unfold set_result. rewrite seq_wf_lit, seq_items_lit by assumption.
          destruct (seq_wf (d :: s')); reflexivity. }
        destruct (d =? c_bsl) eqn:Eb.
        -- assert (Henc : enc1 d = Esc c_bsl) by (unfold enc1; now rewrite Eb).
           rewrite Henc in *. exact Fin.
        -- assert (Henc : enc1 d = Plain d) by (unfold enc1; now rewrite Eb).
           rewrite Henc in *. rewrite Edash. exact Fin.
Qed.

Lemma read_set_seq : forall f e seq first rest,
  (length seq < f)%nat ->
  (first = true -> seq <> []) ->
  (forall c s, seq = c :: s -> (c = c_rbr -> first = true) /\ ~ In c_rbr s /\ (e = true -> is_ascii_alnum c = false)) ->
  seq_wf seq = true ->
  read_set f first (stoks e seq ++ Plain c_rbr :: rest) = Ok (seq_items seq, rest).
Proof.
  intros f e seq first rest H1 H2 H3 Hwf. rewrite read_set_gen by assumption. unfold set_result. now rewrite Hwf.
Qed.

Definition tok_item (t : gtok) : item :=
  match t with
  | GStar => Star (CSet true [SLit c_dot])
  | GStarStar => Star CAny
  | GAny => One CAny
  | GSet neg seq => One (CSet neg (seq_items seq))
  | GLit c => One (CLit c)
  end.

Definition tok_valid (t : gtok) : Prop :=
  match t with
  | GSet _ seq => seq <> [] /\ ~ In c_rbr (tl seq)
  | _ => True
  end.

Definition no_repeat_head (rest : list rtok) : Prop :=
  match rest with
  | Plain q :: _ => is_repeat q = false
  | _ => True
  end.

Lemma repeat_suffix_none : forall rest, no_repeat_head rest -> repeat_suffix rest = SfxNone.
Proof.
  intros [|[q|q] r] H; cbn in *; [reflexivity| |reflexivity]. now rewrite H.
Qed.

Ltac orb_cases H :=
  repeat match type of H with
         | (_ || _) = true => apply orb_prop in H; destruct H as [H|H]
         end.

Lemma escaped_not_alnum : forall c, re_escaped c = true -> is_ascii_alnum c = false.
Proof.
  intros c H. unfold re_escaped in H. orb_cases H; apply N.eqb_eq in H; subst c; reflexivity.
Qed.

Lemma special_escaped : forall c, is_special c = true -> re_escaped c = true.
Proof.
  intros c H. unfold is_special in H. orb_cases H; apply N.eqb_eq in H; subst c; reflexivity.
Qed.

Lemma repeat_escaped : forall c, is_repeat c = true -> re_escaped c = true.
Proof.
  intros c H. unfold is_repeat in H. orb_cases H; apply N.eqb_eq in H; subst c; reflexivity.
Qed.

Lemma rpar_escaped : forall c, (c =? c_rpar) = true -> re_escaped c = true.
Proof. intros c H. apply N.eqb_eq in H. subst c. reflexivity. Qed.

Lemma not_escaped_facts : forall c, re_escaped c = false ->
  is_special c = false /\ is_repeat c = false /\ (c =? c_rpar) = false /\ (c =? c_dot) = false /\ (c =? c_lbr) = false.
Proof.
  intros c H. repeat split.
  - destruct (is_special c) eqn:E; [|reflexivity]. apply special_escaped in E. congruence.
  - destruct (is_repeat c) eqn:E; [|reflexivity]. apply repeat_escaped in E. congruence.
  - destruct (c =? c_rpar) eqn:E; [|reflexivity]. apply rpar_escaped in E. congruence.
  - destruct (c =? c_dot) eqn:E; [|reflexivity]. apply N.eqb_eq in E. subst c. discriminate.
  - destruct (c =? c_lbr) eqn:E; [|reflexivity]. apply N.eqb_eq in E. subst c. discriminate.
Qed.

Lemma read_items_S : forall f this r,
  read_items (S f) (this :: r) =
  if is_rpar this then Ok ([], r)
  else bind (read_atom (length (this :: r)) this r) (fun a =>
       match repeat_suffix (snd a) with
       | SfxNone => bind (read_items f (snd a)) (fun p => Ok (One (fst a) :: fst p, snd p))
       | SfxLazyStar r3 => bind (read_items f r3) (fun p => Ok (Star (fst a) :: fst p, snd p))
       | SfxOther => Err Unsupported
       end).
Proof. reflexivity. Qed.

Lemma read_items_tok_gen : forall t f rest,
  tok_valid t -> no_repeat_head rest ->
  read_items (S f) (rtoks t ++ rest) =
  if tok_wf t then bind (read_items f rest) (fun p => Ok (tok_item t :: fst p, snd p)) else Err BadRange.
Proof.
  intros t f rest Hv Hr.
  destruct t as [| | |neg seq|c]; cbn [rtoks tok_item tok_wf].
  - (* * *) cbn [app]. rewrite read_items_S. reflexivity.
  - (* ** *) cbn [app]. rewrite read_items_S. reflexivity.
  - (* ? *) cbn [app]. rewrite read_items_S. cbn [is_rpar read_atom]. 
    replace (c_dot =? c_rpar) with false by reflexivity. rewrite N.eqb_refl. cbn [bind fst snd].
    now rewrite repeat_suffix_none.
  - (* set *)
    cbn [tok_valid] in *. destruct Hv as [Hne Hnr].
    cbn [app]. rewrite read_items_S. cbn [is_rpar]. replace (c_lbr =? c_rpar) with false by reflexivity.
    cbn [read_atom]. replace (c_lbr =? c_dot) with false by reflexivity. rewrite N.eqb_refl.
    destruct seq as [|h s]; [congruence|]. cbn [tl] in Hnr.
    assert (RS : forall e first0 fuel, first0 = true -> (e = true -> is_ascii_alnum h = false) ->
                 (length (h :: s) < fuel)%nat ->
                 read_set fuel first0 (stoks e (h :: s) ++ Plain c_rbr :: rest) = set_result (h :: s) rest).
    { intros e first0 fuel -> He Hf. apply read_set_gen; [assumption|discriminate|].
      intros c0 s0 E0. injection E0 as <- <-. repeat split; auto. }
    unfold set_toks. destruct neg.
    + cbn [app]. rewrite N.eqb_refl. rewrite <- app_assoc. cbn [app].
      rewrite <- (stoks_false (h :: s)). rewrite RS; [|reflexivity|discriminate|].
      * unfold set_result. destruct (seq_wf (h :: s)); [|reflexivity].
        cbn [bind fst snd]. now rewrite repeat_suffix_none.
      * unfold stoks, this_tok. repeat (progress cbn [length map app] || rewrite app_length || rewrite map_length). lia.
    + rewrite <- app_assoc. cbn [app].
      assert (Hhead : match stoks (first_escaped (h :: s)) (h :: s) ++ Plain c_rbr :: rest with
                      | Plain h0 :: r1 => if h0 =? c_hat then (true, r1)
                                          else (false, stoks (first_escaped (h :: s)) (h :: s) ++ Plain c_rbr :: rest)
                      | _ => (false, stoks (first_escaped (h :: s)) (h :: s) ++ Plain c_rbr :: rest)
                      end = (false, stoks (first_escaped (h :: s)) (h :: s) ++ Plain c_rbr :: rest)).
      { cbn [first_escaped stoks app]. destruct ((h =? c_hat) || (h =? c_lbr)) eqn:Ee; [reflexivity|].
        apply orb_false_elim in Ee. destruct Ee as [Eh _]. unfold enc1. destruct (h =? c_bsl); [reflexivity|].
        now rewrite Eh. }
      rewrite Hhead. rewrite RS; [|reflexivity| |].
      * unfold set_result. destruct (seq_wf (h :: s)); [|reflexivity].
        cbn [bind fst snd]. now rewrite repeat_suffix_none.
      * cbn [first_escaped]. intros Ee. orb_cases Ee; apply N.eqb_eq in Ee; subst h; reflexivity.
      * unfold stoks, this_tok. repeat (progress cbn [length map app] || rewrite app_length || rewrite map_length). lia.
  - (* literal *)
    destruct (re_escaped c) eqn:E; cbn [app]; rewrite read_items_S; cbn [is_rpar read_atom].
    + rewrite (escaped_not_alnum c E). cbn [bind fst snd]. now rewrite repeat_suffix_none.
    + destruct (not_escaped_facts c E) as (H1 & H2 & H3 & H4 & H5).
      rewrite H3, H4, H5, H1. cbn [bind fst snd]. now rewrite repeat_suffix_none.
Qed.

Lemma rtoks_head : forall t rest, no_repeat_head (rtoks t ++ rest).
Proof.
  intros [| | |neg seq|c] rest; cbn; try reflexivity.
  destruct (re_escaped c) eqn:E; cbn; [exact I|]. now destruct (not_escaped_facts c E) as (_ & H & _).
Qed.

Lemma read_items_all_gen : forall ts f, (length ts < f)%nat -> Forall tok_valid ts ->
  read_items f (concat (map rtoks ts) ++ suffix_toks) =
  if forallb tok_wf ts then Ok (map tok_item ts, [Esc c_Z]) else Err BadRange.
Proof.
  induction ts as [|t r IH]; intros f Hf Hv.
  - destruct f; [cbn in Hf; lia|]. reflexivity.
  - destruct f; [cbn in Hf; lia|]. cbn [length] in Hf.
    inversion Hv as [|? ? Hvt Hvr]; subst. cbn [forallb].
    cbn [map concat]. rewrite <- app_assoc. rewrite read_items_tok_gen; [|assumption|].
    + destruct (tok_wf t); [|reflexivity]. rewrite IH by (assumption || lia). cbn [andb].
      destruct (forallb tok_wf r); reflexivity.
    + destruct r as [|t' r']; cbn [map concat]; [cbn; reflexivity|]. rewrite <- app_assoc. apply rtoks_head.
Qed.

Lemma rtoks_length : forall ts, (length ts <= length (concat (map rtoks ts)))%nat.
Proof.
  induction ts as [|t r IH]; cbn [map concat length]; [lia|]. rewrite app_length.
  assert (1 <= length (rtoks t))%nat; [|lia].
  destruct t as [| | |neg seq|c]; cbn; try lia. destruct (re_escaped c); cbn; lia.
Qed.

Theorem read_re_translated_gen : forall ts, Forall tok_valid ts ->
  read_re (t_prefix ++ render ts ++ t_suffix) = if forallb tok_wf ts then Ok (map tok_item ts) else Err BadRange.
Proof.
  intros ts Hv. unfold read_re. rewrite tokenize_translated. cbn [bind prefix_toks app].
  replace ((c_lpar =? c_lpar) && (c_qm =? c_qm) && (c_s =? c_s) && (c_colon =? c_colon)) with true by reflexivity.
  rewrite read_items_all_gen; [| |assumption].
  - destruct (forallb tok_wf ts); [|reflexivity]. cbn [bind snd fst]. rewrite N.eqb_refl. reflexivity.
  - rewrite app_length. pose proof (rtoks_length ts). lia.
Qed.

(* the spec lexer only produces closed sets with a first member and no other "]" inside *)
Lemma split_close_no_rbr : forall s a b, split_close s = Some (a, b) -> ~ In c_rbr a.
Proof.
  induction s as [|c r IH]; intros a b H; cbn [split_close] in H; [discriminate|].
  change g_rbr with c_rbr in H. destruct (c =? c_rbr) eqn:E.
  - injection H as <- <-. intros [].
  - destruct (split_close r) as [[a' b']|]; [|discriminate]. injection H as <- <-.
    intros [Hc|Hin]; [subst c; now rewrite N.eqb_refl in E|]. now apply (IH a' b' eq_refl).
Qed.

Lemma bracket_valid : forall r neg seq rest, bracket r = Some (neg, seq, rest) -> tok_valid (GSet neg seq).
Proof.
  intros r neg seq rest H. unfold bracket in H.
  destruct (match r with c :: r' => if c =? g_bang then (true, r') else (false, r) | [] => (false, r) end) as [ng r1].
  destruct r1 as [|c r2]; [discriminate|].
  destruct (split_close r2) as [[s b]|] eqn:Es; [|discriminate]. injection H as <- <- <-.
  cbn. split; [discriminate|]. now apply (split_close_no_rbr r2 s b).
Qed.

Lemma lex_fuel_valid : forall f p, Forall tok_valid (lex_fuel f p).
Proof.
  induction f as [|f IH]; intros p; [constructor|].
  destruct p as [|c r]; cbn [lex_fuel]; [constructor|].
  destruct (c =? g_star).
  { destruct r as [|c2 r2]; [constructor; [exact I|apply IH]|].
    destruct (c2 =? g_star); constructor; try exact I; apply IH. }
  destruct (c =? g_qm); [constructor; [exact I|apply IH]|].
  destruct (c =? g_lbr); [|constructor; [exact I|apply IH]].
  destruct (bracket r) as [[[neg seq] rest]|] eqn:Eb; constructor; try apply IH; try exact I.
  now apply (bracket_valid r neg seq rest).
Qed.

(* ------------------------------------------------------------------ D. regex semantics vs glob meaning *)
Lemma cuts_nil : cuts [] = [([], [])].
Proof. reflexivity. Qed.

Lemma cuts_cons : forall x n,
  cuts (x :: n) = ([], x :: n) :: map (fun uv => (x :: fst uv, snd uv)) (cuts n).
Proof.
  intros x n. unfold cuts. cbn [length]. 
  change (seq 0 (S (S (length n)))) with (0%nat :: seq 1 (S (length n))).
  cbn [map firstn skipn]. f_equal.
  rewrite <- seq_shift, !map_map. apply map_ext. intros k. reflexivity.
Qed.

Lemma star_cuts : forall k cont n,
  star_match k cont n = existsb (fun uv => forallb (cls_match k) (fst uv) && cont (snd uv)) (cuts n).
Proof.
  intros k cont. induction n as [|x n IH].
  - cbn. now rewrite !orb_false_r.
  - cbn [star_match]. rewrite cuts_cons. cbn [existsb fst snd forallb andb]. f_equal.
    rewrite IH. clear IH. induction (cuts n) as [|[u v] l IHl]; cbn [map existsb fst snd forallb].
    + now rewrite andb_false_r.
    + rewrite andb_orb_distrib_r, IHl, andb_assoc. reflexivity.
Qed.

Lemma existsb_ext : forall {X} (f g : X -> bool) l, (forall x, f x = g x) -> existsb f l = existsb g l.
Proof. intros X f g l H. induction l as [|x l IH]; cbn; [reflexivity|]. now rewrite H, IH. Qed.

Lemma forallb_ext' : forall {X} (f g : X -> bool) l, (forall x, f x = g x) -> forallb f l = forallb g l.
Proof. intros X f g l H. induction l as [|x l IH]; cbn; [reflexivity|]. now rewrite H, IH. Qed.

Lemma seq_items_match : forall n seq x, (length seq <= n)%nat ->
  existsb (setitem_match x) (seq_items seq) = in_seq x seq.
Proof.
  induction n as [|n IH]; intros seq x Hl.
  - destruct seq; [reflexivity|cbn in Hl; lia].
  - destruct seq as [|lo r1]; [reflexivity|]. cbn [length] in Hl.
    destruct r1 as [|d r2].
    + cbn. reflexivity.
    + destruct (d =? c_dash) eqn:Ed.
      * apply N.eqb_eq in Ed. subst d. destruct r2 as [|hi r].
        -- cbn. reflexivity.
        -- rewrite seq_items_range, in_seq_range. cbn [existsb setitem_match].
           rewrite IH by (cbn [length] in Hl; lia). reflexivity.
      * rewrite seq_items_lit, in_seq_lit by assumption. cbn [existsb setitem_match].
        rewrite IH by (cbn [length] in *; lia). reflexivity.
Qed.

Theorem match_items_gmatch : forall ts n, match_items (map tok_item ts) n = gmatch ts n.
Proof.
  induction ts as [|t r IH]; intros n.
  - reflexivity.
  - destruct t as [| | |neg seq|c]; cbn [map tok_item match_items gmatch].
    + rewrite star_cuts. apply existsb_ext. intros [u v]. cbn [fst snd]. rewrite IH. f_equal.
      unfold no_dot. apply forallb_ext'. intros x. cbn. now rewrite orb_false_r.
    + rewrite star_cuts. apply existsb_ext. intros [u v]. cbn [fst snd]. rewrite IH.
      replace (forallb (cls_match CAny) u) with true; [reflexivity|].
      induction u; cbn; auto.
    + destruct n as [|x n']; [reflexivity|]. cbn. apply IH.
    + destruct n as [|x n']; [reflexivity|]. cbn [cls_match].
      rewrite (seq_items_match (length seq) seq x) by lia. now rewrite IH.
    + destruct n as [|x n']; [reflexivity|]. cbn [cls_match]. now rewrite IH.
Qed.

(* ------------------------------------------------------------------ the main theorem *)
(* complete characterisation: an answer exactly when no range is inverted, re.error otherwise *)
Theorem qnmatch_characterised : forall p n,
  qnmatch n p = if wf_pattern p then Ok (matches p n) else Err BadRange.
Proof.
  intros p n. unfold qnmatch, compile_pattern, match_re.
  rewrite translate_render. cbn [bind].
  rewrite read_re_translated_gen by apply lex_fuel_valid.
  unfold wf_pattern, matches. destruct (forallb tok_wf (lex p)); [|reflexivity].
  cbn [bind]. now rewrite match_items_gmatch.
Qed.

Theorem qnmatch_meaning : forall p n,
  wf_pattern p = true -> qnmatch n p = Ok (matches p n).
Proof. intros p n H. rewrite qnmatch_characterised. now rewrite H. Qed.

Theorem qnmatch_inverted : forall p n,
  wf_pattern p = false -> qnmatch n p = Err BadRange.
Proof. intros p n H. rewrite qnmatch_characterised. now rewrite H. Qed.

(* ------------------------------------------------------------------ the boolean matcher of Spec.Glob is the relation *)
Lemma cuts_in : forall n u v, In (u, v) (cuts n) -> n = u ++ v.
Proof.
  intros n u v H. unfold cuts in H. apply in_map_iff in H. destruct H as (k & E & _).
  injection E as <- <-. symmetry. apply firstn_skipn.
Qed.

Lemma in_cuts : forall u v, In (u, v) (cuts (u ++ v)).
Proof.
  intros u v. unfold cuts. apply in_map_iff. exists (length u). split.
  - f_equal; [now apply firstn_app_len|now apply skipn_app_len].
  - apply List.in_seq. rewrite app_length. lia.
Qed.

Theorem gmatch_Matches : forall ts n, gmatch ts n = true <-> Matches ts n.
Proof.
  intros ts n. split.
  - revert n. induction ts as [|t r IH]; intros n H.
    + destruct n; [constructor|discriminate].
    + destruct t as [| | |neg seq|c]; cbn [gmatch] in H.
      * apply existsb_exists in H. destruct H as ([u v] & Hin & H). cbn [fst snd] in H.
        apply andb_prop in H. destruct H as [H1 H2]. rewrite (cuts_in n u v Hin). constructor; auto.
      * apply existsb_exists in H. destruct H as ([u v] & Hin & H). cbn [fst snd] in H.
        rewrite (cuts_in n u v Hin). constructor; auto.
      * destruct n as [|x n']; [discriminate|]. constructor; auto.
      * destruct n as [|x n']; [discriminate|]. apply andb_prop in H. destruct H as [H1 H2]. constructor; auto.
      * destruct n as [|x n']; [discriminate|]. apply andb_prop in H. destruct H as [H1 H2].
        apply N.eqb_eq in H1. subst x. constructor; auto.
  - induction 1 as [|r u v Hu Hm IH|r u v Hm IH|r x v Hm IH|r neg seq x v Hx Hm IH|r c v Hm IH]; cbn [gmatch].
    + reflexivity.
    + apply existsb_exists. exists (u, v). split; [apply in_cuts|]. cbn [fst snd]. now rewrite Hu, IH.
    + apply existsb_exists. exists (u, v). split; [apply in_cuts|]. exact IH.
    + exact IH.
    + now rewrite Hx, IH.
    + now rewrite N.eqb_refl, IH.
Qed.

(* ------------------------------------------------------------------ what the spec says on the manual's examples *)
Definition is_meta (c : N) : bool := (c =? g_star) || (c =? g_qm) || (c =? g_lbr).
Definition literal_text (p : text) : Prop := forall c, In c p -> is_meta c = false.

Lemma lex_fuel_lit_app : forall p q f, literal_text p -> (length (p ++ q) <= f)%nat ->
  lex_fuel f (p ++ q) = map GLit p ++ lex_fuel (f - length p) q.
Proof.
  induction p as [|c p IH]; intros q f Hl Hf.
  - cbn. now rewrite Nat.sub_0_r.
  - destruct f as [|f]; [cbn in Hf; lia|]. cbn [app lex_fuel map length Nat.sub].
    assert (Hc : is_meta c = false) by (apply Hl; now left). unfold is_meta in Hc.
    apply orb_false_elim in Hc. destruct Hc as [Hc H3]. apply orb_false_elim in Hc. destruct Hc as [H1 H2].
    rewrite H1, H2, H3. f_equal. apply IH; [intros x Hx; apply Hl; now right|cbn in Hf; lia].
Qed.

Lemma lex_lit_app : forall p q, literal_text p -> lex (p ++ q) = map GLit p ++ lex q.
Proof.
  intros p q Hl. unfold lex. rewrite lex_fuel_lit_app by (assumption || lia).
  rewrite app_length. now replace (length p + length q - length p)%nat with (length q) by lia.
Qed.

Lemma gmatch_lit_prefix : forall p ts n,
  gmatch (map GLit p ++ ts) n = true <-> exists v, n = p ++ v /\ gmatch ts v = true.
Proof.
  induction p as [|c p IH]; intros ts n; cbn [map app].
  - split; [intros H; now exists n|intros (v & -> & H); exact H].
  - cbn [gmatch]. destruct n as [|x n'].
    + split; [discriminate|intros (v & E & _); discriminate].
    + rewrite andb_true_iff, N.eqb_eq, IH. split.
      * intros (-> & v & -> & H). now exists v.
      * intros (v & E & H). injection E as -> ->. split; [reflexivity|now exists v].
Qed.

Lemma gmatch_nil : forall n, gmatch [] n = true <-> n = [].
Proof. intros [|x n]; cbn; split; intros H; try reflexivity; discriminate. Qed.

Lemma gmatch_star_only : forall n, gmatch [GStar] n = true <-> no_dot n = true.
Proof.
  intros n. rewrite gmatch_Matches. split.
  - intros H. inversion H as [|r u v Hu Hm| | | |]; subst. inversion Hm; subst. now rewrite app_nil_r.
  - intros H. rewrite <- (app_nil_r n). constructor; [assumption|constructor].
Qed.

Lemma gmatch_starstar_only : forall n, gmatch [GStarStar] n = true.
Proof. intros n. apply gmatch_Matches. rewrite <- (app_nil_r n). constructor. constructor. Qed.

(* a pattern without * ? [ matches its own text and nothing else: as a rule it is an exact rule *)
Theorem literal_pattern : forall p n, literal_text p -> (matches p n = true <-> n = p).
Proof.
  intros p n Hl. unfold matches. rewrite <- (app_nil_r p) at 1. rewrite lex_lit_app by assumption.
  change (lex []) with (@nil gtok). rewrite gmatch_lit_prefix. split.
  - intros (v & -> & H). apply gmatch_nil in H. subst v. now rewrite app_nil_r.
  - intros ->. exists []. split; [now rewrite app_nil_r|reflexivity].
Qed.

(* "twisted.test.*" : the names below twisted.test, one level *)
Theorem prefix_star_pattern : forall p n, literal_text p ->
  (matches (p ++ [g_star]) n = true <-> exists u, n = p ++ u /\ no_dot u = true).
Proof.
  intros p n Hl. unfold matches. rewrite lex_lit_app by assumption.
  change (lex [g_star]) with [GStar]. rewrite gmatch_lit_prefix.
  split; intros (u & E & H); exists u; (split; [assumption|]); now apply gmatch_star_only.
Qed.

(* "twisted.test.**" : everything below, any depth *)
Theorem prefix_starstar_pattern : forall p n, literal_text p ->
  (matches (p ++ [g_star; g_star]) n = true <-> exists u, n = p ++ u).
Proof.
  intros p n Hl. unfold matches. rewrite lex_lit_app by assumption.
  change (lex [g_star; g_star]) with [GStarStar]. rewrite gmatch_lit_prefix.
  split; [intros (u & E & _); now exists u|intros (u & E); exists u; split; [assumption|apply gmatch_starstar_only]].
Qed.

Lemma literal_wf : forall p, literal_text p -> wf_pattern p = true.
Proof.
  intros p Hl. unfold wf_pattern. rewrite <- (app_nil_r p). rewrite lex_lit_app by assumption.
  change (lex []) with (@nil gtok). rewrite app_nil_r. induction p as [|c p IH]; [reflexivity|].
  cbn. apply IH. intros x Hx. apply Hl. now right.
Qed.

Lemma forallb_lit : forall p, forallb tok_wf (map GLit p) = true.
Proof. induction p; cbn; auto. Qed.

Lemma literal_app_wf : forall p q, literal_text p -> wf_pattern (p ++ q) = wf_pattern q.
Proof.
  intros p q Hl. unfold wf_pattern. rewrite lex_lit_app by assumption.
  rewrite forallb_app, forallb_lit. reflexivity.
Qed.

Theorem qnmatch_literal : forall p n, literal_text p -> (qnmatch n p = Ok true <-> n = p).
Proof.
  intros p n Hl. rewrite qnmatch_meaning by now apply literal_wf.
  rewrite <- (literal_pattern p n Hl). split; [intros H; now injection H|intros ->; reflexivity].
Qed.

Theorem qnmatch_prefix_star : forall p n, literal_text p ->
  (qnmatch n (p ++ [g_star]) = Ok true <-> exists u, n = p ++ u /\ no_dot u = true).
Proof.
  intros p n Hl. rewrite qnmatch_meaning by (rewrite literal_app_wf by assumption; reflexivity).
  rewrite <- (prefix_star_pattern p n Hl). split; [intros H; now injection H|intros ->; reflexivity].
Qed.

Theorem qnmatch_prefix_starstar : forall p n, literal_text p ->
  (qnmatch n (p ++ [g_star; g_star]) = Ok true <-> exists u, n = p ++ u).
Proof.
  intros p n Hl. rewrite qnmatch_meaning by (rewrite literal_app_wf by assumption; reflexivity).
  rewrite <- (prefix_starstar_pattern p n Hl). split; [intros H; now injection H|intros ->; reflexivity].
Qed.
