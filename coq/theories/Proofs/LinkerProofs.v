(* Proofs/LinkerProofs.v -- name expansion on a state in which an object has been moved by a re-export:
   which references reach it (pure unfolding of Documentable.expandName / System.find_object / link_to). *)
From Coq Require Import ZArith NArith List Bool Lia.
From PydoctorVerif Require Import Base.Sexp Model.Project Model.Linker Proofs.ProjectBase.
Import ListNotations.
Local Open Scope N_scope.

Lemma local_to_full_module_alias s c cb a k :
  dfuel s <> 0%nat -> objs s c = Some cb -> is_module_tag (o_tag cb) = true ->
  nget a (o_contents cb) = None -> nget a (o_alias cb) = Some k -> local_to_full s c a = k.
Proof.
  intros Hf Hc Ht Hn Ha. unfold local_to_full. destruct (dfuel s) as [|f]; [congruence|].
  cbn [local_to_full_f]. rewrite Hc, Ht, Hn, Ha. reflexivity.
Qed.

(* a scope whose alias map sends a to the registered name k of an object: the name, a base class written a,
   and a link to a all reach that object (this is what `from R import n` gives once R.n is registered) *)
Lemma reach_by_alias s c cb a k xo :
  dfuel s <> 0%nat -> objs s c = Some cb -> is_module_tag (o_tag cb) = true ->
  nget a (o_contents cb) = None -> nget a (o_alias cb) = Some k -> pget k (allobjs s) = Some xo ->
  expand_name s c [a] = k /\ resolve_name s c [a] = Some xo /\ link_to s c [a] = Some xo.
Proof.
  intros Hf Hc Ht Hn Ha Hk.
  assert (E : expand_name s c [a] = k).
  { unfold expand_name. cbn [expand_loop]. rewrite (local_to_full_module_alias s c cb a k Hf Hc Ht Hn Ha).
    cbn [negb]. rewrite andb_false_r, Hk. reflexivity. }
  split; [exact E|]. unfold resolve_name, link_to. rewrite E. auto.
Qed.

(* a scope that knows module D under the alias d (`import D as d`): d.x goes through the alias that the move left
   in D and reaches the moved object *)
Lemma reach_by_module_alias s c cb d kD Dm db x k1 xo :
  dfuel s <> 0%nat -> objs s c = Some cb -> is_module_tag (o_tag cb) = true ->
  nget d (o_contents cb) = None -> nget d (o_alias cb) = Some kD -> pget kD (allobjs s) = Some Dm ->
  objs s Dm = Some db -> is_module_tag (o_tag db) = true ->
  nget x (o_contents db) = None -> nget x (o_alias db) = Some k1 -> k1 <> [x] -> pget k1 (allobjs s) = Some xo ->
  expand_name s c [d; x] = k1 /\ resolve_name s c [d; x] = Some xo /\ link_to s c [d; x] = Some xo.
Proof.
  intros Hf Hc Ht Hn Ha HkD HD HtD HnD HaD Hne Hk1.
  assert (E : expand_name s c [d; x] = k1).
  { unfold expand_name. cbn [expand_loop]. rewrite (local_to_full_module_alias s c cb d kD Hf Hc Ht Hn Ha).
    cbn [negb]. rewrite andb_false_r, HkD.
    rewrite (local_to_full_module_alias s Dm db x k1 Hf HD HtD HnD HaD). cbn [negb]. rewrite andb_true_r.
    rewrite (path_eqb_neq k1 [x] Hne), Hk1. reflexivity. }
  split; [exact E|]. unfold resolve_name, link_to. rewrite E. auto.
Qed.

(* System.find_object with the OLD qualified name h.x of an object moved out of the root module h *)
Lemma find_object_old_root s h Dm db x k1 xo :
  dfuel s <> 0%nat -> pget [h; x] (allobjs s) = None ->
  find (fun r => match objs s r with Some rb => N.eqb (o_name rb) h | None => false end) (roots s) = Some Dm ->
  objs s Dm = Some db -> is_module_tag (o_tag db) = true ->
  nget x (o_contents db) = None -> nget x (o_alias db) = Some k1 -> pget k1 (allobjs s) = Some xo ->
  find_object s [h; x] = (1, Some xo).
Proof.
  intros Hf Hold Hroot HD HtD HnD HaD Hk1. unfold find_object. rewrite Hold, Hroot.
  unfold expand_name. cbn [expand_loop]. rewrite (local_to_full_module_alias s Dm db x k1 Hf HD HtD HnD HaD).
  cbn [negb]. rewrite andb_false_r, Hk1. rewrite Hk1. reflexivity.
Qed.
