(* Proofs/SiteProofs.v -- lemmas about Model/Site.v against Spec/SiteSpec.v (C11, C12). *)
From Coq Require Import NArith List Bool Arith Lia.
From PydoctorVerif Require Import Base.Sexp Model.SiteTable Model.Site Spec.SiteSpec.
Import ListNotations.

(* ================================================================== visibility *)
Lemma get_valid : forall r i o, get r i = Some o -> valid r i.
Proof. intros r i o H. unfold get in H. apply nth_error_Some. congruence. Qed.

Lemma valid_get : forall r i, valid r i -> exists o, get r i = Some o.
Proof.
  intros r i H. unfold get. destruct (nth_error (r_objs r) i) eqn:E; [eauto|].
  apply nth_error_None in E. unfold valid in H. lia.
Qed.

Lemma parent_of_get : forall r i o, get r i = Some o -> parent_of r i = o_parent o.
Proof. intros r i o H. unfold parent_of. now rewrite H. Qed.
Lemma priv_of_get : forall r i o, get r i = Some o -> priv_of r i = eff_priv o.
Proof. intros r i o H. unfold priv_of. now rewrite H. Qed.

Lemma visible_f_total : forall r, wf r -> forall fuel i, i < fuel -> valid r i -> exists b, visible_f fuel r i = Some b.
Proof.
  intros r Hwf fuel. induction fuel as [|f IH]; intros i Hlt Hv; [lia|].
  destruct (valid_get r i Hv) as [o Ho]. cbn [visible_f]. rewrite Ho.
  destruct (is_hidden (eff_priv o)); [eauto|].
  destruct (o_parent o) as [p|] eqn:Hp; [|eauto].
  assert (Hpi : p < i) by (apply (wf_parent_lt r Hwf); rewrite (parent_of_get r i o Ho); exact Hp).
  apply IH; [lia|]. unfold valid in *. lia.
Qed.

Lemma is_hidden_spec : forall p, is_hidden p = true <-> p = HIDDEN.
Proof. destruct p; cbn; split; congruence. Qed.

Lemma visible_f_spec : forall r fuel i b, visible_f fuel r i = Some b -> (b = true <-> nothing_hidden_above r i).
Proof.
  intros r fuel. induction fuel as [|f IH]; intros i b H; [discriminate|].
  cbn [visible_f] in H. destruct (get r i) as [o|] eqn:Ho; [|discriminate].
  destruct (is_hidden (eff_priv o)) eqn:Hh.
  - inversion H; subst b. split; [discriminate|]. intros Hn. exfalso.
    apply (Hn i (aos_self r i)). rewrite (priv_of_get r i o Ho). now apply is_hidden_spec.
  - assert (Hnh : priv_of r i <> HIDDEN).
    { rewrite (priv_of_get r i o Ho). intros E. apply is_hidden_spec in E. congruence. }
    destruct (o_parent o) as [p|] eqn:Hp.
    + specialize (IH p b H). rewrite IH. split.
      * intros Hn a Ha. inversion Ha as [|a' o' p' Hpar Hanc]; subst; [exact Hnh|].
        rewrite (parent_of_get r i o Ho), Hp in Hpar. inversion Hpar; subst p'. now apply Hn.
      * intros Hn a Ha. apply Hn. apply aos_up with p; [|exact Ha]. now rewrite (parent_of_get r i o Ho).
    + inversion H; subst b. split; [|reflexivity]. intros _ a Ha.
      inversion Ha as [|a' o' p' Hpar Hanc]; subst; [exact Hnh|].
      rewrite (parent_of_get r i o Ho), Hp in Hpar. discriminate.
Qed.

(* C12_visibility_inherits *)
Theorem visibility_inherits : forall r i, wf r -> valid r i ->
  (exists b, visible_f (fuel_of r) r i = Some b) /\ (visible r i = true <-> nothing_hidden_above r i).
Proof.
  intros r i Hwf Hv.
  destruct (visible_f_total r Hwf (fuel_of r) i) as [b Hb]; [unfold fuel_of, valid in *; lia|exact Hv|].
  split; [eauto|]. unfold visible. rewrite Hb. exact (visible_f_spec r _ i b Hb).
Qed.

Lemma visible_valid : forall r i, visible r i = true -> valid r i.
Proof.
  intros r i H. unfold visible, fuel_of in H. cbn [visible_f] in H.
  destruct (get r i) as [o|] eqn:Ho; [exact (get_valid r i o Ho)|discriminate].
Qed.

Lemma visible_parent : forall r c p, wf r -> visible r c = true -> parent_of r c = Some p -> visible r p = true.
Proof.
  intros r c p Hwf Hc Hp.
  assert (Hvc := visible_valid r c Hc).
  assert (Hvp : valid r p). { pose proof (wf_parent_lt r Hwf c p Hp). unfold valid in *. lia. }
  apply (proj2 (visibility_inherits r c Hwf Hvc)) in Hc.
  apply (proj2 (visibility_inherits r p Hwf Hvp)).
  intros a Ha. apply Hc. now apply aos_up with p.
Qed.

Lemma hidden_not_visible : forall r i, priv_of r i = HIDDEN -> visible r i = false.
Proof.
  intros r i H. unfold visible, fuel_of. cbn [visible_f]. destruct (get r i) as [o|] eqn:Ho; [|reflexivity].
  rewrite (priv_of_get r i o Ho) in H. rewrite H. reflexivity.
Qed.

(* ================================================================== text and urls *)
Lemma starts_with_app : forall p s, starts_with p s = true -> s = p ++ skipn (length p) s.
Proof.
  induction p as [|x p IH]; intros s H; [reflexivity|].
  destruct s as [|y s]; cbn in H; [discriminate|].
  apply andb_prop in H. destruct H as [Hxy Hr]. apply N.eqb_eq in Hxy. subst y.
  cbn [length skipn app]. f_equal. now apply IH.
Qed.

Lemma split_hash_nohash : forall a, ~ In c_hash a -> split_hash a = (a, None).
Proof.
  induction a as [|c a IH]; intros H; [reflexivity|]. cbn [split_hash].
  destruct (N.eqb c c_hash) eqn:E; [apply N.eqb_eq in E; subst c; exfalso; apply H; now left|].
  rewrite IH; [reflexivity|]. intros Hin. apply H. now right.
Qed.

Lemma split_hash_app : forall a b, ~ In c_hash a -> split_hash (a ++ c_hash :: b) = (a, Some b).
Proof.
  induction a as [|c a IH]; intros b H.
  - cbn. reflexivity.
  - cbn [app split_hash]. destruct (N.eqb c c_hash) eqn:E; [apply N.eqb_eq in E; subst c; exfalso; apply H; now left|].
    rewrite IH; [reflexivity|]. intros Hin. apply H. now right.
Qed.

Lemma hash_unique : forall a1 b1 a2 b2,
  a1 ++ c_hash :: b1 = a2 ++ c_hash :: b2 -> ~ In c_hash a2 -> ~ In c_hash b2 -> a1 = a2 /\ b1 = b2.
Proof.
  induction a1 as [|x a1 IH]; intros b1 a2 b2 E Ha Hb.
  - destruct a2 as [|y a2]; cbn in E.
    + inversion E. auto.
    + inversion E; subst y. exfalso. apply Ha. now left.
  - destruct a2 as [|y a2]; cbn in E.
    + inversion E; subst x. exfalso. apply Hb. rewrite <- H1. apply in_or_app. right. now left.
    + inversion E; subst y. destruct (IH b1 a2 b2 H1) as [E1 E2]; [intros Hin; apply Ha; now right|exact Hb|].
      subst. auto.
Qed.

Section QuoteFacts.
Variable quote : text -> text.
Hypothesis quote_no_hash : forall t, ~ In c_hash (quote t).

Lemma page_url_no_hash : forall r p, ~ In c_hash (page_url quote r p).
Proof.
  intros r p. unfold page_url. destruct (single_root_is r (fullname r p)).
  - cbn. unfold c_hash. intuition discriminate.
  - intros H. apply in_app_or in H. destruct H as [H|H]; [exact (quote_no_hash _ H)|].
    cbn in H. unfold c_hash in H. intuition discriminate.
Qed.

Lemma page_url_nonempty : forall r p, page_url quote r p <> [].
Proof.
  intros r p. unfold page_url. destruct (single_root_is r (fullname r p)); [discriminate|].
  intros H. apply app_eq_nil in H. destruct H as [_ H]. discriminate.
Qed.

(* the two shapes of Documentable.url *)
Lemma url_shape : forall r o,
  url quote r o = [] \/
  (exists p, page_obj r o = Some p /\
     (url quote r o = page_url quote r p \/
      url quote r o = page_url quote r p ++ c_hash :: quote (name_of r o))).
Proof.
  intros r o. unfold url. destruct (page_obj r o) as [p|]; [|now left]. right. exists p. split; [reflexivity|].
  destruct (Nat.eqb p o); [now left|now right].
Qed.

Lemma resolve_page : forall cur a, ~ In c_hash a -> a <> [] -> resolve cur a = (a, None).
Proof. intros cur a H Hn. unfold resolve. rewrite split_hash_nohash by exact H. destruct a; [congruence|reflexivity]. Qed.

Lemma resolve_page_frag : forall cur a b, ~ In c_hash a -> a <> [] -> resolve cur (a ++ c_hash :: b) = (a, Some b).
Proof. intros cur a b H Hn. unfold resolve. rewrite split_hash_app by exact H. destruct a; [congruence|reflexivity]. Qed.

Lemma no_hash_no_prefix : forall ctx u, ~ In c_hash u -> starts_with (ctx ++ [c_hash]) u = false.
Proof.
  intros ctx u H. destruct (starts_with (ctx ++ [c_hash]) u) eqn:E; [|reflexivity].
  apply starts_with_app in E. exfalso. apply H. rewrite E. apply in_or_app. left. apply in_or_app. right. now left.
Qed.

(* C11_same_page_shortening *)
Theorem taglink_shortening : forall tbl r o ctx h,
  taglink quote tbl r o ctx = Some h ->
  resolve ctx h = resolve ctx (url quote r o) /\
  (forall h', h = c_hash :: h' ->
     exists p, page_obj r o = Some p /\ page_url quote r p = ctx /\ h' = quote (name_of r o)).
Proof.
  intros tbl r o ctx h H. unfold taglink in H.
  destruct (negb (visible r o) && t_taglink_drops_hidden tbl); [discriminate|].
  inversion H; subst h; clear H. unfold shorten.
  destruct (negb (is_nil ctx) && starts_with (ctx ++ [c_hash]) (url quote r o)) eqn:Hs.
  - (* shortened *)
    apply andb_prop in Hs. destruct Hs as [Hne Hp].
    destruct (url_shape r o) as [E|[p [Hpo [E|E]]]].
    + rewrite E in Hp. destruct ctx; cbn in Hp; [discriminate|discriminate].
    + rewrite E in Hp. rewrite no_hash_no_prefix in Hp by apply page_url_no_hash. discriminate.
    + pose proof (starts_with_app _ _ Hp) as Hu. rewrite app_length in Hu. cbn [length] in Hu.
      rewrite E in Hu at 1. rewrite <- app_assoc in Hu. cbn [app] in Hu.
      apply eq_sym in Hu. apply hash_unique in Hu; [|apply page_url_no_hash|apply quote_no_hash].
      destruct Hu as [Hc Hb].
      assert (Hsk : skipn (length ctx) (url quote r o) = c_hash :: quote (name_of r o)).
      { rewrite E. rewrite <- Hc. rewrite skipn_app. rewrite skipn_all. rewrite Nat.sub_diag. reflexivity. }
      rewrite Hsk. split.
      * rewrite E. rewrite resolve_page_frag by (apply page_url_no_hash || apply page_url_nonempty).
        unfold resolve. cbn [split_hash]. rewrite N.eqb_refl. cbn [is_nil]. now rewrite Hc.
      * intros h' Eh. inversion Eh; subst h'. exists p. repeat split; [exact Hpo|now symmetry].
  - split; [reflexivity|]. intros h' Eh.
    destruct (url_shape r o) as [E|[p [Hpo [E|E]]]].
    + rewrite E in Eh. discriminate.
    + exfalso. pose proof (page_url_no_hash r p) as Hn. pose proof (page_url_nonempty r p) as Hne.
      rewrite E in Eh. rewrite Eh in Hn. apply Hn. now left.
    + exfalso. pose proof (page_url_no_hash r p) as Hn. pose proof (page_url_nonempty r p) as Hne.
      rewrite E in Eh. destruct (page_url quote r p) as [|c t]; [congruence|]. cbn in Eh. inversion Eh; subst c.
      apply Hn. now left.
Qed.

End QuoteFacts.

(* ================================================================== the writer: which pages, which anchors *)
Lemma contents_child : forall r i c, wf r -> In c (contents_of r i) -> i < c /\ valid r c /\ parent_of r c = Some i.
Proof.
  intros r i c Hwf Hin. destruct (wf_contents r Hwf i c Hin) as [Hv Hp].
  repeat split; [exact (wf_parent_lt r Hwf c i Hp)|exact Hv|exact Hp].
Qed.

Lemma desc_visible_up : forall r i o, wf r -> desc r i o -> visible r o = true -> visible r i = true.
Proof.
  intros r i o Hwf Hd. induction Hd as [i|i c o Hin Hd IH]; intros Hv; [exact Hv|].
  apply (visible_parent r c i Hwf); [now apply IH|]. now apply (contents_child r i c Hwf Hin).
Qed.

Lemma desc_last : forall r i o, desc r i o -> i = o \/ exists p, desc r i p /\ In o (contents_of r p).
Proof.
  intros r i o Hd. induction Hd as [i|i c o Hin Hd IH]; [now left|]. right.
  destruct IH as [E|[p [Hp Hop]]].
  - subst c. exists i. split; [apply desc_refl|exact Hin].
  - exists p. split; [now apply desc_step with c|exact Hop].
Qed.

Lemma desc_trans_child : forall r i p o, desc r i p -> In o (contents_of r p) -> desc r i o.
Proof.
  intros r i p o Hd. induction Hd as [i|i c p Hin Hd IH]; intros Ho.
  - apply desc_step with o; [exact Ho|apply desc_refl].
  - apply desc_step with c; [exact Hin|now apply IH].
Qed.

Lemma written_f_iff : forall tbl r, wf r -> l_visible (t_writer tbl) = true ->
  forall fuel i, length (r_objs r) - i < fuel ->
  forall o, In o (written_f fuel tbl r i) <-> (own_page r o = true /\ visible r o = true /\ desc r i o).
Proof.
  intros tbl r Hwf Hw fuel. induction fuel as [|f IH]; intros i Hf o; [lia|].
  cbn [written_f]. rewrite Hw. cbn [negb orb].
  destruct (visible r i) eqn:Hvi.
  - split.
    + intros Hin. apply in_app_or in Hin. destruct Hin as [Hin|Hin].
      * destruct (own_page r i) eqn:Hoi; [|contradiction]. destruct Hin as [E|[]]. subst o.
        repeat split; [exact Hoi|exact Hvi|apply desc_refl].
      * apply in_flat_map in Hin. destruct Hin as [c [Hc Hin]].
        destruct (contents_child r i c Hwf Hc) as [Hlt [Hvc _]].
        apply IH in Hin; [|unfold valid in Hvc; lia].
        destruct Hin as [Ho [Hv Hd]]. repeat split; [exact Ho|exact Hv|now apply desc_step with c].
    + intros [Ho [Hv Hd]]. apply in_or_app. inversion Hd as [i'|i' c o' Hc Hd']; subst.
      * left. rewrite Ho. now left.
      * right. apply in_flat_map. exists c. split; [exact Hc|].
        destruct (contents_child r i c Hwf Hc) as [Hlt [Hvc _]].
        apply IH; [unfold valid in Hvc; lia|]. repeat split; assumption.
  - split; [contradiction|]. intros [_ [Hv Hd]]. rewrite (desc_visible_up r i o Hwf Hd Hv) in Hvi. discriminate.
Qed.

(* C11_pages_for_visible_ownpage *)
Theorem written_iff : forall tbl r, wf r -> l_visible (t_writer tbl) = true ->
  forall o, In o (written tbl r) <-> (own_page r o = true /\ visible r o = true /\ reachable r o).
Proof.
  intros tbl r Hwf Hw o. unfold written. rewrite in_flat_map. split.
  - intros [root [Hr Hin]]. apply (written_f_iff tbl r Hwf Hw) in Hin; [|unfold fuel_of; lia].
    destruct Hin as [Ho [Hv Hd]]. repeat split; [exact Ho|exact Hv|]. exists root. auto.
  - intros [Ho [Hv [root [Hr Hd]]]]. exists root. split; [exact Hr|].
    apply (written_f_iff tbl r Hwf Hw); [unfold fuel_of; lia|]. repeat split; assumption.
Qed.

Lemma written_file : forall quote tbl r o, In o (written tbl r) -> In (url quote r o) (site_files quote tbl r).
Proof. intros quote tbl r o H. unfold site_files. apply in_or_app. left. now apply in_map. Qed.

Lemma keep_visible_only : forall l r i, l_nospace l = false -> visible r i = true -> keep l r i = true.
Proof. intros l r i Hn Hv. unfold keep, keep_gen. rewrite Hv, Hn. now rewrite orb_true_r. Qed.

Lemma keep_gen_visible : forall l r i nm, l_visible l = true -> keep_gen l r i nm = true -> visible r i = true.
Proof. intros l r i nm Hl H. unfold keep_gen in H. rewrite Hl in H. cbn in H. now apply andb_prop in H. Qed.
Lemma keep_visible : forall l r i, l_visible l = true -> keep l r i = true -> visible r i = true.
Proof. intros l r i. apply keep_gen_visible. Qed.

(* a visible member that is reachable sits in the contents of a written page object *)
Lemma member_parent_written : forall tbl r o, wf r -> l_visible (t_writer tbl) = true ->
  own_page r o = false -> visible r o = true -> reachable r o ->
  exists p, parent_of r o = Some p /\ In p (written tbl r) /\ In o (contents_of r p).
Proof.
  intros tbl r o Hwf Hw Ho Hv [root [Hr Hd]].
  destruct (desc_last r root o Hd) as [E|[p [Hdp Hop]]].
  - subst root. destruct (wf_roots r Hwf o Hr) as [_ [_ Hown]]. congruence.
  - destruct (contents_child r p o Hwf Hop) as [_ [_ Hpar]].
    exists p. repeat split; [exact Hpar| |exact Hop].
    apply (written_iff tbl r Hwf Hw). repeat split.
    + exact (wf_parent_own r Hwf o p Hpar).
    + exact (visible_parent r o p Hwf Hv Hpar).
    + exists root. auto.
Qed.

Lemma methods_in : forall tbl r p o,
  l_nospace (t_methods tbl) = false -> l_nospace (t_pkg_methods tbl) = false ->
  In o (contents_of r p) -> own_page r o = false -> visible r o = true -> In o (methods_of tbl r p).
Proof.
  intros tbl r p o H1 H2 Hin Ho Hv. unfold methods_of. apply filter_In. split; [exact Hin|].
  rewrite Ho. cbn [negb andb]. destruct (kind_of r p); apply keep_visible_only; assumption.
Qed.

(* C11_anchors_for_visible_members *)
Theorem member_anchors : forall quote tbl r o, wf r -> l_visible (t_writer tbl) = true ->
  l_nospace (t_methods tbl) = false -> l_nospace (t_pkg_methods tbl) = false ->
  own_page r o = false -> visible r o = true -> reachable r o ->
  exists p, parent_of r o = Some p /\ In (url quote r p) (site_files quote tbl r) /\
            In (url quote r p, name_of r o) (site_anchors quote tbl r) /\
            In (url quote r p, fullname r o) (site_anchors quote tbl r).
Proof.
  intros quote tbl r o Hwf Hw H1 H2 Ho Hv Hr.
  destruct (member_parent_written tbl r o Hwf Hw Ho Hv Hr) as [p [Hpar [Hpw Hop]]].
  exists p. split; [exact Hpar|]. split; [now apply written_file|].
  assert (Hm := methods_in tbl r p o H1 H2 Hop Ho Hv).
  unfold site_anchors. split; apply in_or_app; left; apply in_flat_map; exists p; (split; [exact Hpw|]);
    apply in_flat_map; exists o; (split; [exact Hm|]); cbn; auto.
Qed.

(* the address Documentable.url gives a visible, reachable object is a written file and an existing anchor *)
Section Live.
Variable quote : text -> text.
Hypothesis quote_no_hash : forall t, ~ In c_hash (quote t).

Lemma own_url : forall r o, valid r o -> own_page r o = true -> page_obj r o = Some o /\ url quote r o = page_url quote r o.
Proof.
  intros r o Hv Ho. destruct (valid_get r o Hv) as [x Hx]. unfold url, page_obj, own_page, kind_of in *. rewrite Hx in *.
  rewrite Ho. rewrite Nat.eqb_refl. auto.
Qed.

Lemma member_url : forall r o p, wf r -> valid r o -> own_page r o = false -> parent_of r o = Some p -> valid r p -> own_page r p = true ->
  url quote r o = url quote r p ++ c_hash :: quote (name_of r o).
Proof.
  intros r o p Hwf Hv Ho Hp Hvp Hop. destruct (valid_get r o Hv) as [x Hx].
  destruct (own_url r p Hvp Hop) as [_ Eu]. rewrite Eu.
  unfold url, page_obj, own_page, kind_of, parent_of in *. rewrite Hx in *. rewrite Ho. rewrite Hp.
  pose proof (wf_parent_lt r Hwf o p) as Hlt. unfold parent_of in Hlt. rewrite Hx in Hlt. specialize (Hlt Hp).
  destruct (Nat.eqb_spec p o); [lia|reflexivity].
Qed.

Theorem url_live : forall tbl r o cur, wf r -> l_visible (t_writer tbl) = true ->
  l_nospace (t_methods tbl) = false -> l_nospace (t_pkg_methods tbl) = false ->
  visible r o = true -> reachable r o -> live_at quote tbl r cur (url quote r o).
Proof.
  intros tbl r o cur Hwf Hw H1 H2 Hv Hr. pose proof (visible_valid r o Hv) as Hvo.
  destruct (own_page r o) eqn:Ho.
  - destruct (own_url r o Hvo Ho) as [_ Eu]. unfold live_at.
    rewrite Eu. rewrite resolve_page by (apply page_url_no_hash || apply page_url_nonempty; exact quote_no_hash).
    cbn [fst snd]. split; [|discriminate]. rewrite <- Eu. apply written_file.
    apply (written_iff tbl r Hwf Hw). auto.
  - destruct (member_anchors quote tbl r o Hwf Hw H1 H2 Ho Hv Hr) as [p [Hpar [Hf [Ha _]]]].
    destruct (member_parent_written tbl r o Hwf Hw Ho Hv Hr) as [p' [Hpar' [Hpw _]]].
    rewrite Hpar in Hpar'. inversion Hpar'; subst p'.
    apply (written_iff tbl r Hwf Hw) in Hpw. destruct Hpw as [Hop [Hvp _]].
    pose proof (visible_valid r p Hvp) as Hvalp.
    rewrite (member_url r o p Hwf Hvo Ho Hpar Hvalp Hop).
    destruct (own_url r p Hvalp Hop) as [_ Eu]. unfold live_at.
    rewrite Eu. rewrite resolve_page_frag by (apply page_url_no_hash || apply page_url_nonempty; exact quote_no_hash).
    cbn [fst snd]. rewrite <- Eu. split; [exact Hf|]. intros a Ea. inversion Ea; subst a.
    exists (name_of r o). split; [exact Ha|now right].
Qed.

End Live.

(* ================================================================== the listing skeleton *)
Lemma table_ok_facts : forall t, table_ok t = true ->
  l_visible (t_children t) = true /\ l_visible (t_methods t) = true /\ l_visible (t_pkg_children t) = true /\
  l_visible (t_pkg_init t) = true /\ l_visible (t_pkg_methods t) = true /\ l_visible (t_table_rows t) = true /\
  l_visible (t_unmasked t) = true /\ l_visible (t_sidebar_inherited t) = true /\ l_visible (t_sidebar_direct t) = true /\
  l_visible (t_modsummary_sub t) = true /\ l_visible (t_rootclasses t) = true /\ l_visible (t_subclasses_from t) = true /\
  l_visible (t_nameindex t) = true /\ l_visible (t_undocced t) = true /\ l_visible (t_alldocs t) = true /\
  l_visible (t_corpus t) = true /\ l_visible (t_inventory t) = true /\ l_visible (t_writer t) = true /\
  l_visible (t_assemble t) = true /\ l_visible (t_overriding t) = true /\
  l_visible (t_modindex_roots t) = true /\ l_visible (t_index_roots t) = true.
Proof.
  intros t H. unfold table_ok in H.
  unfold listings_of in H. cbn [forallb] in H. unfold producer_ok in H. cbn [fst snd] in H.
  repeat (apply andb_prop in H; let H1 := fresh "H" in destruct H as [H1 H]; apply andb_prop in H1; destruct H1 as [H1 _]).
  repeat split; assumption.
Qed.

Lemma markers_ok_facts : forall t, markers_ok t = true ->
  t_css_private t = true /\ t_sidebar_private t = true /\ t_modsummary_private t = true /\
  t_search_privacy t = true /\ t_row_uses_css t = true /\ t_child_uses_css t = true.
Proof.
  intros t H. unfold markers_ok in H. repeat (apply andb_prop in H; destruct H as [H ?]). repeat split; assumption.
Qed.

Lemma private_is_private : forall r o, priv_of r o = PRIVATE -> is_private r o = true /\ is_private_class (priv_of r o) = true.
Proof. intros r o H. unfold is_private. rewrite H. auto. Qed.

(* what every entry of the site satisfies *)
Definition entry_inv (quote : text -> text) (tbl : table) (r : registry) (e : entry) : Prop :=
  (wf r -> table_ok tbl = true -> listing_prod (e_prod e) = true -> visible r (e_obj e) = true) /\
  (wf r -> table_ok tbl = true ->
     e_ctx e = e_page e \/ own_page r (e_obj e) = true \/ raw_prod (e_prod e) = true \/ e_ctx e = [] \/ e_prod e = P_xref) /\
  (markers_ok tbl = true -> marked_prod (e_prod e) = true -> priv_of r (e_obj e) = PRIVATE -> e_private e = true) /\
  (wf r -> table_ok tbl = true -> contents_prod (e_prod e) = true -> reachable r (e_obj e)).

Ltac leaf := unfold entry_inv; cbn [e_page e_prod e_obj e_ctx e_private mk].
Ltac nolisting := let H := fresh in intros _ _ H; vm_compute in H; discriminate H.
Ltac nomarked := let H := fresh in intros _ H; vm_compute in H; discriminate H.
Ltac nocontents := let H := fresh in intros _ _ H; vm_compute in H; discriminate H.

Section Entries.
Variable quote : text -> text.
Variable tbl : table.
Variable r : registry.

Lemma inv_plain : forall pg prod o, listing_prod prod = false -> marked_prod prod = false -> contents_prod prod = false ->
  entry_inv quote tbl r (mk pg prod pg false o).
Proof.
  intros pg prod o Hl Hm Hc. leaf. split; [|split; [|split]].
  - intros _ _ H. congruence.
  - intros _ _. now left.
  - intros _ H. congruence.
  - intros _ _ H. congruence.
Qed.

Lemma inv_vis : forall pg prod o, marked_prod prod = false -> contents_prod prod = false ->
  (wf r -> table_ok tbl = true -> visible r o = true) -> entry_inv quote tbl r (mk pg prod pg false o).
Proof.
  intros pg prod o Hm Hc Hv. leaf. split; [|split; [|split]].
  - intros Hwf Ht _. now apply Hv.
  - intros _ _. now left.
  - intros _ H. congruence.
  - intros _ _ H. congruence.
Qed.

Lemma inv_row : forall pg prod c,
  (table_ok tbl = true -> visible r c = true) ->
  (wf r -> table_ok tbl = true -> contents_prod prod = true -> reachable r c) ->
  entry_inv quote tbl r (mk pg prod pg (t_row_uses_css tbl && css_private tbl r c) c).
Proof.
  intros pg prod c Hv Hreach. leaf. split; [|split; [|split]].
  - intros _ Ht _. now apply Hv.
  - intros _ _. now left.
  - intros Hm _ Hp. destruct (markers_ok_facts tbl Hm) as [H1 [_ [_ [_ [H5 _]]]]].
    destruct (private_is_private r c Hp) as [_ H]. unfold css_private. now rewrite H1, H5, H.
  - exact Hreach.
Qed.

Lemma reachable_child : forall p c, reachable r p -> In c (contents_of r p) -> reachable r c.
Proof. intros p c [root [Hr Hd]] Hc. exists root. split; [exact Hr|]. exact (desc_trans_child r root p c Hd Hc). Qed.

Lemma reachable_parent : forall c q, wf r -> reachable r c -> parent_of r c = Some q -> reachable r q.
Proof.
  intros c q Hwf [root [Hr Hd]] Hp. destruct (desc_last r root c Hd) as [E|[p' [Hd' Hc]]].
  - subst root. destruct (wf_roots r Hwf c Hr) as [_ [Hn _]]. congruence.
  - destruct (wf_contents r Hwf p' c Hc) as [_ Hp']. rewrite Hp in Hp'. inversion Hp'; subst p'. exists root. auto.
Qed.

Lemma obj_content_inv : forall fuel depth level pg s e,
  (wf r -> table_ok tbl = true -> reachable r s) ->
  In e (obj_content fuel tbl r depth level pg pg s) -> entry_inv quote tbl r e.
Proof.
  induction fuel as [|f IH]; intros depth level pg s e Hrs Hin; [contradiction|].
  cbn [obj_content] in Hin. apply in_app_or in Hin.
  destruct Hin as [Hin|Hin].
  - apply in_flat_map in Hin. destruct Hin as [c [Hc Hin]]. apply filter_In in Hc. destruct Hc as [Hcs Hk].
    assert (Hrc : wf r -> table_ok tbl = true -> reachable r c).
    { intros Hwf Ht. exact (reachable_child s c (Hrs Hwf Ht) Hcs). }
    destruct Hin as [E|Hin].
    + subst e. leaf. split; [|split; [|split]].
      * intros _ Ht _. destruct (table_ok_facts tbl Ht) as [_ [_ [_ [_ [_ [_ [_ [_ [H9 _]]]]]]]]].
        exact (keep_visible _ r c H9 Hk).
      * intros _ _. now left.
      * intros Hm _ Hp. destruct (markers_ok_facts tbl Hm) as [_ [H2 _]].
        destruct (private_is_private r c Hp) as [H _]. now rewrite H2, H.
      * intros Hwf Ht _. exact (Hrc Hwf Ht).
    + destruct (own_page r c && Nat.ltb (S level) depth); [|contradiction]. exact (IH _ _ _ _ _ Hrc Hin).
  - destruct (is_class_kind (kind_of r s)); [|contradiction].
    apply in_map_iff in Hin. destruct Hin as [c [E Hc]]. subst e. apply filter_In in Hc. destruct Hc as [_ Hk].
    apply andb_prop in Hk. destruct Hk as [_ Hk].
    leaf. split; [|split; [|split]]; [| | |nocontents].
    + intros _ Ht _. destruct (table_ok_facts tbl Ht) as [_ [_ [_ [_ [_ [_ [_ [H8 _]]]]]]]].
      exact (keep_visible _ r c H8 Hk).
    + intros _ _. now left.
    + intros Hm _ Hp. destruct (markers_ok_facts tbl Hm) as [_ [H2 _]].
      destruct (private_is_private r c Hp) as [H _]. now rewrite H2, H.
Qed.

Lemma methods_visible : forall p c, table_ok tbl = true -> In c (methods_of tbl r p) -> visible r c = true.
Proof.
  intros p c Ht Hin. destruct (table_ok_facts tbl Ht) as [_ [H2 [_ [_ [H5 _]]]]].
  unfold methods_of in Hin. apply filter_In in Hin. destruct Hin as [_ Hk]. apply andb_prop in Hk. destruct Hk as [_ Hk].
  destruct (kind_of r p); first [exact (keep_visible _ r c H5 Hk) | exact (keep_visible _ r c H2 Hk)].
Qed.

Lemma page_entries_inv : forall depth ns p e, In p (written tbl r) ->
  In e (page_entries quote tbl r depth ns p) -> entry_inv quote tbl r e.
Proof.
  intros depth ns p e Hp Hin. unfold page_entries in Hin.
  assert (Hrows : forall l c, In c (rows_of tbl r l) -> table_ok tbl = true -> visible r c = true).
  { intros l c Hc Ht. destruct (table_ok_facts tbl Ht) as [_ [_ [_ [_ [_ [H6 _]]]]]].
    unfold rows_of in Hc. apply filter_In in Hc. exact (keep_visible _ r c H6 (proj2 Hc)). }
  assert (Hpw : wf r -> table_ok tbl = true -> own_page r p = true /\ visible r p = true).
  { intros Hwf Ht. destruct (table_ok_facts tbl Ht) as [_ [_ [_ [_ [_ [_ [_ [_ [_ [_ [_ [_ [_ [_ [_ [_ [_ [H18 _]]]]]]]]]]]]]]]]]].
    apply (written_iff tbl r Hwf H18) in Hp. tauto. }
  assert (Hreachp : wf r -> table_ok tbl = true -> reachable r p).
  { intros Hwf Ht. destruct (table_ok_facts tbl Ht) as [_ [_ [_ [_ [_ [_ [_ [_ [_ [_ [_ [_ [_ [_ [_ [_ [_ [H18 _]]]]]]]]]]]]]]]]]].
    apply (written_iff tbl r Hwf H18) in Hp. tauto. }
  repeat (apply in_app_or in Hin; destruct Hin as [Hin|Hin]).
  - (* heading *) apply in_map_iff in Hin. destruct Hin as [a [E _]]. subst e. now apply inv_plain.
  - (* sidebar *) destruct ns; [contradiction|]. apply in_app_or in Hin. destruct Hin as [Hin|Hin].
    + apply in_map_iff in Hin. destruct Hin as [s [E Hs]]. subst e. leaf. split; [|split; [|split]]; [nolisting| |nomarked|nocontents].
      intros Hwf Ht. right. left. destruct Hs as [E|Hs]; [subst s; exact (proj1 (Hpw Hwf Ht))|].
      destruct (is_module_kind (kind_of r p)).
      * destruct (parent_of r p) as [q|] eqn:Hq; [|contradiction]. destruct Hs as [E|[]]. subst s.
        exact (wf_parent_own r Hwf p q Hq).
      * destruct (module_of r p) as [q|] eqn:Hq; [|contradiction]. destruct Hs as [E|[]]. subst s.
        exact (wf_module_own r Hwf p q Hq).
    + apply in_flat_map in Hin. destruct Hin as [s [Hs Hin]]. apply (obj_content_inv (S depth) depth 0 (url quote r p) s e); [|exact Hin].
      intros Hwf Ht. destruct Hs as [E|Hs]; [subst s; exact (Hreachp Hwf Ht)|].
      destruct (is_module_kind (kind_of r p)).
      * destruct (parent_of r p) as [q|] eqn:Hq; [|contradiction]. destruct Hs as [E|[]]. subst s.
        exact (reachable_parent p q Hwf (Hreachp Hwf Ht) Hq).
      * destruct (module_of r p) as [q|] eqn:Hq; [|contradiction]. destruct Hs as [E|[]]. subst s.
        exact (wf_module_reach r Hwf p q Hq).
  - (* main table *) apply in_map_iff in Hin. destruct Hin as [c [E Hc]]. subst e. apply inv_row; [eauto|].
    intros Hwf Ht _. apply (reachable_child p c); [exact (Hreachp Hwf Ht)|].
    unfold rows_of in Hc. apply filter_In in Hc. destruct Hc as [Hc _]. unfold children_of in Hc.
    destruct (kind_of r p); apply filter_In in Hc; exact (proj1 Hc).
  - (* package init table *) apply in_map_iff in Hin. destruct Hin as [c [E Hc]]. subst e. apply inv_row; [eauto|].
    intros Hwf Ht _. apply (reachable_child p c); [exact (Hreachp Hwf Ht)|].
    unfold rows_of in Hc. apply filter_In in Hc. destruct Hc as [Hc _]. unfold pkg_init_of in Hc.
    destruct (kind_of r p); try contradiction. apply filter_In in Hc. exact (proj1 Hc).
  - (* base tables *) apply in_flat_map in Hin. destruct Hin as [x [_ Hin]].
    apply in_map_iff in Hin. destruct Hin as [c [E Hc]]. subst e. apply inv_row; [eauto|nocontents].
  - (* base names *) apply in_flat_map in Hin. destruct Hin as [x [_ Hin]].
    apply in_map_iff in Hin. destruct Hin as [c [E Hc]]. subst e. now apply inv_plain.
  - (* member details *) apply in_map_iff in Hin. destruct Hin as [c [E Hc]]. subst e. leaf. split; [|split; [|split]]; [| | |nocontents].
    + intros _ Ht _. exact (methods_visible p c Ht Hc).
    + intros _ _. right. right. left. reflexivity.
    + intros Hm _ Hpr. destruct (markers_ok_facts tbl Hm) as [H1 [_ [_ [_ [_ H6]]]]].
      destruct (private_is_private r c Hpr) as [_ H]. unfold css_private. now rewrite H1, H6, H.
  - (* class extras *) destruct (is_class_kind (kind_of r p)); [|contradiction].
    repeat (apply in_app_or in Hin; destruct Hin as [Hin|Hin]).
    + apply in_map_iff in Hin. destruct Hin as [c [E Hc]]. subst e. apply inv_vis; [reflexivity|reflexivity|].
      intros _ Ht. destruct (table_ok_facts tbl Ht) as [_ [_ [_ [_ [_ [_ [_ [_ [_ [_ [_ [_ [_ [_ [_ [_ [_ [_ [H19 _]]]]]]]]]]]]]]]]]]].
      apply filter_In in Hc. exact (keep_visible _ r c H19 (proj2 Hc)).
    + apply in_map_iff in Hin. destruct Hin as [c [E Hc]]. subst e. now apply inv_plain.
    + apply in_flat_map in Hin. destruct Hin as [m [_ Hin]]. apply in_map_iff in Hin. destruct Hin as [c [E Hc]]. subst e.
      now apply inv_plain.
    + apply in_flat_map in Hin. destruct Hin as [m [_ Hin]]. apply in_map_iff in Hin. destruct Hin as [c [E Hc]]. subst e.
      apply inv_vis; [reflexivity|reflexivity|].
      intros _ Ht. destruct (table_ok_facts tbl Ht) as [_ [_ [_ [_ [_ [_ [_ [_ [_ [_ [_ [_ [_ [_ [_ [_ [_ [_ [H19 _]]]]]]]]]]]]]]]]]]].
      apply filter_In in Hc. exact (keep_visible _ r c H19 (proj2 Hc)).
    + destruct Hin as [E|[]]. subst e. leaf. split; [|split; [|split]]; [| |nomarked|nocontents].
      * intros Hwf Ht _. exact (proj2 (Hpw Hwf Ht)).
      * intros _ _. now left.
Qed.

Lemma module_summary_inv : forall fuel m e,
  (table_ok tbl = true -> visible r m = true) -> reachable r m ->
  In e (module_summary quote fuel tbl r m) -> entry_inv quote tbl r e.
Proof.
  induction fuel as [|f IH]; intros m e Hm Hreach Hin; [contradiction|].
  cbn [module_summary] in Hin. destruct Hin as [E|Hin].
  - subst e. leaf. split; [|split; [|split]].
    + intros _ Ht _. now apply Hm.
    + intros _ _. now left.
    + intros Hmk _ Hp. destruct (markers_ok_facts tbl Hmk) as [_ [_ [H3 _]]].
      destruct (private_is_private r m Hp) as [H _]. now rewrite H3, H.
    + intros _ _ _. exact Hreach.
  - destruct (kind_of r m); try contradiction.
    assert (Hsub : forall c, In c (submodules_of tbl r m) ->
              (table_ok tbl = true -> visible r c = true) /\ reachable r c /\ own_page r c = true).
    { intros c Hc. unfold submodules_of in Hc. apply filter_In in Hc. destruct Hc as [Hcm Hk].
      apply andb_prop in Hk. destruct Hk as [Hmk Hk]. split; [|split].
      - intros Ht. destruct (table_ok_facts tbl Ht) as [_ [_ [_ [_ [_ [_ [_ [_ [_ [H10 _]]]]]]]]]].
        exact (keep_visible _ r c H10 Hk).
      - exact (reachable_child m c Hreach Hcm).
      - unfold own_page. destruct (kind_of r c); try discriminate; reflexivity. }
    destruct (compact_listing tbl r (submodules_of tbl r m)).
    + apply in_map_iff in Hin. destruct Hin as [c [E Hc]]. subst e. destruct (Hsub c Hc) as [Hv [Hr Ho]].
      leaf. split; [|split; [|split]].
      * intros _ Ht _. now apply Hv.
      * intros _ _. right. now left.
      * intros Hmk _ Hp. destruct (markers_ok_facts tbl Hmk) as [_ [_ [H3 _]]].
        destruct (private_is_private r c Hp) as [H _]. now rewrite H3, H.
      * intros _ _ _. exact Hr.
    + apply in_flat_map in Hin. destruct Hin as [c [Hc Hin]]. destruct (Hsub c Hc) as [Hv [Hr _]].
      exact (IH c e Hv Hr Hin).
Qed.

Lemma subclasses_from_visible : forall fuel c x, table_ok tbl = true -> visible r c = true ->
  In x (subclasses_from fuel tbl r c) -> visible r x = true.
Proof.
  induction fuel as [|f IH]; intros c x Ht Hc Hin; [contradiction|].
  cbn [subclasses_from] in Hin. destruct Hin as [E|Hin]; [now subst x|].
  apply in_flat_map in Hin. destruct Hin as [s [Hs Hin]]. apply (IH s x Ht); [|exact Hin].
  destruct (table_ok_facts tbl Ht) as [_ [_ [_ [_ [_ [_ [_ [_ [_ [_ [_ [H12 _]]]]]]]]]]]].
  apply filter_In in Hs. exact (keep_gen_visible _ r s _ H12 (proj2 Hs)).
Qed.

Lemma inventory_visible : forall fuel i x, table_ok tbl = true -> In x (inventory_f fuel tbl r i) -> visible r x = true.
Proof.
  induction fuel as [|f IH]; intros i x Ht Hin; [contradiction|].
  cbn [inventory_f] in Hin. destruct (keep (t_inventory tbl) r i) eqn:Hk; [|contradiction].
  destruct (table_ok_facts tbl Ht) as [_ [_ [_ [_ [_ [_ [_ [_ [_ [_ [_ [_ [_ [_ [_ [_ [H17 _]]]]]]]]]]]]]]]]].
  destruct Hin as [E|Hin]; [subst x; exact (keep_visible _ r i H17 Hk)|].
  apply in_flat_map in Hin. destruct Hin as [c [_ Hin]]. exact (IH c x Ht Hin).
Qed.

Lemma inv_raw : forall pg prod priv o, raw_prod prod = true ->
  (table_ok tbl = true -> visible r o = true) ->
  (markers_ok tbl = true -> marked_prod prod = true -> priv_of r o = PRIVATE -> priv = true) ->
  (contents_prod prod = true -> reachable r o) ->
  entry_inv quote tbl r (mk pg prod [] priv o).
Proof.
  intros pg prod priv o Hraw Hv Hm Hc. leaf. split; [|split; [|split]].
  - intros _ Ht _. now apply Hv.
  - intros _ _. right. right. left. exact Hraw.
  - exact Hm.
  - intros _ _. exact Hc.
Qed.

Lemma inventory_desc : forall fuel i x, In x (inventory_f fuel tbl r i) -> desc r i x.
Proof.
  induction fuel as [|f IH]; intros i x Hin; [contradiction|].
  cbn [inventory_f] in Hin. destruct (keep (t_inventory tbl) r i); [|contradiction].
  destruct Hin as [E|Hin]; [subst x; apply desc_refl|].
  apply in_flat_map in Hin. destruct Hin as [c [Hc Hin]]. apply desc_step with c; [exact Hc|exact (IH c x Hin)].
Qed.

Lemma summary_entries_inv : forall e, In e (summary_entries quote tbl r) -> entry_inv quote tbl r e.
Proof.
  intros e Hin. unfold summary_entries in Hin.
  repeat (apply in_app_or in Hin; destruct Hin as [Hin|Hin]).
  - (* moduleIndex *) apply in_flat_map in Hin. destruct Hin as [m [Hm Hin]]. apply filter_In in Hm. destruct Hm as [Hroot Hk].
    apply (module_summary_inv (fuel_of r) m e); [| |exact Hin].
    + intros Ht. destruct (table_ok_facts tbl Ht) as [_ [_ [_ [_ [_ [_ [_ [_ [_ [_ [_ [_ [_ [_ [_ [_ [_ [_ [_ [_ [H21 _]]]]]]]]]]]]]]]]]]]]].
      exact (keep_visible _ r m H21 Hk).
    + exists m. split; [exact Hroot|apply desc_refl].
  - (* classIndex *) apply in_map_iff in Hin. destruct Hin as [c [E Hc]]. subst e. apply inv_vis; [reflexivity|reflexivity|].
    intros _ Ht. unfold class_index in Hc. apply in_flat_map in Hc. destruct Hc as [root [Hroot Hc]].
    apply (subclasses_from_visible (fuel_of r) root c Ht); [|exact Hc].
    destruct (table_ok_facts tbl Ht) as [_ [_ [_ [_ [_ [_ [_ [_ [_ [_ [H11 _]]]]]]]]]]].
    apply filter_In in Hroot. destruct Hroot as [_ Hk]. unfold is_root_class in Hk.
    apply andb_prop in Hk. destruct Hk as [Hk _]. apply andb_prop in Hk. exact (keep_visible _ r root H11 (proj2 Hk)).
  - (* nameIndex *) apply in_map_iff in Hin. destruct Hin as [o [E Ho]]. subst e. leaf. split; [|split; [|split]]; [| |nomarked|nocontents].
    + intros _ Ht _. destruct (table_ok_facts tbl Ht) as [_ [_ [_ [_ [_ [_ [_ [_ [_ [_ [_ [_ [H13 _]]]]]]]]]]]]].
      apply filter_In in Ho. exact (keep_visible _ r o H13 (proj2 Ho)).
    + intros _ _. now left.
  - (* undoccedSummary *) apply in_map_iff in Hin. destruct Hin as [o [E Ho]]. subst e. apply inv_vis; [reflexivity|reflexivity|].
    intros _ Ht. destruct (table_ok_facts tbl Ht) as [_ [_ [_ [_ [_ [_ [_ [_ [_ [_ [_ [_ [_ [H14 _]]]]]]]]]]]]]].
    apply filter_In in Ho. destruct Ho as [_ Hk]. apply andb_prop in Hk. exact (keep_visible _ r o H14 (proj1 Hk)).
  - (* index.html roots *) destruct (multi_root r); [|contradiction].
    apply in_map_iff in Hin. destruct Hin as [o [E Ho]]. subst e. apply filter_In in Ho. destruct Ho as [Hroot Hk].
    leaf. split; [|split; [|split]]; [| |nomarked|].
    + intros _ Ht _. destruct (table_ok_facts tbl Ht) as [_ [_ [_ [_ [_ [_ [_ [_ [_ [_ [_ [_ [_ [_ [_ [_ [_ [_ [_ [_ [_ H22]]]]]]]]]]]]]]]]]]]]].
      exact (keep_visible _ r o H22 Hk).
    + intros _ _. now left.
    + intros _ _ _. exists o. split; [exact Hroot|apply desc_refl].
  - (* all-documents *) apply in_map_iff in Hin. destruct Hin as [o [E Ho]]. subst e. leaf. split; [|split; [|split]]; [| | |nocontents].
    + intros _ Ht _. destruct (table_ok_facts tbl Ht) as [_ [_ [_ [_ [_ [_ [_ [_ [_ [_ [_ [_ [_ [_ [H15 _]]]]]]]]]]]]]]].
      apply filter_In in Ho. exact (keep_visible _ r o H15 (proj2 Ho)).
    + intros _ _. right. right. left. reflexivity.
    + intros Hm _ Hp. destruct (markers_ok_facts tbl Hm) as [_ [_ [_ [H4 _]]]].
      destruct (private_is_private r o Hp) as [_ H]. now rewrite H4, H.
  - (* search corpus *) apply in_map_iff in Hin. destruct Hin as [o [E Ho]]. subst e.
    apply inv_raw; [reflexivity| |nomarked|intros H; vm_compute in H; discriminate H].
    intros Ht. destruct (table_ok_facts tbl Ht) as [_ [_ [_ [_ [_ [_ [_ [_ [_ [_ [_ [_ [_ [_ [_ [H16 _]]]]]]]]]]]]]]]].
    apply filter_In in Ho. exact (keep_visible _ r o H16 (proj2 Ho)).
  - (* inventory *) apply in_map_iff in Hin. destruct Hin as [o [E Ho]]. subst e.
    apply in_flat_map in Ho. destruct Ho as [root [Hroot Ho]].
    apply inv_raw; [reflexivity| |nomarked|].
    + intros Ht. exact (inventory_visible _ root o Ht Ho).
    + intros _. exists root. split; [exact Hroot|exact (inventory_desc _ root o Ho)].
Qed.

(* cross references: not listings; the context of a docstring link is the page of the docstring's source *)
Lemma inv_xref : forall pg ctx o, entry_inv quote tbl r (mk pg P_xref ctx false o).
Proof.
  intros pg ctx o. leaf. split; [|split; [|split]]; [nolisting| |nomarked|nocontents].
  intros _ _. right. right. right. right. reflexivity.
Qed.
Lemma inv_xref_summary : forall pg o, entry_inv quote tbl r (mk pg P_xref_summary [] false o).
Proof.
  intros pg o. leaf. split; [|split; [|split]]; [nolisting| |nomarked|nocontents].
  intros _ _. right. right. right. left. reflexivity.
Qed.

Lemma xref_entries_inv : forall p e, In e (xref_entries quote tbl r p) -> entry_inv quote tbl r e.
Proof.
  intros p e Hin. unfold xref_entries in Hin. apply in_app_or in Hin. destruct Hin as [Hin|Hin];
    apply in_flat_map in Hin; destruct Hin as [i [_ Hin]]; apply in_map_iff in Hin; destruct Hin as [t [E _]]; subst e.
  - apply inv_xref.
  - apply inv_xref_summary.
Qed.

Lemma summary_xref_entries_inv : forall e, In e (summary_xref_entries quote tbl r) -> entry_inv quote tbl r e.
Proof.
  intros e Hin. unfold summary_xref_entries in Hin. apply in_app_or in Hin. destruct Hin as [Hin|Hin];
    apply in_flat_map in Hin; destruct Hin as [x [_ Hin]].
  - destruct (text_eqb (e_ctx x) f_moduleIndex); [|contradiction].
    apply in_map_iff in Hin. destruct Hin as [t [E _]]. subst e. apply inv_xref_summary.
  - apply in_map_iff in Hin. destruct Hin as [t [E _]]. subst e. apply inv_xref_summary.
Qed.

Theorem site_entries_inv : forall depth ns e, In e (site_entries quote tbl r depth ns) -> entry_inv quote tbl r e.
Proof.
  intros depth ns e Hin. unfold site_entries in Hin. apply in_app_or in Hin. destruct Hin as [Hin|Hin].
  - apply in_app_or in Hin. destruct Hin as [Hin|Hin].
    + apply in_flat_map in Hin. destruct Hin as [p [Hp Hin]]. exact (page_entries_inv depth ns p e Hp Hin).
    + exact (summary_entries_inv e Hin).
  - apply in_app_or in Hin. destruct Hin as [Hin|Hin].
    + apply in_flat_map in Hin. destruct Hin as [p [_ Hin]]. exact (xref_entries_inv p e Hin).
    + exact (summary_xref_entries_inv e Hin).
Qed.

End Entries.

(* ================================================================== consequences *)
Section Consequences.
Variable quote : text -> text.
Variable tbl : table.
Variable r : registry.

(* C12: no entry of a listing producer is for an object that is not visible *)
Theorem entries_visible : forall depth ns e, wf r -> table_ok tbl = true ->
  In e (site_entries quote tbl r depth ns) -> listing_prod (e_prod e) = true -> visible r (e_obj e) = true.
Proof.
  intros depth ns e Hwf Ht Hin Hl. destruct (site_entries_inv quote tbl r depth ns e Hin) as [H _]. auto.
Qed.

(* C12: every listing entry of a PRIVATE object carries the marker *)
Theorem private_marked : forall depth ns e, markers_ok tbl = true ->
  In e (site_entries quote tbl r depth ns) -> marked_prod (e_prod e) = true ->
  priv_of r (e_obj e) = PRIVATE -> e_private e = true.
Proof.
  intros depth ns e Hm Hin Hmk Hp. destruct (site_entries_inv quote tbl r depth ns e Hin) as [_ [_ [H _]]]. auto.
Qed.

Lemma raw_false : forall p, raw_prod p = false ->
  N.eqb p P_hierarchy = false /\ N.eqb p P_childlist = false /\ N.eqb p P_alldocs = false /\
  N.eqb p P_corpus = false /\ N.eqb p P_inventory = false.
Proof.
  intros p H. unfold raw_prod in H. cbn [existsb] in H. repeat (apply orb_false_elim in H; destruct H as [? H]). auto.
Qed.

Lemma link_of_taglink : forall e, raw_prod (e_prod e) = false -> link_of quote tbl r e = taglink quote tbl r (e_obj e) (e_ctx e).
Proof.
  intros e H. destruct (raw_false _ H) as [H1 [H2 [H3 [H4 H5]]]]. unfold link_of. now rewrite H1, H2, H3, H4, H5.
Qed.

Lemma taglink_visible : forall o ctx h, t_taglink_drops_hidden tbl = true -> taglink quote tbl r o ctx = Some h -> visible r o = true.
Proof.
  intros o ctx h Hf H. unfold taglink in H. rewrite Hf in H. destruct (visible r o); [reflexivity|discriminate].
Qed.

(* C12: now that taglink drops the href of a hidden target, no link of the site targets an object that is not visible *)
Theorem no_link_targets_hidden : forall depth ns e h, wf r -> table_ok tbl = true ->
  t_taglink_drops_hidden tbl = true ->
  In e (site_entries quote tbl r depth ns) -> link_of quote tbl r e = Some h -> visible r (e_obj e) = true.
Proof.
  intros depth ns e h Hwf Ht Hf Hin Hl.
  destruct (raw_prod (e_prod e)) eqn:Hraw.
  - unfold raw_prod in Hraw. cbn [existsb] in Hraw.
    assert (Hcase : e_prod e = P_hierarchy \/ e_prod e = P_childlist \/ e_prod e = P_alldocs \/ e_prod e = P_corpus \/ e_prod e = P_inventory).
    { repeat (apply orb_prop in Hraw; destruct Hraw as [Hraw|Hraw]; [apply N.eqb_eq in Hraw; tauto|]). discriminate. }
    destruct Hcase as [E|[E|[E|[E|E]]]];
      (apply (entries_visible depth ns e Hwf Ht); [exact Hin|rewrite E; reflexivity]).
  - rewrite (link_of_taglink e Hraw) in Hl. exact (taglink_visible _ _ _ Hf Hl).
Qed.

Hypothesis quote_no_hash : forall t, ~ In c_hash (quote t).

Lemma own_url_no_hash : forall o, valid r o -> own_page r o = true -> ~ In c_hash (url quote r o).
Proof. intros o Hv Ho. destruct (own_url quote r o Hv Ho) as [_ E]. rewrite E. now apply page_url_no_hash. Qed.

(* the core: a link of the site whose target is reachable through contents is live on the page it is rendered on *)
Lemma link_live_of_reachable : forall depth ns e h, wf r -> table_ok tbl = true ->
  t_taglink_drops_hidden tbl = true -> l_nospace (t_methods tbl) = false -> l_nospace (t_pkg_methods tbl) = false ->
  In e (site_entries quote tbl r depth ns) -> reachable r (e_obj e) ->
  N.eqb (e_prod e) P_hierarchy = false -> N.eqb (e_prod e) P_childlist = false ->
  (e_prod e = P_xref -> e_ctx e = e_page e \/ own_page r (e_obj e) = true) ->
  link_of quote tbl r e = Some h -> live_at quote tbl r (e_page e) h.
Proof.
  intros depth ns e h Hwf Ht Hf Hn1 Hn2 Hin Hreach Hh Hc Hx Hl.
  destruct (table_ok_facts tbl Ht) as [_ [_ [_ [_ [_ [_ [_ [_ [_ [_ [_ [_ [_ [_ [_ [_ [_ [H18 _]]]]]]]]]]]]]]]]]].
  pose proof (no_link_targets_hidden depth ns e h Hwf Ht Hf Hin Hl) as Hv.
  pose proof (visible_valid r _ Hv) as Hval.
  pose proof (url_live quote quote_no_hash tbl r (e_obj e) (e_page e) Hwf H18 Hn1 Hn2 Hv Hreach) as Hlive.
  destruct (raw_prod (e_prod e)) eqn:Hraw.
  - (* url fields *)
    unfold link_of in Hl. rewrite Hh, Hc in Hl.
    destruct (N.eqb (e_prod e) P_alldocs || N.eqb (e_prod e) P_inventory) eqn:E.
    + inversion Hl; subst h. exact Hlive.
    + destruct (N.eqb (e_prod e) P_corpus) eqn:E2; [discriminate|].
      unfold raw_prod in Hraw. cbn [existsb] in Hraw. apply orb_false_elim in E. destruct E as [E3 E4].
      rewrite Hh, Hc, E3, E2, E4 in Hraw. discriminate.
  - rewrite (link_of_taglink e Hraw) in Hl.
    destruct (taglink_shortening quote quote_no_hash tbl r _ _ _ Hl) as [Hres _].
    destruct (site_entries_inv quote tbl r depth ns e Hin) as [_ [H2 _]].
    assert (Hctx : e_ctx e = e_page e \/ own_page r (e_obj e) = true \/ e_ctx e = []).
    { destruct (H2 Hwf Ht) as [Ec|[Eo|[Er|[E0|Ex]]]]; [auto|auto|congruence|auto|].
      destruct (Hx Ex) as [Ec|Eo]; auto. }
    destruct Hctx as [Ec|[Eo|E0]].
    + unfold live_at in *. rewrite <- Ec. rewrite Hres. rewrite Ec. exact Hlive.
    + (* an own-page target is never shortened *)
      unfold taglink in Hl. destruct (negb (visible r (e_obj e)) && t_taglink_drops_hidden tbl); [discriminate|].
      inversion Hl; subst h. unfold shorten.
      rewrite (no_hash_no_prefix (e_ctx e) _ (own_url_no_hash _ Hval Eo)). rewrite andb_false_r. exact Hlive.
    + (* page_url = '': never shortened *)
      unfold taglink in Hl. destruct (negb (visible r (e_obj e)) && t_taglink_drops_hidden tbl); [discriminate|].
      inversion Hl; subst h. unfold shorten. rewrite E0. cbn [is_nil negb andb]. exact Hlive.
Qed.

(* C11: member tables (own and package __init__), moduleIndex.html, the root list of index.html and objects.inv pick
   their targets from the contents of written pages / from the roots: their links are live, unconditionally *)
Theorem links_live_contents : forall depth ns e h, wf r -> table_ok tbl = true ->
  t_taglink_drops_hidden tbl = true -> l_nospace (t_methods tbl) = false -> l_nospace (t_pkg_methods tbl) = false ->
  In e (site_entries quote tbl r depth ns) -> contents_prod (e_prod e) = true ->
  link_of quote tbl r e = Some h -> live_at quote tbl r (e_page e) h.
Proof.
  intros depth ns e h Hwf Ht Hf Hn1 Hn2 Hin Hc Hl.
  destruct (site_entries_inv quote tbl r depth ns e Hin) as [_ [_ [_ H4]]].
  apply (link_live_of_reachable depth ns e h Hwf Ht Hf Hn1 Hn2 Hin (H4 Hwf Ht Hc)); [| | |exact Hl];
    unfold contents_prod in Hc; cbn [existsb] in Hc;
    repeat (apply orb_prop in Hc; destruct Hc as [Hc|Hc];
            [apply N.eqb_eq in Hc; rewrite Hc; first [reflexivity | intros Hx; discriminate Hx]|]); discriminate.
Qed.

(* C11 (guarded): when nothing registered is left unreachable (no superseded duplicates, no collision leftovers), every
   link built by taglink and every url field of all-documents.html / objects.inv leads to a written file and, with a
   fragment, to an anchor of that file -- resolved against the page the link is rendered on. *)
Theorem links_live_guarded : forall depth ns e h, wf r -> table_ok tbl = true ->
  t_taglink_drops_hidden tbl = true -> l_nospace (t_methods tbl) = false -> l_nospace (t_pkg_methods tbl) = false ->
  all_reachable r ->
  In e (site_entries quote tbl r depth ns) ->
  N.eqb (e_prod e) P_hierarchy = false -> N.eqb (e_prod e) P_childlist = false ->
  (e_prod e = P_xref -> e_ctx e = e_page e \/ own_page r (e_obj e) = true) ->
  link_of quote tbl r e = Some h -> live_at quote tbl r (e_page e) h.
Proof.
  intros depth ns e h Hwf Ht Hf Hn1 Hn2 Hall Hin Hh Hc Hx Hl.
  pose proof (no_link_targets_hidden depth ns e h Hwf Ht Hf Hin Hl) as Hv.
  exact (link_live_of_reachable depth ns e h Hwf Ht Hf Hn1 Hn2 Hin (Hall _ (visible_valid r _ Hv)) Hh Hc Hx Hl).
Qed.

End Consequences.

(* ================================================================== classIndex.html: every visible class has its anchor *)
Section Hierarchy.
Variable tbl : table.
Variable r : registry.

(* c is listed by ClassIndexPage at depth d below a root class *)
Inductive hier : nat -> nat -> Prop :=
| hier_root : forall c, In c (r_all r) -> is_root_class tbl r c = true -> hier 0 c
| hier_sub : forall d b c, hier d b -> In c (subclasses_of r b) ->
               keep_gen (t_subclasses_from tbl) r c (fullname r c) = true -> hier (S d) c.

Lemma hier_in_index : forall d c, hier d c ->
  exists root, In root (filter (is_root_class tbl r) (r_all r)) /\
               forall fuel, d < fuel -> In c (subclasses_from fuel tbl r root).
Proof.
  intros d c H. induction H as [c Hall Hroot|d b c Hb IH Hsub Hk].
  - exists c. split; [apply filter_In; auto|]. intros fuel Hf. destruct fuel as [|f]; [lia|]. cbn [subclasses_from]. now left.
  - destruct IH as [root [Hroot Hin]]. exists root. split; [exact Hroot|]. intros fuel Hf.
    destruct fuel as [|f]; [lia|]. assert (Hb' := Hin f ltac:(lia)). clear Hin.
    revert Hb'. generalize root. clear Hroot root. revert f Hf.
    (* c follows b wherever b is listed with one unit of fuel to spare *)
    assert (Hgen : forall f x, In b (subclasses_from f tbl r x) -> In c (subclasses_from (S f) tbl r x)).
    { induction f as [|f IHf]; intros x Hx; [contradiction|]. cbn [subclasses_from] in Hx. destruct Hx as [E|Hx].
      - subst x. cbn [subclasses_from]. right. apply in_flat_map. exists c. split; [apply filter_In; auto|].
        cbn [subclasses_from]. now left.
      - apply in_flat_map in Hx. destruct Hx as [y [Hy Hx]]. specialize (IHf y Hx).
        change (In c (x :: flat_map (subclasses_from (S f) tbl r)
                       (filter (fun s => keep_gen (t_subclasses_from tbl) r s (fullname r s)) (subclasses_of r x)))).
        right. apply in_flat_map. exists y. split; [exact Hy|exact IHf]. }
    intros f Hf root Hb'. exact (Hgen f root Hb').
Qed.

Variable rank : nat -> nat.
Hypothesis Hwc : wf_classes r rank.

Lemma class_hier : forall n c, rank c < n -> valid r c -> is_class_kind (kind_of r c) = true -> visible r c = true ->
  (forall a, base_star r a c -> plain_name r a) -> exists d, d <= rank c /\ hier d c.
Proof.
  induction n as [|n IH]; intros c Hn Hv Hk Hvis Hplain; [lia|].
  destruct (Hplain c (bs_refl r c)) as [Hname Hfull].
  assert (Hkeep : keep (t_rootclasses tbl) r c = true).
  { unfold keep, keep_gen. rewrite Hvis, Hname. cbn. now rewrite !orb_true_r. }
  destruct (is_nil (bases_of r c) || existsb (base_outside r) (bases_of r c)) eqn:Hroot.
  - exists 0. split; [lia|]. apply hier_root; [exact (wc_registered r rank Hwc c Hv Hk)|].
    unfold is_root_class. now rewrite Hk, Hkeep, Hroot.
  - apply orb_false_elim in Hroot. destruct Hroot as [Hnil Hout].
    destruct (bases_of r c) as [|b0 rest] eqn:Hb; [discriminate|].
    assert (Hin0 : In b0 (bases_of r c)) by (rewrite Hb; now left).
    assert (Hb0 : base_outside r b0 = false).
    { destruct (base_outside r b0) eqn:E; [|reflexivity].
      assert (existsb (base_outside r) (b0 :: rest) = true) by (apply existsb_exists; exists b0; split; [now left|exact E]).
      congruence. }
    destruct b0 as [b|]; [|discriminate]. cbn [base_outside] in Hb0. apply negb_false_iff in Hb0.
    destruct (wc_subclass r rank Hwc c b Hin0) as [Hsub Hkb].
    pose proof (wc_rank r rank Hwc c b Hin0) as Hrk.
    destruct (IH b ltac:(lia) (visible_valid r b Hb0) Hkb Hb0) as [d [Hd Hh]].
    { intros a Ha. apply Hplain. now apply bs_step with b. }
    exists (S d). split; [lia|]. apply hier_sub with b; [exact Hh|exact Hsub|].
    unfold keep_gen. rewrite Hvis, Hfull. cbn. now rewrite !orb_true_r.
Qed.

(* every visible class whose own and inherited names are plain is listed in classIndex.html, with its anchor *)
Theorem class_in_index : forall quote c, valid r c -> is_class_kind (kind_of r c) = true -> visible r c = true ->
  (forall a, base_star r a c -> plain_name r a) ->
  In c (class_index tbl r) /\ In (f_classIndex, fullname r c) (site_anchors quote tbl r).
Proof.
  intros quote c Hv Hk Hvis Hplain.
  destruct (class_hier (S (rank c)) c ltac:(lia) Hv Hk Hvis Hplain) as [d [Hd Hh]].
  destruct (hier_in_index d c Hh) as [root [Hroot Hin]].
  assert (Hci : In c (class_index tbl r)).
  { unfold class_index. apply in_flat_map. exists root. split; [exact Hroot|]. apply Hin.
    pose proof (wc_rank_bound r rank Hwc c). unfold fuel_of. lia. }
  split; [exact Hci|]. unfold site_anchors. apply in_or_app. right.
  apply in_map_iff. exists c. auto.
Qed.

End Hierarchy.

(* ================================================================== where the raw links come from *)
Section Origin.
Variable quote : text -> text.
Variable tbl : table.
Variable r : registry.

Lemma obj_content_prod : forall fuel depth level pg ctx s e, In e (obj_content fuel tbl r depth level pg ctx s) ->
  e_prod e = P_sidebar_item \/ e_prod e = P_sidebar_inherited.
Proof.
  induction fuel as [|f IH]; intros depth level pg ctx s e Hin; [contradiction|].
  cbn [obj_content] in Hin. apply in_app_or in Hin. destruct Hin as [Hin|Hin].
  - apply in_flat_map in Hin. destruct Hin as [c [_ Hin]]. destruct Hin as [E|Hin]; [subst e; now left|].
    destruct (own_page r c && Nat.ltb (S level) depth); [|contradiction]. exact (IH _ _ _ _ _ _ Hin).
  - destruct (is_class_kind (kind_of r s)); [|contradiction].
    apply in_map_iff in Hin. destruct Hin as [c [E _]]. subst e. now right.
Qed.

Lemma module_summary_prod : forall fuel m e, In e (module_summary quote fuel tbl r m) -> e_prod e = P_module_index.
Proof.
  induction fuel as [|f IH]; intros m e Hin; [contradiction|]. cbn [module_summary] in Hin.
  destruct Hin as [E|Hin]; [now subst e|]. destruct (kind_of r m); try contradiction.
  destruct (compact_listing tbl r (submodules_of tbl r m)).
  - apply in_map_iff in Hin. destruct Hin as [c [E _]]. now subst e.
  - apply in_flat_map in Hin. destruct Hin as [c [_ Hin]]. exact (IH c e Hin).
Qed.

Ltac other Hp := match goal with
  | [ H : In _ (map _ _) |- _ ] => apply in_map_iff in H; let c := fresh "c" in let E := fresh "E" in
                                   destruct H as [c [E _]]; subst; cbn in Hp; discriminate Hp
  end.

(* an entry of producer p0 in {member details, View In Hierarchy} comes from a written page *)
Lemma raw_origin : forall depth ns e, In e (site_entries quote tbl r depth ns) ->
  (e_prod e = P_childlist -> exists p, In p (written tbl r) /\ e_page e = url quote r p /\ In (e_obj e) (methods_of tbl r p)) /\
  (e_prod e = P_hierarchy -> In (e_obj e) (written tbl r) /\ is_class_kind (kind_of r (e_obj e)) = true /\
                            e_page e = url quote r (e_obj e)).
Proof.
  intros depth ns e Hin.
  assert (Hgoal : forall p0, (p0 = P_childlist \/ p0 = P_hierarchy) -> e_prod e = p0 ->
            (p0 = P_childlist -> exists p, In p (written tbl r) /\ e_page e = url quote r p /\ In (e_obj e) (methods_of tbl r p)) /\
            (p0 = P_hierarchy -> In (e_obj e) (written tbl r) /\ is_class_kind (kind_of r (e_obj e)) = true /\
                                 e_page e = url quote r (e_obj e))).
  { intros p0 Hp0 Hp. unfold site_entries in Hin. apply in_app_or in Hin. destruct Hin as [Hin|Hin];
      [apply in_app_or in Hin; destruct Hin as [Hin|Hin]|].
    3: { exfalso. apply in_app_or in Hin. destruct Hin as [Hin|Hin].
         - apply in_flat_map in Hin. destruct Hin as [p [_ Hin]]. unfold xref_entries in Hin.
           apply in_app_or in Hin. destruct Hin as [Hin|Hin]; apply in_flat_map in Hin; destruct Hin as [i [_ Hin]];
             destruct Hp0 as [Hp0|Hp0]; rewrite Hp0 in Hp; other Hp.
         - unfold summary_xref_entries in Hin. apply in_app_or in Hin.
           destruct Hin as [Hin|Hin]; apply in_flat_map in Hin; destruct Hin as [x [_ Hin]].
           + destruct (text_eqb (e_ctx x) f_moduleIndex); [|contradiction]. destruct Hp0 as [Hp0|Hp0]; rewrite Hp0 in Hp; other Hp.
           + destruct Hp0 as [Hp0|Hp0]; rewrite Hp0 in Hp; other Hp. }
    - apply in_flat_map in Hin. destruct Hin as [p [Hpw Hin]]. unfold page_entries in Hin.
      repeat (apply in_app_or in Hin; destruct Hin as [Hin|Hin]).
      + exfalso. destruct Hp0 as [Hp0|Hp0]; rewrite Hp0 in Hp; other Hp.
      + exfalso. destruct ns; [contradiction|]. apply in_app_or in Hin. destruct Hin as [Hin|Hin].
        * destruct Hp0 as [Hp0|Hp0]; rewrite Hp0 in Hp; other Hp.
        * apply in_flat_map in Hin. destruct Hin as [s [_ Hin]]. apply obj_content_prod in Hin.
          destruct Hp0 as [Hp0|Hp0]; rewrite Hp0 in Hp; destruct Hin as [E|E]; rewrite E in Hp; discriminate Hp.
      + exfalso. destruct Hp0 as [Hp0|Hp0]; rewrite Hp0 in Hp; other Hp.
      + exfalso. destruct Hp0 as [Hp0|Hp0]; rewrite Hp0 in Hp; other Hp.
      + exfalso. apply in_flat_map in Hin. destruct Hin as [x [_ Hin]]. destruct Hp0 as [Hp0|Hp0]; rewrite Hp0 in Hp; other Hp.
      + exfalso. apply in_flat_map in Hin. destruct Hin as [x [_ Hin]]. destruct Hp0 as [Hp0|Hp0]; rewrite Hp0 in Hp; other Hp.
      + apply in_map_iff in Hin. destruct Hin as [c [E Hc]]. subst e. cbn in Hp. cbn [e_page e_obj mk].
        split; [intros _; exists p; auto|]. intros E. rewrite E in Hp. discriminate Hp.
      + destruct (is_class_kind (kind_of r p)) eqn:Hk; [|contradiction].
        repeat (apply in_app_or in Hin; destruct Hin as [Hin|Hin]).
        * exfalso. destruct Hp0 as [Hp0|Hp0]; rewrite Hp0 in Hp; other Hp.
        * exfalso. destruct Hp0 as [Hp0|Hp0]; rewrite Hp0 in Hp; other Hp.
        * exfalso. apply in_flat_map in Hin. destruct Hin as [x [_ Hin]]. destruct Hp0 as [Hp0|Hp0]; rewrite Hp0 in Hp; other Hp.
        * exfalso. apply in_flat_map in Hin. destruct Hin as [x [_ Hin]]. destruct Hp0 as [Hp0|Hp0]; rewrite Hp0 in Hp; other Hp.
        * destruct Hin as [E|[]]. subst e. cbn in Hp. cbn [e_page e_obj mk].
          split; [intros E; rewrite E in Hp; discriminate Hp|]. intros _. auto.
    - exfalso. unfold summary_entries in Hin. repeat (apply in_app_or in Hin; destruct Hin as [Hin|Hin]).
      + apply in_flat_map in Hin. destruct Hin as [m [_ Hin]]. apply module_summary_prod in Hin.
        destruct Hp0 as [Hp0|Hp0]; rewrite Hp0 in Hp; rewrite Hin in Hp; discriminate Hp.
      + destruct Hp0 as [Hp0|Hp0]; rewrite Hp0 in Hp; other Hp.
      + destruct Hp0 as [Hp0|Hp0]; rewrite Hp0 in Hp; other Hp.
      + destruct Hp0 as [Hp0|Hp0]; rewrite Hp0 in Hp; other Hp.
      + destruct (multi_root r); [|contradiction]. destruct Hp0 as [Hp0|Hp0]; rewrite Hp0 in Hp; other Hp.
      + destruct Hp0 as [Hp0|Hp0]; rewrite Hp0 in Hp; other Hp.
      + destruct Hp0 as [Hp0|Hp0]; rewrite Hp0 in Hp; other Hp.
      + destruct Hp0 as [Hp0|Hp0]; rewrite Hp0 in Hp; other Hp. }
  split; intros Hp.
  - exact (proj1 (Hgoal P_childlist (or_introl eq_refl) Hp) eq_refl).
  - exact (proj2 (Hgoal P_hierarchy (or_intror eq_refl) Hp) eq_refl).
Qed.

(* the member self-links `#name` (headerLink of function-child.html / attribute-child.html) are live *)
Theorem selflink_live : forall depth ns e h, In e (site_entries quote tbl r depth ns) -> e_prod e = P_childlist ->
  link_of quote tbl r e = Some h -> live_at quote tbl r (e_page e) h.
Proof.
  intros depth ns e h Hin Hp Hl. destruct (proj1 (raw_origin depth ns e Hin) Hp) as [p [Hpw [Epg Hm]]].
  unfold link_of in Hl. rewrite Hp in Hl. cbn in Hl. inversion Hl; subst h. clear Hl.
  unfold live_at, resolve. cbn [split_hash]. rewrite N.eqb_refl. cbn [is_nil fst snd]. rewrite Epg. split.
  - now apply written_file.
  - intros a Ea. inversion Ea; subst a. exists (name_of r (e_obj e)). split; [|now left].
    unfold site_anchors. apply in_or_app. left. apply in_flat_map. exists p. split; [exact Hpw|].
    apply in_flat_map. exists (e_obj e). split; [exact Hm|]. cbn. auto.
Qed.

Lemma f_classIndex_no_hash : ~ In c_hash f_classIndex.
Proof. cbn. unfold c_hash. intuition discriminate. Qed.

(* "View In Hierarchy": classIndex.html#<fullName> is live for every class page whose names are plain *)
Theorem hierarchy_live : forall rank depth ns e h, wf r -> table_ok tbl = true -> wf_classes r rank ->
  In e (site_entries quote tbl r depth ns) -> e_prod e = P_hierarchy ->
  (forall a, base_star r a (e_obj e) -> plain_name r a) ->
  link_of quote tbl r e = Some h -> live_at quote tbl r (e_page e) h.
Proof.
  intros rank depth ns e h Hwf Ht Hwc Hin Hp Hplain Hl.
  destruct (proj2 (raw_origin depth ns e Hin) Hp) as [Hpw [Hk _]].
  destruct (table_ok_facts tbl Ht) as [_ [_ [_ [_ [_ [_ [_ [_ [_ [_ [H11 [_ [_ [_ [_ [_ [_ [H18 _]]]]]]]]]]]]]]]]]].
  apply (written_iff tbl r Hwf H18) in Hpw. destruct Hpw as [_ [Hvis _]].
  destruct (class_in_index tbl r rank Hwc quote (e_obj e) (visible_valid r _ Hvis) Hk Hvis Hplain) as [_ Ha].
  assert (El : link_of quote tbl r e = Some (f_classIndex ++ c_hash :: fullname r (e_obj e))).
  { unfold link_of. rewrite Hp. reflexivity. }
  assert (Eh : h = f_classIndex ++ c_hash :: fullname r (e_obj e)) by congruence. subst h. clear Hl El.
  unfold live_at. rewrite resolve_page_frag; [|exact f_classIndex_no_hash|discriminate]. cbn [fst snd]. split.
  - unfold site_files, summary_files. apply in_or_app. right. cbn. auto.
  - intros a Ea. inversion Ea; subst a. exists (fullname r (e_obj e)). split; [exact Ha|now left].
Qed.

(* every entry of the structural producers has a producer number below 30 (the cross-reference producers) *)
Lemma structural_prod_range : forall depth ns e,
  In e (flat_map (page_entries quote tbl r depth ns) (written tbl r) ++ summary_entries quote tbl r) ->
  N.ltb (e_prod e) 30 = true.
Proof.
  intros depth ns e Hin.
  assert (Leaf : forall (X : Type) (f : X -> entry) (l : list X), (forall x, N.ltb (e_prod (f x)) 30 = true) ->
            In e (map f l) -> N.ltb (e_prod e) 30 = true).
  { intros X f l Hf H. apply in_map_iff in H. destruct H as [x [E _]]. subst e. apply Hf. }
  apply in_app_or in Hin. destruct Hin as [Hin|Hin].
  - apply in_flat_map in Hin. destruct Hin as [p [_ Hin]]. unfold page_entries in Hin.
    repeat (apply in_app_or in Hin; destruct Hin as [Hin|Hin]).
    + eapply Leaf; [|exact Hin]; reflexivity.
    + destruct ns; [contradiction|]. apply in_app_or in Hin. destruct Hin as [Hin|Hin].
      * eapply Leaf; [|exact Hin]; reflexivity.
      * apply in_flat_map in Hin. destruct Hin as [s [_ Hin]]. apply obj_content_prod in Hin.
        destruct Hin as [E|E]; rewrite E; reflexivity.
    + eapply Leaf; [|exact Hin]; reflexivity.
    + eapply Leaf; [|exact Hin]; reflexivity.
    + apply in_flat_map in Hin. destruct Hin as [x [_ Hin]]. eapply Leaf; [|exact Hin]; reflexivity.
    + apply in_flat_map in Hin. destruct Hin as [x [_ Hin]]. eapply Leaf; [|exact Hin]; reflexivity.
    + eapply Leaf; [|exact Hin]; reflexivity.
    + destruct (is_class_kind (kind_of r p)); [|contradiction].
      repeat (apply in_app_or in Hin; destruct Hin as [Hin|Hin]).
      * eapply Leaf; [|exact Hin]; reflexivity.
      * eapply Leaf; [|exact Hin]; reflexivity.
      * apply in_flat_map in Hin. destruct Hin as [x [_ Hin]]. eapply Leaf; [|exact Hin]; reflexivity.
      * apply in_flat_map in Hin. destruct Hin as [x [_ Hin]]. eapply Leaf; [|exact Hin]; reflexivity.
      * destruct Hin as [E|[]]. subst e. reflexivity.
  - unfold summary_entries in Hin. repeat (apply in_app_or in Hin; destruct Hin as [Hin|Hin]).
    + apply in_flat_map in Hin. destruct Hin as [m [_ Hin]]. apply module_summary_prod in Hin. rewrite Hin. reflexivity.
    + eapply Leaf; [|exact Hin]; reflexivity.
    + eapply Leaf; [|exact Hin]; reflexivity.
    + eapply Leaf; [|exact Hin]; reflexivity.
    + destruct (multi_root r); [|contradiction]. eapply Leaf; [|exact Hin]; reflexivity.
    + eapply Leaf; [|exact Hin]; reflexivity.
    + eapply Leaf; [|exact Hin]; reflexivity.
    + eapply Leaf; [|exact Hin]; reflexivity.
Qed.

(* where a docstring cross reference stands *)
Theorem xref_origin : forall depth ns e, In e (site_entries quote tbl r depth ns) -> e_prod e = P_xref ->
  exists p i, xref_from quote tbl r e p i.
Proof.
  intros depth ns e Hin Hp. unfold site_entries in Hin. apply in_app_or in Hin. destruct Hin as [Hin|Hin].
  - apply structural_prod_range in Hin. rewrite Hp in Hin. discriminate Hin.
  - apply in_app_or in Hin. destruct Hin as [Hin|Hin].
    + apply in_flat_map in Hin. destruct Hin as [p [Hpw Hin]]. unfold xref_entries in Hin.
      apply in_app_or in Hin. destruct Hin as [Hin|Hin]; apply in_flat_map in Hin; destruct Hin as [i [Hi Hin]];
        apply in_map_iff in Hin; destruct Hin as [t [E Ht]]; subst e.
      * exists p, i. unfold xref_from. cbn [e_page e_ctx e_obj mk]. repeat split; auto.
        destruct Hi as [Hi|Hi]; auto.
      * discriminate Hp.
    + exfalso. unfold summary_xref_entries in Hin. apply in_app_or in Hin.
      destruct Hin as [Hin|Hin]; apply in_flat_map in Hin; destruct Hin as [x [_ Hin]].
      * destruct (text_eqb (e_ctx x) f_moduleIndex); [|contradiction].
        apply in_map_iff in Hin. destruct Hin as [t [E _]]. subst e. discriminate Hp.
      * apply in_map_iff in Hin. destruct Hin as [t [E _]]. subst e. discriminate Hp.
Qed.

(* when the docstring's source is documented on the same page, taglink is handed the page the link is rendered on *)
Lemma xref_same_page_ctx : forall e p i, wf r -> l_visible (t_writer tbl) = true -> xref_from quote tbl r e p i ->
  same_page_source r i -> docsource_of r i <> None -> e_ctx e = e_page e.
Proof.
  intros e p i Hwf Hw [Hpw [Hi [Epg [Ectx _]]]] Hs Hd. rewrite Ectx, Epg. unfold doc_ctx.
  unfold same_page_source in Hs. destruct (docsource_of r i) as [s|]; [|congruence].
  apply (written_iff tbl r Hwf Hw) in Hpw. destruct Hpw as [Hown [Hvis _]].
  pose proof (visible_valid r p Hvis) as Hvp.
  assert (Hpi : page_obj r i = Some p).
  { destruct Hi as [E|Hm]; [subst i; exact (proj1 (own_url quote r p Hvp Hown))|].
    unfold methods_of in Hm. apply filter_In in Hm. destruct Hm as [Hc Hk].
    apply andb_prop in Hk. destruct Hk as [Hno _]. apply negb_true_iff in Hno.
    destruct (wf_contents r Hwf p i Hc) as [Hvi Hpar]. destruct (valid_get r i Hvi) as [o Ho].
    unfold page_obj, own_page, kind_of, parent_of in *. rewrite Ho in *. now rewrite Hno. }
  rewrite Hs, Hpi. reflexivity.
Qed.

End Origin.

(* ================================================================== docstring cross references *)
Section Xref.
Variable quote : text -> text.
Variable tbl : table.
Variable r : registry.
Hypothesis quote_no_hash : forall t, ~ In c_hash (quote t).

(* C11: a docstring cross reference (the resolver is an oracle: any registered object) is live on the page it is rendered
   on, when the docstring's source is documented on that page -- or the target has a page of its own *)
Theorem xref_links_live : forall depth ns e h p i, wf r -> table_ok tbl = true ->
  t_taglink_drops_hidden tbl = true -> l_nospace (t_methods tbl) = false -> l_nospace (t_pkg_methods tbl) = false ->
  In e (site_entries quote tbl r depth ns) -> e_prod e = P_xref -> xref_from quote tbl r e p i ->
  (same_page_source r i \/ own_page r (e_obj e) = true) -> reachable r (e_obj e) ->
  link_of quote tbl r e = Some h -> live_at quote tbl r (e_page e) h.
Proof.
  intros depth ns e h p i Hwf Ht Hf Hn1 Hn2 Hin Hp Hfrom Hguard Hreach Hl.
  destruct (table_ok_facts tbl Ht) as [_ [_ [_ [_ [_ [_ [_ [_ [_ [_ [_ [_ [_ [_ [_ [_ [_ [H18 _]]]]]]]]]]]]]]]]]].
  apply (link_live_of_reachable quote tbl r quote_no_hash depth ns e h Hwf Ht Hf Hn1 Hn2 Hin Hreach);
    [rewrite Hp; reflexivity|rewrite Hp; reflexivity| |exact Hl].
  intros _. destruct Hguard as [Hs|Ho]; [|now right].
  destruct (docsource_of r i) eqn:Hd.
  - left. apply (xref_same_page_ctx quote tbl r e p i Hwf H18 Hfrom Hs). congruence.
  - left. destruct Hfrom as [_ [_ [Epg [Ectx _]]]]. rewrite Ectx, Epg. unfold doc_ctx. now rewrite Hd.
Qed.

End Xref.

Lemma text_eqb_refl_main : text_eqb t_main t_main = true.
Proof. reflexivity. Qed.

(* ================================================================== Module.privacyClass: `__main__` *)
Theorem main_module_private : forall r i o, get r i = Some o -> is_module_kind (o_kind o) = true -> o_name o = t_main ->
  priv_of r i = PRIVATE.
Proof.
  intros r i o Hg Hk Hn. rewrite (priv_of_get r i o Hg). unfold eff_priv. rewrite Hk, Hn. now rewrite text_eqb_refl_main.
Qed.

(* ================================================================== single root *)
Lemma text_eqb_refl : forall t, text_eqb t t = true.
Proof. induction t as [|c t IH]; [reflexivity|]. cbn. now rewrite N.eqb_refl. Qed.

(* C11_index_single_root *)
Theorem index_single_root : forall quote tbl r n o, r_root_names r = [n] -> fullname r o = n -> valid r o -> own_page r o = true ->
  url quote r o = f_index /\ In (n ++ f_html) (site_files quote tbl r) /\
  (wf r -> l_visible (t_writer tbl) = true -> In o (r_roots r) -> visible r o = true -> In f_index (site_files quote tbl r)).
Proof.
  intros quote tbl r n o Hn Hf Hv Ho. destruct (own_url quote r o Hv Ho) as [_ Eu].
  assert (E : url quote r o = f_index).
  { rewrite Eu. unfold page_url, single_root_is. rewrite Hn, Hf. now rewrite text_eqb_refl. }
  split; [exact E|]. split.
  - unfold site_files, summary_files. rewrite Hn. apply in_or_app. right. apply in_or_app. right. apply in_or_app. right. now left.
  - intros Hwf Hw Hr Hvis. rewrite <- E. apply written_file. apply (written_iff tbl r Hwf Hw).
    repeat split; [exact Ho|exact Hvis|]. exists o. split; [exact Hr|apply desc_refl].
Qed.

(* ================================================================== quoting *)
Lemma cquote_safe_id : forall t, forallb quote_safe t = true -> cquote t = t.
Proof.
  induction t as [|c t IH]; intros H; [reflexivity|]. cbn [forallb] in H. apply andb_prop in H. destruct H as [Hc Ht].
  unfold cquote. cbn [flat_map]. rewrite Hc. cbn [app]. f_equal. now apply IH.
Qed.

Lemma forallb_app_intro : forall {X} (f : X -> bool) a b, forallb f a = true -> forallb f b = true -> forallb f (a ++ b) = true.
Proof. intros X f a b Ha Hb. rewrite forallb_app. now rewrite Ha, Hb. Qed.

(* the href of a page is the URL encoding of the file name it is written under -- when the name needs no escaping *)
Theorem href_encodes_file_guarded : forall r o, valid r o -> own_page r o = true ->
  forallb quote_safe (fullname r o) = true -> cquote (url cquote r o) = url cquote r o.
Proof.
  intros r o Hv Ho Hs. destruct (own_url cquote r o Hv Ho) as [_ Eu]. rewrite Eu. unfold page_url.
  destruct (single_root_is r (fullname r o)); [reflexivity|].
  rewrite (cquote_safe_id _ Hs). apply cquote_safe_id. apply forallb_app_intro; [exact Hs|reflexivity].
Qed.

(* ================================================================== a decidable well-formedness check *)
Lemma parent_of_valid : forall r i p, parent_of r i = Some p -> valid r i.
Proof. intros r i p H. unfold parent_of in H. destruct (get r i) eqn:E; [exact (get_valid r i _ E)|discriminate]. Qed.
Lemma contents_of_valid : forall r p c, In c (contents_of r p) -> valid r p.
Proof. intros r p c H. unfold contents_of in H. destruct (get r p) eqn:E; [exact (get_valid r p _ E)|contradiction]. Qed.
Lemma module_of_valid : forall r i m, module_of r i = Some m -> valid r i.
Proof. intros r i m H. unfold module_of in H. destruct (get r i) eqn:E; [exact (get_valid r i _ E)|discriminate]. Qed.

Lemma reach_up_sound : forall r fuel i, reach_up fuel r i = true -> reachable r i.
Proof.
  intros r fuel. induction fuel as [|f IH]; intros i H; [discriminate|]. cbn [reach_up] in H.
  destruct (parent_of r i) as [p|].
  - apply andb_prop in H. destruct H as [Hc Hp]. apply existsb_exists in Hc. destruct Hc as [x [Hx E]].
    apply Nat.eqb_eq in E. subst x. destruct (IH p Hp) as [root [Hr Hd]]. exists root. split; [exact Hr|].
    exact (desc_trans_child r root p i Hd Hx).
  - apply existsb_exists in H. destruct H as [x [Hx E]]. apply Nat.eqb_eq in E. subst x. exists i. split; [exact Hx|apply desc_refl].
Qed.

Lemma wf_b_sound : forall r, wf_b r = true -> wf r.
Proof.
  intros r H. unfold wf_b in H. cbv zeta in H.
  apply andb_prop in H. destruct H as [H H4]. apply andb_prop in H. destruct H as [H H3].
  apply andb_prop in H. destruct H as [H1 H2].
  rewrite forallb_forall in H1, H2, H3, H4.
  assert (Hseq : forall i, valid r i -> In i (seq 0 (length (r_objs r)))) by (intros i Hi; apply in_seq; unfold valid in Hi; lia).
  constructor.
  - intros i p Hp. specialize (H1 i (Hseq i (parent_of_valid r i p Hp))). rewrite Hp in H1.
    apply andb_prop in H1. destruct H1 as [Hlt _]. now apply Nat.ltb_lt in Hlt.
  - intros p c Hc. specialize (H2 p (Hseq p (contents_of_valid r p c Hc))). rewrite forallb_forall in H2.
    specialize (H2 c Hc). apply andb_prop in H2. destruct H2 as [Hlt Hq]. apply Nat.ltb_lt in Hlt.
    split; [exact Hlt|]. destruct (parent_of r c) as [q|]; [|discriminate]. apply Nat.eqb_eq in Hq. now subst q.
  - intros o Ho. specialize (H3 o Ho). apply andb_prop in H3. destruct H3 as [H3 Hown].
    apply andb_prop in H3. destruct H3 as [Hlt Hp]. apply Nat.ltb_lt in Hlt.
    repeat split; [exact Hlt| |exact Hown]. destruct (parent_of r o); [discriminate|reflexivity].
  - intros c p Hp. specialize (H1 c (Hseq c (parent_of_valid r c p Hp))). rewrite Hp in H1.
    apply andb_prop in H1. tauto.
  - intros c m Hm. specialize (H4 c (Hseq c (module_of_valid r c m Hm))). rewrite Hm in H4.
    apply andb_prop in H4. tauto.
  - intros c m Hm. specialize (H4 c (Hseq c (module_of_valid r c m Hm))). rewrite Hm in H4.
    apply andb_prop in H4. destruct H4 as [_ H4]. exact (reach_up_sound r _ m H4).
Qed.
