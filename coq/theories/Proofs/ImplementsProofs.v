(* Proofs/ImplementsProofs.v -- 'implemented by' is the exact inverse of 'implements' after zopeinterface.postProcess. *)
From Coq Require Import ZArith NArith List Bool Lia.
From PydoctorVerif Require Import Base.Sexp Model.Implements.
Import ListNotations.
Local Open Scope N_scope.

Lemma zmem_iff : forall x l, zmem x l = true <-> In x l.
Proof.
  intros x l. unfold zmem. rewrite existsb_exists. split.
  - intros [y [Hy He]]. apply N.eqb_eq in He. subst. exact Hy.
  - intros H. exists x. split; [exact H | apply N.eqb_refl].
Qed.

(* the relation that implementedby must mirror: x names interface i *)
Definition implements (z : zsys) (x i : iid) : Prop := In (Some i) (targets z x) /\ isiface z i = true.

Section Post.
  Variable z : zsys.

  (* one name of one implementer *)
  Lemma handle_one_spec : forall x b t i y,
      In y (handle_one z x b t i) <-> In y (b i) \/ (y = x /\ t = Some i /\ isiface z i = true).
  Proof.
    intros x b t i y. unfold handle_one. destruct t as [j|]; [|split; [auto | intros [H|[_ [H _]]]; [exact H | discriminate]]].
    destruct (isiface z j) eqn:Ej.
    - destruct (zmem x (b j)) eqn:Em.
      + split; [auto|]. intros [H|[-> [E _]]]; [exact H|]. inversion E; subst. apply zmem_iff. exact Em.
      + unfold zupd. destruct (N.eqb i j) eqn:Eij.
        * apply N.eqb_eq in Eij. subst j. rewrite in_app_iff. cbn. split.
          -- intros [H|[H|[]]]; [left; exact H | right; subst; auto].
          -- intros [H|[-> _]]; [left; exact H | right; left; reflexivity].
        * split; [auto|]. intros [H|[_ [E _]]]; [exact H|]. inversion E; subst. rewrite N.eqb_refl in Eij. discriminate.
    - split; [auto|]. intros [H|[_ [E Hi]]]; [exact H|]. inversion E; subst. congruence.
  Qed.
  Lemma handle_one_nodup : forall x b t, (forall i, NoDup (b i)) -> forall i, NoDup (handle_one z x b t i).
  Proof.
    intros x b t Hb i. unfold handle_one. destruct t as [j|]; [|apply Hb].
    destruct (isiface z j); [|apply Hb]. destruct (zmem x (b j)) eqn:Em; [apply Hb|].
    unfold zupd. destruct (N.eqb i j) eqn:Eij; [|apply Hb].
    assert (Hn : ~ In x (b j)) by (intros H; apply zmem_iff in H; congruence).
    clear - Hb Hn. specialize (Hb j). induction (b j) as [|a l IH]; cbn.
    - constructor; [intros [] | constructor].
    - inversion Hb as [|? ? Ha Hl]; subst. constructor.
      + rewrite in_app_iff. cbn. intros [H|[H|[]]]; [contradiction | subst; apply Hn; left; reflexivity].
      + apply IH; [exact Hl | intros H; apply Hn; right; exact H].
  Qed.

  (* one implementer *)
  Lemma handle_fold_spec : forall x ts b i y,
      In y (fold_left (handle_one z x) ts b i) <-> In y (b i) \/ (y = x /\ In (Some i) ts /\ isiface z i = true).
  Proof.
    intros x. induction ts as [|t ts IH]; intros b i y; cbn [fold_left].
    - split; [auto | intros [H|[_ [[] _]]]; exact H].
    - rewrite IH. rewrite handle_one_spec. cbn [In]. split.
      + intros [[H|[E1 [E2 E3]]]|[E1 [E2 E3]]]; [left; exact H | right; subst; auto | right; auto].
      + intros [H|[E1 [[E2|E2] E3]]]; [left; left; exact H | left; right; subst; auto | right; auto].
  Qed.
  Lemma handle_fold_nodup : forall x ts b, (forall i, NoDup (b i)) -> forall i, NoDup (fold_left (handle_one z x) ts b i).
  Proof.
    intros x. induction ts as [|t ts IH]; intros b Hb i; cbn [fold_left]; [apply Hb|].
    apply IH. apply handle_one_nodup. exact Hb.
  Qed.

  (* all implementers *)
  Lemma zpost_spec : forall L b i y,
      In y (zpost z L b i) <-> In y (b i) \/ (In y L /\ implements z y i).
  Proof.
    unfold zpost, implements. induction L as [|x L IH]; intros b i y; cbn [fold_left].
    - split; [auto | intros [H|[[] _]]; exact H].
    - rewrite IH. unfold handle_implemented at 1. rewrite handle_fold_spec. cbn [In]. split.
      + intros [[H|[E1 [E2 E3]]]|[E1 E2]]; [left; exact H | right; subst; auto | right; tauto].
      + intros [H|[[E1|E1] [E2 E3]]]; [left; left; exact H | left; right; subst; auto | right; auto].
  Qed.
  Lemma zpost_nodup : forall L b, (forall i, NoDup (b i)) -> forall i, NoDup (zpost z L b i).
  Proof.
    unfold zpost. induction L as [|x L IH]; intros b Hb i; cbn [fold_left]; [apply Hb|].
    apply IH. intros j. apply handle_fold_nodup. exact Hb.
  Qed.

  (* from empty back-reference lists: x is listed by i exactly when x is an implementer that names the
     interface i, and it is listed once *)
  Theorem implements_inverse : forall L i x,
      (In x (zpost z L (fun _ => []) i) <-> In x L /\ implements z x i) /\ NoDup (zpost z L (fun _ => []) i).
  Proof.
    intros L i x. split.
    - rewrite zpost_spec. cbn. tauto.
    - apply zpost_nodup. intros j. constructor.
  Qed.
End Post.
