(* Proofs/DeprecateProofs.v -- lemmas for C10: validate_identifier, the reST text of extensions.deprecate. *)
From Coq Require Import ZArith NArith List Bool Lia Arith.
From PydoctorVerif Require Import Base.Sexp Gen.TablesC10 Model.Stan Model.DocutilsEsc Model.DeprecateText
  Spec.Xml Proofs.EscProofs Proofs.ReparseProofs.
Import ListNotations.
Local Open Scope N_scope.

(* ------------------------------------------------------------------ facts about the regenerated character tables *)
Definition ident_ascii (c : N) : bool := (c =? 95) || between 48 57 c || between 65 90 c || between 97 122 c.
Definition in_tables (c : N) : bool := in_ranges c xid_start || in_ranges c xid_continue.

(* the only ASCII characters str.isidentifier lets through are letters, digits and the underscore *)
Lemma tables_ascii : forallb (fun c => implb (in_tables c) (ident_ascii c)) (map N.of_nat (seq 0 128)) = true.
Proof. vm_compute. reflexivity. Qed.

(* no line separator, no white space, no back-quote is an identifier character *)
Lemma tables_no_space : forallb (fun b => negb (in_tables b)) (line_breaks ++ py_space ++ rst_ws ++ [96]) = true.
Proof. vm_compute. reflexivity. Qed.

Lemma in_ascii_range : forall c, c < 128 -> In c (map N.of_nat (seq 0 128)).
Proof.
  intros c H. apply in_map_iff. exists (N.to_nat c). split; [apply N2Nat.id|]. apply in_seq. lia.
Qed.

Lemma table_char_ascii : forall c, in_tables c = true -> c < 128 -> ident_ascii c = true.
Proof.
  intros c H Hlt. pose proof tables_ascii as T. rewrite forallb_forall in T.
  specialize (T c (in_ascii_range c Hlt)). rewrite H in T. exact T.
Qed.

Lemma table_char_not_listed : forall c, in_tables c = true ->
  ~ In c (line_breaks ++ py_space ++ rst_ws ++ [96]).
Proof.
  intros c H Hin. pose proof tables_no_space as T. rewrite forallb_forall in T.
  specialize (T c Hin). rewrite H in T. discriminate.
Qed.

Local Opaque xid_start xid_continue line_breaks py_space rst_ws.

(* ------------------------------------------------------------------ split / isidentifier *)
Lemma split_on_nonempty : forall sep t, split_on sep t <> [].
Proof.
  intros sep t. destruct t as [|c r]; simpl; [discriminate|].
  destruct (c =? sep); [discriminate|]. destruct (split_on sep r); discriminate.
Qed.

Lemma in_split : forall sep t c, In c t -> c = sep \/ exists seg, In seg (split_on sep t) /\ In c seg.
Proof.
  intros sep t. induction t as [|c0 r IH]; intros c H; [destruct H|].
  simpl. destruct (c0 =? sep) eqn:E.
  - destruct H as [<-|H]; [left; apply N.eqb_eq; exact E|].
    destruct (IH c H) as [Hs|[seg [Hseg Hc]]]; [left; exact Hs|]. right. exists seg. split; [right; exact Hseg|exact Hc].
  - destruct (split_on sep r) as [|h tl] eqn:Es; [exfalso; exact (split_on_nonempty sep r Es)|].
    destruct H as [<-|H].
    + right. exists (c0 :: h). split; [left; reflexivity | left; reflexivity].
    + destruct (IH c H) as [Hs|[seg [Hseg Hc]]]; [left; exact Hs|]. right.
      destruct Hseg as [<-|Hseg].
      * exists (c0 :: h). split; [left; reflexivity | right; exact Hc].
      * exists seg. split; [right; exact Hseg | exact Hc].
Qed.

Lemma isidentifier_chars : forall s c, isidentifier s = true -> In c s -> in_tables c = true.
Proof.
  intros [|c0 r] c H Hin; [destruct Hin|]. cbn [isidentifier] in H. apply andb_true_iff in H. destruct H as [H0 Hr].
  unfold in_tables. destruct Hin as [<-|Hin].
  - rewrite H0. reflexivity.
  - rewrite forallb_forall in Hr. rewrite (Hr c Hin). apply orb_true_r.
Qed.

Theorem identifier_guard : forall t, validate_identifier t = true -> forall c, In c t ->
  (c < 128 -> c = 46 \/ ident_ascii c = true) /\
  memN c line_breaks = false /\ memN c py_space = false /\ c <> 96.
Proof.
  intros t Hv c Hc. unfold validate_identifier in Hv. rewrite forallb_forall in Hv.
  destruct (in_split 46 t c Hc) as [->|[seg [Hseg Hcs]]].
  - split; [auto|]. repeat split; try reflexivity. discriminate.
  - pose proof (isidentifier_chars seg c (Hv seg Hseg) Hcs) as Ht.
    pose proof (table_char_not_listed c Ht) as Hn.
    split; [intro Hlt; right; apply table_char_ascii; assumption|].
    repeat split.
    + destruct (memN c line_breaks) eqn:E; [|reflexivity]. exfalso. apply Hn. apply in_or_app. left.
      apply memN_spec. exact E.
    + destruct (memN c py_space) eqn:E; [|reflexivity]. exfalso. apply Hn. apply in_or_app. right.
      apply in_or_app. left. apply memN_spec. exact E.
    + intros ->. apply Hn. apply in_or_app. right. apply in_or_app. right. apply in_or_app. right. left. reflexivity.
Qed.

(* every piece between dots is an identifier: that is all validate_identifier accepts *)
Theorem validate_identifier_spec : forall t,
  validate_identifier t = true <-> Forall (fun p => isidentifier p = true) (split_on 46 t).
Proof. intro t. unfold validate_identifier. rewrite forallb_forall, Forall_forall. tauto. Qed.

(* ------------------------------------------------------------------ line structure of the generated reST *)
Definition nbk (s : text) : bool := forallb (fun c => negb (is_break c)) s.

Lemma count_breaks_nbk_app : forall a b, nbk a = true -> count_breaks (a ++ b) = count_breaks b.
Proof.
  induction a as [|c a IH]; intros b H; [reflexivity|]. simpl in H. apply andb_true_iff in H. destruct H as [Hc Ha].
  apply negb_true_iff in Hc. simpl. rewrite Hc. apply IH. exact Ha.
Qed.

Lemma nbk_app : forall a b, nbk (a ++ b) = nbk a && nbk b.
Proof. intros. unfold nbk. apply forallb_app. Qed.

Lemma nbk_fmt : forall tpl env, forallb (fun p => nbk (fst p)) tpl = true -> (forall f, nbk (env f) = true) ->
  nbk (fmt tpl env) = true.
Proof.
  induction tpl as [|[lit f] tpl IH]; intros env Hl He; [reflexivity|].
  simpl in Hl. apply andb_true_iff in Hl. destruct Hl as [H1 H2].
  unfold fmt. cbn [flat_map fst snd]. rewrite !nbk_app. rewrite H1.
  fold (fmt tpl env). rewrite (IH env H2 He).
  destruct (f =? 9); [reflexivity|]. rewrite He. reflexivity.
Qed.

Local Transparent xid_start xid_continue line_breaks py_space rst_ws.
Lemma templates_one_line : forallb (fun p => nbk (fst p)) depr_with = true /\
                           forallb (fun p => nbk (fst p)) depr_without = true /\
                           nbk depr_wrap_pre = true /\ nbk depr_wrap_post = true.
Proof. vm_compute. auto. Qed.

Local Opaque xid_start xid_continue line_breaks py_space rst_ws.
Lemma identifier_nbk : forall t, validate_identifier t = true -> nbk t = true.
Proof.
  intros t H. unfold nbk. rewrite forallb_forall. intros c Hc.
  destruct (identifier_guard t H c Hc) as [_ [Hb _]]. unfold is_break. rewrite Hb. reflexivity.
Qed.

(* the replacement clean-up as the tables have it: only '\n' is replaced *)
Lemma replace_newline_nbk : forall r,
  forallb (fun c => negb (is_break c) || (c =? 10)) r = true -> nbk (replace_chain depr_repls r) = true.
Proof.
  intros r H. unfold replace_chain, depr_repls. simpl fold_left. unfold replace1. cbn [fst snd].
  induction r as [|c r IH]; [reflexivity|]. simpl in H. apply andb_true_iff in H. destruct H as [Hc Hr].
  cbn [flat_map]. rewrite nbk_app. rewrite (IH Hr). rewrite andb_true_r.
  destruct (c =? 10) eqn:E; [reflexivity|]. rewrite orb_false_r in Hc. simpl. rewrite Hc. reflexivity.
Qed.

Lemma clean_replacement_nbk : forall r,
  forallb (fun c => negb (is_break c) || (c =? 10)) r = true -> nbk (clean_replacement r) = true.
Proof.
  intros r H. unfold clean_replacement. destruct (validate_identifier r) eqn:E.
  - apply identifier_nbk. exact E.
  - destruct templates_one_line as [_ [_ [Hp Hq]]]. rewrite !nbk_app. rewrite Hp, Hq, (replace_newline_nbk r H). reflexivity.
Qed.

(* the document handed to the reST parser: directive line, line break, indented body *)
Definition doc_lit1 : text := [46; 46; 32; 100; 101; 112; 114; 101; 99; 97; 116; 101; 100; 58; 58; 32].
Definition doc_lit2 : text := [10; 32; 32; 32].

Local Transparent xid_start xid_continue line_breaks py_space rst_ws.
Lemma doc_shape : forall version t, deprecation_doc version t = doc_lit1 ++ version ++ doc_lit2 ++ t.
Proof.
  intros. unfold deprecation_doc, fmt, depr_doc. cbn [flat_map fst snd].
  change (9 =? 9) with true. change (2 =? 9) with false. change (4 =? 9) with false. cbv iota.
  change (2 =? 2) with true. change (4 =? 2) with false. change (4 =? 4) with true. cbv iota.
  rewrite !app_nil_r. reflexivity.
Qed.

Lemma doc_lit1_nbk : nbk doc_lit1 = true.
Proof. vm_compute. reflexivity. Qed.

Lemma doc_lit2_break : forall t, count_breaks (doc_lit2 ++ t) = S (count_breaks t).
Proof. intro t. reflexivity. Qed.

Local Opaque xid_start xid_continue line_breaks py_space rst_ws depr_with depr_without.
Theorem deprecate_one_line : forall name package version repl t,
  deprecation_text name package version repl = Some t ->
  nbk name = true -> nbk version = true ->
  (forall r, repl = Some r -> forallb (fun c => negb (is_break c) || (c =? 10)) r = true) ->
  count_breaks (deprecation_doc version t) = 1%nat.
Proof.
  intros name package version repl t H Hn Hv Hr. unfold deprecation_text in H.
  destruct (validate_identifier package) eqn:Ep; [|discriminate]. cbn [negb] in H.
  destruct templates_one_line as [Hw [Hwo _]].
  assert (Ht : nbk t = true).
  { destruct repl as [r|]; injection H as <-; apply nbk_fmt; try assumption; intro f.
    - destruct (f =? 0); [exact Hn|]. destruct (f =? 1); [apply identifier_nbk; exact Ep|].
      destruct (f =? 2); [exact Hv|]. destruct (f =? 3); [|reflexivity].
      apply clean_replacement_nbk. apply Hr. reflexivity.
    - destruct (f =? 0); [exact Hn|]. destruct (f =? 1); [apply identifier_nbk; exact Ep|].
      destruct (f =? 2); [exact Hv|]. reflexivity. }
  rewrite doc_shape. rewrite count_breaks_nbk_app by exact doc_lit1_nbk.
  rewrite count_breaks_nbk_app by exact Hv.
  rewrite doc_lit2_break. rewrite <- (app_nil_r t). rewrite count_breaks_nbk_app by exact Ht. reflexivity.
Qed.

Local Transparent xid_start xid_continue line_breaks py_space rst_ws depr_with depr_without.
(* the guard is needed: a carriage return in the replacement starts a new line of reST *)
Lemma deprecate_one_line_cr :
  exists t, deprecation_text [102] [112] [49] (Some [13]) = Some t /\
            count_breaks (deprecation_doc [49] t) = 2%nat.
Proof. eexists. split; vm_compute; reflexivity. Qed.
