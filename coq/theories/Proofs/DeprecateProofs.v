(* Proofs/DeprecateProofs.v -- lemmas for C10: validate_identifier, the reST text of extensions.deprecate. *)
From Coq Require Import ZArith NArith List Bool Lia Arith.
From PydoctorVerif Require Import Base.Sexp Gen.TablesC10 Model.Stan Model.DocutilsEsc Model.DeprecateText
  Spec.Xml Proofs.EscProofs Proofs.ReparseProofs.
Import ListNotations.
Local Open Scope N_scope.

(* ------------------------------------------------------------------ facts about the regenerated character tables *)
Definition ident_ascii (c : N) : bool := (c =? 95) || between 48 57 c || between 65 90 c || between 97 122 c.
Definition in_tables (c : N) : bool := in_ranges c xid_start || in_ranges c xid_continue.

(* the only ASCII characters str.isidentifier lets through are letters, digits and the underscore *)
Lemma tables_ascii : forallb (fun c => implb (in_tables c) (ident_ascii c)) (map N.of_nat (seq 0 128)) = true.
Proof. vm_compute. reflexivity. Qed.

(* no line separator, no white space, no back-quote is an identifier character *)
Lemma tables_no_space : forallb (fun b => negb (in_tables b)) (line_breaks ++ py_space ++ rst_ws ++ [96]) = true.
Proof. vm_compute. reflexivity. Qed.

Lemma in_ascii_range : forall c, c < 128 -> In c (map N.of_nat (seq 0 128)).
Proof.
  intros c H. apply in_map_iff. exists (N.to_nat c). split; [apply N2Nat.id|]. apply in_seq. lia.
Qed.

Lemma table_char_ascii : forall c, in_tables c = true -> c < 128 -> ident_ascii c = true.
Proof.
  intros c H Hlt. pose proof tables_ascii as T. rewrite forallb_forall in T.
  specialize (T c (in_ascii_range c Hlt)). rewrite H in T. exact T.
Qed.

Lemma table_char_not_listed : forall c, in_tables c = true ->
  ~ In c (line_breaks ++ py_space ++ rst_ws ++ [96]).
Proof.
  intros c H Hin. pose proof tables_no_space as T. rewrite forallb_forall in T.
  specialize (T c Hin). rewrite H in T. discriminate.
Qed.

Local Opaque xid_start xid_continue line_breaks py_space rst_ws.

(* ------------------------------------------------------------------ split / isidentifier *)
Lemma split_on_nonempty : forall sep t, split_on sep t <> [].
Proof.
  intros sep t. destruct t as [|c r]; simpl; [discriminate|].
  destruct (c =? sep); [discriminate|]. destruct (split_on sep r); discriminate.
Qed.

Lemma in_split : forall sep t c, In c t -> c = sep \/ exists seg, In seg (split_on sep t) /\ In c seg.
Proof.
  intros sep t. induction t as [|c0 r IH]; intros c H; [destruct H|].
  simpl. destruct (c0 =? sep) eqn:E.
  - destruct H as [<-|H]; [left; apply N.eqb_eq; exact E|].
    destruct (IH c H) as [Hs|[seg [Hseg Hc]]]; [left; exact Hs|]. right. exists seg. split; [right; exact Hseg|exact Hc].
  - destruct (split_on sep r) as [|h tl] eqn:Es; [exfalso; exact (split_on_nonempty sep r Es)|].
    destruct H as [<-|H].
    + right. exists (c0 :: h). split; [left; reflexivity | left; reflexivity].
    + destruct (IH c H) as [Hs|[seg [Hseg Hc]]]; [left; exact Hs|]. right.
      destruct Hseg as [<-|Hseg].
      * exists (c0 :: h). split; [left; reflexivity | right; exact Hc].
      * exists seg. split; [right; exact Hseg | exact Hc].
Qed.

Lemma isidentifier_chars : forall s c, isidentifier s = true -> In c s -> in_tables c = true.
Proof.
  intros [|c0 r] c H Hin; [destruct Hin|]. cbn [isidentifier] in H. apply andb_true_iff in H. destruct H as [H0 Hr].
  unfold in_tables. destruct Hin as [<-|Hin].
  - rewrite H0. reflexivity.
  - rewrite forallb_forall in Hr. rewrite (Hr c Hin). apply orb_true_r.
Qed.

Theorem identifier_guard : forall t, validate_identifier t = true -> forall c, In c t ->
  (c < 128 -> c = 46 \/ ident_ascii c = true) /\
  memN c line_breaks = false /\ memN c py_space = false /\ c <> 96.
Proof.
  intros t Hv c Hc. unfold validate_identifier in Hv. rewrite forallb_forall in Hv.
  destruct (in_split 46 t c Hc) as [->|[seg [Hseg Hcs]]].
  - split; [auto|]. repeat split; try reflexivity. discriminate.
  - pose proof (isidentifier_chars seg c (Hv seg Hseg) Hcs) as Ht.
    pose proof (table_char_not_listed c Ht) as Hn.
    split; [intro Hlt; right; apply table_char_ascii; assumption|].
    repeat split.
    + destruct (memN c line_breaks) eqn:E; [|reflexivity]. exfalso. apply Hn. apply in_or_app. left.
      apply memN_spec. exact E.
    + destruct (memN c py_space) eqn:E; [|reflexivity]. exfalso. apply Hn. apply in_or_app. right.
      apply in_or_app. left. apply memN_spec. exact E.
    + intros ->. apply Hn. apply in_or_app. right. apply in_or_app. right. apply in_or_app. right. left. reflexivity.
Qed.

(* every piece between dots is an identifier: that is all validate_identifier accepts *)
Theorem validate_identifier_spec : forall t,
  validate_identifier t = true <-> Forall (fun p => isidentifier p = true) (split_on 46 t).
Proof. intro t. unfold validate_identifier. rewrite forallb_forall, Forall_forall. tauto. Qed.

(* ------------------------------------------------------------------ line structure of the generated reST *)
Definition nbk (s : text) : bool := forallb (fun c => negb (is_break c)) s.

Lemma count_breaks_nbk_app : forall a b, nbk a = true -> count_breaks (a ++ b) = count_breaks b.
Proof.
  induction a as [|c a IH]; intros b H; [reflexivity|]. simpl in H. apply andb_true_iff in H. destruct H as [Hc Ha].
  apply negb_true_iff in Hc. simpl. rewrite Hc. apply IH. exact Ha.
Qed.

Lemma nbk_app : forall a b, nbk (a ++ b) = nbk a && nbk b.
Proof. intros. unfold nbk. apply forallb_app. Qed.

Lemma nbk_fmt : forall tpl env, forallb (fun p => nbk (fst p)) tpl = true -> (forall f, nbk (env f) = true) ->
  nbk (fmt tpl env) = true.
Proof.
  induction tpl as [|[lit f] tpl IH]; intros env Hl He; [reflexivity|].
  simpl in Hl. apply andb_true_iff in Hl. destruct Hl as [H1 H2].
  unfold fmt. cbn [flat_map fst snd]. rewrite !nbk_app. rewrite H1.
  fold (fmt tpl env). rewrite (IH env H2 He).
  destruct (f =? 9); [reflexivity|]. rewrite He. reflexivity.
Qed.

Local Transparent xid_start xid_continue line_breaks py_space rst_ws.
Lemma templates_one_line : forallb (fun p => nbk (fst p)) depr_with = true /\
                           forallb (fun p => nbk (fst p)) depr_without = true /\
                           nbk depr_wrap_pre = true /\ nbk depr_wrap_post = true.
Proof. vm_compute. auto. Qed.

Local Opaque xid_start xid_continue line_breaks py_space rst_ws.
Lemma identifier_nbk : forall t, validate_identifier t = true -> nbk t = true.
Proof.
  intros t H. unfold nbk. rewrite forallb_forall. intros c Hc.
  destruct (identifier_guard t H c Hc) as [_ [Hb _]]. unfold is_break. rewrite Hb. reflexivity.
Qed.

(* ------------------------------------------------------------------ str.split() / sep.join() *)
Definition nsp (c : N) : bool := negb (is_py_space c).

Lemma py_split_aux_words : forall s cur w,
  forallb nsp cur = true -> In w (py_split_aux cur s) ->
  w <> [] /\ forallb nsp w = true /\ (forall x, In x w -> In x cur \/ In x s).
Proof.
  induction s as [|c r IH]; intros cur w Hcur Hin.
  - simpl in Hin. destruct cur as [|c0 cur']; [destruct Hin|]. destruct Hin as [<-|[]].
    split; [|split].
    + intro E. apply (f_equal (@length N)) in E. rewrite rev_length in E. discriminate.
    + rewrite forallb_forall in *. intros x Hx. apply Hcur. apply in_rev. exact Hx.
    + intros x Hx. left. apply in_rev. exact Hx.
  - simpl in Hin. destruct (is_py_space c) eqn:Ec.
    + destruct cur as [|c0 cur'].
      * destruct (IH [] w eq_refl Hin) as [H1 [H2 H3]]. split; [exact H1|]. split; [exact H2|].
        intros x Hx. destruct (H3 x Hx) as [[]|H]. right. right. exact H.
      * destruct Hin as [<-|Hin].
        -- split; [|split].
           ++ intro E. apply (f_equal (@length N)) in E. rewrite rev_length in E. discriminate.
           ++ rewrite forallb_forall in *. intros x Hx. apply Hcur. apply in_rev. exact Hx.
           ++ intros x Hx. left. apply in_rev. exact Hx.
        -- destruct (IH [] w eq_refl Hin) as [H1 [H2 H3]]. split; [exact H1|]. split; [exact H2|].
           intros x Hx. destruct (H3 x Hx) as [[]|H]. right. right. exact H.
    + assert (Hc : forallb nsp (c :: cur) = true) by (simpl; unfold nsp at 1; rewrite Ec; exact Hcur).
      destruct (IH (c :: cur) w Hc Hin) as [H1 [H2 H3]]. split; [exact H1|]. split; [exact H2|].
      intros x Hx. destruct (H3 x Hx) as [[<-|H]|H]; [right; left; reflexivity | left; exact H | right; right; exact H].
Qed.

Definition word_ok (src : text) (w : text) : Prop :=
  w <> [] /\ forallb nsp w = true /\ (forall x, In x w -> In x src).

Lemma py_split_words : forall s, Forall (word_ok s) (py_split s).
Proof.
  intro s. apply Forall_forall. intros w Hw. destruct (py_split_aux_words s [] w eq_refl Hw) as [H1 [H2 H3]].
  split; [exact H1|]. split; [exact H2|]. intros x Hx. destruct (H3 x Hx) as [[]|H]. exact H.
Qed.

(* the text between the back-quotes: words joined by single spaces *)
Definition edge_ok (body : text) : Prop :=
  match body with [] => True | c :: _ => is_py_space c = false end /\
  is_py_space (last body 1) = false.

Lemma last_app_nonempty : forall (a b : text) d, b <> [] -> last (a ++ b) d = last b d.
Proof.
  induction a as [|x a IH]; intros b d Hb; [reflexivity|]. simpl.
  destruct (a ++ b) eqn:E; [apply app_eq_nil in E; destruct E; contradiction|]. rewrite <- E. apply IH. exact Hb.
Qed.

Lemma nsp_last : forall w, w <> [] -> forallb nsp w = true -> is_py_space (last w 1) = false.
Proof.
  intros w Hne H. rewrite forallb_forall in H.
  assert (Hin : In (last w 1) w).
  { destruct w as [|c w']; [congruence|]. clear H Hne. revert c. induction w' as [|d w'' IH]; intro c; [left; reflexivity|].
    right. apply IH. }
  specialize (H _ Hin). unfold nsp in H. apply negb_true_iff in H. exact H.
Qed.

Lemma space_one_not_space : is_py_space 1 = false.
Proof. vm_compute. reflexivity. Qed.

Lemma join_words : forall src ws, Forall (word_ok src) ws ->
  let body := join [32] ws in
  (forall c, In c body -> c = 32 \/ (In c src /\ is_py_space c = false)) /\ edge_ok body.
Proof.
  intros src ws H. destruct ws as [|w ws']; [simpl; split; [intros c []|split; [exact I|exact space_one_not_space]]|].
  inversion H as [|w0 l [Hne [Hnsp Hsrc]] Hrest]; subst. cbv zeta. unfold join. split.
  - intros c Hc. apply in_app_or in Hc. destruct Hc as [Hc|Hc].
    + right. split; [apply Hsrc; exact Hc|]. rewrite forallb_forall in Hnsp. specialize (Hnsp c Hc).
      unfold nsp in Hnsp. apply negb_true_iff in Hnsp. exact Hnsp.
    + apply in_flat_map in Hc. destruct Hc as [y [Hy Hc]]. destruct Hc as [<-|Hc]; [left; reflexivity|].
      rewrite Forall_forall in Hrest. destruct (Hrest y Hy) as [_ [Hn Hs]]. right. split; [apply Hs; exact Hc|].
      rewrite forallb_forall in Hn. specialize (Hn c Hc). unfold nsp in Hn. apply negb_true_iff in Hn. exact Hn.
  - split.
    + destruct w as [|c w']; [congruence|]. simpl. simpl in Hnsp. apply andb_true_iff in Hnsp. destruct Hnsp as [Hc _].
      unfold nsp in Hc. apply negb_true_iff in Hc. exact Hc.
    + clear H. revert w Hne Hnsp Hsrc. induction ws' as [|y ys IH]; intros w Hne Hnsp Hsrc.
      * simpl. rewrite app_nil_r. apply nsp_last; assumption.
      * inversion Hrest as [|y0 l [Hyne [Hynsp Hysrc]] Hrest']; subst.
        cbn [flat_map]. rewrite last_app_nonempty by discriminate.
        assert (E : last (([32] ++ y) ++ flat_map (fun y0 : list N => [32] ++ y0) ys) 1
                    = last (y ++ flat_map (fun y0 : list N => [32] ++ y0) ys) 1).
        { destruct y as [|c y']; [congruence|]. reflexivity. }
        rewrite E. apply (IH Hrest' y Hyne Hynsp Hysrc).
Qed.

(* every line separator is white space for str.split(); the space that join puts back is not a line separator, and
   a back-quote is not white space *)
Lemma breaks_are_space : forallb (fun b => is_py_space b) line_breaks = true /\ memN 32 line_breaks = false.
Proof. vm_compute. auto. Qed.

Lemma replace1_no : forall a b r x, x = a -> ~ In x b -> ~ In x (replace1 a b r).
Proof.
  intros a b r x -> Hb Hin. unfold replace1 in Hin. apply in_flat_map in Hin. destruct Hin as [c [_ Hc]].
  destruct (c =? a) eqn:E; [contradiction|]. destruct Hc as [<-|[]]. rewrite N.eqb_refl in E. discriminate.
Qed.

(* the repaired clean-up, as the regenerated table has it *)
Lemma depr_ops_now : depr_ops = [(0, 96, [39]); (1, 0, [32])].
Proof. reflexivity. Qed.

Lemma wrap_now : depr_wrap_pre = [96] /\ depr_wrap_post = [96].
Proof. split; reflexivity. Qed.

Theorem replacement_in_one_literal : forall r, validate_identifier r = false ->
  exists body, clean_replacement r = [96] ++ body ++ [96] /\
    ~ In 96 body /\
    (forall c, In c body -> memN c line_breaks = false) /\
    (forall c, In c body -> is_py_space c = true -> c = 32) /\
    edge_ok body.
Proof.
  intros r Hr. unfold clean_replacement, clean_with. rewrite Hr. rewrite depr_ops_now. destruct wrap_now as [-> ->].
  cbn [fold_left apply_op]. change (0 =? 0) with true. change (1 =? 0) with false. cbv iota.
  set (r1 := replace1 96 [39] r).
  exists (join [32] (py_split r1)). split; [reflexivity|].
  destruct (join_words r1 (py_split r1) (py_split_words r1)) as [Hchars Hedge].
  assert (H96 : ~ In 96 r1).
  { unfold r1. apply replace1_no; [reflexivity|]. simpl. intros [E|[]]. discriminate. }
  destruct breaks_are_space as [Hbs H32].
  split; [|split; [|split]].
  - intro Hin. destruct (Hchars 96 Hin) as [E|[Hsrc _]]; [discriminate | contradiction].
  - intros c Hc. destruct (Hchars c Hc) as [->|[_ Hsp]]; [exact H32|].
    destruct (memN c line_breaks) eqn:E; [|reflexivity]. exfalso.
    rewrite forallb_forall in Hbs. apply memN_spec in E. rewrite (Hbs c E) in Hsp. discriminate.
  - intros c Hc Hsp. destruct (Hchars c Hc) as [->|[_ Hn]]; [reflexivity|]. rewrite Hn in Hsp. discriminate.
  - exact Hedge.
Qed.

Lemma clean_replacement_nbk : forall r, nbk (clean_replacement r) = true.
Proof.
  intro r. destruct (validate_identifier r) eqn:E.
  - unfold clean_replacement, clean_with. rewrite E. apply identifier_nbk. exact E.
  - destruct (replacement_in_one_literal r E) as [body [-> [_ [Hb _]]]].
    unfold nbk. rewrite !forallb_app. simpl.
    assert (Hbody : forallb (fun c => negb (is_break c)) body = true).
    { rewrite forallb_forall. intros c Hc. unfold is_break. rewrite (Hb c Hc). reflexivity. }
    rewrite Hbody. reflexivity.
Qed.

(* the document handed to the reST parser: directive line, line break, indented body *)
Definition doc_lit1 : text := [46; 46; 32; 100; 101; 112; 114; 101; 99; 97; 116; 101; 100; 58; 58; 32].
Definition doc_lit2 : text := [10; 32; 32; 32].

Local Transparent xid_start xid_continue line_breaks py_space rst_ws.
Lemma doc_shape : forall version t, deprecation_doc version t = doc_lit1 ++ version ++ doc_lit2 ++ t.
Proof.
  intros. unfold deprecation_doc, fmt, depr_doc, doc_lit1, doc_lit2. simpl.
  rewrite ?app_nil_r. rewrite <- ?app_assoc. simpl. rewrite ?app_nil_r. reflexivity.
Qed.

Lemma doc_lit1_nbk : nbk doc_lit1 = true.
Proof. vm_compute. reflexivity. Qed.

Lemma doc_lit2_break : forall t, count_breaks (doc_lit2 ++ t) = S (count_breaks t).
Proof. intro t. reflexivity. Qed.

Local Opaque xid_start xid_continue line_breaks py_space rst_ws depr_with depr_without.
Theorem deprecate_one_line : forall name package version repl t,
  deprecation_text name package version repl = Some t ->
  nbk name = true -> nbk version = true ->
  count_breaks (deprecation_doc version t) = 1%nat.
Proof.
  intros name package version repl t H Hn Hv. unfold deprecation_text, deprecation_text_with in H.
  destruct (validate_identifier package) eqn:Ep; [|discriminate]. cbn [negb] in H.
  destruct templates_one_line as [Hw [Hwo _]].
  assert (Ht : nbk t = true).
  { destruct repl as [r|]; injection H as <-; apply nbk_fmt; try assumption; intro f.
    - destruct (f =? 0); [exact Hn|]. destruct (f =? 1); [apply identifier_nbk; exact Ep|].
      destruct (f =? 2); [exact Hv|]. destruct (f =? 3); [|reflexivity].
      apply clean_replacement_nbk.
    - destruct (f =? 0); [exact Hn|]. destruct (f =? 1); [apply identifier_nbk; exact Ep|].
      destruct (f =? 2); [exact Hv|]. reflexivity. }
  rewrite doc_shape. rewrite count_breaks_nbk_app by exact doc_lit1_nbk.
  rewrite count_breaks_nbk_app by exact Hv.
  rewrite doc_lit2_break. rewrite <- (app_nil_r t). rewrite count_breaks_nbk_app by exact Ht. reflexivity.
Qed.

Local Transparent xid_start xid_continue line_breaks py_space rst_ws depr_with depr_without.
(* before the repair: a carriage return in the replacement started a new line of reST, and a leading space kept the
   back-quotes from opening a literal *)
Lemma deprecate_old_cr :
  match deprecation_text_old [102] [112] [49] (Some [13]) with
  | Some t => count_breaks (deprecation_doc [49] t) = 2%nat
  | None => False
  end.
Proof. vm_compute. reflexivity. Qed.

Lemma deprecate_old_edge :
  clean_with old_ops [32; 106; 58; 120] = [96; 32; 106; 58; 120; 96] /\
  clean_replacement [32; 106; 58; 120] = [96; 106; 58; 120; 96].
Proof. split; vm_compute; reflexivity. Qed.
