(* Proofs/LinesProofs.v -- lemmas about Spec/CleanDoc.v, Model/Lines.v and Model/Msg.v for C16. *)
From Coq Require Import ZArith NArith List Bool Arith Lia.
From PydoctorVerif Require Import Base.Sexp Spec.CleanDoc Spec.Reporting Model.Msg Model.Lines.
Import ListNotations.

(* ================================================================================================ *)
(* 1. lines                                                                                          *)
(* ================================================================================================ *)


Lemma split_nl_nonnil : forall s, split_nl s <> [].
Proof.
  intros s. destruct s as [|c r]; cbn [split_nl].
  - discriminate.
  - destruct (is_nl c); [discriminate|]. destruct (split_nl r); discriminate.
Qed.

Lemma split_nl_cons : forall s, exists l ls, split_nl s = l :: ls.
Proof.
  intros s. destruct (split_nl s) as [|l ls] eqn:E.
  - exfalso. exact (split_nl_nonnil s E).
  - eauto.
Qed.

Lemma isspace_nl : forall c, is_nl c = true -> isspace c = true.
Proof.
  intros c H. unfold is_nl in H. apply N.eqb_eq in H. subst c. reflexivity.
Qed.

Lemma isspace_32 : isspace 32 = true. Proof. reflexivity. Qed.
Lemma is_nl_32 : is_nl 32 = false. Proof. reflexivity. Qed.

(* ---- the character loop against the line view ---------------------------------------------------- *)
Lemma skip_blank_shift : forall s n k, skip_blank (n + k) s = (skip_blank n s + k)%Z.
Proof.
  induction s as [|c r IH]; intros n k; cbn [skip_blank].
  - reflexivity.
  - destruct (is_nl c).
    + replace (n + k + 1)%Z with ((n + 1) + k)%Z by lia. apply IH.
    + destruct (negb (isspace c)); [reflexivity|apply IH].
Qed.

Lemma skip_blank_lines : forall t n,
  skip_blank n t = (n + Z.of_nat (Nat.min (lead_blank (split_nl t)) (length (split_nl t) - 1)))%Z.
Proof.
  induction t as [|c r IH]; intros n.
  - cbn. lia.
  - cbn [skip_blank split_nl]. destruct (is_nl c) eqn:Hnl.
    + rewrite IH. unfold lead_blank. cbn [take_while blank forallb length].
      destruct (split_nl_cons r) as [l [ls E]]. rewrite E. cbn [length]. lia.
    + destruct (split_nl_cons r) as [l [ls E]]. rewrite E in *.
      destruct (isspace c) eqn:Hsp; cbn [negb].
      * rewrite IH. unfold lead_blank. cbn [take_while blank forallb length]. rewrite Hsp. cbn [andb].
        unfold blank. destruct (forallb isspace l); reflexivity.
      * unfold lead_blank. cbn [take_while blank forallb]. rewrite Hsp. cbn. lia.
Qed.

Lemma skip_blank_repeat32 : forall k n X, skip_blank n (repeat 32%N k ++ X) = skip_blank n X.
Proof.
  induction k as [|k IH]; intros n X; [reflexivity|].
  cbn [repeat app skip_blank]. rewrite is_nl_32, isspace_32. cbn [negb]. apply IH.
Qed.

Lemma skip_blank_expandtabs : forall s col n, skip_blank n (expandtabs_from col s) = skip_blank n s.
Proof.
  induction s as [|c r IH]; intros col n; [reflexivity|].
  cbn [expandtabs_from]. destruct (N.eqb c 9) eqn:H9.
  - apply N.eqb_eq in H9. subst c. rewrite skip_blank_repeat32. rewrite IH. reflexivity.
  - destruct (N.eqb c 10 || N.eqb c 13)%bool; cbn [skip_blank]; destruct (is_nl c);
      try rewrite IH; try reflexivity; destruct (negb (isspace c)); try reflexivity; apply IH.
Qed.

(* ---- expandtabs works line by line ------------------------------------------------------------------ *)
Lemma split_nl_repeat32 : forall k X l ls, split_nl X = l :: ls ->
  split_nl (repeat 32%N k ++ X) = (repeat 32%N k ++ l) :: ls.
Proof.
  induction k as [|k IH]; intros X l ls E; [exact E|].
  cbn [repeat app split_nl]. rewrite is_nl_32. rewrite (IH X l ls E). reflexivity.
Qed.

Lemma split_expandtabs_from : forall s col l ls, split_nl s = l :: ls ->
  split_nl (expandtabs_from col s) = expandtabs_from col l :: map (expandtabs_from 0) ls.
Proof.
  induction s as [|c r IH]; intros col l ls E.
  - cbn in E. injection E as <- <-. reflexivity.
  - cbn [split_nl] in E. cbn [expandtabs_from].
    destruct (split_nl_cons r) as [l' [ls' E']].
    destruct (N.eqb c 9) eqn:H9.
    + apply N.eqb_eq in H9. subst c. change (is_nl 9) with false in E. rewrite E' in E.
      injection E as <- <-.
      rewrite (split_nl_repeat32 _ _ _ _ (IH _ _ _ E')). cbn [expandtabs_from N.eqb]. reflexivity.
    + destruct (is_nl c) eqn:Hnl.
      * injection E as <- <-. unfold is_nl in Hnl. rewrite Hnl. cbn [orb split_nl]. unfold is_nl at 1. rewrite Hnl.
        rewrite (IH 0%nat _ _ E'). rewrite E'. reflexivity.
      * rewrite E' in E. injection E as <- <-. unfold is_nl in Hnl. rewrite Hnl. cbn [orb].
        destruct (N.eqb c 13) eqn:H13.
        -- cbn [split_nl]. unfold is_nl at 1. rewrite Hnl. rewrite (IH 0%nat _ _ E').
           cbn [expandtabs_from]. rewrite H9, Hnl, H13. reflexivity.
        -- cbn [split_nl]. unfold is_nl at 1. rewrite Hnl. rewrite (IH (S col) _ _ E').
           cbn [expandtabs_from]. rewrite H9, Hnl, H13. reflexivity.
Qed.

Lemma split_expandtabs : forall s, split_nl (expandtabs s) = map expandtabs (split_nl s).
Proof.
  intros s. destruct (split_nl_cons s) as [l [ls E]]. unfold expandtabs.
  rewrite (split_expandtabs_from s 0 l ls E). rewrite E. reflexivity.
Qed.

(* ---- content ---------------------------------------------------------------------------------------- *)
Lemma has_content_lines : forall t, has_content t = negb (forallb blank (split_nl t)).
Proof.
  induction t as [|c r IH]; [reflexivity|].
  cbn [has_content existsb split_nl]. fold (has_content r). destruct (is_nl c) eqn:Hnl.
  - rewrite (isspace_nl c Hnl). cbn. exact IH.
  - destruct (split_nl_cons r) as [l [ls E]]. rewrite E in *. cbn [forallb blank] in *.
    destruct (isspace c); cbn; [exact IH|reflexivity].
Qed.

Lemma has_content_repeat32 : forall k X, has_content (repeat 32%N k ++ X) = has_content X.
Proof. induction k as [|k IH]; intros X; [reflexivity|]. cbn. apply IH. Qed.

Lemma has_content_expandtabs : forall s col, has_content (expandtabs_from col s) = has_content s.
Proof.
  induction s as [|c r IH]; intros col; [reflexivity|].
  cbn [expandtabs_from]. destruct (N.eqb c 9) eqn:H9.
  - apply N.eqb_eq in H9. subst c. rewrite has_content_repeat32. rewrite IH. reflexivity.
  - destruct (N.eqb c 10 || N.eqb c 13)%bool; cbn [has_content existsb]; f_equal; apply IH.
Qed.

Lemma lead_blank_lt : forall ls, forallb blank ls = false -> (lead_blank ls < length ls)%nat.
Proof.
  induction ls as [|l ls IH]; intros H; [discriminate|].
  unfold lead_blank. cbn [forallb take_while] in *. destruct (blank l); cbn [length].
  - cbn [andb] in H. specialize (IH H). unfold lead_blank in IH. lia.
  - lia.
Qed.

(* ---- lstrip, indent, margin ---------------------------------------------------------------------------- *)
Lemma lstrip_blank : forall l, blank l = true -> lstrip l = [].
Proof.
  induction l as [|c r IH]; intros H; [reflexivity|].
  cbn [blank forallb] in H. apply andb_true_iff in H as [Hc Hr]. cbn [lstrip]. rewrite Hc. exact (IH Hr).
Qed.

Lemma lstrip_nonblank : forall l, blank l = false -> lstrip l <> [].
Proof.
  induction l as [|c r IH]; intros H; [discriminate|].
  cbn [blank forallb] in H. cbn [lstrip]. destruct (isspace c); [exact (IH H)|discriminate].
Qed.

Lemma lstrip_length : forall l, (length (lstrip l) <= length l)%nat.
Proof.
  induction l as [|c r IH]; [cbn; lia|]. cbn [lstrip]. destruct (isspace c); cbn [length]; lia.
Qed.

Lemma indent_of_blank : forall l, blank l = true -> indent_of l = None.
Proof. intros l H. unfold indent_of. rewrite (lstrip_blank l H). reflexivity. Qed.

Lemma indent_of_nonblank : forall l, blank l = false ->
  exists i, indent_of l = Some i /\ (i < length l)%nat.
Proof.
  intros l H. unfold indent_of. pose proof (lstrip_nonblank l H) as Hn. pose proof (lstrip_length l) as Hl.
  destruct (lstrip l) as [|c r] eqn:E; [contradiction|]. cbn [length Nat.eqb].
  eexists. split; [reflexivity|]. cbn [length] in Hl. lia.
Qed.

Lemma margin_fold_some : forall rest a, exists m, fold_left margin_step rest (Some a) = Some m.
Proof.
  induction rest as [|l rest IH]; intros a; cbn [fold_left]; [eauto|].
  unfold margin_step at 2. destruct (indent_of l); cbn [min_opt]; apply IH.
Qed.

Lemma margin_fold_exists : forall rest acc, forallb blank rest = false ->
  exists m, fold_left margin_step rest acc = Some m.
Proof.
  induction rest as [|l rest IH]; intros acc H; [discriminate|].
  cbn [forallb] in H. cbn [fold_left]. destruct (blank l) eqn:Hb.
  - cbn [andb] in H. apply IH. exact H.
  - destruct (indent_of_nonblank l Hb) as [i [Hi _]]. unfold margin_step at 2. rewrite Hi.
    destruct acc; cbn [min_opt]; apply margin_fold_some.
Qed.

Lemma margin_fold_le : forall rest acc m, fold_left margin_step rest acc = Some m ->
  (forall a, acc = Some a -> (m <= a)%nat) /\
  (forall l i, In l rest -> indent_of l = Some i -> (m <= i)%nat).
Proof.
  induction rest as [|l rest IH]; intros acc m H; cbn [fold_left] in H.
  - split.
    + intros a Ha. rewrite Ha in H. injection H as <-. lia.
    + intros l i [].
  - destruct (IH _ _ H) as [IHa IHl]. split.
    + intros a Ha. subst acc. unfold margin_step in IHa. destruct (indent_of l) as [i|]; cbn [min_opt] in IHa.
      * specialize (IHa _ eq_refl). lia.
      * exact (IHa _ eq_refl).
    + intros l' i [<-|Hin] Hi.
      * unfold margin_step in IHa. rewrite Hi in IHa. destruct acc as [a|]; cbn [min_opt] in IHa.
        -- specialize (IHa _ eq_refl). lia.
        -- exact (IHa _ eq_refl).
      * exact (IHl _ _ Hin Hi).
Qed.

(* ---- dropping empty lines -------------------------------------------------------------------------------- *)
Lemma drop_leading_skipn : forall ls, drop_leading_empty ls = skipn (lead_empty ls) ls.
Proof.
  induction ls as [|l ls IH]; [reflexivity|].
  unfold lead_empty. cbn [drop_leading_empty take_while]. destruct l as [|c r]; cbn [is_empty length skipn].
  - exact IH.
  - reflexivity.
Qed.

Lemma drop_trailing_prefix : forall ls, exists j, ls = drop_trailing_empty ls ++ repeat [] j.
Proof.
  induction ls as [|l ls [j IH]].
  - exists 0%nat. reflexivity.
  - unfold drop_trailing_empty in *. cbn [fold_right].
    set (P := fold_right (fun l acc => match l, acc with [], [] => [] | _, _ => l :: acc end) [] ls) in *.
    destruct l as [|c r].
    + destruct P as [|p P'].
      * exists (S j). cbn [app repeat] in *. rewrite IH at 1. reflexivity.
      * exists j. cbn [app]. rewrite IH at 1. reflexivity.
    + exists j. cbn [app]. rewrite IH at 1. reflexivity.
Qed.

Lemma lead_empty_app_repeat : forall P j, (lead_empty P < length P)%nat ->
  lead_empty (P ++ repeat [] j) = lead_empty P.
Proof.
  induction P as [|p P IH]; intros j H; [cbn in H; lia|].
  unfold lead_empty in *. cbn [app take_while] in *. destruct (is_empty p); cbn [length] in *.
  - f_equal. apply IH. lia.
  - reflexivity.
Qed.

Lemma lead_empty_le_aux : forall P, (length (take_while is_empty P) <= length P)%nat.
Proof.
  induction P as [|p P IH]; [cbn; lia|]. cbn [take_while]. destruct (is_empty p); cbn [length]; lia.
Qed.

Lemma lead_empty_all : forall P, lead_empty P = length P -> forall j, lead_empty (P ++ repeat [] j) = (length P + j)%nat.
Proof.
  induction P as [|p P IH]; intros H j.
  - cbn [app length]. unfold lead_empty. induction j as [|j IHj]; [reflexivity|]. cbn. f_equal. exact IHj.
  - unfold lead_empty in *. cbn [app take_while length] in *. destruct (is_empty p); cbn [length] in *.
    + cbn [Nat.add]. f_equal. apply IH. lia.
    + pose proof (lead_empty_le_aux P). lia.
Qed.

Lemma lead_empty_le : forall P, (lead_empty P <= length P)%nat.
Proof.
  induction P as [|p P IH]; [cbn; lia|]. unfold lead_empty in *. cbn [take_while]. destruct (is_empty p); cbn [length]; lia.
Qed.

Lemma nth_error_skipn : forall {X} (l : list X) a i, nth_error (skipn a l) i = nth_error l (a + i).
Proof.
  intros X l a. revert l. induction a as [|a IH]; intros l i; [reflexivity|].
  destruct l as [|x l]; cbn [skipn Nat.add nth_error].
  - destruct i; reflexivity.
  - apply IH.
Qed.

(* cleaned line i is dedented line (lead_empty D + i), whenever D has a non-empty line *)
Lemma clean_lines_nth : forall D i,
  (lead_empty D < length D)%nat ->
  (i < length (drop_leading_empty (drop_trailing_empty D)))%nat ->
  nth_error (drop_leading_empty (drop_trailing_empty D)) i = nth_error D (lead_empty D + i).
Proof.
  intros D i Hne Hi. destruct (drop_trailing_prefix D) as [j HD].
  remember (drop_trailing_empty D) as P eqn:EP. clear EP.
  assert (HP : (lead_empty P < length P)%nat).
  { pose proof (lead_empty_le P) as Hle. destruct (Nat.eq_dec (lead_empty P) (length P)) as [Heq|]; [|lia].
    exfalso. pose proof (lead_empty_all P Heq j) as Hall. subst D.
    rewrite app_length, repeat_length in Hne. lia. }
  assert (Hk : lead_empty D = lead_empty P).
  { subst D. apply lead_empty_app_repeat. exact HP. }
  rewrite drop_leading_skipn in *. rewrite nth_error_skipn. rewrite skipn_length in Hi.
  rewrite Hk. subst D. rewrite nth_error_app1 by lia. reflexivity.
Qed.

(* ---- the dedented lines -------------------------------------------------------------------------------------- *)
Lemma lead_empty_dedented : forall rest m,
  forallb blank rest = false ->
  forallb (fun l => (length l <=? m)%nat) (take_while blank rest) = true ->
  (forall l i, In l rest -> indent_of l = Some i -> (m <= i)%nat) ->
  lead_empty (map (skipn m) rest) = lead_blank rest.
Proof.
  induction rest as [|l rest IH]; intros m Hc Hfit Hm; [discriminate|].
  unfold lead_empty, lead_blank in *. cbn [map take_while forallb] in *. destruct (blank l) eqn:Hb.
  - cbn [forallb andb] in Hfit, Hc. apply andb_true_iff in Hfit as [Hl Hfit]. apply Nat.leb_le in Hl.
    rewrite (skipn_all2 l Hl). cbn [is_empty length]. f_equal.
    apply IH; [exact Hc|exact Hfit|]. intros l' i Hin. apply Hm. right. exact Hin.
  - destruct (indent_of_nonblank l Hb) as [i [Hi Hlt]]. pose proof (Hm l i (or_introl eq_refl) Hi) as Hmi.
    destruct (skipn m l) as [|c r] eqn:E.
    + exfalso. assert (Hlen : length (skipn m l) = 0%nat) by (rewrite E; reflexivity).
      rewrite skipn_length in Hlen. lia.
    + reflexivity.
Qed.

Lemma nth_error_map' : forall {X Y} (f : X -> Y) l n, nth_error (map f l) n = option_map f (nth_error l n).
Proof.
  intros X Y f l. induction l as [|x l IH]; intros [|n]; cbn; auto.
Qed.

Lemma dedent_nth : forall lines j,
  nth_error (dedent lines) j = option_map (dedent_line (margin_of (tl lines)) j) (nth_error lines j).
Proof.
  intros [|first rest] j.
  - destruct j; reflexivity.
  - cbn [dedent tl]. destruct j as [|j]; [reflexivity|]. cbn [nth_error dedent_line].
    destruct (margin_of rest) as [m|].
    + apply nth_error_map'.
    + destruct (nth_error rest j); reflexivity.
Qed.

Lemma dedent_length : forall lines, length (dedent lines) = length lines.
Proof.
  intros [|first rest]; [reflexivity|]. cbn [dedent length]. destruct (margin_of rest); [rewrite map_length|]; reflexivity.
Qed.

(* the number of lines cleandoc drops at the top = the number of leading blank lines *)
Lemma lead_empty_dedent : forall lines,
  forallb blank lines = false ->
  (match lines with
   | [] => true
   | first :: rest =>
     if blank first then
       match margin_of rest with
       | Some m => forallb (fun l => (length l <=? m)%nat) (take_while blank rest)
       | None => forallb (fun l => (length l =? 0)%nat) (take_while blank rest)
       end
     else true
   end) = true ->
  lead_empty (dedent lines) = lead_blank lines.
Proof.
  intros [|first rest] Hc Hfit; [discriminate|].
  cbn [dedent]. unfold lead_empty, lead_blank. cbn [take_while forallb] in *. destruct (blank first) eqn:Hb.
  - rewrite (lstrip_blank first Hb). cbn [is_empty length andb] in *. f_equal.
    destruct (margin_fold_exists rest None Hc) as [m Hm]. unfold margin_of in *. rewrite Hm in *.
    apply lead_empty_dedented; [exact Hc|exact Hfit|]. exact (proj2 (margin_fold_le rest None m Hm)).
  - pose proof (lstrip_nonblank first Hb) as Hn. destruct (lstrip first); [contradiction|reflexivity].
Qed.

(* ---- alignment ------------------------------------------------------------------------------------------------ *)

Lemma linenum_is_top_dropped : forall s n0, has_content s = true ->
  linenum_of_docstring false n0 s = phys_line n0 (top_dropped s).
Proof.
  intros s n0 Hc. unfold linenum_of_docstring, phys_line, top_dropped.
  rewrite <- (skip_blank_expandtabs s 0 n0). fold (expandtabs s). rewrite skip_blank_lines.
  assert (H : forallb blank (split_nl (expandtabs s)) = false).
  { unfold expandtabs. rewrite <- (has_content_expandtabs s 0) in Hc. rewrite has_content_lines in Hc.
    apply negb_true_iff in Hc. exact Hc. }
  pose proof (lead_blank_lt _ H). f_equal. f_equal. lia.
Qed.

Lemma cleandoc_alignment_nat : forall s i,
  has_content s = true -> leading_ws_fit s = true ->
  (i < length (cleandoc_lines s))%nat ->
  nth_error (cleandoc_lines s) i = clean_line_of_value_line s (top_dropped s + i).
Proof.
  intros s i Hc Hfit Hi. unfold cleandoc_lines in *.
  set (lines := split_nl (expandtabs s)) in *.
  assert (H : forallb blank lines = false).
  { unfold lines, expandtabs. rewrite <- (has_content_expandtabs s 0) in Hc. rewrite has_content_lines in Hc.
    apply negb_true_iff in Hc. exact Hc. }
  assert (Hk : lead_empty (dedent lines) = lead_blank lines).
  { apply lead_empty_dedent; [exact H|]. unfold leading_ws_fit in Hfit. fold lines in Hfit. exact Hfit. }
  rewrite clean_lines_nth; [| rewrite Hk, dedent_length; apply lead_blank_lt; exact H | exact Hi].
  rewrite Hk. rewrite dedent_nth. unfold clean_line_of_value_line, doc_margin, top_dropped. fold lines.
  generalize (lead_blank lines + i)%nat as j. intros j.
  generalize (margin_of (tl lines)) as M. intros M.
  assert (E : nth_error lines j = option_map expandtabs (nth_error (split_nl s) j)).
  { unfold lines. rewrite split_expandtabs. apply nth_error_map'. }
  rewrite E. destruct (nth_error (split_nl s) j); reflexivity.
Qed.

Lemma cleandoc_alignment : forall (s : text) (n0 : Z) (i : nat),
  has_content s = true -> leading_ws_fit s = true ->
  (i < length (cleandoc_lines s))%nat ->
  exists j : nat,
    (linenum_of_docstring false n0 s + Z.of_nat i)%Z = phys_line n0 j /\
    nth_error (cleandoc_lines s) i = clean_line_of_value_line s j.
Proof.
  intros s n0 i Hc Hfit Hi. exists (top_dropped s + i)%nat. split.
  - rewrite (linenum_is_top_dropped s n0 Hc). unfold phys_line. lia.
  - apply cleandoc_alignment_nat; assumption.
Qed.

(* ================================================================================================ *)
(* 2. line arithmetic of report()                                                                    *)
(* ================================================================================================ *)
Local Open Scope Z_scope.

Lemma count_nl_nonneg : forall s, 0 <= count_nl s.
Proof. induction s as [|c r IH]; cbn [count_nl]; [lia|]. destruct (is_nl c); lia. Qed.

Lemma skip_blank_ge : forall s n, n <= skip_blank n s.
Proof.
  induction s as [|c r IH]; intros n; cbn [skip_blank]; [lia|].
  destruct (is_nl c); [specialize (IH (n + 1)); lia|]. destruct (negb (isspace c)); [lia|apply IH].
Qed.

Lemma linenum_shift : forall e n k s, linenum_of_docstring e (n + k) s = linenum_of_docstring e n s + k.
Proof.
  intros e n k s. unfold linenum_of_docstring. destruct e.
  - replace (n + k - count_nl s) with (n - count_nl s + k) by lia. apply skip_blank_shift.
  - apply skip_blank_shift.
Qed.

Lemma linenum_ge : forall n s, n <= linenum_of_docstring false n s.
Proof. intros n s. unfold linenum_of_docstring. apply skip_blank_ge. Qed.

Lemma report_line_base : forall section ds ln off m,
  report_line section ds ln off m =
    if negb (base_of section ds ln =? 0) then Num (base_of section ds ln + off)
    else if negb (off =? 0) && m then Num off else Unknown.
Proof. intros. reflexivity. Qed.

Lemma shift_base_pos : forall k b, 0 <= k -> 0 <= b -> (shift_base k b =? 0) = (b =? 0).
Proof.
  intros k b Hk Hb. unfold shift_base. destruct (b =? 0) eqn:E; [reflexivity|].
  apply Z.eqb_neq in E. apply Z.eqb_neq. lia.
Qed.

Lemma base_of_shift : forall section ds ln k, 0 <= k -> 0 <= ds -> 0 <= ln ->
  base_of section (shift_base k ds) (shift_base k ln) = shift_base k (base_of section ds ln).
Proof.
  intros section ds ln k Hk Hds Hln. unfold base_of. destruct (uses_docstring_base section); [|reflexivity].
  rewrite (shift_base_pos k ds Hk Hds). destruct (ds =? 0); reflexivity.
Qed.

Lemma base_of_nonneg : forall section ds ln, 0 <= ds -> 0 <= ln -> 0 <= base_of section ds ln.
Proof.
  intros section ds ln Hds Hln. unfold base_of. destruct (uses_docstring_base section); [|exact Hln].
  destruct (ds =? 0); assumption.
Qed.

Lemma report_line_shift : forall section ds ln off m k, 0 <= k -> 0 <= ds -> 0 <= ln ->
  report_line section (shift_base k ds) (shift_base k ln) off m =
    if base_of section ds ln =? 0 then report_line section ds ln off m
    else shift_val k (report_line section ds ln off m).
Proof.
  intros section ds ln off m k Hk Hds Hln. rewrite !report_line_base.
  rewrite (base_of_shift section ds ln k Hk Hds Hln).
  pose proof (base_of_nonneg section ds ln Hds Hln) as Hb.
  rewrite (shift_base_pos k _ Hk Hb). destruct (base_of section ds ln =? 0) eqn:E; cbn [negb].
  - reflexivity.
  - unfold shift_base. rewrite E. cbn [shift_val]. f_equal. lia.
Qed.

Lemma report_line_unknown : forall section ds ln off m,
  report_line section ds ln off m = Unknown -> base_of section ds ln = 0.
Proof.
  intros section ds ln off m. rewrite report_line_base. destruct (base_of section ds ln =? 0) eqn:E; cbn [negb].
  - intros _. apply Z.eqb_eq. exact E.
  - discriminate.
Qed.

(* the docstring line of an object whose docstring literal opens on line n0 (None: no docstring) *)
Definition ds_line (doc : option (Z * text)) (k : Z) : Z :=
  match doc with Some (n0, s) => linenum_of_docstring false (n0 + k) s | None => 0 end.

Lemma ds_line_shift : forall doc k, 0 <= k ->
  (forall n0 s, doc = Some (n0, s) -> 1 <= n0) ->
  ds_line doc k = shift_base k (ds_line doc 0) /\ 0 <= ds_line doc 0.
Proof.
  intros [[n0 s]|] k Hk Hpos; cbn [ds_line].
  - specialize (Hpos n0 s eq_refl). rewrite Z.add_0_r. rewrite linenum_shift.
    pose proof (linenum_ge n0 s) as Hge. unfold shift_base.
    destruct (linenum_of_docstring false n0 s =? 0) eqn:E; [apply Z.eqb_eq in E; lia|]. split; [reflexivity|lia].
  - split; [reflexivity|lia].
Qed.

Lemma shift_invariance : forall section doc ln off m k,
  0 <= k -> 0 <= ln -> (forall n0 s, doc = Some (n0, s) -> 1 <= n0) ->
  report_line section (ds_line doc k) (shift_base k ln) off m =
    if base_of section (ds_line doc 0) ln =? 0 then report_line section (ds_line doc 0) ln off m
    else shift_val k (report_line section (ds_line doc 0) ln off m).
Proof.
  intros section doc ln off m k Hk Hln Hpos. destruct (ds_line_shift doc k Hk Hpos) as [E Hds].
  rewrite E. apply report_line_shift; assumption.
Qed.

(* ---- offsets ------------------------------------------------------------------------------------------ *)
Lemma perr_offset_zero_based : forall d z, 0 <= z -> perr_offset {| pe_descr := d; pe_stored := Some z |} = z.
Proof.
  intros d z Hz. unfold perr_offset, perr_linenum. cbn [pe_stored option_map].
  destruct (z + 1 =? 0) eqn:E; [apply Z.eqb_eq in E; lia|lia].
Qed.

Lemma perr_offset_unknown : forall d, perr_offset {| pe_descr := d; pe_stored := None |} = 0.
Proof. reflexivity. Qed.

Lemma uses_docstring_base_docstring : uses_docstring_base sec_docstring = true. Proof. reflexivity. Qed.
Lemma uses_docstring_base_xref : uses_docstring_base sec_xref = true. Proof. reflexivity. Qed.

Lemma report_line_docstring_sections : forall section ds ln off m,
  uses_docstring_base section = true -> ds <> 0 -> report_line section ds ln off m = Num (ds + off).
Proof.
  intros section ds ln off m Hs Hds. rewrite report_line_base. unfold base_of. rewrite Hs.
  apply Z.eqb_neq in Hds. rewrite Hds. rewrite Hds. reflexivity.
Qed.

Lemma report_line_docstring_fallback : forall section ln off m,
  uses_docstring_base section = true -> ln <> 0 -> report_line section 0 ln off m = Num (ln + off).
Proof.
  intros section ln off m Hs Hln. rewrite report_line_base. unfold base_of. rewrite Hs. cbn [Z.eqb].
  apply Z.eqb_neq in Hln. rewrite Hln. reflexivity.
Qed.

Lemma report_line_other_sections : forall section ds ln off m,
  uses_docstring_base section = false -> ln <> 0 -> report_line section ds ln off m = Num (ln + off).
Proof.
  intros section ds ln off m Hs Hln. rewrite report_line_base. unfold base_of. rewrite Hs.
  apply Z.eqb_neq in Hln. rewrite Hln. reflexivity.
Qed.

(* ================================================================================================ *)
(* 3. counting                                                                                       *)
(* ================================================================================================ *)
Lemma text_eqb_eq : forall a b, text_eqb a b = true <-> a = b.
Proof.
  induction a as [|x a IH]; intros [|y b]; cbn [text_eqb]; split; intros H; try discriminate; try reflexivity.
  - apply andb_true_iff in H as [Hx Ha]. apply N.eqb_eq in Hx. apply IH in Ha. subst. reflexivity.
  - injection H as -> ->. rewrite N.eqb_refl. cbn [andb]. apply IH. reflexivity.
Qed.

Lemma key_eqb_eq : forall a b, key_eqb a b = true <-> a = b.
Proof.
  intros [a1 a2] [b1 b2]. unfold key_eqb. cbn [fst snd]. rewrite andb_true_iff, !text_eqb_eq.
  split; [intros [-> ->]; reflexivity|intros H; injection H as -> ->; auto].
Qed.

(* the set of once-keys in the state is the set of keys of earlier once-calls *)
Definition once_inv (st : sys_state) (earlier : list call) : Prop :=
  forall k, existsb (key_eqb k) (once_msgs st) = existsb (fun p => c_once p && key_eqb k (call_key p)) earlier.

Lemma suppressed_model : forall st earlier c, once_inv st earlier ->
  (c_once c && existsb (key_eqb (call_key c)) (once_msgs st))%bool = suppressed earlier c.
Proof.
  intros st earlier c Hinv. unfold suppressed, same_once. rewrite (Hinv (call_key c)). reflexivity.
Qed.

Lemma once_inv_step : forall v st earlier c, once_inv st earlier -> once_inv (msg v st c) (earlier ++ [c]).
Proof.
  intros v st earlier c Hinv k. rewrite existsb_app. cbn [existsb]. rewrite orb_false_r.
  unfold msg. destruct (c_once c && existsb (key_eqb (call_key c)) (once_msgs st))%bool eqn:Hs.
  - apply andb_true_iff in Hs as [Ho Hin]. rewrite Ho. cbn [andb]. rewrite Hinv.
    destruct (key_eqb k (call_key c)) eqn:Hk; [|rewrite orb_false_r; reflexivity].
    apply key_eqb_eq in Hk. subst k. rewrite <- Hinv. rewrite Hin. reflexivity.
  - cbn [once_msgs]. destruct (c_once c); cbn [existsb andb].
    + rewrite Hinv. apply orb_comm.
    + rewrite orb_false_r. apply Hinv.
Qed.

Lemma msg_step : forall v st earlier c, once_inv st earlier ->
  violations (msg v st c) =
    (violations st + N.of_nat (length (filter is_problem (if suppressed earlier c then [] else [c]))))%N /\
  printed (msg v st c) =
    printed st ++ map c_msg (filter (visible v) (if suppressed earlier c then [] else [c])).
Proof.
  intros v st earlier c Hinv. pose proof (suppressed_model st earlier c Hinv) as Hs. unfold msg. rewrite Hs.
  destruct (suppressed earlier c).
  - cbn. rewrite N.add_0_r, app_nil_r. split; reflexivity.
  - cbn [violations printed filter]. unfold is_problem, visible.
    destruct (c_thresh c <? 0); destruct ((c_thresh c <=? v) && (v <=? c_topthresh c))%bool;
      cbn [length map N.of_nat]; rewrite ?app_nil_r; split; try reflexivity; lia.
Qed.

Lemma msgs_effective : forall v cs st earlier, once_inv st earlier ->
  violations (msgs v st cs) = (violations st + N.of_nat (length (filter is_problem (effective earlier cs))))%N /\
  printed (msgs v st cs) = printed st ++ map c_msg (filter (visible v) (effective earlier cs)).
Proof.
  intros v. induction cs as [|c cs IH]; intros st earlier Hinv.
  - cbn. rewrite N.add_0_r, app_nil_r. split; reflexivity.
  - unfold msgs in *. cbn [fold_left effective].
    destruct (IH (msg v st c) (earlier ++ [c]) (once_inv_step v st earlier c Hinv)) as [IHv IHp].
    destruct (msg_step v st earlier c Hinv) as [Sv Sp].
    rewrite IHv, IHp, Sv, Sp. rewrite !filter_app, map_app, !app_length, <- app_assoc. split; [lia|reflexivity].
Qed.

Lemma once_inv_init : forall st, once_msgs st = [] -> once_inv st [].
Proof. intros st H k. rewrite H. reflexivity. Qed.

Lemma every_problem_counted : forall v cs st, once_msgs st = [] ->
  violations (msgs v st cs) = (violations st + N.of_nat (length (problems cs)))%N.
Proof. intros v cs st H. exact (proj1 (msgs_effective v cs st [] (once_inv_init st H))). Qed.

Lemma printed_are_effective : forall v cs st, once_msgs st = [] ->
  printed (msgs v st cs) = printed st ++ map c_msg (filter (visible v) (effective [] cs)).
Proof. intros v cs st H. exact (proj2 (msgs_effective v cs st [] (once_inv_init st H))). Qed.

Lemma filter_filter_le : forall {X} (p q : X -> bool) l,
  (length (filter p (filter q l)) <= length (filter p l))%nat.
Proof.
  intros X p q l. induction l as [|x l IH]; [cbn; lia|]. cbn [filter]. destruct (q x); cbn [filter];
    destruct (p x); cbn [length]; lia.
Qed.

(* a report() is never once=True: it always counts when thresh < 0, whatever the verbosity *)
Lemma report_counts : forall v st o descr section off thresh,
  violations (report v st o descr section off thresh) =
    (violations st + (if (thresh <? 0)%Z then 1 else 0))%N.
Proof.
  intros. unfold report, msg, report_call. cbn [c_once andb c_thresh violations].
  destruct (thresh <? 0); lia.
Qed.

Lemma report_printed : forall v st o descr section off thresh, thresh <= v <= 100 ->
  printed (report v st o descr section off thresh) =
    printed st ++ [report_text (o_description o)
                     (report_line section (o_docstring_lineno o) (o_linenumber o) off (o_is_module o)) descr].
Proof.
  intros v st o descr section off thresh [H1 H2]. unfold report, msg, report_call.
  cbn [c_once andb c_thresh c_topthresh c_msg printed].
  apply Z.leb_le in H1, H2. rewrite H1, H2. reflexivity.
Qed.

(* ================================================================================================ *)
(* 4. exit status                                                                                    *)
(* ================================================================================================ *)
Lemma msgs_violations_mono : forall v cs st, (violations st <= violations (msgs v st cs))%N.
Proof.
  intros v. induction cs as [|c cs IH]; intros st; [cbn; lia|].
  unfold msgs in *. cbn [fold_left]. specialize (IH (msg v st c)).
  assert (violations st <= violations (msg v st c))%N; [|lia].
  unfold msg. destruct (c_once c && existsb (key_eqb (call_key c)) (once_msgs st))%bool; [lia|].
  cbn [violations]. destruct (c_thresh c <? 0); lia.
Qed.

Lemma lookup_nonempty_some : forall sec pe, nonempty (pe_lookup sec pe) = true -> some_parse_error pe = true.
Proof.
  intros sec. induction pe as [|[s names] pe IH]; intros H; [discriminate|].
  cbn [pe_lookup] in H. unfold some_parse_error in *. cbn [existsb snd].
  destruct (text_eqb s sec); [rewrite H; reflexivity|]. rewrite (IH H). apply orb_true_r.
Qed.

Lemma main_tail_status : forall v wae h st pe,
  fst (main_tail v wae h st pe) =
    exit_status_spec wae (violations (snd (main_tail v wae h st pe))) (some_parse_error pe).
Proof.
  intros v wae h st pe. unfold main_tail, exit_status_spec.
  destruct (nonempty (pe_lookup sec_docstring pe)) eqn:Hd.
  - rewrite (lookup_nonempty_some _ _ Hd).
    set (st1 := msgs v st _). rewrite (andb_comm wae).
    destruct (negb (violations st1 =? 0)%N && wae)%bool eqn:E; cbn [fst snd]; rewrite E; reflexivity.
  - fold (some_parse_error pe). rewrite (andb_comm wae).
    destruct (some_parse_error pe); destruct (negb (violations st =? 0)%N && wae)%bool eqn:E; cbn [fst snd];
      rewrite E; reflexivity.
Qed.

Lemma summary_msgs_violations : forall v ms st,
  violations (msgs v st (map summary_call ms)) = (violations st + N.of_nat (length ms))%N.
Proof.
  intros v. induction ms as [|m ms IH]; intros st; [cbn; lia|].
  unfold msgs in *. cbn [map fold_left length]. rewrite IH. unfold msg, summary_call.
  cbn [c_once andb c_thresh violations Z.ltb Z.compare]. lia.
Qed.

Lemma main_tail_violations : forall v wae h st pe,
  violations (snd (main_tail v wae h st pe)) =
    (violations st + (if nonempty (pe_lookup sec_docstring pe)
                      then 1 + N.of_nat (length (pe_lookup sec_docstring pe)) else 0))%N.
Proof.
  intros v wae h st pe. unfold main_tail.
  destruct (nonempty (pe_lookup sec_docstring pe)) eqn:Hd.
  - change (summary_call h :: map (fun fn => summary_call ([32; 32; 32; 32]%N ++ fn)) (pe_lookup sec_docstring pe))
      with (summary_call h :: map (fun fn => summary_call ((fun x => [32; 32; 32; 32]%N ++ x) fn)) (pe_lookup sec_docstring pe)).
    rewrite <- (map_map (fun x => [32; 32; 32; 32]%N ++ x) summary_call).
    change (summary_call h :: map summary_call ?l) with (map summary_call (h :: l)).
    set (ms := h :: _). pose proof (summary_msgs_violations v ms st) as Hv.
    destruct (negb _ && wae)%bool; cbn [snd]; rewrite Hv; unfold ms; cbn [length]; rewrite map_length; unfold text in *; lia.
  - destruct (existsb _ pe); destruct (negb _ && wae)%bool; cbn [snd]; lia.
Qed.

(* reportErrors keeps: some parse error recorded -> at least one problem counted *)
Definition counted_inv (st : sys_state) (pe : parse_errors) : Prop :=
  some_parse_error pe = true -> violations st <> 0%N.

Lemma some_parse_error_add : forall sec name pe, some_parse_error (pe_add sec name pe) = true.
Proof.
  intros sec name. induction pe as [|[s names] pe IH]; [reflexivity|].
  unfold some_parse_error in *. cbn [pe_add]. destruct (text_eqb s sec); cbn [existsb snd].
  - destruct names; reflexivity.
  - rewrite IH. apply orb_true_r.
Qed.

Lemma fold_report_violations : forall v o section errs st,
  violations (fold_left (fun s e => report v s o (bad_prefix section ++ pe_descr e) section (perr_offset e) (-1)) errs st)
  = (violations st + N.of_nat (length errs))%N.
Proof.
  intros v o section. induction errs as [|e errs IH]; intros st; [cbn; lia|].
  cbn [fold_left length]. rewrite IH. rewrite report_counts. cbn. lia.
Qed.

Lemma report_errors_inv : forall v st pe o errs section,
  counted_inv st pe -> counted_inv (fst (report_errors v st pe o errs section)) (snd (report_errors v st pe o errs section)).
Proof.
  intros v st pe o errs section Hinv. unfold report_errors. destruct errs as [|e errs]; [exact Hinv|].
  destruct (existsb _ _); [exact Hinv|]. cbn [fst snd]. intros _. rewrite fold_report_violations. cbn [length]. lia.
Qed.

Lemma report_problem_inv : forall v st pe o p,
  counted_inv st pe -> counted_inv (fst (report_problem v st pe o p)) (snd (report_problem v st pe o p)).
Proof.
  intros v st pe o [d stored|m l|m l] Hinv; cbn [report_problem].
  - apply report_errors_inv. exact Hinv.
  - cbn [fst snd]. intros H. unfold field_report. rewrite report_counts. cbn. lia.
  - cbn [fst snd]. intros H. unfold xref_report. rewrite report_counts. cbn. lia.
Qed.

Lemma run_problems_inv : forall v o ps, counted_inv (fst (run_problems v o ps)) (snd (run_problems v o ps)).
Proof.
  intros v o ps. unfold run_problems.
  assert (H : forall sp, counted_inv (fst sp) (snd sp) ->
              counted_inv (fst (fold_left (fun sp p => report_problem v (fst sp) (snd sp) o p) ps sp))
                          (snd (fold_left (fun sp p => report_problem v (fst sp) (snd sp) o p) ps sp))).
  { induction ps as [|p ps IH]; intros sp Hsp; [exact Hsp|]. cbn [fold_left]. apply IH. apply report_problem_inv. exact Hsp. }
  apply H. intros Hc. discriminate.
Qed.

(* the exit status in terms of what was counted BEFORE the summary is printed *)
Lemma exit_iff : forall v wae h st pe, counted_inv st pe ->
  fst (main_tail v wae h st pe) = exit_status_spec wae (violations st) (some_parse_error pe).
Proof.
  intros v wae h st pe Hinv. rewrite main_tail_status. rewrite main_tail_violations. unfold exit_status_spec.
  destruct (nonempty (pe_lookup sec_docstring pe)) eqn:Hd.
  - pose proof (Hinv (lookup_nonempty_some _ _ Hd)) as Hv.
    assert (E1 : (violations st =? 0)%N = false) by (apply N.eqb_neq; exact Hv).
    assert (E2 : (violations st + (1 + N.of_nat (length (pe_lookup sec_docstring pe))) =? 0)%N = false)
      by (apply N.eqb_neq; lia).
    rewrite E1, E2. reflexivity.
  - rewrite N.add_0_r. reflexivity.
Qed.

Lemma one_run_status : forall v wae h o ps,
  fst (one_run v wae h o ps) =
    exit_status_spec wae (violations (fst (run_problems v o ps))) (some_parse_error (snd (run_problems v o ps))).
Proof.
  intros v wae h o ps. unfold one_run. pose proof (run_problems_inv v o ps) as Hinv.
  destruct (run_problems v o ps) as [st pe]. cbn [fst snd] in *. apply exit_iff. exact Hinv.
Qed.

(* ================================================================================================ *)
(* 5. statements in the shape Props/C16.v exports                                                    *)
(* ================================================================================================ *)
Lemma offset_bases : forall ds ln off m,
  ds <> 0 ->
  (forall d z, 0 <= z ->
     report_line sec_docstring ds ln (perr_offset {| pe_descr := d; pe_stored := Some z |}) m = Num (ds + z)) /\
  (forall d, report_line sec_docstring ds ln (perr_offset {| pe_descr := d; pe_stored := None |}) m = Num ds) /\
  report_line sec_docstring ds ln off m = Num (ds + off) /\
  field_attr_lineno ds off = ds + off /\
  report_line sec_xref ds ln off m = Num (ds + off) /\
  (forall section, uses_docstring_base section = false -> ln <> 0 ->
     report_line section ds ln off m = Num (ln + off)).
Proof.
  intros ds ln off m Hds. repeat split.
  - intros d z Hz. rewrite (perr_offset_zero_based d z Hz).
    apply report_line_docstring_sections; [reflexivity|exact Hds].
  - intros d. rewrite perr_offset_unknown. rewrite (report_line_docstring_sections sec_docstring ds ln 0 m eq_refl Hds).
    f_equal. lia.
  - apply report_line_docstring_sections; [reflexivity|exact Hds].
  - apply report_line_docstring_sections; [reflexivity|exact Hds].
  - intros section Hs Hln. apply report_line_other_sections; assumption.
Qed.

(* what the three reporting paths print, for an object whose docstring line is set *)
Lemma reports_print : forall v st o m l, -1 <= v <= 100 -> o_docstring_lineno o <> 0 ->
  printed (field_report v st o m l) =
    printed st ++ [report_text (o_description o) (Num (o_docstring_lineno o + l)) m] /\
  printed (xref_report v st o m l) =
    printed st ++ [report_text (o_description o) (Num (o_docstring_lineno o + l)) m] /\
  (forall pe d z, 0 <= z -> existsb (text_eqb (o_fullname o)) (pe_lookup sec_docstring pe) = false ->
     printed (fst (report_errors v st pe o [{| pe_descr := d; pe_stored := Some z |}] sec_docstring)) =
       printed st ++ [report_text (o_description o) (Num (o_docstring_lineno o + z)) (bad_prefix sec_docstring ++ d)]).
Proof.
  intros v st o m l Hv Hds. repeat split.
  - unfold field_report. rewrite report_printed by lia.
    rewrite (report_line_docstring_sections sec_docstring _ _ _ _ eq_refl Hds). reflexivity.
  - unfold xref_report. rewrite report_printed by lia.
    rewrite (report_line_docstring_sections sec_xref _ _ _ _ eq_refl Hds). reflexivity.
  - intros pe d z Hz Hnew. unfold report_errors. rewrite Hnew. cbn [fst fold_left].
    rewrite report_printed by lia. rewrite (perr_offset_zero_based d z Hz).
    rewrite (report_line_docstring_sections sec_docstring _ _ _ _ eq_refl Hds). reflexivity.
Qed.

Lemma counting_ignores_verbosity : forall v1 v2 cs st, once_msgs st = [] ->
  violations (msgs v1 st cs) = violations (msgs v2 st cs).
Proof. intros v1 v2 cs st H. rewrite !every_problem_counted by exact H. reflexivity. Qed.

(* every problem message that reaches stdout has been counted *)
Lemma printed_problems_counted : forall v cs st, once_msgs st = [] ->
  (N.of_nat (length (filter is_problem (filter (visible v) (effective [] cs)))) <= violations (msgs v st cs) - violations st)%N.
Proof.
  intros v cs st H. rewrite (every_problem_counted v cs st H). unfold problems.
  pose proof (filter_filter_le is_problem (visible v) (effective [] cs)). lia.
Qed.

Lemma exit_iff_cases : forall v wae h st pe, counted_inv st pe ->
  (wae = true -> (fst (main_tail v wae h st pe) = 3 <-> (1 <= violations st)%N)) /\
  (wae = false -> (fst (main_tail v wae h st pe) = 2 <-> some_parse_error pe = true) /\
                  (fst (main_tail v wae h st pe) = 0 <-> some_parse_error pe = false)).
Proof.
  intros v wae h st pe Hinv. rewrite (exit_iff v wae h st pe Hinv). unfold exit_status_spec. split.
  - intros ->. cbn [andb]. destruct (violations st =? 0)%N eqn:E; cbn [negb].
    + apply N.eqb_eq in E. destruct (some_parse_error pe); split; intros H; try discriminate; lia.
    + apply N.eqb_neq in E. split; [intros _; lia|reflexivity].
  - intros ->. cbn [andb]. destruct (some_parse_error pe); split; split; intros H; try discriminate; reflexivity.
Qed.

(* one problem of each kind, default verbosity: counted once; status 3 with -W, else 2 iff it is a parse error *)
Lemma one_problem_status : forall v wae h o p,
  violations (fst (run_problems v o [p])) = 1%N /\
  fst (one_run v wae h o [p]) =
    if wae then 3 else match p with PParse _ _ => 2 | _ => 0 end.
Proof.
  intros v wae h o p. rewrite one_run_status. unfold run_problems. cbn [fold_left fst snd].
  destruct p as [d stored|m l|m l]; cbn [report_problem].
  - unfold report_errors. cbn [pe_lookup existsb fst snd fold_left]. rewrite report_counts. cbn [pe_add].
    split; [reflexivity|]. destruct wae; reflexivity.
  - cbn [fst snd]. unfold field_report. rewrite report_counts. split; [reflexivity|]. destruct wae; reflexivity.
  - cbn [fst snd]. unfold xref_report. rewrite report_counts. split; [reflexivity|]. destruct wae; reflexivity.
Qed.

(* the refuted witness: "\n      \n  text" *)
Definition w_doc : text := [10; 32;32;32;32;32;32; 10; 32;32;116;101;120;116]%N.

Lemma alignment_refuted :
  ~ (forall (s : text) (n0 : Z) (i : nat),
       has_content s = true -> (i < length (cleandoc_lines s))%nat ->
       exists j : nat,
         (linenum_of_docstring false n0 s + Z.of_nat i)%Z = phys_line n0 j /\
         nth_error (cleandoc_lines s) i = clean_line_of_value_line s j).
Proof.
  intros H. assert (Hl : (0 < length (cleandoc_lines w_doc))%nat) by (vm_compute; lia).
  destruct (H w_doc 0 0%nat eq_refl Hl) as [j [Hj Hn]].
  assert (j = 2%nat).
  { unfold phys_line in Hj. change (linenum_of_docstring false 0 w_doc) with 2 in Hj. lia. }
  subst j. vm_compute in Hn. discriminate.
Qed.

(* and by how much: the loop says 2 lines were dropped, cleandoc dropped 1 *)
Lemma alignment_refuted_by_one :
  leading_ws_fit w_doc = false /\
  linenum_of_docstring false 0 w_doc = 2 /\
  nth_error (cleandoc_lines w_doc) 0 = clean_line_of_value_line w_doc 1 /\
  nth_error (cleandoc_lines w_doc) 1 = clean_line_of_value_line w_doc 2.
Proof. vm_compute. repeat split. Qed.

(* the reST reader (after 105813f) converts docutils' 1-based line: cleaned line L-1 is on physical line ds + L - 1 *)
Lemma rst_parse_error_line : forall ds ln m d L, ds <> 0 -> 1 <= L ->
  report_line sec_docstring ds ln (perr_offset (rst_reader_perr d (Some L))) m = Num (ds + (L - 1)).
Proof.
  intros ds ln m d L Hds HL. unfold rst_reader_perr. cbn [option_map]. rewrite perr_offset_zero_based by lia.
  apply (report_line_docstring_sections sec_docstring ds ln (L - 1) m eq_refl Hds).
Qed.

Lemma rst_parse_error_unknown_line : forall ds ln m d, ds <> 0 ->
  report_line sec_docstring ds ln (perr_offset (rst_reader_perr d None)) m = Num ds.
Proof.
  intros ds ln m d Hds. unfold rst_reader_perr. cbn [option_map]. rewrite perr_offset_unknown.
  rewrite (report_line_docstring_sections sec_docstring ds ln 0 m eq_refl Hds). f_equal. lia.
Qed.

(* the reader before the repair stored the 1-based line: every reST parse error was one line too low *)
Lemma rst_parse_error_old_one_too_large : forall ds ln m d L, ds <> 0 -> 1 <= L ->
  report_line sec_docstring ds ln (perr_offset (rst_reader_perr_old d (Some L))) m = Num (ds + (L - 1) + 1).
Proof.
  intros ds ln m d L Hds HL. unfold rst_reader_perr_old. rewrite perr_offset_zero_based by lia.
  rewrite (report_line_docstring_sections sec_docstring ds ln L m eq_refl Hds). f_equal. lia.
Qed.

Lemma rst_parse_error_line_old_refuted :
  ~ (forall ds ln m d L, ds <> 0 -> 1 <= L ->
       report_line sec_docstring ds ln (perr_offset (rst_reader_perr_old d (Some L))) m = Num (ds + (L - 1))).
Proof.
  intros H. specialize (H 2 0 false [] 1 ltac:(lia) ltac:(lia)). vm_compute in H. discriminate.
Qed.

(* the unsplittable-consolidated-field error still stores node.line (1-based) *)
Lemma rst_consolidated_one_too_large : forall ds ln m d L, ds <> 0 -> 1 <= L ->
  report_line sec_docstring ds ln (perr_offset (rst_consolidated_perr d L)) m = Num (ds + (L - 1) + 1).
Proof.
  intros ds ln m d L Hds HL. unfold rst_consolidated_perr. rewrite perr_offset_zero_based by lia.
  rewrite (report_line_docstring_sections sec_docstring ds ln L m eq_refl Hds). f_equal. lia.
Qed.

Lemma rst_consolidated_line_refuted :
  ~ (forall ds ln m d L, ds <> 0 -> 1 <= L ->
       report_line sec_docstring ds ln (perr_offset (rst_consolidated_perr d L)) m = Num (ds + (L - 1))).
Proof.
  intros H. specialize (H 2 0 false [] 3 ltac:(lia) ltac:(lia)). vm_compute in H. discriminate.
Qed.

Lemma epytext_parse_error_line : forall ds ln m d startline, ds <> 0 -> 0 <= startline ->
  report_line sec_docstring ds ln (perr_offset (epytext_perr d startline)) m = Num (ds + startline).
Proof.
  intros ds ln m d z Hds Hz. unfold epytext_perr. rewrite perr_offset_zero_based by lia.
  apply (report_line_docstring_sections sec_docstring ds ln z m eq_refl Hds).
Qed.

(* ================================================================================================ *)
(* 6. by how much the docstring line overshoots in general                                           *)
(* ================================================================================================ *)
Lemma lead_empty_map_le : forall rest m,
  (forall l i, In l rest -> indent_of l = Some i -> (m <= i)%nat) ->
  (lead_empty (map (skipn m) rest) <= lead_blank rest)%nat.
Proof.
  induction rest as [|l rest IH]; intros m Hm; [cbn; lia|].
  unfold lead_empty, lead_blank in *. cbn [map take_while]. destruct (blank l) eqn:Hb.
  - cbn [length]. assert (H : (length (take_while is_empty (map (skipn m) rest)) <= length (take_while blank rest))%nat).
    { apply IH. intros l' i Hin. apply Hm. right. exact Hin. }
    destruct (is_empty (skipn m l)); cbn [length]; lia.
  - destruct (indent_of_nonblank l Hb) as [i [Hi Hlt]]. pose proof (Hm l i (or_introl eq_refl) Hi) as Hmi.
    destruct (skipn m l) as [|c r] eqn:E.
    + exfalso. assert (Hlen : length (skipn m l) = 0%nat) by (rewrite E; reflexivity).
      rewrite skipn_length in Hlen. lia.
    + cbn. lia.
Qed.

Lemma lead_empty_dedent_le : forall lines, forallb blank lines = false ->
  (lead_empty (dedent lines) <= lead_blank lines)%nat.
Proof.
  intros [|first rest] Hc; [discriminate|].
  cbn [dedent]. unfold lead_empty, lead_blank. cbn [take_while forallb] in *. destruct (blank first) eqn:Hb.
  - rewrite (lstrip_blank first Hb). cbn [is_empty length andb] in *.
    destruct (margin_fold_exists rest None Hc) as [m Hm]. unfold margin_of. rewrite Hm.
    pose proof (lead_empty_map_le rest m (proj2 (margin_fold_le rest None m Hm))) as H.
    unfold lead_empty, lead_blank in H. lia.
  - pose proof (lstrip_nonblank first Hb) as Hn. destruct (lstrip first); [contradiction|cbn; lia].
Qed.

Lemma cleandoc_overshoot_nat : forall s i, has_content s = true ->
  (i < length (cleandoc_lines s))%nat ->
  (top_kept s <= top_dropped s)%nat /\
  nth_error (cleandoc_lines s) i = clean_line_of_value_line s (top_kept s + i).
Proof.
  intros s i Hc Hi. unfold cleandoc_lines, top_kept, top_dropped in *.
  set (lines := split_nl (expandtabs s)) in *.
  assert (H : forallb blank lines = false).
  { unfold lines, expandtabs. rewrite <- (has_content_expandtabs s 0) in Hc. rewrite has_content_lines in Hc.
    apply negb_true_iff in Hc. exact Hc. }
  pose proof (lead_empty_dedent_le lines H) as Hle. split; [exact Hle|].
  rewrite clean_lines_nth; [| rewrite dedent_length; pose proof (lead_blank_lt _ H); lia | exact Hi].
  rewrite dedent_nth. unfold clean_line_of_value_line, doc_margin. fold lines.
  generalize (lead_empty (dedent lines) + i)%nat as j. intros j.
  generalize (margin_of (tl lines)) as M. intros M.
  assert (E : nth_error lines j = option_map expandtabs (nth_error (split_nl s) j)).
  { unfold lines. rewrite split_expandtabs. apply nth_error_map'. }
  rewrite E. destruct (nth_error (split_nl s) j); reflexivity.
Qed.

Lemma cleandoc_overshoot : forall (s : text) (n0 : Z) (i : nat),
  has_content s = true -> (i < length (cleandoc_lines s))%nat ->
  exists j : nat,
    (top_kept s <= top_dropped s)%nat /\
    (linenum_of_docstring false n0 s + Z.of_nat i)%Z = (phys_line n0 j + Z.of_nat (top_dropped s - top_kept s))%Z /\
    nth_error (cleandoc_lines s) i = clean_line_of_value_line s j.
Proof.
  intros s n0 i Hc Hi. destruct (cleandoc_overshoot_nat s i Hc Hi) as [Hle Hn].
  exists (top_kept s + i)%nat. split; [exact Hle|]. split; [|exact Hn].
  rewrite (linenum_is_top_dropped s n0 Hc). unfold phys_line. lia.
Qed.

Lemma fit_no_overshoot : forall s, has_content s = true -> leading_ws_fit s = true -> top_kept s = top_dropped s.
Proof.
  intros s Hc Hfit. unfold top_kept, top_dropped.
  set (lines := split_nl (expandtabs s)) in *.
  assert (H : forallb blank lines = false).
  { unfold lines, expandtabs. rewrite <- (has_content_expandtabs s 0) in Hc. rewrite has_content_lines in Hc.
    apply negb_true_iff in Hc. exact Hc. }
  apply lead_empty_dedent; [exact H|]. unfold leading_ws_fit in Hfit. fold lines in Hfit. exact Hfit.
Qed.

(* a parse error of an inherited docstring is reported for the object that DEFINES the docstring: its file, its
   docstring line; once, however many overriding objects inherit the docstring *)
Lemma inherited_reported_at_source : forall v st pe o1 o2 source d z,
  -1 <= v <= 100 -> o_docstring_lineno source <> 0 -> 0 <= z ->
  existsb (text_eqb (o_fullname source)) (pe_lookup sec_docstring pe) = false ->
  let r1 := parse_docstring_report v st pe o1 source [{| pe_descr := d; pe_stored := Some z |}] sec_docstring in
  let r2 := parse_docstring_report v (fst r1) (snd r1) o2 source [{| pe_descr := d; pe_stored := Some z |}] sec_docstring in
  printed (fst r1) = printed st ++ [report_text (o_description source) (Num (o_docstring_lineno source + z))
                                               (bad_prefix sec_docstring ++ d)] /\
  r2 = r1.
Proof.
  intros v st pe o1 o2 source d z Hv Hds Hz Hnew r1 r2. split.
  - unfold r1, parse_docstring_report.
    exact (proj2 (proj2 (reports_print v st source d z Hv Hds)) pe d z Hz Hnew).
  - unfold r2, r1, parse_docstring_report, report_errors. rewrite Hnew. cbn [fst snd].
    assert (H : existsb (text_eqb (o_fullname source)) (pe_lookup sec_docstring (pe_add sec_docstring (o_fullname source) pe)) = true).
    { clear. induction pe as [|[s names] pe IH]; cbn [pe_add pe_lookup].
      - change (text_eqb sec_docstring sec_docstring) with true. cbn [existsb].
        rewrite (proj2 (text_eqb_eq _ _) eq_refl). reflexivity.
      - destruct (text_eqb s sec_docstring) eqn:E; cbn [pe_lookup]; rewrite E.
        + rewrite existsb_app. cbn [existsb]. rewrite (proj2 (text_eqb_eq _ _) eq_refl). rewrite orb_true_r. reflexivity.
        + exact IH. }
    rewrite H. reflexivity.
Qed.

(* ================================================================================================ *)
(* 7. reST field lines, get_lineno, the docstring envelope                                           *)
(* ================================================================================================ *)
Lemma rst_field_line : forall ds ln m L, ds <> 0 ->
  report_line sec_docstring ds ln (rst_field_lineno L) m = Num (ds + (L - 1)) /\
  field_attr_lineno ds (rst_field_lineno L) = ds + (L - 1).
Proof.
  intros ds ln m L Hds. split; [|reflexivity].
  apply (report_line_docstring_sections sec_docstring ds ln (L - 1) m eq_refl Hds).
Qed.

Lemma epytext_field_line : forall ds ln m z, ds <> 0 ->
  report_line sec_docstring ds ln (epytext_field_lineno z) m = Num (ds + Z.of_nat z).
Proof. intros ds ln m z Hds. apply (report_line_docstring_sections sec_docstring ds ln _ m eq_refl Hds). Qed.

(* docutils nodes: the reference has no line of its own; its block (first ancestor with a line) is on 1-based line pl and
   the reference comes nl newlines into it *)
Lemma get_lineno_rst : forall ds ln m pl nl, ds <> 0 ->
  report_line sec_xref ds ln (get_lineno 0 (Some (pl, nl))) m = Num (ds + (pl - 1) + nl).
Proof.
  intros ds ln m pl nl Hds. unfold get_lineno. cbn [Z.eqb negb].
  rewrite (report_line_docstring_sections sec_xref ds ln _ m eq_refl Hds). f_equal. lia.
Qed.

(* epytext nodes: to_node() puts the 0-based Token.startline on the reference itself, no ancestor carries a line *)
Lemma get_lineno_epytext : forall ds ln m z, ds <> 0 -> 0 <= z ->
  report_line sec_xref ds ln (get_lineno z None) m = Num (ds + z).
Proof.
  intros ds ln m z Hds Hz. unfold get_lineno. destruct (z =? 0) eqn:E; cbn [negb].
  - apply Z.eqb_eq in E. subst z. apply (report_line_docstring_sections sec_xref ds ln 0 m eq_refl Hds).
  - apply (report_line_docstring_sections sec_xref ds ln z m eq_refl Hds).
Qed.

(* the first branch returns node.line as it is: were it ever a docutils (1-based) line, the report would be one too low *)
Lemma get_lineno_own_line_refuted :
  ~ (forall ds ln m L anc, ds <> 0 -> 1 <= L ->
       report_line sec_xref ds ln (get_lineno L anc) m = Num (ds + (L - 1))).
Proof.
  intros H. specialize (H 2 0 false 1 None ltac:(lia) ltac:(lia)). vm_compute in H. discriminate.
Qed.

Lemma cleandoc_lines_value_lines : forall s j, clean_line_of_value_line s j <> None -> (j < length (split_nl s))%nat.
Proof.
  intros s j H. unfold clean_line_of_value_line in H. destruct (nth_error (split_nl s) j) eqn:E; [|contradiction].
  apply nth_error_Some. rewrite E. discriminate.
Qed.

(* any report whose parser line lies inside the cleaned docstring is printed with a line inside the literal *)
Lemma report_inside_docstring : forall (s : text) (n0 off : Z),
  has_content s = true -> leading_ws_fit s = true ->
  0 <= off < Z.of_nat (length (cleandoc_lines s)) ->
  n0 <= linenum_of_docstring false n0 s + off <= n0 + Z.of_nat (length (split_nl s)) - 1.
Proof.
  intros s n0 off Hc Hfit Hoff.
  assert (Hi : (Z.to_nat off < length (cleandoc_lines s))%nat) by lia.
  destruct (cleandoc_alignment s n0 (Z.to_nat off) Hc Hfit Hi) as [j [Hj Hline]].
  assert (Hsome : nth_error (cleandoc_lines s) (Z.to_nat off) <> None) by (apply nth_error_Some; exact Hi).
  rewrite Hline in Hsome. pose proof (cleandoc_lines_value_lines s j Hsome) as Hjlt.
  rewrite Z2Nat.id in Hj by lia. rewrite Hj. unfold phys_line. lia.
Qed.

(* without the guard: never before the literal, and at most the overshoot past its last line *)
Lemma report_inside_docstring_general : forall (s : text) (n0 off : Z),
  has_content s = true ->
  0 <= off < Z.of_nat (length (cleandoc_lines s)) ->
  n0 <= linenum_of_docstring false n0 s + off <=
    n0 + Z.of_nat (length (split_nl s)) - 1 + Z.of_nat (top_dropped s - top_kept s).
Proof.
  intros s n0 off Hc Hoff.
  assert (Hi : (Z.to_nat off < length (cleandoc_lines s))%nat) by lia.
  destruct (cleandoc_overshoot s n0 (Z.to_nat off) Hc Hi) as [j [Hle [Hj Hline]]].
  assert (Hsome : nth_error (cleandoc_lines s) (Z.to_nat off) <> None) by (apply nth_error_Some; exact Hi).
  rewrite Hline in Hsome. pose proof (cleandoc_lines_value_lines s j Hsome) as Hjlt.
  rewrite Z2Nat.id in Hj by lia. rewrite Hj. unfold phys_line. lia.
Qed.

(* ... for each of the three report paths *)
Lemma every_path_inside_docstring : forall (s : text) (n0 ln off : Z) (m : bool) (d : text),
  1 <= n0 -> has_content s = true -> leading_ws_fit s = true ->
  0 <= off < Z.of_nat (length (cleandoc_lines s)) ->
  let ds := linenum_of_docstring false n0 s in
  let inside v := exists z, v = Num z /\ n0 <= z <= n0 + Z.of_nat (length (split_nl s)) - 1 in
  inside (report_line sec_docstring ds ln (perr_offset {| pe_descr := d; pe_stored := Some off |}) m) /\
  inside (report_line sec_docstring ds ln off m) /\
  inside (report_line sec_xref ds ln off m).
Proof.
  intros s n0 ln off m d Hn0 Hc Hfit Hoff ds inside.
  pose proof (report_inside_docstring s n0 off Hc Hfit Hoff) as Hin. fold ds in Hin.
  assert (Hds : ds <> 0) by (pose proof (linenum_ge n0 s); unfold ds; lia).
  destruct (offset_bases ds ln off m Hds) as [P1 [_ [P3 [_ [P5 _]]]]].
  repeat split.
  - exists (ds + off). split; [apply P1; lia|exact Hin].
  - exists (ds + off). split; [exact P3|exact Hin].
  - exists (ds + off). split; [exact P5|exact Hin].
Qed.

(* ================================================================================================ *)
(* 8. once: suppressed means already handled                                                         *)
(* ================================================================================================ *)
Lemma existsb_first : forall {X} (p : X -> bool) l, existsb p l = true ->
  exists l1 x l2, l = l1 ++ x :: l2 /\ p x = true /\ existsb p l1 = false.
Proof.
  intros X p. induction l as [|a l IH]; intros H; [discriminate|]. cbn [existsb] in H. destruct (p a) eqn:E.
  - exists [], a, l. auto.
  - cbn [orb] in H. destruct (IH H) as [l1 [x [l2 [-> [Hx Hn]]]]]. exists (a :: l1), x, l2.
    repeat split; [exact Hx|]. cbn [existsb]. rewrite E. exact Hn.
Qed.

Lemma existsb_ext' : forall {X} (p q : X -> bool) l, (forall x, p x = q x) -> existsb p l = existsb q l.
Proof. intros X p q l H. induction l as [|a l IH]; [reflexivity|]. cbn [existsb]. rewrite H, IH. reflexivity. Qed.

Lemma existsb_map' : forall {X Y} (g : X -> Y) (p : Y -> bool) l, existsb p (map g l) = existsb (fun x => p (g x)) l.
Proof. intros X Y g p l. induction l as [|a l IH]; [reflexivity|]. cbn [map existsb]. rewrite IH. reflexivity. Qed.

Lemma existsb_ext_false : forall {X} (p q : X -> bool) l, (forall x, p x = q x) -> existsb q l = false -> existsb p l = false.
Proof. intros X p q l H E. rewrite (existsb_ext' p q l H). exact E. Qed.

(* a suppressed call repeats an EARLIER once-only call with the same (section, message) that was itself not suppressed *)
Lemma suppressed_has_first : forall pre c, suppressed pre c = true ->
  exists pre1 c0 pre2, pre = pre1 ++ c0 :: pre2 /\ c_once c0 = true /\
    key_eqb (call_key c) (call_key c0) = true /\ suppressed pre1 c0 = false.
Proof.
  intros pre c H. unfold suppressed in H. apply andb_true_iff in H as [Ho Hex].
  destruct (existsb_first (same_once c) pre Hex) as [pre1 [c0 [pre2 [-> [Hc0 Hnone]]]]].
  unfold same_once in Hc0. apply andb_true_iff in Hc0 as [Ho0 Hk].
  exists pre1, c0, pre2. repeat split; try assumption.
  unfold suppressed. rewrite Ho0. cbn [andb].
  apply (existsb_ext_false (same_once c0) (same_once c) pre1); [|exact Hnone].
  intros x. unfold same_once. apply key_eqb_eq in Hk. rewrite Hk. reflexivity.
Qed.

Lemma effective_app : forall a b e, effective e (a ++ b) = effective e a ++ effective (e ++ a) b.
Proof.
  induction a as [|c a IH]; intros b e; cbn [app effective].
  - rewrite app_nil_r. reflexivity.
  - rewrite IH. rewrite <- !app_assoc. cbn [app]. reflexivity.
Qed.

Lemma once_suppressed_already_counted : forall v pre c,
  (forall d, In d pre -> c_once d = true -> key_eqb (call_key c) (call_key d) = true -> is_problem d = is_problem c) ->
  suppressed pre c = true -> is_problem c = true ->
  (1 <= violations (msgs v init_state pre))%N.
Proof.
  intros v pre c Hg Hs Hp. destruct (suppressed_has_first pre c Hs) as [pre1 [c0 [pre2 [-> [Ho0 [Hk Hns]]]]]].
  rewrite every_problem_counted by reflexivity. unfold problems.
  rewrite effective_app. cbn [effective app]. rewrite Hns. cbn [app].
  rewrite !filter_app. cbn [filter].
  assert (Hp0 : is_problem c0 = true).
  { rewrite (Hg c0); [exact Hp|apply in_or_app; right; left; reflexivity|exact Ho0|exact Hk]. }
  rewrite Hp0. rewrite !app_length. cbn [length violations init_state]. lia.
Qed.

Lemma once_suppressed_uncounted_refuted :
  ~ (forall v pre c, suppressed pre c = true -> is_problem c = true -> (1 <= violations (msgs v init_state pre))%N).
Proof.
  intros H.
  specialize (H 0 [{| c_section := []; c_msg := []; c_thresh := 0; c_topthresh := 100; c_once := true |}]
                {| c_section := []; c_msg := []; c_thresh := -1; c_topthresh := 100; c_once := true |} eq_refl eq_refl).
  vm_compute in H. apply H. reflexivity.
Qed.

(* ---- the refinement: per (section, message), counted = plain problems + 1 if there is a once-only problem ---- *)
Definition once_seen (k : key) (e : list call) : bool := existsb (fun c => has_key k c && c_once c) e.
Definition count_key (k : key) (cs : list call) : nat := length (filter (has_key k) cs).

Lemma suppressed_other_key : forall e c, c_once c = true -> suppressed e c = once_seen (call_key c) e.
Proof.
  intros e c Ho. unfold suppressed, once_seen. rewrite Ho. cbn [andb]. apply existsb_ext'.
  intros x. unfold same_once, has_key. apply andb_comm.
Qed.

Lemma once_seen_app : forall k e c, once_seen k (e ++ [c]) = (once_seen k e || (has_key k c && c_once c))%bool.
Proof. intros. unfold once_seen. rewrite existsb_app. cbn [existsb]. rewrite orb_false_r. reflexivity. Qed.

Lemma has_key_eq : forall k c, has_key k c = true -> call_key c = k.
Proof. intros k c H. unfold has_key in H. apply key_eqb_eq in H. symmetry. exact H. Qed.

Lemma refinement_gen : forall k cs e,
  (forall c d, In c cs -> In d cs -> c_once c = true -> c_once d = true ->
     has_key k c = true -> has_key k d = true -> is_problem c = is_problem d) ->
  count_key k (filter is_problem (effective e cs)) =
    (plain_problems k cs + (if negb (once_seen k e) && once_problem k cs then 1 else 0))%nat.
Proof.
  intros k. induction cs as [|c cs IH]; intros e Hg.
  - cbn. destruct (negb (once_seen k e)); reflexivity.
  - assert (Hg' : forall c0 d, In c0 cs -> In d cs -> c_once c0 = true -> c_once d = true ->
                   has_key k c0 = true -> has_key k d = true -> is_problem c0 = is_problem d).
    { intros c0 d Hc Hd. apply Hg; right; assumption. }
    specialize (IH (e ++ [c]) Hg'). cbn [effective]. rewrite filter_app. unfold count_key in *.
    rewrite filter_app, app_length, IH. rewrite once_seen_app.
    unfold plain_problems, once_problem. cbn [filter existsb].
    destruct (has_key k c) eqn:Hk; cbn [andb orb].
    + destruct (c_once c) eqn:Ho; cbn [negb andb orb].
      * rewrite (suppressed_other_key e c Ho). rewrite (has_key_eq k c Hk).
        destruct (once_seen k e) eqn:Hs; cbn [negb andb orb filter length].
        -- reflexivity.
        -- destruct (is_problem c) eqn:Hp; cbn [filter length orb].
           ++ rewrite Hk. cbn [length]. lia.
           ++ (* c is a once non-problem with key k: by the guard no once-call with key k in cs is a problem *)
              assert (Hno : existsb (fun c0 => has_key k c0 && c_once c0 && is_problem c0) cs = false).
              { apply not_true_is_false. intros Hex. apply existsb_exists in Hex as [d [Hd Hdp]].
                apply andb_true_iff in Hdp as [Hdp Hpd]. apply andb_true_iff in Hdp as [Hkd Hod].
                pose proof (Hg c d (or_introl eq_refl) (or_intror Hd) Ho Hod Hk Hkd) as Heq. congruence. }
              rewrite Hno. cbn. lia.
      * assert (Hsup : suppressed e c = false) by (unfold suppressed; rewrite Ho; reflexivity).
        rewrite Hsup. rewrite orb_false_r.
        destruct (is_problem c) eqn:Hp; cbn [filter length].
        -- rewrite Hp. cbn [filter]. rewrite Hk. cbn [length]. lia.
        -- rewrite Hp. cbn [filter length]. lia.
    + rewrite orb_false_r.
      destruct (suppressed e c); cbn [filter length]; [lia|].
      destruct (is_problem c); cbn [filter length]; [rewrite Hk; cbn [length]; lia|lia].
Qed.

Lemma once_refinement : forall k cs, once_consistent cs ->
  count_key k (problems cs) = abstract_count k cs.
Proof.
  intros k cs Hc. unfold problems, abstract_count. rewrite refinement_gen.
  - reflexivity.
  - intros c d Hic Hid Hoc Hod Hkc Hkd. apply (Hc c d Hic Hid Hoc Hod).
    apply key_eqb_eq. rewrite (has_key_eq k c Hkc), (has_key_eq k d Hkd). reflexivity.
Qed.

(* ---- topthresh only decides what is printed ---------------------------------------------------------- *)
Definition with_topthresh (f : call -> Z) (c : call) : call :=
  {| c_section := c_section c; c_msg := c_msg c; c_thresh := c_thresh c; c_topthresh := f c; c_once := c_once c |}.

Lemma effective_map_top : forall f cs e,
  effective (map (with_topthresh f) e) (map (with_topthresh f) cs) = map (with_topthresh f) (effective e cs).
Proof.
  intros f. induction cs as [|c cs IH]; intros e; [reflexivity|].
  cbn [map effective]. rewrite map_app. cbn [map].
  assert (Hs : suppressed (map (with_topthresh f) e) (with_topthresh f c) = suppressed e c).
  { unfold suppressed. cbn [with_topthresh c_once]. f_equal. rewrite existsb_map'. apply existsb_ext'. intros x. reflexivity. }
  rewrite Hs. replace (map (with_topthresh f) e ++ [with_topthresh f c]) with (map (with_topthresh f) (e ++ [c]))
    by (rewrite map_app; reflexivity).
  rewrite IH. destruct (suppressed e c); reflexivity.
Qed.

Lemma problems_map_top : forall f l,
  length (filter is_problem (map (with_topthresh f) l)) = length (filter is_problem l).
Proof.
  intros f. induction l as [|c l IH]; [reflexivity|]. cbn [map filter].
  change (is_problem (with_topthresh f c)) with (is_problem c).
  destruct (is_problem c); cbn [length]; rewrite IH; reflexivity.
Qed.

Lemma counting_ignores_topthresh : forall f v cs st, once_msgs st = [] ->
  violations (msgs v st (map (with_topthresh f) cs)) = violations (msgs v st cs).
Proof.
  intros f v cs st H. rewrite !every_problem_counted by exact H. unfold problems.
  change (@nil call) with (map (with_topthresh f) (@nil call)) at 1. rewrite effective_map_top.
  rewrite problems_map_top. reflexivity.
Qed.

(* ---- a cross-reference inside a field body that documents an attribute ---------------------------------------- *)
Lemma split_field_xref_line : forall cds ln m z, cds <> 0 ->
  report_line sec_xref (split_field_source_lineno 0 cds) ln z m = Num (cds + z).
Proof.
  intros cds ln m z H. unfold split_field_source_lineno. cbn [Z.eqb].
  apply (report_line_docstring_sections sec_xref cds ln z m eq_refl H).
Qed.

Lemma split_field_xref_line_refuted :
  ~ (forall own cds ln m z, cds <> 0 -> 0 <= own ->
       report_line sec_xref (split_field_source_lineno own cds) ln z m = Num (cds + z)).
Proof. intros H. specialize (H 28 19 0 false 4 ltac:(lia) ltac:(lia)). vm_compute in H. discriminate. Qed.
