(* Proofs/BuilderIRProofs.v -- interpreting the bodies translated from the CURRENT pydoctor source (Gen/BuilderCode.v) is the
   hand-written model, for all inputs.  The proofs are symbolic executions (cbn + case analysis on the inputs), not matches
   on the generated terms, so a meaning-preserving edit of the Python source still proves. *)
From Coq Require Import ZArith NArith List Bool Lia.
From PydoctorVerif Require Import Base.Sexp Model.MiniPy Model.Infer Model.Builder Model.BuilderIR Gen.TablesC03 Gen.BuilderCode
     Proofs.InferProofs.
Import ListNotations.

Lemma past_of_annot_inj_name : forall a n, past_of_annot a = PName n -> a = AName n.
Proof. destruct a; cbn; intros; congruence. Qed.

(* ---- small facts used by the symbolic executions -------------------------------------------------------------------------- *)
Lemma len_z_single : forall {X} (l : list X), Z.eqb (len_z l) 1 = match l with [_] => true | _ => false end.
Proof.
  intros X l. unfold len_z. destruct l as [|a [|b r]]; try reflexivity.
  apply Z.eqb_neq. cbn [length]. lia.
Qed.

(* comparisons of len(<list with a known prefix>) with a constant, whichever way they are written (==, !=, <, <=, >, >=) *)
Ltac len_contra H := exfalso; unfold len_z in H; cbn [length] in H; lia.
Ltac decide_lens :=
  repeat match goal with
         | |- context [len_z (@nil ?X)] => change (len_z (@nil X)) with 0%Z
         | |- context [len_z [?a]] => change (len_z [a]) with 1%Z
         | |- context [Z.eqb (len_z ?l) ?c] =>
             let H := fresh "Hlen" in destruct (Z.eqb_spec (len_z l) c) as [H|H]; [len_contra H|clear H]
         | |- context [Z.eqb ?c (len_z ?l)] =>
             let H := fresh "Hlen" in destruct (Z.eqb_spec c (len_z l)) as [H|H]; [len_contra H|clear H]
         | |- context [Z.ltb (len_z ?l) ?c] =>
             let H := fresh "Hlen" in destruct (Z.ltb_spec0 (len_z l) c) as [H|H]; try (len_contra H); clear H
         | |- context [Z.ltb ?c (len_z ?l)] =>
             let H := fresh "Hlen" in destruct (Z.ltb_spec0 c (len_z l)) as [H|H]; try (len_contra H); clear H
         | |- context [Z.leb (len_z ?l) ?c] =>
             let H := fresh "Hlen" in destruct (Z.leb_spec0 (len_z l) c) as [H|H]; try (len_contra H); clear H
         | |- context [Z.leb ?c (len_z ?l)] =>
             let H := fresh "Hlen" in destruct (Z.leb_spec0 c (len_z l)) as [H|H]; try (len_contra H); clear H
         end.

Lemma static_not_class : forall f, text_eqb f t_staticmethod = true -> text_eqb f t_classmethod = true -> False.
Proof. intros f H1 H2. apply text_eqb_eq in H1. apply text_eqb_eq in H2. subst. discriminate. Qed.

Ltac kill_static_class :=
  match goal with
  | H1 : text_eqb ?f t_staticmethod = true, H2 : text_eqb ?f t_classmethod = true |- _ => exfalso; exact (static_not_class f H1 H2)
  end.

(* case analysis on every string comparison left in the goal *)
Ltac split_eqbs :=
  repeat match goal with
         | |- context [text_eqb ?a ?b] =>
             lazymatch a with
             | context [text_eqb _ _] => fail
             | _ => destruct (text_eqb a b) eqn:?; cbn
             end
         end.

(* ==================================================================== _annotation_for_value *)
Section ValueCode.
  Variable literal_eval : pexpr -> option value.
  Variable contents_get : text -> ival.
  Variable mro_of : list mroent.
  Variable call_value : value -> option past.

  Theorem code_annotation_for_value_is_model : forall v hk,
      run_body [ival_of_value v] call_value model_elems literal_eval contents_get mro_of code_annotation_for_value hk
      = RReturn (of_opt_past (model_value v)) hk.
  Proof.
    intros v hk. unfold run_body, code_annotation_for_value, model_value, model_elems.
    destruct v; cbn; try reflexivity;
      repeat match goal with
             | |- context [annotation_for_elements ?l] => destruct (annotation_for_elements l); cbn
             end; reflexivity.
  Qed.
End ValueCode.

(* ==================================================================== _annotation_for_elements *)
(* the loop of the Python function, on the annotations of the elements and the set `names` *)
Fixpoint pyloop (l : list (option past)) (S : list text) : option (list text) :=
  match l with
  | [] => Some S
  | Some (PName n) :: r => pyloop r (set_add S n)
  | _ :: _ => None
  end.
Definition pyloop_result (o : option (list text)) : option past :=
  match o with Some [n] => Some (PName n) | _ => None end.

Lemma set_add_same : forall n, set_add [n] n = [n].
Proof. intro n. unfold set_add. cbn. rewrite text_eqb_refl. reflexivity. Qed.

Lemma pyloop_two : forall l a b S, pyloop_result (pyloop l (a :: b :: S)) = None.
Proof.
  induction l as [|[[n| | |]|] l IH]; intros a b S; cbn; auto.
  unfold set_add. destruct (mem n (a :: b :: S)); [apply IH|]. cbn. apply IH.
Qed.

Lemma pyloop_model : forall (l : list value) S seen,
    (S = [] /\ seen = None) \/ (exists n, S = [n] /\ seen = Some n) ->
    pyloop_result (pyloop (map model_value l) S)
    = option_map PName (match elems_fold (map annotation_for_value l) seen with Some (Some n) => Some n | _ => None end).
Proof.
  induction l as [|v l IH]; intros S seen H; cbn.
  - destruct H as [[-> ->]|[n [-> ->]]]; reflexivity.
  - unfold model_value at 1. destruct (annotation_for_value v) as [a|] eqn:Ea; cbn; [|reflexivity].
    destruct a as [k|c e|e|k w]; cbn; try reflexivity.
    destruct H as [[-> ->]|[n [-> ->]]].
    + cbn. apply IH. right. eauto.
    + unfold set_add, mem. cbn [existsb]. rewrite orb_false_r. rewrite (text_eqb_sym k n). cbn [elems_fold].
      destruct (text_eqb n k) eqn:E.
      * apply IH. right. eauto.
      * cbn [app]. apply pyloop_two.
Qed.

Lemma pyloop_is_model_elems : forall l, pyloop_result (pyloop (map model_value l) []) = model_elems l.
Proof. intro l. unfold model_elems, annotation_for_elements. apply pyloop_model. left. auto. Qed.

Section ElemsCode.
  Variable literal_eval : pexpr -> option value.
  Variable contents_get : text -> ival.
  Variable mro_of : list mroent.
  Variable call_elems : list value -> option past.

  Notation run := (run_body).

  (* one iteration of the translated loop body, whatever its shape: it either returns None from the function, or goes on
     with the set extended; the two variables it uses are found by computation *)
  Theorem code_annotation_for_elements_is_model : forall l hk,
      run [VSeq l] model_value call_elems literal_eval contents_get mro_of code_annotation_for_elements hk
      = RReturn (of_opt_past (model_elems l)) hk.
  Proof.
    intros l hk. rewrite <- pyloop_is_model_elems.
    unfold run_body, code_annotation_for_elements. cbn [exec eval nth_error seq_elems].
    (* generalise the state before the loop: the set variable holds S *)
    change (@nil text) with (@nil text) at 1.
    match goal with
    | |- context [for_loop ?body ?x (map ival_of_value l) ?en hk] =>
        assert (Hloop : forall l S en0, en0 0%nat = Some (VSet S) ->
                  (match for_loop body x (map ival_of_value l) en0 hk with
                   | RNormal en' hk' => hk' = hk /\ exists S', pyloop (map model_value l) S = Some S' /\ en' 0%nat = Some (VSet S')
                   | RReturn v hk' => hk' = hk /\ v = VNone /\ pyloop (map model_value l) S = None
                   | _ => False
                   end))
    end.
    { clear. induction l as [|v l IH]; intros S en0 H0; cbn [map for_loop pyloop].
      - split; eauto.
      - cbn [exec eval]. unfold setv at 1. cbn [Nat.eqb].
        assert (Hl : lit_of (ival_of_value v) = Some v) by (destruct v; reflexivity).
        rewrite Hl. cbn [of_opt_past].
        destruct (model_value v) as [[n| | |]|] eqn:Em; cbn; try (repeat split; reflexivity).
        rewrite H0. cbn. apply IH. cbn. reflexivity. }
    specialize (Hloop l [] (setv env0 0%nat (VSet [])) eq_refl).
    match goal with
    | |- context [for_loop ?body ?x (map ival_of_value l) ?en hk] => destruct (for_loop body x (map ival_of_value l) en hk) eqn:Ef
    end; try contradiction.
    - (* after the loop: the three sizes of the set; the rest of the body is run symbolically, reading the set variable
         wherever the code does *)
      destruct Hloop as [-> [S' [Hp He]]]. rewrite Hp.
      destruct S' as [|a [|b r]];
        repeat first [ progress cbn | progress (rewrite ?He) | progress (unfold setv at 1) | progress decide_lens ];
        reflexivity.
    - destruct Hloop as [-> [-> Hp]]. rewrite Hp. reflexivity.
  Qed.
End ElemsCode.

(* ==================================================================== infer_type *)
Section InferCode.
  Variable literal_eval : pexpr -> option value.
  Variable contents_get : text -> ival.
  Variable mro_of : list mroent.
  Variable call_elems : list value -> option past.

  Theorem code_infer_type_is_model : forall p hk,
      run_body [VExpr p] model_value call_elems literal_eval contents_get mro_of code_infer_type hk
      = RReturn (of_opt_past (model_infer literal_eval p)) hk.
  Proof.
    intros p hk. unfold run_body, code_infer_type, model_infer. cbn.
    destruct (literal_eval p) as [v|]; cbn; [|reflexivity].
    assert (Hl : lit_of (ival_of_value v) = Some v) by (destruct v; reflexivity).
    unfold setv. cbn. rewrite Hl. destruct (model_value v); cbn; reflexivity.
  Qed.
End InferCode.

(* the model's infer_value is infer_type under "literal_eval of a literal expression is its value, of any other expression
   an error" *)
Lemma model_infer_is_infer_value : forall literal_eval p (v : aval),
    literal_eval p = match v with AvLit l => Some l | AvOther => None end ->
    model_infer literal_eval p = option_map past_of_annot (infer_value v).
Proof. intros le p v H. unfold model_infer. rewrite H. destruct v; reflexivity. Qed.

(* ==================================================================== is_exception *)
(* the hand model: some entry of the linearisation is the name of a standard exception *)
Definition is_exception_mro (l : list mroent) : bool :=
  existsb (fun e => match e with MStr s => mem s std_lib_exceptions | MClass => false end) l.

(* the collection the code tests membership in is the table the model uses (both regenerated from the live module) *)
Lemma code_exception_names_table : code_exception_names = std_lib_exceptions.
Proof. reflexivity. Qed.

Section ExcCode.
  Variable literal_eval : pexpr -> option value.
  Variable contents_get : text -> ival.
  Variable call_value : value -> option past.
  Variable call_elems : list value -> option past.

  Lemma in_strs_entry : forall e l,
      existsb (fun s => veq (VMro e) (VStr s)) l = match e with MStr s => mem s l | MClass => false end.
  Proof.
    intros e l. destruct e as [|s]; cbn.
    - induction l; cbn; auto.
    - unfold mem. induction l as [|a l IH]; cbn; auto.
  Qed.

  Theorem code_is_exception_is_model : forall cls mro hk,
      run_body [cls] call_value call_elems literal_eval contents_get mro code_is_exception hk
      = RReturn (VBool (is_exception_mro mro)) hk.
  Proof.
    intros cls mro hk. unfold run_body, code_is_exception, is_exception_mro.
    fold code_exception_names. rewrite code_exception_names_table.
    cbn [exec eval seq_elems].
    first
      [ (* a for loop with an early return *)
        match goal with
        | |- context [for_loop ?body ?x (map VMro mro) ?en hk] =>
            assert (Hloop : forall en0,
                       match for_loop body x (map VMro mro) en0 hk with
                       | RReturn v k => is_exception_mro mro = true /\ v = VBool true /\ k = hk
                       | RNormal _ k => is_exception_mro mro = false /\ k = hk
                       | _ => False
                       end);
            [ clear; unfold is_exception_mro; induction mro as [|e mro IH]; intro en0; cbn [map for_loop existsb];
              [split; reflexivity|];
              cbn [exec eval]; unfold setv at 1; cbn [Nat.eqb]; rewrite in_strs_entry;
              destruct (match e with MStr s => mem s std_lib_exceptions | MClass => false end) eqn:Ee; cbn [truthy orb];
              [repeat split; reflexivity|apply IH]
            | specialize (Hloop en);
              destruct (for_loop body x (map VMro mro) en hk);
              try contradiction; unfold is_exception_mro in Hloop;
              [destruct Hloop as [-> ->]; reflexivity|destruct Hloop as [-> [-> ->]]; reflexivity] ]
        end
      | (* any(... for base in ...) *)
        induction mro as [|e mro IH]; cbn [map existsb] in *; [reflexivity|];
        cbn [eval setv]; unfold setv at 1; cbn [Nat.eqb]; rewrite in_strs_entry;
        destruct (match e with MStr s => mem s std_lib_exceptions | MClass => false end); cbn [truthy orb]; [reflexivity|exact IH] ].
  Qed.
End ExcCode.

(* ==================================================================== _handleOldSchoolMethodDecoration *)
(* what the method does, on the assigned expression as a tree: the answer and the kind of the Function found *)
Definition oldschool_spec (target : text) (e : option pexpr) (found : ival) (hk : fkind) : bool * fkind :=
  match e with
  | Some (XCall (XName f) [XName a]) =>
      if text_eqb target a && (text_eqb f t_staticmethod || text_eqb f t_classmethod) then
        match found with
        | VFunRef => (true, if text_eqb f t_staticmethod then KStaticMethod else KClassMethod)
        | _ => (false, hk)
        end
      else (false, hk)
  | _ => (false, hk)
  end.

Definition ival_of_expr (e : option pexpr) : ival := match e with Some p => VExpr p | None => VNone end.

Section OldschoolCode.
  Variable literal_eval : pexpr -> option value.
  Variable mro_of : list mroent.
  Variable call_value : value -> option past.
  Variable call_elems : list value -> option past.

  (* hk <> KFunction: the method is only called while a class body is walked, where functions are methods (the assert) *)
  Theorem code_oldschool_is_model : forall target e (cg : text -> ival) hk,
      (cg target = VFunRef \/ cg target = VOtherObj \/ cg target = VNone) -> hk <> KFunction ->
      run_body [VStr target; ival_of_expr e] call_value call_elems literal_eval cg mro_of code_oldschool hk
      = RReturn (VBool (fst (oldschool_spec target e (cg target) hk))) (snd (oldschool_spec target e (cg target) hk)).
  Proof.
    intros target e cg hk Hcg Hk. unfold run_body, code_oldschool, oldschool_spec, t_staticmethod, t_classmethod.
    (* the shape of the assigned expression *)
    destruct e as [[f args| |]|]; cbn; try reflexivity.
    destruct f as [f0 a0|f| ]; cbn; try reflexivity.
    destruct args as [|a [|b r]]; cbn; decide_lens; cbn; try reflexivity; try (destruct a; reflexivity).
    destruct a as [f1 a1|a| ]; cbn; try reflexivity.
    (* symbolic execution: every string comparison, the object found, the kind it has *)
    unfold setv; cbn; rewrite ?(text_eqb_sym a target); cbn.
    repeat first
      [ progress (repeat match goal with
                         | H : text_eqb ?x ?c = _ |- context [text_eqb ?x ?c] => rewrite H; cbn
                         end)
      | match goal with
        | |- context [text_eqb ?x ?c] => destruct (text_eqb x c) eqn:?; cbn
        end
      | match goal with
        | H : _ \/ _ |- context [cg target] => destruct H as [Hc|[Hc|Hc]]; rewrite Hc; cbn
        end
      | match goal with
        | |- context [match hk with _ => _ end] => destruct hk; cbn
        | |- context [fkind_eqb hk _] => destruct hk; cbn
        end ];
      try contradiction;
      try (match goal with
           | H1 : text_eqb ?f0 ?c1 = true, H2 : text_eqb ?f0 ?c2 = true |- _ =>
               exfalso; apply text_eqb_eq in H1; apply text_eqb_eq in H2; rewrite H1 in H2; discriminate H2
           end);
      try reflexivity.
  Qed.
End OldschoolCode.

(* the assigned expression of the MiniPy model, as the tree the method inspects (ROther / RLit stand for expressions that
   are not a call of a name on one name) *)
Definition pexpr_of_rhs (r : rhs) : pexpr :=
  match r with
  | RCall f args => XCall (XName f) (map XName args)
  | RName y => XName y
  | _ => XOther
  end.
Definition found_of (o : option obj) : ival :=
  match o with Some (OFun _ _ _) => VFunRef | Some _ => VOtherObj | None => VNone end.

(* the specification on trees is Model.Builder.oldschool on MiniPy right-hand sides *)
Theorem oldschool_spec_is_model : forall n expr s k a d,
    lookup n (contents s) = Some (OFun k a d) ->
    match oldschool n expr s with
    | Some s' => fst (oldschool_spec n (option_map pexpr_of_rhs expr) VFunRef k) = true /\
                 contents s' = replace n (OFun (snd (oldschool_spec n (option_map pexpr_of_rhs expr) VFunRef k)) a d) (contents s)
    | None => fst (oldschool_spec n (option_map pexpr_of_rhs expr) VFunRef k) = false
    end.
Proof.
  intros n expr s k a d Hl. unfold oldschool, oldschool_spec.
  destruct expr as [[v|y|f [|x [|y r]]|]|]; cbn [option_map pexpr_of_rhs map fst snd]; try reflexivity.
  change (mem f oldschool_names) with (text_eqb f t_staticmethod || (text_eqb f t_classmethod || false)).
  rewrite orb_false_r. rewrite Hl.
  destruct (text_eqb n x); cbn [andb]; [|reflexivity].
  destruct (text_eqb f t_staticmethod) eqn:Es; destruct (text_eqb f t_classmethod) eqn:Ec; cbn [orb fst snd];
    try reflexivity; split; reflexivity.
Qed.

Theorem oldschool_spec_not_function : forall n expr s,
    (forall k a d, lookup n (contents s) <> Some (OFun k a d)) ->
    oldschool n expr s = None /\
    forall hk, fst (oldschool_spec n (option_map pexpr_of_rhs expr) (found_of (lookup n (contents s))) hk) = false.
Proof.
  intros n expr s H. split.
  - unfold oldschool. destruct expr as [[v|y|f [|x [|y r]]|]|]; try reflexivity.
    destruct (text_eqb n x && mem f oldschool_names); [|reflexivity].
    destruct (lookup n (contents s)) as [[k a d| |]|] eqn:E; try reflexivity. exfalso. eapply H; eauto.
  - intro hk. unfold oldschool_spec. destruct expr as [[v|y|f [|x [|y r]]|]|]; cbn; try reflexivity.
    destruct (text_eqb n x && (text_eqb f t_staticmethod || text_eqb f t_classmethod)); [|reflexivity].
    destruct (lookup n (contents s)) as [[k a d| |]|] eqn:E; try reflexivity. exfalso. eapply H; eauto.
Qed.

(* is_exception over the linearisation and the flag Model.Builder keeps per class: if the flag of every resolved base is
   is_exception of ITS linearisation, the flag computed from the bases is is_exception of the concatenation *)
Lemma is_exception_mro_app : forall l1 l2, is_exception_mro (l1 ++ l2) = is_exception_mro l1 || is_exception_mro l2.
Proof. intros. unfold is_exception_mro. apply existsb_app. Qed.

Definition mro_of_resolved (lin : obj -> list mroent) (r : resolved) : list mroent :=
  match r with
  | RClass o => MClass :: lin o
  | RImported e _ => [MClass]          (* its linearisation is the other module's business: the flag comes with the import *)
  | RLocal => [MClass]
  | RExternal full => [MStr full]
  end.

Theorem base_exc_is_exception : forall (lin : obj -> list mroent) rs,
    (forall o, In (RClass o) rs -> match o with OClass e _ _ _ _ => e = is_exception_mro (lin o) | _ => is_exception_mro (lin o) = false end) ->
    (forall e ih, ~ In (RImported e ih) rs) ->
    existsb base_exc rs = is_exception_mro (flat_map (mro_of_resolved lin) rs).
Proof.
  intros lin rs. induction rs as [|r rs IH]; intros H Hi; cbn [existsb flat_map]; [reflexivity|].
  rewrite is_exception_mro_app. rewrite IH; [|intros; apply H; right; assumption|intros e ih Hin; apply (Hi e ih); right; assumption].
  f_equal. destruct r as [o|e ih| |full]; cbn [mro_of_resolved base_exc].
  - specialize (H o (or_introl eq_refl)).
    change (is_exception_mro (MClass :: lin o)) with (false || is_exception_mro (lin o)). cbn [orb].
    destruct o; auto.
  - exfalso. apply (Hi e ih). left. reflexivity.
  - reflexivity.
  - change (is_exception_mro [MStr full]) with (mem full std_lib_exceptions || false). rewrite orb_false_r. reflexivity.
Qed.
