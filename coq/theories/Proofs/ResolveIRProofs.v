(* Proofs/ResolveIRProofs.v -- interpreting the body of FieldHandler.resolve_types that harness/gen/gen_c09_code.py
   translated from the CURRENT pydoctor/epydoc2stan.py (Gen/FieldsCode.code_resolve_types) is Model/Fields.resolve_types,
   for every object and state.  Symbolic execution as in Proofs/FieldsIRProofs.v; the two loops are run by lemmas that
   are generic in the loop body (the body only has to make one step of the model), and the locals that hold
   new_parameter_descs / params / any_info / kwargs / has_keywords are found by the values they have when the loop starts. *)
From Coq Require Import ZArith NArith List Bool Arith Lia.
From PydoctorVerif Require Import Base.Sexp Model.FieldTypes Gen.TablesC09 Model.Fields Model.FieldsIR Gen.FieldsCode
     Spec.Routing Spec.CodeTie Proofs.FieldsCount Proofs.FieldsProofs Proofs.FieldsIRProofs.
Import ListNotations.

(* ==== FieldHandler.resolve_types ======================================================================================================
   Model/Fields.rt_loop written as one step per item of self.types *)
Definition rt_step (E : env) (index : nat) (name : pname) (pty : option (tyref * origin)) (P : list (pname * pdesc)) (a : bool)
  : option pdesc * list (pname * pdesc) * bool :=
  match dict_pop (pn_text name) P with
  | Some (p, P') =>
    (Some {| pd_name := pd_name p; pd_kw := pd_kw p; pd_body := pd_body p;
             pd_type := option_map fst pty; pd_origin := option_map snd pty |}, P', a)
  | None =>
    if Nat.eqb index 0 && strip_first E name then (None, P, a)
    else (Some {| pd_name := name; pd_kw := false; pd_body := None;
                  pd_type := option_map fst pty; pd_origin := option_map snd pty |}, P,
          a || match pty with Some _ => true | None => false end)
  end.

Definition opt_list {X} (o : option X) : list X := match o with Some x => [x] | None => [] end.

Lemma rt_loop_step : forall E index name pty rest P a,
  rt_loop E index ((name, pty) :: rest) P a =
  let '(o, P', a') := rt_step E index name pty P a in
  let '(new, lft, ai) := rt_loop E (S index) rest P' a' in
  (opt_list o ++ new, lft, ai).
Proof.
  intros. unfold rt_step. cbn [rt_loop].
  destruct (dict_pop (pn_text name) P) as [[p P']|].
  - destruct (rt_loop E (S index) rest P' a) as [[new lft] ai]. reflexivity.
  - destruct (Nat.eqb index 0 && strip_first E name).
    + destruct (rt_loop E (S index) rest P a) as [[new lft] ai]. reflexivity.
    + destruct (rt_loop E (S index) rest P _) as [[new lft] ai]. reflexivity.
Qed.

(* how the interpreter holds the model's data *)
Definition enc (P : list (pname * pdesc)) : list (pname * val) := map (fun e => (fst e, val_of_pdesc (snd e))) P.
Definition items (types : list (pname * option (tyref * origin))) : list (val * val) :=
  map (fun e => (VName (fst e), val_of_ptype (snd e))) types.
Definition vopt (o : option pdesc) : val := match o with Some p => val_of_pdesc p | None => VNone end.

Lemma pdesc_of_val : forall p, pdesc_of (val_of_pdesc p) = Some p.
Proof.
  intros [n k b t o]. unfold val_of_pdesc, pdesc_of. cbn.
  rewrite to_ty_of_ty, to_body_of_body, to_origin_of_origin. destruct k; reflexivity.
Qed.

Lemma pdescs_of_map : forall l, pdescs_of (map val_of_pdesc l) = Some l.
Proof. induction l as [|p l IH]; cbn [map pdescs_of]; [reflexivity|]. rewrite pdesc_of_val, IH. reflexivity. Qed.

Lemma map_snd_enc : forall P, map snd (enc P) = map val_of_pdesc (map snd P).
Proof. intro P. unfold enc. rewrite !map_map. reflexivity. Qed.

Lemma dict_pop_enc : forall t P,
  dict_pop t (enc P) = match dict_pop t P with Some (p, P') => Some (val_of_pdesc p, enc P') | None => None end.
Proof.
  intros t. induction P as [|[k p] P IH]; [reflexivity|].
  cbn [enc map dict_pop fst snd]. fold (enc P). destruct (text_eqb (pn_text k) t); [reflexivity|].
  rewrite IH. destruct (dict_pop t P) as [[q P']|]; reflexivity.
Qed.

(* the first loop, whatever its body is written like: nw, pr, ai are the locals that hold new_parameter_descs, params, any_info *)
Lemma for_enum_rt : forall E run i k v nw pr ai ms (Inv : nat -> (var -> val) -> Prop),
  (forall loc n name pty acc P a,
     Inv n loc -> loc nw = VList (map val_of_pdesc acc) -> loc pr = VDict (enc P) -> loc ai = VBool a ->
     exists loc1,
       (run (setv (setv (setv loc i (VInt n)) k (VName name)) v (val_of_ptype pty)) ms = RNormal loc1 ms \/
        run (setv (setv (setv loc i (VInt n)) k (VName name)) v (val_of_ptype pty)) ms = RContinue loc1 ms) /\
       Inv (S n) loc1 /\
       loc1 nw = VList (map val_of_pdesc (acc ++ opt_list (fst (fst (rt_step E n name pty P a))))) /\
       loc1 pr = VDict (enc (snd (fst (rt_step E n name pty P a)))) /\
       loc1 ai = VBool (snd (rt_step E n name pty P a))) ->
  forall types n loc acc P a,
    Inv n loc -> loc nw = VList (map val_of_pdesc acc) -> loc pr = VDict (enc P) -> loc ai = VBool a ->
    exists loc',
      for_enum run i k v n (items types) loc ms = RNormal loc' ms /\
      loc' nw = VList (map val_of_pdesc (acc ++ fst (fst (rt_loop E n types P a)))) /\
      loc' pr = VDict (enc (snd (fst (rt_loop E n types P a)))) /\
      loc' ai = VBool (snd (rt_loop E n types P a)).
Proof.
  intros E run i k v nw pr ai ms Inv Hstep.
  induction types as [|[name pty] rest IH]; intros n loc acc P a HI Hnw Hpr Hai.
  - exists loc. cbn. rewrite app_nil_r. auto.
  - destruct (Hstep loc n name pty acc P a HI Hnw Hpr Hai) as (loc1 & Hrun & HI1 & H1 & H2 & H3).
    rewrite rt_loop_step.
    destruct (rt_step E n name pty P a) as [[o P'] a'] eqn:Hs. cbn [fst snd] in H1, H2, H3.
    destruct (IH (S n) loc1 _ _ _ HI1 H1 H2 H3) as (loc' & Hr & G1 & G2 & G3).
    destruct (rt_loop E (S n) rest P' a') as [[new lft] ai'] eqn:Hl. cbn [fst snd] in *.
    exists loc'. split; [|rewrite app_assoc; auto].
    change (items ((name, pty) :: rest)) with ((VName name, val_of_ptype pty) :: items rest).
    cbn [for_enum]. destruct Hrun as [-> | ->]; exact Hr.
Qed.

(* the second loop: kw, hk are the locals that hold kwargs, has_keywords *)
Lemma for_loop_kw : forall run x kw hk ms,
  (forall loc p acc b,
     loc kw = vopt acc -> loc hk = VBool b ->
     exists loc1,
       (run (setv loc x (val_of_pdesc p)) ms = RNormal loc1 ms \/ run (setv loc x (val_of_pdesc p)) ms = RContinue loc1 ms) /\
       loc1 kw = vopt (if is_kw_name p then Some p else acc) /\
       loc1 hk = VBool (b || (negb (is_kw_name p) && pd_kw p))) ->
  forall ds loc acc b,
    loc kw = vopt acc -> loc hk = VBool b ->
    exists loc',
      for_loop run x (map val_of_pdesc ds) loc ms = RNormal loc' ms /\
      loc' kw = vopt (fold_left (fun acc p => if is_kw_name p then Some p else acc) ds acc) /\
      loc' hk = VBool (b || existsb (fun p => negb (is_kw_name p) && pd_kw p) ds).
Proof.
  intros run x kw hk ms Hstep. induction ds as [|p ds IH]; intros loc acc b Hkw Hhk.
  - exists loc. cbn. rewrite orb_false_r. auto.
  - destruct (Hstep loc p acc b Hkw Hhk) as (loc1 & Hrun & H1 & H2).
    destruct (IH loc1 _ _ H1 H2) as (loc' & Hr & G1 & G2).
    exists loc'. split; [|split].
    + change (map val_of_pdesc (p :: ds)) with (val_of_pdesc p :: map val_of_pdesc ds).
      unfold for_loop; fold for_loop. destruct Hrun as [-> | ->]; exact Hr.
    + exact G1.
    + rewrite G2. cbn [existsb]. rewrite orb_assoc. reflexivity.
Qed.

(* next((d for d in reversed(l) if c), None) and any(c for d in l), whatever c is written like: it only has to decide g *)
Lemma find_first_map : forall E i f loc st x c g ds,
  (forall p, evalc E i f (setv loc x (val_of_pdesc p)) st c = Some (g p)) ->
  find_first E i f loc st x c (map val_of_pdesc ds) = Some (vopt (find g ds)).
Proof.
  intros E i f loc st x c g ds H. induction ds as [|p ds IH]; [reflexivity|].
  cbn [map find_first find]. rewrite H. destruct (g p); [reflexivity|exact IH].
Qed.

Lemma any_in_map : forall E i f loc st x c g ds,
  (forall p, evalc E i f (setv loc x (val_of_pdesc p)) st c = Some (g p)) ->
  any_in E i f loc st x c (map val_of_pdesc ds) = Some (existsb g ds).
Proof.
  intros E i f loc st x c g ds H. induction ds as [|p ds IH]; [reflexivity|].
  cbn [map any_in existsb]. rewrite H. destruct (g p); [reflexivity|exact IH].
Qed.

Lemma find_app : forall {X} (g : X -> bool) l1 l2,
  find g (l1 ++ l2) = match find g l1 with Some p => Some p | None => find g l2 end.
Proof. intros X g l1 l2. induction l1 as [|a l1 IH]; [reflexivity|]. cbn. destruct (g a); [reflexivity|exact IH]. Qed.

(* the first match from the end is the last match from the start *)
Lemma find_rev_fold : forall {X} (g : X -> bool) ds,
  find g (rev ds) = fold_left (fun acc p => if g p then Some p else acc) ds None.
Proof.
  intros X g ds.
  assert (H : forall ds acc, fold_left (fun acc p => if g p then Some p else acc) ds acc =
                             match find g (rev ds) with Some p => Some p | None => acc end).
  { induction ds0 as [|a ds0 IH]; intro acc; [reflexivity|].
    cbn [fold_left rev]. rewrite IH, find_app. destruct (find g (rev ds0)); [reflexivity|].
    cbn. destruct (g a); reflexivity. }
  rewrite H. destruct (find g (rev ds)); reflexivity.
Qed.

Lemma truthy_pdesc : forall p, truthy (val_of_pdesc p) = true.
Proof. reflexivity. Qed.
Lemma is_none_pdesc : forall p, is_none (val_of_pdesc p) = false.
Proof. reflexivity. Qed.

Local Arguments text_eqb : simpl never.
Local Arguments find_first : simpl never.
Local Arguments any_in : simpl never.
Local Arguments for_loop : simpl never.
Local Arguments for_enum : simpl never.
Local Arguments rend : simpl never.
Local Arguments params_dict : simpl never.
Local Arguments rt_loop : simpl never.
Local Arguments dict_pop : simpl never.
Local Arguments remove_first : simpl never.
Local Arguments val_of_pdesc : simpl never.
Local Arguments enc : simpl never.
Local Arguments items : simpl never.
Local Arguments rt_step : simpl never.
Local Arguments val_of_ptype : simpl never.

Definition nonempty {X} (l : list X) : bool := match l with [] => false | _ :: _ => true end.
Lemma nonempty_enc : forall P, nonempty (enc P) = nonempty P.
Proof. destruct P; reflexivity. Qed.

(* the local (0..15) whose value at the start satisfies `test`, passed to `cont` *)
Ltac with_var loc test cont :=
  let go n := (let v := eval cbn in (loc n) in test v; cont n) in
  first [ go 0 | go 1 | go 2 | go 3 | go 4 | go 5 | go 6 | go 7 | go 8 | go 9 | go 10 | go 11 | go 12 | go 13 | go 14 | go 15 ].

Ltac is_empty_list v := match v with VList [] => idtac end.
Ltac is_dict v := match v with VDict _ => idtac end.
Ltac is_bool v := match v with VBool _ => idtac end.
Ltac is_none_val v := match v with VNone => idtac end.
Ltac is_false v := match v with VBool false => idtac end.

Ltac refold :=
  repeat match goal with
  | |- context [map (fun e : pname * option (tyref * origin) => (VName (fst e), val_of_ptype (snd e))) ?t] =>
    change (map (fun e : pname * option (tyref * origin) => (VName (fst e), val_of_ptype (snd e))) t) with (items t)
  | |- context [map (fun e : pname * pdesc => (fst e, val_of_pdesc (snd e))) ?t] =>
    change (map (fun e : pname * pdesc => (fst e, val_of_pdesc (snd e))) t) with (enc t)
  end.

Ltac step_split :=
  match goal with
  | |- context [Nat.eqb ?n 0] => is_var n; destruct n
  | |- context [e_obj ?E] => destruct (e_obj E) as [[]| | |]
  | |- context [text_eqb ?a ?b] => destruct (text_eqb a b) eqn:?
  | |- context [if ?a then _ else _] => is_var a; destruct a
  | |- context [pn_star ?x] => destruct (pn_star x) eqn:?
  | |- context [cls_eqb (if pd_kw ?p then _ else _) _] => destruct (pd_kw p) eqn:?
  end.

Ltac is_true_val v := match v with VBool true => idtac end.

(* what is known about the locals *)
Ltac use_locs :=
  repeat match goal with
         | H : ?loc ?n = _ |- context [?loc ?n] => is_var loc; rewrite H
         end.

Ltac step_norm H1 H2 H3 :=
  cbn; unfold val_of_ptype, val_of_pdesc, strip_first, vopt, t_self, t_cls, is_kw_name; cbn; use_locs; cbn.

(* a case in which one name is equal to two different literals *)
Ltac two_names :=
  exfalso; repeat match goal with H : text_eqb _ _ = true |- _ => apply text_eqb_eq in H end; congruence.

(* one round of a loop body: run it on the general state of the loop, compare with the step of the model;
   fails when the locals were guessed wrong (with_var then tries the next candidate) *)
Ltac step_tac H1 H2 H3 :=
  try match goal with |- context [val_of_ptype ?pty] => is_var pty; destruct pty as [[? ?]|] end;
  step_norm H1 H2 H3; repeat (step_split; step_norm H1 H2 H3);
  eexists; (split; [first [left; reflexivity | right; reflexivity] | ]);
  step_norm H1 H2 H3; rewrite ?map_app, ?app_nil_r, ?orb_true_r, ?orb_false_r; step_norm H1 H2 H3; repeat split; first [reflexivity | two_names].

(* for index, (name, param_type) in enumerate(self.types.items()): ...
   Inv: what else the body relies on from one round to the next -- nothing, or a local fl that is True in the first round only *)
Ltac run_enum_inv E nw pr ai Inv :=
  match goal with
  | |- context [for_enum ?run ?i ?k ?v ?n (items ?types) ?loc ?ms] =>
      let Hs := fresh "Hs" in
      assert (Hs : forall lc n0 name pty acc P0 a0,
                Inv n0 lc -> lc nw = VList (map val_of_pdesc acc) -> lc pr = VDict (enc P0) -> lc ai = VBool a0 ->
                exists loc1,
                  (run (setv (setv (setv lc i (VInt n0)) k (VName name)) v (val_of_ptype pty)) ms = RNormal loc1 ms \/
                   run (setv (setv (setv lc i (VInt n0)) k (VName name)) v (val_of_ptype pty)) ms = RContinue loc1 ms) /\
                  Inv (S n0) loc1 /\
                  loc1 nw = VList (map val_of_pdesc (acc ++ opt_list (fst (fst (rt_step E n0 name pty P0 a0))))) /\
                  loc1 pr = VDict (enc (snd (fst (rt_step E n0 name pty P0 a0)))) /\
                  loc1 ai = VBool (snd (rt_step E n0 name pty P0 a0)));
      [ let HI := fresh "HI" in let H1 := fresh "Hnw" in let H2 := fresh "Hpr" in let H3 := fresh "Hai" in
        let p := fresh "p" in let P' := fresh "P'" in
        intros lc n0 name pty acc P0 a0 HI H1 H2 H3; cbn beta in HI; cbn; use_locs; cbn; rewrite ?dict_pop_enc; unfold rt_step;
        destruct (dict_pop (pn_text name) P0) as [[p P']|]; step_tac H1 H2 H3
      | let Hx := fresh "Hx" in
        assert (Hx : Inv n loc) by (cbn; first [exact I | reflexivity]);
        pose proof (for_enum_rt E run i k v nw pr ai ms Inv Hs types n loc [] _ _ Hx eq_refl eq_refl eq_refl) as Hx'; clear Hs Hx;
        match type of Hx' with
        | context [rt_loop ?E' ?n' ?ty ?P' ?a'] =>
          let new := fresh "new" in let lft := fresh "lft" in let ai' := fresh "ai'" in
          revert Hx'; destruct (rt_loop E' n' ty P' a') as [[new lft] ai']
        end;
        cbn [fst snd app];
        let loc' := fresh "loc'" in let Hr := fresh "Hr" in
        let H1 := fresh "Hnw" in let H2 := fresh "Hpr" in let H3 := fresh "Hai" in
        intros (loc' & Hr & H1 & H2 & H3); rewrite Hr; clear Hr ]
  end.

Ltac run_enum E :=
  match goal with
  | |- context [for_enum ?run ?i ?k ?v ?n (items ?types) ?loc ?ms] =>
    with_var loc is_empty_list ltac:(fun nw =>
    with_var loc is_dict ltac:(fun pr =>
    with_var loc is_bool ltac:(fun ai =>
      first [ run_enum_inv E nw pr ai (fun (_ : nat) (_ : var -> val) => True)
            | with_var loc is_true_val ltac:(fun fl =>
                run_enum_inv E nw pr ai (fun (m : nat) (lc : var -> val) => lc fl = VBool (Nat.eqb m 0))) ])))
  end.

(* for p in self.parameter_descs: ... *)
Ltac run_kw :=
  match goal with
  | |- context [for_loop ?run ?x (map val_of_pdesc ?ds) ?loc ?ms] =>
    with_var loc is_none_val ltac:(fun kw =>
    with_var loc is_false ltac:(fun hk =>
      let Hs := fresh "Hs" in
      assert (Hs : forall lc p acc b,
                lc kw = vopt acc -> lc hk = VBool b ->
                exists loc1,
                  (run (setv lc x (val_of_pdesc p)) ms = RNormal loc1 ms \/ run (setv lc x (val_of_pdesc p)) ms = RContinue loc1 ms) /\
                  loc1 kw = vopt (if is_kw_name p then Some p else acc) /\
                  loc1 hk = VBool (b || (negb (is_kw_name p) && pd_kw p)));
      [ let H1 := fresh "Hkw" in let H2 := fresh "Hhk" in
        intros lc p acc b H1 H2; step_tac H1 H2 H2
      | let loc' := fresh "loc'" in let Hr := fresh "Hr" in let H1 := fresh "Hkw" in let H2 := fresh "Hhk" in
        destruct (for_loop_kw run x kw hk ms Hs ds loc None false eq_refl eq_refl) as (loc' & Hr & H1 & H2);
        clear Hs; rewrite Hr; clear Hr ]))
  end.

(* x = next((d for d in reversed(descs) if <d is named by a KeywordArgument>), None);  x = any(<d is another keyword> for d in descs) *)
Ltac decide_pointwise :=
  let p := fresh "p" in
  intro p; cbn; unfold val_of_pdesc, is_kw_name; cbn;
  repeat match goal with
         | |- context [pn_star ?x] => destruct (pn_star x)
         | |- context [pd_kw ?q] => destruct (pd_kw q)
         end; reflexivity.

Ltac run_find :=
  match goal with
  | |- context [find_first ?E ?i ?f ?loc ?st ?x ?c (rev (map val_of_pdesc ?ds))] =>
    let H := fresh "Hg" in
    assert (H : forall p, evalc E i f (setv loc x (val_of_pdesc p)) st c = Some (is_kw_name p)) by decide_pointwise;
    rewrite <- (map_rev val_of_pdesc ds), (find_first_map E i f loc st x c is_kw_name (rev ds) H), find_rev_fold; clear H
  end.

Ltac run_any :=
  match goal with
  | |- context [any_in ?E ?i ?f ?loc ?st ?x ?c (map val_of_pdesc ?ds)] =>
    let H := fresh "Hg" in
    assert (H : forall p, evalc E i f (setv loc x (val_of_pdesc p)) st c = Some (negb (is_kw_name p) && pd_kw p)) by decide_pointwise;
    rewrite (any_in_map E i f loc st x c (fun p => negb (is_kw_name p) && pd_kw p) ds H); clear H
  end.

Ltac rt_atom :=
  match goal with
  | |- context [if ?a then _ else _] => is_var a; destruct a
  | |- context [fold_left ?f ?l ?a] => destruct (fold_left f l a) eqn:?
  | |- context [existsb ?f ?l] => destruct (existsb f l) eqn:?
  | |- context [pdesc_documented ?k] => destruct (pdesc_documented k) eqn:?
  end.

Ltac rt_norm :=
  norm; refold; use_locs; unfold vopt; cbn; rewrite ?map_snd_enc, <- ?map_app, ?pdescs_of_map, ?pdesc_of_val, ?truthy_pdesc, ?is_none_pdesc; norm.

Theorem code_resolve_is_model : forall E st,
  resolve_ir fields_code E (irstate st) = Some (irstate (resolve_types E st)).
Proof.
  intros E st. unfold resolve_ir, resolve_types, irstate. cbn [c_resolve fields_code]. unfold code_resolve_types.
  remember (params_dict (st_pdescs st)) as P eqn:HeqP.
  norm. rewrite <- HeqP. refold.
  change (match enc P with [] => false | _ :: _ => true end) with (nonempty (enc P)). rewrite nonempty_enc.
  change (match P with [] => false | _ :: _ => true end) with (nonempty P).
  destruct (nonempty P) eqn:HP; rt_norm.
  all: run_enum E; rt_norm.
  all: repeat first [ run_kw; rt_norm | run_find; rt_norm | run_any; rt_norm | rt_atom; rt_norm ].
  all: try congruence.
  all: rt_norm; rt_norm.
  all: unfold val_of_pdesc; cbn; try reflexivity.
  all: repeat match goal with |- context [pd_kw ?p] => destruct (pd_kw p) end; reflexivity.
Qed.

(* ---- format_docstring's use of FieldHandler ------------------------------------------------------------------------------------- *)
Theorem code_final_is_model : forall E fs,
  final_ir fields_code E fs = Some (irstate (final_state E fs)).
Proof.
  intros E fs. unfold final_ir, final_state. rewrite code_run_is_model.
  destruct (e_obj E); try reflexivity. apply code_resolve_is_model.
Qed.

(* format() does not look at the warnings *)
Lemma emit_set_reports : forall pe r st ip, emit pe (set_reports r st) ip = emit pe st ip.
Proof. intros pe r st ip. unfold emit, desc_rows. destruct (pe_kind pe), (pe_bucket pe); reflexivity. Qed.

Lemma format_set_reports : forall r st, format (set_reports r st) = format st.
Proof.
  intros r st. unfold format. generalize false. induction format_plan as [|pe plan IH]; intro ip; [reflexivity|].
  cbn [format_plan_run]. rewrite emit_set_reports. destruct (emit pe st ip) as [secs ip']. rewrite IH. reflexivity.
Qed.

(* the property of C09_fields_routed_partial, on what the translated code computes: the sections format() makes of the
   state the code reaches, and the warnings the code built (reps: the records those texts render) *)
Theorem code_fields_routed : forall E fs ms i f,
  is_function_obj E = true -> no_silent_class E fs -> nth_error fs i = Some f ->
  final_ir fields_code E fs = Some ms ->
  exists reps, ms_msgs ms = map rend reps /\ routed i f (format (ms_st ms)) reps.
Proof.
  intros E fs ms i f HE Hns Hi Hms. rewrite code_final_is_model in Hms. inversion Hms; subst ms; clear Hms.
  exists (st_reports (final_state E fs)). split; [reflexivity|].
  cbn [ms_st irstate]. rewrite format_set_reports.
  exact (Proofs.FieldsProofs.fields_routed E HE fs i f Hns Hi).
Qed.
