(* Proofs/RegistryDerived.v -- the derived relations of C02 over Model/Registry.v:
   subclasses is the exact inverse of baseobjects after defaultPostProcess; page file names are injective. *)
From Coq Require Import ZArith NArith List Bool Lia.
From PydoctorVerif Require Import Base.Sexp Model.Registry Spec.RegistryInv Proofs.RegistryBase Proofs.RegistryProofs.
Import ListNotations.
Local Open Scope N_scope.

(* ------------------------------------------------------------------ values of the registry are distinct *)
Lemma reg_in_values : forall s o, Inv s -> (reg s o <-> In o (map snd (allobj s))).
Proof.
  intros s o HI. split.
  - intros [p Hp]. apply in_map_iff. exists (p, o). split; [reflexivity | apply (aget_in path_eqb path_eqb_eq); exact Hp].
  - intros H. apply in_map_iff in H. destruct H as [[p o'] [E Hin]]. cbn in E. subst o'. exists p.
    apply (in_aget path_eqb path_eqb_eq); [apply (inv_keys s HI) | exact Hin].
Qed.

Lemma values_nodup_gen : forall (l : list (path * id)) (f : id -> option path),
    NoDup (map fst l) -> (forall k v, In (k, v) l -> f v = Some k) -> NoDup (map snd l).
Proof.
  induction l as [|[k v] t IH]; cbn; intros f Hnd Hf; [constructor|].
  inversion Hnd as [|? ? Hn Hnd']; subst. constructor.
  - intros Hin. apply in_map_iff in Hin. destruct Hin as [[k' v'] [E Hin]]. cbn in E. subst v'.
    assert (E1 := Hf k v (or_introl eq_refl)). assert (E2 := Hf k' v (or_intror Hin)). rewrite E1 in E2. inversion E2; subst k'.
    apply Hn. apply (in_map fst) in Hin. exact Hin.
  - apply (IH f Hnd'). intros k' v' Hin. apply Hf. right. exact Hin.
Qed.
Lemma values_nodup : forall s, Inv s -> NoDup (map snd (allobj s)).
Proof.
  intros s HI. apply (values_nodup_gen _ (fullpath s)); [apply (inv_keys s HI)|].
  intros k v Hin. apply (inv_I1 s HI). apply (in_aget path_eqb path_eqb_eq); [apply (inv_keys s HI) | exact Hin].
Qed.

(* ------------------------------------------------------------------ D2: subclasses vs baseobjects *)
Definition optid_dec : forall a b : option id, {a = b} + {a <> b}.
Proof. decide equality. apply N.eq_dec. Defined.

(* how often b is a base of c, if c is a class *)
Definition nbase (st : id -> obj) (c b : id) : nat :=
  if ocls_eqb (ocl (st c)) CClass then count_occ optid_dec (obases (st c)) (Some b) else O.

Lemma add_subclass_stable : forall st c b y, ocl (add_subclass st c b y) = ocl (st y) /\ obases (add_subclass st c b y) = obases (st y).
Proof.
  intros st c [b'|] y; cbn; [|auto]. unfold upd. destruct (N.eqb y b') eqn:E; [apply N.eqb_eq in E; subst; cbn; auto | auto].
Qed.
Lemma add_subclass_subs : forall st c b x c2,
    count_occ N.eq_dec (osubs (add_subclass st c b x)) c2 =
    (count_occ N.eq_dec (osubs (st x)) c2 + (if optid_dec b (Some x) then (if N.eq_dec c c2 then 1 else 0) else 0))%nat.
Proof.
  intros st c [b'|] x c2; cbn [add_subclass].
  - unfold upd. destruct (N.eqb x b') eqn:E.
    + apply N.eqb_eq in E. subst b'. cbn [osubs with_subs]. rewrite count_occ_app. cbn [count_occ].
      destruct (optid_dec (Some x) (Some x)) as [_|N]; [|exfalso; apply N; reflexivity].
      destruct (N.eq_dec c c2); reflexivity.
    + destruct (optid_dec (Some b') (Some x)) as [E2|_]; [inversion E2; subst; rewrite N.eqb_refl in E; discriminate | lia].
  - destruct (optid_dec None (Some x)); [discriminate | lia].
Qed.
Lemma fold_sub_stable : forall l st c y,
    ocl (fold_left (fun st' b => add_subclass st' c b) l st y) = ocl (st y) /\
    obases (fold_left (fun st' b => add_subclass st' c b) l st y) = obases (st y).
Proof.
  induction l as [|b l IH]; intros st c y; cbn; [auto|].
  destruct (IH (add_subclass st c b) c y) as [H1 H2]. destruct (add_subclass_stable st c b y) as [G1 G2]. split; congruence.
Qed.
Lemma fold_sub_count : forall l st c x c2,
    count_occ N.eq_dec (osubs (fold_left (fun st' b => add_subclass st' c b) l st x)) c2 =
    (count_occ N.eq_dec (osubs (st x)) c2 + (if N.eq_dec c c2 then count_occ optid_dec l (Some x) else 0))%nat.
Proof.
  induction l as [|b l IH]; intros st c x c2; simpl fold_left; simpl (count_occ optid_dec _ _).
  - destruct (N.eq_dec c c2); lia.
  - rewrite IH. rewrite add_subclass_subs. destruct (N.eq_dec c c2); destruct (optid_dec b (Some x)); lia.
Qed.
Lemma post_class_stable : forall st c y, ocl (post_class st c y) = ocl (st y) /\ obases (post_class st c y) = obases (st y).
Proof. intros st c y. unfold post_class. destruct (ocls_eqb (ocl (st c)) CClass); [apply fold_sub_stable | auto]. Qed.
Lemma post_class_count : forall st c x c2,
    count_occ N.eq_dec (osubs (post_class st c x)) c2 =
    (count_occ N.eq_dec (osubs (st x)) c2 + (if N.eq_dec c c2 then nbase st c x else 0))%nat.
Proof.
  intros st c x c2. unfold post_class, nbase. destruct (ocls_eqb (ocl (st c)) CClass).
  - apply fold_sub_count.
  - destruct (N.eq_dec c c2); lia.
Qed.
Lemma nbase_post_class : forall st c c' b, nbase (post_class st c) c' b = nbase st c' b.
Proof. intros st c c' b. unfold nbase. destruct (post_class_stable st c c') as [H1 H2]. rewrite H1, H2. reflexivity. Qed.

Lemma post_fold_count : forall L st x c2, NoDup L ->
    count_occ N.eq_dec (osubs (fold_left post_class L st x)) c2 =
    (count_occ N.eq_dec (osubs (st x)) c2 + (if in_dec N.eq_dec c2 L then nbase st c2 x else 0))%nat.
Proof.
  induction L as [|c L IH]; intros st x c2 Hnd; simpl fold_left.
  - destruct (in_dec N.eq_dec c2 []) as [[]|_]. rewrite Nat.add_0_r. reflexivity.
  - inversion Hnd as [|? ? Hn Hnd']; subst. rewrite (IH _ _ _ Hnd'). rewrite post_class_count. rewrite nbase_post_class.
    destruct (N.eq_dec c c2) as [E|Hne].
    + subst c. destruct (in_dec N.eq_dec c2 L) as [Hin|_]; [contradiction|].
      match goal with |- context [in_dec ?a ?b ?l] => destruct (in_dec a b l) as [_|N] end;
        [lia | exfalso; apply N; left; reflexivity].
    + destruct (in_dec N.eq_dec c2 L) as [Hin|Hnin].
      * match goal with |- context [in_dec ?a ?b ?l] => destruct (in_dec a b l) as [_|N] end;
          [lia | exfalso; apply N; right; exact Hin].
      * match goal with |- context [in_dec ?a ?b ?l] => destruct (in_dec a b l) as [[E|Hin]|_] end;
          [contradiction | contradiction | lia].
Qed.

(* after defaultPostProcess (run once: no subclasses recorded before), c occurs in subclasses(b) exactly as often
   as b occurs in baseobjects(c), for registered classes c; and nothing else occurs *)
Lemma subclasses_inverse : forall s b, Inv s -> osubs (store s b) = [] ->
    forall c,
      (reg s c -> ocl (store s c) = CClass ->
       count_occ N.eq_dec (osubs (store (post_process s) b)) c = count_occ optid_dec (obases (store s c)) (Some b)) /\
      (~ (reg s c /\ ocl (store s c) = CClass) -> count_occ N.eq_dec (osubs (store (post_process s) b)) c = O).
Proof.
  intros s b HI Hempty c. unfold post_process. cbn [store set_store].
  rewrite (post_fold_count _ _ _ _ (values_nodup s HI)). rewrite Hempty. cbn [count_occ]. unfold nbase. split.
  - intros Hc Hcl. destruct (in_dec N.eq_dec c (map snd (allobj s))) as [_|N].
    + rewrite Hcl. reflexivity.
    + exfalso. apply N. apply (reg_in_values s c HI). exact Hc.
  - intros Hn. destruct (in_dec N.eq_dec c (map snd (allobj s))) as [Hin|_]; [|reflexivity].
    destruct (ocls_eqb (ocl (store s c)) CClass) eqn:E; [|reflexivity].
    exfalso. apply Hn. split; [apply (reg_in_values s c HI); exact Hin|].
    destruct (ocl (store s c)); cbn in E; try discriminate. reflexivity.
Qed.

(* ------------------------------------------------------------------ D4: page file names *)
(* a registered object whose path has one component is a top-level module *)
Lemma single_path_root : forall s x a, Inv s -> reg s x -> fullpath s x = Some [a] ->
    In x (roots s) /\ oname (store s x) = a.
Proof.
  intros s x a HI Hx Hp. destruct (oparent (store s x)) as [q|] eqn:E.
  - exfalso. unfold fullpath in Hp. destruct (fullpath_f_child _ _ _ _ _ E Hp) as [pq [Hpq Heq]].
    apply fullpath_f_nonempty in Hpq. destruct pq as [|p0 pq]; [apply Hpq; reflexivity|].
    apply (f_equal (@length name)) in Heq. cbn in Heq. rewrite app_length in Heq. cbn in Heq. lia.
  - split; [apply (inv_top s HI); assumption|]. apply (fullpath_f_root _ _ _ _ E) in Hp. inversion Hp. reflexivity.
Qed.

Definition reserved_free (s : state) : Prop := forall r, In r (roots s) -> reserved_root (oname (store s r)) = false.

Lemma reserved_singleton : forall b, In [(b, [])] [[(sym_moduleIndex, [])]; [(sym_classIndex, [])]; [(sym_nameIndex, [])];
                                                   [(sym_undoccedSummary, [])]; [(sym_all_documents, [])]; file_index] ->
                                     reserved_root (b, []) = true.
Proof.
  intros b H. cbn in H. unfold file_index in H.
  repeat (destruct H as [H|H]; [inversion H; subst; vm_compute; reflexivity|]). destruct H.
Qed.

Lemma page_file_injective : forall s x y fx fy, Inv s -> reserved_free s -> reg s x -> reg s y -> x <> y ->
    page_file s x = Some fx -> page_file s y = Some fy -> fx <> fy.
Proof.
  intros s x y fx fy HI Hres Hx Hy Hne Hfx Hfy. unfold page_file in *.
  destruct (fullpath s x) as [px|] eqn:Ex; [|discriminate]. destruct (fullpath s y) as [py|] eqn:Ey; [|discriminate].
  assert (Hpne : px <> py) by (intros ->; apply Hne; eapply (path_inj s HI); eauto).
  assert (Hidx : forall z pz, reg s z -> fullpath s z = Some pz -> pz <> file_index).
  { intros z pz Hz Hpz ->. destruct (single_path_root s z _ HI Hz Hpz) as [Hr Hn].
    specialize (Hres z Hr). rewrite Hn in Hres. vm_compute in Hres. discriminate. }
  destruct (root_names s) as [|r [|r2 l]].
  - inversion Hfx as [Efx]; inversion Hfy as [Efy]. rewrite <- Efx, <- Efy. exact Hpne.
  - destruct (path_eqb r px) eqn:E1; destruct (path_eqb r py) eqn:E2; inversion Hfx as [Efx]; inversion Hfy as [Efy].
    + apply path_eqb_eq in E1. apply path_eqb_eq in E2. congruence.
    + rewrite <- Efy. intros E. symmetry in E. apply (Hidx y py Hy Ey E).
    + rewrite <- Efx. intros E. apply (Hidx x px Hx Ex E).
    + rewrite <- Efx, <- Efy. exact Hpne.
  - inversion Hfx as [Efx]; inversion Hfy as [Efy]. rewrite <- Efx, <- Efy. exact Hpne.
Qed.

Lemma page_file_not_summary : forall s x fx, Inv s -> reserved_free s -> reg s x ->
    page_file s x = Some fx -> ~ In fx (summary_files s).
Proof.
  intros s x fx HI Hres Hx Hfx Hin. unfold page_file in Hfx.
  destruct (fullpath s x) as [px|] eqn:Ex; [|discriminate].
  assert (Hplain : ~ In px (summary_files s)).
  { intros Hin'. unfold summary_files in Hin'.
    assert (Hin2 : In px [[(sym_moduleIndex, [])]; [(sym_classIndex, [])]; [(sym_nameIndex, [])];
                          [(sym_undoccedSummary, [])]; [(sym_all_documents, [])]; file_index]).
    { apply in_app_iff in Hin'. destruct Hin' as [H|H].
      - cbn in H. cbn. tauto.
      - destruct (Nat.ltb 1 (length (root_names s))); [|destruct H]. destruct H as [<-|[]]. cbn. tauto. }
    assert (exists b, px = [(b, [])]).
    { cbn in Hin2. unfold file_index in Hin2. repeat (destruct Hin2 as [<-|Hin2]; [eexists; reflexivity|]). destruct Hin2. }
    destruct H as [b ->]. destruct (single_path_root s x _ HI Hx Ex) as [Hr Hn].
    specialize (Hres x Hr). rewrite Hn in Hres. rewrite (reserved_singleton b Hin2) in Hres. discriminate. }
  unfold summary_files in *.
  destruct (root_names s) as [|r [|r2 l]] eqn:Er.
  - inversion Hfx as [Efx]. rewrite <- Efx in Hin. apply Hplain. exact Hin.
  - destruct (path_eqb r px); inversion Hfx as [Efx]; rewrite <- Efx in Hin; [|apply Hplain; exact Hin].
    cbn in Hin. unfold file_index in Hin. repeat (destruct Hin as [Hin|Hin]; [discriminate Hin|]). destruct Hin.
  - inversion Hfx as [Efx]. rewrite <- Efx in Hin. apply Hplain. exact Hin.
Qed.
