(* Proofs/VisitorCorollaries.v -- the clauses of C19 in the words of the property text, derived from the projection
   theorem (Proofs/VisitorProofs.v): each node entered at most once, every extension leaves exactly the nodes it
   entered, the calls of one participant are well bracketed (nest like the tree), only tree nodes are visited. *)
From Coq Require Import ZArith NArith List Bool Lia Permutation.
From PydoctorVerif Require Import Base.Sexp Model.Visitor Model.BuilderStack Spec.Walk Proofs.VisitorProofs.
Import ListNotations.

(* ---- order-preserving sub-lists ---- *)
Inductive subseq {A : Type} : list A -> list A -> Prop :=
| ss_nil : forall l, subseq [] l
| ss_cons : forall x l1 l2, subseq l1 l2 -> subseq (x :: l1) (x :: l2)
| ss_skip : forall x l1 l2, subseq l1 l2 -> subseq l1 (x :: l2).

Lemma subseq_refl {A} (l : list A) : subseq l l.
Proof. induction l as [|x l IH]; constructor; exact IH. Qed.

Lemma subseq_app {A} (a a' b b' : list A) : subseq a a' -> subseq b b' -> subseq (a ++ b) (a' ++ b').
Proof.
  intros Ha Hb. induction Ha as [l|x l1 l2 _ IH|x l1 l2 _ IH]; cbn [app].
  - induction l as [|y l IHl]; [exact Hb|]. cbn [app]. apply ss_skip. exact IHl.
  - apply ss_cons. exact IH.
  - apply ss_skip. exact IH.
Qed.

Lemma subseq_In {A} (l1 l2 : list A) x : subseq l1 l2 -> In x l1 -> In x l2.
Proof.
  intros H. induction H as [l|y l1 l2 _ IH|y l1 l2 _ IH]; intros Hin.
  - destruct Hin.
  - destruct Hin as [->|Hin]; [left; reflexivity|right; apply IH; exact Hin].
  - right. apply IH. exact Hin.
Qed.

Lemma subseq_NoDup {A} (l1 l2 : list A) : subseq l1 l2 -> NoDup l2 -> NoDup l1.
Proof.
  intros H. induction H as [l|y l1 l2 Hs IH|y l1 l2 _ IH]; intros Hnd.
  - constructor.
  - inversion Hnd as [|? ? Hnotin Hnd']; subst. constructor; [|apply IH; exact Hnd'].
    intros Hin. apply Hnotin. apply (subseq_In l1 l2 y Hs Hin).
  - inversion Hnd as [|? ? _ Hnd']; subst. apply IH. exact Hnd'.
Qed.

(* ---- the traversed sub-tree only loses nodes, keeping their order ---- *)
Lemma preorder_traversed_subseq prune t : subseq (preorder (traversed prune t)) (preorder t).
Proof.
  induction t as [n kids IH] using tree_ind'. rewrite traversed_eq. cbn [preorder]. apply ss_cons.
  destruct (skips_kids prune n); [apply ss_nil|].
  induction kids as [|k ks IHk]; [apply ss_nil|].
  inversion IH as [|? ? Hk Hks]; subst. destruct k as [m mk]. cbn [go_trav flat_map].
  change (subseq (preorder (traversed prune (Node m mk)) ++
                  flat_map preorder (if skips_siblings prune m then [] else go_trav prune ks))
                 (preorder (Node m mk) ++ flat_map preorder ks)).
  apply subseq_app; [exact Hk|]. destruct (skips_siblings prune m); [apply ss_nil|]. apply IHk. exact Hks.
Qed.

(* ---- what one participant sees, as node lists ---- *)
Definition entered_by (p : N) (tr : list event) : list N := map enode (filter is_enter (filter (who_is p) tr)).
Definition left_by (p : N) (tr : list event) : list N := map enode (filter is_leave (filter (who_is p) tr)).

Lemma dfs_enters p leaves t : map enode (filter is_enter (dfs p leaves t)) = preorder t.
Proof.
  induction t as [n kids IH] using tree_ind'. cbn [dfs preorder]. rewrite !filter_app, !map_app.
  cbn [filter is_enter edir map enode app]. f_equal.
  replace (map enode (filter is_enter (if leaves n then [Ev p Leave n] else []))) with (@nil N)
    by (destruct (leaves n); reflexivity).
  rewrite app_nil_r.
  induction kids as [|k ks IHk]; [reflexivity|]. inversion IH as [|? ? Hk Hks]; subst.
  cbn [flat_map]. rewrite filter_app, map_app, Hk, (IHk Hks). reflexivity.
Qed.

Lemma dfs_leaves p leaves t : map enode (filter is_leave (dfs p leaves t)) = filter leaves (postorder t).
Proof.
  induction t as [n kids IH] using tree_ind'. cbn [dfs postorder]. rewrite !filter_app, !map_app.
  cbn [filter is_leave is_enter negb edir map enode app].
  assert (HK : map enode (filter is_leave (flat_map (dfs p leaves) kids)) = filter leaves (flat_map postorder kids)).
  { induction kids as [|k ks IHk]; [reflexivity|]. inversion IH as [|? ? Hk Hks]; subst.
    cbn [flat_map]. rewrite !filter_app, map_app, Hk, (IHk Hks). reflexivity. }
  rewrite HK. f_equal. cbn [filter]. destruct (leaves n); reflexivity.
Qed.

Lemma filter_all_true {A} (l : list A) : filter (fun _ => true) l = l.
Proof. induction l as [|x l IH]; [reflexivity|]. cbn [filter]. rewrite IH. reflexivity. Qed.

Lemma preorder_postorder_perm t : Permutation (preorder t) (postorder t).
Proof.
  induction t as [n kids IH] using tree_ind'. cbn [preorder postorder].
  assert (HK : Permutation (flat_map preorder kids) (flat_map postorder kids)).
  { induction kids as [|k ks IHk]; [constructor|]. inversion IH as [|? ? Hk Hks]; subst.
    cbn [flat_map]. apply Permutation_app; [exact Hk|apply IHk; exact Hks]. }
  eapply Permutation_trans; [apply perm_skip; exact HK|]. apply Permutation_cons_append.
Qed.

Lemma ext_is_not_main exts p : NoDup (main_id :: map ext_id exts) -> In p (map ext_id exts) -> N.eqb p main_id = false.
Proof.
  intros Hnd Hin. apply N.eqb_neq. intros ->. inversion Hnd as [|? ? Hnotin _]; subst. exact (Hnotin Hin).
Qed.

(* ---- the clauses of the property ---- *)

(* every participant enters exactly the nodes of the documented traversed sub-tree, in pre-order *)
Theorem entered_is_preorder exts prune t p :
  NoDup (main_id :: map ext_id exts) -> In p (main_id :: map ext_id exts) ->
  entered_by p (fst (walkabout exts prune t)) = preorder (traversed prune t).
Proof. intros Hnd Hin. unfold entered_by. rewrite walkabout_projection by assumption. apply dfs_enters. Qed.

(* each node is entered at most once (by each participant), and only nodes of the tree are entered *)
Theorem entered_at_most_once exts prune t p :
  NoDup (main_id :: map ext_id exts) -> In p (main_id :: map ext_id exts) -> NoDup (preorder t) ->
  NoDup (entered_by p (fst (walkabout exts prune t))) /\
  forall n, In n (entered_by p (fst (walkabout exts prune t))) -> In n (preorder t).
Proof.
  intros Hnd Hin Ht. rewrite entered_is_preorder by assumption. split.
  - apply (subseq_NoDup _ _ (preorder_traversed_subseq prune t) Ht).
  - intros n. apply subseq_In. apply preorder_traversed_subseq.
Qed.

(* every extension that entered a node also leaves it, exactly once: its exits are the post-order of the very
   sub-tree whose pre-order are its entries -- whatever the main visitor pruned *)
Theorem extension_leaves_what_it_entered exts prune t p :
  NoDup (main_id :: map ext_id exts) -> In p (map ext_id exts) ->
  left_by p (fst (walkabout exts prune t)) = postorder (traversed prune t) /\
  Permutation (entered_by p (fst (walkabout exts prune t))) (left_by p (fst (walkabout exts prune t))).
Proof.
  intros Hnd Hin.
  assert (Hin' : In p (main_id :: map ext_id exts)) by (right; exact Hin).
  assert (HL : left_by p (fst (walkabout exts prune t)) = postorder (traversed prune t)).
  { unfold left_by. rewrite walkabout_projection by assumption. rewrite dfs_leaves.
    unfold leaves_of. rewrite (ext_is_not_main exts p Hnd Hin). apply filter_all_true. }
  split; [exact HL|]. rewrite HL, entered_is_preorder by assumption. apply preorder_postorder_perm.
Qed.

(* the main visitor leaves exactly the entered nodes where it raised neither SkipNode nor SkipDeparture *)
Theorem main_leaves_unless_skipped exts prune t :
  NoDup (main_id :: map ext_id exts) ->
  left_by main_id (fst (walkabout exts prune t)) = filter (main_departs prune) (postorder (traversed prune t)).
Proof.
  intros Hnd. unfold left_by. rewrite walkabout_projection by (try assumption; left; reflexivity).
  rewrite dfs_leaves. unfold leaves_of. rewrite N.eqb_refl. reflexivity.
Qed.

(* enter/leave calls of an extension nest like the tree: read as pushes and pops of a stack, every leave pops the
   node entered last and not yet left, and the stack is back where it started at the end (no leave without its
   enter, no enter left open) *)
Theorem extension_calls_well_bracketed exts prune t p st :
  NoDup (main_id :: map ext_id exts) -> In p (map ext_id exts) ->
  stack_run (fun _ => true) (fun _ => true) (filter (who_is p) (fst (walkabout exts prune t))) st = Some st.
Proof.
  intros Hnd Hin. rewrite walkabout_projection by (try assumption; right; exact Hin).
  apply stack_run_dfs with (isdef := fun _ => true); [|reflexivity].
  intros n. unfold leaves_of. rewrite (ext_is_not_main exts p Hnd Hin). reflexivity.
Qed.
