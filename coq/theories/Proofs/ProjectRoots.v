(* Proofs/ProjectRoots.v -- System.rootobjects: fixed once the modules have been added; which objects it holds. *)
From Coq Require Import ZArith NArith List Bool Lia Permutation.
From PydoctorVerif Require Import Base.Sexp Model.Project Spec.ProjectStatic Proofs.ProjectBase.
Import ListNotations.
Local Open Scope N_scope.

Section Roots.
  Variable p : project.

  Lemma step_roots s s' : step p s = Next s' -> roots s' = roots s.
  Proof.
    intros Hs.
    destruct (step_cases p _ _ Hs) as [(Hf & m & rest & Hu & Hb)|[(fr & rest & Hf & Ht & ->)|
      (fr & rest & op & todo & s1 & fr1 & en & Hf & Ht & He & Hen)]].
    - destruct (begin_module_ctl p _ _ _ Hb) as (mi & _ & _ & _ & _ & _ & _ & _ & Hr). exact Hr.
    - reflexivity.
    - pose proof (ctl_exec_op s (with_todo todo fr) op) as Hctl. rewrite He in Hctl. cbn [fst] in Hctl.
      destruct Hctl as (_ & _ & _ & Hr & _).
      destruct (ensure_cases p _ _ _ Hen) as [->|(o & _ & _ & Hb)]; [exact Hr|].
      destruct (begin_module_ctl p _ _ _ Hb) as (mi & _ & _ & _ & _ & _ & _ & _ & Hr'). rewrite Hr'. exact Hr.
  Qed.

  Lemma run_machine_roots fuel : forall s s', run_machine p fuel s = Ok s' -> roots s' = roots s.
  Proof.
    induction fuel as [|f IH]; intros s s'; cbn [run_machine]; [discriminate|].
    destruct (step p s) as [s1| |k] eqn:Es; [|intros E; inversion E; reflexivity|discriminate].
    intros E. rewrite (IH s1 s' E). exact (step_roots s s1 Es).
  Qed.

  Lemma roots_add_module s m mi :
    roots (add_module s m mi) = match m_parent mi with Some _ => roots s | None => roots s ++ [(m, 0, 0)] end.
  Proof.
    unfold add_module. cbv zeta. destruct (m_parent mi).
    - destruct (ctl_add_object (set_unproc s (unproc s ++ [m])) (m, 0, 0)
                  (new_obj (if m_pkg mi then T_PACKAGE else T_MODULE) (if m_pkg mi then K_PACKAGE else K_MODULE) (m_name mi) (Some (n, 0, 0)) 0))
        as (_ & _ & _ & Hr & _). rewrite Hr. reflexivity.
    - match goal with |- context [pget ?kk ?ll] => destruct (pget kk ll) end; reflexivity.
  Qed.

  Lemma roots_add_modules l : forall s k r,
    In r (roots (add_modules s k l)) <->
    In r (roots s) \/ exists j mi, nth_error l j = Some mi /\ m_parent mi = None /\ r = (k + N.of_nat j, 0, 0).
  Proof.
    induction l as [|mi l IH]; intros s k r; cbn [add_modules].
    - split; [auto|]. intros [H|(j & mi & Hn & _)]; [exact H|destruct j; discriminate].
    - rewrite IH, roots_add_module. split.
      + intros [H|(j & mj & Hn & Hp & ->)].
        * destruct (m_parent mi) eqn:Ep; [left; exact H|]. apply in_app_or in H. destruct H as [H|[<-|[]]]; [left; exact H|].
          right. exists O, mi. cbn [nth_error]. rewrite N.add_0_r. auto.
        * right. exists (S j), mj. cbn [nth_error]. split; [exact Hn|]. split; [exact Hp|]. f_equal. f_equal. lia.
      + intros [H|(j & mj & Hn & Hp & ->)].
        * left. destruct (m_parent mi); [exact H|apply in_or_app; left; exact H].
        * destruct j as [|j]; cbn [nth_error] in Hn.
          -- inversion Hn; subst mj. left. rewrite Hp. apply in_or_app. right. left. rewrite N.add_0_r. reflexivity.
          -- right. exists j, mj. split; [exact Hn|]. split; [exact Hp|]. f_equal. f_equal. lia.
  Qed.

  Lemma roots_init sigma r :
    In r (roots (init_state p sigma)) <-> exists m mi, modinfo_of p m = Some mi /\ m_parent mi = None /\ r = (m, 0, 0).
  Proof.
    unfold init_state. cbn [set_unproc roots]. rewrite roots_add_modules. cbn [empty_state roots In]. split.
    - intros [[]|(j & mi & Hn & Hp & ->)]. exists (N.of_nat j), mi. unfold modinfo_of. rewrite Nat2N.id. auto.
    - intros (m & mi & Hm & Hp & ->). right. exists (N.to_nat m), mi. unfold modinfo_of in Hm. rewrite N2Nat.id. auto.
  Qed.

  Lemma find_unique {A} (f : A -> bool) l d : In d l -> f d = true -> (forall r, In r l -> f r = true -> r = d) -> find f l = Some d.
  Proof.
    induction l as [|a l IH]; intros Hin Hd Hu; [destruct Hin|]. cbn [find]. destruct (f a) eqn:Ea.
    - f_equal. apply Hu; [left; reflexivity|exact Ea].
    - destruct Hin as [->|Hin]; [congruence|]. apply IH; [exact Hin|exact Hd|]. intros r Hr. apply Hu. right. exact Hr.
  Qed.
End Roots.
