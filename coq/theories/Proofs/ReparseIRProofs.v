(* Proofs/ReparseIRProofs.v -- interpreting the code generated from the current source (Gen/ReparseCode.v) is the
   hand-written model, for all inputs.  The proofs are symbolic executions: the interpreter is unfolded on the generated
   term, the primitives stay folded and are rewritten with the case hypotheses; nothing matches on the exact term. *)
From Coq Require Import ZArith NArith List Bool Lia Arith.
From PydoctorVerif Require Import Base.Sexp Gen.TablesC10 Model.Stan Model.DocutilsEsc Model.Html2Stan Model.DeprecateText
  Model.ReparseIR Gen.ReparseCode Spec.Xml Proofs.EscProofs.
Import ListNotations.
Local Open Scope N_scope.

(* unfold the interpreter only *)
Ltac sx :=
  unfold run_deprecate, run_html2stan, run_body, deprecate_env, res_of_h2s, res_of_deprecation;
  cbn [exec eval ebind setv env0 truthy Nat.eqb negb is_nil].

Ltac strnorm := repeat (progress (simpl; rewrite ?app_nil_r; rewrite <- ?app_assoc)).

(* ------------------------------------------------------------------ deprecatedToUsefulText *)
Lemma all_ident_valid : forall t, all_identifiers (split_on 46 t) = validate_identifier t.
Proof. reflexivity. Qed.

Theorem code_deprecate_is_model : forall name package version replacement,
  run_deprecate code_deprecate name package version replacement
  = res_of_deprecation version (deprecation_text name package version replacement).
Proof.
  intros name package version replacement.
  unfold deprecation_text, deprecation_text_with, clean_with, code_deprecate.
  destruct (validate_identifier package) eqn:Hp;
    [destruct replacement as [r|]; [destruct (validate_identifier r) eqn:Hr|]|destruct replacement as [r|]];
    repeat (progress (sx; rewrite ?all_ident_valid, ?Hp, ?Hr));
    try reflexivity;
    unfold fmt, depr_with, depr_without, depr_ops, depr_wrap_pre, depr_wrap_post, apply_op;
    repeat f_equal; strnorm; reflexivity.
Qed.

(* ------------------------------------------------------------------ html2stan *)
Lemma assoc_subst : forall tbl c,
  (if memN c (map fst tbl) then match assoc_N c tbl with Some r => r | None => [c] end else [c])
  = match assoc_N c tbl with Some r => r | None => [c] end.
Proof.
  induction tbl as [|[k v] tbl IH]; intro c; [reflexivity|].
  simpl. destruct (c =? k) eqn:E; [reflexivity|]. simpl. apply IH.
Qed.

(* the table the generated term carries is the one the model uses, and its keys are the model's control class *)
Lemma subst_is_neutralise : forall tbl t, tbl = re_control_repl -> subst_bytes tbl t = neutralise t.
Proof.
  intros tbl t ->. unfold subst_bytes, neutralise. apply flat_map_ext. intro c. unfold neutralise_char.
  change re_control with (map fst re_control_repl). symmetry. apply assoc_subst.
Qed.

Lemma wrap_literal : forall h,
  wrap h = [60; 100; 105; 118; 62] ++ h ++ [60; 47; 100; 105; 118; 62].
Proof. intro h. unfold wrap. reflexivity. Qed.

Lemma eol_div_prefix : forall R, eol_norm (60 :: 100 :: 105 :: 118 :: 62 :: R) = 60 :: 100 :: 105 :: 118 :: 62 :: eol_from false R.
Proof. reflexivity. Qed.

Lemma read_div_root : forall R n a kids,
  read (60 :: 100 :: 105 :: 118 :: 62 :: R) = Some [XElem n a kids] -> n = [100; 105; 118].
Proof.
  intros R n a kids H. unfold read in H.
  rewrite read_content_elem in H by reflexivity.
  assert (E : read_name (100 :: 105 :: 118 :: 62 :: R) = Some ([100; 105; 118], 62 :: R)) by reflexivity.
  rewrite E in H.
  repeat match type of H with
         | context [match ?x with _ => _ end] =>
           lazymatch x with
           | context [match _ with _ => _ end] => fail
           | _ => destruct x; try discriminate
           end
         end.
  all: inversion H; subst; reflexivity.
Qed.

Lemma xml_load_root : forall h st, xml_load (wrap h) = Some st -> exists a k, st = STag wrap_tag a k.
Proof.
  intros h st H. unfold xml_load in H. rewrite wrap_literal in H.
  change ([60; 100; 105; 118; 62] ++ h ++ [60; 47; 100; 105; 118; 62])
    with (60 :: 100 :: 105 :: 118 :: 62 :: (h ++ [60; 47; 100; 105; 118; 62])) in H.
  rewrite eol_div_prefix in H.
  destruct (read (60 :: 100 :: 105 :: 118 :: 62 :: eol_from false (h ++ [60; 47; 100; 105; 118; 62]))) as [f|] eqn:Er;
    [|discriminate].
  destruct f as [|[t|n a kids] [|y f']]; try discriminate.
  apply read_div_root in Er. subst n. inversion H. cbn [stan_of_xnode]. eexists. eexists. reflexivity.
Qed.

Lemma starts_literal : starts [60; 63; 120; 109; 108] = starts xml_decl.
Proof. reflexivity. Qed.

Lemma wrap_of_literal : forall h, [60; 100; 105; 118; 62] ++ h ++ [60; 47; 100; 105; 118; 62] = wrap h.
Proof. intro h. symmetry. apply wrap_literal. Qed.

Lemma wrap_tag_literal : text_eq wrap_tag [100; 105; 118] = true.
Proof. reflexivity. Qed.

(* the cases are split on the MODEL's side first; the generated code is then executed under those facts *)
Theorem code_html2stan_is_model : forall html,
  html2stan html <> H2Document ->
  run_html2stan code_html2stan html = res_of_h2s (html2stan html).
Proof.
  intros html Hdoc. unfold html2stan in *. unfold code_html2stan.
  destruct (starts xml_decl (neutralise html)) eqn:Hs; [exfalso; apply Hdoc; reflexivity|].
  destruct (xml_load (wrap (neutralise html))) as [st|] eqn:Hx;
    [destruct (xml_load_root _ _ Hx) as [a [k ->]]|];
    repeat (progress (sx; try (erewrite subst_is_neutralise by reflexivity);
                      rewrite ?starts_literal, ?Hs; rewrite <- ?app_assoc; rewrite ?wrap_of_literal, ?Hx, ?wrap_tag_literal));
    reflexivity.
Qed.
