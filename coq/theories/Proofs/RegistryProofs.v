(* Proofs/RegistryProofs.v -- the invariant of Spec/RegistryInv.v is preserved by the operations of Model/Registry.v. *)
From Coq Require Import ZArith NArith List Bool Lia.
From PydoctorVerif Require Import Base.Sexp Model.Registry Spec.RegistryInv Proofs.RegistryBase.
Import ListNotations.
Local Open Scope N_scope.

(* ------------------------------------------------------------------ consequences of Inv *)
Section InvFacts.
  Variable s : state.
  Hypothesis HI : Inv s.

  Lemma reg_self : forall o, reg s o -> exists p, fullpath s o = Some p /\ rget p (allobj s) = Some o.
  Proof. intros o [p Hp]. exists p. split; [apply (inv_I1 s HI); exact Hp | exact Hp]. Qed.

  Lemma path_inj : forall x y p, reg s x -> reg s y -> fullpath s x = Some p -> fullpath s y = Some p -> x = y.
  Proof.
    intros x y p Hx Hy Hpx Hpy. destruct (reg_self x Hx) as [px [H1 H2]]. destruct (reg_self y Hy) as [py [H3 H4]].
    congruence.
  Qed.

  Lemma reg_lt : forall o, reg s o -> o < next s.
  Proof. intros o [p Hp]. eapply (inv_lt s HI); eauto. Qed.

  Lemma reg_anc_closed : forall a x, reg s x -> anc (store s) a x -> reg s a.
  Proof. intros a x Hx H. induction H as [|x q Hq Ha IH]; [exact Hx | apply IH; eapply (inv_par s HI); eauto]. Qed.

  (* every proper prefix of a registered path is the path of a registered ancestor *)
  Lemma prefix_closed : forall r x p, reg s x -> fullpath s x = Some (p ++ r) -> p <> [] ->
      exists w, reg s w /\ fullpath s w = Some p /\ anc (store s) w x.
  Proof.
    induction r as [|a r IH] using rev_ind; intros x p Hx Hp Hne.
    - rewrite app_nil_r in Hp. exists x. split; [exact Hx | split; [exact Hp | apply anc_refl]].
    - destruct (oparent (store s x)) as [q|] eqn:Eq.
      + destruct (fullpath_f_child _ _ _ _ _ Eq Hp) as [pq [Hpq Heq]].
        rewrite app_assoc in Heq. apply app_inj_tail in Heq. destruct Heq as [Heq _]. subst pq.
        assert (Hq : reg s q) by (eapply (inv_par s HI); eauto).
        destruct (IH q p Hq Hpq Hne) as [w [Hw1 [Hw2 Hw3]]]. exists w. split; [exact Hw1 | split; [exact Hw2|]].
        eapply anc_step; eauto.
      + apply (fullpath_f_root _ _ _ _ Eq) in Hp. exfalso.
        apply (f_equal (@length name)) in Hp. rewrite !app_length in Hp. cbn in Hp.
        destruct p; [apply Hne; reflexivity | cbn in Hp; lia].
  Qed.

  (* the walk down stays inside the registered objects below its start *)
  Lemma desc_reg_anc : forall a x, reg s a -> desc (store s) a x -> reg s x /\ anc (store s) a x.
  Proof.
    intros a x Ha H. induction H as [|y n c Hy IH Hc]; [split; [exact Ha | apply anc_refl]|].
    destruct IH as [Hy1 Hy2]. destruct (inv_cont s HI y n c Hy1 Hc) as [Hc1 [Hc2 _]].
    split; [exact Hc1 | eapply anc_step; eauto].
  Qed.

  Lemma reg_child_path : forall o q pq, reg s o -> oparent (store s o) = Some q -> fullpath s q = Some pq ->
      fullpath s o = Some (pq ++ [oname (store s o)]).
  Proof.
    intros o q pq Ho Hq Hpq. destruct (reg_self o Ho) as [p [Hp _]].
    unfold fullpath in *. destruct (fullpath_f_child _ _ _ _ _ Hq Hp) as [pq' [Hpq' Heq]].
    rewrite Hpq in Hpq'. inversion Hpq'; subst. exact Hp.
  Qed.
End InvFacts.

(* ------------------------------------------------------------------ frame: operations that do not touch the
   name / parent / class / kind / contents / sup of registered objects, nor the registry *)
Definition same_core (a b : obj) : Prop :=
  oname a = oname b /\ oparent a = oparent b /\ ocl a = ocl b /\ okind a = okind b /\ ocont a = ocont b /\ osup a = osup b.

Lemma Inv_frame : forall s s', Inv s ->
    allobj s' = allobj s -> roots s' = roots s -> next s <= next s' -> (depthb s <= depthb s')%nat ->
    (forall o, reg s o -> same_core (store s' o) (store s o)) -> Inv s'.
Proof.
  intros s s' HI Ha Hr Hn Hd Hc.
  assert (Hreg : forall o, reg s' o <-> reg s o) by (intros o; unfold reg; rewrite Ha; tauto).
  assert (Hfp : forall o, reg s o -> forall p, fullpath s o = Some p -> fullpath s' o = Some p).
  { intros o Ho p Hp. unfold fullpath in *. apply (fullpath_f_mono (depthb s)); [|exact Hd].
    rewrite (fullpath_f_frame (store s) (store s') (reg s)); [exact Hp | | | exact Ho].
    - intros x q Hx Hq. eapply (inv_par s HI); eauto.
    - intros x Hx. destruct (Hc x Hx) as [H1 [H2 _]]. auto. }
  constructor.
  - rewrite Ha. apply (inv_keys s HI).
  - intros o Ho. apply Hreg in Ho. destruct (Hc o Ho) as [_ [_ [_ [_ [H5 _]]]]]. rewrite H5. apply (inv_ckeys s HI). exact Ho.
  - intros p o Hp. rewrite Ha in Hp. apply (inv_lt s HI) in Hp. lia.
  - intros p o Hp. rewrite Ha in Hp. apply Hfp; [exists p; exact Hp | apply (inv_I1 s HI); exact Hp].
  - intros o q Ho Hq. apply Hreg in Ho. apply Hreg. destruct (Hc o Ho) as [_ [H2 _]]. rewrite H2 in Hq.
    eapply (inv_par s HI); eauto.
  - intros o n c Ho Hin. apply Hreg in Ho. destruct (Hc o Ho) as [_ [_ [_ [_ [H5 _]]]]]. rewrite H5 in Hin.
    destruct (inv_cont s HI o n c Ho Hin) as [Hc1 [Hc2 Hc3]]. destruct (Hc c Hc1) as [G1 [G2 _]].
    split; [apply Hreg; exact Hc1 | split; congruence].
  - intros r Hin. rewrite Hr in Hin. destruct (inv_roots s HI r Hin) as [H1 H2].
    split; [apply Hreg; exact H1|]. destruct (Hc r H1) as [_ [G2 _]]. congruence.
  - intros o q Ho Hq. apply Hreg in Ho. destruct (Hc o Ho) as [G1 [G2 [_ [_ [_ G6]]]]]. rewrite G2 in Hq.
    assert (Hrq : reg s q) by (eapply (inv_par s HI); eauto).
    destruct (Hc q Hrq) as [_ [_ [_ [_ [Q5 _]]]]]. rewrite G1, G6, Q5. apply (inv_I3 s HI); assumption.
  - intros o Ho Hp. apply Hreg in Ho. destruct (Hc o Ho) as [_ [G2 _]]. rewrite Hr. apply (inv_top s HI); congruence.
  - intros o q Ho Hq H1 H2. apply Hreg in Ho. destruct (Hc o Ho) as [_ [G2 [G3 [G4 _]]]]. rewrite G2 in Hq.
    assert (Hrq : reg s q) by (eapply (inv_par s HI); eauto).
    destruct (Hc q Hrq) as [_ [_ [Q3 _]]]. rewrite G4. apply (inv_I5a s HI o q); congruence.
  - intros o q Ho Hq H1. apply Hreg in Ho. destruct (Hc o Ho) as [_ [G2 [G3 _]]]. rewrite G2 in Hq.
    assert (Hrq : reg s q) by (eapply (inv_par s HI); eauto).
    destruct (Hc q Hrq) as [_ [_ [Q3 _]]]. rewrite Q3. apply (inv_I5b s HI o q); congruence.
  - intros o Ho H1. apply Hreg in Ho. destruct (Hc o Ho) as [_ [_ [G3 [_ [G5 _]]]]]. rewrite G5.
    apply (inv_I5c s HI); congruence.
  - rewrite Hr. apply (inv_rnodup s HI).
Qed.

Lemma same_core_refl : forall a, same_core a a.
Proof. intros a. unfold same_core. auto 10. Qed.

Lemma upd_same : forall st k v, upd st k v k = v.
Proof. intros. unfold upd. rewrite N.eqb_refl. reflexivity. Qed.
Lemma upd_other : forall st k v x, x <> k -> upd st k v x = st x.
Proof. intros st k v x H. unfold upd. apply N.eqb_neq in H. rewrite H. reflexivity. Qed.

(* ------------------------------------------------------------------ init *)
Lemma inv_init : Inv init.
Proof.
  constructor; cbn; try (intros; discriminate); try (intros ? [p Hp]; discriminate);
    try (intros ? ? [p Hp]; discriminate); try (intros ? ? ? [p Hp]; discriminate).
  - constructor.
  - intros r [].
  - constructor.
Qed.

(* ------------------------------------------------------------------ alloc: Documentable.__init__ *)
Lemma alloc_inv : forall s c n parent k s1 ob, Inv s -> alloc s c n parent k = (s1, ob) ->
    Inv s1 /\ ob = next s /\ allobj s1 = allobj s /\ roots s1 = roots s /\ ~ reg s1 ob /\ ob < next s1 /\
    store s1 ob = mkObj n parent c (kind_of c (match parent with None => None | Some q => Some (ocl (store s q)) end) k)
                        [] [] [] [] false /\
    (forall x, x <> ob -> store s1 x = store s x) /\
    (forall x p, reg s x -> fullpath s x = Some p -> fullpath s1 x = Some p).
Proof.
  intros s c n parent k s1 ob HI H. unfold alloc in H. inversion H; subst; clear H. cbn [allobj roots next store depthb].
  assert (Hne : forall o, reg s o -> o <> next s) by (intros o Ho; apply (reg_lt s HI) in Ho; lia).
  assert (HI1 : Inv (mkState (upd (store s) (next s)
             (mkObj n parent c (kind_of c (match parent with None => None | Some q => Some (ocl (store s q)) end) k)
                    [] [] [] [] false)) (N.succ (next s)) (allobj s) (roots s) (S (depthb s)) (unproc s))).
  { apply (Inv_frame s); cbn; auto; try lia. intros o Ho. rewrite upd_other by (apply Hne; exact Ho). apply same_core_refl. }
  split; [exact HI1|]. repeat split; auto.
  - intros Hr. apply (Hne (next s)); [exact Hr | reflexivity].
  - lia.
  - apply upd_same.
  - intros x Hx. apply upd_other. exact Hx.
  - intros x p Hx Hp. destruct Hx as [p' Hp']. assert (E := inv_I1 s HI _ _ Hp'). rewrite Hp in E. inversion E; subst.
    apply (inv_I1 _ HI1). exact Hp'.
Qed.

(* ------------------------------------------------------------------ addObject of a freshly constructed child *)
Section AddChildObject.
  Variables (s : state) (ob q : id) (n : name) (pq : path).
  Hypothesis HI : Inv s.
  Hypothesis Hlt : ob < next s.
  Hypothesis Hunreg : ~ reg s ob.
  Hypothesis Hocont : ocont (store s ob) = [].
  Hypothesis Hosup : osup (store s ob) = false.
  Hypothesis Hopar : oparent (store s ob) = Some q.
  Hypothesis Honame : oname (store s ob) = n.
  Hypothesis Hq : reg s q.
  Hypothesis Hqcan : can_contain_imports (ocl (store s q)) = true.
  Hypothesis Hqpath : fullpath s q = Some pq.
  Hypothesis Hobpath : fullpath s ob = Some (pq ++ [n]).
  Hypothesis Hkind : ocl (store s ob) = CFunction -> ocl (store s q) = CClass -> method_like (okind (store s ob)) = true.
  Hypothesis Hmod : is_module (ocl (store s ob)) = true -> ocl (store s q) = CPackage.

  Let st := store s.
  Let st1 := upd st q (with_cont (st q) (cset n ob (ocont (st q)))).
  Let fn := pq ++ [n].

  Lemma ob_ne_q : ob <> q.
  Proof. intros ->. apply Hunreg. exact Hq. Qed.

  Lemma st1_core : forall x, oname (st1 x) = oname (st x) /\ oparent (st1 x) = oparent (st x) /\ ocl (st1 x) = ocl (st x) /\
                             okind (st1 x) = okind (st x) /\ osup (st1 x) = osup (st x).
  Proof.
    intros x. unfold st1, upd. destruct (N.eqb x q) eqn:E; [apply N.eqb_eq in E; subst x; cbn; auto | auto].
  Qed.
  Lemma st1_cont_q : ocont (st1 q) = cset n ob (ocont (st q)).
  Proof. unfold st1. rewrite upd_same. reflexivity. Qed.
  Lemma st1_cont_other : forall x, x <> q -> ocont (st1 x) = ocont (st x).
  Proof. intros x Hx. unfold st1. rewrite upd_other by exact Hx. reflexivity. Qed.

  Lemma st1_fullpath : forall F x, fullpath_f F st1 x = fullpath_f F st x.
  Proof. intros F x. apply fullpath_f_ext. intros y. destruct (st1_core y) as [H1 [H2 _]]. auto. Qed.

  (* a registered child of q named n is the registry entry of fn *)
  Lemma child_named_n : forall o, reg s o -> oparent (st o) = Some q -> oname (st o) = n -> rget fn (allobj s) = Some o.
  Proof.
    intros o Ho Hp Hn. destruct (reg_self s HI o Ho) as [p [Hp1 Hp2]].
    rewrite (reg_child_path s HI o q pq Ho Hp Hqpath) in Hp1. fold st in Hp1. rewrite Hn in Hp1.
    inversion Hp1; subst. exact Hp2.
  Qed.

  (* ---------------- the name is new: setdefault inserts *)
  Section Fresh.
    Hypothesis Hnew : rget fn (allobj s) = None.
    Let s' := set_allobj (set_store s st1) (allobj s ++ [(fn, ob)]).

    Lemma fresh_rget : forall k, rget k (allobj s') = if path_eqb fn k then Some ob else rget k (allobj s).
    Proof. intros k. unfold s'. cbn. apply (aget_app_new path_eqb path_eqb_eq). exact Hnew. Qed.
    Lemma fresh_reg : forall x, reg s' x <-> x = ob \/ reg s x.
    Proof.
      intros x. unfold reg. split.
      - intros [k Hk]. rewrite fresh_rget in Hk. destruct (path_eqb fn k); [inversion Hk; auto | right; eauto].
      - intros [->|[k Hk]].
        + exists fn. rewrite fresh_rget, path_eqb_refl. reflexivity.
        + exists k. rewrite fresh_rget. destruct (path_eqb fn k) eqn:E; [|exact Hk].
          apply path_eqb_eq in E. subst k. congruence.
    Qed.
    Lemma fresh_fullpath : forall x, fullpath s' x = fullpath s x.
    Proof. intros x. unfold fullpath, s'. cbn. apply st1_fullpath. Qed.

    Lemma add_fresh_inv : Inv s'.
    Proof.
      assert (Hst : store s' = st1) by reflexivity.
      constructor.
      - unfold s'. cbn. apply (nodup_app_new path_eqb path_eqb_eq); [apply (inv_keys s HI) | exact Hnew].
      - intros o Ho. rewrite Hst. apply fresh_reg in Ho. destruct (N.eq_dec o q) as [->|Hoq].
        + rewrite st1_cont_q. apply (nodup_aset name_eqb name_eqb_eq). apply (inv_ckeys s HI). exact Hq.
        + rewrite st1_cont_other by exact Hoq. destruct Ho as [->|Ho]; [unfold st; rewrite Hocont; constructor|].
          apply (inv_ckeys s HI). exact Ho.
      - intros p o Hp. rewrite fresh_rget in Hp. unfold s'. cbn. destruct (path_eqb fn p); [inversion Hp; subst; exact Hlt|].
        eapply (inv_lt s HI); eauto.
      - intros p o Hp. rewrite fresh_fullpath. rewrite fresh_rget in Hp. destruct (path_eqb fn p) eqn:E.
        + inversion Hp; subst. apply path_eqb_eq in E. subst p. exact Hobpath.
        + apply (inv_I1 s HI). exact Hp.
      - intros o p Ho Hp. rewrite Hst in Hp. destruct (st1_core o) as [_ [H2 _]]. rewrite H2 in Hp.
        apply fresh_reg. right. apply fresh_reg in Ho. destruct Ho as [->|Ho].
        + fold st in Hopar. rewrite Hopar in Hp. inversion Hp; subst. exact Hq.
        + eapply (inv_par s HI); eauto.
      - intros o n' c Ho Hin. rewrite Hst in *. apply fresh_reg in Ho.
        destruct (st1_core c) as [C1 [C2 _]]. rewrite C1, C2. destruct (N.eq_dec o q) as [->|Hoq].
        + rewrite st1_cont_q in Hin.
          apply (in_aset_inv name_eqb name_eqb_eq) in Hin; [|apply (inv_ckeys s HI); exact Hq].
          destruct Hin as [[-> ->]|[Hne Hin]].
          * split; [apply fresh_reg; left; reflexivity | split; [exact Hopar | exact Honame]].
          * destruct (inv_cont s HI q n' c Hq Hin) as [G1 [G2 G3]]. split; [apply fresh_reg; right; exact G1 | auto].
        + rewrite st1_cont_other in Hin by exact Hoq. destruct Ho as [->|Ho]; [unfold st in Hin; rewrite Hocont in Hin; destruct Hin|].
          destruct (inv_cont s HI o n' c Ho Hin) as [G1 [G2 G3]]. split; [apply fresh_reg; right; exact G1 | auto].
      - intros r Hr. unfold s' in Hr. cbn in Hr. destruct (inv_roots s HI r Hr) as [G1 G2].
        split; [apply fresh_reg; right; exact G1|]. rewrite Hst. destruct (st1_core r) as [_ [H2 _]]. rewrite H2. exact G2.
      - intros o p Ho Hp. rewrite Hst in *. destruct (st1_core o) as [O1 [O2 [_ [_ O5]]]]. rewrite O1, O5. rewrite O2 in Hp.
        apply fresh_reg in Ho. destruct Ho as [->|Ho].
        + fold st in Hopar, Honame. rewrite Hopar in Hp. inversion Hp; subst p. left. rewrite st1_cont_q, Honame.
          apply cget_cset_eq.
        + destruct (N.eq_dec p q) as [->|Hpq].
          * rewrite st1_cont_q. destruct (name_eq_dec n (oname (st o))) as [Hn|Hn].
            -- exfalso. rewrite (child_named_n o Ho Hp (eq_sym Hn)) in Hnew. discriminate.
            -- unfold cget, cset. rewrite (cget_cset_ne _ _ _ _ Hn). apply (inv_I3 s HI); assumption.
          * rewrite st1_cont_other by exact Hpq. apply (inv_I3 s HI); assumption.
      - intros o Ho Hp. rewrite Hst in Hp. destruct (st1_core o) as [_ [O2 _]]. rewrite O2 in Hp. apply fresh_reg in Ho.
        unfold s'. cbn. destruct Ho as [->|Ho]; [fold st in Hopar; congruence | apply (inv_top s HI); assumption].
      - intros o p Ho Hp H1 H2. rewrite Hst in *. destruct (st1_core o) as [_ [O2 [O3 [O4 _]]]].
        destruct (st1_core p) as [_ [_ [P3 _]]]. rewrite O2 in Hp. rewrite O3 in H1. rewrite P3 in H2. rewrite O4.
        apply fresh_reg in Ho. destruct Ho as [->|Ho].
        + fold st in Hopar. rewrite Hopar in Hp. inversion Hp; subst p. apply Hkind; assumption.
        + apply (inv_I5a s HI o p); assumption.
      - intros o p Ho Hp H1. rewrite Hst in *. destruct (st1_core o) as [_ [O2 [O3 _]]].
        destruct (st1_core p) as [_ [_ [P3 _]]]. rewrite O2 in Hp. rewrite O3 in H1. rewrite P3.
        apply fresh_reg in Ho. destruct Ho as [->|Ho].
        + fold st in Hopar. rewrite Hopar in Hp. inversion Hp; subst p. apply Hmod; assumption.
        + apply (inv_I5b s HI o p); assumption.
      - intros o Ho H1. rewrite Hst in *. destruct (st1_core o) as [_ [_ [O3 _]]]. rewrite O3 in H1.
        destruct (N.eq_dec o q) as [->|Hoq]; [fold st in Hqcan; congruence|].
        rewrite st1_cont_other by exact Hoq. apply fresh_reg in Ho. destruct Ho as [->|Ho]; [exact Hocont|].
        apply (inv_I5c s HI); assumption.
      - unfold s'. cbn. apply (inv_rnodup s HI).
    Qed.
  End Fresh.

  (* ---------------- the name is taken: handleDuplicate renames the older object and re-registers its subtree *)
  Section Dup.
    Variables (prev : id) (i : N) (T : list id) (m1 m2 : registry).
    Hypothesis Hprev : rget fn (allobj s) = Some prev.
    Hypothesis Hcov : covered s prev.
    Hypothesis Hfree : rget (pq ++ [dup_name n i]) (allobj s) = None.
    Let fn' := pq ++ [dup_name n i].
    Let st2 := upd st1 prev (with_sup (with_name (st1 prev) (dup_name n i)) true).
    Let s1 := set_store s st1.
    Let s2 := mkState st2 (next s) m1 (roots s) (depthb s) (unproc s).
    Hypothesis HT : subtree s1 prev = Some T.
    Hypothesis Hm1 : del_walk s1 T (allobj s) = Some m1.
    Hypothesis Hm2 : set_walk s2 T m1 = Some m2.
    Let s' := set_allobj s2 (rset fn ob m2).

    Lemma prev_reg : reg s prev.
    Proof. exists fn. exact Hprev. Qed.
    Lemma prev_path : fullpath s prev = Some fn.
    Proof. apply (inv_I1 s HI). exact Hprev. Qed.
    Lemma pq_nonempty : pq <> [].
    Proof. eapply fullpath_f_nonempty. exact Hqpath. Qed.
    Lemma prev_parent : oparent (st prev) = Some q /\ oname (st prev) = n.
    Proof.
      assert (Hp := prev_path). destruct (oparent (st prev)) as [q'|] eqn:E.
      - assert (Hq' : reg s q') by (eapply (inv_par s HI); [apply prev_reg | exact E]).
        destruct (reg_self s HI q' Hq') as [pq' [Hpq' _]].
        rewrite (reg_child_path s HI prev q' pq' prev_reg E Hpq') in Hp. inversion Hp as [Heq].
        apply app_inj_tail in Heq. destruct Heq as [-> Hn]. split; [|exact Hn].
        f_equal. eapply (path_inj s HI); eauto.
      - apply (fullpath_f_root _ _ _ _ E) in Hp. exfalso. unfold fn in Hp.
        apply (f_equal (@length name)) in Hp. rewrite app_length in Hp. cbn in Hp.
        assert (Hne := pq_nonempty). destruct pq; [apply Hne; reflexivity | cbn in Hp; lia].
    Qed.
    Lemma prev_ne_ob : prev <> ob.
    Proof. intros E. apply Hunreg. rewrite <- E. apply prev_reg. Qed.
    Lemma not_anc_prev_q : ~ anc st prev q.
    Proof. eapply anc_parent_absurd; [apply prev_parent | apply prev_path]. Qed.
    Lemma prev_ne_q : prev <> q.
    Proof. intros H. apply not_anc_prev_q. rewrite H. apply anc_refl. Qed.
    Lemma not_anc_prev_ob : ~ anc st prev ob.
    Proof.
      intros H. destruct (anc_inv _ _ _ H) as [E|[q' [Hq' Ha]]].
      - apply prev_ne_ob. exact E.
      - unfold st in Hq'. rewrite Hopar in Hq'. inversion Hq' as [E]. rewrite <- E in Ha. apply not_anc_prev_q. exact Ha.
    Qed.

    Lemma st2_core : forall x, oparent (st2 x) = oparent (st x) /\ ocl (st2 x) = ocl (st x) /\ okind (st2 x) = okind (st x) /\
                               ocont (st2 x) = ocont (st1 x).
    Proof.
      intros x. destruct (st1_core x) as [H1 [H2 [H3 [H4 H5]]]]. unfold st2, upd.
      destruct (N.eqb x prev) eqn:E; [apply N.eqb_eq in E; subst x; cbn; auto | auto].
    Qed.
    Lemma st2_name_other : forall x, x <> prev -> oname (st2 x) = oname (st x) /\ osup (st2 x) = osup (st x).
    Proof. intros x Hx. unfold st2. rewrite upd_other by exact Hx. destruct (st1_core x) as [H1 [_ [_ [_ H5]]]]. auto. Qed.
    Lemma st2_name_prev : oname (st2 prev) = dup_name n i /\ osup (st2 prev) = true.
    Proof. unfold st2. rewrite upd_same. cbn. auto. Qed.
    Lemma st2_cont_q : ocont (st2 q) = cset n ob (ocont (st q)).
    Proof. destruct (st2_core q) as [_ [_ [_ H]]]. rewrite H. apply st1_cont_q. Qed.
    Lemma st2_cont_other : forall x, x <> q -> ocont (st2 x) = ocont (st x).
    Proof. intros x Hx. destruct (st2_core x) as [_ [_ [_ H]]]. rewrite H. apply st1_cont_other. exact Hx. Qed.

    (* the walk from prev in the state with q.contents[n] = ob stays below prev, among registered objects *)
    Lemma desc1_reg_anc : forall x, desc st1 prev x -> reg s x /\ anc st prev x.
    Proof.
      intros x H. induction H as [|y n' c Hy IH Hc]; [split; [apply prev_reg | apply anc_refl]|].
      destruct IH as [Hy1 Hy2].
      assert (Hyq : y <> q) by (intros ->; apply not_anc_prev_q; exact Hy2).
      rewrite st1_cont_other in Hc by exact Hyq.
      destruct (inv_cont s HI y n' c Hy1 Hc) as [Hc1 [Hc2 _]]. split; [exact Hc1 | eapply anc_step; eauto].
    Qed.
    Lemma T_in : forall x, In x T -> reg s x /\ anc st prev x.
    Proof. intros x Hx. apply desc1_reg_anc. eapply subtree_f_desc; [exact HT | exact Hx]. Qed.
    Lemma T_cov : forall x, reg s x -> anc st prev x -> In x T.
    Proof.
      intros x Hx Ha. eapply subtree_f_complete; [exact HT|].
      assert (Hd := Hcov x Hx Ha). clear Hx Ha. fold st in Hd.
      induction Hd as [|y n' c Hy IH Hc]; [apply desc_refl|].
      destruct (desc_reg_anc s HI prev y prev_reg Hy) as [Hy1 Hy2].
      assert (Hyq : y <> q) by (intros ->; apply not_anc_prev_q; exact Hy2).
      eapply desc_step; [exact IH | rewrite st1_cont_other by exact Hyq; exact Hc].
    Qed.
    Lemma T2_eq : subtree s2 prev = Some T.
    Proof.
      unfold subtree in *. cbn [depthb store s2 s1 set_store] in *. rewrite <- HT.
      apply subtree_f_ext. intros x. destruct (st2_core x) as [_ [_ [_ H]]]. exact H.
    Qed.

    (* paths after the renaming *)
    Lemma fp2_out : forall F x, ~ anc st prev x -> fullpath_f F st2 x = fullpath_f F st x.
    Proof.
      intros F x Hx. apply (fullpath_f_frame st st2 (fun y => ~ anc st prev y)); [| |exact Hx].
      - intros y p Hy Hp Ha. apply Hy. eapply anc_step; eauto.
      - intros y Hy. assert (y <> prev) by (intros ->; apply Hy; apply anc_refl).
        destruct (st2_name_other y H) as [H1 _]. destruct (st2_core y) as [H2 _]. auto.
    Qed.
    Lemma fp2_prev : forall F, (length fn <= F)%nat -> fullpath_f F st2 prev = Some fn'.
    Proof.
      intros F HF. assert (Hq1 : fullpath_f (length pq) st q = Some pq) by (apply (fullpath_f_tight _ _ _ _ Hqpath)).
      rewrite <- (fp2_out _ _ not_anc_prev_q) in Hq1.
      apply (fullpath_f_mono (S (length pq))); [|unfold fn in HF; rewrite app_length in HF; cbn in HF; lia].
      destruct st2_name_prev as [Hn _]. unfold fn'. rewrite <- Hn.
      apply (fullpath_f_child_intro _ st2 prev q); [|exact Hq1].
      destruct (st2_core prev) as [H _]. rewrite H. apply prev_parent.
    Qed.
    Lemma fp2_in : forall x px, anc st prev x -> fullpath s x = Some px ->
        exists r, px = fn ++ r /\ fullpath s2 x = Some (fn' ++ r).
    Proof.
      intros x px Ha Hpx.
      assert (Hag : forall y, y <> prev -> oname (st2 y) = oname (st y) /\ oparent (st2 y) = oparent (st y)).
      { intros y Hy. destruct (st2_name_other y Hy) as [H1 _]. destruct (st2_core y) as [H2 _]. auto. }
      destruct (anc_suffix st st2 prev Hag x Ha (depthb s) (length fn) px fn fn' Hpx prev_path (fp2_prev _ (le_n _)))
        as [r [-> Hr]].
      exists r. split; [reflexivity|]. unfold fullpath. cbn [depthb store s2].
      apply (fullpath_f_mono _ _ _ _ Hr). apply fullpath_f_len in Hpx. rewrite app_length in Hpx. lia.
    Qed.
    Lemma fp1_eq : forall x, fullpath s1 x = fullpath s x.
    Proof. intros x. unfold fullpath, s1. cbn. apply st1_fullpath. Qed.
    Lemma fn'_ne_fn : forall r, fn' ++ r <> fn.
    Proof.
      intros r H. destruct r as [|a r].
      - rewrite app_nil_r in H. unfold fn', fn in H. apply app_inj_tail in H. destruct H as [_ H].
        apply (dup_name_neq _ _ H).
      - apply (f_equal (@length name)) in H. unfold fn', fn in H. rewrite !app_length in H. cbn in H. lia.
    Qed.

    (* the registry after the whole operation *)
    Lemma dup_rget_sound : forall k x, rget k (allobj s') = Some x ->
        (k = fn /\ x = ob) \/ (k <> fn /\ In x T /\ fullpath s2 x = Some k) \/
        (k <> fn /\ ~ In x T /\ rget k (allobj s) = Some x /\ ~ anc st prev x).
    Proof.
      intros k x H. unfold s' in H. cbn in H. destruct (path_eq_dec fn k) as [<-|Hne].
      - unfold rget, rset in H. rewrite rget_rset_eq in H. inversion H. left. auto.
      - right. unfold rget, rset in H. rewrite (rget_rset_ne _ _ _ _ Hne) in H.
        assert (Hk : k <> fn) by congruence.
        destruct (set_walk_sound _ _ _ _ Hm2 k x H) as [[H1 H2]|H1]; [left; auto|].
        right. apply (del_walk_spec _ _ _ _ Hm1) in H1. destruct H1 as [H1 H2].
        assert (Hx : reg s x) by (exists k; exact H1).
        assert (Hna : ~ anc st prev x).
        { intros Ha. apply (H2 x (T_cov x Hx Ha)). rewrite fp1_eq. apply (inv_I1 s HI). exact H1. }
        split; [exact Hk | split; [|split; [exact H1 | exact Hna]]].
        intros Hin. apply Hna. apply T_in. exact Hin.
    Qed.
    Lemma dup_fullpath' : forall x, fullpath s' x = fullpath s2 x.
    Proof. reflexivity. Qed.
    Lemma dup_fullpath_out : forall x, ~ anc st prev x -> fullpath s' x = fullpath s x.
    Proof. intros x Hx. unfold fullpath. cbn. apply fp2_out. exact Hx. Qed.

    Lemma dup_reg_ob : rget fn (allobj s') = Some ob.
    Proof. unfold s'. cbn. apply rget_rset_eq. Qed.
    Lemma dup_reg_T : forall x, In x T -> exists k, fullpath s2 x = Some k /\ rget k (allobj s') = Some x.
    Proof.
      intros x Hx. destruct (T_in x Hx) as [Hr Ha]. destruct (reg_self s HI x Hr) as [px [Hpx _]].
      destruct (fp2_in x px Ha Hpx) as [r [-> Hr2]]. exists (fn' ++ r). split; [exact Hr2|].
      unfold s'. cbn. unfold rget, rset. rewrite rget_rset_ne by (intros E; apply (fn'_ne_fn r); auto).
      apply (set_walk_in _ _ _ _ Hm2); [|left; auto].
      intros y Hy Hpy. destruct (T_in y Hy) as [Hry Hay]. destruct (reg_self s HI y Hry) as [py [Hpy1 _]].
      destruct (fp2_in y py Hay Hpy1) as [r' [-> Hr3]]. rewrite Hr3 in Hpy. inversion Hpy as [Heq].
      apply app_inv_head in Heq. subst r'. eapply (path_inj s HI); eauto.
    Qed.
    Lemma dup_reg_out : forall x k, reg s x -> ~ In x T -> fullpath s x = Some k -> rget k (allobj s') = Some x.
    Proof.
      intros x k Hx Hn Hk. destruct (reg_self s HI x Hx) as [k' [Hk1 Hk2]]. rewrite Hk in Hk1. inversion Hk1; subst k'.
      assert (Hkfn : fn <> k).
      { intros E. rewrite <- E in Hk2. rewrite Hprev in Hk2. inversion Hk2 as [E2]. apply Hn. rewrite <- E2.
        apply T_cov; [apply prev_reg | apply anc_refl]. }
      unfold s'. cbn. unfold rget, rset. rewrite (rget_rset_ne _ _ _ _ Hkfn).
      fold (rget k m2). rewrite (set_walk_other _ _ _ _ Hm2).
      - apply (del_walk_spec _ _ _ _ Hm1). split; [exact Hk2|].
        intros y Hy Hpy. rewrite fp1_eq in Hpy. destruct (T_in y Hy) as [Hry _].
        apply Hn. rewrite (path_inj s HI x y k Hx Hry Hk Hpy). exact Hy.
      - intros y Hy Hpy. destruct (T_in y Hy) as [Hry Hay]. destruct (reg_self s HI y Hry) as [py [Hpy1 _]].
        destruct (fp2_in y py Hay Hpy1) as [r [-> Hr3]]. rewrite Hr3 in Hpy. inversion Hpy as [Heq]. subst k.
        (* x would lie below a registered object with the fresh name *)
        assert (Hne : fn' <> []) by (unfold fn'; intros E; apply app_eq_nil in E; destruct E; discriminate).
        destruct (prefix_closed s HI r x fn' Hx Hk Hne) as [w [[kw Hw1] [Hw2 _]]].
        assert (E := inv_I1 s HI _ _ Hw1). rewrite Hw2 in E. inversion E; subst kw.
        unfold fn' in Hw1. rewrite Hfree in Hw1. discriminate.
    Qed.
    Lemma dup_reg : forall x, reg s' x <-> x = ob \/ reg s x.
    Proof.
      intros x. split.
      - intros [k Hk]. destruct (dup_rget_sound k x Hk) as [[_ ->]|[[_ [H _]]|[_ [_ [H _]]]]]; [left; reflexivity | right | right].
        + apply T_in. exact H.
        + exists k. exact H.
      - intros [->|Hx]; [exists fn; apply dup_reg_ob|].
        destruct (reg_self s HI x Hx) as [k [Hk _]].
        destruct (in_dec N.eq_dec x T) as [Hin|Hnin].
        + destruct (dup_reg_T x Hin) as [k' [_ H]]. exists k'. exact H.
        + exists k. apply dup_reg_out; assumption.
    Qed.

    Lemma add_dup_inv : Inv s'.
    Proof.
      assert (Hst : store s' = st2) by reflexivity.
      destruct prev_parent as [Hpp Hpn].
      constructor.
      - unfold s'. cbn. apply (nodup_aset path_eqb path_eqb_eq). apply (set_walk_nodup _ _ _ _ Hm2).
        apply (del_walk_nodup _ _ _ _ Hm1). apply (inv_keys s HI).
      - intros o Ho. rewrite Hst. apply dup_reg in Ho. destruct (N.eq_dec o q) as [->|Hoq].
        + rewrite st2_cont_q. apply (nodup_aset name_eqb name_eqb_eq). apply (inv_ckeys s HI). exact Hq.
        + rewrite st2_cont_other by exact Hoq. destruct Ho as [->|Ho]; [unfold st; rewrite Hocont; constructor|].
          apply (inv_ckeys s HI). exact Ho.
      - intros p o Hp. assert (Ho : reg s' o) by (exists p; exact Hp). apply dup_reg in Ho. unfold s'. cbn.
        destruct Ho as [->|Ho]; [exact Hlt | apply (reg_lt s HI); exact Ho].
      - intros p o Hp. destruct (dup_rget_sound p o Hp) as [[-> ->]|[[_ [_ H]]|[_ [_ [H Hna]]]]].
        + rewrite (dup_fullpath_out ob not_anc_prev_ob). exact Hobpath.
        + exact H.
        + rewrite (dup_fullpath_out o Hna). apply (inv_I1 s HI). exact H.
      - intros o p Ho Hp. rewrite Hst in Hp. destruct (st2_core o) as [H2 _]. rewrite H2 in Hp.
        apply dup_reg. right. apply dup_reg in Ho. destruct Ho as [->|Ho].
        + unfold st in Hp. rewrite Hopar in Hp. inversion Hp as [E]. rewrite <- E. exact Hq.
        + eapply (inv_par s HI); eauto.
      - intros o n' c Ho Hin. rewrite Hst in *. apply dup_reg in Ho.
        destruct (st2_core c) as [C2 _]. rewrite C2.
        assert (Hold : forall o0, reg s o0 -> In (n', c) (ocont (st o0)) -> o0 <> q ->
                                  reg s' c /\ oparent (st c) = Some o0 /\ oname (st2 c) = n').
        { intros o0 Ho0 Hin0 Hne. destruct (inv_cont s HI o0 n' c Ho0 Hin0) as [G1 [G2 G3]].
          split; [apply dup_reg; right; exact G1 | split; [exact G2|]].
          assert (c <> prev) by (intros ->; fold st in G2; rewrite Hpp in G2; inversion G2 as [E]; apply Hne; auto).
          destruct (st2_name_other c H) as [H1 _]. rewrite H1. exact G3. }
        destruct (N.eq_dec o q) as [->|Hoq].
        + rewrite st2_cont_q in Hin.
          apply (in_aset_inv name_eqb name_eqb_eq) in Hin; [|apply (inv_ckeys s HI); exact Hq].
          destruct Hin as [[-> ->]|[Hne Hin]].
          * split; [apply dup_reg; left; reflexivity | split; [exact Hopar|]].
            destruct (st2_name_other ob (not_eq_sym prev_ne_ob)) as [H1 _]. rewrite H1. exact Honame.
          * destruct (inv_cont s HI q n' c Hq Hin) as [G1 [G2 G3]].
            split; [apply dup_reg; right; exact G1 | split; [exact G2|]].
            assert (c <> prev) by (intros ->; fold st in G3; rewrite Hpn in G3; apply Hne; auto).
            destruct (st2_name_other c H) as [H1 _]. rewrite H1. exact G3.
        + rewrite st2_cont_other in Hin by exact Hoq. destruct Ho as [->|Ho]; [unfold st in Hin; rewrite Hocont in Hin; destruct Hin|].
          apply Hold; assumption.
      - intros r Hr. unfold s' in Hr. cbn in Hr. destruct (inv_roots s HI r Hr) as [G1 G2].
        split; [apply dup_reg; right; exact G1|]. rewrite Hst. destruct (st2_core r) as [H2 _]. rewrite H2. exact G2.
      - intros o p Ho Hp. rewrite Hst in *. destruct (st2_core o) as [O2 _]. rewrite O2 in Hp.
        apply dup_reg in Ho. destruct (N.eq_dec o prev) as [->|Hop]; [right; apply st2_name_prev|].
        destruct (st2_name_other o Hop) as [O1 O5]. rewrite O1, O5. destruct Ho as [->|Ho].
        + unfold st in Hp. rewrite Hopar in Hp. inversion Hp; subst p. left. rewrite st2_cont_q. unfold st. rewrite Honame.
          apply cget_cset_eq.
        + destruct (N.eq_dec p q) as [->|Hpq].
          * rewrite st2_cont_q. destruct (name_eq_dec n (oname (st o))) as [Hn|Hn].
            -- exfalso. assert (E := child_named_n o Ho Hp (eq_sym Hn)). rewrite Hprev in E. inversion E. auto.
            -- unfold cget, cset. rewrite (cget_cset_ne _ _ _ _ Hn). apply (inv_I3 s HI); assumption.
          * rewrite st2_cont_other by exact Hpq. apply (inv_I3 s HI); assumption.
      - intros o Ho Hp. rewrite Hst in Hp. destruct (st2_core o) as [O2 _]. rewrite O2 in Hp. apply dup_reg in Ho.
        unfold s'. cbn. destruct Ho as [->|Ho]; [unfold st in Hp; congruence | apply (inv_top s HI); assumption].
      - intros o p Ho Hp H1 H2. rewrite Hst in *. destruct (st2_core o) as [O2 [O3 [O4 _]]].
        destruct (st2_core p) as [_ [P3 _]]. rewrite O2 in Hp. rewrite O3 in H1. rewrite P3 in H2. rewrite O4.
        apply dup_reg in Ho. destruct Ho as [->|Ho].
        + unfold st in Hp. rewrite Hopar in Hp. inversion Hp; subst p. apply Hkind; assumption.
        + apply (inv_I5a s HI o p); assumption.
      - intros o p Ho Hp H1. rewrite Hst in *. destruct (st2_core o) as [O2 [O3 _]].
        destruct (st2_core p) as [_ [P3 _]]. rewrite O2 in Hp. rewrite O3 in H1. rewrite P3.
        apply dup_reg in Ho. destruct Ho as [->|Ho].
        + unfold st in Hp. rewrite Hopar in Hp. inversion Hp; subst p. apply Hmod; assumption.
        + apply (inv_I5b s HI o p); assumption.
      - intros o Ho H1. rewrite Hst in *. destruct (st2_core o) as [_ [O3 _]]. rewrite O3 in H1.
        destruct (N.eq_dec o q) as [->|Hoq]; [unfold st in H1; congruence|].
        rewrite st2_cont_other by exact Hoq. apply dup_reg in Ho. destruct Ho as [->|Ho]; [exact Hocont|].
        apply (inv_I5c s HI); assumption.
      - unfold s'. cbn. apply (inv_rnodup s HI).
    Qed.
  End Dup.

  (* ---------------- _handleDuplicateModule, "the last wins", inside a package: the registered module `first` of
     that name is removed with its subtree (self._remove(first)) and the new module is added *)
  Section Replace.
    Variables (first : id) (T : list id) (m1 : registry) (u : list id).
    (* the store after `del first.parent.contents[first.name]` (when first is the entry) and
       `dup.parent.contents[dup.name] = dup`: only the contents of q differ, and there only the entry of n *)
    Variables (st' : id -> obj) (cq : list (name * id)).
    Hypothesis Hfirst : rget fn (allobj s) = Some first.
    Hypothesis Hcov : covered s first.
    Hypothesis HT : subtree s first = Some T.
    Hypothesis Hm1 : del_walk s T (allobj s) = Some m1.
    Hypothesis Hcore' : forall x, oname (st' x) = oname (st x) /\ oparent (st' x) = oparent (st x) /\ ocl (st' x) = ocl (st x) /\
                                  okind (st' x) = okind (st x) /\ osup (st' x) = osup (st x).
    Hypothesis Hcq : ocont (st' q) = cq.
    Hypothesis Hcoth : forall x, x <> q -> ocont (st' x) = ocont (st x).
    Hypothesis Hcq_nodup : NoDup (map fst cq).
    Hypothesis Hcq_in : forall n' c, In (n', c) cq -> (n' = n /\ c = ob) \/ (n' <> n /\ In (n', c) (ocont (st q))).
    Hypothesis Hcq_n : cget n cq = Some ob.
    Hypothesis Hcq_get : forall n', n <> n' -> cget n' cq = cget n' (ocont (st q)).
    Let s' := mkState st' (next s) (m1 ++ [(fn, ob)]) (roots s) (depthb s) u.

    Lemma rm_first_reg : reg s first.
    Proof. exists fn. exact Hfirst. Qed.
    Lemma rm_first_path : fullpath s first = Some fn.
    Proof. apply (inv_I1 s HI). exact Hfirst. Qed.
    Lemma rm_first_parent : oparent (st first) = Some q /\ oname (st first) = n.
    Proof.
      assert (Hp := rm_first_path). destruct (oparent (st first)) as [q'|] eqn:E.
      - assert (Hq' : reg s q') by (eapply (inv_par s HI); [apply rm_first_reg | exact E]).
        destruct (reg_self s HI q' Hq') as [pq' [Hpq' _]].
        rewrite (reg_child_path s HI first q' pq' rm_first_reg E Hpq') in Hp. inversion Hp as [Heq].
        apply app_inj_tail in Heq. destruct Heq as [Heq Hn]. split; [|exact Hn].
        f_equal. apply (path_inj s HI q' q pq' Hq' Hq Hpq'). rewrite Heq. exact Hqpath.
      - apply (fullpath_f_root _ _ _ _ E) in Hp. exfalso. unfold fn in Hp.
        apply (f_equal (@length name)) in Hp. rewrite app_length in Hp. cbn in Hp.
        assert (Hne : pq <> []) by (eapply fullpath_f_nonempty; exact Hqpath).
        destruct pq; [apply Hne; reflexivity | cbn in Hp; lia].
    Qed.
    Lemma rm_not_anc_q : ~ anc st first q.
    Proof. eapply anc_parent_absurd; [apply rm_first_parent | apply rm_first_path]. Qed.
    Lemma rm_T_in : forall x, In x T -> reg s x /\ anc st first x.
    Proof. intros x Hx. apply (desc_reg_anc s HI first x rm_first_reg). eapply subtree_f_desc; [exact HT | exact Hx]. Qed.
    Lemma rm_T_cov : forall x, reg s x -> anc st first x -> In x T.
    Proof. intros x Hx Ha. eapply subtree_f_complete; [exact HT | apply Hcov; assumption]. Qed.

    Lemma rm_m1 : forall k x, rget k m1 = Some x <-> (rget k (allobj s) = Some x /\ ~ anc st first x).
    Proof.
      intros k x. rewrite (del_walk_spec _ _ _ _ Hm1 k x). split; intros [H1 H2]; split; try exact H1.
      - intros Ha. apply (H2 x (rm_T_cov x (ex_intro _ k H1) Ha)). apply (inv_I1 s HI). exact H1.
      - intros y Hy Hpy. destruct (rm_T_in y Hy) as [Hry Hay]. apply H2.
        assert (E : y = x) by (eapply (path_inj s HI); [exact Hry | exists k; exact H1 | exact Hpy | apply (inv_I1 s HI); exact H1]).
        rewrite <- E. exact Hay.
    Qed.
    Lemma rm_fn_free : rget fn m1 = None.
    Proof.
      destruct (rget fn m1) as [x|] eqn:E; [|reflexivity]. exfalso. apply rm_m1 in E. destruct E as [E1 E2].
      rewrite Hfirst in E1. inversion E1 as [E3]. apply E2. rewrite <- E3. apply anc_refl.
    Qed.
    Lemma rm_rget : forall k, rget k (allobj s') = if path_eqb fn k then Some ob else rget k m1.
    Proof. intros k. unfold s'. cbn. apply (aget_app_new path_eqb path_eqb_eq). exact rm_fn_free. Qed.
    Lemma rm_reg : forall x, reg s' x <-> x = ob \/ (reg s x /\ ~ anc st first x).
    Proof.
      intros x. unfold reg. split.
      - intros [k Hk]. rewrite rm_rget in Hk. destruct (path_eqb fn k); [inversion Hk; auto|].
        apply rm_m1 in Hk. destruct Hk as [H1 H2]. right. split; [exists k; exact H1 | exact H2].
      - intros [E|[[k Hk] Hna]].
        + exists fn. rewrite rm_rget, path_eqb_refl. rewrite E. reflexivity.
        + exists k. rewrite rm_rget. destruct (path_eqb fn k) eqn:E.
          * apply path_eqb_eq in E. exfalso. rewrite <- E in Hk. rewrite Hfirst in Hk. inversion Hk as [E2].
            apply Hna. rewrite <- E2. apply anc_refl.
          * apply rm_m1. auto.
    Qed.
    Lemma rm_fullpath : forall x, fullpath s' x = fullpath s x.
    Proof.
      intros x. unfold fullpath, s'. cbn. apply fullpath_f_ext. intros y. destruct (Hcore' y) as [H1 [H2 _]]. auto.
    Qed.
    (* the survivors are closed under parent; no survivor is a child of q named n *)
    Lemma rm_not_anc_parent : forall o p, ~ anc st first o -> oparent (st o) = Some p -> ~ anc st first p.
    Proof. intros o p Hn Hp Ha. apply Hn. eapply anc_step; eauto. Qed.
    Lemma rm_child_n : forall o, reg s o -> ~ anc st first o -> oparent (st o) = Some q -> oname (st o) <> n.
    Proof.
      intros o Ho Hna Hp Hn. assert (E := child_named_n o Ho Hp Hn). rewrite Hfirst in E. inversion E as [E2].
      apply Hna. rewrite <- E2. apply anc_refl.
    Qed.

    Lemma add_replace_inv : Inv s'.
    Proof.
      assert (Hst : store s' = st') by reflexivity.
      destruct rm_first_parent as [Hfp Hfn].
      constructor.
      - unfold s'. cbn. apply (nodup_app_new path_eqb path_eqb_eq); [|exact rm_fn_free].
        apply (del_walk_nodup _ _ _ _ Hm1). apply (inv_keys s HI).
      - intros o Ho. rewrite Hst. apply rm_reg in Ho. destruct (N.eq_dec o q) as [->|Hoq].
        + rewrite Hcq. exact Hcq_nodup.
        + rewrite Hcoth by exact Hoq. destruct Ho as [->|[Ho _]]; [unfold st; rewrite Hocont; constructor|].
          apply (inv_ckeys s HI). exact Ho.
      - intros p o Hp. assert (Ho : reg s' o) by (exists p; exact Hp). apply rm_reg in Ho. unfold s'. cbn.
        destruct Ho as [->|[Ho _]]; [exact Hlt | apply (reg_lt s HI); exact Ho].
      - intros p o Hp. rewrite rm_fullpath. rewrite rm_rget in Hp. destruct (path_eqb fn p) eqn:E.
        + inversion Hp as [E2]. apply path_eqb_eq in E. rewrite <- E, <- E2. exact Hobpath.
        + apply rm_m1 in Hp. apply (inv_I1 s HI). apply Hp.
      - intros o p Ho Hp. rewrite Hst in Hp. destruct (Hcore' o) as [_ [H2 _]]. rewrite H2 in Hp.
        apply rm_reg. right. apply rm_reg in Ho. destruct Ho as [->|[Ho Hna]].
        + unfold st in Hp. rewrite Hopar in Hp. inversion Hp as [E]. rewrite <- E. split; [exact Hq | exact rm_not_anc_q].
        + split; [eapply (inv_par s HI); eauto | eapply rm_not_anc_parent; eauto].
      - intros o n' c Ho Hin. rewrite Hst in *. apply rm_reg in Ho.
        destruct (Hcore' c) as [C1 [C2 _]]. rewrite C1, C2.
        assert (Hold : forall o0, reg s o0 -> ~ anc st first o0 -> In (n', c) (ocont (st o0)) -> (o0 = q -> n' <> n) ->
                                  reg s' c /\ oparent (st c) = Some o0 /\ oname (st c) = n').
        { intros o0 Ho0 Hna0 Hin0 Hqn. destruct (inv_cont s HI o0 n' c Ho0 Hin0) as [G1 [G2 G3]].
          split; [|split; [exact G2 | exact G3]]. apply rm_reg. right. split; [exact G1|].
          intros Ha. destruct (anc_inv _ _ _ Ha) as [E|[p [Hp Hap]]].
          - (* c = first: then o0 = q and n' = n *)
            rewrite <- E in G2, G3. fold st in G2, G3. rewrite Hfp in G2. inversion G2 as [E2].
            apply (Hqn (eq_sym E2)). rewrite <- G3. exact Hfn.
          - fold st in G2. rewrite G2 in Hp. inversion Hp as [E2]. rewrite <- E2 in Hap. exact (Hna0 Hap). }
        destruct (N.eq_dec o q) as [->|Hoq].
        + rewrite Hcq in Hin. apply Hcq_in in Hin.
          destruct Hin as [[-> ->]|[Hne Hin]].
          * split; [apply rm_reg; left; reflexivity | split; [exact Hopar | exact Honame]].
          * apply (Hold q Hq rm_not_anc_q Hin). intros _. exact Hne.
        + rewrite Hcoth in Hin by exact Hoq.
          destruct Ho as [->|[Ho Hna]]; [unfold st in Hin; rewrite Hocont in Hin; destruct Hin|].
          apply (Hold o Ho Hna Hin). intros E. contradiction.
      - intros r Hr. unfold s' in Hr. cbn in Hr. destruct (inv_roots s HI r Hr) as [G1 G2].
        split.
        + apply rm_reg. right. split; [exact G1|]. intros Ha. destruct (anc_inv _ _ _ Ha) as [E|[p [Hp _]]].
          * rewrite <- E in G2. fold st in G2. rewrite Hfp in G2. discriminate.
          * fold st in G2. rewrite G2 in Hp. discriminate.
        + rewrite Hst. destruct (Hcore' r) as [_ [H2 _]]. rewrite H2. exact G2.
      - intros o p Ho Hp. rewrite Hst in *. destruct (Hcore' o) as [O1 [O2 [_ [_ O5]]]]. rewrite O1, O5. rewrite O2 in Hp.
        apply rm_reg in Ho. destruct Ho as [->|[Ho Hna]].
        + unfold st in Hp. rewrite Hopar in Hp. inversion Hp as [E]. left. rewrite <- E. rewrite Hcq. unfold st.
          rewrite Honame. exact Hcq_n.
        + destruct (N.eq_dec p q) as [->|Hpq].
          * rewrite Hcq. rewrite Hcq_get.
            -- apply (inv_I3 s HI); assumption.
            -- intros E. apply (rm_child_n o Ho Hna Hp). auto.
          * rewrite Hcoth by exact Hpq. apply (inv_I3 s HI); assumption.
      - intros o Ho Hp. rewrite Hst in Hp. destruct (Hcore' o) as [_ [O2 _]]. rewrite O2 in Hp. apply rm_reg in Ho.
        unfold s'. cbn. destruct Ho as [->|[Ho _]]; [unfold st in Hp; congruence | apply (inv_top s HI); assumption].
      - intros o p Ho Hp H1 H2. rewrite Hst in *. destruct (Hcore' o) as [_ [O2 [O3 [O4 _]]]].
        destruct (Hcore' p) as [_ [_ [P3 _]]]. rewrite O2 in Hp. rewrite O3 in H1. rewrite P3 in H2. rewrite O4.
        apply rm_reg in Ho. destruct Ho as [->|[Ho _]].
        + unfold st in Hp. rewrite Hopar in Hp. inversion Hp as [E]. rewrite <- E in H2. apply Hkind; assumption.
        + apply (inv_I5a s HI o p); assumption.
      - intros o p Ho Hp H1. rewrite Hst in *. destruct (Hcore' o) as [_ [O2 [O3 _]]].
        destruct (Hcore' p) as [_ [_ [P3 _]]]. rewrite O2 in Hp. rewrite O3 in H1. rewrite P3.
        apply rm_reg in Ho. destruct Ho as [->|[Ho _]].
        + unfold st in Hp. rewrite Hopar in Hp. inversion Hp as [E]. rewrite <- E. apply Hmod; assumption.
        + apply (inv_I5b s HI o p); assumption.
      - intros o Ho H1. rewrite Hst in *. destruct (Hcore' o) as [_ [_ [O3 _]]]. rewrite O3 in H1.
        destruct (N.eq_dec o q) as [->|Hoq]; [unfold st in H1; congruence|].
        rewrite Hcoth by exact Hoq. apply rm_reg in Ho. destruct Ho as [->|[Ho _]]; [exact Hocont|].
        apply (inv_I5c s HI); assumption.
      - unfold s'. cbn. apply (inv_rnodup s HI).
    Qed.
  End Replace.
End AddChildObject.

Lemma add_object_child_inv : forall s ob q n pq s',
    Inv s -> ob < next s -> ~ reg s ob -> ocont (store s ob) = [] -> osup (store s ob) = false ->
    oparent (store s ob) = Some q -> oname (store s ob) = n -> reg s q ->
    can_contain_imports (ocl (store s q)) = true -> fullpath s q = Some pq -> fullpath s ob = Some (pq ++ [n]) ->
    (ocl (store s ob) = CFunction -> ocl (store s q) = CClass -> method_like (okind (store s ob)) = true) ->
    (is_module (ocl (store s ob)) = true -> ocl (store s q) = CPackage) ->
    (forall prev, rget (pq ++ [n]) (allobj s) = Some prev -> covered s prev) ->
    add_object s ob = Some s' -> Inv s'.
Proof.
  intros s ob q n pq s' HI Hlt Hun Hoc Hos Hop Hon Hq Hqc Hqp Hobp Hk Hm Hcov H.
  unfold add_object in H. rewrite Hop in H. rewrite Hon in H.
  set (st1 := upd (store s) q (with_cont (store s q) (cset n ob (ocont (store s q))))) in *.
  assert (Hfp1 : forall x, fullpath (set_store s st1) x = fullpath s x).
  { intros x. unfold fullpath. cbn. apply (st1_fullpath s ob q n). }
  rewrite Hfp1, Hobp in H. cbn [allobj set_store] in H.
  destruct (rget (pq ++ [n]) (allobj s)) as [first|] eqn:Ef.
  - assert (Hne : first <> ob) by (intros ->; apply Hun; exists (pq ++ [n]); exact Ef).
    apply N.eqb_neq in Hne. rewrite Hne in H. clear Hne.
    unfold handle_duplicate in H. cbn [allobj set_store] in H.
    destruct (find_free _ _ 0) as [i|] eqn:Ei; [|discriminate].
    apply find_free_spec in Ei. rewrite dup_key_snoc in Ei. unfold key_in in Ei.
    destruct (rget (pq ++ [dup_name n i]) (allobj s)) eqn:Efree; [discriminate|]. clear Ei.
    rewrite Ef in H.
    unfold remove_tree in H. destruct (subtree (set_store s st1) first) as [T|] eqn:ET; [|discriminate].
    cbn [allobj set_store] in H.
    destruct (del_walk (set_store s st1) T (allobj s)) as [m1|] eqn:Em1; [|discriminate].
    assert (Hname : oname (store (set_store s st1) ob) = n).
    { cbn. unfold st1. rewrite upd_other; [exact Hon | intros ->; apply Hun; exact Hq]. }
    rewrite Hname in H. cbn [store next roots depthb set_store] in H.
    unfold readd_tree in H.
    match type of H with context [subtree ?S2 first] => set (s2 := S2) in * end.
    assert (HT2 : subtree s2 first = Some T).
    { apply (T2_eq s ob q n first i T m1 ET). }
    rewrite HT2 in H. cbn [allobj] in H. unfold s2 in H at 2. cbn [allobj] in H.
    destruct (set_walk s2 T m1) as [m2|] eqn:Em2; [|discriminate].
    inversion H; subst s'.
    apply (add_dup_inv s ob q n pq HI Hlt Hun Hoc Hop Hon Hq Hqc Hqp Hobp Hk Hm first i T m1 m2 Ef (Hcov _ eq_refl) Efree ET Em1 Em2).
  - inversion H; subst s'.
    apply (add_fresh_inv s ob q n pq HI Hlt Hun Hoc Hos Hop Hon Hq Hqc Hqp Hobp Hk Hm Ef).
Qed.

(* ------------------------------------------------------------------ covered is stable under construction *)
Lemma anc_frame_reg : forall s st', Inv s ->
    (forall o, reg s o -> oparent (st' o) = oparent (store s o)) ->
    forall a x, reg s x -> anc st' a x -> anc (store s) a x.
Proof.
  intros s st' HI Hag a x Hx H. induction H as [|x q Hq Ha IH]; [apply anc_refl|].
  rewrite (Hag x Hx) in Hq. eapply anc_step; [exact Hq | apply IH; eapply (inv_par s HI); eauto].
Qed.
Lemma desc_frame_reg : forall s st', Inv s ->
    (forall o, reg s o -> ocont (st' o) = ocont (store s o)) ->
    forall a x, reg s a -> desc (store s) a x -> desc st' a x.
Proof.
  intros s st' HI Hag a x Ha H. induction H as [|y n c Hy IH Hc]; [apply desc_refl|].
  destruct (desc_reg_anc s HI a y Ha Hy) as [Hy1 _].
  eapply desc_step; [exact IH | rewrite (Hag y Hy1); exact Hc].
Qed.
Lemma covered_frame : forall s s' a, Inv s -> allobj s' = allobj s ->
    (forall o, reg s o -> same_core (store s' o) (store s o)) -> covered s a -> covered s' a.
Proof.
  intros s s' a HI Ha Hc Hcov x Hx Hanc.
  assert (Hx' : reg s x) by (unfold reg in *; rewrite Ha in Hx; exact Hx).
  assert (Hanc' : anc (store s) a x).
  { apply (anc_frame_reg s (store s') HI); [|exact Hx'|exact Hanc]. intros o Ho. destruct (Hc o Ho) as [_ [H _]]. exact H. }
  apply (desc_frame_reg s (store s') HI); [| |apply Hcov; assumption].
  - intros o Ho. destruct (Hc o Ho) as [_ [_ [_ [_ [H _]]]]]. exact H.
  - eapply reg_anc_closed; eauto.
Qed.

(* ------------------------------------------------------------------ AddChild *)
Lemma step_add_child_inv : forall s c n q k s', Inv s -> guard_add_child s c n q ->
    step s (AddChild c n q k) = Some s' -> Inv s'.
Proof.
  intros s c n q k s' HI [Hc [Hq [Hqc Hcov]]] H. cbn [step] in H. rewrite Hc in H.
  destruct (alloc s c n (Some q) k) as [s1 ob] eqn:Ea.
  destruct (alloc_inv _ _ _ _ _ _ _ HI Ea) as [HI1 [Hob [Ha1 [Hr1 [Hun [Hlt [Hst [Hoth Hfp]]]]]]]].
  assert (Hreg : forall x, reg s1 x <-> reg s x) by (intros x; unfold reg; rewrite Ha1; tauto).
  destruct (reg_self s HI q Hq) as [pq [Hpq _]].
  assert (Hqne : q <> ob) by (intros E; apply Hun; apply Hreg; rewrite <- E; exact Hq).
  assert (Hdep : depthb s1 = S (depthb s)) by (unfold alloc in Ea; inversion Ea; reflexivity).
  assert (Hqf : fullpath_f (depthb s) (store s1) q = Some pq).
  { rewrite (fullpath_f_frame (store s) (store s1) (reg s)); [exact Hpq | | | exact Hq].
    - intros x p Hx Hp. eapply (inv_par s HI); eauto.
    - intros x Hx. rewrite Hoth; [auto|]. intros E. apply Hun. apply Hreg. rewrite <- E. exact Hx. }
  apply (add_object_child_inv s1 ob q n pq s' HI1 Hlt Hun); try (rewrite Hst; reflexivity).
  - apply Hreg. exact Hq.
  - rewrite (Hoth q Hqne). exact Hqc.
  - apply Hfp; assumption.
  - unfold fullpath. rewrite Hdep. replace n with (oname (store s1 ob)) by (rewrite Hst; reflexivity).
    apply (fullpath_f_child_intro _ (store s1) ob q); [rewrite Hst; reflexivity | exact Hqf].
  - rewrite Hst. cbn. rewrite (Hoth q Hqne). intros -> ->. reflexivity.
  - rewrite Hst. cbn. rewrite Hc. discriminate.
  - intros prev Hprev. rewrite Ha1 in Hprev. apply (covered_frame s s1 prev HI Ha1).
    + intros o Ho. rewrite Hoth; [apply same_core_refl|]. intros E. apply Hun. apply Hreg. rewrite <- E. exact Ho.
    + eapply Hcov; eauto.
  - exact H.
Qed.

(* ------------------------------------------------------------------ addObject of a freshly constructed top-level module *)
Lemma add_object_root_inv : forall s ob n s',
    Inv s -> ob < next s -> ~ reg s ob -> ocont (store s ob) = [] ->
    oparent (store s ob) = None -> oname (store s ob) = n -> is_module (ocl (store s ob)) = true ->
    fullpath s ob = Some [n] -> rget [n] (allobj s) = None ->
    add_object s ob = Some s' -> Inv s'.
Proof.
  intros s ob n s' HI Hlt Hun Hoc Hop Hon Hmod Hfp Hnew H.
  unfold add_object in H. rewrite Hop, Hmod in H. cbv beta iota in H.
  unfold fullpath in H. cbn [store depthb] in H. unfold fullpath in Hfp. rewrite Hfp in H.
  cbn [allobj] in H. rewrite Hnew in H. inversion H; subst s'. clear H. fold (fullpath s ob) in Hfp.
  set (s' := set_allobj _ _).
  assert (Hrget : forall k, rget k (allobj s') = if path_eqb [n] k then Some ob else rget k (allobj s)).
  { intros k. unfold s'. cbn. apply (aget_app_new path_eqb path_eqb_eq). exact Hnew. }
  assert (Hreg : forall x, reg s' x <-> x = ob \/ reg s x).
  { intros x. unfold reg. split.
    - intros [k Hk]. rewrite Hrget in Hk. destruct (path_eqb [n] k); [inversion Hk; auto | right; eauto].
    - intros [->|[k Hk]].
      + exists [n]. rewrite Hrget, path_eqb_refl. reflexivity.
      + exists k. rewrite Hrget. destruct (path_eqb [n] k) eqn:E; [|exact Hk].
        apply path_eqb_eq in E. subst k. congruence. }
  assert (Hst : store s' = store s) by reflexivity.
  assert (Hfull : forall x, fullpath s' x = fullpath s x) by reflexivity.
  constructor.
  - unfold s'. cbn. apply (nodup_app_new path_eqb path_eqb_eq); [apply (inv_keys s HI) | exact Hnew].
  - intros o Ho. rewrite Hst. apply Hreg in Ho. destruct Ho as [->|Ho]; [rewrite Hoc; constructor | apply (inv_ckeys s HI); exact Ho].
  - intros p o Hp. rewrite Hrget in Hp. unfold s'. cbn. destruct (path_eqb [n] p); [inversion Hp; subst; exact Hlt|].
    eapply (inv_lt s HI); eauto.
  - intros p o Hp. rewrite Hfull. rewrite Hrget in Hp. destruct (path_eqb [n] p) eqn:E.
    + inversion Hp; subst. apply path_eqb_eq in E. subst p. exact Hfp.
    + apply (inv_I1 s HI). exact Hp.
  - intros o p Ho Hp. rewrite Hst in Hp. apply Hreg. right. apply Hreg in Ho. destruct Ho as [->|Ho]; [congruence|].
    eapply (inv_par s HI); eauto.
  - intros o n' c Ho Hin. rewrite Hst in *. apply Hreg in Ho. destruct Ho as [->|Ho]; [rewrite Hoc in Hin; destruct Hin|].
    destruct (inv_cont s HI o n' c Ho Hin) as [G1 G2]. split; [apply Hreg; right; exact G1 | exact G2].
  - intros r Hr. unfold s' in Hr. cbn in Hr. rewrite Hst. apply in_app_iff in Hr. destruct Hr as [Hr|[<-|[]]].
    + destruct (inv_roots s HI r Hr) as [G1 G2]. split; [apply Hreg; right; exact G1 | exact G2].
    + split; [apply Hreg; left; reflexivity | exact Hop].
  - intros o p Ho Hp. rewrite Hst in *. apply Hreg in Ho. destruct Ho as [->|Ho]; [congruence|]. apply (inv_I3 s HI); assumption.
  - intros o Ho Hp. rewrite Hst in Hp. apply Hreg in Ho. unfold s'. cbn. apply in_app_iff.
    destruct Ho as [->|Ho]; [right; left; reflexivity | left; apply (inv_top s HI); assumption].
  - intros o p Ho Hp H1 H2. rewrite Hst in *. apply Hreg in Ho. destruct Ho as [->|Ho]; [congruence|]. apply (inv_I5a s HI o p); assumption.
  - intros o p Ho Hp H1. rewrite Hst in *. apply Hreg in Ho. destruct Ho as [->|Ho]; [congruence|]. apply (inv_I5b s HI o p); assumption.
  - intros o Ho H1. rewrite Hst in *. apply Hreg in Ho. destruct Ho as [->|Ho]; [exact Hoc|]. apply (inv_I5c s HI); assumption.
  - unfold s'. cbn. apply NoDup_snoc; [apply (inv_rnodup s HI)|]. intros Hin. apply Hun. apply (inv_roots s HI ob Hin).
Qed.

(* the registry entry of <path of q>.<n> is a child of q named n *)
Lemma entry_parent : forall s q pq n x, Inv s -> reg s q -> fullpath s q = Some pq -> rget (pq ++ [n]) (allobj s) = Some x ->
    oparent (store s x) = Some q /\ oname (store s x) = n.
Proof.
  intros s q pq n x HI Hq Hpq Hx. assert (Hrx : reg s x) by (exists (pq ++ [n]); exact Hx).
  assert (Hp := inv_I1 s HI _ _ Hx). destruct (oparent (store s x)) as [q'|] eqn:E.
  - assert (Hq' : reg s q') by (eapply (inv_par s HI); eauto).
    destruct (reg_self s HI q' Hq') as [pq' [Hpq' _]].
    rewrite (reg_child_path s HI x q' pq' Hrx E Hpq') in Hp. inversion Hp as [Heq].
    apply app_inj_tail in Heq. destruct Heq as [Heq Hn]. split; [|exact Hn].
    f_equal. apply (path_inj s HI q' q pq' Hq' Hq Hpq'). rewrite Heq. exact Hpq.
  - apply (fullpath_f_root _ _ _ _ E) in Hp. exfalso.
    apply (f_equal (@length name)) in Hp. rewrite app_length in Hp. cbn in Hp.
    apply fullpath_f_nonempty in Hpq. destruct pq; [apply Hpq; reflexivity | cbn in Hp; lia].
Qed.

(* the end of a module replacement: whatever `del first.parent.contents[first.name]` left in the contents of q
   (st0: nothing else differs from the store of s), addObject(dup) re-establishes the invariant *)
Lemma add_replace_finish : forall s ob q n pq first T m1 st0 r s',
    Inv s -> ob < next s -> ocont (store s ob) = [] -> oparent (store s ob) = Some q -> oname (store s ob) = n ->
    reg s q -> ~ reg s ob -> can_contain_imports (ocl (store s q)) = true -> fullpath s q = Some pq ->
    fullpath s ob = Some (pq ++ [n]) ->
    (ocl (store s ob) = CFunction -> ocl (store s q) = CClass -> method_like (okind (store s ob)) = true) ->
    (is_module (ocl (store s ob)) = true -> ocl (store s q) = CPackage) ->
    rget (pq ++ [n]) (allobj s) = Some first -> covered s first -> subtree s first = Some T ->
    del_walk s T (allobj s) = Some m1 ->
    (forall x, same_core (st0 x) (store s x) \/ (x = q /\ oname (st0 x) = oname (store s x) /\ oparent (st0 x) = oparent (store s x) /\
                ocl (st0 x) = ocl (store s x) /\ okind (st0 x) = okind (store s x) /\ osup (st0 x) = osup (store s x))) ->
    NoDup (map fst (ocont (st0 q))) ->
    (forall n' c, In (n', c) (ocont (st0 q)) -> In (n', c) (ocont (store s q))) ->
    (forall n', n <> n' -> cget n' (ocont (st0 q)) = cget n' (ocont (store s q))) ->
    add_object (mkState st0 (next s) m1 (roots s) (depthb s) r) ob = Some s' -> Inv s'.
Proof.
  intros s ob q n pq first T m1 st0 r s' HI Hlt Hoc Hop Hon Hq Hun Hqc Hqp Hobp Hk Hm Hf Hcov HT Hm1 Hst0 Hnd Hincl Hget H.
  assert (Hobq : ob <> q) by (intros E; apply Hun; rewrite E; exact Hq).
  assert (Hc0 : forall x, oname (st0 x) = oname (store s x) /\ oparent (st0 x) = oparent (store s x) /\ ocl (st0 x) = ocl (store s x) /\
                          okind (st0 x) = okind (store s x) /\ osup (st0 x) = osup (store s x)).
  { intros x. destruct (Hst0 x) as [[A1 [A2 [A3 [A4 [_ A6]]]]]|[_ [A1 [A2 [A3 [A4 A6]]]]]]; auto. }
  assert (Hco0 : forall x, x <> q -> ocont (st0 x) = ocont (store s x)).
  { intros x Hx. destruct (Hst0 x) as [[_ [_ [_ [_ [A5 _]]]]]|[E _]]; [exact A5 | contradiction]. }
  unfold add_object in H. cbn [store] in H.
  destruct (Hc0 ob) as [O1 [O2 _]]. rewrite O2, Hop in H. rewrite O1, Hon in H.
  set (stf := upd st0 q (with_cont (st0 q) (cset n ob (ocont (st0 q))))) in *.
  assert (Hcf : forall x, oname (stf x) = oname (store s x) /\ oparent (stf x) = oparent (store s x) /\ ocl (stf x) = ocl (store s x) /\
                          okind (stf x) = okind (store s x) /\ osup (stf x) = osup (store s x)).
  { intros x. unfold stf, upd. destruct (N.eqb x q) eqn:E; [apply N.eqb_eq in E; subst x; cbn; apply Hc0 | apply Hc0]. }
  assert (Hfpf : forall F x, fullpath_f F stf x = fullpath_f F (store s) x).
  { intros F x. apply fullpath_f_ext. intros y. destruct (Hcf y) as [A1 [A2 _]]. auto. }
  unfold fullpath in H. cbn [store depthb set_store] in H. rewrite Hfpf in H. unfold fullpath in Hobp. rewrite Hobp in H.
  cbn [allobj set_store] in H.
  assert (Hfree : rget (pq ++ [n]) m1 = None) by (apply (rm_fn_free s n pq HI first T m1 Hf Hcov HT Hm1)).
  rewrite Hfree in H. inversion H; subst s'. clear H.
  refine (add_replace_inv s ob q n pq HI Hlt Hoc Hop Hon Hq Hqc Hqp Hobp Hk Hm first T m1 r stf
                          (cset n ob (ocont (st0 q))) Hf Hcov HT Hm1 Hcf _ _ _ _ _ _).
  - unfold stf. rewrite upd_same. reflexivity.
  - intros x Hx. unfold stf. rewrite upd_other by exact Hx. apply Hco0. exact Hx.
  - apply (nodup_aset name_eqb name_eqb_eq). exact Hnd.
  - intros n' c Hin. apply (in_aset_inv name_eqb name_eqb_eq) in Hin; [|exact Hnd].
    destruct Hin as [[-> ->]|[Hne Hin]]; [left; auto | right; split; [exact Hne | apply Hincl; exact Hin]].
  - apply cget_cset_eq.
  - intros n' Hne. unfold cget, cset. rewrite (cget_cset_ne _ _ _ _ Hne). apply Hget. exact Hne.
Qed.

(* ------------------------------------------------------------------ "the last wins" at top level: the registered
   top-level module `first` is removed with everything below it and leaves rootobjects; the new module takes its place *)
Lemma add_replace_root_inv : forall s ob n first T m1 u,
    Inv s -> ob < next s -> ~ reg s ob -> ocont (store s ob) = [] -> oparent (store s ob) = None ->
    oname (store s ob) = n -> fullpath s ob = Some [n] ->
    rget [n] (allobj s) = Some first -> covered s first -> subtree s first = Some T ->
    del_walk s T (allobj s) = Some m1 ->
    Inv (mkState (store s) (next s) (m1 ++ [([n], ob)]) (remove1 first (roots s) ++ [ob]) (depthb s) u).
Proof.
  intros s ob n first T m1 u HI Hlt Hun Hoc Hop Hon Hobp Hf Hcov HT Hm1.
  set (st := store s). set (s' := mkState _ _ _ _ _ _).
  assert (Hfr : reg s first) by (exists [n]; exact Hf).
  assert (Hfp : fullpath s first = Some [n]) by (apply (inv_I1 s HI); exact Hf).
  assert (Hfpar : oparent (st first) = None).
  { destruct (oparent (st first)) as [q'|] eqn:E; [|reflexivity]. exfalso.
    unfold fullpath in Hfp. destruct (fullpath_f_child _ _ _ _ _ E Hfp) as [pq [Hpq Heq]].
    apply fullpath_f_nonempty in Hpq. apply (f_equal (@length name)) in Heq. rewrite app_length in Heq. cbn in Heq.
    destruct pq; [apply Hpq; reflexivity | cbn in Heq; lia]. }
  assert (HTin : forall x, In x T -> reg s x /\ anc st first x).
  { intros x Hx. apply (desc_reg_anc s HI first x Hfr). eapply subtree_f_desc; [exact HT | exact Hx]. }
  assert (HTcov : forall x, reg s x -> anc st first x -> In x T).
  { intros x Hx Ha. eapply subtree_f_complete; [exact HT | apply Hcov; assumption]. }
  assert (Hm : forall k x, rget k m1 = Some x <-> (rget k (allobj s) = Some x /\ ~ anc st first x)).
  { intros k x. rewrite (del_walk_spec _ _ _ _ Hm1 k x). split; intros [H1 H2]; split; try exact H1.
    - intros Ha. apply (H2 x (HTcov x (ex_intro _ k H1) Ha)). apply (inv_I1 s HI). exact H1.
    - intros y Hy Hpy. destruct (HTin y Hy) as [Hry Hay]. apply H2.
      assert (E : y = x) by (eapply (path_inj s HI); [exact Hry | exists k; exact H1 | exact Hpy | apply (inv_I1 s HI); exact H1]).
      rewrite <- E. exact Hay. }
  assert (Hfree : rget [n] m1 = None).
  { destruct (rget [n] m1) as [x|] eqn:E; [|reflexivity]. exfalso. apply Hm in E. destruct E as [E1 E2].
    rewrite Hf in E1. inversion E1; subst. apply E2. apply anc_refl. }
  assert (Hrget : forall k, rget k (allobj s') = if path_eqb [n] k then Some ob else rget k m1).
  { intros k. unfold s'. cbn. apply (aget_app_new path_eqb path_eqb_eq). exact Hfree. }
  assert (Hreg : forall x, reg s' x <-> x = ob \/ (reg s x /\ ~ anc st first x)).
  { intros x. unfold reg. split.
    - intros [k Hk]. rewrite Hrget in Hk. destruct (path_eqb [n] k); [inversion Hk; auto|].
      apply Hm in Hk. destruct Hk as [H1 H2]. right. split; [exists k; exact H1 | exact H2].
    - intros [E|[[k Hk] Hna]].
      + exists [n]. rewrite Hrget, path_eqb_refl. rewrite E. reflexivity.
      + exists k. rewrite Hrget. destruct (path_eqb [n] k) eqn:E.
        * apply path_eqb_eq in E. exfalso. rewrite <- E in Hk. rewrite Hf in Hk. inversion Hk; subst. apply Hna. apply anc_refl.
        * apply Hm. auto. }
  assert (Hroots : forall r, In r (roots s') <-> r = ob \/ (In r (roots s) /\ r <> first)).
  { intros r. unfold s'. cbn. rewrite in_app_iff, (in_remove1_nodup first (roots s) r (inv_rnodup s HI)). cbn. split.
    - intros [H|[H|[]]]; auto.
    - intros [H|H]; auto. }
  assert (Hst : store s' = st) by reflexivity.
  assert (Hfull : forall x, fullpath s' x = fullpath s x) by reflexivity.
  (* a survivor that is a child / root cannot be first *)
  assert (Hsurv : forall o, ~ anc st first o -> o <> first) by (intros o Hna E; apply Hna; rewrite E; apply anc_refl).
  constructor.
  - unfold s'. cbn. apply (nodup_app_new path_eqb path_eqb_eq); [|exact Hfree].
    apply (del_walk_nodup _ _ _ _ Hm1). apply (inv_keys s HI).
  - intros o Ho. rewrite Hst. apply Hreg in Ho. destruct Ho as [->|[Ho _]]; [unfold st; rewrite Hoc; constructor|].
    apply (inv_ckeys s HI). exact Ho.
  - intros p o Hp. assert (Ho : reg s' o) by (exists p; exact Hp). apply Hreg in Ho. unfold s'. cbn.
    destruct Ho as [->|[Ho _]]; [exact Hlt | apply (reg_lt s HI); exact Ho].
  - intros p o Hp. rewrite Hfull. rewrite Hrget in Hp. destruct (path_eqb [n] p) eqn:E.
    + inversion Hp as [E2]. apply path_eqb_eq in E. rewrite <- E, <- E2. exact Hobp.
    + apply Hm in Hp. apply (inv_I1 s HI). apply Hp.
  - intros o p Ho Hp. rewrite Hst in Hp. apply Hreg. right. apply Hreg in Ho. destruct Ho as [->|[Ho Hna]].
    + unfold st in Hp. congruence.
    + split; [eapply (inv_par s HI); eauto | intros Ha; apply Hna; eapply anc_step; eauto].
  - intros o n' c Ho Hin. rewrite Hst in *. apply Hreg in Ho.
    destruct Ho as [->|[Ho Hna]]; [unfold st in Hin; rewrite Hoc in Hin; destruct Hin|].
    destruct (inv_cont s HI o n' c Ho Hin) as [G1 [G2 G3]]. split; [|split; [exact G2 | exact G3]].
    apply Hreg. right. split; [exact G1|]. intros Ha. destruct (anc_inv _ _ _ Ha) as [E|[p [Hp Hap]]].
    + rewrite <- E in G2. fold st in G2. rewrite Hfpar in G2. discriminate.
    + fold st in G2. rewrite G2 in Hp. inversion Hp as [E2]. rewrite <- E2 in Hap. exact (Hna Hap).
  - intros r Hr. apply Hroots in Hr. rewrite Hst. destruct Hr as [->|[Hr Hne]].
    + split; [apply Hreg; left; reflexivity | exact Hop].
    + destruct (inv_roots s HI r Hr) as [G1 G2]. split; [|exact G2]. apply Hreg. right. split; [exact G1|].
      intros Ha. destruct (anc_inv _ _ _ Ha) as [E|[p [Hp _]]]; [apply Hne; auto | fold st in G2; rewrite G2 in Hp; discriminate].
  - intros o p Ho Hp. rewrite Hst in *. apply Hreg in Ho. destruct Ho as [->|[Ho _]]; [unfold st in Hp; congruence|].
    apply (inv_I3 s HI); assumption.
  - intros o Ho Hp. rewrite Hst in Hp. apply Hreg in Ho. apply Hroots. destruct Ho as [->|[Ho Hna]]; [left; reflexivity|].
    right. split; [apply (inv_top s HI); assumption | apply Hsurv; exact Hna].
  - intros o p Ho Hp H1 H2. rewrite Hst in *. apply Hreg in Ho. destruct Ho as [->|[Ho _]]; [unfold st in Hp; congruence|].
    apply (inv_I5a s HI o p); assumption.
  - intros o p Ho Hp H1. rewrite Hst in *. apply Hreg in Ho. destruct Ho as [->|[Ho _]]; [unfold st in Hp; congruence|].
    apply (inv_I5b s HI o p); assumption.
  - intros o Ho H1. rewrite Hst in *. apply Hreg in Ho. destruct Ho as [->|[Ho _]]; [exact Hoc|].
    apply (inv_I5c s HI); assumption.
  - unfold s'. cbn. apply NoDup_snoc; [apply nodup_remove1; apply (inv_rnodup s HI)|].
    intros Hin. apply in_remove1 in Hin. apply Hun. apply (inv_roots s HI ob Hin).
Qed.

(* ------------------------------------------------------------------ AddModule *)
Lemma step_add_module_inv : forall s pkg n parent s', Inv s -> guard_add_module s pkg n parent ->
    step s (AddModule pkg n parent) = Some s' -> Inv s'.
Proof.
  intros s pkg n parent s' HI Hg H. cbn [step] in H.
  destruct (alloc s (if pkg then CPackage else CModule) n parent 0) as [s1 ob] eqn:Ea.
  destruct (alloc_inv _ _ _ _ _ _ _ HI Ea) as [HI1 [Hob [Ha1 [Hr1 [Hun [Hlt [Hst [Hoth Hfp]]]]]]]].
  assert (Hreg : forall x, reg s1 x <-> reg s x) by (intros x; unfold reg; rewrite Ha1; tauto).
  assert (Hdep : depthb s1 = S (depthb s)) by (unfold alloc in Ea; inversion Ea; reflexivity).
  assert (Hcl : ocl (store s1 ob) = if pkg then CPackage else CModule) by (rewrite Hst; reflexivity).
  assert (Hmod : is_module (ocl (store s1 ob)) = true) by (rewrite Hcl; destruct pkg; reflexivity).
  assert (Hcovf : forall first, covered s first -> covered s1 first).
  { intros first Hcov. apply (covered_frame s s1 first HI Ha1); [|exact Hcov].
    intros o Ho. rewrite Hoth; [apply same_core_refl|]. intros E. apply Hun. apply Hreg. rewrite <- E. exact Ho. }
  unfold add_unprocessed_module in H.
  destruct parent as [q|]; cbn [guard_add_module] in Hg.
  - destruct Hg as [Hq [Hqp Hdup]].
    destruct (reg_self s HI q Hq) as [pq [Hpq _]].
    assert (Hqne : q <> ob) by (intros E; apply Hun; apply Hreg; rewrite <- E; exact Hq).
    assert (Hqf : fullpath_f (depthb s) (store s1) q = Some pq).
    { rewrite (fullpath_f_frame (store s) (store s1) (reg s)); [exact Hpq | | | exact Hq].
      - intros x p Hx Hp. eapply (inv_par s HI); eauto.
      - intros x Hx. rewrite Hoth; [auto|]. intros E. apply Hun. apply Hreg. rewrite <- E. exact Hx. }
    assert (Hobp : fullpath s1 ob = Some (pq ++ [n])).
    { unfold fullpath. rewrite Hdep. replace n with (oname (store s1 ob)) by (rewrite Hst; reflexivity).
      apply (fullpath_f_child_intro _ (store s1) ob q); [rewrite Hst; reflexivity | exact Hqf]. }
    rewrite Hobp in H. rewrite Ha1 in H.
    destruct (rget (pq ++ [n]) (allobj s)) as [first|] eqn:Ef.
    + assert (Hfne : first <> ob) by (intros E; apply Hun; apply Hreg; rewrite <- E; exists (pq ++ [n]); exact Ef).
      destruct (Hdup pq first Hpq Ef) as [[Hfc ->]|[Hmodf [Hcond Hcov]]].
      { rewrite (Hoth first Hfne), Hfc in H. rewrite Hcl in H. cbn in H. inversion H; subst s'. exact HI1. }
      rewrite (Hoth first Hfne), Hmodf in H. cbn [negb] in H. cbv iota in H.
      assert (Hcond' : ocls_eqb (ocl (store s first)) CPackage && negb (ocls_eqb (ocl (store s1 ob)) CPackage) = false).
      { rewrite Hcl. destruct pkg; cbn in *; [apply andb_false_r | exact Hcond]. }
      rewrite Hcond' in H. unfold remove_tree in H.
      destruct (subtree s1 first) as [T|] eqn:ET; [|discriminate].
      destruct (del_walk s1 T (allobj s1)) as [m1|] eqn:Em1; [|discriminate].
      destruct (modtree_f (S (depthb s1)) (store s1) first) as [mods|]; [|discriminate].
      assert (Hcov1 : covered s1 first) by (apply Hcovf; exact Hcov).
      assert (Hq1 : reg s1 q) by (apply Hreg; exact Hq).
      assert (Hop : oparent (store s1 ob) = Some q) by (rewrite Hst; reflexivity).
      assert (Hon : oname (store s1 ob) = n) by (rewrite Hst; reflexivity).
      assert (Ef1 : rget (pq ++ [n]) (allobj s1) = Some first) by (rewrite Ha1; exact Ef).
      destruct (entry_parent s1 q pq n first HI1 Hq1 (Hfp q pq Hq Hpq) Ef1) as [Hfpar Hfname].
      assert (Hnotroot : remove1 first (roots s1) = roots s1).
      { apply remove1_absent. intros Hin. destruct (inv_roots s1 HI1 first Hin) as [_ G]. congruence. }
      rewrite (Hoth first Hfne) in Hfpar, Hfname. rewrite Hfpar, Hfname in H.
      assert (Hfin : forall st0,
                 (forall x, same_core (st0 x) (store s1 x) \/ (x = q /\ oname (st0 x) = oname (store s1 x) /\
                     oparent (st0 x) = oparent (store s1 x) /\ ocl (st0 x) = ocl (store s1 x) /\
                     okind (st0 x) = okind (store s1 x) /\ osup (st0 x) = osup (store s1 x))) ->
                 NoDup (map fst (ocont (st0 q))) ->
                 (forall n' c, In (n', c) (ocont (st0 q)) -> In (n', c) (ocont (store s1 q))) ->
                 (forall n', n <> n' -> cget n' (ocont (st0 q)) = cget n' (ocont (store s1 q))) ->
                 forall r r',
                 match fullpath (mkState st0 (next s1) m1 (remove1 first (roots s1)) (depthb s1) r) ob with
                 | Some fn' => match rget fn' m1 with
                               | Some _ => None
                               | None => add_object (mkState st0 (next s1) m1 (remove1 first (roots s1)) (depthb s1) r') ob
                               end
                 | None => None
                 end = Some s' -> Inv s').
      { intros st0 Hst0 Hnd0 Hincl0 Hget0 r r' H0. rewrite Hnotroot in H0.
        destruct (fullpath (mkState st0 (next s1) m1 (roots s1) (depthb s1) r) ob) as [fn'|]; [|discriminate].
        destruct (rget fn' m1); [discriminate|].
        refine (add_replace_finish s1 ob q n pq first T m1 st0 r' s' HI1 Hlt _ Hop Hon Hq1 Hun _ (Hfp q pq Hq Hpq) Hobp _ _
                                   Ef1 Hcov1 ET Em1 Hst0 Hnd0 Hincl0 Hget0 H0).
        - rewrite Hst. reflexivity.
        - rewrite (Hoth q Hqne), Hqp. reflexivity.
        - rewrite Hcl. destruct pkg; discriminate.
        - intros _. rewrite (Hoth q Hqne). exact Hqp. }
      destruct (cget n (ocont (store s1 q))) as [x|] eqn:Ecg; [destruct (N.eqb x first) eqn:Ex|].
      * (* the old module was its package's entry: the entry is deleted *)
        refine (Hfin (upd (store s1) q (with_cont (store s1 q) (cdel n (ocont (store s1 q))))) _ _ _ _ _ _ H).
        -- intros y. unfold upd. destruct (N.eqb y q) eqn:E; [right; apply N.eqb_eq in E; subst y; cbn; auto 10 | left; apply same_core_refl].
        -- rewrite upd_same. cbn. apply (nodup_adel name_eqb). apply (inv_ckeys s1 HI1). exact Hq1.
        -- intros n' c Hin. rewrite upd_same in Hin. cbn in Hin. apply (in_adel _ _ _ _ Hin).
        -- intros n' Hne. rewrite upd_same. cbn. unfold cget, cdel. apply cget_cdel_ne. exact Hne.
      * refine (Hfin (store s1) _ _ _ _ _ _ H).
        -- intros y. left. apply same_core_refl.
        -- apply (inv_ckeys s1 HI1). exact Hq1.
        -- auto.
        -- auto.
      * refine (Hfin (store s1) _ _ _ _ _ _ H).
        -- intros y. left. apply same_core_refl.
        -- apply (inv_ckeys s1 HI1). exact Hq1.
        -- auto.
        -- auto.
    + assert (HI1u : Inv (set_unproc s1 (unproc s1 ++ [ob])))
        by (apply (Inv_frame s1); cbn; auto; try lia; intros; apply same_core_refl).
      apply (add_object_child_inv (set_unproc s1 (unproc s1 ++ [ob])) ob q n pq s' HI1u Hlt Hun);
        cbn [store set_unproc allobj]; try (rewrite Hst; reflexivity); try assumption.
      * apply Hreg. exact Hq.
      * rewrite (Hoth q Hqne), Hqp. reflexivity.
      * apply (Hfp q pq Hq Hpq).
      * rewrite Hcl. destruct pkg; discriminate.
      * intros _. rewrite (Hoth q Hqne). exact Hqp.
      * intros prev Hprev. rewrite Ha1, Ef in Hprev. discriminate.
  - assert (Hobp : fullpath s1 ob = Some [n]).
    { unfold fullpath. rewrite Hdep. cbn. rewrite Hst. reflexivity. }
    assert (Hop : oparent (store s1 ob) = None) by (rewrite Hst; reflexivity).
    rewrite Hobp in H. rewrite Ha1 in H.
    destruct (rget [n] (allobj s)) as [first|] eqn:Ef.
    + assert (Hfne : first <> ob) by (intros E; apply Hun; apply Hreg; rewrite <- E; exists [n]; exact Ef).
      destruct (Hg first eq_refl) as [[Hfc ->]|[Hmodf [Hcond Hcov]]].
      { rewrite (Hoth first Hfne), Hfc in H. rewrite Hcl in H. cbn in H. inversion H; subst s'. exact HI1. }
      rewrite (Hoth first Hfne), Hmodf in H. cbn [negb] in H. cbv iota in H.
      assert (Hcond' : ocls_eqb (ocl (store s first)) CPackage && negb (ocls_eqb (ocl (store s1 ob)) CPackage) = false).
      { rewrite Hcl. destruct pkg; cbn in *; [apply andb_false_r | exact Hcond]. }
      rewrite Hcond' in H. unfold remove_tree in H.
      destruct (subtree s1 first) as [T|] eqn:ET; [|discriminate].
      destruct (del_walk s1 T (allobj s1)) as [m1|] eqn:Em1; [|discriminate].
      destruct (modtree_f (S (depthb s1)) (store s1) first) as [mods|]; [|discriminate].
      assert (Ef1 : rget [n] (allobj s1) = Some first) by (rewrite Ha1; exact Ef).
      assert (Hfpar : oparent (store s first) = None).
      { assert (Hp1 := inv_I1 s HI _ _ Ef). destruct (oparent (store s first)) as [q'|] eqn:E; [|reflexivity]. exfalso.
        unfold fullpath in Hp1. destruct (fullpath_f_child _ _ _ _ _ E Hp1) as [pq [Hpq Heq]].
        apply fullpath_f_nonempty in Hpq. apply (f_equal (@length name)) in Heq. rewrite app_length in Heq. cbn in Heq.
        destruct pq; [apply Hpq; reflexivity | cbn in Heq; lia]. }
      rewrite Hfpar in H.
      cbn [store next allobj roots depthb unproc set_unproc set_allobj] in H.
      unfold fullpath in H. cbn [store depthb] in H. unfold fullpath in Hobp. rewrite Hobp in H.
      assert (Hfree : rget [n] m1 = None).
      { destruct (rget [n] m1) as [x|] eqn:E; [|reflexivity]. exfalso.
        apply (del_walk_spec _ _ _ _ Em1) in E. destruct E as [E1 E2]. rewrite Ef1 in E1. inversion E1; subst x.
        apply (E2 first); [eapply subtree_f_head; exact ET | apply (inv_I1 s1 HI1); exact Ef1]. }
      rewrite Hfree in H. unfold add_object, set_unproc in H. cbn [store next allobj roots depthb unproc] in H.
      rewrite Hop, Hmod in H.
      unfold fullpath in H. cbn [store depthb] in H. rewrite Hobp in H. cbn [allobj] in H. rewrite Hfree in H.
      inversion H; subst s'. clear H.
      refine (add_replace_root_inv s1 ob n first T m1 _ HI1 Hlt Hun _ Hop _ Hobp Ef1 (Hcovf first Hcov) ET Em1).
      * rewrite Hst. reflexivity.
      * rewrite Hst. reflexivity.
    + assert (HI1u : Inv (set_unproc s1 (unproc s1 ++ [ob])))
        by (apply (Inv_frame s1); cbn; auto; try lia; intros; apply same_core_refl).
      apply (add_object_root_inv (set_unproc s1 (unproc s1 ++ [ob])) ob n s' HI1u Hlt Hun);
        cbn [store set_unproc allobj]; try (rewrite Hst; reflexivity); try assumption.
      rewrite Ha1. exact Ef.
Qed.

(* ------------------------------------------------------------------ SetBases, PostProcess *)
Lemma step_set_bases_inv : forall s c bs s', Inv s -> step s (SetBases c bs) = Some s' -> Inv s'.
Proof.
  intros s c bs s' HI H. cbn in H. inversion H; subst s'. apply (Inv_frame s); cbn; auto; try lia.
  intros o Ho. unfold upd. destruct (N.eqb o c) eqn:E; [apply N.eqb_eq in E; subst o|]; unfold same_core; cbn; auto 10.
Qed.

Lemma post_class_core : forall st c x, same_core (post_class st c x) (st x).
Proof.
  intros st c x. unfold post_class. destruct (ocls_eqb (ocl (st c)) CClass); [|apply same_core_refl].
  generalize (obases (st c)). intros l. revert st. induction l as [|b l IH]; intros st; cbn; [apply same_core_refl|].
  specialize (IH (add_subclass st c b)). destruct IH as [H1 [H2 [H3 [H4 [H5 H6]]]]].
  assert (Hs : same_core (add_subclass st c b x) (st x)).
  { unfold add_subclass. destruct b as [b'|]; [|apply same_core_refl]. unfold upd.
    destruct (N.eqb x b') eqn:E; [apply N.eqb_eq in E; subst x; unfold same_core; cbn; auto 10 | apply same_core_refl]. }
  destruct Hs as [G1 [G2 [G3 [G4 [G5 G6]]]]]. unfold same_core. repeat split; congruence.
Qed.
Lemma post_fold_core : forall l st x, same_core (fold_left post_class l st x) (st x).
Proof.
  induction l as [|c l IH]; intros st x; cbn; [apply same_core_refl|].
  destruct (IH (post_class st c) x) as [H1 [H2 [H3 [H4 [H5 H6]]]]].
  destruct (post_class_core st c x) as [G1 [G2 [G3 [G4 [G5 G6]]]]]. unfold same_core. repeat split; congruence.
Qed.
Lemma step_post_process_inv : forall s s', Inv s -> step s PostProcess = Some s' -> Inv s'.
Proof.
  intros s s' HI H. cbn in H. inversion H; subst s'. apply (Inv_frame s); cbn; auto; try lia.
  intros o Ho. apply post_fold_core.
Qed.

(* ------------------------------------------------------------------ I4: the walk up ends in a root object *)
Lemma root_f_of_fullpath : forall F st o p, fullpath_f F st o = Some p ->
    exists r, root_f F st o = Some r /\ oparent (st r) = None /\ anc st r o.
Proof.
  induction F as [|F IH]; intros st o p H; [discriminate|]. cbn in *.
  destruct (oparent (st o)) as [q|] eqn:E.
  - destruct (fullpath_f F st q) as [pq|] eqn:E2; [|discriminate].
    destruct (IH _ _ _ E2) as [r [H1 [H2 H3]]]. exists r. split; [exact H1 | split; [exact H2 | eapply anc_step; eauto]].
  - exists o. split; [reflexivity | split; [exact E | apply anc_refl]].
Qed.
Lemma inv_root_of : forall s o, Inv s -> reg s o -> exists r, root_of s o = Some r /\ In r (roots s) /\ anc (store s) r o.
Proof.
  intros s o HI Ho. destruct (reg_self s HI o Ho) as [p [Hp _]].
  destruct (root_f_of_fullpath _ _ _ _ Hp) as [r [H1 [H2 H3]]]. exists r. split; [exact H1 | split; [|exact H3]].
  apply (inv_top s HI); [eapply reg_anc_closed; eauto | exact H2].
Qed.
