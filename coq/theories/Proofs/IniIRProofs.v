(* Proofs/IniIRProofs.v -- the interpretation of the bodies translated from the CURRENT pydoctor/_configparser.py
   (Gen/IniCode.v: is_quoted, unquote_str, the item loop of IniConfigParser.parse) is the hand-written
   Model/Quote.v / Model/IniValue.v, for every text.  The proofs are symbolic executions: the translated body is
   normalised, run by the interpreter, and every test met on the way is split; they do not mention the shape of the
   translated term nor the names of its locals. *)
From Coq Require Import ZArith NArith List Bool Lia.
From PydoctorVerif Require Import Base.Sexp Model.ReDeriv Model.OptTypes Gen.TablesC20 Spec.PyStrLit Spec.PyListLit
     Model.Quote Model.IniValue Model.TomlValue Model.IniIR Gen.IniCode Proofs.QuoteProofs Proofs.ConfigProofs.
Import ListNotations.
Local Open Scope N_scope.

(* ------------------------------------------------------------------ primitives vs the functions of the hand model *)
Lemma rstrip_char_nl : forall s, rstrip_char 10 s = rstrip_nl s.
Proof.
  induction s as [|x r IH]; [reflexivity|]. cbn [rstrip_char rstrip_nl]. rewrite IH. reflexivity.
Qed.

Lemma split_on_nl : forall s, split_on 10 s = split_nl s.
Proof.
  induction s as [|x r IH]; [reflexivity|]. cbn [split_on split_nl]. rewrite IH. reflexivity.
Qed.

Lemma first_char_normalized : forall c r, c <> 13 -> exists r', normalize_newlines (c :: r) = c :: r'.
Proof.
  intros c r H. cbn [normalize_newlines]. replace (c =? 13) with false by (symmetry; apply N.eqb_neq; exact H). eauto.
Qed.

(* literal_eval on a text that starts with `[`: only the list-display spec speaks *)
Lemma literal_eval_list : forall v, starts_with 91 v = true ->
  literal_eval_sem v = match py_list_literal_eval v with
                       | LsOk l => EV (VList l)
                       | LsErr => ERaise XLiteralEval
                       | LsUnsup => EUnsup
                       end.
Proof.
  intros v H. destruct v as [|c r]; [discriminate|]. cbn [starts_with] in H. apply N.eqb_eq in H. subst c.
  unfold literal_eval_sem, py_list_literal_eval, py_str_literal_eval.
  destruct (existsb bad_source_char (91 :: r)); [reflexivity|].
  destruct (first_char_normalized 91 r) as (r' & E); [discriminate|]. rewrite E.
  change (91 =? 91) with true. change (is_quote 91) with false. cbv iota.
  destruct (list_items (S (length r')) r' []); reflexivity.
Qed.

Lemma is_quoted_first_char : forall s t, is_quoted s t = true -> exists q r, s = q :: r /\ is_quote q = true.
Proof.
  intros s t H. destruct s as [|c r].
  - unfold is_quoted in H. rewrite quoted_regex_is_recogniser in H. cbn in H. destruct t; discriminate.
  - exists c, r. split; [reflexivity|]. unfold is_quote.
    destruct (c =? 39) eqn:E1; [reflexivity|]. destruct (c =? 34) eqn:E2; [reflexivity|].
    apply N.eqb_neq in E1, E2. rewrite not_quoted_without_quote in H by assumption. discriminate.
Qed.

(* literal_eval on a text is_quoted accepts: only the string-literal spec speaks *)
Lemma literal_eval_quoted : forall s t, is_quoted s t = true ->
  literal_eval_sem s = match py_str_literal_eval s with
                       | ROk x => EV (VStr x)
                       | RErr => ERaise XLiteralEval
                       | RUnsup => EUnsup
                       end.
Proof.
  intros s t H. destruct (is_quoted_first_char s t H) as (q & r & -> & Hq).
  assert (Hq' : q <> 13 /\ q <> 91).
  { unfold is_quote in Hq. apply orb_true_iff in Hq. destruct Hq as [E|E]; apply N.eqb_eq in E; subst q; split; discriminate. }
  unfold literal_eval_sem, py_list_literal_eval.
  destruct (existsb bad_source_char (q :: r)) eqn:Eb.
  - unfold py_str_literal_eval. rewrite Eb. reflexivity.
  - destruct (first_char_normalized q r) as (r' & E); [apply Hq'|]. rewrite E.
    replace (q =? 91) with false by (symmetry; apply N.eqb_neq; apply Hq').
    destruct (py_str_literal_eval (q :: r)); reflexivity.
Qed.

(* ------------------------------------------------------------------ symbolic execution *)
Ltac run :=
  cbn [exec eval handle caught catches on_str on_val on_list of_eres set fst snd truthy regex_of strip_side
       f_body f_p1 f_p2 call1 call2 N.eqb Pos.eqb existsb orb andb negb].

(* split on a LEAF of the first test in sight, so that the same atom is split once for both sides *)
Ltac split_leaf c :=
  lazymatch c with
  | negb ?a => split_leaf a
  | andb ?a _ => split_leaf a
  | orb ?a _ => split_leaf a
  | _ => destruct c eqn:?
  end.

Ltac split_test :=
  match goal with
  | |- context [if ?c then _ else _] =>
      lazymatch c with
      | context [if _ then _ else _] => fail
      | _ => split_leaf c
      end
  end.

Theorem is_quoted_code : forall s t,
  is_quoted_ir ini_code (VStr s) (VBool t) = EV (VBool (is_quoted s t)).
Proof.
  intros s t. unfold is_quoted_ir, run_fn, is_quoted.
  let b := eval cbv in (c_is_quoted ini_code) in change (c_is_quoted ini_code) with b.
  run. repeat (split_test; run); reflexivity.
Qed.

Definition unq_eres (u : unq) : eres :=
  match u with
  | UOk t => EV (VStr t)
  | UValueError => ERaise XValueError
  | UUnsup => EUnsup
  end.

Theorem unquote_str_code : forall s t,
  unquote_str_ir ini_code (VStr s) (VBool t) = unq_eres (unquote_str s t).
Proof.
  intros s t. unfold unquote_str_ir, run_fn, unquote_str, unq_eres.
  let b := eval cbv in (c_unquote_str ini_code) in change (c_unquote_str ini_code) with b.
  run. rewrite !is_quoted_code. run.
  destruct (is_quoted s t) eqn:Hq; run; [|reflexivity].
  rewrite (literal_eval_quoted s t Hq).
  destruct (py_str_literal_eval s); run; reflexivity.
Qed.

Theorem item_code : forall split k v,
  item_ir ini_code split k v = Some (ini_value split v).
Proof.
  intros split k v. unfold item_ir, ini_value.
  let b := eval cbv in (c_item_body ini_code) in change (c_item_body ini_code) with b.
  let b := eval cbv in (c_key ini_code) in change (c_key ini_code) with b.
  let b := eval cbv in (c_value ini_code) in change (c_value ini_code) with b.
  run.
  repeat first
    [ progress (rewrite ?is_quoted_code, ?unquote_str_code, ?rstrip_char_nl, ?split_on_nl; unfold unq_eres; run)
    | match goal with
      | H : starts_with 91 ?x = true |- context [literal_eval_sem ?x] => rewrite (literal_eval_list x H); run
      end
    | split_test; run
    | match goal with |- context [match py_list_literal_eval ?x with _ => _ end] => destruct (py_list_literal_eval x); run end
    | match goal with |- context [match unquote_str ?x ?t with _ => _ end] => destruct (unquote_str x t); run end ];
  try reflexivity; try discriminate.
Qed.

(* ------------------------------------------------------------------ the two loops *)
Lemma items_code : forall split items acc,
  items_ir ini_code split items acc = Some (ini_items split items acc).
Proof.
  intros split. induction items as [|[k v] r IH]; intros acc; [reflexivity|].
  cbn [items_ir ini_items]. rewrite item_code. destruct (ini_value split v); auto.
Qed.

Lemma sections_code : forall sections split secs acc,
  sections_ir ini_code sections split secs acc = Some (ini_sections sections split secs acc).
Proof.
  intros sections split. induction secs as [|[name items] r IH]; intros acc; [reflexivity|].
  cbn [sections_ir ini_sections]. destruct (mem_text name sections); [|apply IH].
  rewrite items_code. destruct (ini_items split items acc); auto.
Qed.

Theorem ini_parse_code : forall sections split secs,
  ini_parse_ir ini_code sections split secs = Some (ini_parse sections split secs).
Proof. intros. apply sections_code. Qed.
