(* Proofs/ReexportIRProofs.v -- the interpretation of the bodies translated from the CURRENT pydoctor sources
   (Gen/ReexportCode.v) is Model/Project.v: exports_of, handle_reexport, reparent, and the two registry walks, for every
   state and all arguments.  The proofs run the interpreter symbolically on the generated term (cbn + case analysis on the
   conditions of the MODEL), so they do not depend on how the Python code spells the decision chain. *)
From Coq Require Import ZArith NArith List Bool Lia.
From PydoctorVerif Require Import Base.Sexp Model.Project Model.ReexportIR Gen.ReexportCode Proofs.ProjectBase Proofs.ProjectRegistry.
Import ListNotations.
Local Open Scope N_scope.

(* ---- the registry walks do not touch the objects ---- *)
Lemma objs_unregister l : forall s, objs (unregister s l) = objs s.
Proof. unfold unregister. induction l as [|o l IH]; intros s; cbn [fold_left]; [reflexivity|]. rewrite IH. reflexivity. Qed.
Lemma objs_register l : forall s, objs (register s l) = objs s.
Proof. unfold register. induction l as [|o l IH]; intros s; cbn [fold_left]; [reflexivity|]. rewrite IH. reflexivity. Qed.
Lemma dfuel_unregister l : forall s, dfuel (unregister s l) = dfuel s.
Proof. unfold unregister. induction l as [|o l IH]; intros s; cbn [fold_left]; [reflexivity|]. rewrite IH. reflexivity. Qed.
Lemma dfuel_register l : forall s, dfuel (register s l) = dfuel s.
Proof. unfold register. induction l as [|o l IH]; intros s; cbn [fold_left]; [reflexivity|]. rewrite IH. reflexivity. Qed.
Lemma unregister_app a b s : unregister s (a ++ b) = unregister (unregister s a) b.
Proof. unfold unregister. apply fold_left_app. Qed.
Lemma register_app a b s : register s (a ++ b) = register (register s a) b.
Proof. unfold register. apply fold_left_app. Qed.

Lemma contents_of_ext s s' : (forall x, contents_of s' x = contents_of s x) ->
  forall f o, subtree_f f s' o = subtree_f f s o.
Proof.
  intros H. induction f as [|f IH]; intros o; cbn [subtree_f]; [reflexivity|]. rewrite H. f_equal.
  induction (contents_of s o) as [|c l IHl]; cbn [flat_map]; [reflexivity|]. rewrite IH, IHl. reflexivity.
Qed.
Lemma contents_of_objs s s' : objs s' = objs s -> forall x, contents_of s' x = contents_of s x.
Proof. intros H x. unfold contents_of. rewrite H. reflexivity. Qed.

Lemma flat_map_map {A B C} (g : A -> B) (h : B -> list C) l : flat_map h (map g l) = flat_map (fun a => h (g a)) l.
Proof. induction l as [|a l IH]; cbn [map flat_map]; [reflexivity|]. rewrite IH. reflexivity. Qed.

(* ---- symbolic execution ---- *)
Ltac sx :=
  cbn [exec eval truth lift finish setv args bind env0 N.eqb Pos.eqb N.add Pos.add Pos.succ negb andb orb fst snd
       c_exports c_handle c_reparent c_pre c_post].
Ltac rew := repeat match goal with H : _ = _ |- _ => rewrite H end.
Ltac go := repeat (progress (sx; rew)).

(* a `for x in o.contents.values(): <body>` whose body is one call g(state, x) *)
Fixpoint iter (g : state -> oid -> option state) (l : list oid) (s : state) : option state :=
  match l with
  | [] => Some s
  | c :: l' => match g s c with Some s1 => iter g l' s1 | None => None end
  end.

Lemma exec_for_call cur pre post rep (g : state -> oid -> option state) e x body :
  (forall s en c, exists en', exec cur pre post rep body s (setv en x (VObj c)) = lift (g s c) en') ->
  forall s en o, eval cur s en e = VObj o ->
  finish (exec cur pre post rep (SForContents e x body) s en) = iter g (map snd (contents_of s o)) s.
Proof.
  intros Hb s en o He. cbn [exec]. rewrite He. clear He. generalize (map snd (contents_of s o)). intros l. revert s en.
  induction l as [|c l IH]; intros s en; [reflexivity|]. destruct (Hb s en c) as (en' & E). rewrite E. cbn [iter].
  destruct (g s c) as [s1|]; cbn [lift]; [apply IH|reflexivity].
Qed.

(* a `for x in _walk_with_members(o): <body>` whose body is one registry update step(state, x) *)
Lemma exec_subtree_step cur pre post rep (step : state -> oid -> state) e x body :
  (forall s en c, exists en', exec cur pre post rep body s (setv en x (VObj c)) = XGo (step s c) en') ->
  forall s en o, eval cur s en e = VObj o ->
  finish (exec cur pre post rep (SForSubtree e x body) s en) = Some (fold_left step (subtree s o) s).
Proof.
  intros Hb s en o He. cbn [exec]. rewrite He. clear He. generalize (subtree s o). intros l. revert s en.
  induction l as [|c l IH]; intros s en; [reflexivity|]. destruct (Hb s en c) as (en' & E). rewrite E. cbn [fold_left]. apply IH.
Qed.

Section Walks.
  Notation C := reexport_code.

  Lemma iter_unregister f s0 :
    (forall s o, pre_ir C f s o = Some (unregister s (subtree_f f s o))) ->
    forall l s1, objs s1 = objs s0 -> iter (pre_ir C f) l s1 = Some (unregister s1 (flat_map (subtree_f f s0) l)).
  Proof.
    intros IHf. induction l as [|c l IH]; intros s1 Ho; cbn [iter flat_map]; [reflexivity|].
    rewrite IHf, unregister_app.
    rewrite (contents_of_ext s0 s1 (contents_of_objs s0 s1 Ho) f c).
    apply IH. rewrite objs_unregister. exact Ho.
  Qed.
  Lemma iter_register f s0 :
    (forall s o, post_ir C f s o = Some (register s (subtree_f f s o))) ->
    forall l s1, objs s1 = objs s0 -> iter (post_ir C f) l s1 = Some (register s1 (flat_map (subtree_f f s0) l)).
  Proof.
    intros IHf. induction l as [|c l IH]; intros s1 Ho; cbn [iter flat_map]; [reflexivity|].
    rewrite IHf, register_app.
    rewrite (contents_of_ext s0 s1 (contents_of_objs s0 s1 Ho) f c).
    apply IH. rewrite objs_register. exact Ho.
  Qed.
  Lemma iter_stop l : forall s, iter stop_walk l s = Some s.
  Proof. induction l as [|c l IH]; intros s; cbn [iter stop_walk]; [reflexivity|apply IH]. Qed.

  (* run the statements before the loop symbolically, keep the loop folded, then use the loop lemma *)
  Ltac keep_loop :=
    unfold code_pre, code_post;
    match goal with
    | |- context [SForContents ?e ?x ?body] =>
      let L := fresh "L" in let EL := fresh "EL" in remember (SForContents e x body) as L eqn:EL; repeat (progress sx); subst L
    | |- context [SForSubtree ?e ?x ?body] =>
      let L := fresh "L" in let EL := fresh "EL" in remember (SForSubtree e x body) as L eqn:EL; repeat (progress sx); subst L
    end.
  Ltac body_step := intros; eexists; repeat (progress (sx; rewrite ?N.eqb_refl)); reflexivity.
  Ltac walk_rec g :=
    keep_loop;
    match goal with
    | |- finish (exec ?cur ?pre ?post ?rep (SForContents ?e ?x ?body) ?s ?en) = _ =>
      rewrite (exec_for_call cur pre post rep g e x body) with (o := cur); [|body_step|repeat (progress sx); reflexivity]
    end.
  Ltac walk_flat step :=
    keep_loop;
    match goal with
    | |- finish (exec ?cur ?pre ?post ?rep (SForSubtree ?e ?x ?body) ?s ?en) = _ =>
      rewrite (exec_subtree_step cur pre post rep step e x body) with (o := cur); [|body_step|repeat (progress sx); reflexivity]
    end.

  (* _handle_reparenting_pre: del allobjects[fullName] for the object and everything below it, parents first.
     Either the method recurses through `contents` (then it agrees with the model's walk at every depth bound), or it
     loops over _walk_with_members (then it is the model's walk at the model's own bound). *)
  Lemma pre_ir_shape :
    (forall f s o, pre_ir C f s o = Some (unregister s (subtree_f f s o))) \/
    (forall f s o, pre_ir C f s o = Some (unregister s (subtree s o))).
  Proof.
    first
      [ left; induction f as [|f IH]; intros s o;
        [ cbn [pre_ir]; change (c_pre C) with code_pre; walk_rec stop_walk; rewrite iter_stop; reflexivity
        | cbn [pre_ir]; change (c_pre C) with code_pre; walk_rec (pre_ir C f);
          cbn [subtree_f]; change (contents_of (set_all s (pdel (full_name s o) (allobjs s))) o) with (contents_of s o);
          rewrite (iter_unregister f s IH) by reflexivity; rewrite flat_map_map; reflexivity ]
      | right; intros f s o; destruct f; cbn [pre_ir]; change (c_pre C) with code_pre;
        walk_flat (fun s0 o0 => set_all s0 (pdel (full_name s0 o0) (allobjs s0))); reflexivity ].
  Qed.

  Lemma post_ir_shape :
    (forall f s o, post_ir C f s o = Some (register s (subtree_f f s o))) \/
    (forall f s o, post_ir C f s o = Some (register s (subtree s o))).
  Proof.
    first
      [ left; induction f as [|f IH]; intros s o;
        [ cbn [post_ir]; change (c_post C) with code_post; walk_rec stop_walk; rewrite iter_stop; reflexivity
        | cbn [post_ir]; change (c_post C) with code_post; walk_rec (post_ir C f);
          cbn [subtree_f]; change (contents_of (set_all s (pset (full_name s o) o (allobjs s))) o) with (contents_of s o);
          rewrite (iter_register f s IH) by reflexivity; rewrite flat_map_map; reflexivity ]
      | right; intros f s o; destruct f; cbn [post_ir]; change (c_post C) with code_post;
        walk_flat (fun s0 o0 => set_all s0 (pset (full_name s0 o0) o0 (allobjs s0))); reflexivity ].
  Qed.

  Theorem pre_ir_eq s o : pre_ir C (dfuel s) s o = Some (unregister s (subtree s o)).
  Proof. destruct pre_ir_shape as [H|H]; apply H. Qed.
  Theorem post_ir_eq s o : post_ir C (dfuel s) s o = Some (register s (subtree s o)).
  Proof. destruct post_ir_shape as [H|H]; apply H. Qed.
End Walks.

(* ---- Documentable.reparent ---- *)
Section Reparent.
  Notation C := reexport_code.

  Lemma is_inst_objs s s' q c : objs s' = objs s -> is_inst s' q c = is_inst s q c.
  Proof. intros H. unfold is_inst. rewrite H. reflexivity. Qed.

  (* the object has a parent, and that parent can contain imports (otherwise Python raises at the `assert`) *)
  Lemma subtree_unregister s l x : subtree (unregister s l) x = subtree s x.
  Proof. unfold subtree. rewrite dfuel_unregister. apply contents_of_ext, contents_of_objs, objs_unregister. Qed.

  Lemma subtree_upd_keep s o f ob x :
    objs s o = Some ob -> o_contents (f ob) = o_contents ob -> subtree (upd_obj s o f) x = subtree s x.
  Proof.
    intros Ho Hc. unfold subtree. replace (dfuel (upd_obj s o f)) with (dfuel s) by (destruct (ctl_upd_obj s o f) as (_ & _ & _ & _ & E); congruence).
    apply contents_of_ext. intros y. unfold contents_of. rewrite (upd_obj_some s o f ob Ho), objs_set_obj.
    destruct (oid_eqb y o) eqn:E; [apply oid_eqb_eq in E; subst y; rewrite Ho; exact Hc|reflexivity].
  Qed.

  Theorem reparent_ir_eq s o np nn ob q :
    objs s o = Some ob -> o_parent ob = Some q -> is_inst s q CScope = true ->
    reparent_ir C s o np nn = Some (reparent s o np nn).
  Proof.
    intros Ho Hp Hq. unfold is_inst in Hq. destruct (objs s q) as [qb|] eqn:Hqb; [|discriminate].
    unfold reparent_ir, reparent. rewrite Ho, Hp. cbv zeta.
    change (c_reparent C) with code_reparent. unfold code_reparent.
    repeat (progress (sx; rewrite ?pre_ir_eq, ?post_ir_eq, ?objs_unregister, ?objs_register, ?Ho, ?Hp; unfold is_inst;
                      rewrite ?objs_unregister, ?Hqb, ?Hq)).
    rewrite (subtree_upd_keep _ o _ ob o); [|rewrite objs_unregister; exact Ho|reflexivity].
    rewrite subtree_unregister. reflexivity.
  Qed.
End Reparent.

(* ---- ModuleVistor._getCurrentModuleExports and _handleReExport ---- *)
(* what the interpreter assumes of a state: `contents` and the registry only mention objects that exist, and the parent
   of an object is a module or a class (the model only ever builds such states: Proofs/ProjectRegistry.v, OA / OR) *)
Record wf_objs (s : state) : Prop := {
  wf_contents : forall S sb n c, objs s S = Some sb -> nget n (o_contents sb) = Some c -> objs s c <> None;
  wf_registry : forall k c, pget k (allobjs s) = Some c -> objs s c <> None;
  wf_parent : forall c cb q, objs s c = Some cb -> o_parent cb = Some q -> is_inst s q CScope = true }.

Section Handle.
  Notation C := reexport_code.

  (* `exports` of the model = what _getCurrentModuleExports returns, for the module being walked (and for any object
     that is not a module but has no __all__: the model never gives a class or function an __all__) *)
  Theorem exports_ir_eq s cur :
    (forall ob, objs s cur = Some ob -> is_module_tag (o_tag ob) = true \/ o_all ob = None) ->
    exports_ir C s cur = Some (exports_of s cur).
  Proof.
    intros H. unfold exports_ir, exports_of. change (c_exports C) with code_exports. unfold code_exports.
    destruct (objs s cur) as [ob|] eqn:Ho.
    - destruct (H ob eq_refl) as [Hm|Ha].
      + destruct (o_all ob) as [a|] eqn:Ea; repeat (progress (sx; unfold is_inst; rewrite ?Ho, ?Hm, ?Ea)); reflexivity.
      + rewrite Ha. destruct (is_module_tag (o_tag ob)) eqn:Hm; repeat (progress (sx; unfold is_inst; rewrite ?Ho, ?Hm, ?Ha)); reflexivity.
    - repeat (progress (sx; unfold is_inst; rewrite ?Ho)). reflexivity.
  Qed.

  (* the decision chain and the move *)
  Theorem handle_ir_eq s cur exports orgname asname origin :
    is_inst s cur CModule = true -> is_inst s origin CModule = true -> wf_objs s ->
    handle_ir C s cur exports orgname asname origin = Some (handle_reexport s cur exports orgname asname origin).
  Proof.
    intros Hcur Horg [W1 W2 W3]. unfold is_inst in Horg. destruct (objs s origin) as [gb|] eqn:Hg; [|discriminate].
    unfold handle_ir, handle_reexport. change (c_handle C) with code_handle. unfold code_handle.
    destruct (memN asname exports) eqn:Hin; [|go; reflexivity].
    (* the object the name refers to in the origin module *)
    assert (Hfound : forall c, match nget orgname (contents_of s origin) with Some c0 => Some c0 | None => resolve_name s origin [orgname] end = Some c ->
                               objs s c <> None).
    { intros c. unfold contents_of. rewrite Hg.
      destruct (nget orgname (o_contents gb)) as [c0|] eqn:Hc; [intros E; inversion E; subst c0; exact (W1 origin gb orgname c Hg Hc)|].
      unfold resolve_name. intros E. exact (W2 _ c E). }
    assert (Hmove : forall c cb q, objs s c = Some cb -> o_parent cb = Some q ->
                                   reparent_ir C s c cur asname = Some (reparent s c cur asname)).
    { intros c cb q Hc Hp. exact (reparent_ir_eq s c cur asname cb q Hc Hp (W3 c cb q Hc Hp)). }
    destruct (nget orgname (contents_of s origin)) as [c|] eqn:Hc.
    - pose proof (Hfound c eq_refl) as Hex. destruct (objs s c) as [cb|] eqn:Hcb; [|congruence].
      destruct (o_parent cb) as [q|] eqn:Hp; [|go; reflexivity].
      pose proof (Hmove c cb q Hcb Hp) as HM.
      destruct (o_all gb) as [a|] eqn:Ha; [destruct (memN orgname a) eqn:Hl|]; go; reflexivity.
    - destruct (resolve_name s origin [orgname]) as [c|] eqn:Hr; [|go; reflexivity].
      pose proof (Hfound c eq_refl) as Hex. destruct (objs s c) as [cb|] eqn:Hcb; [|congruence].
      destruct (o_parent cb) as [q|] eqn:Hp; [|go; reflexivity].
      pose proof (Hmove c cb q Hcb Hp) as HM.
      destruct (o_all gb) as [a|] eqn:Ha; [destruct (memN orgname a) eqn:Hl|]; go; reflexivity.
  Qed.
End Handle.
