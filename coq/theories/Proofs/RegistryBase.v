(* Proofs/RegistryBase.v -- lemmas about the building blocks of Model/Registry.v:
   equality tests, insertion-ordered dicts, fullpath (walk up), subtree (walk down), the registry walks. *)
From Coq Require Import ZArith NArith List Bool Lia.
From PydoctorVerif Require Import Base.Sexp Model.Registry Spec.RegistryInv.
Import ListNotations.
Local Open Scope N_scope.

(* ------------------------------------------------------------------ equality tests *)
Lemma list_eqb_eq {X} (e : X -> X -> bool) :
  (forall a b, e a b = true <-> a = b) -> forall l1 l2, list_eqb e l1 l2 = true <-> l1 = l2.
Proof.
  intros He. induction l1 as [|x l1 IH]; destruct l2 as [|y l2]; cbn; split; intros H;
    try reflexivity; try discriminate.
  - apply andb_true_iff in H. destruct H as [H1 H2]. apply He in H1. apply IH in H2. congruence.
  - inversion H; subst. apply andb_true_iff. split; [apply He; reflexivity | apply IH; reflexivity].
Qed.

Lemma name_eqb_eq : forall a b : name, name_eqb a b = true <-> a = b.
Proof.
  intros [a1 a2] [b1 b2]. unfold name_eqb. cbn [fst snd]. rewrite andb_true_iff, N.eqb_eq.
  rewrite (list_eqb_eq N.eqb N.eqb_eq). split; [intros [-> ->]; reflexivity | intros H; inversion H; auto].
Qed.
Lemma path_eqb_eq : forall a b : path, path_eqb a b = true <-> a = b.
Proof. apply list_eqb_eq. exact name_eqb_eq. Qed.
Lemma path_eqb_refl : forall a, path_eqb a a = true.
Proof. intros. apply path_eqb_eq. reflexivity. Qed.
Lemma name_eqb_refl : forall a, name_eqb a a = true.
Proof. intros. apply name_eqb_eq. reflexivity. Qed.
Lemma path_eqb_neq : forall a b : path, a <> b -> path_eqb a b = false.
Proof. intros a b H. destruct (path_eqb a b) eqn:E; [apply path_eqb_eq in E; contradiction | reflexivity]. Qed.
Lemma name_eqb_neq : forall a b : name, a <> b -> name_eqb a b = false.
Proof. intros a b H. destruct (name_eqb a b) eqn:E; [apply name_eqb_eq in E; contradiction | reflexivity]. Qed.
Lemma path_eq_dec : forall a b : path, {a = b} + {a <> b}.
Proof. intros a b. destruct (path_eqb a b) eqn:E; [left; apply path_eqb_eq; exact E | right; intros H; apply path_eqb_eq in H; congruence]. Qed.
Lemma name_eq_dec : forall a b : name, {a = b} + {a <> b}.
Proof. intros a b. destruct (name_eqb a b) eqn:E; [left; apply name_eqb_eq; exact E | right; intros H; apply name_eqb_eq in H; congruence]. Qed.

Lemma NoDup_snoc {X} : forall (l : list X) x, NoDup l -> ~ In x l -> NoDup (l ++ [x]).
Proof.
  induction l as [|y l IH]; cbn; intros x Hnd Hn.
  - constructor; [tauto | constructor].
  - inversion Hnd as [|? ? Hy Hnd']; subst. constructor.
    + rewrite in_app_iff. cbn. intros [H|[H|[]]]; [contradiction | subst; apply Hn; left; reflexivity].
    + apply IH; [exact Hnd' | intros H; apply Hn; right; exact H].
Qed.

(* ------------------------------------------------------------------ dicts *)
Section AssocLemmas.
  Context {K V : Type}.
  Variable eqb : K -> K -> bool.
  Hypothesis eqb_eq : forall a b, eqb a b = true <-> a = b.

  Lemma eqb_refl' : forall a, eqb a a = true.
  Proof. intros. apply eqb_eq. reflexivity. Qed.
  Lemma eqb_neq' : forall a b, a <> b -> eqb a b = false.
  Proof. intros a b H. destruct (eqb a b) eqn:E; [apply eqb_eq in E; contradiction | reflexivity]. Qed.

  Lemma aget_aset_eq : forall k (v : V) l, aget eqb k (aset eqb k v l) = Some v.
  Proof.
    intros k v. induction l as [|[k' v'] t IH]; cbn.
    - rewrite eqb_refl'. reflexivity.
    - destruct (eqb k' k) eqn:E; cbn; [rewrite eqb_refl'; reflexivity | rewrite E; exact IH].
  Qed.
  Lemma aget_aset_ne : forall k k' (v : V) l, k <> k' -> aget eqb k' (aset eqb k v l) = aget eqb k' l.
  Proof.
    intros k k' v l Hne. induction l as [|[k2 v2] t IH]; cbn.
    - rewrite (eqb_neq' _ _ Hne). reflexivity.
    - destruct (eqb k2 k) eqn:E; cbn.
      + apply eqb_eq in E. subst k2. rewrite (eqb_neq' _ _ Hne). reflexivity.
      + destruct (eqb k2 k'); [reflexivity | exact IH].
  Qed.
  Lemma aget_adel_eq : forall k (l : list (K * V)), aget eqb k (adel eqb k l) = None.
  Proof.
    intros k. induction l as [|[k2 v2] t IH]; cbn; [reflexivity|].
    destruct (eqb k2 k) eqn:E; cbn; [exact IH | rewrite E; exact IH].
  Qed.
  Lemma aget_adel_ne : forall k k' (l : list (K * V)), k <> k' -> aget eqb k' (adel eqb k l) = aget eqb k' l.
  Proof.
    intros k k' l Hne. induction l as [|[k2 v2] t IH]; cbn; [reflexivity|].
    destruct (eqb k2 k) eqn:E; cbn.
    - apply eqb_eq in E. subst k2. rewrite (eqb_neq' _ _ Hne). exact IH.
    - destruct (eqb k2 k'); [reflexivity | exact IH].
  Qed.
  Lemma aget_app_new : forall k k' (v : V) l,
      aget eqb k l = None -> aget eqb k' (l ++ [(k, v)]) = if eqb k k' then Some v else aget eqb k' l.
  Proof.
    intros k k' v l. induction l as [|[k2 v2] t IH]; cbn; intros H; [reflexivity|].
    destruct (eqb k2 k) eqn:E; [discriminate|].
    destruct (eqb k2 k') eqn:E2.
    - destruct (eqb k k') eqn:E3; [|reflexivity].
      apply eqb_eq in E2. apply eqb_eq in E3. subst. rewrite eqb_refl' in E. discriminate.
    - apply IH. exact H.
  Qed.
  Lemma aget_in : forall k (v : V) l, aget eqb k l = Some v -> In (k, v) l.
  Proof.
    intros k v. induction l as [|[k2 v2] t IH]; cbn; intros H; [discriminate|].
    destruct (eqb k2 k) eqn:E; [apply eqb_eq in E; inversion H; subst; left; reflexivity | right; apply IH; exact H].
  Qed.
  Lemma aget_none_notin : forall k (l : list (K * V)), aget eqb k l = None -> ~ In k (map fst l).
  Proof.
    intros k. induction l as [|[k2 v2] t IH]; cbn; intros H; [tauto|].
    destruct (eqb k2 k) eqn:E; [discriminate|]. intros [H1|H1].
    - subst. rewrite eqb_refl' in E. discriminate.
    - apply IH; assumption.
  Qed.
  Lemma in_aget : forall k (v : V) l, NoDup (map fst l) -> In (k, v) l -> aget eqb k l = Some v.
  Proof.
    intros k v. induction l as [|[k2 v2] t IH]; cbn; intros Hnd H; [tauto|].
    inversion Hnd as [|? ? Hn Hnd']; subst. destruct H as [H|H].
    - inversion H; subst. rewrite eqb_refl'. reflexivity.
    - destruct (eqb k2 k) eqn:E.
      + apply eqb_eq in E. subst. exfalso. apply Hn. apply (in_map fst) in H. exact H.
      + apply IH; assumption.
  Qed.
  Lemma in_keys_aset : forall k (v : V) l x, In x (map fst (aset eqb k v l)) -> x = k \/ In x (map fst l).
  Proof.
    intros k v. induction l as [|[k2 v2] t IH]; cbn; intros x H.
    - destruct H as [H|[]]. left. auto.
    - destruct (eqb k2 k) eqn:E; cbn in H.
      + destruct H as [H|H]; [left; auto | right; right; exact H].
      + destruct H as [H|H]; [right; left; exact H|]. destruct (IH _ H); [left|right; right]; assumption.
  Qed.
  Lemma nodup_aset : forall k (v : V) l, NoDup (map fst l) -> NoDup (map fst (aset eqb k v l)).
  Proof.
    intros k v. induction l as [|[k2 v2] t IH]; cbn; intros Hnd.
    - constructor; [tauto | constructor].
    - inversion Hnd as [|? ? Hn Hnd']; subst. destruct (eqb k2 k) eqn:E; cbn.
      + apply eqb_eq in E. subst. constructor; assumption.
      + constructor; [|apply IH; exact Hnd'].
        intros H. apply in_keys_aset in H. destruct H as [H|H]; [subst; rewrite eqb_refl' in E; discriminate | contradiction].
  Qed.
  Lemma in_adel : forall k (l : list (K * V)) x, In x (adel eqb k l) -> In x l.
  Proof.
    intros k. induction l as [|[k2 v2] t IH]; cbn; intros x H; [tauto|].
    destruct (eqb k2 k); [right; apply IH; exact H|]. destruct H as [H|H]; [left; exact H | right; apply IH; exact H].
  Qed.
  Lemma nodup_adel : forall k (l : list (K * V)), NoDup (map fst l) -> NoDup (map fst (adel eqb k l)).
  Proof.
    intros k. induction l as [|[k2 v2] t IH]; cbn; intros Hnd; [constructor|].
    inversion Hnd as [|? ? Hn Hnd']; subst. destruct (eqb k2 k); [apply IH; exact Hnd'|].
    cbn. constructor; [|apply IH; exact Hnd'].
    intros H. apply Hn. apply in_map_iff in H. destruct H as [[a b] [H1 H2]]. cbn in H1. subst.
    apply in_adel in H2. apply (in_map fst) in H2. exact H2.
  Qed.
  Lemma nodup_app_new : forall k (v : V) l, NoDup (map fst l) -> aget eqb k l = None -> NoDup (map fst (l ++ [(k, v)])).
  Proof.
    intros k v l Hnd Hn. rewrite map_app. cbn. apply NoDup_snoc.
    - exact Hnd.
    - apply aget_none_notin. exact Hn.
  Qed.
  (* with unique keys, d[k] = v keeps every other binding *)
  Lemma in_aset_inv : forall k (v : V) l k' v', NoDup (map fst l) ->
      In (k', v') (aset eqb k v l) -> (k' = k /\ v' = v) \/ (k' <> k /\ In (k', v') l).
  Proof.
    intros k v l k' v' Hnd H.
    assert (Hnd' := nodup_aset k v l Hnd).
    apply (in_aget _ _ _ Hnd') in H.
    destruct (eqb k k') eqn:E.
    - apply eqb_eq in E. subst k'. rewrite aget_aset_eq in H. inversion H. left. auto.
    - assert (k <> k') by (intros ->; rewrite eqb_refl' in E; discriminate).
      rewrite aget_aset_ne in H by assumption. right. split; [congruence | apply aget_in; exact H].
  Qed.
End AssocLemmas.

(* registry / contents instances *)
Definition rget_rset_eq := @aget_aset_eq path id path_eqb path_eqb_eq.
Definition rget_rset_ne := @aget_aset_ne path id path_eqb path_eqb_eq.
Definition rget_rdel_eq := @aget_adel_eq path id path_eqb.
Definition rget_rdel_ne := @aget_adel_ne path id path_eqb path_eqb_eq.
Definition cget_cset_eq := @aget_aset_eq name id name_eqb name_eqb_eq.
Definition cget_cset_ne := @aget_aset_ne name id name_eqb name_eqb_eq.

(* ------------------------------------------------------------------ fullName: the walk up *)
Lemma fullpath_f_mono : forall F st o p, fullpath_f F st o = Some p -> forall F', (F <= F')%nat -> fullpath_f F' st o = Some p.
Proof.
  induction F as [|F IH]; intros st o p H F' Hle; [discriminate|].
  destruct F' as [|F']; [lia|]. cbn in *.
  destruct (oparent (st o)) as [q|]; [|exact H].
  destruct (fullpath_f F st q) as [pq|] eqn:E; [|discriminate].
  rewrite (IH st q pq E F') by lia. exact H.
Qed.

Lemma fullpath_f_len : forall F st o p, fullpath_f F st o = Some p -> (1 <= length p <= F)%nat.
Proof.
  induction F as [|F IH]; intros st o p H; [discriminate|]. cbn in H.
  destruct (oparent (st o)) as [q|].
  - destruct (fullpath_f F st q) as [pq|] eqn:E; [|discriminate]. inversion H; subst.
    rewrite app_length. cbn. specialize (IH _ _ _ E). lia.
  - inversion H; subst. cbn. lia.
Qed.

Lemma fullpath_f_nonempty : forall F st o p, fullpath_f F st o = Some p -> p <> [].
Proof. intros F st o p H Hp. apply fullpath_f_len in H. subst. cbn in H. lia. Qed.

(* unfolding at an object that has a parent / has none *)
Lemma fullpath_f_child : forall F st o q p, oparent (st o) = Some q -> fullpath_f F st o = Some p ->
    exists pq, fullpath_f F st q = Some pq /\ p = pq ++ [oname (st o)].
Proof.
  intros F st o q p Hq H. destruct F as [|F]; [discriminate|]. cbn in H. rewrite Hq in H.
  destruct (fullpath_f F st q) as [pq|] eqn:E; [|discriminate]. inversion H; subst.
  exists pq. split; [apply (fullpath_f_mono _ _ _ _ E); lia | reflexivity].
Qed.
Lemma fullpath_f_root : forall F st o p, oparent (st o) = None -> fullpath_f F st o = Some p -> p = [oname (st o)].
Proof. intros F st o p Hq H. destruct F as [|F]; [discriminate|]. cbn in H. rewrite Hq in H. congruence. Qed.
Lemma fullpath_f_child_intro : forall F st o q pq, oparent (st o) = Some q -> fullpath_f F st q = Some pq ->
    fullpath_f (S F) st o = Some (pq ++ [oname (st o)]).
Proof. intros F st o q pq Hq H. cbn. rewrite Hq, H. reflexivity. Qed.

(* fullName only reads name and parent, and only of the ancestors *)
Lemma fullpath_f_frame : forall st st' (P : id -> Prop),
    (forall x q, P x -> oparent (st x) = Some q -> P q) ->
    (forall x, P x -> oname (st' x) = oname (st x) /\ oparent (st' x) = oparent (st x)) ->
    forall F o, P o -> fullpath_f F st' o = fullpath_f F st o.
Proof.
  intros st st' P Hcl Hag. induction F as [|F IH]; intros o Ho; [reflexivity|]. cbn.
  destruct (Hag o Ho) as [Hn Hp]. rewrite Hn, Hp.
  destruct (oparent (st o)) as [q|] eqn:E; [|reflexivity].
  rewrite (IH q (Hcl _ _ Ho E)). reflexivity.
Qed.
Lemma fullpath_f_ext : forall st st',
    (forall x, oname (st' x) = oname (st x) /\ oparent (st' x) = oparent (st x)) ->
    forall F o, fullpath_f F st' o = fullpath_f F st o.
Proof. intros st st' H F o. apply (fullpath_f_frame st st' (fun _ => True)); auto. Qed.


Lemma anc_trans : forall st a b c, anc st a b -> anc st b c -> anc st a c.
Proof. intros st a b c Hab Hbc. induction Hbc; [exact Hab | eapply anc_step; eauto]. Qed.

(* the path of an ancestor is a prefix *)
Lemma anc_prefix : forall st a x, anc st a x -> forall F px, fullpath_f F st x = Some px ->
    exists pa r, fullpath_f F st a = Some pa /\ px = pa ++ r.
Proof.
  intros st a x H. induction H as [|x q Hq Ha IH]; intros F px Hpx.
  - exists px, []. rewrite app_nil_r. auto.
  - destruct (fullpath_f_child _ _ _ _ _ Hq Hpx) as [pq [Hpq ->]].
    destruct (IH _ _ Hpq) as [pa [r [Hpa ->]]]. exists pa, (r ++ [oname (st x)]). rewrite app_assoc. auto.
Qed.
Lemma anc_len : forall st a x F pa px, anc st a x -> fullpath_f F st x = Some px -> fullpath_f F st a = Some pa ->
    (length pa <= length px)%nat.
Proof.
  intros st a x F pa px H Hx Ha. destruct (anc_prefix _ _ _ H _ _ Hx) as [pa' [r [Ha' ->]]].
  rewrite Ha in Ha'. inversion Ha'; subst. rewrite app_length. lia.
Qed.
(* no object is a proper ancestor of its own parent *)
Lemma anc_parent_absurd : forall st a q F pa, oparent (st a) = Some q -> fullpath_f F st a = Some pa -> ~ anc st a q.
Proof.
  intros st a q F pa Hq Ha H. destruct (fullpath_f_child _ _ _ _ _ Hq Ha) as [pq [Hpq ->]].
  assert (L := anc_len _ _ _ _ _ _ H Hpq Ha). rewrite app_length in L. cbn in L. lia.
Qed.

(* re-keying: if only the name/parent of `a` changes, the paths below `a` keep their suffix *)
Lemma anc_suffix : forall st st' a,
    (forall x, x <> a -> oname (st' x) = oname (st x) /\ oparent (st' x) = oparent (st x)) ->
    forall x, anc st a x -> forall F F' px pa pa',
        fullpath_f F st x = Some px -> fullpath_f F st a = Some pa -> fullpath_f F' st' a = Some pa' ->
        exists r, px = pa ++ r /\ fullpath_f (F' + length r) st' x = Some (pa' ++ r).
Proof.
  intros st st' a Hag x H. induction H as [|x q Hq Ha IH]; intros F F' px pa pa' Hx Hpa Hpa'.
  - rewrite Hx in Hpa. inversion Hpa; subst. exists []. rewrite !app_nil_r. split; [reflexivity|].
    cbn. rewrite Nat.add_0_r. exact Hpa'.
  - destruct (N.eq_dec x a) as [->|Hne].
    + rewrite Hx in Hpa. inversion Hpa; subst. exists []. rewrite !app_nil_r. split; [reflexivity|].
      cbn. rewrite Nat.add_0_r. exact Hpa'.
    + destruct (fullpath_f_child _ _ _ _ _ Hq Hx) as [pq [Hpq ->]].
      destruct (IH _ _ _ _ _ Hpq Hpa Hpa') as [r [-> Hr]].
      exists (r ++ [oname (st x)]). split; [rewrite app_assoc; reflexivity|].
      destruct (Hag x Hne) as [Hn Hp]. rewrite app_length. cbn [length].
      replace (F' + (length r + 1))%nat with (S (F' + length r)) by lia.
      rewrite app_assoc. rewrite <- Hn. apply (fullpath_f_child_intro _ st' x q); [rewrite Hp; exact Hq | exact Hr].
Qed.

(* ------------------------------------------------------------------ the walk down *)

Lemma desc_trans_head : forall st a n c x, In (n, c) (ocont (st a)) -> desc st c x -> desc st a x.
Proof.
  intros st a n c x Hin H. induction H as [|y n' c' Hy IH Hin']; [eapply desc_step; [apply desc_refl | exact Hin] |].
  eapply desc_step; eauto.
Qed.

Lemma oconcat_in {X Y} (f : X -> option (list Y)) : forall l r y, oconcat f l = Some r -> In y r ->
    exists x rx, In x l /\ f x = Some rx /\ In y rx.
Proof.
  induction l as [|x t IH]; cbn; intros r y H Hy.
  - inversion H; subst. destruct Hy.
  - destruct (f x) as [a|] eqn:E; [|discriminate]. destruct (oconcat f t) as [b|] eqn:E2; [|discriminate].
    inversion H; subst. apply in_app_iff in Hy. destruct Hy as [Hy|Hy].
    + exists x, a. auto.
    + destruct (IH _ _ eq_refl Hy) as [x' [rx [H1 [H2 H3]]]]. exists x', rx. auto.
Qed.
Lemma oconcat_in_rev {X Y} (f : X -> option (list Y)) : forall l r x rx y, oconcat f l = Some r ->
    In x l -> f x = Some rx -> In y rx -> In y r.
Proof.
  induction l as [|x0 t IH]; cbn; intros r x rx y H Hx Hfx Hy; [destruct Hx|].
  destruct (f x0) as [a|] eqn:E; [|discriminate]. destruct (oconcat f t) as [b|] eqn:E2; [|discriminate].
  inversion H; subst. apply in_app_iff. destruct Hx as [->|Hx].
  - rewrite Hfx in E. inversion E; subst. left. exact Hy.
  - right. eapply IH; eauto.
Qed.
Lemma oconcat_some {X Y} (f : X -> option (list Y)) : forall l r x, oconcat f l = Some r -> In x l -> exists rx, f x = Some rx.
Proof.
  induction l as [|x0 t IH]; cbn; intros r x H Hx; [destruct Hx|].
  destruct (f x0) as [a|] eqn:E; [|discriminate]. destruct (oconcat f t) as [b|] eqn:E2; [|discriminate].
  destruct Hx as [->|Hx]; [eauto | eapply IH; eauto].
Qed.
Lemma oconcat_ext {X Y} (f g : X -> option (list Y)) : forall l, (forall x, In x l -> f x = g x) -> oconcat f l = oconcat g l.
Proof.
  induction l as [|x t IH]; cbn; intros H; [reflexivity|].
  rewrite (H x) by (left; reflexivity). rewrite IH by (intros; apply H; right; assumption). reflexivity.
Qed.

Lemma subtree_f_head : forall F st a T, subtree_f F st a = Some T -> In a T.
Proof.
  intros F st a T H. destruct F as [|F]; [discriminate|]. cbn in H.
  destruct (oconcat _ _); [|discriminate]. inversion H. left. reflexivity.
Qed.

(* soundness: everything visited is reachable through contents *)
Lemma subtree_f_desc : forall F st a T, subtree_f F st a = Some T -> forall x, In x T -> desc st a x.
Proof.
  induction F as [|F IH]; intros st a T H x Hx; [discriminate|]. cbn in H.
  destruct (oconcat (subtree_f F st) (map snd (ocont (st a)))) as [l|] eqn:E; [|discriminate].
  inversion H; subst. destruct Hx as [->|Hx]; [apply desc_refl|].
  destruct (oconcat_in _ _ _ _ E Hx) as [c [rc [Hc [Hrc Hin]]]].
  apply in_map_iff in Hc. destruct Hc as [[n c'] [Hc1 Hc2]]. cbn in Hc1. subst c'.
  eapply desc_trans_head; [exact Hc2 | eapply IH; eauto].
Qed.

(* completeness: the visited set is closed under contents, hence contains everything reachable *)
Lemma subtree_f_closed : forall F st a T, subtree_f F st a = Some T ->
    forall y n c, In y T -> In (n, c) (ocont (st y)) -> In c T.
Proof.
  induction F as [|F IH]; intros st a T H y n c Hy Hc; [discriminate|]. cbn in H.
  destruct (oconcat (subtree_f F st) (map snd (ocont (st a)))) as [l|] eqn:E; [|discriminate].
  inversion H; subst. right. destruct Hy as [->|Hy].
  - assert (Hin : In c (map snd (ocont (st y)))) by (apply in_map_iff; exists (n, c); auto).
    destruct (oconcat_some _ _ _ _ E Hin) as [rc Hrc].
    eapply oconcat_in_rev; [exact E | exact Hin | exact Hrc | eapply subtree_f_head; exact Hrc].
  - destruct (oconcat_in _ _ _ _ E Hy) as [c0 [r0 [Hc0 [Hr0 Hin0]]]].
    eapply oconcat_in_rev; [exact E | exact Hc0 | exact Hr0 | eapply IH; eauto].
Qed.
Lemma subtree_f_complete : forall F st a T, subtree_f F st a = Some T -> forall x, desc st a x -> In x T.
Proof.
  intros F st a T H x Hd. induction Hd as [|y n c Hy IH Hc]; [eapply subtree_f_head; exact H|].
  eapply subtree_f_closed; eauto.
Qed.

(* the walk only reads `contents` *)
Lemma subtree_f_ext : forall st st', (forall x, ocont (st' x) = ocont (st x)) ->
    forall F a, subtree_f F st' a = subtree_f F st a.
Proof.
  intros st st' H. induction F as [|F IH]; intros a; [reflexivity|]. cbn. rewrite H.
  rewrite (oconcat_ext (subtree_f F st') (subtree_f F st)) by (intros; apply IH). reflexivity.
Qed.
(* ... and only of the objects it visits *)
Lemma subtree_f_local : forall st st' F a T, subtree_f F st a = Some T ->
    (forall x, In x T -> ocont (st' x) = ocont (st x)) -> subtree_f F st' a = Some T.
Proof.
  intros st st'. induction F as [|F IH]; intros a T H Hag; [discriminate|]. cbn in *.
  destruct (oconcat (subtree_f F st) (map snd (ocont (st a)))) as [l|] eqn:E; [|discriminate].
  inversion H; subst. rewrite (Hag a) by (left; reflexivity).
  rewrite (oconcat_ext (subtree_f F st') (subtree_f F st)); [rewrite E; reflexivity|].
  intros c Hc. destruct (oconcat_some _ _ _ _ E Hc) as [rc Hrc]. rewrite Hrc. apply IH; [exact Hrc|].
  intros x Hx. apply Hag. right. eapply oconcat_in_rev; eauto.
Qed.

(* ------------------------------------------------------------------ the registry walks *)
Lemma adel_strict_some : forall k (m m' : registry), adel_strict path_eqb k m = Some m' -> m' = rdel k m.
Proof. intros k m m' H. unfold adel_strict in H. destruct (aget path_eqb k m); inversion H. reflexivity. Qed.

Lemma del_walk_spec : forall s T m m', del_walk s T m = Some m' ->
    forall k x, rget k m' = Some x <-> (rget k m = Some x /\ forall y, In y T -> fullpath s y <> Some k).
Proof.
  intros s. induction T as [|x0 t IH]; cbn; intros m m' H k x.
  - inversion H; subst. split; [intros; split; [assumption | intros y []] | intros [H1 _]; exact H1].
  - destruct (fullpath s x0) as [k0|] eqn:E0; [|discriminate].
    destruct (adel_strict path_eqb k0 m) as [m1|] eqn:E1; [|discriminate].
    apply adel_strict_some in E1. subst m1. rewrite (IH _ _ H k x). split.
    + intros [H1 H2]. destruct (path_eq_dec k0 k) as [->|Hne].
      * unfold rget, rdel in H1. rewrite rget_rdel_eq in H1. discriminate.
      * unfold rget, rdel in H1. rewrite (rget_rdel_ne _ _ _ Hne) in H1. split; [exact H1|].
        intros y [<-|Hy]; [rewrite E0; congruence | apply H2; exact Hy].
    + intros [H1 H2]. assert (Hne : k0 <> k) by (intros ->; apply (H2 x0); [left; reflexivity | exact E0]).
      split; [unfold rget, rdel; rewrite (rget_rdel_ne _ _ _ Hne); exact H1 | intros y Hy; apply H2; right; exact Hy].
Qed.
Lemma del_walk_nodup : forall s T m m', del_walk s T m = Some m' -> NoDup (map fst m) -> NoDup (map fst m').
Proof.
  intros s. induction T as [|x0 t IH]; cbn; intros m m' H Hnd; [inversion H; subst; exact Hnd|].
  destruct (fullpath s x0) as [k0|]; [|discriminate].
  destruct (adel_strict path_eqb k0 m) as [m1|] eqn:E1; [|discriminate].
  apply adel_strict_some in E1. subst m1. apply (IH _ _ H). apply nodup_adel. exact Hnd.
Qed.

Lemma set_walk_sound : forall s T m m', set_walk s T m = Some m' ->
    forall k x, rget k m' = Some x -> (In x T /\ fullpath s x = Some k) \/ rget k m = Some x.
Proof.
  intros s. induction T as [|x0 t IH]; cbn; intros m m' H k x Hk; [inversion H; subst; right; exact Hk|].
  destruct (fullpath s x0) as [k0|] eqn:E0; [|discriminate].
  destruct (IH _ _ H k x Hk) as [[H1 H2]|H1]; [left; auto|].
  destruct (path_eq_dec k0 k) as [->|Hne].
  - unfold rget, rset in H1. rewrite rget_rset_eq in H1. inversion H1; subst. left. auto.
  - unfold rget, rset in H1. rewrite (rget_rset_ne _ _ _ _ Hne) in H1. right. exact H1.
Qed.
Lemma set_walk_other : forall s T m m', set_walk s T m = Some m' ->
    forall k, (forall y, In y T -> fullpath s y <> Some k) -> rget k m' = rget k m.
Proof.
  intros s. induction T as [|x0 t IH]; cbn; intros m m' H k Hk; [inversion H; reflexivity|].
  destruct (fullpath s x0) as [k0|] eqn:E0; [|discriminate].
  rewrite (IH _ _ H k) by (intros y Hy; apply Hk; right; exact Hy).
  assert (Hne : k0 <> k) by (intros ->; apply (Hk x0); [left; reflexivity | exact E0]).
  unfold rget, rset. apply rget_rset_ne. exact Hne.
Qed.
Lemma set_walk_in : forall s T m m', set_walk s T m = Some m' ->
    forall k x, (forall y, In y T -> fullpath s y = Some k -> y = x) ->
                ((In x T /\ fullpath s x = Some k) \/ rget k m = Some x) -> rget k m' = Some x.
Proof.
  intros s. induction T as [|x0 t IH]; cbn; intros m m' H k x Hu Hx.
  - inversion H; subst. destruct Hx as [[[] _]|Hx]. exact Hx.
  - destruct (fullpath s x0) as [k0|] eqn:E0; [|discriminate].
    apply (IH _ _ H k x); [intros y Hy; apply Hu; right; exact Hy|].
    destruct Hx as [[[->|Hin] Hfx]|Hx].
    + right. rewrite E0 in Hfx. inversion Hfx; subst. apply rget_rset_eq.
    + left. auto.
    + right. destruct (path_eq_dec k0 k) as [->|Hne].
      * rewrite (Hu x0 (or_introl eq_refl) E0). apply rget_rset_eq.
      * unfold rget, rset. rewrite (rget_rset_ne _ _ _ _ Hne). exact Hx.
Qed.
Lemma set_walk_fullpath : forall s T m m', set_walk s T m = Some m' -> forall x, In x T -> exists k, fullpath s x = Some k.
Proof.
  intros s. induction T as [|x0 t IH]; cbn; intros m m' H x Hx; [destruct Hx|].
  destruct (fullpath s x0) as [k0|] eqn:E0; [|discriminate].
  destruct Hx as [<-|Hx]; [eauto | eapply IH; eauto].
Qed.
Lemma set_walk_nodup : forall s T m m', set_walk s T m = Some m' -> NoDup (map fst m) -> NoDup (map fst m').
Proof.
  intros s. induction T as [|x0 t IH]; cbn; intros m m' H Hnd; [inversion H; subst; exact Hnd|].
  destruct (fullpath s x0) as [k0|]; [|discriminate].
  apply (IH _ _ H). apply nodup_aset; [exact path_eqb_eq | exact Hnd].
Qed.

Lemma find_free_spec : forall F used i j, find_free F used i = Some j -> used j = false.
Proof.
  induction F as [|F IH]; cbn; intros used i j H; [discriminate|].
  destruct (used i) eqn:E; [eapply IH; exact H | inversion H; subst; exact E].
Qed.

Lemma fullpath_f_tight : forall F st o p, fullpath_f F st o = Some p -> fullpath_f (length p) st o = Some p.
Proof.
  induction F as [|F IH]; intros st o p H; [discriminate|]. cbn in H.
  destruct (oparent (st o)) as [q|] eqn:Eq.
  - destruct (fullpath_f F st q) as [pq|] eqn:E; [|discriminate]. inversion H; subst.
    rewrite app_length. cbn [length]. replace (length pq + 1)%nat with (S (length pq)) by lia.
    apply (fullpath_f_child_intro _ st o q); [exact Eq | apply (IH _ _ _ E)].
  - inversion H; subst. cbn. rewrite Eq. reflexivity.
Qed.

Lemma dup_key_snoc : forall pq n i, dup_key (pq ++ [n]) i = pq ++ [dup_name n i].
Proof. intros. unfold dup_key. rewrite removelast_last, last_last. reflexivity. Qed.
Lemma dup_name_neq : forall n i, dup_name n i <> n.
Proof.
  intros [b l] i H. unfold dup_name in H. cbn in H. inversion H as [H1].
  apply (f_equal (@length N)) in H1. rewrite app_length in H1. cbn in H1. lia.
Qed.

Lemma anc_inv : forall st a x, anc st a x -> a = x \/ exists q, oparent (st x) = Some q /\ anc st a q.
Proof. intros st a x H. destruct H as [|x q Hq Ha]; [left; reflexivity | right; eauto]. Qed.

(* more about dicts, walks and fuel, used by the reparent proof *)
Lemma in_adel_inv {K V} (eqb : K -> K -> bool) (eqb_eq : forall a b, eqb a b = true <-> a = b) :
  forall k (l : list (K * V)) k' v', In (k', v') (adel eqb k l) -> k' <> k /\ In (k', v') l.
Proof.
  intros k. induction l as [|[k2 v2] t IH]; cbn; intros k' v' H; [destruct H|].
  destruct (eqb k2 k) eqn:E.
  - destruct (IH _ _ H) as [H1 H2]. split; [exact H1 | right; exact H2].
  - destruct H as [H|H].
    + inversion H; subst. split; [|left; reflexivity]. intros ->. rewrite (proj2 (eqb_eq k k) eq_refl) in E. discriminate.
    + destruct (IH _ _ H) as [H1 H2]. split; [exact H1 | right; exact H2].
Qed.
Definition cget_cdel_ne := @aget_adel_ne name id name_eqb name_eqb_eq.

Lemma oconcat_mono {X Y} (f g : X -> option (list Y)) : forall l r,
    (forall x rx, In x l -> f x = Some rx -> g x = Some rx) -> oconcat f l = Some r -> oconcat g l = Some r.
Proof.
  induction l as [|x t IH]; cbn; intros r H Hr; [exact Hr|].
  destruct (f x) as [a|] eqn:E; [|discriminate]. destruct (oconcat f t) as [b|] eqn:E2; [|discriminate].
  rewrite (H x a (or_introl eq_refl) E). rewrite (IH b); [exact Hr | | reflexivity].
  intros y ry Hy. apply H. right. exact Hy.
Qed.
Lemma subtree_f_mono : forall F st a T, subtree_f F st a = Some T -> forall F', (F <= F')%nat -> subtree_f F' st a = Some T.
Proof.
  induction F as [|F IH]; intros st a T H F' Hle; [discriminate|].
  destruct F' as [|F']; [lia|]. cbn in *.
  destruct (oconcat (subtree_f F st) (map snd (ocont (st a)))) as [l|] eqn:E; [|discriminate].
  rewrite (oconcat_mono (subtree_f F st) (subtree_f F' st) _ l); [exact H | | exact E].
  intros x rx _ Hx. apply (IH _ _ _ Hx). lia.
Qed.

(* list.remove on a duplicate-free list *)
Lemma remove1_absent : forall x l, ~ In x l -> remove1 x l = l.
Proof.
  intros x. induction l as [|y t IH]; cbn; intros H; [reflexivity|].
  destruct (N.eqb y x) eqn:E; [apply N.eqb_eq in E; subst; exfalso; apply H; left; reflexivity|].
  rewrite IH; [reflexivity | intros Hin; apply H; right; exact Hin].
Qed.
Lemma in_remove1 : forall x l r, In r (remove1 x l) -> In r l.
Proof.
  intros x. induction l as [|y t IH]; cbn; intros r H; [exact H|].
  destruct (N.eqb y x); [right; exact H | destruct H as [H|H]; [left; exact H | right; apply IH; exact H]].
Qed.
Lemma in_remove1_nodup : forall x l r, NoDup l -> (In r (remove1 x l) <-> In r l /\ r <> x).
Proof.
  intros x. induction l as [|y t IH]; cbn; intros r Hnd; [tauto|].
  inversion Hnd as [|? ? Hy Hnd']; subst. destruct (N.eqb y x) eqn:E.
  - apply N.eqb_eq in E. subst y. split.
    + intros H. split; [right; exact H | intros ->; contradiction].
    + intros [[H|H] Hne]; [congruence | exact H].
  - apply N.eqb_neq in E. cbn. rewrite (IH r Hnd'). split.
    + intros [H|[H1 H2]]; [subst; auto | auto].
    + intros [[H|H] Hne]; [left; exact H | right; auto].
Qed.
Lemma nodup_remove1 : forall x l, NoDup l -> NoDup (remove1 x l).
Proof.
  intros x. induction l as [|y t IH]; cbn; intros Hnd; [constructor|].
  inversion Hnd as [|? ? Hy Hnd']; subst. destruct (N.eqb y x); [exact Hnd'|].
  constructor; [intros H; apply Hy; eapply in_remove1; exact H | apply IH; exact Hnd'].
Qed.
