(* Proofs/RegistryBase.v -- lemmas about the building blocks of Model/Registry.v:
   equality tests, insertion-ordered dicts, fullpath (walk up), subtree (walk down), the registry walks. *)
From Coq Require Import ZArith NArith List Bool Lia.
From PydoctorVerif Require Import Base.Sexp Model.Registry.
Import ListNotations.
Local Open Scope N_scope.

(* ------------------------------------------------------------------ equality tests *)
Lemma list_eqb_eq {X} (e : X -> X -> bool) :
  (forall a b, e a b = true <-> a = b) -> forall l1 l2, list_eqb e l1 l2 = true <-> l1 = l2.
Proof.
  intros He. induction l1 as [|x l1 IH]; destruct l2 as [|y l2]; cbn; split; intros H;
    try reflexivity; try discriminate.
  - apply andb_true_iff in H. destruct H as [H1 H2]. apply He in H1. apply IH in H2. congruence.
  - inversion H; subst. apply andb_true_iff. split; [apply He; reflexivity | apply IH; reflexivity].
Qed.

Lemma name_eqb_eq : forall a b : name, name_eqb a b = true <-> a = b.
Proof.
  intros [a1 a2] [b1 b2]. unfold name_eqb. cbn [fst snd]. rewrite andb_true_iff, N.eqb_eq.
  rewrite (list_eqb_eq N.eqb N.eqb_eq). split; [intros [-> ->]; reflexivity | intros H; inversion H; auto].
Qed.
Lemma path_eqb_eq : forall a b : path, path_eqb a b = true <-> a = b.
Proof. apply list_eqb_eq. exact name_eqb_eq. Qed.
Lemma path_eqb_refl : forall a, path_eqb a a = true.
Proof. intros. apply path_eqb_eq. reflexivity. Qed.
Lemma name_eqb_refl : forall a, name_eqb a a = true.
Proof. intros. apply name_eqb_eq. reflexivity. Qed.
Lemma path_eqb_neq : forall a b : path, a <> b -> path_eqb a b = false.
Proof. intros a b H. destruct (path_eqb a b) eqn:E; [apply path_eqb_eq in E; contradiction | reflexivity]. Qed.
Lemma name_eqb_neq : forall a b : name, a <> b -> name_eqb a b = false.
Proof. intros a b H. destruct (name_eqb a b) eqn:E; [apply name_eqb_eq in E; contradiction | reflexivity]. Qed.
Lemma path_eq_dec : forall a b : path, {a = b} + {a <> b}.
Proof. intros a b. destruct (path_eqb a b) eqn:E; [left; apply path_eqb_eq; exact E | right; intros H; apply path_eqb_eq in H; congruence]. Qed.
Lemma name_eq_dec : forall a b : name, {a = b} + {a <> b}.
Proof. intros a b. destruct (name_eqb a b) eqn:E; [left; apply name_eqb_eq; exact E | right; intros H; apply name_eqb_eq in H; congruence]. Qed.

Lemma NoDup_snoc {X} : forall (l : list X) x, NoDup l -> ~ In x l -> NoDup (l ++ [x]).
Proof.
  induction l as [|y l IH]; cbn; intros x Hnd Hn.
  - constructor; [tauto | constructor].
  - inversion Hnd as [|? ? Hy Hnd']; subst. constructor.
    + rewrite in_app_iff. cbn. intros [H|[H|[]]]; [contradiction | subst; apply Hn; left; reflexivity].
    + apply IH; [exact Hnd' | intros H; apply Hn; right; exact H].
Qed.

(* ------------------------------------------------------------------ dicts *)
Section AssocLemmas.
  Context {K V : Type}.
  Variable eqb : K -> K -> bool.
  Hypothesis eqb_eq : forall a b, eqb a b = true <-> a = b.

  Lemma eqb_refl' : forall a, eqb a a = true.
  Proof. intros. apply eqb_eq. reflexivity. Qed.
  Lemma eqb_neq' : forall a b, a <> b -> eqb a b = false.
  Proof. intros a b H. destruct (eqb a b) eqn:E; [apply eqb_eq in E; contradiction | reflexivity]. Qed.

  Lemma aget_aset_eq : forall k (v : V) l, aget eqb k (aset eqb k v l) = Some v.
  Proof.
    intros k v. induction l as [|[k' v'] t IH]; cbn.
    - rewrite eqb_refl'. reflexivity.
    - destruct (eqb k' k) eqn:E; cbn; [rewrite eqb_refl'; reflexivity | rewrite E; exact IH].
  Qed.
  Lemma aget_aset_ne : forall k k' (v : V) l, k <> k' -> aget eqb k' (aset eqb k v l) = aget eqb k' l.
  Proof.
    intros k k' v l Hne. induction l as [|[k2 v2] t IH]; cbn.
    - rewrite (eqb_neq' _ _ Hne). reflexivity.
    - destruct (eqb k2 k) eqn:E; cbn.
      + apply eqb_eq in E. subst k2. rewrite (eqb_neq' _ _ Hne). reflexivity.
      + destruct (eqb k2 k'); [reflexivity | exact IH].
  Qed.
  Lemma aget_adel_eq : forall k (l : list (K * V)), aget eqb k (adel eqb k l) = None.
  Proof.
    intros k. induction l as [|[k2 v2] t IH]; cbn; [reflexivity|].
    destruct (eqb k2 k) eqn:E; cbn; [exact IH | rewrite E; exact IH].
  Qed.
  Lemma aget_adel_ne : forall k k' (l : list (K * V)), k <> k' -> aget eqb k' (adel eqb k l) = aget eqb k' l.
  Proof.
    intros k k' l Hne. induction l as [|[k2 v2] t IH]; cbn; [reflexivity|].
    destruct (eqb k2 k) eqn:E; cbn.
    - apply eqb_eq in E. subst k2. rewrite (eqb_neq' _ _ Hne). exact IH.
    - destruct (eqb k2 k'); [reflexivity | exact IH].
  Qed.
  Lemma aget_app_new : forall k k' (v : V) l,
      aget eqb k l = None -> aget eqb k' (l ++ [(k, v)]) = if eqb k k' then Some v else aget eqb k' l.
  Proof.
    intros k k' v l. induction l as [|[k2 v2] t IH]; cbn; intros H; [reflexivity|].
    destruct (eqb k2 k) eqn:E; [discriminate|].
    destruct (eqb k2 k') eqn:E2.
    - destruct (eqb k k') eqn:E3; [|reflexivity].
      apply eqb_eq in E2. apply eqb_eq in E3. subst. rewrite eqb_refl' in E. discriminate.
    - apply IH. exact H.
  Qed.
  Lemma aget_in : forall k (v : V) l, aget eqb k l = Some v -> In (k, v) l.
  Proof.
    intros k v. induction l as [|[k2 v2] t IH]; cbn; intros H; [discriminate|].
    destruct (eqb k2 k) eqn:E; [apply eqb_eq in E; inversion H; subst; left; reflexivity | right; apply IH; exact H].
  Qed.
  Lemma aget_none_notin : forall k (l : list (K * V)), aget eqb k l = None -> ~ In k (map fst l).
  Proof.
    intros k. induction l as [|[k2 v2] t IH]; cbn; intros H; [tauto|].
    destruct (eqb k2 k) eqn:E; [discriminate|]. intros [H1|H1].
    - subst. rewrite eqb_refl' in E. discriminate.
    - apply IH; assumption.
  Qed.
  Lemma in_aget : forall k (v : V) l, NoDup (map fst l) -> In (k, v) l -> aget eqb k l = Some v.
  Proof.
    intros k v. induction l as [|[k2 v2] t IH]; cbn; intros Hnd H; [tauto|].
    inversion Hnd as [|? ? Hn Hnd']; subst. destruct H as [H|H].
    - inversion H; subst. rewrite eqb_refl'. reflexivity.
    - destruct (eqb k2 k) eqn:E.
      + apply eqb_eq in E. subst. exfalso. apply Hn. apply (in_map fst) in H. exact H.
      + apply IH; assumption.
  Qed.
  Lemma in_keys_aset : forall k (v : V) l x, In x (map fst (aset eqb k v l)) -> x = k \/ In x (map fst l).
  Proof.
    intros k v. induction l as [|[k2 v2] t IH]; cbn; intros x H.
    - destruct H as [H|[]]. left. auto.
    - destruct (eqb k2 k) eqn:E; cbn in H.
      + destruct H as [H|H]; [left; auto | right; right; exact H].
      + destruct H as [H|H]; [right; left; exact H|]. destruct (IH _ H); [left|right; right]; assumption.
  Qed.
  Lemma nodup_aset : forall k (v : V) l, NoDup (map fst l) -> NoDup (map fst (aset eqb k v l)).
  Proof.
    intros k v. induction l as [|[k2 v2] t IH]; cbn; intros Hnd.
    - constructor; [tauto | constructor].
    - inversion Hnd as [|? ? Hn Hnd']; subst. destruct (eqb k2 k) eqn:E; cbn.
      + apply eqb_eq in E. subst. constructor; assumption.
      + constructor; [|apply IH; exact Hnd'].
        intros H. apply in_keys_aset in H. destruct H as [H|H]; [subst; rewrite eqb_refl' in E; discriminate | contradiction].
  Qed.
  Lemma in_adel : forall k (l : list (K * V)) x, In x (adel eqb k l) -> In x l.
  Proof.
    intros k. induction l as [|[k2 v2] t IH]; cbn; intros x H; [tauto|].
    destruct (eqb k2 k); [right; apply IH; exact H|]. destruct H as [H|H]; [left; exact H | right; apply IH; exact H].
  Qed.
  Lemma nodup_adel : forall k (l : list (K * V)), NoDup (map fst l) -> NoDup (map fst (adel eqb k l)).
  Proof.
    intros k. induction l as [|[k2 v2] t IH]; cbn; intros Hnd; [constructor|].
    inversion Hnd as [|? ? Hn Hnd']; subst. destruct (eqb k2 k); [apply IH; exact Hnd'|].
    cbn. constructor; [|apply IH; exact Hnd'].
    intros H. apply Hn. apply in_map_iff in H. destruct H as [[a b] [H1 H2]]. cbn in H1. subst.
    apply in_adel in H2. apply (in_map fst) in H2. exact H2.
  Qed.
  Lemma nodup_app_new : forall k (v : V) l, NoDup (map fst l) -> aget eqb k l = None -> NoDup (map fst (l ++ [(k, v)])).
  Proof.
    intros k v l Hnd Hn. rewrite map_app. cbn. apply NoDup_snoc.
    - exact Hnd.
    - apply aget_none_notin. exact Hn.
  Qed.
  (* with unique keys, d[k] = v keeps every other binding *)
  Lemma in_aset_inv : forall k (v : V) l k' v', NoDup (map fst l) ->
      In (k', v') (aset eqb k v l) -> (k' = k /\ v' = v) \/ (k' <> k /\ In (k', v') l).
  Proof.
    intros k v l k' v' Hnd H.
    assert (Hnd' := nodup_aset k v l Hnd).
    apply (in_aget _ _ _ Hnd') in H.
    destruct (eqb k k') eqn:E.
    - apply eqb_eq in E. subst k'. rewrite aget_aset_eq in H. inversion H. left. auto.
    - assert (k <> k') by (intros ->; rewrite eqb_refl' in E; discriminate).
      rewrite aget_aset_ne in H by assumption. right. split; [congruence | apply aget_in; exact H].
  Qed.
End AssocLemmas.
