(* Proofs/SigIRProofs.v -- the interpretation of the code translated from the CURRENT pydoctor/astbuilder.py
   (Gen/SigCode.v: _annotations_from_function and the parameter-building part of _handleFunctionDef) is the
   hand-written Model/Sig.v, for every definition the parser can produce.

   The proofs are symbolic execution, written against the MEANING of the generated code and not its shape:
   `run` steps the producers at top level (by computation, the bodies of the loops kept folded), evaluates expressions by computation, fuses
   the loops into flat_map over the lists of the ast.arguments record; `segs` then compares segment by segment
   with the model, each loop body being run on one generic element.  The same script proves the code as it is
   written today, with generators or with closures that append. *)
From Coq Require Import ZArith NArith List Bool Lia.
From PydoctorVerif Require Import Base.Sexp Spec.SigStr Model.Sig Model.SigIR Gen.SigCode Proofs.SigProofs.
Import ListNotations.
Local Open Scope Z_scope.
Unset Lia Cache.   (* the cache file in coq/ is shared by concurrent builds *)

Lemma flat_map_map {A B C} (f : B -> list C) (g : A -> B) l : flat_map f (map g l) = flat_map (fun x => f (g x)) l.
Proof. induction l; cbn; congruence. Qed.
Lemma flat_map_flat_map {A B C} (f : B -> list C) (g : A -> list B) l :
  flat_map f (flat_map g l) = flat_map (fun x => flat_map f (g x)) l.
Proof. induction l; cbn; [reflexivity|]. rewrite flat_map_app. congruence. Qed.
Lemma flat_map_cons {A B} (f : A -> list B) x l : flat_map f (x :: l) = f x ++ flat_map f l.
Proof. reflexivity. Qed.
Lemma flat_map_nil {A B} (f : A -> list B) : flat_map f [] = [].
Proof. reflexivity. Qed.

(* enumerate(l, start), as pairs *)
Fixpoint zenum {A} (s : Z) (l : list A) : list (Z * A) :=
  match l with [] => [] | x :: r => (s, x) :: zenum (s + 1) r end.

(* evaluation at top level: everything computes except the loop bodies (named sig_body_k in Gen/SigCode.v), which
   stay folded under their `fun v =>` until the loop has been fused with the list it runs over *)
Ltac ev := cbv -[produce2 produce1 produce0 sig_body_1 sig_body_2 sig_body_3 sig_body_4 sig_body_5 sig_body_6 sig_body_7 sig_body_8
                 sig_body_9 sig_body_10 sig_body_11 sig_body_12 sig_body_13 sig_body_14 sig_body_15 sig_body_16
                 bind_tuple aligned_defaults zenum combine flat_map map app Nat.add Nat.sub length nth Z.add Z.sub Z.ltb Z.leb Z.eqb Z.opp Z.of_nat Z.to_nat
                 unstring_annotation dict_set dict_get fst snd enumerate_from zip_values dict_of_pairs index_value].
Ltac fuse := repeat (progress (rewrite ?flat_map_app, ?flat_map_map, ?flat_map_flat_map, ?flat_map_cons, ?flat_map_nil,
                                       ?app_nil_r, <- ?app_assoc; cbv beta)).
Ltac run := ev; fuse.
Ltac evfull := cbv -[aligned_defaults zenum combine map Nat.add Nat.sub length nth Z.add Z.sub Z.ltb Z.leb Z.eqb Z.opp Z.of_nat Z.to_nat
                     unstring_annotation dict_set dict_get fst snd enumerate_from zip_values index_value].

Lemma seg_flat_map {A B} (F : A -> list B) (G : A -> B) l R R' :
  (forall x, F x = [G x]) -> R = R' -> flat_map F l ++ R = map G l ++ R'.
Proof. intros H ->. f_equal. induction l; cbn; [reflexivity|]. rewrite H, IHl. reflexivity. Qed.
Lemma seg_flat_map_last {A B} (F : A -> list B) (G : A -> B) l :
  (forall x, F x = [G x]) -> flat_map F l = map G l.
Proof. intros H. induction l; cbn; [reflexivity|]. rewrite H, IHl. reflexivity. Qed.

Lemma seg_one {B} (X : list B) y R R' : X = [y] -> R = R' -> X ++ R = y :: R'.
Proof. intros -> ->. reflexivity. Qed.

Definition pair_value (x : ast_arg) : value := VTuple [VStr (a_name x); of_opt_expr (shown_annot (a_annot x))].
Definition pairs_of (d : funcdef) : list value :=
  map pair_value (all_args (fd_args d))
  ++ match fd_returns d with Some r => [VTuple [VStr return_key; VExprV (fst (unstring_annotation r))]] | None => [] end.

Ltac opts := repeat match goal with
   | |- context [let (_, _) := ?r in _] => is_var r; destruct r
   end; repeat match goal with
   | |- context [dict_get ?k ?d] => destruct (dict_get k d)
   | |- context [match ?o with Some _ => _ | None => _ end] => is_var o; destruct o
   end.
Ltac fin := evfull; cbn [fst snd]; opts; evfull; reflexivity.
Ltac pointwise := let x := fresh "x" in intros x; destruct x as [? [?|]]; evfull; reflexivity.
Ltac segs :=
  repeat (progress (repeat rewrite <- app_assoc; cbn [app]));
  repeat first
    [ reflexivity
    | apply seg_flat_map; [pointwise|]
    | apply seg_flat_map_last; pointwise
    | apply seg_one; [fin|]
    | apply f_equal2; [fin|]
    | fin ].

(* ---- _annotations_from_function ---------------------------------------------------------------------- *)
Lemma code_annotations_pairs d :
  produce no_annotations (c_annotations sig_code) (set env0 (c_annotations_func sig_code) (VDef d)) = pairs_of d.
Proof.
  destruct d as [[po ar va ko kd kw df] ret ov asy].
  unfold sig_code, code_annotations, pairs_of, all_args.
  cbn [c_annotations c_annotations_func fd_args fd_returns posonlyargs args vararg kwonlyargs kwarg].
  destruct va as [va|], kw as [kw|], ret as [ret|]; cbn [opt_list]; rewrite ?map_app; cbn [map app]; rewrite ?app_nil_r.
  all: run; segs.
Qed.

Lemma to_of_opt_expr o : to_opt_expr (of_opt_expr o) = Some o.
Proof. destruct o; reflexivity. Qed.

Lemma dict_of_pairs_map l : forall R d,
  dict_of_pairs (map pair_value l ++ R) d =
  dict_of_pairs R (fold_left dstep (map (fun x => (a_name x, a_annot x)) l) d).
Proof.
  induction l as [|x l IH]; intros R d; cbn [map app fold_left]; [reflexivity|].
  unfold pair_value at 1. cbn [dict_of_pairs]. rewrite to_of_opt_expr. rewrite IH. reflexivity.
Qed.

Theorem code_annotations_is_model d :
  annotations_ir sig_code (VDef d) = VDict (fst (annotations_from_function (fd_args d) (fd_returns d))).
Proof.
  unfold annotations_ir. rewrite code_annotations_pairs. unfold pairs_of.
  rewrite dict_of_pairs_map. unfold annotations_from_function. rewrite build_annotations_fst.
  unfold all_ast_annotations. rewrite fold_left_app.
  destruct (fd_returns d) as [r|]; reflexivity.
Qed.

(* ---- the parameters built by _handleFunctionDef --------------------------------------------------------- *)
Lemma enumerate_map {A} (g : A -> value) l : forall s,
  enumerate_from s (map g l) = map (fun p => VTuple [VInt (fst p); g (snd p)]) (zenum s l).
Proof. induction l as [|x l IH]; intros s; cbn; [reflexivity|]. rewrite IH. reflexivity. Qed.

Lemma enumerate_app l1 : forall l2 s,
  enumerate_from s (l1 ++ l2) = enumerate_from s l1 ++ enumerate_from (s + Z.of_nat (length l1)) l2.
Proof.
  induction l1 as [|x l1 IH]; intros l2 s; cbn [app enumerate_from length].
  - rewrite Z.add_0_r. reflexivity.
  - rewrite IH. do 3 f_equal. lia.
Qed.

Lemma zip_map {A B} (g : A -> value) (h : B -> value) a : forall b,
  zip_values (map g a) (map h b) = map (fun p => VTuple [g (fst p); h (snd p)]) (combine a b).
Proof. induction a as [|x a IH]; intros [|y b]; cbn; try reflexivity. rewrite IH. reflexivity. Qed.

Lemma zenum_In {A} (l : list A) : forall s i x, In (i, x) (zenum s l) -> s <= i < s + Z.of_nat (length l).
Proof.
  induction l as [|y l IH]; intros s i x H; cbn in H; [contradiction|].
  cbn [length]. destruct H as [E | H].
  - injection E as <- <-. lia.
  - apply IH in H. lia.
Qed.

Lemma seg_flat_map_in {A B} (F : A -> list B) (G : A -> B) l R R' :
  (forall x, In x l -> F x = [G x]) -> R = R' -> flat_map F l ++ R = map G l ++ R'.
Proof.
  intros H ->. f_equal. induction l as [|x l IH]; cbn; [reflexivity|].
  rewrite H by (left; reflexivity). rewrite IH; [reflexivity|]. intros y Hy. apply H. right. exact Hy.
Qed.
Lemma seg_flat_map_in_last {A B} (F : A -> list B) (G : A -> B) l :
  (forall x, In x l -> F x = [G x]) -> flat_map F l = map G l.
Proof. intros H. rewrite <- (app_nil_r (flat_map F l)), <- (app_nil_r (map G l)). apply seg_flat_map_in; auto. Qed.

Lemma combine_firstn {A B} (l : list A) : forall (X : list B), combine l (firstn (length l) X) = combine l X.
Proof. induction l as [|x l IH]; intros [|y X]; cbn; try reflexivity. rewrite IH. reflexivity. Qed.

Lemma combine_skipn_zenum {A B} (dflt : B) (l : list A) : forall (s : nat) (al : list B),
  (s + length l <= length al)%nat ->
  combine l (skipn s al) = map (fun p => (snd p, nth (Z.to_nat (fst p)) al dflt)) (zenum (Z.of_nat s) l).
Proof.
  induction l as [|x l IH]; intros s al H; cbn [combine zenum map length] in *; [reflexivity|].
  destruct (skipn s al) as [|y ys] eqn:Esk.
  - exfalso. apply (f_equal (@length _)) in Esk. rewrite skipn_length in Esk. cbn in Esk. lia.
  - cbn [fst snd]. rewrite Nat2Z.id.
    assert (Hy : nth s al dflt = y).
    { rewrite <- (firstn_skipn s al) at 1. rewrite app_nth2 by (rewrite firstn_length; lia).
      rewrite firstn_length, Nat.min_l by lia. rewrite Nat.sub_diag, Esk. reflexivity. }
    assert (Hys : skipn (S s) al = ys) by (rewrite skipn_S_tl, Esk; reflexivity).
    rewrite Hy. f_equal. rewrite <- Hys. rewrite IH by lia. do 2 f_equal. lia.
Qed.

Definition pos_param (ann : dict) (n : nat) (df : list SigStr.expr) (k : kind) (p : Z * ast_arg) : value :=
  VParam (add_arg ann (a_name (snd p)) k (nth (Z.to_nat (fst p)) (aligned_defaults n df) None)).
Definition kw_param (ann : dict) (p : ast_arg * option SigStr.expr) : value :=
  VParam (add_arg ann (a_name (fst p)) KEYWORD_ONLY (snd p)).

Lemma expected_segments ann a :
  wf_args a ->
  map VParam (expected_params ann a) =
  map (pos_param ann (length (posonlyargs a) + length (args a)) (defaults a) POSITIONAL_ONLY) (zenum 0 (posonlyargs a))
  ++ map (pos_param ann (length (posonlyargs a) + length (args a)) (defaults a) POSITIONAL_OR_KEYWORD)
         (zenum (Z.of_nat (length (posonlyargs a))) (args a))
  ++ map VParam (var_param ann VAR_POSITIONAL (vararg a))
  ++ map (kw_param ann) (combine (kwonlyargs a) (kw_defaults a))
  ++ map VParam (var_param ann VAR_KEYWORD (kwarg a)).
Proof.
  intros [Hd Hk]. unfold expected_params.
  set (n := (length (posonlyargs a) + length (args a))%nat).
  assert (Hal : length (aligned_defaults n (defaults a)) = n) by (apply aligned_length; exact Hd).
  rewrite !map_app, !map_map. apply f_equal2; [|apply f_equal2; [|reflexivity]].
  - rewrite combine_firstn.
    change (aligned_defaults n (defaults a)) with (skipn 0 (aligned_defaults n (defaults a))) at 1.
    rewrite (combine_skipn_zenum None) by (rewrite Hal; unfold n; lia).
    rewrite map_map. reflexivity.
  - rewrite (combine_skipn_zenum None) by (rewrite Hal; unfold n; lia).
    rewrite map_map. reflexivity.
Qed.

Lemma aligned_nth_none n df i : (i < n - length df)%nat -> nth i (aligned_defaults n df) None = None.
Proof. intros H. unfold aligned_defaults. rewrite app_nth1 by (rewrite repeat_length; lia). apply nth_repeat. Qed.

Lemma aligned_nth_some n df i x :
  (n - length df <= i)%nat -> nth_error df (i - (n - length df)) = Some x ->
  nth i (aligned_defaults n df) None = Some x.
Proof.
  intros H E. unfold aligned_defaults. rewrite app_nth2 by (rewrite repeat_length; lia). rewrite repeat_length.
  erewrite nth_error_nth; [reflexivity|]. rewrite nth_error_map, E. reflexivity.
Qed.

Lemma index_value_map {A} (g : A -> value) l z :
  0 <= z < Z.of_nat (length l) ->
  exists x, nth_error l (Z.to_nat z) = Some x /\ index_value (map g l) z = g x.
Proof.
  intros H. destruct (nth_error l (Z.to_nat z)) as [x|] eqn:E.
  - exists x. split; [reflexivity|]. unfold index_value. rewrite map_length.
    replace ((0 <=? z) && (z <? Z.of_nat (length l))) with true
      by (symmetry; apply andb_true_iff; split; [apply Z.leb_le | apply Z.ltb_lt]; lia).
    erewrite nth_error_nth; [reflexivity|]. rewrite nth_error_map, E. reflexivity.
  - apply nth_error_None in E. lia.
Qed.

(* ---- pointwise execution of a loop body, and the comparison segment by segment ---- *)
Ltac lens := rewrite ?app_length, ?map_length, ?Nat2Z.inj_add.
Ltac bools := repeat match goal with
  | |- context [?a <=? ?b] => let E := fresh "E" in destruct (a <=? b) eqn:E; [apply Z.leb_le in E | apply Z.leb_gt in E]; try lia
  | |- context [?a <? ?b] => let E := fresh "E" in destruct (a <? b) eqn:E; [apply Z.ltb_lt in E | apply Z.ltb_ge in E]; try lia
  end.
Ltac idx := match goal with |- context [index_value (map ?g ?l) ?z] =>
   let x := fresh "x" in let Ex := fresh "Ex" in let Ei := fresh "Ei" in
   destruct (index_value_map g l z) as (x & Ex & Ei); [lia|]; rewrite Ei end.
Ltac al_some := match goal with Ex : nth_error ?df _ = Some ?x |- _ =>
   rewrite (aligned_nth_some _ df _ x) by (first [lia | (rewrite <- Ex; f_equal; lia)]) end.
Ltac pw_pos :=
  let i := fresh "i" in let nm := fresh "nm" in let an := fresh "an" in let Hin := fresh "Hin" in
  intros [i [nm an]] Hin; apply zenum_In in Hin; evfull; cbn [fst snd]; lens;
  bools; evfull; cbn [fst snd]; lens;
  first [ rewrite aligned_nth_none by lia | idx; evfull; cbn [fst snd]; lens; al_some ];
  opts; evfull; reflexivity.
Ltac pw_kw :=
  let nm := fresh "nm" in let an := fresh "an" in let d := fresh "d" in
  intros [[nm an] d] _; evfull; cbn [fst snd]; opts; evfull; reflexivity.
Ltac one := evfull; cbn [fst snd]; opts; evfull; reflexivity.
Ltac segsB :=
  repeat (progress (repeat rewrite <- app_assoc; cbn [app]));
  repeat first
    [ reflexivity
    | apply seg_flat_map_in; [pw_pos|]
    | apply seg_flat_map_in_last; pw_pos
    | apply seg_flat_map_in; [pw_kw|]
    | apply seg_flat_map_in_last; pw_kw
    | apply seg_one; [one|]
    | apply f_equal2; [one|]
    | one ].


Theorem code_parameters_is_model d :
  wf_args (fd_args d) ->
  parameters_ir sig_code d =
  map VParam (expected_params (fst (annotations_from_function (fd_args d) (fd_returns d))) (fd_args d)).
Proof.
  intros Hwf. unfold parameters_ir. rewrite (expected_segments _ _ Hwf). destruct Hwf as [Hd Hk].
  pose proof (code_annotations_is_model d) as HA.
  remember (fst (annotations_from_function (fd_args d) (fd_returns d))) as ann eqn:Eann. clear Eann.
  remember (annotations_ir sig_code) as AF eqn:EAF. clear EAF.
  destruct d as [[po ar va ko kd kw df] ret ov asy].
  cbn [fd_args posonlyargs args vararg kwonlyargs kwarg kw_defaults defaults] in *.
  cbn [sig_code c_parameters c_parameters_node]. unfold code_parameters.
  destruct va as [va|], kw as [kw|]; cbn [var_param map].
  all: run; rewrite ?HA; run; lens; rewrite ?Hk, ?Z.eqb_refl; cbv iota;
       rewrite ?map_map; rewrite ?enumerate_app, ?enumerate_map, ?zip_map; lens; rewrite ?Z.add_0_l; fuse; segsB.
Qed.

(* what the model calls build_params, on the mapping the model computes *)
Corollary code_parameters_build_params d :
  wf_args (fd_args d) ->
  exists ps, build_params (fst (annotations_from_function (fd_args d) (fd_returns d))) (fd_args d) = Ok ps
             /\ parameters_ir sig_code d = map VParam ps.
Proof.
  intros Hwf. eexists. split; [apply build_params_expected; exact Hwf | apply code_parameters_is_model; exact Hwf].
Qed.
