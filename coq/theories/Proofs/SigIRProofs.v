(* Proofs/SigIRProofs.v -- the interpretation of the code translated from the CURRENT pydoctor/astbuilder.py
   (Gen/SigCode.v: _annotations_from_function and the parameter-building part of _handleFunctionDef) is the
   hand-written Model/Sig.v, for every definition the parser can produce.

   The proofs are symbolic execution, written against the MEANING of the generated code and not its shape:
   `run` steps the producers at top level (the produce_Q.. equations), evaluates expressions by computation, fuses
   the loops into flat_map over the lists of the ast.arguments record; `segs` then compares segment by segment
   with the model, each loop body being run on one generic element.  The same script proves the code as it is
   written today, with generators or with closures that append. *)
From Coq Require Import ZArith NArith List Bool Lia.
From PydoctorVerif Require Import Base.Sexp Spec.SigStr Model.Sig Model.SigIR Gen.SigCode Proofs.SigProofs.
Import ListNotations.
Local Open Scope Z_scope.

Lemma flat_map_map {A B C} (f : B -> list C) (g : A -> B) l : flat_map f (map g l) = flat_map (fun x => f (g x)) l.
Proof. induction l; cbn; congruence. Qed.
Lemma flat_map_flat_map {A B C} (f : B -> list C) (g : A -> list B) l :
  flat_map f (flat_map g l) = flat_map (fun x => flat_map f (g x)) l.
Proof. induction l; cbn; [reflexivity|]. rewrite flat_map_app. congruence. Qed.
Lemma flat_map_cons {A B} (f : A -> list B) x l : flat_map f (x :: l) = f x ++ flat_map f l.
Proof. reflexivity. Qed.
Lemma flat_map_nil {A B} (f : A -> list B) : flat_map f [] = [].
Proof. reflexivity. Qed.

Section Steps.
  Variable A : value -> value.
  Lemma produce_QNil e : produce A QNil e = []. Proof. reflexivity. Qed.
  Lemma produce_QEmit a r e : produce A (QEmit a r) e = eval A a e :: produce A r e. Proof. reflexivity. Qed.
  Lemma produce_QLet p a r e : produce A (QLet p a r) e = produce A r (bind p (eval A a e) e). Proof. reflexivity. Qed.
  Lemma produce_QFor_expr p x body r e :
    produce A (QFor p (SExpr x) body r) e =
    match as_list (eval A x e) with
    | Some vs => flat_map (fun v => produce A body (bind p v e)) vs ++ produce A r e
    | None => VErr :: produce A r e
    end. Proof. reflexivity. Qed.
  Lemma produce_QFor_gen p g body r e :
    produce A (QFor p (SGen g) body r) e =
    flat_map (fun v => produce A body (bind p v e)) (produce A g e) ++ produce A r e. Proof. reflexivity. Qed.
  Lemma produce_QIf c th el r e :
    produce A (QIf c th el r) e =
    match eval A c e with
    | VBool true => produce A th e ++ produce A r e
    | VBool false => produce A el e ++ produce A r e
    | _ => VErr :: produce A r e
    end. Proof. reflexivity. Qed.
  Lemma produce_QAssert c r e :
    produce A (QAssert c r) e = match eval A c e with VBool true => produce A r e | _ => VErr :: produce A r e end.
  Proof. reflexivity. Qed.
End Steps.

Lemma bind_PVar x v e : bind (PVar x) v e = set e x v. Proof. reflexivity. Qed.

Ltac ev := cbv -[produce bind flat_map map app length nth Z.add Z.sub Z.ltb Z.leb Z.eqb Z.opp Z.of_nat Z.to_nat
                 unstring_annotation dict_set dict_get fst snd enumerate_from zip_values dict_of_pairs index_value].
Ltac step := progress (rewrite ?bind_PVar, ?produce_QNil, ?produce_QEmit, ?produce_QLet, ?produce_QFor_expr, ?produce_QFor_gen,
                               ?produce_QIf, ?produce_QAssert).
Ltac fuse := repeat (progress (rewrite ?flat_map_app, ?flat_map_map, ?flat_map_flat_map, ?flat_map_cons, ?flat_map_nil,
                                       ?app_nil_r, <- ?app_assoc; cbv beta)).
Ltac run := repeat (progress (ev; repeat (step; ev); fuse)).
Ltac evfull := cbv -[length nth Z.add Z.sub Z.ltb Z.leb Z.eqb Z.opp Z.of_nat Z.to_nat
                     unstring_annotation dict_set dict_get fst snd enumerate_from zip_values index_value].

Lemma seg_flat_map {A B} (F : A -> list B) (G : A -> B) l R R' :
  (forall x, F x = [G x]) -> R = R' -> flat_map F l ++ R = map G l ++ R'.
Proof. intros H ->. f_equal. induction l; cbn; [reflexivity|]. rewrite H, IHl. reflexivity. Qed.
Lemma seg_flat_map_last {A B} (F : A -> list B) (G : A -> B) l :
  (forall x, F x = [G x]) -> flat_map F l = map G l.
Proof. intros H. induction l; cbn; [reflexivity|]. rewrite H, IHl. reflexivity. Qed.

Definition pair_value (x : ast_arg) : value := VTuple [VStr (a_name x); of_opt_expr (shown_annot (a_annot x))].
Definition pairs_of (d : funcdef) : list value :=
  map pair_value (all_args (fd_args d))
  ++ match fd_returns d with Some r => [VTuple [VStr return_key; VExprV (fst (unstring_annotation r))]] | None => [] end.

Ltac pointwise := let x := fresh "x" in intros x; destruct x as [? [?|]]; evfull; reflexivity.
Ltac segs :=
  repeat (progress (repeat rewrite <- app_assoc; cbn [app]));
  repeat first
    [ reflexivity
    | apply seg_flat_map; [pointwise|]
    | apply seg_flat_map_last; pointwise
    | apply f_equal2; [evfull; repeat match goal with
                                      | |- context [match ?o with Some _ => _ | None => _ end] => destruct o
                                      | |- context [let (_, _) := ?r in _] => destruct r
                                      end; evfull; reflexivity|] ].


(* ---- _annotations_from_function ---------------------------------------------------------------------- *)
Lemma code_annotations_pairs d :
  produce no_annotations (c_annotations sig_code) (set env0 (c_annotations_func sig_code) (VDef d)) = pairs_of d.
Proof.
  destruct d as [[po ar va ko kd kw df] ret ov asy].
  unfold sig_code, code_annotations, pairs_of, all_args.
  cbn [c_annotations c_annotations_func fd_args fd_returns posonlyargs args vararg kwonlyargs kwarg].
  destruct va as [va|], kw as [kw|], ret as [ret|]; cbn [opt_list]; rewrite ?map_app; cbn [map app]; rewrite ?app_nil_r.
  all: run; segs.
Qed.

Lemma to_of_opt_expr o : to_opt_expr (of_opt_expr o) = Some o.
Proof. destruct o; reflexivity. Qed.

Lemma dict_of_pairs_map l : forall R d,
  dict_of_pairs (map pair_value l ++ R) d =
  dict_of_pairs R (fold_left dstep (map (fun x => (a_name x, a_annot x)) l) d).
Proof.
  induction l as [|x l IH]; intros R d; cbn [map app fold_left]; [reflexivity|].
  unfold pair_value at 1. cbn [dict_of_pairs]. rewrite to_of_opt_expr. rewrite IH. reflexivity.
Qed.

Theorem code_annotations_is_model d :
  annotations_ir sig_code (VDef d) = VDict (fst (annotations_from_function (fd_args d) (fd_returns d))).
Proof.
  unfold annotations_ir. rewrite code_annotations_pairs. unfold pairs_of.
  rewrite dict_of_pairs_map. unfold annotations_from_function. rewrite build_annotations_fst.
  unfold all_ast_annotations. rewrite fold_left_app.
  destruct (fd_returns d) as [r|]; reflexivity.
Qed.
