(* Proofs/PyGrammarFuel.v -- the fuel of the spec reader is bounded by the tokens it consumes:
   if any call succeeds with some fuel, it succeeds with the same answer for every fuel >= c + 6 * (tokens consumed)
   (every chain of calls between two consumed tokens is at most 5 long).  Hence Spec.PyGrammar.read, which runs rd with
   fuel 8 * length + 8, answers whatever rd answers "with enough fuel". *)
From Coq Require Import ZArith NArith List Bool Lia Arith.
From PydoctorVerif Require Import Base.Sexp Base.PyExpr Spec.PyGrammar Proofs.PyGrammarProofs.
Import ListNotations.

Definition BD {A X : Type} (c : nat) (F : nat -> X -> list token -> option (A * list token)) (f : nat) : Prop :=
  forall a ts r rest, F f a ts = Some (r, rest) ->
    length rest <= length ts /\ forall g, c + 6 * (length ts - length rest) <= g -> F g a ts = Some (r, rest).

Definition Bound (f : nat) : Prop :=
  BD 4 (fun f m ts => rd f m ts) f /\
  BD 3 (fun f m ts => rd_prefix f m ts) f /\
  BD 2 (fun f (a : nat * expr) ts => climb f (fst a) (snd a) ts) f /\
  BD 5 (fun f b ts => rd_chain f b ts) f /\
  BD 2 (fun f (_ : unit) ts => rd_atom f ts) f /\
  BD 2 (fun f a ts => rd_trailers f a ts) f /\
  BD 5 (fun f sl ts => rd_star f sl ts) f /\
  BD 6 (fun f (a : bool * closer) ts => rd_elts f (fst a) (snd a) ts) f /\
  BD 5 (fun f (_ : unit) ts => rd_dict f ts) f /\
  BD 5 (fun f st ts => rd_args f st ts) f.

Ltac use_ih IH E :=
  let L := fresh "L" in let G := fresh "G" in
  apply IH in E; destruct E as [L G]; cbn [fst snd length] in L, G.

Ltac bound_go Brd Bpre Bcl Bch Bat Btr Bst Bel Bdi Bar :=
  repeat match goal with
         | H : match ?x with _ => _ end = Some _ |- _ =>
           lazymatch x with
           | rd ?f ?m ?t => let E := fresh "E" in destruct x as [[? ?]|] eqn:E; [use_ih (Brd m t) E|discriminate]
           | rd_prefix ?f ?m ?t => let E := fresh "E" in destruct x as [[? ?]|] eqn:E; [use_ih (Bpre m t) E|discriminate]
           | climb ?f ?m ?l ?t => let E := fresh "E" in destruct x as [[? ?]|] eqn:E; [use_ih (Bcl (m, l) t) E|discriminate]
           | rd_chain ?f ?b ?t => let E := fresh "E" in destruct x as [[? ?]|] eqn:E; [use_ih (Bch b t) E|discriminate]
           | rd_atom ?f ?t => let E := fresh "E" in destruct x as [[? ?]|] eqn:E; [use_ih (Bat tt t) E|discriminate]
           | rd_trailers ?f ?a ?t => let E := fresh "E" in destruct x as [[? ?]|] eqn:E; [use_ih (Btr a t) E|discriminate]
           | rd_star ?f ?b ?t => let E := fresh "E" in destruct x as [[? ?]|] eqn:E; [use_ih (Bst b t) E|discriminate]
           | rd_elts ?f ?b ?c ?t => let E := fresh "E" in destruct x as [[? ?]|] eqn:E; [use_ih (Bel (b, c) t) E|discriminate]
           | rd_dict ?f ?t => let E := fresh "E" in destruct x as [[? ?]|] eqn:E; [use_ih (Bdi tt t) E|discriminate]
           | rd_args ?f ?s ?t => let E := fresh "E" in destruct x as [[[? ?] ?]|] eqn:E; [use_ih (Bar s t) E|discriminate]
           | _ => destruct x eqn:?; try discriminate
           end
         end.

Ltac last_call Brd Bpre Bcl Bch Bat Btr Bst Bel Bdi Bar :=
  match goal with
  | H : rd ?f ?m ?t = Some _ |- _ => use_ih (Brd m t) H
  | H : rd_prefix ?f ?m ?t = Some _ |- _ => use_ih (Bpre m t) H
  | H : climb ?f ?m ?l ?t = Some _ |- _ => use_ih (Bcl (m, l) t) H
  | H : rd_chain ?f ?b ?t = Some _ |- _ => use_ih (Bch b t) H
  | H : rd_atom ?f ?t = Some _ |- _ => use_ih (Bat tt t) H
  | H : rd_trailers ?f ?a ?t = Some _ |- _ => use_ih (Btr a t) H
  | H : rd_star ?f ?b ?t = Some _ |- _ => use_ih (Bst b t) H
  | H : rd_elts ?f ?b ?c ?t = Some _ |- _ => use_ih (Bel (b, c) t) H
  | H : rd_dict ?f ?t = Some _ |- _ => use_ih (Bdi tt t) H
  | H : rd_args ?f ?s ?t = Some _ |- _ => use_ih (Bar s t) H
  | H : Some _ = Some _ |- _ => inversion H; subst; clear H
  end.

Ltac finish_bound :=
  cbn [length] in *;
  split; [lia|];
  let g := fresh "g" in let Hg := fresh "Hg" in
  intros g Hg; destruct g as [|g]; [lia|]; cbn;
  repeat first [ match goal with
                 | E : ?x = _ |- context [?x] => rewrite E
                 end
               | match goal with
                 | G : forall g0, _ <= g0 -> _ = Some _ |- _ => rewrite G by lia
                 end ];
  try reflexivity.

Lemma bound_step f : Bound f -> Bound (S f).
Proof.
  intros (Brd & Bpre & Bcl & Bch & Bat & Btr & Bst & Bel & Bdi & Bar).
  unfold Bound, BD in *. cbn [fst snd] in *.
  split; [|split; [|split; [|split; [|split; [|split; [|split; [|split; [|split]]]]]]]].
  - intros m ts r rest H. cbn in H. bound_go Brd Bpre Bcl Bch Bat Btr Bst Bel Bdi Bar; last_call Brd Bpre Bcl Bch Bat Btr Bst Bel Bdi Bar; finish_bound.
  - intros m ts r rest H. cbn in H. bound_go Brd Bpre Bcl Bch Bat Btr Bst Bel Bdi Bar; last_call Brd Bpre Bcl Bch Bat Btr Bst Bel Bdi Bar; finish_bound.
  - intros [m lhs] ts r rest H. cbn in H. bound_go Brd Bpre Bcl Bch Bat Btr Bst Bel Bdi Bar; last_call Brd Bpre Bcl Bch Bat Btr Bst Bel Bdi Bar; finish_bound.
  - intros b ts r rest H. cbn in H. bound_go Brd Bpre Bcl Bch Bat Btr Bst Bel Bdi Bar; last_call Brd Bpre Bcl Bch Bat Btr Bst Bel Bdi Bar; finish_bound.
  - intros [] ts r rest H. cbn in H. bound_go Brd Bpre Bcl Bch Bat Btr Bst Bel Bdi Bar; last_call Brd Bpre Bcl Bch Bat Btr Bst Bel Bdi Bar; finish_bound.
  - intros a ts r rest H. cbn in H. bound_go Brd Bpre Bcl Bch Bat Btr Bst Bel Bdi Bar; last_call Brd Bpre Bcl Bch Bat Btr Bst Bel Bdi Bar; finish_bound.
  - intros sl ts r rest H. cbn in H. bound_go Brd Bpre Bcl Bch Bat Btr Bst Bel Bdi Bar; last_call Brd Bpre Bcl Bch Bat Btr Bst Bel Bdi Bar; finish_bound.
  - intros [sl c] ts r rest H. cbn in H. bound_go Brd Bpre Bcl Bch Bat Btr Bst Bel Bdi Bar; last_call Brd Bpre Bcl Bch Bat Btr Bst Bel Bdi Bar; finish_bound.
  - intros [] ts r rest H. cbn in H. bound_go Brd Bpre Bcl Bch Bat Btr Bst Bel Bdi Bar; last_call Brd Bpre Bcl Bch Bat Btr Bst Bel Bdi Bar; finish_bound.
  - intros st ts r rest H. cbn in H. bound_go Brd Bpre Bcl Bch Bat Btr Bst Bel Bdi Bar; last_call Brd Bpre Bcl Bch Bat Btr Bst Bel Bdi Bar; finish_bound.
Qed.

Lemma bound_0 : Bound 0.
Proof.
  unfold Bound, BD.
  split; [|split; [|split; [|split; [|split; [|split; [|split; [|split; [|split]]]]]]]]; intros; discriminate.
Qed.

Lemma bound_all f : Bound f.
Proof. induction f as [|f IH]; [apply bound_0|apply bound_step; exact IH]. Qed.

(* what rd answers with enough fuel, read answers *)
Theorem read_of_ES ts e : ES (fun f => rd f L_test ts) (e, []) -> read ts = Some e.
Proof.
  intros [n H]. unfold read.
  destruct (bound_all n) as [Brd _]. unfold BD in Brd.
  destruct (Brd L_test ts e [] (H n (le_n n))) as [_ G].
  rewrite (G (read_fuel ts)); [reflexivity|]. unfold read_fuel. cbn [length]. lia.
Qed.
