(* Proofs/WrapProofs.v -- the output side (Model/Wrap.v): _output conserves text, truncation is always marked,
   and without limits nothing is cut. *)
From Coq Require Import ZArith NArith List Bool Lia Arith.
From PydoctorVerif Require Import Base.Sexp Base.PyExpr Gen.TablesC15 Model.StrEsc Model.Wrap.
Import ListNotations.
Local Open Scope N_scope.

(* ------------------------------------------------------------------ reading a wrapped result back *)
Definition is_newline_node (n : node) : bool :=
  match nk n, ntext n with
  | NText, [10] => true
  | _, _ => false
  end.

(* delete every LINEWRAP marker and the newline node that follows it; concatenate the rest *)
Fixpoint unwrap (ns : list node) : text :=
  match ns with
  | [] => []
  | n :: rest =>
    if is_linewrap n then
      match rest with
      | m :: rest' => if is_newline_node m then unwrap rest' else unwrap rest
      | [] => []
      end
    else ntext n ++ unwrap rest
  end.

(* every LINEWRAP marker is followed by its newline (no dangling marker at the end) *)
Fixpoint closedb (ns : list node) : bool :=
  match ns with
  | [] => true
  | n :: rest =>
    if is_linewrap n then
      match rest with
      | m :: rest' => is_newline_node m && closedb rest'
      | [] => false
      end
    else closedb rest
  end.

Lemma unwrap_app_n (n : nat) : forall a b, (length a <= n)%nat -> closedb a = true ->
  unwrap (a ++ b) = unwrap a ++ unwrap b /\ (closedb b = true -> closedb (a ++ b) = true).
Proof.
  induction n as [|n IH]; intros a b Hl Hc.
  - destruct a; [split; [reflexivity|auto]|cbn in Hl; lia].
  - destruct a as [|x a]; [split; [reflexivity|auto]|].
    cbn [app unwrap closedb] in *. destruct (is_linewrap x).
    + destruct a as [|m a']; [discriminate|].
      apply andb_true_iff in Hc. destruct Hc as [Hm Hc]. cbn [app]. rewrite Hm.
      cbn [length] in Hl. destruct (IH a' b ltac:(lia) Hc) as [H1 H2]. split; [exact H1|].
      intros Hb. cbn [andb]. apply H2. exact Hb.
    + cbn [length] in Hl. destruct (IH a b ltac:(lia) Hc) as [H1 H2]. split; [|exact H2].
      rewrite H1. rewrite app_assoc. reflexivity.
Qed.

Lemma unwrap_app a b : closedb a = true -> unwrap (a ++ b) = unwrap a ++ unwrap b.
Proof. intros H. apply (unwrap_app_n (length a) a b (le_n _) H). Qed.

Lemma closedb_app a b : closedb a = true -> closedb b = true -> closedb (a ++ b) = true.
Proof. intros H1 H2. apply (unwrap_app_n (length a) a b (le_n _) H1). exact H2. Qed.

(* kinds _output is called with: never the two marker kinds *)
Definition plain_kind (k : nkind) : bool :=
  match k with NLinewrap | NEllipsis => false | _ => true end.

Lemma plain_not_linewrap k t : plain_kind k = true -> is_linewrap (Nd k t) = false.
Proof. destruct k; try discriminate; reflexivity. Qed.

Lemma unwrap_chunk k hd rest :
  plain_kind k = true -> unwrap (Nd k hd :: LINEWRAP :: NEWLINE :: rest) = hd ++ unwrap rest.
Proof. intros Hk. cbn [unwrap]. rewrite (plain_not_linewrap k hd Hk). reflexivity. Qed.

Lemma closedb_chunk k hd rest :
  plain_kind k = true -> closedb (Nd k hd :: LINEWRAP :: NEWLINE :: rest) = closedb rest.
Proof. intros Hk. cbn [closedb]. rewrite (plain_not_linewrap k hd Hk). reflexivity. Qed.

Lemma unwrap_dangling k hd :
  plain_kind k = true -> unwrap [Nd k hd; LINEWRAP] = hd.
Proof. intros Hk. cbn [unwrap]. rewrite (plain_not_linewrap k hd Hk). cbn. apply app_nil_r. Qed.

Lemma unwrap_single k t : plain_kind k = true -> unwrap [Nd k t] = t /\ closedb [Nd k t] = true.
Proof. intros Hk. cbn. rewrite (plain_not_linewrap k t Hk). cbn. rewrite app_nil_r. auto. Qed.

(* ------------------------------------------------------------------ one segment *)
(* what out_seg / output report: nodes were only appended; on success their text, markers removed, is the text
   asked for; on _Maxlines/_Linebreak it is a prefix of it; fuel never runs out *)
Definition appended (s s' : st) (added : list node) : Prop := res s' = res s ++ added.

Definition seg_result (seg : text) (s : st) (o : outcome) : Prop :=
  exists added, appended s (fst o) added /\
                match snd o with
                | None => unwrap added = seg /\ closedb added = true
                | Some OutOfFuel => False
                | Some _ => exists tl, seg = unwrap added ++ tl
                end.

Lemma newline_step_cases p s :
  (exists e, newline_step p s = (s, Some e) /\ e <> OutOfFuel) \/
  newline_step p s = (St (res s ++ [NEWLINE]) 0 (lineno s + 1) (lbok s), None).
Proof.
  unfold newline_step.
  destruct (negb (maxlines p =? 0) && (maxlines p <? lineno s + 1)).
  - left. exists Maxlines. split; [reflexivity|discriminate].
  - destruct (negb (lbok s)).
    + left. exists Linebreak. split; [reflexivity|discriminate].
    + right. reflexivity.
Qed.

Lemma fits_at0 p k s seg :
  charpos s = 0 -> fits p k s seg = false -> (N.to_nat (linelen p) < length seg)%nat /\ linelen p <> 0.
Proof.
  intros Hc Hf. unfold fits in Hf. apply orb_false_iff in Hf. destruct Hf as [Hf _].
  apply orb_false_iff in Hf. destruct Hf as [H1 H2]. apply N.eqb_neq in H1. apply N.leb_gt in H2.
  rewrite Hc in H2. split; [lia|exact H1].
Qed.

Lemma out_seg_at0 (fuel : nat) : forall p k seg s,
  plain_kind k = true -> charpos s = 0 -> (length seg <= fuel)%nat ->
  seg_result seg s (out_seg fuel p k seg s).
Proof.
  induction fuel as [|fuel IH]; intros p k seg s Hk Hc Hl.
  - destruct seg; [|cbn in Hl; lia]. cbn [out_seg].
    assert (Hf : fits p k s [] = true).
    { unfold fits. rewrite Hc. cbn. destruct (linelen p =? 0); [reflexivity|]. cbn.
      replace (0 <=? linelen p) with true by (symmetry; apply N.leb_le; lia). reflexivity. }
    rewrite Hf. exists [Nd k []]. split; [reflexivity|]. cbn [snd]. apply (unwrap_single _ _ Hk).
  - cbn [out_seg]. destruct (fits p k s seg) eqn:Hf.
    + exists [Nd k seg]. split; [reflexivity|]. cbn [snd]. apply (unwrap_single _ _ Hk).
    + destruct (fits_at0 p k s seg Hc Hf) as [Hlen Hne].
      unfold py_split_at. rewrite Hc.
      replace (0 <=? linelen p) with true by (symmetry; apply N.leb_le; lia).
      rewrite N.sub_0_r. set (kk := N.to_nat (linelen p)).
      assert (Hkk : (1 <= kk)%nat) by (unfold kk; lia).
      destruct (newline_step_cases p (push s [Nd k (firstn kk seg); LINEWRAP])) as [[e [He Hne']]|Hn].
      * rewrite He. cbn [andthen]. exists [Nd k (firstn kk seg); LINEWRAP]. split; [reflexivity|].
        cbn [snd]. destruct e; try congruence.
        -- exists (skipn kk seg). rewrite (unwrap_dangling _ _ Hk). symmetry. apply firstn_skipn.
        -- exists (skipn kk seg). rewrite (unwrap_dangling _ _ Hk). symmetry. apply firstn_skipn.
      * rewrite Hn. cbn [andthen].
        set (s2 := St (res (push s [Nd k (firstn kk seg); LINEWRAP]) ++ [NEWLINE]) 0
                      (lineno (push s [Nd k (firstn kk seg); LINEWRAP]) + 1)
                      (lbok (push s [Nd k (firstn kk seg); LINEWRAP]))).
        assert (Hl2 : (length (skipn kk seg) <= fuel)%nat) by (rewrite skipn_length; lia).
        destruct (IH p k (skipn kk seg) s2 Hk eq_refl Hl2) as [added [Ha Hr]].
        exists ([Nd k (firstn kk seg); LINEWRAP; NEWLINE] ++ added). split.
        -- unfold appended in *. rewrite Ha. unfold s2. cbn [res push]. rewrite <- !app_assoc. reflexivity.
        -- destruct (snd (out_seg fuel p k (skipn kk seg) s2)) as [e|].
           ++ destruct e; try contradiction.
              ** destruct Hr as [tl Htl]. exists tl.
                 cbn [app]. rewrite (unwrap_chunk _ _ _ Hk).
                 rewrite <- app_assoc. rewrite <- Htl. symmetry. apply firstn_skipn.
              ** destruct Hr as [tl Htl]. exists tl.
                 cbn [app]. rewrite (unwrap_chunk _ _ _ Hk).
                 rewrite <- app_assoc. rewrite <- Htl. symmetry. apply firstn_skipn.
           ++ destruct Hr as [Hu Hcl]. split.
              ** cbn [app]. rewrite (unwrap_chunk _ _ _ Hk). rewrite Hu. apply firstn_skipn.
              ** cbn [app]. rewrite (closedb_chunk _ _ _ Hk). exact Hcl.
Qed.

Lemma py_split_concat p s seg : fst (py_split_at p s seg) ++ snd (py_split_at p s seg) = seg.
Proof. unfold py_split_at. destruct (charpos s <=? linelen p); cbn [fst snd]; apply firstn_skipn. Qed.

Lemma py_split_tl_len p s seg : (length (snd (py_split_at p s seg)) <= length seg)%nat.
Proof. unfold py_split_at. destruct (charpos s <=? linelen p); cbn [snd]; rewrite skipn_length; lia. Qed.

(* any state: the first cut may be anywhere (even "negative": charpos beyond linelen), the following ones start at 0 *)
Lemma out_seg_fuel fuel p k seg s :
  plain_kind k = true -> (length seg + 2 <= fuel)%nat -> seg_result seg s (out_seg fuel p k seg s).
Proof.
  intros Hk Hfu. destruct fuel as [|fuel]; [lia|]. cbn [out_seg]. destruct (fits p k s seg) eqn:Hf.
  - exists [Nd k seg]. split; [reflexivity|]. cbn [snd]. apply (unwrap_single _ _ Hk).
  - destruct (py_split_at p s seg) as [hd tl] eqn:Hsp.
    pose proof (py_split_concat p s seg) as Hcat. pose proof (py_split_tl_len p s seg) as Hlen.
    rewrite Hsp in Hcat, Hlen. cbn [fst snd] in Hcat, Hlen.
    destruct (newline_step_cases p (push s [Nd k hd; LINEWRAP])) as [[e [He Hne']]|Hn].
    + rewrite He. cbn [andthen]. exists [Nd k hd; LINEWRAP]. split; [reflexivity|].
      cbn [snd]. destruct e; try congruence.
      * exists tl. rewrite (unwrap_dangling _ _ Hk). symmetry. exact Hcat.
      * exists tl. rewrite (unwrap_dangling _ _ Hk). symmetry. exact Hcat.
    + rewrite Hn. cbn [andthen].
      set (s2 := St (res (push s [Nd k hd; LINEWRAP]) ++ [NEWLINE]) 0
                    (lineno (push s [Nd k hd; LINEWRAP]) + 1) (lbok (push s [Nd k hd; LINEWRAP]))).
      destruct (out_seg_at0 fuel p k tl s2 Hk eq_refl ltac:(lia)) as [added [Ha Hr]].
      exists ([Nd k hd; LINEWRAP; NEWLINE] ++ added). split.
      * unfold appended in *. rewrite Ha. unfold s2. cbn [res push]. rewrite <- !app_assoc. reflexivity.
      * destruct (snd (out_seg fuel p k tl s2)) as [e|].
        -- destruct e; try contradiction.
           ++ destruct Hr as [tl' Htl]. exists tl'.
              cbn [app]. rewrite (unwrap_chunk _ _ _ Hk).
              rewrite <- app_assoc. rewrite <- Htl. symmetry. exact Hcat.
           ++ destruct Hr as [tl' Htl]. exists tl'.
              cbn [app]. rewrite (unwrap_chunk _ _ _ Hk).
              rewrite <- app_assoc. rewrite <- Htl. symmetry. exact Hcat.
        -- destruct Hr as [Hu Hcl]. split.
           ++ cbn [app]. rewrite (unwrap_chunk _ _ _ Hk). rewrite Hu. exact Hcat.
           ++ cbn [app]. rewrite (closedb_chunk _ _ _ Hk). exact Hcl.
Qed.

Lemma out_seg_any p k seg s :
  plain_kind k = true -> seg_result seg s (out_seg (seg_fuel seg) p k seg s).
Proof. intros Hk. apply out_seg_fuel; [exact Hk|unfold seg_fuel; lia]. Qed.

(* ------------------------------------------------------------------ a whole _output call *)
Fixpoint join_nl (segs : list text) : text :=
  match segs with
  | [] => []
  | [s] => s
  | s :: rest => s ++ NL :: join_nl rest
  end.

Lemma split_nl_nonempty t : split_nl t <> [].
Proof.
  destruct t as [|c t]; cbn [split_nl]; [discriminate|].
  destruct (N.eqb c NL); [discriminate|]. destruct (split_nl t); discriminate.
Qed.

Lemma join_cons_nonempty s rest : rest <> [] -> join_nl (s :: rest) = s ++ NL :: join_nl rest.
Proof. destruct rest; [congruence|reflexivity]. Qed.

Lemma join_split t : join_nl (split_nl t) = t.
Proof.
  induction t as [|c t IH]; [reflexivity|]. cbn [split_nl].
  pose proof (split_nl_nonempty t) as Hne.
  destruct (N.eqb_spec c NL) as [->|Hc].
  - rewrite join_cons_nonempty by exact Hne. rewrite IH. reflexivity.
  - destruct (split_nl t) as [|h tl] eqn:E; [congruence|].
    destruct tl as [|h2 tl].
    + cbn [join_nl] in *. rewrite IH. reflexivity.
    + rewrite join_cons_nonempty by discriminate. rewrite join_cons_nonempty in IH by discriminate.
      rewrite <- IH. reflexivity.
Qed.

Definition out_result (want : text) (s : st) (o : outcome) : Prop :=
  exists added, appended s (fst o) added /\
                match snd o with
                | None => unwrap added = want /\ closedb added = true
                | Some OutOfFuel => False
                | Some _ => exists tl, want = unwrap added ++ tl
                end.

Lemma unwrap_newline rest : unwrap (NEWLINE :: rest) = NL :: unwrap rest.
Proof. reflexivity. Qed.
Lemma closedb_newline rest : closedb (NEWLINE :: rest) = closedb rest.
Proof. reflexivity. Qed.

Lemma appended_trans s s1 s2 a b : appended s s1 a -> appended s1 s2 b -> appended s s2 (a ++ b).
Proof. unfold appended. intros H1 H2. rewrite H2, H1. rewrite app_assoc. reflexivity. Qed.

Lemma out_segs_result p k : plain_kind k = true ->
  forall (segs : list text) (first : bool) (s : st), segs <> [] ->
    out_result ((if first then [] else [NL]) ++ join_nl segs) s (out_segs p k first segs s).
Proof.
  intros Hk segs. induction segs as [|seg rest IH]; intros first s Hne; [congruence|].
  cbn [out_segs].
  (* the newline before every segment but the first *)
  assert (Hstep : (first = true /\ (if first then (s, None) else newline_step p s) = (s, None)) \/
                  (first = false /\ exists e, newline_step p s = (s, Some e) /\ e <> OutOfFuel) \/
                  (first = false /\ newline_step p s = (St (res s ++ [NEWLINE]) 0 (lineno s + 1) (lbok s), None))).
  { destruct first; [left; auto|]. destruct (newline_step_cases p s) as [[e He]|Hn]; [right; left; eauto|right; right; auto]. }
  destruct Hstep as [[Hf Hs]|[[Hf [e [He Hne']]]|[Hf Hs]]]; subst first.
  - (* first segment *)
    cbn [andthen app].
    destruct (out_seg_any p k seg s Hk) as [a1 [Ha1 Hr1]].
    destruct (out_seg (seg_fuel seg) p k seg s) as [s1 r1] eqn:E1. cbn [fst snd] in *.
    destruct r1 as [e1|].
    + cbn [andthen]. exists a1. split; [exact Ha1|]. cbn [snd].
      destruct e1; try contradiction; destruct Hr1 as [tl Htl];
        (destruct rest as [|r2 rest]; [exists tl; cbn [join_nl]; exact Htl
                                      |exists (tl ++ NL :: join_nl (r2 :: rest)); cbn [join_nl]; rewrite Htl; rewrite <- app_assoc; reflexivity]).
    + cbn [andthen]. destruct Hr1 as [Hu1 Hc1].
      destruct rest as [|r2 rest].
      * cbn [out_segs]. exists a1. split; [exact Ha1|]. cbn [snd join_nl]. auto.
      * destruct (IH false s1 ltac:(discriminate)) as [a2 [Ha2 Hr2]].
        exists (a1 ++ a2). split; [eapply appended_trans; eauto|].
        change (join_nl (seg :: r2 :: rest)) with (seg ++ NL :: join_nl (r2 :: rest)).
        destruct (snd (out_segs p k false (r2 :: rest) s1)) as [e2|].
        -- destruct e2; try contradiction; destruct Hr2 as [tl Htl]; exists tl;
             rewrite (unwrap_app _ _ Hc1); rewrite Hu1; rewrite <- app_assoc; cbn [app] in Htl; rewrite <- Htl; reflexivity.
        -- destruct Hr2 as [Hu2 Hc2]. split; [|apply closedb_app; assumption].
           rewrite (unwrap_app _ _ Hc1). rewrite Hu1, Hu2. reflexivity.
  - (* the newline itself raises *)
    rewrite He. cbn [andthen]. exists []. split; [unfold appended; rewrite app_nil_r; reflexivity|].
    cbn [snd]. destruct e; try congruence; eexists; reflexivity.
  - rewrite Hs. cbn [andthen].
    set (s0 := St (res s ++ [NEWLINE]) 0 (lineno s + 1) (lbok s)).
    assert (Ha0 : appended s s0 [NEWLINE]) by reflexivity.
    destruct (out_seg_any p k seg s0 Hk) as [a1 [Ha1 Hr1]].
    destruct (out_seg (seg_fuel seg) p k seg s0) as [s1 r1] eqn:E1. cbn [fst snd] in *.
    destruct r1 as [e1|].
    + cbn [andthen]. exists ([NEWLINE] ++ a1). split; [eapply appended_trans; eauto|]. cbn [snd app].
      rewrite unwrap_newline.
      destruct e1; try contradiction; destruct Hr1 as [tl Htl];
        (destruct rest as [|r2 rest]; [exists tl; cbn [join_nl]; rewrite Htl; reflexivity
                                      |exists (tl ++ NL :: join_nl (r2 :: rest)); cbn [join_nl]; rewrite Htl; rewrite <- app_assoc; reflexivity]).
    + cbn [andthen]. destruct Hr1 as [Hu1 Hc1].
      destruct rest as [|r2 rest].
      * cbn [out_segs]. exists ([NEWLINE] ++ a1). split; [eapply appended_trans; eauto|]. cbn [snd join_nl app].
        rewrite unwrap_newline, closedb_newline. rewrite Hu1. auto.
      * destruct (IH false s1 ltac:(discriminate)) as [a2 [Ha2 Hr2]].
        exists (([NEWLINE] ++ a1) ++ a2). split; [eapply appended_trans; [eapply appended_trans; eauto|eauto]|].
        change (join_nl (seg :: r2 :: rest)) with (seg ++ NL :: join_nl (r2 :: rest)).
        assert (Hc01 : closedb ([NEWLINE] ++ a1) = true) by (cbn [app]; rewrite closedb_newline; exact Hc1).
        assert (Hu01 : unwrap ([NEWLINE] ++ a1) = NL :: seg) by (cbn [app]; rewrite unwrap_newline, Hu1; reflexivity).
        destruct (snd (out_segs p k false (r2 :: rest) s1)) as [e2|].
        -- destruct e2; try contradiction; destruct Hr2 as [tl Htl]; exists tl;
             rewrite (unwrap_app _ _ Hc01); rewrite Hu01; cbn [app] in Htl |- *; rewrite <- app_assoc; rewrite <- Htl; reflexivity.
        -- destruct Hr2 as [Hu2 Hc2]. split; [|apply closedb_app; assumption].
           rewrite (unwrap_app _ _ Hc01). rewrite Hu01, Hu2. reflexivity.
Qed.

(* C15_wrap_conserves *)
Theorem output_conserves p t k s :
  plain_kind k = true ->
  exists added, res (fst (output p t k s)) = res s ++ added /\
                match snd (output p t k s) with
                | None => unwrap added = t
                | Some OutOfFuel => False
                | Some _ => exists tl, t = unwrap added ++ tl
                end.
Proof.
  intros Hk. unfold output.
  destruct (out_segs_result p k Hk (split_nl t) true s (split_nl_nonempty t)) as [added [Ha Hr]].
  exists added. split; [exact Ha|]. cbn [app] in Hr. rewrite join_split in Hr.
  destruct (snd (out_segs p k true (split_nl t) s)) as [e|]; [exact Hr|tauto].
Qed.

(* ------------------------------------------------------------------ truncation is marked (colorize's tail) *)
Theorem truncation_marked p c :
  (c_complete (colorize p c) = true /\
   exists s, exec p 0 c (init_st p) = (s, None) /\ c_nodes (colorize p c) = res s) \/
  (c_complete (colorize p c) = false /\
   (exists s e, exec p 0 c (init_st p) = (s, Some e)) /\
   exists ns, c_nodes (colorize p c) = ns ++ [ELLIPSIS] /\
              (lbparam p = true -> exists s e, exec p 0 c (init_st p) = (s, Some e) /\ ns = res s ++ [NEWLINE])).
Proof.
  unfold colorize. destruct (exec p 0 c (init_st p)) as [s r] eqn:E. destruct r as [e|].
  - right. destruct (lbparam p) eqn:Hlb.
    + cbn [c_complete c_nodes]. split; [reflexivity|]. split; [eauto|].
      exists (res s ++ [NEWLINE]). split; [rewrite <- app_assoc; reflexivity|]. intros _. eauto.
    + destruct (trim_rev 3 false
                  match rev (res s) with
                  | [] => rev (res s)
                  | n :: rest => if is_linewrap n then rest else rev (res s)
                  end) as [rl2 hit] eqn:ET.
      cbn [c_complete c_nodes]. split; [reflexivity|]. split; [eauto|].
      eexists. split; [reflexivity|]. discriminate.
  - left. cbn [c_complete c_nodes]. split; [reflexivity|]. eauto.
Qed.

(* ------------------------------------------------------------------ no limit, no line break allowed: nothing is cut *)
Section CmdInd.
  Variable P : cmd -> Prop.
  Hypothesis Hout : forall t k, P (COut t k).
  Hypothesis Hstr : forall b raw, P (CStr b raw).
  Hypothesis Hwbr : P CWbr.
  Hypothesis Hseq : forall cs, Forall P cs -> P (CSeq cs).
  Hypothesis Hdelim : forall b c, P c -> P (CDelim b c).
  Hypothesis Hmulti : forall c, P c -> P (CMulti c).
  Hypothesis Hindent : forall c, P c -> P (CIndent c).
  Hypothesis Hcomma : P CComma.

  Fixpoint cmd_ind2 (c : cmd) : P c.
  Proof.
    destruct c as [t k|b raw| |cs|b c|c|c| ].
    - apply Hout.
    - apply Hstr.
    - apply Hwbr.
    - apply Hseq. revert cs. fix go 1. intros [|x cs]; constructor; [apply cmd_ind2|apply go].
    - apply Hdelim. apply cmd_ind2.
    - apply Hmulti. apply cmd_ind2.
    - apply Hindent. apply cmd_ind2.
    - apply Hcomma.
  Qed.
End CmdInd.

(* the texts handed to _output contain no newline, and the kinds are never the marker kinds *)
Fixpoint simple_cmd (c : cmd) : bool :=
  match c with
  | COut t k => negb (has_nl t) && plain_kind k
  | CStr _ _ | CWbr | CComma => true
  | CSeq cs => forallb simple_cmd cs
  | CDelim _ c1 | CMulti c1 | CIndent c1 => simple_cmd c1
  end.

Lemma split_nl_single t : has_nl t = false -> split_nl t = [t].
Proof.
  induction t as [|c t IH]; [reflexivity|]. unfold has_nl in *. cbn [existsb split_nl].
  intros H. apply orb_false_iff in H. destruct H as [H1 H2]. rewrite N.eqb_sym in H1. rewrite H1.
  rewrite (IH H2). reflexivity.
Qed.

Definition flat_step (p : params) (s s' : st) (t : text) : Prop :=
  exists added cp, s' = St (res s ++ added) cp (lineno s) false /\ nodes_text added = t.

Lemma output_flat p t k s :
  linelen p = 0 -> lbok s = false -> has_nl t = false ->
  output p t k s = (St (res s ++ [Nd k t]) (charpos s + N.of_nat (length t)) (lineno s) false, None).
Proof.
  intros Hl Hb Hn. unfold output. rewrite (split_nl_single t Hn). cbn [out_segs andthen].
  unfold seg_fuel. cbn [out_seg]. unfold fits. rewrite Hl. cbn [N.eqb orb andthen]. rewrite Hb. reflexivity.
Qed.

Lemma hex_digit_not_nl d : d < 16 -> N.eqb 10 (hex_digit d) = false.
Proof. intros H. unfold hex_digit. destruct (N.ltb_spec d 10); apply N.eqb_neq; lia. Qed.

Lemma str_escape_no_nl raw : has_nl (str_escape raw) = false.
Proof.
  assert (H1 : forall s, has_nl (flat_map enc s) = false).
  { induction s as [|c s IH]; [reflexivity|]. unfold has_nl in *. cbn [flat_map]. rewrite existsb_app.
    rewrite IH. rewrite orb_false_r.
    unfold enc, str_escape_tab. cbn [assoc_esc].
    repeat match goal with
           | |- context [if N.eqb c ?k then _ else _] => destruct (N.eqb_spec c k) as [->|?]; [reflexivity|]
           end.
    cbn [existsb]. rewrite orb_false_r. apply N.eqb_neq. unfold NL. congruence. }
  unfold str_escape. destruct (existsb is_surrogate (flat_map enc raw)); [|apply H1].
  specialize (H1 raw). unfold has_nl in *.
  induction (flat_map enc raw) as [|c s IH]; [reflexivity|].
  cbn [existsb flat_map] in *. apply orb_false_iff in H1. destruct H1 as [Hc Hs]. rewrite existsb_app.
  rewrite (IH Hs). rewrite orb_false_r. unfold backslashreplace1.
  destruct (is_surrogate c) eqn:E.
  - unfold is_surrogate in E. apply andb_true_iff in E. destruct E as [E1 E2].
    apply N.leb_le in E1. apply N.leb_le in E2.
    cbn [existsb]. unfold NL, BSL.
    rewrite (hex_digit_not_nl (c / 4096)) by (apply N.div_lt_upper_bound; lia).
    rewrite (hex_digit_not_nl ((c / 256) mod 16)) by (apply N.mod_lt; lia).
    rewrite (hex_digit_not_nl ((c / 16) mod 16)) by (apply N.mod_lt; lia).
    rewrite (hex_digit_not_nl (c mod 16)) by (apply N.mod_lt; lia).
    reflexivity.
  - cbn [existsb]. rewrite Hc. reflexivity.
Qed.

Lemma bytes_repr1_no_nl q c : (q = 34 \/ q = 39) -> existsb (N.eqb 10) (bytes_repr1 q c) = false.
Proof.
  intros Hq. unfold bytes_repr1, BSL.
  destruct (N.eqb_spec c q) as [->|Hcq].
  - cbn [orb existsb]. destruct Hq as [->| ->]; reflexivity.
  - cbn [orb]. destruct (N.eqb_spec c 92) as [->|H92]; [reflexivity|].
    destruct (N.eqb_spec c 9) as [->|H9]; [reflexivity|].
    destruct (N.eqb_spec c 10) as [->|H10]; [reflexivity|].
    destruct (N.eqb_spec c 13) as [->|H13]; [reflexivity|].
    destruct ((c <? 32) || (127 <=? c)) eqn:E.
    + cbn [existsb].
      assert (Hc : c < 256 \/ 256 <= c) by lia.
      rewrite (hex_digit_not_nl (c mod 16)) by (apply N.mod_lt; lia).
      destruct (N.ltb_spec (c / 16) 16) as [Hd|Hd].
      * rewrite (hex_digit_not_nl (c / 16) Hd). reflexivity.
      * unfold hex_digit. destruct (N.ltb_spec (c / 16) 10); [lia|].
        replace (N.eqb 10 (87 + c / 16)) with false by (symmetry; apply N.eqb_neq; lia). reflexivity.
    + cbn [existsb]. rewrite orb_false_r. apply N.eqb_neq. congruence.
Qed.

Lemma bytes_quote_cases raw : bytes_quote raw = 34 \/ bytes_quote raw = 39.
Proof. unfold bytes_quote, DQ, SQ. destruct (existsb (N.eqb 39) raw && negb (existsb (N.eqb 34) raw)); auto. Qed.

Lemma bytes_escape_no_nl raw : has_nl (bytes_escape raw) = false.
Proof.
  assert (Hbody : forall q, (q = 34 \/ q = 39) -> existsb (N.eqb 10) (flat_map (bytes_repr1 q) raw) = false).
  { intros q Hq. induction raw as [|c s IH]; [reflexivity|]. cbn [flat_map]. rewrite existsb_app. rewrite IH.
    rewrite orb_false_r. apply bytes_repr1_no_nl. exact Hq. }
  unfold bytes_escape, has_nl, NL. specialize (Hbody (bytes_quote raw) (bytes_quote_cases raw)).
  destruct (N.eqb (bytes_quote raw) DQ); [|exact Hbody].
  induction (flat_map (bytes_repr1 (bytes_quote raw)) raw) as [|c s IH]; [reflexivity|].
  cbn [existsb flat_map] in *. apply orb_false_iff in Hbody. destruct Hbody as [Hc Hs].
  rewrite existsb_app. rewrite (IH Hs). rewrite orb_false_r.
  unfold requote1, SQ, BSL. destruct (N.eqb c 39); [reflexivity|]. cbn [existsb]. rewrite Hc. reflexivity.
Qed.

Lemma firstn_app_exact {X} (l l' : list X) : firstn (length l) (l ++ l') = l.
Proof. induction l as [|x l IH]; [reflexivity|]. cbn. rewrite IH. reflexivity. Qed.
Lemma skipn_app_exact {X} (l l' : list X) : skipn (length l) (l ++ l') = l'.
Proof. induction l as [|x l IH]; [reflexivity|]. cbn. exact IH. Qed.

Lemma nodes_text_app a b : nodes_text (a ++ b) = nodes_text a ++ nodes_text b.
Proof. unfold nodes_text. apply flat_map_app. Qed.

Definition exec_seq (p : params) (indent : N) : list cmd -> st -> outcome :=
  fix go (cs : list cmd) (s : st) : outcome :=
    match cs with
    | [] => (s, None)
    | c1 :: cs' => andthen (exec p indent c1 s) (go cs')
    end.
Definition flat_seq : list cmd -> text :=
  fix go (cs : list cmd) : text := match cs with [] => [] | c1 :: cs' => flat c1 ++ go cs' end.

Lemma exec_CSeq p indent cs s : exec p indent (CSeq cs) s = exec_seq p indent cs s.
Proof. reflexivity. Qed.
Lemma flat_CSeq cs : flat (CSeq cs) = flat_seq cs.
Proof. reflexivity. Qed.

Ltac step_out Hl :=
  match goal with
  | |- context [output ?p ?t ?k (St ?r ?cp ?ln false)] =>
    rewrite (output_flat p t k (St r cp ln false) Hl eq_refl) by (reflexivity || assumption)
  end.

Definition FlatSt (c : cmd) : Prop :=
  forall p indent s, linelen p = 0 -> lbok s = false -> simple_cmd c = true ->
    exists added cp, exec p indent c s = (St (res s ++ added) cp (lineno s) false, None) /\ nodes_text added = flat c.

Lemma exec_flat c : FlatSt c.
Proof.
  induction c using cmd_ind2; unfold FlatSt; intros p indent s Hl Hb Hs.
  - (* COut *)
    cbn [simple_cmd] in Hs. apply andb_true_iff in Hs. destruct Hs as [Hn _]. apply negb_true_iff in Hn.
    cbn [exec]. rewrite (output_flat p t k s Hl Hb Hn).
    eexists; eexists; split; [reflexivity|]. cbn. apply app_nil_r.
  - (* CStr *)
    cbn [exec]. unfold exec_str. rewrite Hb. rewrite andb_false_r.
    assert (Hpre : has_nl (if b then [98] else []) = false) by (destruct b; reflexivity).
    assert (Hesc : has_nl ((if b then bytes_escape else str_escape) raw) = false)
      by (destruct b; [apply bytes_escape_no_nl|apply str_escape_no_nl]).
    rewrite (output_flat p _ NText s Hl Hb Hpre). cbn [andthen].
    step_out Hl. cbn [andthen str_lines].
    step_out Hl. cbn [andthen].
    step_out Hl.
    cbn [res lineno]. rewrite <- !app_assoc.
    eexists; eexists; split; [reflexivity|].
    unfold nodes_text. cbn [flat_map app ntext flat]. rewrite ?app_nil_r. destruct b; cbn [app]; rewrite <- ?app_assoc; reflexivity.
  - (* CWbr *)
    cbn [exec]. unfold push. rewrite Hb. eexists; eexists; split; [reflexivity|]. reflexivity.
  - (* CSeq *)
    rewrite exec_CSeq, flat_CSeq. cbn [simple_cmd] in Hs. revert s Hb Hs.
    induction cs as [|c1 cs IHcs]; intros s Hb Hs.
    + cbn. exists [], (charpos s). rewrite app_nil_r. rewrite <- Hb. destruct s; split; reflexivity.
    + inversion H as [|? ? H1 H2]; subst. cbn [forallb] in Hs. apply andb_true_iff in Hs. destruct Hs as [Hs1 Hs2].
      destruct (H1 p indent s Hl Hb Hs1) as [a1 [cp1 [E1 T1]]].
      cbn [exec_seq flat_seq]. rewrite E1. cbn [andthen].
      destruct (IHcs H2 (St (res s ++ a1) cp1 (lineno s) false) eq_refl Hs2) as [a2 [cp2 [E2 T2]]].
      rewrite E2. cbn [res lineno]. exists (a1 ++ a2), cp2. rewrite app_assoc. split; [reflexivity|].
      rewrite nodes_text_app, T1, T2. reflexivity.
  - (* CDelim *)
    cbn [simple_cmd] in Hs. destruct (IHc p indent s Hl Hb Hs) as [a1 [cp1 [E1 T1]]].
    cbn [exec]. rewrite E1. destruct b.
    + unfold delim_exit, restore, mark_of. cbn [m_len m_charpos m_lineno m_lbok res].
      rewrite firstn_app_exact, skipn_app_exact. rewrite Hb.
      step_out Hl. cbn [res charpos lineno].
      unfold push. cbn [res charpos lineno lbok].
      step_out Hl. cbn [res charpos lineno].
      rewrite <- !app_assoc.
      eexists; eexists; split; [reflexivity|].
      rewrite !nodes_text_app. rewrite T1. cbn [flat]. reflexivity.
    + eexists; eexists; split; [reflexivity|]. exact T1.
  - (* CMulti *)
    cbn [simple_cmd] in Hs.
    destruct (IHc p indent (with_lbok s false) Hl eq_refl Hs) as [a1 [cp1 [E1 T1]]].
    cbn [exec]. rewrite E1. unfold with_lbok. cbn [res charpos lineno]. rewrite Hb.
    eexists; eexists; split; [reflexivity|]. exact T1.
  - (* CIndent *)
    cbn [simple_cmd] in Hs. cbn [exec]. apply IHc; assumption.
  - (* CComma *)
    cbn [exec]. unfold insert_comma. rewrite Hb.
    rewrite (output_flat p [44; 32] NText s Hl Hb eq_refl).
    eexists; eexists; split; [reflexivity|]. reflexivity.
Qed.

(* the inline setting of colorize_inline_pyval (linelen None, linebreakok False, any maxlines): complete, and the text
   is exactly the flat text *)
Theorem inline_complete c ml :
  simple_cmd c = true ->
  c_complete (colorize (Params 0 ml false) c) = true /\
  c_fuel_ok (colorize (Params 0 ml false) c) = true /\
  nodes_text (c_nodes (colorize (Params 0 ml false) c)) = flat c.
Proof.
  intros Hs. unfold colorize.
  destruct (exec_flat c (Params 0 ml false) 0 (init_st (Params 0 ml false)) eq_refl eq_refl Hs) as [a [cp [E T]]].
  rewrite E. cbn. auto.
Qed.

(* ------------------------------------------------------------------ every complete run shows one of the layouts of the tree *)
Definition lit_esc (b : bool) : text -> text := if b then bytes_escape else str_escape.
Definition lit_prefix (b : bool) : text := if b then [98] else [].
Definition lit_single (b : bool) (raw : text) : text := lit_prefix b ++ [39] ++ lit_esc b raw ++ [39].
Definition lit_triple (b : bool) (raw : text) : text :=
  lit_prefix b ++ [39; 39; 39] ++ join_nl (map (lit_esc b) (split_nl raw)) ++ [39; 39; 39].

(* the texts a tree of output calls can come out as: a comma is followed by a space or by a newline and an indentation,
   a string is in single quotes on one line or in triple quotes with its newlines raw *)
Fixpoint flatP (c : cmd) (w : text) : Prop :=
  match c with
  | COut t _ => w = t
  | CStr b raw => w = lit_single b raw \/ w = lit_triple b raw
  | CWbr => w = []
  | CSeq cs =>
    (fix go (cs : list cmd) (w : text) : Prop :=
       match cs with
       | [] => w = []
       | c1 :: cs' => exists w1 w2, w = w1 ++ w2 /\ flatP c1 w1 /\ go cs' w2
       end) cs w
  | CDelim b c1 => if b then exists w1, w = [40] ++ w1 ++ [41] /\ flatP c1 w1 else flatP c1 w
  | CMulti c1 | CIndent c1 => flatP c1 w
  | CComma => w = [44; 32] \/ exists n, w = 44 :: NL :: spaces n
  end.

Definition seqP : list cmd -> text -> Prop :=
  fix go (cs : list cmd) (w : text) : Prop :=
    match cs with
    | [] => w = []
    | c1 :: cs' => exists w1 w2, w = w1 ++ w2 /\ flatP c1 w1 /\ go cs' w2
    end.
Lemma flatP_CSeq cs w : flatP (CSeq cs) w = seqP cs w.
Proof. reflexivity. Qed.

Fixpoint plain_cmd (c : cmd) : bool :=
  match c with
  | COut _ k => plain_kind k
  | CStr _ _ | CWbr | CComma => true
  | CSeq cs => forallb plain_cmd cs
  | CDelim _ c1 | CMulti c1 | CIndent c1 => plain_cmd c1
  end.

Lemma simple_plain c : simple_cmd c = true -> plain_cmd c = true.
Proof.
  induction c using cmd_ind2; cbn [simple_cmd plain_cmd]; auto.
  - intros H. apply andb_true_iff in H. tauto.
  - intros Hs. induction cs as [|c cs IHcs]; [reflexivity|].
    inversion H; subst. cbn [forallb] in *. apply andb_true_iff in Hs. destruct Hs.
    apply andb_true_iff. split; auto.
Qed.

(* the inline layout is one of them *)
Lemma flat_flatP c : flatP c (flat c).
Proof.
  induction c using cmd_ind2; cbn [flatP flat]; auto.
  - left. unfold lit_single, lit_prefix, lit_esc, SQ. destruct b; rewrite <- ?app_assoc; reflexivity.
  - induction cs as [|c cs IHcs]; [reflexivity|]. inversion H; subst.
    exists (flat c), (flat_seq cs). split; [reflexivity|]. split; [assumption|]. apply IHcs. assumption.
  - destruct b; [exists (flat c); split; [reflexivity|exact IHc]|exact IHc].
Qed.

Lemma andthen_none r k s' : andthen r k = (s', None) -> exists s1, r = (s1, None) /\ k s1 = (s', None).
Proof. destruct r as [s1 [e|]]; cbn; [discriminate|eauto]. Qed.

Lemma output_ok p t k s s' :
  plain_kind k = true -> output p t k s = (s', None) ->
  exists added, Wrap.res s' = Wrap.res s ++ added /\ closedb added = true /\ unwrap added = t.
Proof.
  intros Hk H. unfold output in H.
  destruct (out_segs_result p k Hk (split_nl t) true s (split_nl_nonempty t)) as [added [Ha Hr]].
  rewrite H in Ha, Hr. cbn [fst snd app] in *. rewrite join_split in Hr. destruct Hr as [Hu Hc].
  exists added. auto.
Qed.

Lemma output_ext p t k s :
  plain_kind k = true -> exists added, Wrap.res (fst (output p t k s)) = Wrap.res s ++ added.
Proof.
  intros Hk. unfold output.
  destruct (out_segs_result p k Hk (split_nl t) true s (split_nl_nonempty t)) as [added [Ha _]].
  exists added. exact Ha.
Qed.

(* "only appends" composes *)
Definition ext (s : st) (o : outcome) : Prop := exists added, Wrap.res (fst o) = Wrap.res s ++ added.

Lemma ext_refl s r : ext s (s, r).
Proof. exists []. cbn. rewrite app_nil_r. reflexivity. Qed.

Lemma ext_andthen s r k :
  ext s r -> (forall s1, (exists a, Wrap.res s1 = Wrap.res s ++ a) -> ext s1 (k s1)) -> ext s (andthen r k).
Proof.
  intros [a Ha] Hk. destruct r as [s1 [e|]]; cbn [andthen fst] in *.
  - exists a. exact Ha.
  - destruct (Hk s1 (ex_intro _ a Ha)) as [b Hb]. exists (a ++ b). rewrite Hb, Ha. rewrite app_assoc. reflexivity.
Qed.

Lemma ext_same_res s s0 o : Wrap.res s0 = Wrap.res s -> ext s0 o -> ext s o.
Proof. intros E [a Ha]. exists a. rewrite Ha, E. reflexivity. Qed.

Lemma ext_trans s s1 o : (exists a, Wrap.res s1 = Wrap.res s ++ a) -> ext s1 o -> ext s o.
Proof. intros [a Ha] [b Hb]. exists (a ++ b). rewrite Hb, Ha, app_assoc. reflexivity. Qed.

Lemma str_lines_ext p esc : forall lines first s, ext s (str_lines p esc first lines s).
Proof.
  induction lines as [|l lines IH]; intros first s; [apply ext_refl|].
  cbn [str_lines]. apply ext_andthen.
  - destruct first; [apply ext_refl|apply (output_ext p [NL] NText s eq_refl)].
  - intros s1 _. apply ext_andthen; [apply (output_ext p _ NString s1 eq_refl)|]. intros s2 _. apply IH.
Qed.

Lemma exec_str_ext p b raw s : ext s (exec_str p b raw s).
Proof.
  unfold exec_str. apply ext_andthen; [apply (output_ext p _ NText s eq_refl)|]. intros s1 _.
  apply ext_andthen; [apply (output_ext p _ NQuote s1 eq_refl)|]. intros s2 _.
  apply ext_andthen; [apply str_lines_ext|]. intros s3 _. apply (output_ext p _ NQuote s3 eq_refl).
Qed.

Lemma insert_comma_ext p indent s : ext s (insert_comma p indent s).
Proof.
  unfold insert_comma. destruct (lbok s).
  - apply ext_andthen; [apply (output_ext p _ NText s eq_refl)|]. intros s1 _. apply (output_ext p _ NText s1 eq_refl).
  - apply (output_ext p _ NText s eq_refl).
Qed.

Definition ExtSt (c : cmd) : Prop := plain_cmd c = true -> forall p indent s, ext s (exec p indent c s).

Lemma exec_ext c : ExtSt c.
Proof.
  induction c using cmd_ind2; unfold ExtSt; intros Hp p indent s.
  - cbn [exec]. apply output_ext. exact Hp.
  - cbn [exec]. apply exec_str_ext.
  - cbn [exec]. exists [WBR]. reflexivity.
  - rewrite exec_CSeq. cbn [plain_cmd] in Hp. revert s. induction cs as [|c1 cs IHcs]; intros s; [apply ext_refl|].
    inversion H as [|? ? H1 H2]; subst. cbn [forallb] in Hp. apply andb_true_iff in Hp. destruct Hp as [Hp1 Hp2].
    cbn [exec_seq]. apply ext_andthen; [apply H1; exact Hp1|]. intros s1 _. apply IHcs; assumption.
  - cbn [plain_cmd] in Hp. cbn [exec]. destruct b; [|apply IHc; exact Hp].
    destruct (IHc Hp p indent s) as [a Ha]. destruct (exec p indent c s) as [s1 r] eqn:E. cbn [fst] in Ha.
    unfold delim_exit, restore, mark_of. cbn [m_len m_charpos m_lineno m_lbok].
    rewrite Ha. rewrite firstn_app_exact, skipn_app_exact.
    set (s2 := St (Wrap.res s) (charpos s) (lineno s) (lbok s)).
    destruct (output_ext p [40] NText s2 eq_refl) as [o1 Ho1].
    destruct (output p [40] NText s2) as [s3 [e|]] eqn:E3; cbn [fst] in Ho1.
    + exists o1. exact Ho1.
    + destruct (output_ext p [41] NText (push s3 a) eq_refl) as [o2 Ho2].
      destruct (output p [41] NText (push s3 a)) as [s5 [e|]] eqn:E5; cbn [fst] in Ho2;
        (exists (o1 ++ a ++ o2); cbn [fst]; rewrite Ho2; unfold push; cbn [Wrap.res]; rewrite Ho1;
         unfold s2; cbn [Wrap.res]; rewrite <- !app_assoc; reflexivity).
  - cbn [plain_cmd] in Hp. cbn [exec].
    destruct (IHc Hp p indent (with_lbok s false)) as [a Ha].
    destruct (exec p indent c (with_lbok s false)) as [s1 r] eqn:E. cbn [fst] in Ha. unfold with_lbok in Ha. cbn [Wrap.res] in Ha.
    destruct r as [e|].
    + destruct e; try (exists a; exact Ha).
      destruct (negb (lbok s)); [exists a; exact Ha|].
      unfold restore, mark_of. cbn [fst m_len m_charpos m_lineno m_lbok]. rewrite Ha, firstn_app_exact.
      apply (ext_same_res s (St (Wrap.res s) (charpos s) (lineno s) (lbok s))); [reflexivity|]. apply IHc. exact Hp.
    + exists a. exact Ha.
  - cbn [plain_cmd] in Hp. cbn [exec]. apply IHc. exact Hp.
  - cbn [exec]. apply insert_comma_ext.
Qed.

Definition good (s s' : st) (t : text) : Prop :=
  exists added, Wrap.res s' = Wrap.res s ++ added /\ closedb added = true /\ unwrap added = t.

Lemma good_refl s : good s s [].
Proof. exists []. rewrite app_nil_r. auto. Qed.

Lemma good_seq s s1 s2 t1 t2 : good s s1 t1 -> good s1 s2 t2 -> good s s2 (t1 ++ t2).
Proof.
  intros [a [Ha [Ca Wa]]] [b [Hb [Cb Wb]]]. exists (a ++ b).
  split; [rewrite Hb, Ha, app_assoc; reflexivity|]. split; [apply closedb_app; assumption|].
  rewrite (unwrap_app a b Ca). rewrite Wa, Wb. reflexivity.
Qed.

Lemma good_same_res s0 s s' t : Wrap.res s0 = Wrap.res s -> good s0 s' t -> good s s' t.
Proof. intros E [a [Ha H]]. exists a. rewrite <- E. auto. Qed.

Lemma output_good p t k s s' : plain_kind k = true -> output p t k s = (s', None) -> good s s' t.
Proof. intros Hk H. destruct (output_ok p t k s s' Hk H) as [a [Ha [Ca Ua]]]. exists a. auto. Qed.

Lemma str_lines_good p esc : forall lines first s s',
  lines <> [] -> str_lines p esc first lines s = (s', None) ->
  good s s' ((if first then [] else [NL]) ++ join_nl (map esc lines)).
Proof.
  induction lines as [|l lines IH]; intros first s s' Hne H; [congruence|].
  cbn [str_lines] in H. apply andthen_none in H. destruct H as [s1 [H1 H]].
  apply andthen_none in H. destruct H as [s2 [H2 H3]].
  assert (G1 : good s s1 (if first then [] else [NL])).
  { destruct first.
    - inversion H1; subst. apply good_refl.
    - apply (output_good p [NL] NText s s1 eq_refl H1). }
  pose proof (output_good p (esc l) NString s1 s2 eq_refl H2) as G2.
  destruct lines as [|l2 lines].
  - cbn [str_lines] in H3. inversion H3; subst s'. cbn [map join_nl]. apply (good_seq s s1 s2); assumption.
  - pose proof (IH false s2 s' ltac:(discriminate) H3) as G3.
    change (map esc (l :: l2 :: lines)) with (esc l :: map esc (l2 :: lines)).
    rewrite join_cons_nonempty by discriminate.
    pose proof (good_seq _ _ _ _ _ (good_seq _ _ _ _ _ G1 G2) G3) as G.
    match type of G with good _ _ ?t =>
      replace ((if first then [] else [NL]) ++ esc l ++ NL :: join_nl (map esc (l2 :: lines))) with t; [exact G|]
    end.
    rewrite <- app_assoc. reflexivity.
Qed.

Lemma exec_str_good p b raw s s' :
  exec_str p b raw s = (s', None) -> exists t, good s s' t /\ (t = lit_single b raw \/ t = lit_triple b raw).
Proof.
  unfold exec_str. intros H.
  apply andthen_none in H. destruct H as [s1 [H1 H]].
  apply andthen_none in H. destruct H as [s2 [H2 H]].
  apply andthen_none in H. destruct H as [s3 [H3 H4]].
  pose proof (output_good p _ NText s s1 eq_refl H1) as G1.
  pose proof (output_good p _ NQuote s1 s2 eq_refl H2) as G2.
  pose proof (output_good p _ NQuote s3 s' eq_refl H4) as G4.
  assert (Hl : (if lbok s then split_nl raw else [raw]) <> []).
  { destruct (lbok s); [apply split_nl_nonempty|discriminate]. }
  pose proof (str_lines_good p _ _ true s2 s3 Hl H3) as G3. cbn [app] in G3.
  pose proof (good_seq _ _ _ _ _ (good_seq _ _ _ _ _ (good_seq _ _ _ _ _ G1 G2) G3) G4) as G.
  eexists. split; [exact G|].
  unfold lit_single, lit_triple, lit_prefix, lit_esc, SQ3, SQ.
  destruct (lbok s).
  - destruct (has_nl raw) eqn:En; cbn [andb].
    + right. destruct b; rewrite <- !app_assoc; reflexivity.
    + left. rewrite (split_nl_single raw En). cbn [map join_nl]. destruct b; rewrite <- !app_assoc; reflexivity.
  - rewrite andb_false_r. left. cbn [map join_nl]. destruct b; rewrite <- !app_assoc; reflexivity.
Qed.

Lemma insert_comma_good p indent s s' :
  insert_comma p indent s = (s', None) ->
  exists t, good s s' t /\ (t = [44; 32] \/ exists n, t = 44 :: NL :: spaces n).
Proof.
  unfold insert_comma. destruct (lbok s); intros H.
  - apply andthen_none in H. destruct H as [s1 [H1 H2]].
    pose proof (good_seq _ _ _ _ _ (output_good p _ NText s s1 eq_refl H1) (output_good p _ NText s1 s' eq_refl H2)) as G.
    eexists. split; [exact G|]. right. exists indent. reflexivity.
  - eexists. split; [apply (output_good p _ NText s s' eq_refl H)|]. left. reflexivity.
Qed.

Definition LaySt (c : cmd) : Prop :=
  plain_cmd c = true -> forall p indent s s', exec p indent c s = (s', None) -> exists t, good s s' t /\ flatP c t.

(* every run that ends normally has emitted, markers aside, one of the layouts of the tree *)
Lemma exec_layout c : LaySt c.
Proof.
  induction c using cmd_ind2; unfold LaySt; intros Hp p indent s s' Hex.
  - cbn [exec] in Hex. exists t. split; [apply (output_good p t k s s' Hp Hex)|reflexivity].
  - cbn [exec] in Hex. apply exec_str_good in Hex. exact Hex.
  - cbn [exec] in Hex. inversion Hex; subst. exists []. split; [|reflexivity].
    exists [WBR]. split; [reflexivity|]. split; reflexivity.
  - rewrite exec_CSeq in Hex. cbn [plain_cmd] in Hp.
    assert (Hs : exists t, good s s' t /\ seqP cs t).
    { revert s Hex. induction cs as [|c1 cs IHcs]; intros s Hx.
      + cbn in Hx. inversion Hx; subst. exists []. split; [apply good_refl|reflexivity].
      + inversion H as [|? ? H1 H2]; subst. cbn [forallb] in Hp. apply andb_true_iff in Hp. destruct Hp as [Hp1 Hp2].
        cbn [exec_seq] in Hx. apply andthen_none in Hx. destruct Hx as [s1 [Hx1 Hx2]].
        destruct (H1 Hp1 p indent s s1 Hx1) as [t1 [G1 F1]].
        destruct (IHcs H2 Hp2 s1 Hx2) as [t2 [G2 F2]].
        exists (t1 ++ t2). split; [apply (good_seq s s1 s'); assumption|].
        cbn [seqP]. exists t1, t2. auto. }
    destruct Hs as [t [G F]]. exists t. split; [exact G|]. rewrite flatP_CSeq. exact F.
  - cbn [plain_cmd] in Hp. cbn [exec] in Hex. destruct b.
    + destruct (exec p indent c s) as [s1 r] eqn:E.
      destruct (exec_ext c Hp p indent s) as [a Ha]. rewrite E in Ha. cbn [fst] in Ha.
      unfold delim_exit, restore, mark_of in Hex. cbn [m_len m_charpos m_lineno m_lbok] in Hex.
      rewrite Ha in Hex. rewrite firstn_app_exact, skipn_app_exact in Hex.
      set (s2 := St (Wrap.res s) (charpos s) (lineno s) (lbok s)) in Hex.
      destruct (output p [40] NText s2) as [s3 [e|]] eqn:E3; [discriminate|].
      destruct (output p [41] NText (push s3 a)) as [s5 [e|]] eqn:E5; [discriminate|].
      inversion Hex; subst s' r.
      destruct (IHc Hp p indent s s1 E) as [t1 [[a' [Ha' [Ca' Ua']]] F1]].
      assert (a' = a) by (rewrite Ha in Ha'; apply app_inv_head in Ha'; congruence). subst a'.
      pose proof (output_good p [40] NText s2 s3 eq_refl E3) as G3.
      pose proof (output_good p [41] NText (push s3 a) s5 eq_refl E5) as G5.
      assert (Gm : good s3 (push s3 a) t1) by (exists a; auto).
      pose proof (good_seq _ _ _ _ _ (good_seq _ _ _ _ _ G3 Gm) G5) as G.
      exists (([40] ++ t1) ++ [41]). split; [apply (good_same_res s2 s); [reflexivity|exact G]|].
      cbn [flatP]. exists t1. split; [rewrite <- app_assoc; reflexivity|exact F1].
    + apply (IHc Hp p indent s s' Hex).
  - cbn [plain_cmd] in Hp. cbn [exec flatP] in *.
    destruct (exec p indent c (with_lbok s false)) as [s1 r] eqn:E.
    destruct r as [e|].
    + destruct e; try discriminate.
      destruct (negb (lbok s)); [discriminate|].
      destruct (exec_ext c Hp p indent (with_lbok s false)) as [a Ha]. rewrite E in Ha. cbn [fst] in Ha.
      unfold with_lbok in Ha. cbn [Wrap.res] in Ha.
      unfold restore, mark_of in Hex. cbn [fst m_len m_charpos m_lineno m_lbok] in Hex. rewrite Ha, firstn_app_exact in Hex.
      destruct (IHc Hp p indent _ s' Hex) as [t [G F]].
      exists t. split; [apply (good_same_res _ s s' t eq_refl G)|exact F].
    + inversion Hex; subst s'.
      destruct (IHc Hp p indent (with_lbok s false) s1 E) as [t [[a [Ha [Ca Ua]]] F]].
      exists t. split; [exists a; unfold with_lbok in *; cbn [Wrap.res] in *; auto|exact F].
  - cbn [plain_cmd] in Hp. cbn [exec flatP] in *. apply (IHc Hp p (charpos s) s s' Hex).
  - cbn [exec] in Hex. apply insert_comma_good in Hex. exact Hex.
Qed.

(* C15_wrap_layout: when colorize says is_complete, what was emitted is -- LINEWRAP markers and the newlines after them
   removed -- one of the layouts of the tree of output calls *)
Theorem complete_layout p c :
  plain_cmd c = true -> c_complete (colorize p c) = true -> flatP c (unwrap (c_nodes (colorize p c))).
Proof.
  intros Hp Hc. unfold colorize in *. destruct (exec p 0 c (init_st p)) as [s r] eqn:E. destruct r as [e|].
  - destruct (lbparam p); [discriminate|].
    destruct (trim_rev 3 false
                match rev (Wrap.res s) with
                | [] => rev (Wrap.res s)
                | n :: rest => if is_linewrap n then rest else rev (Wrap.res s)
                end); discriminate.
  - cbn [c_nodes]. destruct (exec_layout c Hp p 0 (init_st p) s E) as [t [[a [Ha [Ca Ua]]] F]].
    cbn [init_st Wrap.res app] in Ha. rewrite Ha, Ua. exact F.
Qed.
