(* Proofs/ProjectRegistry.v -- the registry of Model/Project.v is the static one (Spec/ProjectStatic.v) whatever the
   processing order, for projects whose qualified names are distinct and in which no import re-exports. *)
From Coq Require Import ZArith NArith List Bool Lia Permutation.
From PydoctorVerif Require Import Base.Sexp Model.Project Spec.ProjectStatic Proofs.ProjectBase.
Import ListNotations.
Local Open Scope N_scope.

(* ---------------------------------------------------------------- small facts about the store *)
Lemma objs_set_obj s o ob x : objs (set_obj s o ob) x = if oid_eqb x o then Some ob else objs s x.
Proof. reflexivity. Qed.
Lemma objs_set_obj_same s o ob : objs (set_obj s o ob) o = Some ob.
Proof. rewrite objs_set_obj, oid_eqb_refl. reflexivity. Qed.
Lemma objs_set_obj_other s o ob x : x <> o -> objs (set_obj s o ob) x = objs s x.
Proof. intros H. rewrite objs_set_obj, (oid_eqb_neq x o H). reflexivity. Qed.
Lemma upd_obj_some s o f ob : objs s o = Some ob -> upd_obj s o f = set_obj s o (f ob).
Proof. unfold upd_obj. intros ->. reflexivity. Qed.
Lemma upd_obj_none s o f : objs s o = None -> upd_obj s o f = s.
Proof. unfold upd_obj. intros ->. reflexivity. Qed.
Lemma allobjs_set_obj s o ob : allobjs (set_obj s o ob) = allobjs s.
Proof. reflexivity. Qed.
Lemma allobjs_upd_obj s o f : allobjs (upd_obj s o f) = allobjs s.
Proof. unfold upd_obj. destruct (objs s o); reflexivity. Qed.
Lemma dfuel_upd_obj s o f : dfuel (upd_obj s o f) = dfuel s.
Proof. unfold upd_obj. destruct (objs s o); reflexivity. Qed.

(* functions on objects that keep everything the registry depends on *)
Definition keeps (f : obj -> obj) : Prop :=
  forall ob, o_tag (f ob) = o_tag ob /\ o_kind (f ob) = o_kind ob /\ o_name (f ob) = o_name ob /\
             o_parent (f ob) = o_parent ob /\ o_contents (f ob) = o_contents ob.
Lemma keeps_with_alias a : keeps (with_alias a).
Proof. intros ob. repeat split. Qed.
Lemma keeps_with_doc d : keeps (with_doc d).
Proof. intros ob. repeat split. Qed.
Lemma keeps_with_all a : keeps (with_all a).
Proof. intros ob. repeat split. Qed.
Lemma keeps_comp f g : keeps f -> keeps g -> keeps (fun ob => f (g ob)).
Proof.
  intros Hf Hg ob. destruct (Hf (g ob)) as (A1 & A2 & A3 & A4 & A5). destruct (Hg ob) as (B1 & B2 & B3 & B4 & B5).
  repeat split; congruence.
Qed.

Section ObjectInvariant.
  Variable p : project.
  (* expected name and parent of the objects of the static domain *)
  Variables (nm : oid -> N) (par : oid -> option oid).

  Definition key (o : oid) : path := qname_f nm par (depth_fuel p) o.

  Hypothesis key_inj : forall o o', sobj p o <> None -> sobj p o' <> None -> key o = key o' -> o = o'.

  (* the object part: who exists (C), with which tag, kind, name, parent; what `contents` may hold *)
  Record OA (C : oid -> Prop) (s : state) : Prop := {
    oa_fuel : dfuel s = depth_fuel p;
    oa_dom : forall o, C o -> sobj p o <> None;
    oa_exists : forall o, objs s o <> None <-> C o;
    oa_static : forall o ob si, objs s o = Some ob -> sobj p o = Some si ->
                                o_tag ob = s_tag si /\ o_kind ob = s_kind si /\ o_name ob = nm o /\ o_parent ob = par o /\
                                (snd (fst o) <> 0 -> o_doc ob = s_doc si);
    oa_closed : forall o q, C o -> par o = Some q -> C q;
    oa_contents : forall S ob n o, objs s S = Some ob -> nget n (o_contents ob) = Some o ->
                                   C o /\ par o = Some S /\ nm o = n;
    oa_complete : forall o S, C o -> par o = Some S ->
                              exists sb, objs s S = Some sb /\ nget (nm o) (o_contents sb) = Some o;
    oa_cnodup : forall S sb, objs s S = Some sb -> NoDup (map fst (o_contents sb)) }.

  (* the registry part: System.allobjects is exactly { key o -> o | o exists } *)
  Record OR (C : oid -> Prop) (s : state) : Prop := {
    or_sound : forall k o, pget k (allobjs s) = Some o -> C o /\ key o = k;
    or_complete : forall o, C o -> pget (key o) (allobjs s) = Some o;
    or_nodup : NoDup (map fst (allobjs s)) }.

  Lemma OA_ext C C' s : (forall o, C o <-> C' o) -> OA C s -> OA C' s.
  Proof.
    intros He [H1 H2 H3 H4 H5 H6 H7 H8]. constructor.
    - exact H1.
    - intros o Ho. apply H2, He, Ho.
    - intros o. rewrite H3. apply He.
    - exact H4.
    - intros o q Ho Hq. apply He. eapply H5; [apply He; exact Ho|exact Hq].
    - intros S ob n o Hs Hn. destruct (H6 S ob n o Hs Hn) as (A & B & D). split; [apply He; exact A|auto].
    - intros o S Ho Hp. apply H7; [apply He; exact Ho|exact Hp].
    - exact H8.
  Qed.
  Lemma OR_ext C C' s : (forall o, C o <-> C' o) -> OR C s -> OR C' s.
  Proof.
    intros He [H1 H2 H3]. constructor.
    - intros k o Hk. destruct (H1 k o Hk) as [A B]. split; [apply He; exact A|exact B].
    - intros o Ho. apply H2, He, Ho.
    - exact H3.
  Qed.

  Lemma full_name_key C s o : OA C s -> C o -> full_name s o = key o.
  Proof.
    intros HA. unfold full_name, key. rewrite (oa_fuel C s HA). generalize (depth_fuel p) as f.
    intros f. revert o. induction f as [|f IH]; intros o Ho; cbn [full_name_f qname_f]; [reflexivity|].
    destruct (objs s o) as [ob|] eqn:Eo; [|exfalso; apply (oa_exists C s HA o) in Ho; congruence].
    destruct (sobj p o) as [si|] eqn:Es; [|exfalso; apply (oa_dom C s HA o Ho); exact Es].
    destruct (oa_static C s HA o ob si Eo Es) as (_ & _ & Hn & Hp & _). rewrite Hn, Hp.
    destruct (par o) as [q|] eqn:Eq; [|reflexivity].
    rewrite (IH q (oa_closed C s HA o q Ho Eq)). reflexivity.
  Qed.

  Lemma key_same o o' : par o = par o' -> nm o = nm o' -> key o = key o'.
  Proof. unfold key, depth_fuel. rewrite Nat.add_comm. cbn [Nat.add qname_f]. intros -> ->. reflexivity. Qed.

  (* an update that keeps tag, kind, name, parent and contents keeps both parts *)
  Lemma OA_upd C s o f :
    keeps f -> (snd (fst o) = 0 \/ forall ob, o_doc (f ob) = o_doc ob) -> OA C s -> OA C (upd_obj s o f).
  Proof.
    intros Hk Hd HA. destruct (objs s o) as [ob|] eqn:Eo; [|rewrite (upd_obj_none s o f Eo); exact HA].
    rewrite (upd_obj_some s o f ob Eo). destruct (Hk ob) as (K1 & K2 & K3 & K4 & K5).
    destruct HA as [H1 H2 H3 H4 H5 H6 H7 H8]. constructor.
    - exact H1.
    - exact H2.
    - intros x. rewrite objs_set_obj. destruct (oid_eqb x o) eqn:E; [|apply H3].
      apply oid_eqb_eq in E. subst x. split; [intros _; apply H3; congruence|discriminate].
    - intros x xb si. rewrite objs_set_obj. destruct (oid_eqb x o) eqn:E; [|apply H4].
      apply oid_eqb_eq in E. subst x. intros Hx Hs. inversion Hx; subst xb. rewrite K1, K2, K3, K4.
      destruct (H4 o ob si Eo Hs) as (A1 & A2 & A3 & A4 & A5). repeat split; try assumption.
      intros Hnz. destruct Hd as [Hz|Hd]; [contradiction|]. rewrite Hd. apply A5. exact Hnz.
    - exact H5.
    - intros S sb n x. rewrite objs_set_obj. destruct (oid_eqb S o) eqn:E; [|apply H6].
      apply oid_eqb_eq in E. subst S. intros Hx. inversion Hx; subst sb. rewrite K5. eapply H6; eassumption.
    - intros x S Hx Hp. destruct (H7 x S Hx Hp) as (sb & Hs & Hn). rewrite objs_set_obj.
      destruct (oid_eqb S o) eqn:E; [|exists sb; auto].
      apply oid_eqb_eq in E. subst S. rewrite Eo in Hs. inversion Hs; subst sb. exists (f ob). rewrite K5. auto.
    - intros S sb. rewrite objs_set_obj. destruct (oid_eqb S o) eqn:E; [|apply H8].
      apply oid_eqb_eq in E. subst S. intros Hx. inversion Hx; subst sb. rewrite K5. eapply H8; eassumption.
  Qed.
  Lemma OR_upd C s o f : OR C s -> OR C (upd_obj s o f).
  Proof. intros [H1 H2 H3]. constructor; rewrite allobjs_upd_obj; assumption. Qed.

  (* System.addObject of a NEW object of the static domain below an existing parent *)
  Lemma add_object_new C s o ob si P :
    OA C s -> OR C s -> ~ C o -> sobj p o = Some si -> par o = Some P -> C P ->
    o_tag ob = s_tag si -> o_kind ob = s_kind si -> o_name ob = nm o -> o_parent ob = Some P -> o_contents ob = [] ->
    (snd (fst o) <> 0 -> o_doc ob = s_doc si) ->
    let C' := fun x => C x \/ x = o in
    OA C' (add_object s o ob) /\ OR C' (add_object s o ob) /\
    (forall x, x <> o -> x <> P -> objs (add_object s o ob) x = objs s x) /\
    objs (add_object s o ob) o = Some ob /\
    (exists pb, objs s P = Some pb /\
                objs (add_object s o ob) P = Some (with_contents (nset (nm o) o (o_contents pb)) pb)).
  Proof.
    intros HA HR HnC Hs Hpar HP Htag Hkind Hname Hparent Hcont Hdoc C'.
    assert (HPo : P <> o) by (intros ->; contradiction).
    destruct (objs s P) as [pb|] eqn:EP; [|exfalso; apply (oa_exists C s HA P) in HP; congruence].
    unfold add_object. cbv zeta. rewrite Hparent.
    assert (E1 : objs (set_obj s o ob) P = Some pb) by (rewrite objs_set_obj_other by exact HPo; exact EP).
    rewrite (upd_obj_some _ P _ pb E1). rewrite Hname.
    set (pb' := with_contents (nset (nm o) o (o_contents pb)) pb).
    set (s2 := set_obj (set_obj s o ob) P pb').
    assert (O2 : forall x, objs s2 x = if oid_eqb x P then Some pb' else if oid_eqb x o then Some ob else objs s x)
      by (intros x; reflexivity).
    assert (HA2 : OA C' s2).
    { assert (Hfree : nget (nm o) (o_contents pb) = None).
      { destruct (nget (nm o) (o_contents pb)) as [ex|] eqn:E; [|reflexivity]. exfalso.
        destruct (oa_contents C s HA P pb (nm o) ex EP E) as (Cex & Pex & Nex).
        assert (ex = o) by (apply key_inj; [apply (oa_dom C s HA); exact Cex|congruence|apply key_same; congruence]).
        subst ex. contradiction. }
      destruct HA as [H1 H2 H3 H4 H5 H6 H7 H8]. constructor.
      - exact H1.
      - intros x [Hx| ->]; [apply H2; exact Hx|congruence].
      - intros x. rewrite O2. unfold C'. destruct (oid_eqb x P) eqn:E1'.
        + apply oid_eqb_eq in E1'. subst x. split; [intros _; left; exact HP|discriminate].
        + destruct (oid_eqb x o) eqn:E2.
          * apply oid_eqb_eq in E2. subst x. split; [intros _; right; reflexivity|discriminate].
          * rewrite H3. split; [tauto|]. intros [Hx| ->]; [exact Hx|rewrite oid_eqb_refl in E2; discriminate].
      - intros x xb sx. rewrite O2. destruct (oid_eqb x P) eqn:E1'.
        + apply oid_eqb_eq in E1'. subst x. intros Hx Hsx. inversion Hx; subst xb. unfold pb'.
          cbn [with_contents o_tag o_kind o_name o_parent o_doc].
          eapply H4; eassumption.
        + destruct (oid_eqb x o) eqn:E2; [|apply H4].
          apply oid_eqb_eq in E2. subst x. intros Hx Hsx. inversion Hx; subst xb. rewrite Hs in Hsx. inversion Hsx; subst sx.
          rewrite Hpar. repeat split; auto.
      - intros x q [Hx| ->] Hq; [left; eapply H5; eassumption|]. rewrite Hpar in Hq. inversion Hq; subst q. left. exact HP.
      - intros S sb n x. rewrite O2. destruct (oid_eqb S P) eqn:E1'.
        + apply oid_eqb_eq in E1'. subst S. intros Hx. inversion Hx; subst sb. unfold pb'. cbn [with_contents o_contents].
          destruct (N.eq_dec n (nm o)) as [->|Hne].
          * rewrite nget_nset_same. intros Hy. inversion Hy; subst x. split; [right; reflexivity|auto].
          * rewrite nget_nset_other by exact Hne. intros Hy. destruct (H6 P pb n x EP Hy) as (A & B & D).
            split; [left; exact A|auto].
        + destruct (oid_eqb S o) eqn:E2.
          * intros Hx. inversion Hx; subst sb. rewrite Hcont. cbn. discriminate.
          * intros Hx Hy. destruct (H6 S sb n x Hx Hy) as (A & B & D). split; [left; exact A|auto].
      - intros x S [Hx| ->] Hp.
        + destruct (H7 x S Hx Hp) as (sb & Hsb & Hn). rewrite O2.
          destruct (oid_eqb S P) eqn:E1'.
          * apply oid_eqb_eq in E1'. subst S. rewrite EP in Hsb. inversion Hsb; subst sb. exists pb'. split; [reflexivity|].
            unfold pb'. cbn [with_contents o_contents]. rewrite nget_nset_other; [exact Hn|].
            intros E. rewrite E in Hn. congruence.
          * destruct (oid_eqb S o) eqn:E2; [|exists sb; auto].
            apply oid_eqb_eq in E2. subst S. exfalso. apply HnC. apply H3. congruence.
        + rewrite Hpar in Hp. inversion Hp; subst S. rewrite O2, oid_eqb_refl. exists pb'. split; [reflexivity|].
          unfold pb'. cbn [with_contents o_contents]. apply nget_nset_same.
      - intros S sb. rewrite O2. destruct (oid_eqb S P) eqn:E1'.
        + intros Hx. inversion Hx; subst sb. unfold pb'. cbn [with_contents o_contents]. apply nset_keys_nodup.
          eapply H8; exact EP.
        + destruct (oid_eqb S o) eqn:E2; [|apply H8]. intros Hx. inversion Hx; subst sb. rewrite Hcont. constructor. }
    assert (Hk : full_name s2 o = key o) by (apply (full_name_key C' s2 o HA2); right; reflexivity).
    rewrite Hk.
    assert (Hnone : pget (key o) (allobjs s) = None).
    { destruct (pget (key o) (allobjs s)) as [first|] eqn:Ef; [|reflexivity]. exfalso.
      destruct (or_sound C s HR _ _ Ef) as [Cf Kf].
      assert (first = o).
      { apply key_inj; [apply (oa_dom C s HA); exact Cf|congruence|exact Kf]. }
      subst first. contradiction. }
    change (allobjs s2) with (allobjs s). rewrite Hnone.
    split; [|split; [|split; [|split]]].
    - destruct HA2 as [H1 H2 H3 H4 H5 H6 H7 H8]. constructor; assumption.
    - constructor; [| |cbn [set_all allobjs]; change (allobjs s2) with (allobjs s); rewrite map_app; cbn [map fst];
                        apply NoDup_app_snoc; [exact (or_nodup C s HR)|apply pget_None_notin; exact Hnone]].
      + intros k x. cbn [set_all allobjs]. change (allobjs s2) with (allobjs s). rewrite pget_app.
        destruct (pget k (allobjs s)) as [y|] eqn:Ey.
        * intros Hx. inversion Hx; subst y. destruct (or_sound C s HR _ _ Ey) as [A B]. split; [left; exact A|exact B].
        * cbn [pget]. destruct (path_eqb (key o) k) eqn:Ek; [|discriminate].
          apply path_eqb_eq in Ek. intros Hx. inversion Hx; subst x. split; [right; reflexivity|exact Ek].
      + intros x Hx. cbn [set_all allobjs]. change (allobjs s2) with (allobjs s). rewrite pget_app.
        destruct Hx as [Hx| ->].
        * rewrite (or_complete C s HR x Hx). reflexivity.
        * rewrite Hnone. cbn [pget]. rewrite path_eqb_refl. reflexivity.
    - intros x Hxo HxP. cbn [set_all objs]. rewrite O2, (oid_eqb_neq x P HxP), (oid_eqb_neq x o Hxo). reflexivity.
    - cbn [set_all objs]. rewrite O2, (oid_eqb_neq o P (fun e => HPo (eq_sym e))), oid_eqb_refl. reflexivity.
    - exists pb. split; [reflexivity|]. cbn [set_all objs]. rewrite O2, oid_eqb_refl. reflexivity.
  Qed.

  Lemma key_root o : par o = None -> key o = [nm o].
  Proof. intros H. unfold key, depth_fuel. rewrite Nat.add_comm. cbn [Nat.add qname_f]. rewrite H. reflexivity. Qed.

  (* registration of a NEW root object (a top-level module) *)
  Lemma add_root_new C s o ob si :
    OA C s -> OR C s -> ~ C o -> sobj p o = Some si -> par o = None ->
    o_tag ob = s_tag si -> o_kind ob = s_kind si -> o_name ob = nm o -> o_parent ob = None -> o_contents ob = [] ->
    (snd (fst o) <> 0 -> o_doc ob = s_doc si) ->
    let C' := fun x => C x \/ x = o in
    let s' := set_all (set_obj s o ob) (allobjs s ++ [(key o, o)]) in
    pget (key o) (allobjs s) = None /\ OA C' s' /\ OR C' s'.
  Proof.
    intros HA HR HnC Hs Hpar Htag Hkind Hname Hparent Hcont Hdoc C' s'.
    assert (Hnone : pget (key o) (allobjs s) = None).
    { destruct (pget (key o) (allobjs s)) as [first|] eqn:Ef; [|reflexivity]. exfalso.
      destruct (or_sound C s HR _ _ Ef) as [Cf Kf].
      assert (first = o) by (apply key_inj; [apply (oa_dom C s HA); exact Cf|congruence|exact Kf]).
      subst first. contradiction. }
    split; [exact Hnone|]. split.
    - destruct HA as [H1 H2 H3 H4 H5 H6 H7 H8]. constructor.
      + exact H1.
      + intros x [Hx| ->]; [apply H2; exact Hx|congruence].
      + intros x. unfold s', C'. cbn [set_all objs]. rewrite objs_set_obj. destruct (oid_eqb x o) eqn:E.
        * apply oid_eqb_eq in E. subst x. split; [intros _; right; reflexivity|discriminate].
        * rewrite H3. split; [tauto|]. intros [Hx| ->]; [exact Hx|rewrite oid_eqb_refl in E; discriminate].
      + intros x xb sx. unfold s'. cbn [set_all objs]. rewrite objs_set_obj. destruct (oid_eqb x o) eqn:E; [|apply H4].
        apply oid_eqb_eq in E. subst x. intros Hx Hsx. inversion Hx; subst xb. rewrite Hs in Hsx. inversion Hsx; subst sx.
        rewrite Hpar. repeat split; auto.
      + intros x q [Hx| ->] Hq; [left; eapply H5; eassumption|congruence].
      + intros S sb n x. unfold s'. cbn [set_all objs]. rewrite objs_set_obj. destruct (oid_eqb S o) eqn:E.
        * intros Hx. inversion Hx; subst sb. rewrite Hcont. cbn. discriminate.
        * intros Hx Hy. destruct (H6 S sb n x Hx Hy) as (A & B & D). split; [left; exact A|auto].
      + intros x S [Hx| ->] Hp; [|congruence].
        destruct (H7 x S Hx Hp) as (sb & Hsb & Hn). unfold s'. cbn [set_all objs]. rewrite objs_set_obj.
        destruct (oid_eqb S o) eqn:E; [|exists sb; auto].
        apply oid_eqb_eq in E. subst S. exfalso. apply HnC. apply H3. congruence.
      + intros S sb. unfold s'. cbn [set_all objs]. rewrite objs_set_obj. destruct (oid_eqb S o); [|apply H8].
        intros Hx. inversion Hx; subst sb. rewrite Hcont. constructor.
    - constructor; [| |unfold s'; cbn [set_all allobjs]; rewrite map_app; cbn [map fst];
                        apply NoDup_app_snoc; [exact (or_nodup C s HR)|apply pget_None_notin; exact Hnone]].
      + intros k x. unfold s'. cbn [set_all allobjs]. rewrite pget_app.
        destruct (pget k (allobjs s)) as [y|] eqn:Ey.
        * intros Hx. inversion Hx; subst y. destruct (or_sound C s HR _ _ Ey) as [A B]. split; [left; exact A|exact B].
        * cbn [pget]. destruct (path_eqb (key o) k) eqn:Ek; [|discriminate].
          apply path_eqb_eq in Ek. intros Hx. inversion Hx; subst x. split; [right; reflexivity|exact Ek].
      + intros x Hx. unfold s'. cbn [set_all allobjs]. rewrite pget_app. destruct Hx as [Hx| ->].
        * rewrite (or_complete C s HR x Hx). reflexivity.
        * rewrite Hnone. cbn [pget]. rewrite path_eqb_refl. reflexivity.
  Qed.

  (* what a transition leaves untouched on the objects that already exist: docstring, __all__, alias map *)
  Definition meta_pres (s s' : state) : Prop :=
    forall o ob, objs s o = Some ob ->
                 exists ob', objs s' o = Some ob' /\ o_doc ob' = o_doc ob /\ o_all ob' = o_all ob /\ o_alias ob' = o_alias ob.
  Lemma meta_pres_refl s : meta_pres s s.
  Proof. intros o ob H. exists ob. auto. Qed.
  Lemma meta_pres_trans a b c : meta_pres a b -> meta_pres b c -> meta_pres a c.
  Proof.
    intros H1 H2 o ob Ho. destruct (H1 o ob Ho) as (ob1 & E1 & A1 & A2 & A3).
    destruct (H2 o ob1 E1) as (ob2 & E2 & B1 & B2 & B3). exists ob2. repeat split; congruence.
  Qed.

  (* the same, except that the alias map of ONE object (the module being walked) may change *)
  Definition meta_weak (cur : oid) (s s' : state) : Prop :=
    forall o ob, objs s o = Some ob ->
                 exists ob', objs s' o = Some ob' /\ o_doc ob' = o_doc ob /\ o_all ob' = o_all ob /\
                             (o <> cur -> o_alias ob' = o_alias ob).
  Lemma meta_weak_refl cur s : meta_weak cur s s.
  Proof. intros o ob H. exists ob. auto. Qed.
  Lemma meta_weak_trans cur a b c : meta_weak cur a b -> meta_weak cur b c -> meta_weak cur a c.
  Proof.
    intros H1 H2 o ob Ho. destruct (H1 o ob Ho) as (ob1 & E1 & A1 & A2 & A3).
    destruct (H2 o ob1 E1) as (ob2 & E2 & B1 & B2 & B3). exists ob2. repeat split; try congruence.
    intros Hne. rewrite (B3 Hne). apply A3. exact Hne.
  Qed.
  Lemma meta_pres_weak cur s s' : meta_pres s s' -> meta_weak cur s s'.
  Proof. intros H o ob Ho. destruct (H o ob Ho) as (ob' & E & A1 & A2 & A3). exists ob'. auto. Qed.

  Lemma add_object_new_meta C s o ob si P :
    OA C s -> OR C s -> ~ C o -> sobj p o = Some si -> par o = Some P -> C P ->
    o_tag ob = s_tag si -> o_kind ob = s_kind si -> o_name ob = nm o -> o_parent ob = Some P -> o_contents ob = [] ->
    (snd (fst o) <> 0 -> o_doc ob = s_doc si) ->
    meta_pres s (add_object s o ob).
  Proof.
    intros HA HR HnC Hs Hpar HP Htag Hkind Hname Hparent Hcont Hdoc.
    destruct (add_object_new C s o ob si P HA HR HnC Hs Hpar HP Htag Hkind Hname Hparent Hcont Hdoc)
      as (_ & _ & Hoth & _ & (pb & EP & EP')).
    intros x xb Hx. destruct (oid_eq_dec x o) as [->|Hxo].
    - exfalso. apply HnC. apply (oa_exists C s HA). congruence.
    - destruct (oid_eq_dec x P) as [->|HxP].
      + rewrite EP in Hx. inversion Hx; subst xb. eexists. split; [exact EP'|]. repeat split.
      + exists xb. rewrite (Hoth x Hxo HxP). auto.
  Qed.

  Lemma upd_keeps_all C s o f :
    keeps f -> (forall ob, o_doc (f ob) = o_doc ob /\ o_all (f ob) = o_all ob) -> OA C s -> OR C s ->
    OA C (upd_obj s o f) /\ OR C (upd_obj s o f) /\ meta_weak o s (upd_obj s o f).
  Proof.
    intros Hk Hd HA HR. split; [apply OA_upd; [exact Hk|right; intros ob; apply Hd|exact HA]|].
    split; [apply OR_upd; exact HR|].
    intros x xb Hx. destruct (objs s o) as [ob|] eqn:Eo; [|rewrite (upd_obj_none s o f Eo); exists xb; auto].
    rewrite (upd_obj_some s o f ob Eo). destruct (oid_eq_dec x o) as [->|Hne].
    - rewrite objs_set_obj_same. rewrite Eo in Hx. inversion Hx; subst xb. exists (f ob). destruct (Hd ob).
      repeat split; auto. intros Hc. contradiction.
    - rewrite objs_set_obj_other by exact Hne. exists xb. auto.
  Qed.

  (* ---- statements that define objects ---- *)
  Lemma sobj_stmt m i j st : stmt_at p m i = Some st -> sobj p (m, i, j) = stmt_info m i j st.
  Proof.
    intros H. unfold sobj. destruct (N.eqb i 0) eqn:Ei.
    - unfold stmt_at in H. destruct (modinfo_of p m); [|discriminate]. rewrite Ei in H. discriminate.
    - rewrite H. reflexivity.
  Qed.

  Lemma name_free_in_contents C s S ob n o :
    OA C s -> objs s S = Some ob -> sobj p o <> None -> ~ C o -> par o = Some S -> nm o = n ->
    nget n (o_contents ob) = None.
  Proof.
    intros HA HS Hdom HnC Hpar Hnm. destruct (nget n (o_contents ob)) as [ex|] eqn:E; [|reflexivity]. exfalso.
    destruct (oa_contents C s HA S ob n ex HS E) as (Cex & Pex & Nex).
    assert (ex = o).
    { apply key_inj; [apply (oa_dom C s HA); exact Cex|exact Hdom|]. apply key_same; congruence. }
    subst ex. contradiction.
  Qed.

  Lemma exec_func_new C s m i name doc :
    OA C s -> OR C s -> stmt_at p m i = Some (SFunc name doc) -> ~ C (m, i, 0) -> C (m, 0, 0) ->
    nm (m, i, 0) = name -> par (m, i, 0) = Some (m, 0, 0) ->
    let C' := fun x => C x \/ x = (m, i, 0) in
    let s' := exec_stmt s m i (SFunc name doc) in
    OA C' s' /\ OR C' s' /\ meta_pres s s'.
  Proof.
    intros HA HR Hst HnC HP Hn Hp C' s'. subst s'. cbn [exec_stmt]. cbv zeta.
    pose proof (sobj_stmt m i 0 _ Hst) as Hs. cbn [stmt_info N.eqb] in Hs.
    set (ob := new_obj T_FUNCTION K_FUNCTION name (Some (m, 0, 0)) doc).
    destruct (add_object_new C s (m, i, 0) ob _ (m, 0, 0) HA HR HnC Hs Hp HP eq_refl eq_refl (eq_sym Hn) eq_refl eq_refl (fun _ => eq_refl))
      as (A & B & _).
    split; [exact A|]. split; [exact B|].
    eapply add_object_new_meta; try eassumption; try reflexivity. symmetry; exact Hn.
  Qed.

  Lemma exec_var_new C s m i name doc :
    OA C s -> OR C s -> stmt_at p m i = Some (SVar name doc) -> ~ C (m, i, 0) -> C (m, 0, 0) ->
    nm (m, i, 0) = name -> par (m, i, 0) = Some (m, 0, 0) ->
    let C' := fun x => C x \/ x = (m, i, 0) in
    let s' := exec_stmt s m i (SVar name doc) in
    OA C' s' /\ OR C' s' /\ meta_pres s s'.
  Proof.
    intros HA HR Hst HnC HP Hn Hp C' s'. subst s'. cbn [exec_stmt]. cbv zeta.
    pose proof (sobj_stmt m i 0 _ Hst) as Hs. cbn [stmt_info N.eqb] in Hs.
    destruct (objs s (m, 0, 0)) as [mb|] eqn:Em; [|exfalso; apply (oa_exists C s HA) in HP; congruence].
    unfold contents_of. rewrite Em.
    rewrite (name_free_in_contents C s (m, 0, 0) mb name (m, i, 0) HA Em ltac:(congruence) HnC Hp Hn).
    set (ob := new_obj T_ATTRIBUTE K_VARIABLE name (Some (m, 0, 0)) doc).
    destruct (add_object_new C s (m, i, 0) ob _ (m, 0, 0) HA HR HnC Hs Hp HP eq_refl eq_refl (eq_sym Hn) eq_refl eq_refl (fun _ => eq_refl))
      as (A & B & _).
    split; [exact A|]. split; [exact B|].
    eapply add_object_new_meta; try eassumption; try reflexivity. symmetry; exact Hn.
  Qed.

  (* ---- class statements: the class, then its members one by one ---- *)
  Definition jn (k : nat) : N := N.of_nat (S k).
  Lemma jn_pred k : N.to_nat (jn k - 1) = k.
  Proof. unfold jn. lia. Qed.
  Lemma jn_nz k : N.eqb (jn k) 0 = false.
  Proof. unfold jn. apply N.eqb_neq. lia. Qed.
  Lemma jn_succ k : jn k + 1 = jn (S k).
  Proof. unfold jn. lia. Qed.

  Lemma sobj_member m i k cname cdoc bases members mem :
    stmt_at p m i = Some (SClass cname cdoc bases members) -> nth_error members k = Some mem ->
    sobj p (m, i, jn k) = Some (member_info m i mem).
  Proof.
    intros Hst Hn. rewrite (sobj_stmt m i (jn k) _ Hst). cbn [stmt_info]. rewrite jn_nz, jn_pred, Hn. reflexivity.
  Qed.

  Lemma add_member_new C s m i k cname cdoc bases members mem :
    stmt_at p m i = Some (SClass cname cdoc bases members) -> nth_error members k = Some mem ->
    OA C s -> OR C s -> C (m, i, 0) -> ~ C (m, i, jn k) ->
    nm (m, i, jn k) = snd (fst mem) -> par (m, i, jn k) = Some (m, i, 0) ->
    let C' := fun x => C x \/ x = (m, i, jn k) in
    let r := add_member (m, i, 0) m i (s, jn k) mem in
    OA C' (fst r) /\ OR C' (fst r) /\ meta_pres s (fst r) /\ snd r = jn (S k).
  Proof.
    intros Hst Hnth HA HR Hcls HnC Hn Hp C' r. subst r.
    pose proof (sobj_member m i k _ _ _ _ mem Hst Hnth) as Hs.
    destruct mem as [[mk name] doc]. cbn [fst snd] in Hn. cbn [add_member]. unfold member_info in Hs.
    destruct (N.eqb mk 0) eqn:Emk; cbn [fst snd].
    - set (ob := new_obj T_FUNCTION K_METHOD name (Some (m, i, 0)) doc).
      destruct (add_object_new C s (m, i, jn k) ob _ (m, i, 0) HA HR HnC Hs Hp Hcls eq_refl eq_refl (eq_sym Hn) eq_refl eq_refl (fun _ => eq_refl))
        as (A & B & _).
      split; [exact A|]. split; [exact B|]. split; [|apply jn_succ].
      eapply add_object_new_meta; try eassumption; try reflexivity. symmetry; exact Hn.
    - destruct (objs s (m, i, 0)) as [cb|] eqn:Ec; [|exfalso; apply (oa_exists C s HA) in Hcls; congruence].
      unfold contents_of. rewrite Ec.
      rewrite (name_free_in_contents C s (m, i, 0) cb name (m, i, jn k) HA Ec ltac:(congruence) HnC Hp Hn).
      cbn [fst snd].
      set (ob := new_obj T_ATTRIBUTE K_CLASS_VARIABLE name (Some (m, i, 0)) doc).
      destruct (add_object_new C s (m, i, jn k) ob _ (m, i, 0) HA HR HnC Hs Hp Hcls eq_refl eq_refl (eq_sym Hn) eq_refl eq_refl (fun _ => eq_refl))
        as (A & B & _).
      split; [exact A|]. split; [exact B|]. split; [|apply jn_succ].
      eapply add_object_new_meta; try eassumption; try reflexivity. symmetry; exact Hn.
  Qed.

  Lemma add_members_new m i cname cdoc bases members :
    stmt_at p m i = Some (SClass cname cdoc bases members) ->
    (forall k mem, nth_error members k = Some mem ->
                   nm (m, i, jn k) = snd (fst mem) /\ par (m, i, jn k) = Some (m, i, 0)) ->
    forall l k C s,
      skipn k members = l ->
      OA C s -> OR C s -> C (m, i, 0) -> (forall k', (k <= k')%nat -> ~ C (m, i, jn k')) ->
      let C' := fun x => C x \/ exists k', (k <= k' < length members)%nat /\ x = (m, i, jn k') in
      let r := fold_left (add_member (m, i, 0) m i) l (s, jn k) in
      OA C' (fst r) /\ OR C' (fst r) /\ meta_pres s (fst r).
  Proof.
    intros Hst Hnp. induction l as [|mem l IH]; intros k C s Hskip HA HR Hcls Hfresh C' r; subst r; cbn [fold_left fst].
    - assert (Hlen : (length members <= k)%nat).
      { destruct (le_lt_dec (length members) k) as [H|H]; [exact H|]. exfalso.
        assert (Hl : length (skipn k members) = (length members - k)%nat) by apply skipn_length.
        rewrite Hskip in Hl. cbn [length] in Hl. lia. }
      split; [|split; [|apply meta_pres_refl]].
      + eapply OA_ext; [|exact HA]. intros x. unfold C'. split; [auto|]. intros [Hx|(k' & Hk & _)]; [exact Hx|lia].
      + eapply OR_ext; [|exact HR]. intros x. unfold C'. split; [auto|]. intros [Hx|(k' & Hk & _)]; [exact Hx|lia].
    - assert (Hnth : nth_error members k = Some mem).
      { rewrite <- (firstn_skipn k members) at 1. rewrite Hskip.
        assert (Hk : (k < length members)%nat).
        { destruct (le_lt_dec (length members) k) as [H|H]; [|exact H]. rewrite skipn_all2 in Hskip by exact H. discriminate. }
        rewrite nth_error_app2 by (rewrite firstn_length; lia). rewrite firstn_length, Nat.min_l by lia.
        rewrite Nat.sub_diag. reflexivity. }
      assert (Hklt : (k < length members)%nat) by (apply nth_error_Some; congruence).
      destruct (Hnp k mem Hnth) as [Hn Hp].
      destruct (add_member_new C s m i k _ _ _ _ mem Hst Hnth HA HR Hcls (Hfresh k (Nat.le_refl k)) Hn Hp)
        as (A1 & R1 & M1 & J1).
      destruct (add_member (m, i, 0) m i (s, jn k) mem) as [s1 j1] eqn:E1. cbn [fst snd] in A1, R1, M1, J1. subst j1.
      assert (Hskip' : skipn (S k) members = l).
      { rewrite <- (firstn_skipn k members) at 1.
        rewrite Hskip. clear -Hklt. 
        assert (Hl : length (firstn k members) = k) by (rewrite firstn_length; lia).
        rewrite <- Hl at 1. replace (S (length (firstn k members))) with (length (firstn k members) + 1)%nat by lia.
        rewrite skipn_app. rewrite skipn_all2 by lia.
        replace (length (firstn k members) + 1 - length (firstn k members))%nat with 1%nat by lia. reflexivity. }
      set (C1 := fun x => C x \/ x = (m, i, jn k)).
      assert (Hfresh1 : forall k', (S k <= k')%nat -> ~ C1 (m, i, jn k')).
      { intros k' Hk' [Hx|Hx]; [apply (Hfresh k'); [lia|exact Hx]|]. inversion Hx as [Hj]. unfold jn in Hj. lia. }
      destruct (IH (S k) C1 s1 Hskip' A1 R1 (or_introl Hcls) Hfresh1) as (A2 & R2 & M2).
      assert (Hext : forall x, (C1 x \/ exists k', (S k <= k' < length members)%nat /\ x = (m, i, jn k')) <-> C' x).
      { intros x. unfold C1, C'. split.
        - intros [[Hx| ->]|(k' & Hk' & ->)]; [left; exact Hx|right; exists k; split; [lia|reflexivity]|right; exists k'; split; [lia|reflexivity]].
        - intros [Hx|(k' & Hk' & ->)]; [left; left; exact Hx|].
          destruct (Nat.eq_dec k' k) as [->|Hne]; [left; right; reflexivity|right; exists k'; split; [lia|reflexivity]]. }
      split; [eapply OA_ext; [exact Hext|exact A2]|]. split; [eapply OR_ext; [exact Hext|exact R2]|].
      eapply meta_pres_trans; eassumption.
  Qed.

  Lemma exec_class_new C s m i cname cdoc bases members :
    OA C s -> OR C s -> stmt_at p m i = Some (SClass cname cdoc bases members) ->
    (forall j, ~ C (m, i, j)) -> C (m, 0, 0) ->
    nm (m, i, 0) = cname -> par (m, i, 0) = Some (m, 0, 0) ->
    (forall k mem, nth_error members k = Some mem ->
                   nm (m, i, jn k) = snd (fst mem) /\ par (m, i, jn k) = Some (m, i, 0)) ->
    let C' := fun x => C x \/ x = (m, i, 0) \/ exists k, (k < length members)%nat /\ x = (m, i, jn k) in
    let s' := exec_stmt s m i (SClass cname cdoc bases members) in
    OA C' s' /\ OR C' s' /\ meta_pres s s'.
  Proof.
    intros HA HR Hst Hfresh HP Hn Hp Hmem C' s'. subst s'. cbn [exec_stmt]. cbv zeta.
    pose proof (sobj_stmt m i 0 _ Hst) as Hs. cbn [stmt_info N.eqb] in Hs.
    match goal with |- context [add_object s (m, i, 0) ?x] => set (ob := x) end.
    destruct (add_object_new C s (m, i, 0) ob _ (m, 0, 0) HA HR (Hfresh 0) Hs Hp HP eq_refl eq_refl (eq_sym Hn) eq_refl eq_refl (fun _ => eq_refl))
      as (A1 & R1 & _).
    assert (M1 : meta_pres s (add_object s (m, i, 0) ob)).
    { exact (add_object_new_meta C s (m, i, 0) ob _ (m, 0, 0) HA HR (Hfresh 0) Hs Hp HP eq_refl eq_refl (eq_sym Hn)
                                 eq_refl eq_refl (fun _ => eq_refl)). }
    set (C1 := fun x => C x \/ x = (m, i, 0)) in *.
    assert (Hfresh1 : forall k', (0 <= k')%nat -> ~ C1 (m, i, jn k')).
    { intros k' _ [Hx|Hx]; [exact (Hfresh _ Hx)|]. assert (Hj : jn k' = 0) by congruence. unfold jn in Hj. lia. }
    destruct (add_members_new m i _ _ _ members Hst Hmem members 0%nat C1 _ eq_refl A1 R1 (or_intror eq_refl) Hfresh1)
      as (A2 & R2 & M2).
    change (jn 0) with 1 in A2, R2, M2.
    assert (Hext : forall x, (C1 x \/ exists k', (0 <= k' < length members)%nat /\ x = (m, i, jn k')) <-> C' x).
    { intros x. unfold C1, C'. split.
      - intros [[Hx|Hx]|(k' & Hk' & Hx)]; [left; exact Hx|right; left; exact Hx|right; right; exists k'; split; [lia|exact Hx]].
      - intros [Hx|[Hx|(k' & Hk' & Hx)]]; [left; left; exact Hx|left; right; exact Hx|right; exists k'; split; [lia|exact Hx]]. }
    split; [eapply OA_ext; [exact Hext|exact A2]|]. split; [eapply OR_ext; [exact Hext|exact R2]|].
    eapply meta_pres_trans; eassumption.
  Qed.
End ObjectInvariant.

(* ================================================================ the invariant of the machine (no re-export) *)
Section Created.
  Variable p : project.
  (* the i-th statement of module m has not been executed yet *)
  Definition pending_of (s : state) (m i : N) : Prop :=
    In m (unproc s) \/ exists fr st, In fr (frames s) /\ f_mod fr = m /\ In (MStmt i st) (f_todo fr).

  Definition created_of (s : state) (o : oid) : Prop :=
    sobj p o <> None /\ (snd (fst o) = 0 \/ ~ pending_of s (fst (fst o)) (snd (fst o))).
End Created.

(* The invariant is stated for ANY expected-name / expected-parent functions nm, par whose qualified names are
   distinct and that agree with the source text on the objects that do not exist yet (`Good` is whatever the
   instance needs to know for that); the instance nm = sname, par = sparent is the run without re-export. *)
Section Glue.
  Variable p : project.
  Variables (nm : oid -> N) (par : oid -> option oid).
  Hypothesis Hinj : forall o o', sobj p o <> None -> sobj p o' <> None -> key p nm par o = key p nm par o' -> o = o'.
  Variable Good : state -> Prop.
  Hypothesis Hstatic : forall s o, Good s -> sobj p o <> None -> ~ created_of p s o ->
                                   nm o = sname p o /\ par o = sparent p o.

  Notation pending := pending_of.
  Notation created := (created_of p).

  Record Inv (s : state) : Prop := {
    i_ctl : Ctl p s;
    i_oa : OA p nm par (created s) s;
    i_or : OR p nm par (created s) s;
    i_suffix : forall fr, In fr (frames s) ->
                          exists mi pre, modinfo_of p (f_mod fr) = Some mi /\ expand_stmts (m_stmts mi) = pre ++ f_todo fr;
    i_meta : forall m mb mi, objs s (m, 0, 0) = Some mb -> modinfo_of p m = Some mi ->
                             (In m (unproc s) -> o_doc mb = 0 /\ o_all mb = None) /\
                             (~ In m (unproc s) -> o_doc mb = m_doc mi /\ o_all mb = last_all (m_stmts mi) None);
    i_good : Good s }.

  (* ---- helpers ---- *)
  Lemma OA_same C s s' : objs s' = objs s -> dfuel s' = dfuel s -> OA p nm par C s -> OA p nm par C s'.
  Proof.
    intros Ho Hd [H1 H2 H3 H4 H5 H6 H7 H8]. constructor; try rewrite Ho; try rewrite Hd; assumption.
  Qed.
  Lemma OR_same C s s' : allobjs s' = allobjs s -> OR p nm par C s -> OR p nm par C s'.
  Proof. intros Ha [H1 H2 H3]. constructor; rewrite Ha; assumption. Qed.

  Lemma sobj_stmt_inv m i j : sobj p (m, i, j) <> None -> i <> 0 ->
    exists st, stmt_at p m i = Some st /\ local_stmt st = true /\ stmt_info m i j st <> None.
  Proof.
    intros Hs Hi. unfold sobj in Hs. apply N.eqb_neq in Hi. rewrite Hi in Hs.
    destruct (stmt_at p m i) as [st|] eqn:Est; [|congruence]. exists st. split; [reflexivity|]. split; [|exact Hs].
    destruct st; cbn [stmt_info] in Hs; try congruence; reflexivity.
  Qed.

  Lemma stmt_at_In_expand m i st mi :
    modinfo_of p m = Some mi -> stmt_at p m i = Some st -> local_stmt st = true ->
    In (MStmt i st) (expand_stmts (m_stmts mi)).
  Proof.
    intros Hm Hst Hl. unfold stmt_at in Hst. rewrite Hm in Hst. destruct (N.eqb_spec i 0) as [->|Hi]; [discriminate|].
    unfold expand_stmts. replace i with (1 + N.of_nat (N.to_nat (i - 1))) by lia.
    apply expand_from_MStmt_In; assumption.
  Qed.

  Lemma In_expand_stmt_at m i st mi :
    modinfo_of p m = Some mi -> In (MStmt i st) (expand_stmts (m_stmts mi)) -> stmt_at p m i = Some st /\ i <> 0.
  Proof.
    intros Hm Hin. unfold expand_stmts in Hin. apply In_expand_from_MStmt in Hin. destruct Hin as (n & Hn & -> & _).
    unfold stmt_at. rewrite Hm. replace (N.eqb (1 + N.of_nat n) 0) with false by (symmetry; apply N.eqb_neq; lia).
    replace (N.to_nat (1 + N.of_nat n - 1)) with n by lia. split; [exact Hn|lia].
  Qed.

  (* ---- processModule starts ---- *)
  Lemma created_begin s m s' :
    Ctl p s -> begin_module p s m = Next s' -> forall o, created s o <-> created s' o.
  Proof.
    intros HC Hb.
    destruct (begin_module_ctl p _ _ _ Hb) as (mi & Hmi & Hmst & Hin & Hun & Hfr & _ & Hdf & _).
    assert (Hnd : NoDup (unproc s)) by apply (c_nodup p s HC).
    assert (Hpend : forall m' i, i <> 0 -> (exists j, sobj p (m', i, j) <> None) -> (pending s' m' i <-> pending s m' i)).
    { intros m' i Hi (j & Hj). unfold pending_of. rewrite Hun, Hfr.
      destruct (N.eq_dec m' m) as [->|Hne].
      - split; [intros _; left; exact Hin|]. intros _. right.
        destruct (sobj_stmt_inv m i j Hj Hi) as (st & Hst & Hl & _).
        eexists _, st. split; [left; reflexivity|]. cbn [f_mod f_todo]. split; [reflexivity|].
        eapply stmt_at_In_expand; eassumption.
      - rewrite (remove1_In_iff m (unproc s) m' Hnd). split.
        + intros [[H _]|(fr & st & [<-|Hf] & Hm & Hst)]; [left; exact H|cbn [f_mod] in Hm; congruence|right; eauto].
        + intros [H|(fr & st & Hf & Hm & Hst)]; [left; split; assumption|right; exists fr, st; split; [right; exact Hf|auto]]. }
    intros [[m' i] j]. unfold created_of. cbn [fst snd]. split; intros [Hd H]; (split; [exact Hd|]).
    - destruct H as [H|H]; [left; exact H|]. destruct (N.eq_dec i 0) as [->|Hi]; [left; reflexivity|].
      right. rewrite (Hpend m' i Hi (ex_intro _ j Hd)). exact H.
    - destruct H as [H|H]; [left; exact H|]. destruct (N.eq_dec i 0) as [->|Hi]; [left; reflexivity|].
      right. rewrite <- (Hpend m' i Hi (ex_intro _ j Hd)). exact H.
  Qed.

  Lemma Inv_begin s m s' : Inv s -> begin_module p s m = Next s' -> Good s' -> Inv s'.
  Proof.
    intros HI Hb HG'. pose proof (Ctl_begin p s m s' (i_ctl s HI) Hb) as HC'.
    destruct (begin_module_ctl p _ _ _ Hb) as (mi & Hmi & Hmst & Hin & Hun & Hfr & _ & Hdf & _).
    destruct (begin_module_inv p _ _ _ Hb) as (mi' & Hmi' & _ & _ & Hs'). rewrite Hmi in Hmi'. inversion Hmi'; subst mi'.
    set (f := fun mb => with_doc (m_doc mi) (with_all (last_all (m_stmts mi) None) mb)) in *.
    set (s0 := set_unproc (set_mst s m PROCESSING) (remove1 m (unproc s))) in *.
    assert (Hobjs : objs s' = objs (upd_obj s0 (m, 0, 0) f)) by (rewrite Hs'; reflexivity).
    assert (Hall : allobjs s' = allobjs s) by (rewrite Hs'; cbn [set_frames allobjs]; rewrite allobjs_upd_obj; reflexivity).
    assert (Hnd : NoDup (unproc s)) by apply (c_nodup p s (i_ctl s HI)).
    assert (Hfm : forall fr, In fr (frames s) -> f_mod fr <> m).
    { intros fr Hf E. destruct (c_frames p s (i_ctl s HI) fr Hf) as [A _]. congruence. }
    pose proof (created_begin s m s' (i_ctl s HI) Hb) as Hcr.
    constructor.
    - exact HC'.
    - eapply OA_ext; [exact Hcr|]. eapply (OA_same _ (upd_obj s0 (m, 0, 0) f)); [exact Hobjs| |].
      + rewrite Hdf. rewrite dfuel_upd_obj. reflexivity.
      + apply OA_upd; [exact (keeps_comp (with_doc (m_doc mi)) (with_all (last_all (m_stmts mi) None))
                                         (keeps_with_doc _) (keeps_with_all _))|left; reflexivity|].
        eapply (OA_same _ s); [reflexivity|reflexivity|exact (i_oa s HI)].
    - eapply OR_ext; [exact Hcr|]. eapply OR_same; [exact Hall|exact (i_or s HI)].
    - intros fr. rewrite Hfr. intros [<-|Hf]; [|apply (i_suffix s HI); exact Hf].
      exists mi, []. cbn [f_mod f_todo app]. split; [exact Hmi|reflexivity].
    - intros m' mb mi' Hmb Hmi''. rewrite Hobjs in Hmb. rewrite Hun.
      destruct (N.eq_dec m' m) as [->|Hne].
      + rewrite Hmi in Hmi''. inversion Hmi''; subst mi'.
        split; [intros Hx; apply (remove1_In_iff m (unproc s) m Hnd) in Hx; tauto|]. intros _.
        destruct (objs s0 (m, 0, 0)) as [mb0|] eqn:E0.
        * rewrite (upd_obj_some s0 _ f mb0 E0), objs_set_obj_same in Hmb. inversion Hmb; subst mb. split; reflexivity.
        * rewrite (upd_obj_none s0 _ f E0) in Hmb. congruence.
      + assert (Hmb0 : objs s (m', 0, 0) = Some mb).
        { destruct (objs s0 (m, 0, 0)) as [mb0|] eqn:E0.
          - rewrite (upd_obj_some s0 _ f mb0 E0), objs_set_obj_other in Hmb by congruence. exact Hmb.
          - rewrite (upd_obj_none s0 _ f E0) in Hmb. exact Hmb. }
        destruct (i_meta s HI m' mb mi' Hmb0 Hmi'') as [A B].
        rewrite (remove1_In_iff m (unproc s) m' Hnd). split; [intros [Hx _]; auto|]. intros Hx. apply B. tauto.
    - exact HG'.
  Qed.

  (* ---- processModule ends ---- *)
  Lemma Inv_finish s fr rest :
    Inv s -> frames s = fr :: rest -> f_todo fr = [] ->
    Ctl p (set_frames (set_mst s (f_mod fr) PROCESSED) rest) ->
    Good (set_frames (set_mst s (f_mod fr) PROCESSED) rest) ->
    Inv (set_frames (set_mst s (f_mod fr) PROCESSED) rest).
  Proof.
    intros HI Hf Ht HC' HG'. set (s' := set_frames (set_mst s (f_mod fr) PROCESSED) rest).
    assert (Hpend : forall m i, pending s' m i <-> pending s m i).
    { intros m i. unfold pending_of. cbn [s' set_frames set_mst unproc frames]. rewrite Hf. split.
      - intros [H|(fr0 & st & Hin & Hm & Hst)]; [left; exact H|right; exists fr0, st; split; [right; exact Hin|auto]].
      - intros [H|(fr0 & st & [<-|Hin] & Hm & Hst)]; [left; exact H|rewrite Ht in Hst; destruct Hst|right; eauto]. }
    assert (Hcr : forall o, created s o <-> created s' o).
    { intros o. unfold created_of. rewrite Hpend. tauto. }
    constructor.
    - exact HC'.
    - eapply OA_ext; [exact Hcr|]. eapply (OA_same _ s); [reflexivity|reflexivity|exact (i_oa s HI)].
    - eapply OR_ext; [exact Hcr|]. eapply (OR_same _ s); [reflexivity|exact (i_or s HI)].
    - intros fr0 Hin. apply (i_suffix s HI). rewrite Hf. right. exact Hin.
    - intros m mb mi Hmb Hmi. exact (i_meta s HI m mb mi Hmb Hmi).
    - exact HG'.
  Qed.

  (* ---- one micro-operation ---- *)
  Lemma created_module s m mi : modinfo_of p m = Some mi -> created s (m, 0, 0).
  Proof. intros H. unfold created_of, sobj. cbn [fst snd N.eqb]. rewrite H. split; [discriminate|left; reflexivity]. Qed.

  Section Op.
    Variables (s : state) (fr : frame) (rest : list frame) (op : mop) (todo : list mop) (s1 : state) (fr1 : frame).
    Hypothesis HI : Inv s.
    Hypothesis Hf : frames s = fr :: rest.
    Hypothesis Ht : f_todo fr = op :: todo.
    Hypothesis Hctl : same_ctl s s1.
    Hypothesis Hfm : f_mod fr1 = f_mod fr.
    Hypothesis Hft : f_todo fr1 = todo.

    Let s2 := set_frames s1 (fr1 :: rest).
    Let m := f_mod fr.

    Lemma op_mi : exists mi pre, modinfo_of p m = Some mi /\ expand_stmts (m_stmts mi) = pre ++ op :: todo.
    Proof.
      destruct (i_suffix s HI fr) as (mi & pre & Hmi & He); [rewrite Hf; left; reflexivity|].
      exists mi, pre. rewrite <- Ht. auto.
    Qed.

    Lemma op_not_unproc : ~ In m (unproc s).
    Proof.
      intros Hin. destruct (c_frames p s (i_ctl s HI) fr) as [A _]; [rewrite Hf; left; reflexivity|].
      apply (c_unproc p s (i_ctl s HI)) in Hin. destruct Hin as [_ B]. contradiction.
    Qed.

    Lemma op_rest_mod fr0 : In fr0 rest -> f_mod fr0 <> m.
    Proof.
      intros Hin E. pose proof (c_fnodup p s (i_ctl s HI)) as Hnd. rewrite Hf in Hnd. cbn [map] in Hnd.
      apply NoDup_cons_iff in Hnd. destruct Hnd as [Hni _]. apply Hni. fold m. rewrite <- E. apply in_map. exact Hin.
    Qed.

    Lemma pending_after m' i :
      pending s2 m' i <-> pending s m' i /\ ~ (m' = m /\ exists st, op = MStmt i st).
    Proof.
      destruct Hctl as (_ & Hu & _). unfold pending_of. cbn [s2 set_frames unproc frames]. rewrite Hu, Hf. split.
      - intros [H|(fr0 & st & [<-|Hin] & Hm & Hst)].
        + split; [left; exact H|]. intros [-> _]. exact (op_not_unproc H).
        + rewrite Hfm in Hm. rewrite Hft in Hst. split.
          * right. exists fr, st. split; [left; reflexivity|]. split; [exact Hm|]. rewrite Ht. right. exact Hst.
          * intros [_ (st' & Eop)]. destruct op_mi as (mi & pre & Hmi & He).
            pose proof (expand_from_idxs_nodup (m_stmts mi) 1) as Hnd. fold (expand_stmts (m_stmts mi)) in Hnd.
            rewrite He, Eop, stmt_idxs_app in Hnd. apply NoDup_remove_2 in Hnd. apply Hnd. apply in_or_app. right.
            eapply In_stmt_idxs. exact Hst.
        + split; [right; exists fr0, st; split; [right; exact Hin|auto]|].
          intros [-> _]. exact (op_rest_mod fr0 Hin Hm).
      - intros [[H|(fr0 & st & [<-|Hin] & Hm & Hst)] Hno]; [left; exact H| |right; exists fr0, st; split; [right; exact Hin|auto]].
        rewrite Ht in Hst. destruct Hst as [Hst|Hst].
        + exfalso. apply Hno. split; [symmetry; exact Hm|eauto].
        + right. exists fr1, st. split; [left; reflexivity|]. rewrite Hfm, Hft. auto.
    Qed.

    Lemma created_after o :
      created s2 o <->
      created s o \/ (sobj p o <> None /\ fst (fst o) = m /\ snd (fst o) <> 0 /\ exists st, op = MStmt (snd (fst o)) st).
    Proof.
      unfold created_of. rewrite pending_after. destruct o as [[m' i] j]. cbn [fst snd]. split.
      - intros [Hd [Hz|Hn]]; [left; split; [exact Hd|left; exact Hz]|].
        destruct (N.eq_dec i 0) as [->|Hi]; [left; split; [exact Hd|left; reflexivity]|].
        destruct (N.eq_dec m' m) as [->|Hm].
        + assert (Hdec : (exists st, op = MStmt i st) \/ ~ (exists st, op = MStmt i st)).
          { clear. destruct op as [i0 st0| | | | |]; try (right; intros (st & E); discriminate).
            destruct (N.eq_dec i i0) as [->|Hne]; [left; eauto|right; intros (st & E); inversion E; congruence]. }
          destruct Hdec as [Hyes|Hno].
          * right. repeat split; assumption.
          * left. split; [exact Hd|]. right. intros Hp. apply Hn. split; [exact Hp|]. intros [_ Hx]. contradiction.
        + left. split; [exact Hd|]. right. intros Hp. apply Hn. split; [exact Hp|]. intros [E _]. contradiction.
      - intros [[Hd [Hz|Hn]]|(Hd & -> & Hi & st & Hop)].
        + split; [exact Hd|left; exact Hz].
        + split; [exact Hd|right]. intros [Hp _]. contradiction.
        + split; [exact Hd|right]. intros [_ Hno]. apply Hno. split; [reflexivity|eauto].
    Qed.

    (* everything but the object part *)
    Lemma Inv_op_core :
      Ctl p s2 -> Good s2 -> OA p nm par (created s2) s1 -> OR p nm par (created s2) s1 -> meta_weak (m, 0, 0) s s1 -> Inv s2.
    Proof.
      intros HC2 HG2 HA HR HM. constructor.
      - exact HC2.
      - eapply (OA_same _ s1); [reflexivity|reflexivity|exact HA].
      - eapply (OR_same _ s1); [reflexivity|exact HR].
      - intros fr0. cbn [s2 set_frames frames]. intros [<-|Hin].
        + destruct op_mi as (mi & pre & Hmi & He). exists mi, (pre ++ [op]). rewrite Hfm, Hft, <- app_assoc. split; [exact Hmi|exact He].
        + apply (i_suffix s HI). rewrite Hf. right. exact Hin.
      - intros m' mb mi Hmb Hmi. cbn [s2 set_frames objs unproc] in *.
        destruct Hctl as (_ & Hu & _). rewrite Hu.
        pose proof (created_module s m' mi Hmi) as Hc. apply (oa_exists _ _ _ _ _ (i_oa s HI)) in Hc.
        destruct (objs s (m', 0, 0)) as [mb0|] eqn:E0; [|congruence].
        destruct (HM _ _ E0) as (mb1 & E1 & D1 & D2 & _). rewrite Hmb in E1. inversion E1; subst mb1.
        rewrite D1, D2. exact (i_meta s HI m' mb0 mi E0 Hmi).
      - exact HG2.
    Qed.
  End Op.

  Lemma sname_stmt m i j st si :
    stmt_at p m i = Some st -> stmt_info m i j st = Some si ->
    sname p (m, i, j) = s_name si /\ sparent p (m, i, j) = s_parent si.
  Proof. intros Hst Hsi. unfold sname, sparent. rewrite (sobj_stmt p m i j st Hst), Hsi. auto. Qed.

  Lemma member_info_name m i mem : s_name (member_info m i mem) = snd (fst mem) /\ s_parent (member_info m i mem) = Some (m, i, 0).
  Proof. destruct mem as [[mk name] doc]. unfold member_info. destruct (N.eqb mk 0); auto. Qed.

  Lemma exports_static s m mi mb :
    Inv s -> modinfo_of p m = Some mi -> ~ In m (unproc s) -> objs s (m, 0, 0) = Some mb ->
    exports_of s (m, 0, 0) = exports_of_mod mi.
  Proof.
    intros HI Hmi Hnu Hmb. unfold exports_of, exports_of_mod. rewrite Hmb.
    destruct (i_meta s HI m mb mi Hmb Hmi) as [_ B]. destruct (B Hnu) as [_ ->]. reflexivity.
  Qed.

  Lemma handle_reexport_not_exported s cur ex o a g : ~ In a ex -> handle_reexport s cur ex o a g = (s, false).
  Proof. intros H. unfold handle_reexport. apply memN_false in H. rewrite H. reflexivity. Qed.

  (* what one micro-operation that is not a re-exporting import does to the objects and the registry *)
  Lemma op_triple s fr rest op todo s1 fr1 en :
    Inv s -> frames s = fr :: rest -> f_todo fr = op :: todo ->
    exec_op s (with_todo todo fr) op = (s1, fr1, en) ->
    (forall o a mi, op = MImportName o a -> modinfo_of p (f_mod fr) = Some mi -> ~ In a (exports_of_mod mi)) ->
    (forall mi, op = MImportAll -> modinfo_of p (f_mod fr) = Some mi -> exports_of_mod mi = []) ->
    OA p nm par (created (set_frames s1 (fr1 :: rest))) s1 /\ OR p nm par (created (set_frames s1 (fr1 :: rest))) s1 /\
    meta_weak (f_mod fr, 0, 0) s s1.
  Proof.
    intros HI Hf Ht He Hop_name Hop_all.
    pose proof (ctl_exec_op s (with_todo todo fr) op) as Hctl. pose proof (exec_op_frame s (with_todo todo fr) op) as Hfr.
    rewrite He in Hctl, Hfr. cbn [fst snd] in Hctl, Hfr. destruct Hfr as (Hfm & Hft). cbn [with_todo f_mod f_todo] in Hfm, Hft.
    set (m := f_mod fr) in *. set (s2 := set_frames s1 (fr1 :: rest)) in *.
    destruct (op_mi s fr rest op todo HI Hf Ht) as (mi & pre & Hmi & Hexp). fold m in Hmi.
    pose proof (op_not_unproc s fr rest HI Hf) as Hnu. fold m in Hnu.
    pose proof (created_after s fr rest op todo s1 fr1 HI Hf Ht Hctl Hfm Hft) as Hcr. fold m s2 in Hcr.
    assert (Hmod : created s (m, 0, 0)) by (eapply created_module; exact Hmi).
    destruct (objs s (m, 0, 0)) as [mb|] eqn:Emb;
      [|exfalso; apply (oa_exists _ _ _ _ _ (i_oa s HI)) in Hmod; congruence].
    assert (Hsame : (forall o, created s o <-> created s2 o) ->
                    OA p nm par (created s) s1 /\ OR p nm par (created s) s1 /\ meta_weak (m, 0, 0) s s1 ->
                    OA p nm par (created s2) s1 /\ OR p nm par (created s2) s1 /\ meta_weak (m, 0, 0) s s1).
    { intros Hext (A & R & M). split; [eapply OA_ext; [exact Hext|exact A]|]. split; [eapply OR_ext; [exact Hext|exact R]|exact M]. }
    assert (Hnew : forall C', (forall o, C' o <-> created s2 o) ->
                    OA p nm par C' s1 /\ OR p nm par C' s1 /\ meta_pres s s1 ->
                    OA p nm par (created s2) s1 /\ OR p nm par (created s2) s1 /\ meta_weak (m, 0, 0) s s1).
    { intros C' Hext (A & R & M). split; [eapply OA_ext; [exact Hext|exact A]|]. split; [eapply OR_ext; [exact Hext|exact R]|].
      apply meta_pres_weak. exact M. }
    assert (Hunch : (forall i st, op = MStmt i st -> forall j, stmt_info m i j st = None) ->
                    forall o, created s o <-> created s2 o).
    { intros Hnone o. rewrite Hcr. split; [auto|]. intros [H|(Hd & Hm' & Hi & st & Hop)]; [exact H|]. exfalso.
      destruct o as [[m' i] j]. cbn [fst snd] in *. subst m'.
      assert (Hin : In (MStmt i st) (expand_stmts (m_stmts mi))) by (rewrite Hexp, Hop; apply in_or_app; right; left; reflexivity).
      destruct (In_expand_stmt_at m i st mi Hmi Hin) as [Hst _].
      apply Hd. rewrite (sobj_stmt p m i j st Hst). apply (Hnone i st Hop). }
    pose proof (i_oa s HI) as HA. pose proof (i_or s HI) as HR.
    destruct op as [i st|level modname| |orgname|orgname asname|]; cbn [exec_op] in He.
    - (* a statement *)
      inversion He; subst s1 fr1 en. clear He. change (f_mod (with_todo todo fr)) with m in *.
      assert (Hin : In (MStmt i st) (expand_stmts (m_stmts mi))) by (rewrite Hexp; apply in_or_app; right; left; reflexivity).
      destruct (In_expand_stmt_at m i st mi Hmi Hin) as [Hst Hi].
      assert (Hpend : pending s m i).
      { right. exists fr, st. split; [rewrite Hf; left; reflexivity|]. split; [reflexivity|]. rewrite Ht. left. reflexivity. }
      assert (Hfresh : forall j, ~ created s (m, i, j)).
      { intros j [_ [Hz|Hn]]; cbn [fst snd] in *; [contradiction|]. apply Hn. exact Hpend. }
      destruct st as [cname cdoc bases members|name doc|name doc|target value|target asname|lv mn names|lv mn|names].
      + (* class *)
        destruct (sname_stmt m i 0 _ _ Hst eq_refl) as [Hn0 Hp0]. cbn [s_name s_parent] in Hn0, Hp0.
        destruct (Hstatic s (m, i, 0) (i_good s HI) ltac:(rewrite (sobj_stmt p m i 0 _ Hst); discriminate) (Hfresh 0)) as [Hq1 Hq2].
        rewrite <- Hq1 in Hn0. rewrite <- Hq2 in Hp0.
        assert (Hmem : forall k mem, nth_error members k = Some mem ->
                                     nm (m, i, jn k) = snd (fst mem) /\ par (m, i, jn k) = Some (m, i, 0)).
        { intros k mem Hk. pose proof (sobj_member p m i k _ _ _ _ mem Hst Hk) as Hs.
          destruct (Hstatic s (m, i, jn k) (i_good s HI) ltac:(congruence) (Hfresh (jn k))) as [-> ->].
          unfold sname, sparent. rewrite Hs. apply member_info_name. }
        eapply Hnew; [|exact (exec_class_new p nm par Hinj (created s) s m i cname cdoc bases members HA HR Hst Hfresh Hmod Hn0 Hp0 Hmem)].
        intros o. rewrite Hcr. split.
        * intros [H|[->|(k & Hk & ->)]]; [left; exact H| |].
          -- right. cbn [fst snd]. rewrite (sobj_stmt p m i 0 _ Hst). cbn [stmt_info N.eqb].
             split; [discriminate|]. split; [reflexivity|]. split; [exact Hi|eauto].
          -- right. cbn [fst snd]. destruct (nth_error members k) as [mem|] eqn:Ek; [|apply nth_error_None in Ek; lia].
             rewrite (sobj_member p m i k _ _ _ _ mem Hst Ek). split; [discriminate|]. split; [reflexivity|]. split; [exact Hi|eauto].
        * intros [H|(Hd & Hm' & _ & st' & Hop)]; [left; exact H|]. right. destruct o as [[m' i'] j]. cbn [fst snd] in *.
          inversion Hop; subst i' st'. subst m'. rewrite (sobj_stmt p m i j _ Hst) in Hd. cbn [stmt_info] in Hd.
          destruct (N.eq_dec j 0) as [Hj0|Hj]; [left; rewrite Hj0; reflexivity|right].
          apply N.eqb_neq in Hj. rewrite Hj in Hd. apply N.eqb_neq in Hj.
          destruct (nth_error members (N.to_nat (j - 1))) as [mem|] eqn:Ek; [|congruence].
          exists (N.to_nat (j - 1)). split; [apply nth_error_Some; congruence|]. f_equal. unfold jn. lia.
      + (* def *)
        destruct (sname_stmt m i 0 _ _ Hst eq_refl) as [Hn0 Hp0]. cbn [s_name s_parent] in Hn0, Hp0.
        destruct (Hstatic s (m, i, 0) (i_good s HI) ltac:(rewrite (sobj_stmt p m i 0 _ Hst); discriminate) (Hfresh 0)) as [Hq1 Hq2].
        rewrite <- Hq1 in Hn0. rewrite <- Hq2 in Hp0.
        eapply Hnew; [|exact (exec_func_new p nm par Hinj (created s) s m i name doc HA HR Hst (Hfresh 0) Hmod Hn0 Hp0)].
        intros o. rewrite Hcr. split.
        * intros [H| ->]; [left; exact H|]. right. cbn [fst snd]. rewrite (sobj_stmt p m i 0 _ Hst). cbn [stmt_info N.eqb].
          split; [discriminate|]. split; [reflexivity|]. split; [exact Hi|eauto].
        * intros [H|(Hd & Hm' & _ & st' & Hop)]; [left; exact H|]. right. destruct o as [[m' i'] j]. cbn [fst snd] in *.
          inversion Hop; subst i' st'. subst m'. rewrite (sobj_stmt p m i j _ Hst) in Hd. cbn [stmt_info] in Hd.
          destruct (N.eq_dec j 0) as [Hj0|Hj]; [rewrite Hj0; reflexivity|].
          apply N.eqb_neq in Hj. rewrite Hj in Hd. congruence.
      + (* variable *)
        destruct (sname_stmt m i 0 _ _ Hst eq_refl) as [Hn0 Hp0]. cbn [s_name s_parent] in Hn0, Hp0.
        destruct (Hstatic s (m, i, 0) (i_good s HI) ltac:(rewrite (sobj_stmt p m i 0 _ Hst); discriminate) (Hfresh 0)) as [Hq1 Hq2].
        rewrite <- Hq1 in Hn0. rewrite <- Hq2 in Hp0.
        eapply Hnew; [|exact (exec_var_new p nm par Hinj (created s) s m i name doc HA HR Hst (Hfresh 0) Hmod Hn0 Hp0)].
        intros o. rewrite Hcr. split.
        * intros [H| ->]; [left; exact H|]. right. cbn [fst snd]. rewrite (sobj_stmt p m i 0 _ Hst). cbn [stmt_info N.eqb].
          split; [discriminate|]. split; [reflexivity|]. split; [exact Hi|eauto].
        * intros [H|(Hd & Hm' & _ & st' & Hop)]; [left; exact H|]. right. destruct o as [[m' i'] j]. cbn [fst snd] in *.
          inversion Hop; subst i' st'. subst m'. rewrite (sobj_stmt p m i j _ Hst) in Hd. cbn [stmt_info] in Hd.
          destruct (N.eq_dec j 0) as [Hj0|Hj]; [rewrite Hj0; reflexivity|].
          apply N.eqb_neq in Hj. rewrite Hj in Hd. congruence.
      + (* name = dotted.name *)
        apply Hsame; [apply Hunch; intros i' st' E j; inversion E; reflexivity|].
        cbn [exec_stmt]. cbv zeta. fold m. destruct (nget target (contents_of s (m, 0, 0))).
        * split; [exact HA|]. split; [exact HR|apply meta_weak_refl].
        * apply upd_keeps_all; [intros ob; repeat split|intros ob; split; reflexivity|exact HA|exact HR].
      + (* import *)
        apply Hsame; [apply Hunch; intros i' st' E j; inversion E; reflexivity|].
        cbn [exec_stmt]. cbv zeta. destruct (N.eqb asname 0);
          (apply upd_keeps_all; [intros ob; repeat split|intros ob; split; reflexivity|exact HA|exact HR]).
      + apply Hsame; [apply Hunch; intros i' st' E j; inversion E; reflexivity|].
        cbn [exec_stmt]. split; [exact HA|]. split; [exact HR|apply meta_weak_refl].
      + apply Hsame; [apply Hunch; intros i' st' E j; inversion E; reflexivity|].
        cbn [exec_stmt]. split; [exact HA|]. split; [exact HR|apply meta_weak_refl].
      + apply Hsame; [apply Hunch; intros i' st' E j; inversion E; reflexivity|].
        cbn [exec_stmt]. split; [exact HA|]. split; [exact HR|apply meta_weak_refl].
    - inversion He; subst s1 fr1 en. apply Hsame; [apply Hunch; intros i' st' E; discriminate|].
      split; [exact HA|]. split; [exact HR|apply meta_weak_refl].
    - assert (s1 = s) by (destruct (f_modname (with_todo todo fr)); inversion He; reflexivity). subst s1.
      apply Hsame; [apply Hunch; intros i' st' E; discriminate|].
      split; [exact HA|]. split; [exact HR|apply meta_weak_refl].
    - assert (s1 = s).
      { destruct (f_modname (with_todo todo fr)); [|inversion He; reflexivity].
        destruct (f_modobj (with_todo todo fr)) as [mo|]; [|inversion He; reflexivity].
        destruct (tag_of s mo) as [tg|]; [|inversion He; reflexivity]. destruct (N.eqb tg T_PACKAGE); inversion He; reflexivity. }
      subst s1. apply Hsame; [apply Hunch; intros i' st' E; discriminate|].
      split; [exact HA|]. split; [exact HR|apply meta_weak_refl].
    - (* from ... import name : never a re-export *)
      apply Hsame; [apply Hunch; intros i' st' E; discriminate|].
      destruct (f_modname (with_todo todo fr)) as [t|]; [|inversion He; subst; split; [exact HA|split; [exact HR|apply meta_weak_refl]]].
      inversion He; subst s1 fr1 en. clear He. change (f_mod (with_todo todo fr)) with m.
      pose proof (Hop_name orgname asname mi eq_refl Hmi) as Hne.
      unfold import_name. cbv zeta. fold m. rewrite (exports_static s m mi mb HI Hmi Hnu Emb).
      change (f_modobj (with_todo todo fr)) with (f_modobj fr). destruct (f_modobj fr) as [g|].
      + rewrite (handle_reexport_not_exported s (m, 0, 0) _ orgname asname g Hne).
        apply upd_keeps_all; [intros ob; repeat split|intros ob; split; reflexivity|exact HA|exact HR].
      + apply upd_keeps_all; [intros ob; repeat split|intros ob; split; reflexivity|exact HA|exact HR].
    - (* from ... import * : the module exports nothing *)
      apply Hsame; [apply Hunch; intros i' st' E; discriminate|].
      destruct (f_modname (with_todo todo fr)) as [t|]; [|inversion He; subst; split; [exact HA|split; [exact HR|apply meta_weak_refl]]].
      destruct (f_modobj (with_todo todo fr)) as [g|]; [|inversion He; subst; split; [exact HA|split; [exact HR|apply meta_weak_refl]]].
      inversion He; subst s1 fr1 en. clear He. change (f_mod (with_todo todo fr)) with m.
      pose proof (Hop_all mi eq_refl Hmi) as Hne.
      unfold import_all. cbv zeta. fold m. rewrite (exports_static s m mi mb HI Hmi Hnu Emb), Hne.
      match goal with |- context [fold_left ?f ?l0 s] => generalize l0; set (F := f) end. intros l.
      assert (Hfold : forall s0, OA p nm par (created s) s0 /\ OR p nm par (created s) s0 /\ meta_weak (m, 0, 0) s s0 ->
                                 OA p nm par (created s) (fold_left F l s0) /\ OR p nm par (created s) (fold_left F l s0) /\
                                 meta_weak (m, 0, 0) s (fold_left F l s0)).
      { induction l as [|name l IH]; intros s0 H0; cbn [fold_left]; [exact H0|]. apply IH.
        destruct H0 as (A0 & R0 & M0). unfold F.
        rewrite (handle_reexport_not_exported s0 (m, 0, 0) [] name name g (fun x => x)).
        destruct (upd_keeps_all p nm par (created s) s0 (m, 0, 0)
                    (fun mb0 => with_alias (nset name (expand_name s0 g [name]) (o_alias mb0)) mb0)) as (A1 & R1 & M1);
          [intros ob; repeat split|intros ob; split; reflexivity|exact A0|exact R0|].
        split; [exact A1|]. split; [exact R1|eapply meta_weak_trans; eassumption]. }
      apply Hfold. split; [exact HA|]. split; [exact HR|apply meta_weak_refl].
  Qed.

  Lemma Inv_op s fr rest op todo s1 fr1 en :
    Inv s -> frames s = fr :: rest -> f_todo fr = op :: todo ->
    exec_op s (with_todo todo fr) op = (s1, fr1, en) -> Ctl p (set_frames s1 (fr1 :: rest)) ->
    Good (set_frames s1 (fr1 :: rest)) ->
    (* the operation is not a re-exporting import *)
    (forall o a mi, op = MImportName o a -> modinfo_of p (f_mod fr) = Some mi -> ~ In a (exports_of_mod mi)) ->
    (forall mi, op = MImportAll -> modinfo_of p (f_mod fr) = Some mi -> exports_of_mod mi = []) ->
    Inv (set_frames s1 (fr1 :: rest)).
  Proof.
    intros HI Hf Ht He HC2 HG2 Hop_name Hop_all.
    pose proof (ctl_exec_op s (with_todo todo fr) op) as Hctl. pose proof (exec_op_frame s (with_todo todo fr) op) as Hfr.
    rewrite He in Hctl, Hfr. cbn [fst snd] in Hctl, Hfr. destruct Hfr as (Hfm & Hft). cbn [with_todo f_mod f_todo] in Hfm, Hft.
    destruct (op_triple s fr rest op todo s1 fr1 en HI Hf Ht He Hop_name Hop_all) as (A & R & M).
    exact (Inv_op_core s fr rest op todo s1 fr1 HI Hf Ht Hctl Hfm Hft HC2 HG2 A R M).
  Qed.
End Glue.

Section Final.
  Variable p : project.
  Hypothesis Hinj : keys_distinct p.
  Hypothesis Hnomove : no_move p.

  Notation nm := (sname p).
  Notation par := (sparent p).

  Definition GoodT (s : state) : Prop := True.
  Lemma static0 : forall s o, GoodT s -> sobj p o <> None -> ~ created_of p s o -> nm o = sname p o /\ par o = sparent p o.
  Proof. intros; split; reflexivity. Qed.

  Notation Inv0 := (Inv p nm par GoodT).

  Lemma Inv_step s s' : Inv0 s -> step p s = Next s' -> Inv0 s'.
  Proof.
    intros HI H. pose proof (Ctl_step p s s' (i_ctl p _ _ _ s HI) H) as HC'.
    destruct (step_cases p _ _ H) as [(Hf & m & rest & Hu & Hb)|[(fr & rest & Hf & Ht & ->)|
      (fr & rest & op & todo & s1 & fr1 & en & Hf & Ht & He & Hen)]].
    - eapply Inv_begin; [eassumption|eassumption|exact I].
    - apply Inv_finish; [assumption|assumption|assumption|assumption|exact I].
    - pose proof (Ctl_op p s fr rest op todo s1 fr1 en (i_ctl p _ _ _ s HI) Hf He) as HC1.
      destruct (op_mi p nm par GoodT s fr rest op todo HI Hf Ht) as (mi & pre & Hmi & Hexp).
      assert (HI1 : Inv0 (set_frames s1 (fr1 :: rest))).
      { eapply (Inv_op p nm par Hinj GoodT static0 s fr rest op todo s1 fr1 en HI Hf Ht He HC1 I).
        - intros o a mi' Hop Hmi'. rewrite Hmi in Hmi'. inversion Hmi'; subst mi'.
          assert (Hin : In (MImportName o a) (expand_stmts (m_stmts mi))) by (rewrite Hexp, Hop; apply in_or_app; right; left; reflexivity).
          destruct (In_expand_from_ImportName _ _ _ _ Hin) as (lv & mn & names & Hst & Hoa).
          exact (Hnomove _ mi _ Hmi Hst (o, a) Hoa).
        - intros mi' Hop Hmi'. rewrite Hmi in Hmi'. inversion Hmi'; subst mi'.
          assert (Hin : In MImportAll (expand_stmts (m_stmts mi))) by (rewrite Hexp, Hop; apply in_or_app; right; left; reflexivity).
          destruct (In_expand_from_ImportAll _ _ Hin) as (lv & mn & Hst).
          exact (Hnomove _ mi _ Hmi Hst). }
      destruct (ensure_cases p _ _ _ Hen) as [->|(o & _ & _ & Hb)]; [exact HI1|].
      eapply Inv_begin; [eassumption|eassumption|exact I].
  Qed.

  Lemma sobj_module_tag o si :
    sobj p o = Some si -> is_module_tag (s_tag si) = true -> modinfo_of p (fst (fst o)) <> None.
  Proof.
    destruct o as [[m i] j]. unfold sobj. cbn [fst snd]. destruct (N.eqb i 0).
    - destruct (N.eqb j 0); [|discriminate]. destruct (modinfo_of p m); [discriminate|discriminate].
    - destruct (stmt_at p m i) as [st|]; [|discriminate].
      destruct st; cbn [stmt_info]; try discriminate.
      + destruct (N.eqb j 0); [intros H; inversion H; subst; cbn; discriminate|].
        destruct (nth_error members (N.to_nat (j - 1))) as [[[mk n] d]|]; [|discriminate].
        intros H; inversion H; subst. unfold member_info. destruct (N.eqb mk 0); cbn; discriminate.
      + destruct (N.eqb j 0); [intros H; inversion H; subst; cbn; discriminate|discriminate].
      + destruct (N.eqb j 0); [intros H; inversion H; subst; cbn; discriminate|discriminate].
  Qed.

  Lemma Inv_modules_valid nm' par' Good' s : Inv p nm' par' Good' s -> modules_valid p s.
  Proof.
    intros HI o ob Ho Ht. pose proof (i_oa p _ _ _ s HI) as HA.
    assert (Hc : created_of p s o) by (apply (oa_exists _ _ _ _ _ HA); congruence).
    pose proof (oa_dom _ _ _ _ _ HA o Hc) as Hd. destruct (sobj p o) as [si|] eqn:Es; [|congruence].
    destruct (oa_static _ _ _ _ _ HA o ob si Ho Es) as (Htag & _). rewrite Htag in Ht.
    eapply sobj_module_tag; eassumption.
  Qed.

  Lemma run_machine_ok fuel : forall s,
    Inv0 s -> (mu p s < fuel)%nat ->
    exists s', run_machine p fuel s = Ok s' /\ Inv0 s' /\ frames s' = [] /\ unproc s' = [].
  Proof.
    induction fuel as [|f IH]; intros s HI Hlt; [lia|]. cbn [run_machine].
    destruct (step p s) as [s1| |n] eqn:Es.
    - apply IH; [eapply Inv_step; eassumption|]. pose proof (step_mu p _ _ Es). lia.
    - exists s. destruct (step_halt p s Es). auto.
    - exfalso. exact (step_not_stuck p s n (i_ctl p _ _ _ s HI) (Inv_modules_valid _ _ _ s HI) Es).
  Qed.
End Final.

(* ================================================================ the initial state: every module added, none processed *)
Section Init.
  Variable p : project.
  Hypothesis Hinj : keys_distinct p.
  Hypothesis Hwf : parents_first p.

  Notation nm := (sname p).
  Notation par := (sparent p).

  Definition Cmods (k : nat) (o : oid) : Prop := exists m, o = (N.of_nat m, 0, 0) /\ (m < k)%nat /\ (m < length p)%nat.

  Record AM (k : nat) (s : state) : Prop := {
    am_oa : OA p nm par (Cmods k) s;
    am_or : OR p nm par (Cmods k) s;
    am_frames : frames s = [];
    am_mst : forall m, mst s m = UNPROCESSED;
    am_unproc : unproc s = map N.of_nat (seq 0 k);
    am_meta : forall o ob, objs s o = Some ob -> o_doc ob = 0 /\ o_all ob = None }.

  Lemma modinfo_nat k : modinfo_of p (N.of_nat k) = nth_error p k.
  Proof. unfold modinfo_of. rewrite Nat2N.id. reflexivity. Qed.

  Lemma sobj_module k mi :
    nth_error p k = Some mi ->
    sobj p (N.of_nat k, 0, 0) =
    Some {| s_tag := if m_pkg mi then T_PACKAGE else T_MODULE; s_kind := if m_pkg mi then K_PACKAGE else K_MODULE;
            s_name := m_name mi; s_parent := match m_parent mi with Some q => Some (q, 0, 0) | None => None end;
            s_doc := m_doc mi |}.
  Proof. intros H. unfold sobj. cbn [N.eqb]. rewrite modinfo_nat, H. reflexivity. Qed.

  Lemma add_module_AM k mi s : nth_error p k = Some mi -> AM k s -> AM (S k) (add_module s (N.of_nat k) mi).
  Proof.
    intros Hk [HA HR Hfr Hmst Hun Hmeta].
    assert (Hklt : (k < length p)%nat) by (apply nth_error_Some; congruence).
    set (o := (N.of_nat k, 0, 0)). pose proof (sobj_module k mi Hk) as Hs. fold o in Hs.
    assert (HnC : ~ Cmods k o).
    { intros (m & E & Hm & _). unfold o in E. inversion E as [E']. apply Nat2N.inj in E'. lia. }
    assert (Hext : forall x, (Cmods k x \/ x = o) <-> Cmods (S k) x).
    { intros x. unfold Cmods, o. split.
      - intros [(m & E & Hm & Hl)| ->]; [exists m; repeat split; [exact E|lia|exact Hl]|exists k; repeat split; [lia|exact Hklt]].
      - intros (m & E & Hm & Hl). destruct (Nat.eq_dec m k) as [->|Hne]; [right; exact E|left; exists m; repeat split; [exact E|lia|exact Hl]]. }
    set (s0 := set_unproc s (unproc s ++ [N.of_nat k])).
    assert (HA0 : OA p nm par (Cmods k) s0) by (eapply (OA_same p nm par _ s); [reflexivity|reflexivity|exact HA]).
    assert (HR0 : OR p nm par (Cmods k) s0) by (eapply (OR_same p nm par _ s); [reflexivity|exact HR]).
    assert (Hun0 : unproc s0 = map N.of_nat (seq 0 (S k))).
    { unfold s0. cbn [set_unproc unproc]. rewrite Hun, seq_S, map_app. reflexivity. }
    assert (Hnm : nm o = m_name mi) by (unfold sname; rewrite Hs; reflexivity).
    destruct (m_parent mi) as [q|] eqn:Eq.
    - (* a sub-module: its package was added before *)
      set (ob := new_obj (if m_pkg mi then T_PACKAGE else T_MODULE) (if m_pkg mi then K_PACKAGE else K_MODULE) (m_name mi)
                         (Some (q, 0, 0)) 0).
      assert (Eam : add_module s (N.of_nat k) mi = add_object s0 o ob) by (unfold add_module; rewrite Eq; reflexivity).
      rewrite Eam.
      assert (Hq : q < N.of_nat k) by (eapply Hwf; [rewrite modinfo_nat; exact Hk|exact Eq]).
      assert (Hpar : par o = Some (q, 0, 0)) by (unfold sparent; rewrite Hs; reflexivity).
      assert (HP : Cmods k (q, 0, 0)).
      { exists (N.to_nat q). rewrite N2Nat.id. repeat split; lia. }
      destruct (add_object_new p nm par Hinj (Cmods k) s0 o ob _ (q, 0, 0) HA0 HR0 HnC Hs Hpar HP eq_refl eq_refl
                               (eq_sym Hnm) eq_refl eq_refl (fun H => match H eq_refl with end))
        as (A & R & Hoth & Hnew & (pb & EP & EP')).
      pose proof (ctl_add_object s0 o ob) as (C1 & C2 & C3 & _).
      constructor.
      + eapply OA_ext; [exact Hext|exact A].
      + eapply OR_ext; [exact Hext|exact R].
      + rewrite C3. exact Hfr.
      + intros m. rewrite C1. apply Hmst.
      + rewrite C2. exact Hun0.
      + intros x xb Hx. destruct (oid_eq_dec x o) as [->|Hxo].
        * rewrite Hnew in Hx. inversion Hx; subst xb. split; reflexivity.
        * destruct (oid_eq_dec x (q, 0, 0)) as [->|HxP].
          -- rewrite EP' in Hx. inversion Hx; subst xb. cbn [with_contents o_doc o_all]. apply (Hmeta (q, 0, 0)). exact EP.
          -- rewrite (Hoth x Hxo HxP) in Hx. apply (Hmeta x). exact Hx.
    - (* a root module *)
      set (ob := new_obj (if m_pkg mi then T_PACKAGE else T_MODULE) (if m_pkg mi then K_PACKAGE else K_MODULE) (m_name mi)
                         None 0).
      unfold add_module. rewrite Eq. cbv zeta. fold o. fold s0. fold ob.
      assert (Hpar : par o = None) by (unfold sparent; rewrite Hs; reflexivity).
      destruct (add_root_new p nm par Hinj (Cmods k) s0 o ob _ HA0 HR0 HnC Hs Hpar eq_refl eq_refl (eq_sym Hnm) eq_refl eq_refl
                             (fun H => match H eq_refl with end)) as (Hnone & A & R).
      rewrite (key_root p nm par o Hpar), Hnm in Hnone, A, R.
      cbn [allobjs set_obj] . change (allobjs s0) with (allobjs s) in *. rewrite Hnone.
      constructor.
      + eapply OA_ext; [exact Hext|]. eapply OA_same; [| |exact A]; reflexivity.
      + eapply OR_ext; [exact Hext|]. eapply OR_same; [|exact R]. reflexivity.
      + exact Hfr.
      + exact Hmst.
      + exact Hun0.
      + intros x xb. cbn [set_all objs]. rewrite objs_set_obj. destruct (oid_eqb x o).
        * intros Hx. inversion Hx; subst xb. split; reflexivity.
        * apply Hmeta.
  Qed.

  Lemma add_modules_AM l : forall pre s,
    p = pre ++ l -> AM (length pre) s -> AM (length p) (add_modules s (N.of_nat (length pre)) l).
  Proof.
    induction l as [|mi l IH]; intros pre s Hp HAM; cbn [add_modules].
    - rewrite Hp, app_nil_r. exact HAM.
    - assert (Hk : nth_error p (length pre) = Some mi).
      { rewrite Hp, nth_error_app2 by lia. rewrite Nat.sub_diag. reflexivity. }
      replace (N.of_nat (length pre) + 1) with (N.of_nat (length (pre ++ [mi]))) by (rewrite app_length; cbn [length]; lia).
      apply IH; [rewrite <- app_assoc; exact Hp|].
      rewrite app_length. cbn [length]. replace (length pre + 1)%nat with (S (length pre)) by lia.
      apply add_module_AM; assumption.
  Qed.

  Lemma AM_empty : AM 0 (empty_state p).
  Proof.
    constructor.
    - constructor.
      + reflexivity.
      + intros o (m & _ & Hm & _). lia.
      + intros o. cbn [empty_state objs]. split; [congruence|]. intros (m & _ & Hm & _). lia.
      + intros o ob si H. discriminate.
      + intros o q (m & _ & Hm & _). lia.
      + intros S ob n o H. discriminate.
      + intros o S (m & _ & Hm & _). lia.
      + intros S sb H. discriminate.
    - constructor.
      + intros k o H. discriminate.
      + intros o (m & _ & Hm & _). lia.
      + constructor.
    - reflexivity.
    - reflexivity.
    - reflexivity.
    - intros o ob H. discriminate.
  Qed.

  Lemma module_ids_In m : In m (module_ids p) <-> modinfo_of p m <> None.
  Proof.
    unfold module_ids, modinfo_of. rewrite in_map_iff. split.
    - intros (k & <- & Hk). apply in_seq in Hk. rewrite Nat2N.id. apply nth_error_Some. lia.
    - intros H. apply nth_error_Some in H. exists (N.to_nat m). split; [apply N2Nat.id|apply in_seq; lia].
  Qed.

  Lemma module_ids_NoDup : NoDup (module_ids p).
  Proof.
    unfold module_ids. apply FinFun.Injective_map_NoDup; [intros a b; apply Nat2N.inj|apply seq_NoDup].
  Qed.

  Lemma Inv_init sigma : Permutation sigma (module_ids p) -> Inv p nm par GoodT (init_state p sigma).
  Proof.
    intros Hperm. pose proof (add_modules_AM p [] (empty_state p) eq_refl AM_empty) as HAM. cbn [length] in HAM.
    change (N.of_nat 0) with 0 in HAM. set (sa := add_modules (empty_state p) 0 p) in *.
    destruct HAM as [HA HR Hfr Hmst Hun Hmeta]. unfold init_state. fold sa.
    assert (Hin : forall m, In m sigma <-> modinfo_of p m <> None).
    { intros m. rewrite <- module_ids_In. split; [apply Permutation_in; exact Hperm|apply Permutation_in; apply Permutation_sym; exact Hperm]. }
    assert (Hcr : forall o, Cmods (length p) o <-> created_of p (set_unproc sa sigma) o).
    { intros [[m i] j]. unfold created_of, Cmods, pending_of. cbn [fst snd set_unproc unproc frames]. rewrite Hfr. split.
      - intros (k & E & _ & Hk). inversion E; subst. split; [|left; reflexivity].
        destruct (nth_error p k) as [mi|] eqn:Ek; [rewrite (sobj_module k mi Ek); discriminate|apply nth_error_None in Ek; lia].
      - intros [Hd [->|Hn]].
        + unfold sobj in Hd. cbn [N.eqb] in Hd. destruct (N.eqb j 0) eqn:Ej; [|congruence]. apply N.eqb_eq in Ej. subst j.
          destruct (modinfo_of p m) eqn:Em; [|congruence].
          exists (N.to_nat m). rewrite N2Nat.id. split; [reflexivity|].
          assert (N.to_nat m < length p)%nat by (apply nth_error_Some; unfold modinfo_of in Em; congruence). lia.
        + exfalso. destruct (N.eq_dec i 0) as [->|Hi].
          * apply Hn. left. apply Hin. unfold sobj in Hd. cbn [N.eqb] in Hd. destruct (N.eqb j 0); [|congruence].
            destruct (modinfo_of p m); congruence.
          * apply Hn. left. apply Hin. unfold sobj in Hd. apply N.eqb_neq in Hi. rewrite Hi in Hd.
            unfold stmt_at in Hd. destruct (modinfo_of p m); congruence. }
    constructor.
    - constructor; cbn [set_unproc unproc mst frames].
      + eapply Permutation_NoDup; [apply Permutation_sym; exact Hperm|apply module_ids_NoDup].
      + intros m. rewrite Hin, Hmst. tauto.
      + rewrite Hfr. intros fr [].
      + rewrite Hfr. constructor.
    - eapply OA_ext; [exact Hcr|]. eapply (OA_same p nm par _ sa); [reflexivity|reflexivity|exact HA].
    - eapply OR_ext; [exact Hcr|]. eapply (OR_same p nm par _ sa); [reflexivity|exact HR].
    - cbn [set_unproc frames]. rewrite Hfr. intros fr [].
    - intros m mb mi Hmb Hmi. cbn [set_unproc objs unproc] in *. destruct (Hmeta _ _ Hmb) as [D1 D2].
      split; [intros _; split; assumption|]. intros Hn. exfalso. apply Hn. apply Hin. congruence.
    - exact I.
  Qed.
End Init.

(* ================================================================ the theorem *)
Section MainTheorem.
  Variable p : project.
  Hypothesis Hwf : parents_first p.
  Hypothesis Hinj : keys_distinct p.
  Hypothesis Hnomove : no_move p.

  Lemma frames_add_module s m mi : frames (add_module s m mi) = frames s.
  Proof.
    unfold add_module. cbv zeta. destruct (m_parent mi).
    - destruct (ctl_add_object (set_unproc s (unproc s ++ [m])) (m, 0, 0)
                               (new_obj (if m_pkg mi then T_PACKAGE else T_MODULE) (if m_pkg mi then K_PACKAGE else K_MODULE)
                                        (m_name mi) (Some (n, 0, 0)) 0)) as (_ & _ & H & _). exact H.
    - match goal with |- context [pget ?k ?l] => destruct (pget k l) end; reflexivity.
  Qed.

  Lemma frames_add_modules l : forall s k, frames (add_modules s k l) = frames s.
  Proof. induction l as [|mi l IH]; intros s k; cbn [add_modules]; [reflexivity|]. rewrite IH. apply frames_add_module. Qed.

  Lemma unproc_cost_perm a b : Permutation a b -> unproc_cost p a = unproc_cost p b.
  Proof.
    induction 1 as [|x a b _ IH|x y a|a b c _ IH1 _ IH2]; cbn [unproc_cost fold_right] in *;
      unfold unproc_cost in *; lia.
  Qed.

  Lemma unproc_cost_ids l : forall pre,
    p = pre ++ l ->
    unproc_cost p (map N.of_nat (seq (length pre) (length l))) = fold_right (fun mi a => mod_cost mi + 2 + a)%nat 0%nat l.
  Proof.
    induction l as [|mi l IH]; intros pre Hp; cbn [length seq map unproc_cost fold_right]; [reflexivity|].
    assert (Hk : nth_error p (length pre) = Some mi) by (rewrite Hp, nth_error_app2 by lia; rewrite Nat.sub_diag; reflexivity).
    unfold cost_of at 1. rewrite (modinfo_nat p), Hk.
    specialize (IH (pre ++ [mi])). rewrite app_length in IH. cbn [length] in IH.
    replace (length pre + 1)%nat with (S (length pre)) in IH by lia.
    unfold unproc_cost in IH. rewrite IH by (rewrite <- app_assoc; exact Hp). reflexivity.
  Qed.

  Lemma run_fuel_sum : run_fuel p = S (fold_right (fun mi a => mod_cost mi + 2 + a)%nat 0%nat p).
  Proof.
    unfold run_fuel.
    assert (H : forall l : project, fold_right (fun mi a => mod_cost mi + 2 + a)%nat 1%nat l =
                                    S (fold_right (fun mi a => mod_cost mi + 2 + a)%nat 0%nat l)).
    { induction l as [|mi l IH]; cbn [fold_right]; [reflexivity|]. rewrite IH. lia. }
    apply H.
  Qed.

  Lemma init_mu sigma : Permutation sigma (module_ids p) -> (mu p (init_state p sigma) < run_fuel p)%nat.
  Proof.
    intros Hperm. unfold mu, init_state. cbn [set_unproc frames unproc]. rewrite frames_add_modules. cbn [empty_state frames frames_cost fold_right].
    rewrite (unproc_cost_perm _ _ Hperm). unfold module_ids.
    pose proof (unproc_cost_ids p [] eq_refl) as H. cbn [length] in H. rewrite H, run_fuel_sum. lia.
  Qed.

  (* what the registry says about a qualified name: (class, kind, docstring) *)
  Definition static_entry (k : path) (e : N * N * N) : Prop :=
    exists o si, sobj p o = Some si /\ skey p o = k /\ e = (s_tag si, s_kind si, s_doc si).

  Theorem registry_static sigma :
    Permutation sigma (module_ids p) ->
    exists s, run_state p sigma = Ok s /\ forall k e, reg_entry s k = Some e <-> static_entry k e.
  Proof.
    intros Hperm. unfold run_state.
    destruct (run_machine_ok p Hinj Hnomove (run_fuel p) (init_state p sigma) (Inv_init p Hinj Hwf sigma Hperm) (init_mu sigma Hperm))
      as (s & Hrun & HI & Hfr & Hun).
    exists s. split; [exact Hrun|].
    pose proof (i_oa p _ _ _ s HI) as HA. pose proof (i_or p _ _ _ s HI) as HR.
    assert (Hcr : forall o, created_of p s o <-> sobj p o <> None).
    { intros o. unfold created_of, pending_of. rewrite Hfr, Hun. split; [tauto|]. intros Hd. split; [exact Hd|]. right.
      intros [[]|(fr & st & [] & _)]. }
    assert (Hinfo : forall o ob si, objs s o = Some ob -> sobj p o = Some si ->
                                    (o_tag ob, o_kind ob, o_doc ob) = (s_tag si, s_kind si, s_doc si)).
    { intros o ob si Ho Hs. destruct (oa_static _ _ _ _ _ HA o ob si Ho Hs) as (T & K & _ & _ & D).
      rewrite T, K. f_equal. destruct o as [[m i] j]. cbn [fst snd] in D.
      destruct (N.eq_dec i 0) as [->|Hi]; [|apply D; exact Hi].
      unfold sobj in Hs. cbn [N.eqb] in Hs. destruct (N.eqb j 0) eqn:Ej; [|discriminate]. apply N.eqb_eq in Ej. subst j.
      destruct (modinfo_of p m) as [mi|] eqn:Em; [|discriminate]. inversion Hs; subst si. cbn [s_doc].
      destruct (i_meta p _ _ _ s HI m ob mi Ho Em) as [_ B]. rewrite Hun in B. destruct (B (fun x => x)) as [-> _]. reflexivity. }
    intros k e. unfold reg_entry, static_entry. split.
    - destruct (pget k (allobjs s)) as [o|] eqn:Ek; [|discriminate].
      destruct (or_sound _ _ _ _ _ HR k o Ek) as [Co Ko]. apply Hcr in Co.
      destruct (objs s o) as [ob|] eqn:Eo; [|discriminate]. destruct (sobj p o) as [si|] eqn:Es; [|congruence].
      intros H. inversion H; subst e. exists o, si. split; [exact Es|]. split; [exact Ko|]. eapply Hinfo; eassumption.
    - intros (o & si & Hs & Hk & ->).
      assert (Co : created_of p s o) by (apply Hcr; congruence).
      pose proof (or_complete _ _ _ _ _ HR o Co) as Hget. change (key p (sname p) (sparent p) o) with (skey p o) in Hget. rewrite Hk in Hget. rewrite Hget.
      destruct (objs s o) as [ob|] eqn:Eo; [|exfalso; apply (oa_exists _ _ _ _ _ HA) in Co; congruence].
      f_equal. eapply Hinfo; eassumption.
  Qed.

  (* ... hence the same for any two processing orders *)
  Theorem registry_order_free sigma1 sigma2 :
    Permutation sigma1 (module_ids p) -> Permutation sigma2 (module_ids p) ->
    exists s1 s2, run_state p sigma1 = Ok s1 /\ run_state p sigma2 = Ok s2 /\
                  forall k, reg_entry s1 k = reg_entry s2 k.
  Proof.
    intros H1 H2. destruct (registry_static sigma1 H1) as (s1 & R1 & E1). destruct (registry_static sigma2 H2) as (s2 & R2 & E2).
    exists s1, s2. split; [exact R1|]. split; [exact R2|]. intros k.
    destruct (reg_entry s1 k) as [e1|] eqn:A.
    - apply E1 in A. apply E2 in A. symmetry. exact A.
    - destruct (reg_entry s2 k) as [e2|] eqn:B; [|reflexivity]. apply E2 in B. apply E1 in B. congruence.
  Qed.
End MainTheorem.
