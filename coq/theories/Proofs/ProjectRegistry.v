(* Proofs/ProjectRegistry.v -- the registry of Model/Project.v is the static one (Spec/ProjectStatic.v) whatever the
   processing order, for projects whose qualified names are distinct and in which no import re-exports. *)
From Coq Require Import ZArith NArith List Bool Lia Permutation.
From PydoctorVerif Require Import Base.Sexp Model.Project Spec.ProjectStatic Proofs.ProjectBase.
Import ListNotations.
Local Open Scope N_scope.

(* ---------------------------------------------------------------- small facts about the store *)
Lemma objs_set_obj s o ob x : objs (set_obj s o ob) x = if oid_eqb x o then Some ob else objs s x.
Proof. reflexivity. Qed.
Lemma objs_set_obj_same s o ob : objs (set_obj s o ob) o = Some ob.
Proof. rewrite objs_set_obj, oid_eqb_refl. reflexivity. Qed.
Lemma objs_set_obj_other s o ob x : x <> o -> objs (set_obj s o ob) x = objs s x.
Proof. intros H. rewrite objs_set_obj, (oid_eqb_neq x o H). reflexivity. Qed.
Lemma upd_obj_some s o f ob : objs s o = Some ob -> upd_obj s o f = set_obj s o (f ob).
Proof. unfold upd_obj. intros ->. reflexivity. Qed.
Lemma upd_obj_none s o f : objs s o = None -> upd_obj s o f = s.
Proof. unfold upd_obj. intros ->. reflexivity. Qed.
Lemma allobjs_set_obj s o ob : allobjs (set_obj s o ob) = allobjs s.
Proof. reflexivity. Qed.
Lemma allobjs_upd_obj s o f : allobjs (upd_obj s o f) = allobjs s.
Proof. unfold upd_obj. destruct (objs s o); reflexivity. Qed.
Lemma dfuel_upd_obj s o f : dfuel (upd_obj s o f) = dfuel s.
Proof. unfold upd_obj. destruct (objs s o); reflexivity. Qed.

(* functions on objects that keep everything the registry depends on *)
Definition keeps (f : obj -> obj) : Prop :=
  forall ob, o_tag (f ob) = o_tag ob /\ o_kind (f ob) = o_kind ob /\ o_name (f ob) = o_name ob /\
             o_parent (f ob) = o_parent ob /\ o_contents (f ob) = o_contents ob.
Lemma keeps_with_alias a : keeps (with_alias a).
Proof. intros ob. repeat split. Qed.
Lemma keeps_with_doc d : keeps (with_doc d).
Proof. intros ob. repeat split. Qed.
Lemma keeps_with_all a : keeps (with_all a).
Proof. intros ob. repeat split. Qed.
Lemma keeps_comp f g : keeps f -> keeps g -> keeps (fun ob => f (g ob)).
Proof.
  intros Hf Hg ob. destruct (Hf (g ob)) as (A1 & A2 & A3 & A4 & A5). destruct (Hg ob) as (B1 & B2 & B3 & B4 & B5).
  repeat split; congruence.
Qed.

Section ObjectInvariant.
  Variable p : project.
  (* expected name and parent of the objects of the static domain *)
  Variables (nm : oid -> N) (par : oid -> option oid).

  Definition key (o : oid) : path := qname_f nm par (depth_fuel p) o.

  Hypothesis key_inj : forall o o', sobj p o <> None -> sobj p o' <> None -> key o = key o' -> o = o'.

  (* the object part: who exists (C), with which tag, kind, name, parent; what `contents` may hold *)
  Record OA (C : oid -> Prop) (s : state) : Prop := {
    oa_fuel : dfuel s = depth_fuel p;
    oa_dom : forall o, C o -> sobj p o <> None;
    oa_exists : forall o, objs s o <> None <-> C o;
    oa_static : forall o ob si, objs s o = Some ob -> sobj p o = Some si ->
                                o_tag ob = s_tag si /\ o_kind ob = s_kind si /\ o_name ob = nm o /\ o_parent ob = par o /\
                                (snd (fst o) <> 0 -> o_doc ob = s_doc si);
    oa_closed : forall o q, C o -> par o = Some q -> C q;
    oa_contents : forall S ob n o, objs s S = Some ob -> nget n (o_contents ob) = Some o ->
                                   C o /\ par o = Some S /\ nm o = n }.

  (* the registry part: System.allobjects is exactly { key o -> o | o exists } *)
  Record OR (C : oid -> Prop) (s : state) : Prop := {
    or_sound : forall k o, pget k (allobjs s) = Some o -> C o /\ key o = k;
    or_complete : forall o, C o -> pget (key o) (allobjs s) = Some o }.

  Lemma OA_ext C C' s : (forall o, C o <-> C' o) -> OA C s -> OA C' s.
  Proof.
    intros He [H1 H2 H3 H4 H5 H6]. constructor.
    - exact H1.
    - intros o Ho. apply H2, He, Ho.
    - intros o. rewrite H3. apply He.
    - exact H4.
    - intros o q Ho Hq. apply He. eapply H5; [apply He; exact Ho|exact Hq].
    - intros S ob n o Hs Hn. destruct (H6 S ob n o Hs Hn) as (A & B & D). split; [apply He; exact A|auto].
  Qed.
  Lemma OR_ext C C' s : (forall o, C o <-> C' o) -> OR C s -> OR C' s.
  Proof.
    intros He [H1 H2]. constructor.
    - intros k o Hk. destruct (H1 k o Hk) as [A B]. split; [apply He; exact A|exact B].
    - intros o Ho. apply H2, He, Ho.
  Qed.

  Lemma full_name_key C s o : OA C s -> C o -> full_name s o = key o.
  Proof.
    intros HA. unfold full_name, key. rewrite (oa_fuel C s HA). generalize (depth_fuel p) as f.
    intros f. revert o. induction f as [|f IH]; intros o Ho; cbn [full_name_f qname_f]; [reflexivity|].
    destruct (objs s o) as [ob|] eqn:Eo; [|exfalso; apply (oa_exists C s HA o) in Ho; congruence].
    destruct (sobj p o) as [si|] eqn:Es; [|exfalso; apply (oa_dom C s HA o Ho); exact Es].
    destruct (oa_static C s HA o ob si Eo Es) as (_ & _ & Hn & Hp & _). rewrite Hn, Hp.
    destruct (par o) as [q|] eqn:Eq; [|reflexivity].
    rewrite (IH q (oa_closed C s HA o q Ho Eq)). reflexivity.
  Qed.

  Lemma key_same o o' : par o = par o' -> nm o = nm o' -> key o = key o'.
  Proof. unfold key, depth_fuel. rewrite Nat.add_comm. cbn [Nat.add qname_f]. intros -> ->. reflexivity. Qed.

  (* an update that keeps tag, kind, name, parent and contents keeps both parts *)
  Lemma OA_upd C s o f :
    keeps f -> (snd (fst o) = 0 \/ forall ob, o_doc (f ob) = o_doc ob) -> OA C s -> OA C (upd_obj s o f).
  Proof.
    intros Hk Hd HA. destruct (objs s o) as [ob|] eqn:Eo; [|rewrite (upd_obj_none s o f Eo); exact HA].
    rewrite (upd_obj_some s o f ob Eo). destruct (Hk ob) as (K1 & K2 & K3 & K4 & K5).
    destruct HA as [H1 H2 H3 H4 H5 H6]. constructor.
    - exact H1.
    - exact H2.
    - intros x. rewrite objs_set_obj. destruct (oid_eqb x o) eqn:E; [|apply H3].
      apply oid_eqb_eq in E. subst x. split; [intros _; apply H3; congruence|discriminate].
    - intros x xb si. rewrite objs_set_obj. destruct (oid_eqb x o) eqn:E; [|apply H4].
      apply oid_eqb_eq in E. subst x. intros Hx Hs. inversion Hx; subst xb. rewrite K1, K2, K3, K4.
      destruct (H4 o ob si Eo Hs) as (A1 & A2 & A3 & A4 & A5). repeat split; try assumption.
      intros Hnz. destruct Hd as [Hz|Hd]; [contradiction|]. rewrite Hd. apply A5. exact Hnz.
    - exact H5.
    - intros S sb n x. rewrite objs_set_obj. destruct (oid_eqb S o) eqn:E; [|apply H6].
      apply oid_eqb_eq in E. subst S. intros Hx. inversion Hx; subst sb. rewrite K5. eapply H6; eassumption.
  Qed.
  Lemma OR_upd C s o f : OR C s -> OR C (upd_obj s o f).
  Proof. intros [H1 H2]. constructor; rewrite allobjs_upd_obj; assumption. Qed.

  (* System.addObject of a NEW object of the static domain below an existing parent *)
  Lemma add_object_new C s o ob si P :
    OA C s -> OR C s -> ~ C o -> sobj p o = Some si -> par o = Some P -> C P ->
    o_tag ob = s_tag si -> o_kind ob = s_kind si -> o_name ob = nm o -> o_parent ob = Some P -> o_contents ob = [] ->
    o_doc ob = s_doc si ->
    let C' := fun x => C x \/ x = o in
    OA C' (add_object s o ob) /\ OR C' (add_object s o ob) /\
    (forall x, x <> o -> x <> P -> objs (add_object s o ob) x = objs s x) /\
    objs (add_object s o ob) o = Some ob /\
    (exists pb, objs s P = Some pb /\
                objs (add_object s o ob) P = Some (with_contents (nset (nm o) o (o_contents pb)) pb)).
  Proof.
    intros HA HR HnC Hs Hpar HP Htag Hkind Hname Hparent Hcont Hdoc C'.
    assert (HPo : P <> o) by (intros ->; contradiction).
    destruct (objs s P) as [pb|] eqn:EP; [|exfalso; apply (oa_exists C s HA P) in HP; congruence].
    unfold add_object. cbv zeta. rewrite Hparent.
    assert (E1 : objs (set_obj s o ob) P = Some pb) by (rewrite objs_set_obj_other by exact HPo; exact EP).
    rewrite (upd_obj_some _ P _ pb E1). rewrite Hname.
    set (pb' := with_contents (nset (nm o) o (o_contents pb)) pb).
    set (s2 := set_obj (set_obj s o ob) P pb').
    assert (O2 : forall x, objs s2 x = if oid_eqb x P then Some pb' else if oid_eqb x o then Some ob else objs s x)
      by (intros x; reflexivity).
    assert (HA2 : OA C' s2).
    { destruct HA as [H1 H2 H3 H4 H5 H6]. constructor.
      - exact H1.
      - intros x [Hx| ->]; [apply H2; exact Hx|congruence].
      - intros x. rewrite O2. unfold C'. destruct (oid_eqb x P) eqn:E1'.
        + apply oid_eqb_eq in E1'. subst x. split; [intros _; left; exact HP|discriminate].
        + destruct (oid_eqb x o) eqn:E2.
          * apply oid_eqb_eq in E2. subst x. split; [intros _; right; reflexivity|discriminate].
          * rewrite H3. split; [tauto|]. intros [Hx| ->]; [exact Hx|rewrite oid_eqb_refl in E2; discriminate].
      - intros x xb sx. rewrite O2. destruct (oid_eqb x P) eqn:E1'.
        + apply oid_eqb_eq in E1'. subst x. intros Hx Hsx. inversion Hx; subst xb. unfold pb'.
          cbn [with_contents o_tag o_kind o_name o_parent o_doc].
          eapply H4; eassumption.
        + destruct (oid_eqb x o) eqn:E2; [|apply H4].
          apply oid_eqb_eq in E2. subst x. intros Hx Hsx. inversion Hx; subst xb. rewrite Hs in Hsx. inversion Hsx; subst sx.
          rewrite Hpar. repeat split; auto.
      - intros x q [Hx| ->] Hq; [left; eapply H5; eassumption|]. rewrite Hpar in Hq. inversion Hq; subst q. left. exact HP.
      - intros S sb n x. rewrite O2. destruct (oid_eqb S P) eqn:E1'.
        + apply oid_eqb_eq in E1'. subst S. intros Hx. inversion Hx; subst sb. unfold pb'. cbn [with_contents o_contents].
          destruct (N.eq_dec n (nm o)) as [->|Hne].
          * rewrite nget_nset_same. intros Hy. inversion Hy; subst x. split; [right; reflexivity|auto].
          * rewrite nget_nset_other by exact Hne. intros Hy. destruct (H6 P pb n x EP Hy) as (A & B & D).
            split; [left; exact A|auto].
        + destruct (oid_eqb S o) eqn:E2.
          * intros Hx. inversion Hx; subst sb. rewrite Hcont. cbn. discriminate.
          * intros Hx Hy. destruct (H6 S sb n x Hx Hy) as (A & B & D). split; [left; exact A|auto]. }
    assert (Hk : full_name s2 o = key o) by (apply (full_name_key C' s2 o HA2); right; reflexivity).
    rewrite Hk.
    assert (Hnone : pget (key o) (allobjs s) = None).
    { destruct (pget (key o) (allobjs s)) as [first|] eqn:Ef; [|reflexivity]. exfalso.
      destruct (or_sound C s HR _ _ Ef) as [Cf Kf].
      assert (first = o).
      { apply key_inj; [apply (oa_dom C s HA); exact Cf|congruence|exact Kf]. }
      subst first. contradiction. }
    change (allobjs s2) with (allobjs s). rewrite Hnone.
    split; [|split; [|split; [|split]]].
    - destruct HA2 as [H1 H2 H3 H4 H5 H6]. constructor; assumption.
    - constructor.
      + intros k x. cbn [set_all allobjs]. change (allobjs s2) with (allobjs s). rewrite pget_app.
        destruct (pget k (allobjs s)) as [y|] eqn:Ey.
        * intros Hx. inversion Hx; subst y. destruct (or_sound C s HR _ _ Ey) as [A B]. split; [left; exact A|exact B].
        * cbn [pget]. destruct (path_eqb (key o) k) eqn:Ek; [|discriminate].
          apply path_eqb_eq in Ek. intros Hx. inversion Hx; subst x. split; [right; reflexivity|exact Ek].
      + intros x Hx. cbn [set_all allobjs]. change (allobjs s2) with (allobjs s). rewrite pget_app.
        destruct Hx as [Hx| ->].
        * rewrite (or_complete C s HR x Hx). reflexivity.
        * rewrite Hnone. cbn [pget]. rewrite path_eqb_refl. reflexivity.
    - intros x Hxo HxP. cbn [set_all objs]. rewrite O2, (oid_eqb_neq x P HxP), (oid_eqb_neq x o Hxo). reflexivity.
    - cbn [set_all objs]. rewrite O2, (oid_eqb_neq o P (fun e => HPo (eq_sym e))), oid_eqb_refl. reflexivity.
    - exists pb. split; [reflexivity|]. cbn [set_all objs]. rewrite O2, oid_eqb_refl. reflexivity.
  Qed.

  (* what a transition leaves untouched on the objects that already exist: docstring, __all__, alias map *)
  Definition meta_pres (s s' : state) : Prop :=
    forall o ob, objs s o = Some ob ->
                 exists ob', objs s' o = Some ob' /\ o_doc ob' = o_doc ob /\ o_all ob' = o_all ob.
  Lemma meta_pres_refl s : meta_pres s s.
  Proof. intros o ob H. exists ob. auto. Qed.
  Lemma meta_pres_trans a b c : meta_pres a b -> meta_pres b c -> meta_pres a c.
  Proof.
    intros H1 H2 o ob Ho. destruct (H1 o ob Ho) as (ob1 & E1 & A1 & A2).
    destruct (H2 o ob1 E1) as (ob2 & E2 & B1 & B2). exists ob2. repeat split; congruence.
  Qed.

  Lemma add_object_new_meta C s o ob si P :
    OA C s -> OR C s -> ~ C o -> sobj p o = Some si -> par o = Some P -> C P ->
    o_tag ob = s_tag si -> o_kind ob = s_kind si -> o_name ob = nm o -> o_parent ob = Some P -> o_contents ob = [] ->
    o_doc ob = s_doc si ->
    meta_pres s (add_object s o ob).
  Proof.
    intros HA HR HnC Hs Hpar HP Htag Hkind Hname Hparent Hcont Hdoc.
    destruct (add_object_new C s o ob si P HA HR HnC Hs Hpar HP Htag Hkind Hname Hparent Hcont Hdoc)
      as (_ & _ & Hoth & _ & (pb & EP & EP')).
    intros x xb Hx. destruct (oid_eq_dec x o) as [->|Hxo].
    - exfalso. apply HnC. apply (oa_exists C s HA). congruence.
    - destruct (oid_eq_dec x P) as [->|HxP].
      + rewrite EP in Hx. inversion Hx; subst xb. eexists. split; [exact EP'|]. repeat split.
      + exists xb. rewrite (Hoth x Hxo HxP). auto.
  Qed.

  Lemma upd_keeps_all C s o f :
    keeps f -> (forall ob, o_doc (f ob) = o_doc ob /\ o_all (f ob) = o_all ob) -> OA C s -> OR C s ->
    OA C (upd_obj s o f) /\ OR C (upd_obj s o f) /\ meta_pres s (upd_obj s o f).
  Proof.
    intros Hk Hd HA HR. split; [apply OA_upd; [exact Hk|right; intros ob; apply Hd|exact HA]|].
    split; [apply OR_upd; exact HR|].
    intros x xb Hx. destruct (objs s o) as [ob|] eqn:Eo; [|rewrite (upd_obj_none s o f Eo); exists xb; auto].
    rewrite (upd_obj_some s o f ob Eo). destruct (oid_eq_dec x o) as [->|Hne].
    - rewrite objs_set_obj_same. rewrite Eo in Hx. inversion Hx; subst xb. exists (f ob). destruct (Hd ob). auto.
    - rewrite objs_set_obj_other by exact Hne. exists xb. auto.
  Qed.

  (* ---- statements that define objects ---- *)
  Lemma sobj_stmt m i j st : stmt_at p m i = Some st -> sobj p (m, i, j) = stmt_info m i j st.
  Proof.
    intros H. unfold sobj. destruct (N.eqb i 0) eqn:Ei.
    - unfold stmt_at in H. destruct (modinfo_of p m); [|discriminate]. rewrite Ei in H. discriminate.
    - rewrite H. reflexivity.
  Qed.

  Lemma name_free_in_contents C s S ob n o :
    OA C s -> objs s S = Some ob -> sobj p o <> None -> ~ C o -> par o = Some S -> nm o = n ->
    nget n (o_contents ob) = None.
  Proof.
    intros HA HS Hdom HnC Hpar Hnm. destruct (nget n (o_contents ob)) as [ex|] eqn:E; [|reflexivity]. exfalso.
    destruct (oa_contents C s HA S ob n ex HS E) as (Cex & Pex & Nex).
    assert (ex = o).
    { apply key_inj; [apply (oa_dom C s HA); exact Cex|exact Hdom|]. apply key_same; congruence. }
    subst ex. contradiction.
  Qed.

  Lemma exec_func_new C s m i name doc :
    OA C s -> OR C s -> stmt_at p m i = Some (SFunc name doc) -> ~ C (m, i, 0) -> C (m, 0, 0) ->
    nm (m, i, 0) = name -> par (m, i, 0) = Some (m, 0, 0) ->
    let C' := fun x => C x \/ x = (m, i, 0) in
    let s' := exec_stmt s m i (SFunc name doc) in
    OA C' s' /\ OR C' s' /\ meta_pres s s'.
  Proof.
    intros HA HR Hst HnC HP Hn Hp C' s'. subst s'. cbn [exec_stmt]. cbv zeta.
    pose proof (sobj_stmt m i 0 _ Hst) as Hs. cbn [stmt_info N.eqb] in Hs.
    set (ob := new_obj T_FUNCTION K_FUNCTION name (Some (m, 0, 0)) doc).
    destruct (add_object_new C s (m, i, 0) ob _ (m, 0, 0) HA HR HnC Hs Hp HP eq_refl eq_refl (eq_sym Hn) eq_refl eq_refl eq_refl)
      as (A & B & _).
    split; [exact A|]. split; [exact B|].
    eapply add_object_new_meta; try eassumption; try reflexivity. symmetry; exact Hn.
  Qed.

  Lemma exec_var_new C s m i name doc :
    OA C s -> OR C s -> stmt_at p m i = Some (SVar name doc) -> ~ C (m, i, 0) -> C (m, 0, 0) ->
    nm (m, i, 0) = name -> par (m, i, 0) = Some (m, 0, 0) ->
    let C' := fun x => C x \/ x = (m, i, 0) in
    let s' := exec_stmt s m i (SVar name doc) in
    OA C' s' /\ OR C' s' /\ meta_pres s s'.
  Proof.
    intros HA HR Hst HnC HP Hn Hp C' s'. subst s'. cbn [exec_stmt]. cbv zeta.
    pose proof (sobj_stmt m i 0 _ Hst) as Hs. cbn [stmt_info N.eqb] in Hs.
    destruct (objs s (m, 0, 0)) as [mb|] eqn:Em; [|exfalso; apply (oa_exists C s HA) in HP; congruence].
    unfold contents_of. rewrite Em.
    rewrite (name_free_in_contents C s (m, 0, 0) mb name (m, i, 0) HA Em ltac:(congruence) HnC Hp Hn).
    set (ob := new_obj T_ATTRIBUTE K_VARIABLE name (Some (m, 0, 0)) doc).
    destruct (add_object_new C s (m, i, 0) ob _ (m, 0, 0) HA HR HnC Hs Hp HP eq_refl eq_refl (eq_sym Hn) eq_refl eq_refl eq_refl)
      as (A & B & _).
    split; [exact A|]. split; [exact B|].
    eapply add_object_new_meta; try eassumption; try reflexivity. symmetry; exact Hn.
  Qed.

  (* ---- class statements: the class, then its members one by one ---- *)
  Definition jn (k : nat) : N := N.of_nat (S k).
  Lemma jn_pred k : N.to_nat (jn k - 1) = k.
  Proof. unfold jn. lia. Qed.
  Lemma jn_nz k : N.eqb (jn k) 0 = false.
  Proof. unfold jn. apply N.eqb_neq. lia. Qed.
  Lemma jn_succ k : jn k + 1 = jn (S k).
  Proof. unfold jn. lia. Qed.

  Lemma sobj_member m i k cname cdoc bases members mem :
    stmt_at p m i = Some (SClass cname cdoc bases members) -> nth_error members k = Some mem ->
    sobj p (m, i, jn k) = Some (member_info m i mem).
  Proof.
    intros Hst Hn. rewrite (sobj_stmt m i (jn k) _ Hst). cbn [stmt_info]. rewrite jn_nz, jn_pred, Hn. reflexivity.
  Qed.

  Lemma add_member_new C s m i k cname cdoc bases members mem :
    stmt_at p m i = Some (SClass cname cdoc bases members) -> nth_error members k = Some mem ->
    OA C s -> OR C s -> C (m, i, 0) -> ~ C (m, i, jn k) ->
    nm (m, i, jn k) = snd (fst mem) -> par (m, i, jn k) = Some (m, i, 0) ->
    let C' := fun x => C x \/ x = (m, i, jn k) in
    let r := add_member (m, i, 0) m i (s, jn k) mem in
    OA C' (fst r) /\ OR C' (fst r) /\ meta_pres s (fst r) /\ snd r = jn (S k).
  Proof.
    intros Hst Hnth HA HR Hcls HnC Hn Hp C' r. subst r.
    pose proof (sobj_member m i k _ _ _ _ mem Hst Hnth) as Hs.
    destruct mem as [[mk name] doc]. cbn [fst snd] in Hn. cbn [add_member]. unfold member_info in Hs.
    destruct (N.eqb mk 0) eqn:Emk; cbn [fst snd].
    - set (ob := new_obj T_FUNCTION K_METHOD name (Some (m, i, 0)) doc).
      destruct (add_object_new C s (m, i, jn k) ob _ (m, i, 0) HA HR HnC Hs Hp Hcls eq_refl eq_refl (eq_sym Hn) eq_refl eq_refl eq_refl)
        as (A & B & _).
      split; [exact A|]. split; [exact B|]. split; [|apply jn_succ].
      eapply add_object_new_meta; try eassumption; try reflexivity. symmetry; exact Hn.
    - destruct (objs s (m, i, 0)) as [cb|] eqn:Ec; [|exfalso; apply (oa_exists C s HA) in Hcls; congruence].
      unfold contents_of. rewrite Ec.
      rewrite (name_free_in_contents C s (m, i, 0) cb name (m, i, jn k) HA Ec ltac:(congruence) HnC Hp Hn).
      cbn [fst snd].
      set (ob := new_obj T_ATTRIBUTE K_CLASS_VARIABLE name (Some (m, i, 0)) doc).
      destruct (add_object_new C s (m, i, jn k) ob _ (m, i, 0) HA HR HnC Hs Hp Hcls eq_refl eq_refl (eq_sym Hn) eq_refl eq_refl eq_refl)
        as (A & B & _).
      split; [exact A|]. split; [exact B|]. split; [|apply jn_succ].
      eapply add_object_new_meta; try eassumption; try reflexivity. symmetry; exact Hn.
  Qed.

  Lemma add_members_new m i cname cdoc bases members :
    stmt_at p m i = Some (SClass cname cdoc bases members) ->
    (forall k mem, nth_error members k = Some mem ->
                   nm (m, i, jn k) = snd (fst mem) /\ par (m, i, jn k) = Some (m, i, 0)) ->
    forall l k C s,
      skipn k members = l ->
      OA C s -> OR C s -> C (m, i, 0) -> (forall k', (k <= k')%nat -> ~ C (m, i, jn k')) ->
      let C' := fun x => C x \/ exists k', (k <= k' < length members)%nat /\ x = (m, i, jn k') in
      let r := fold_left (add_member (m, i, 0) m i) l (s, jn k) in
      OA C' (fst r) /\ OR C' (fst r) /\ meta_pres s (fst r).
  Proof.
    intros Hst Hnp. induction l as [|mem l IH]; intros k C s Hskip HA HR Hcls Hfresh C' r; subst r; cbn [fold_left fst].
    - assert (Hlen : (length members <= k)%nat).
      { destruct (le_lt_dec (length members) k) as [H|H]; [exact H|]. exfalso.
        assert (Hl : length (skipn k members) = (length members - k)%nat) by apply skipn_length.
        rewrite Hskip in Hl. cbn [length] in Hl. lia. }
      split; [|split; [|apply meta_pres_refl]].
      + eapply OA_ext; [|exact HA]. intros x. unfold C'. split; [auto|]. intros [Hx|(k' & Hk & _)]; [exact Hx|lia].
      + eapply OR_ext; [|exact HR]. intros x. unfold C'. split; [auto|]. intros [Hx|(k' & Hk & _)]; [exact Hx|lia].
    - assert (Hnth : nth_error members k = Some mem).
      { rewrite <- (firstn_skipn k members) at 1. rewrite Hskip.
        assert (Hk : (k < length members)%nat).
        { destruct (le_lt_dec (length members) k) as [H|H]; [|exact H]. rewrite skipn_all2 in Hskip by exact H. discriminate. }
        rewrite nth_error_app2 by (rewrite firstn_length; lia). rewrite firstn_length, Nat.min_l by lia.
        rewrite Nat.sub_diag. reflexivity. }
      assert (Hklt : (k < length members)%nat) by (apply nth_error_Some; congruence).
      destruct (Hnp k mem Hnth) as [Hn Hp].
      destruct (add_member_new C s m i k _ _ _ _ mem Hst Hnth HA HR Hcls (Hfresh k (Nat.le_refl k)) Hn Hp)
        as (A1 & R1 & M1 & J1).
      destruct (add_member (m, i, 0) m i (s, jn k) mem) as [s1 j1] eqn:E1. cbn [fst snd] in A1, R1, M1, J1. subst j1.
      assert (Hskip' : skipn (S k) members = l).
      { rewrite <- (firstn_skipn k members) at 1.
        rewrite Hskip. clear -Hklt. 
        assert (Hl : length (firstn k members) = k) by (rewrite firstn_length; lia).
        rewrite <- Hl at 1. replace (S (length (firstn k members))) with (length (firstn k members) + 1)%nat by lia.
        rewrite skipn_app. rewrite skipn_all2 by lia.
        replace (length (firstn k members) + 1 - length (firstn k members))%nat with 1%nat by lia. reflexivity. }
      set (C1 := fun x => C x \/ x = (m, i, jn k)).
      assert (Hfresh1 : forall k', (S k <= k')%nat -> ~ C1 (m, i, jn k')).
      { intros k' Hk' [Hx|Hx]; [apply (Hfresh k'); [lia|exact Hx]|]. inversion Hx as [Hj]. unfold jn in Hj. lia. }
      destruct (IH (S k) C1 s1 Hskip' A1 R1 (or_introl Hcls) Hfresh1) as (A2 & R2 & M2).
      assert (Hext : forall x, (C1 x \/ exists k', (S k <= k' < length members)%nat /\ x = (m, i, jn k')) <-> C' x).
      { intros x. unfold C1, C'. split.
        - intros [[Hx| ->]|(k' & Hk' & ->)]; [left; exact Hx|right; exists k; split; [lia|reflexivity]|right; exists k'; split; [lia|reflexivity]].
        - intros [Hx|(k' & Hk' & ->)]; [left; left; exact Hx|].
          destruct (Nat.eq_dec k' k) as [->|Hne]; [left; right; reflexivity|right; exists k'; split; [lia|reflexivity]]. }
      split; [eapply OA_ext; [exact Hext|exact A2]|]. split; [eapply OR_ext; [exact Hext|exact R2]|].
      eapply meta_pres_trans; eassumption.
  Qed.

  Lemma exec_class_new C s m i cname cdoc bases members :
    OA C s -> OR C s -> stmt_at p m i = Some (SClass cname cdoc bases members) ->
    (forall j, ~ C (m, i, j)) -> C (m, 0, 0) ->
    nm (m, i, 0) = cname -> par (m, i, 0) = Some (m, 0, 0) ->
    (forall k mem, nth_error members k = Some mem ->
                   nm (m, i, jn k) = snd (fst mem) /\ par (m, i, jn k) = Some (m, i, 0)) ->
    let C' := fun x => C x \/ x = (m, i, 0) \/ exists k, (k < length members)%nat /\ x = (m, i, jn k) in
    let s' := exec_stmt s m i (SClass cname cdoc bases members) in
    OA C' s' /\ OR C' s' /\ meta_pres s s'.
  Proof.
    intros HA HR Hst Hfresh HP Hn Hp Hmem C' s'. subst s'. cbn [exec_stmt]. cbv zeta.
    pose proof (sobj_stmt m i 0 _ Hst) as Hs. cbn [stmt_info N.eqb] in Hs.
    match goal with |- context [add_object s (m, i, 0) ?x] => set (ob := x) end.
    destruct (add_object_new C s (m, i, 0) ob _ (m, 0, 0) HA HR (Hfresh 0) Hs Hp HP eq_refl eq_refl (eq_sym Hn) eq_refl eq_refl eq_refl)
      as (A1 & R1 & _).
    assert (M1 : meta_pres s (add_object s (m, i, 0) ob)).
    { eapply add_object_new_meta; try eassumption; try reflexivity. symmetry; exact Hn. }
    set (C1 := fun x => C x \/ x = (m, i, 0)) in *.
    assert (Hfresh1 : forall k', (0 <= k')%nat -> ~ C1 (m, i, jn k')).
    { intros k' _ [Hx|Hx]; [exact (Hfresh _ Hx)|]. inversion Hx as [Hj]. unfold jn in Hj. lia. }
    destruct (add_members_new m i _ _ _ members Hst Hmem members 0%nat C1 _ eq_refl A1 R1 (or_intror eq_refl) Hfresh1)
      as (A2 & R2 & M2).
    change (jn 0) with 1 in A2, R2, M2.
    assert (Hext : forall x, (C1 x \/ exists k', (0 <= k' < length members)%nat /\ x = (m, i, jn k')) <-> C' x).
    { intros x. unfold C1, C'. split.
      - intros [[Hx|Hx]|(k' & Hk' & Hx)]; [left; exact Hx|right; left; exact Hx|right; right; exists k'; split; [lia|exact Hx]].
      - intros [Hx|[Hx|(k' & Hk' & Hx)]]; [left; left; exact Hx|left; right; exact Hx|right; exists k'; split; [lia|exact Hx]]. }
    split; [eapply OA_ext; [exact Hext|exact A2]|]. split; [eapply OR_ext; [exact Hext|exact R2]|].
    eapply meta_pres_trans; eassumption.
  Qed.
End ObjectInvariant.

(* ================================================================ the invariant of the machine (no re-export) *)
Section Glue.
  Variable p : project.
  Hypothesis Hinj : keys_distinct p.
  Hypothesis Hnomove : no_move p.

  Notation nm := (sname p).
  Notation par := (sparent p).

  Lemma key_is_skey o : key p nm par o = skey p o.
  Proof. reflexivity. Qed.

  (* the i-th statement of module m has not been executed yet *)
  Definition pending (s : state) (m i : N) : Prop :=
    In m (unproc s) \/ exists fr st, In fr (frames s) /\ f_mod fr = m /\ In (MStmt i st) (f_todo fr).

  Definition created (s : state) (o : oid) : Prop :=
    sobj p o <> None /\ (snd (fst o) = 0 \/ ~ pending s (fst (fst o)) (snd (fst o))).

  Record Inv (s : state) : Prop := {
    i_ctl : Ctl p s;
    i_oa : OA p nm par (created s) s;
    i_or : OR p nm par (created s) s;
    i_suffix : forall fr, In fr (frames s) ->
                          exists mi pre, modinfo_of p (f_mod fr) = Some mi /\ expand_stmts (m_stmts mi) = pre ++ f_todo fr;
    i_meta : forall m mb mi, objs s (m, 0, 0) = Some mb -> modinfo_of p m = Some mi ->
                             (In m (unproc s) -> o_doc mb = 0 /\ o_all mb = None) /\
                             (~ In m (unproc s) -> o_doc mb = m_doc mi /\ o_all mb = last_all (m_stmts mi) None) }.

  (* ---- helpers ---- *)
  Lemma OA_same C s s' : objs s' = objs s -> dfuel s' = dfuel s -> OA p nm par C s -> OA p nm par C s'.
  Proof.
    intros Ho Hd [H1 H2 H3 H4 H5 H6]. constructor; try rewrite Ho; try rewrite Hd; assumption.
  Qed.
  Lemma OR_same C s s' : allobjs s' = allobjs s -> OR p nm par C s -> OR p nm par C s'.
  Proof. intros Ha [H1 H2]. constructor; rewrite Ha; assumption. Qed.

  Lemma sobj_stmt_inv m i j : sobj p (m, i, j) <> None -> i <> 0 ->
    exists st, stmt_at p m i = Some st /\ local_stmt st = true /\ stmt_info m i j st <> None.
  Proof.
    intros Hs Hi. unfold sobj in Hs. apply N.eqb_neq in Hi. rewrite Hi in Hs.
    destruct (stmt_at p m i) as [st|] eqn:Est; [|congruence]. exists st. split; [reflexivity|]. split; [|exact Hs].
    destruct st; cbn [stmt_info] in Hs; try congruence; reflexivity.
  Qed.

  Lemma stmt_at_In_expand m i st mi :
    modinfo_of p m = Some mi -> stmt_at p m i = Some st -> local_stmt st = true ->
    In (MStmt i st) (expand_stmts (m_stmts mi)).
  Proof.
    intros Hm Hst Hl. unfold stmt_at in Hst. rewrite Hm in Hst. destruct (N.eqb_spec i 0) as [->|Hi]; [discriminate|].
    unfold expand_stmts. replace i with (1 + N.of_nat (N.to_nat (i - 1))) by lia.
    apply expand_from_MStmt_In; assumption.
  Qed.

  Lemma In_expand_stmt_at m i st mi :
    modinfo_of p m = Some mi -> In (MStmt i st) (expand_stmts (m_stmts mi)) -> stmt_at p m i = Some st /\ i <> 0.
  Proof.
    intros Hm Hin. unfold expand_stmts in Hin. apply In_expand_from_MStmt in Hin. destruct Hin as (n & Hn & -> & _).
    unfold stmt_at. rewrite Hm. replace (N.eqb (1 + N.of_nat n) 0) with false by (symmetry; apply N.eqb_neq; lia).
    replace (N.to_nat (1 + N.of_nat n - 1)) with n by lia. split; [exact Hn|lia].
  Qed.

  (* ---- processModule starts ---- *)
  Lemma Inv_begin s m s' : Inv s -> begin_module p s m = Next s' -> Inv s'.
  Proof.
    intros HI Hb. pose proof (Ctl_begin p s m s' (i_ctl s HI) Hb) as HC'.
    destruct (begin_module_ctl p _ _ _ Hb) as (mi & Hmi & Hmst & Hin & Hun & Hfr & _ & Hdf & _).
    destruct (begin_module_inv p _ _ _ Hb) as (mi' & Hmi' & _ & _ & Hs'). rewrite Hmi in Hmi'. inversion Hmi'; subst mi'.
    set (f := fun mb => with_doc (m_doc mi) (with_all (last_all (m_stmts mi) None) mb)) in *.
    set (s0 := set_unproc (set_mst s m PROCESSING) (remove1 m (unproc s))) in *.
    assert (Hobjs : objs s' = objs (upd_obj s0 (m, 0, 0) f)) by (rewrite Hs'; reflexivity).
    assert (Hall : allobjs s' = allobjs s) by (rewrite Hs'; cbn [set_frames allobjs]; rewrite allobjs_upd_obj; reflexivity).
    assert (Hnd : NoDup (unproc s)) by apply (c_nodup p s (i_ctl s HI)).
    assert (Hfm : forall fr, In fr (frames s) -> f_mod fr <> m).
    { intros fr Hf E. destruct (c_frames p s (i_ctl s HI) fr Hf) as [A _]. congruence. }
    (* created is unchanged *)
    assert (Hpend : forall m' i, sobj p (m', i, 0) <> None \/ True -> i <> 0 ->
                                 (exists j, sobj p (m', i, j) <> None) -> (pending s' m' i <-> pending s m' i)).
    { intros m' i _ Hi (j & Hj). unfold pending. rewrite Hun, Hfr.
      destruct (N.eq_dec m' m) as [->|Hne].
      - split; [intros _; left; exact Hin|]. intros _. right.
        destruct (sobj_stmt_inv m i j Hj Hi) as (st & Hst & Hl & _).
        eexists _, st. split; [left; reflexivity|]. cbn [f_mod f_todo]. split; [reflexivity|].
        eapply stmt_at_In_expand; eassumption.
      - rewrite (remove1_In_iff m (unproc s) m' Hnd). split.
        + intros [[H _]|(fr & st & [<-|Hf] & Hm & Hst)]; [left; exact H|cbn [f_mod] in Hm; congruence|right; eauto].
        + intros [H|(fr & st & Hf & Hm & Hst)]; [left; split; assumption|right; exists fr, st; split; [right; exact Hf|auto]]. }
    assert (Hcr : forall o, created s o <-> created s' o).
    { intros [[m' i] j]. unfold created. cbn [fst snd]. split; intros [Hd H]; (split; [exact Hd|]).
      - destruct H as [H|H]; [left; exact H|]. destruct (N.eq_dec i 0) as [->|Hi]; [left; reflexivity|].
        right. rewrite (Hpend m' i (or_intror I) Hi (ex_intro _ j Hd)). exact H.
      - destruct H as [H|H]; [left; exact H|]. destruct (N.eq_dec i 0) as [->|Hi]; [left; reflexivity|].
        right. rewrite <- (Hpend m' i (or_intror I) Hi (ex_intro _ j Hd)). exact H. }
    constructor.
    - exact HC'.
    - eapply OA_ext; [exact Hcr|]. eapply (OA_same _ (upd_obj s0 (m, 0, 0) f)); [exact Hobjs| |].
      + rewrite Hdf. rewrite dfuel_upd_obj. reflexivity.
      + apply OA_upd; [exact (keeps_comp (with_doc (m_doc mi)) (with_all (last_all (m_stmts mi) None))
                                         (keeps_with_doc _) (keeps_with_all _))|left; reflexivity|].
        eapply (OA_same _ s); [reflexivity|reflexivity|exact (i_oa s HI)].
    - eapply OR_ext; [exact Hcr|]. eapply OR_same; [exact Hall|exact (i_or s HI)].
    - intros fr. rewrite Hfr. intros [<-|Hf]; [|apply (i_suffix s HI); exact Hf].
      exists mi, []. cbn [f_mod f_todo app]. split; [exact Hmi|reflexivity].
    - intros m' mb mi' Hmb Hmi''. rewrite Hobjs in Hmb. rewrite Hun.
      destruct (N.eq_dec m' m) as [->|Hne].
      + rewrite Hmi in Hmi''. inversion Hmi''; subst mi'.
        split; [intros Hx; apply (remove1_In_iff m (unproc s) m Hnd) in Hx; tauto|]. intros _.
        destruct (objs s0 (m, 0, 0)) as [mb0|] eqn:E0.
        * rewrite (upd_obj_some s0 _ f mb0 E0), objs_set_obj_same in Hmb. inversion Hmb; subst mb. split; reflexivity.
        * rewrite (upd_obj_none s0 _ f E0) in Hmb. congruence.
      + assert (Hmb0 : objs s (m', 0, 0) = Some mb).
        { destruct (objs s0 (m, 0, 0)) as [mb0|] eqn:E0.
          - rewrite (upd_obj_some s0 _ f mb0 E0), objs_set_obj_other in Hmb by congruence. exact Hmb.
          - rewrite (upd_obj_none s0 _ f E0) in Hmb. exact Hmb. }
        destruct (i_meta s HI m' mb mi' Hmb0 Hmi'') as [A B].
        rewrite (remove1_In_iff m (unproc s) m' Hnd). split; [intros [Hx _]; auto|]. intros Hx. apply B. tauto.
  Qed.

  (* ---- processModule ends ---- *)
  Lemma Inv_finish s fr rest :
    Inv s -> frames s = fr :: rest -> f_todo fr = [] ->
    Ctl p (set_frames (set_mst s (f_mod fr) PROCESSED) rest) ->
    Inv (set_frames (set_mst s (f_mod fr) PROCESSED) rest).
  Proof.
    intros HI Hf Ht HC'. set (s' := set_frames (set_mst s (f_mod fr) PROCESSED) rest).
    assert (Hpend : forall m i, pending s' m i <-> pending s m i).
    { intros m i. unfold pending. cbn [s' set_frames set_mst unproc frames]. rewrite Hf. split.
      - intros [H|(fr0 & st & Hin & Hm & Hst)]; [left; exact H|right; exists fr0, st; split; [right; exact Hin|auto]].
      - intros [H|(fr0 & st & [<-|Hin] & Hm & Hst)]; [left; exact H|rewrite Ht in Hst; destruct Hst|right; eauto]. }
    assert (Hcr : forall o, created s o <-> created s' o).
    { intros o. unfold created. rewrite Hpend. tauto. }
    constructor.
    - exact HC'.
    - eapply OA_ext; [exact Hcr|]. eapply (OA_same _ s); [reflexivity|reflexivity|exact (i_oa s HI)].
    - eapply OR_ext; [exact Hcr|]. eapply (OR_same _ s); [reflexivity|exact (i_or s HI)].
    - intros fr0 Hin. apply (i_suffix s HI). rewrite Hf. right. exact Hin.
    - intros m mb mi Hmb Hmi. exact (i_meta s HI m mb mi Hmb Hmi).
  Qed.

  (* ---- one micro-operation ---- *)
  Lemma created_module s m mi : modinfo_of p m = Some mi -> created s (m, 0, 0).
  Proof. intros H. unfold created, sobj. cbn [fst snd N.eqb]. rewrite H. split; [discriminate|left; reflexivity]. Qed.

  Section Op.
    Variables (s : state) (fr : frame) (rest : list frame) (op : mop) (todo : list mop) (s1 : state) (fr1 : frame).
    Hypothesis HI : Inv s.
    Hypothesis Hf : frames s = fr :: rest.
    Hypothesis Ht : f_todo fr = op :: todo.
    Hypothesis Hctl : same_ctl s s1.
    Hypothesis Hfm : f_mod fr1 = f_mod fr.
    Hypothesis Hft : f_todo fr1 = todo.

    Let s2 := set_frames s1 (fr1 :: rest).
    Let m := f_mod fr.

    Lemma op_mi : exists mi pre, modinfo_of p m = Some mi /\ expand_stmts (m_stmts mi) = pre ++ op :: todo.
    Proof.
      destruct (i_suffix s HI fr) as (mi & pre & Hmi & He); [rewrite Hf; left; reflexivity|].
      exists mi, pre. rewrite <- Ht. auto.
    Qed.

    Lemma op_not_unproc : ~ In m (unproc s).
    Proof.
      intros Hin. destruct (c_frames p s (i_ctl s HI) fr) as [A _]; [rewrite Hf; left; reflexivity|].
      apply (c_unproc p s (i_ctl s HI)) in Hin. destruct Hin as [_ B]. contradiction.
    Qed.

    Lemma op_rest_mod fr0 : In fr0 rest -> f_mod fr0 <> m.
    Proof.
      intros Hin E. pose proof (c_fnodup p s (i_ctl s HI)) as Hnd. rewrite Hf in Hnd. cbn [map] in Hnd.
      apply NoDup_cons_iff in Hnd. destruct Hnd as [Hni _]. apply Hni. fold m. rewrite <- E. apply in_map. exact Hin.
    Qed.

    Lemma pending_after m' i :
      pending s2 m' i <-> pending s m' i /\ ~ (m' = m /\ exists st, op = MStmt i st).
    Proof.
      destruct Hctl as (_ & Hu & _). unfold pending. cbn [s2 set_frames unproc frames]. rewrite Hu, Hf. split.
      - intros [H|(fr0 & st & [<-|Hin] & Hm & Hst)].
        + split; [left; exact H|]. intros [-> _]. exact (op_not_unproc H).
        + rewrite Hfm in Hm. rewrite Hft in Hst. split.
          * right. exists fr, st. split; [left; reflexivity|]. split; [exact Hm|]. rewrite Ht. right. exact Hst.
          * intros [_ (st' & Eop)]. destruct op_mi as (mi & pre & Hmi & He).
            pose proof (expand_from_idxs_nodup (m_stmts mi) 1) as Hnd. fold (expand_stmts (m_stmts mi)) in Hnd.
            rewrite He, Eop, stmt_idxs_app in Hnd. apply NoDup_remove_2 in Hnd. apply Hnd. apply in_or_app. right.
            eapply In_stmt_idxs. exact Hst.
        + split; [right; exists fr0, st; split; [right; exact Hin|auto]|].
          intros [-> _]. exact (op_rest_mod fr0 Hin Hm).
      - intros [[H|(fr0 & st & [<-|Hin] & Hm & Hst)] Hno]; [left; exact H| |right; exists fr0, st; split; [right; exact Hin|auto]].
        rewrite Ht in Hst. destruct Hst as [Hst|Hst].
        + exfalso. apply Hno. split; [symmetry; exact Hm|eauto].
        + right. exists fr1, st. split; [left; reflexivity|]. rewrite Hfm, Hft. auto.
    Qed.

    Lemma created_after o :
      created s2 o <->
      created s o \/ (sobj p o <> None /\ fst (fst o) = m /\ snd (fst o) <> 0 /\ exists st, op = MStmt (snd (fst o)) st).
    Proof.
      unfold created. rewrite pending_after. destruct o as [[m' i] j]. cbn [fst snd]. split.
      - intros [Hd [Hz|Hn]]; [left; split; [exact Hd|left; exact Hz]|].
        destruct (N.eq_dec i 0) as [->|Hi]; [left; split; [exact Hd|left; reflexivity]|].
        destruct (N.eq_dec m' m) as [->|Hm].
        + assert (Hdec : (exists st, op = MStmt i st) \/ ~ (exists st, op = MStmt i st)).
          { clear. destruct op as [i0 st0| | | | |]; try (right; intros (st & E); discriminate).
            destruct (N.eq_dec i i0) as [->|Hne]; [left; eauto|right; intros (st & E); inversion E; congruence]. }
          destruct Hdec as [Hyes|Hno].
          * right. repeat split; assumption.
          * left. split; [exact Hd|]. right. intros Hp. apply Hn. split; [exact Hp|]. intros [_ Hx]. contradiction.
        + left. split; [exact Hd|]. right. intros Hp. apply Hn. split; [exact Hp|]. intros [E _]. contradiction.
      - intros [[Hd [Hz|Hn]]|(Hd & -> & Hi & st & Hop)].
        + split; [exact Hd|left; exact Hz].
        + split; [exact Hd|right]. intros [Hp _]. contradiction.
        + split; [exact Hd|right]. intros [_ Hno]. apply Hno. split; [reflexivity|eauto].
    Qed.

    (* everything but the object part *)
    Lemma Inv_op_core :
      Ctl p s2 -> OA p nm par (created s2) s1 -> OR p nm par (created s2) s1 -> meta_pres s s1 -> Inv s2.
    Proof.
      intros HC2 HA HR HM. constructor.
      - exact HC2.
      - eapply (OA_same _ s1); [reflexivity|reflexivity|exact HA].
      - eapply (OR_same _ s1); [reflexivity|exact HR].
      - intros fr0. cbn [s2 set_frames frames]. intros [<-|Hin].
        + destruct op_mi as (mi & pre & Hmi & He). exists mi, (pre ++ [op]). rewrite Hfm, Hft, <- app_assoc. split; [exact Hmi|exact He].
        + apply (i_suffix s HI). rewrite Hf. right. exact Hin.
      - intros m' mb mi Hmb Hmi. cbn [s2 set_frames objs unproc] in *.
        destruct Hctl as (_ & Hu & _). rewrite Hu.
        pose proof (created_module s m' mi Hmi) as Hc. apply (oa_exists _ _ _ _ _ (i_oa s HI)) in Hc.
        destruct (objs s (m', 0, 0)) as [mb0|] eqn:E0; [|congruence].
        destruct (HM _ _ E0) as (mb1 & E1 & D1 & D2). rewrite Hmb in E1. inversion E1; subst mb1.
        rewrite D1, D2. exact (i_meta s HI m' mb0 mi E0 Hmi).
    Qed.
  End Op.
End Glue.
