(* Proofs/ProjectMove.v -- one designated re-export: module R imports x from module D as n and lists n in its
   __all__; what Documentable.reparent does to the registry, and the invariant of the machine before and after
   that move (C07_moved_once). *)
From Coq Require Import ZArith NArith List Bool Lia Permutation.
From PydoctorVerif Require Import Base.Sexp Model.Project Spec.ProjectStatic Proofs.ProjectBase Proofs.ProjectRegistry.
Import ListNotations.
Local Open Scope N_scope.

(* ---------------------------------------------------------------- folds of deletions / insertions *)
Lemma full_name_f_objs f s s' o : objs s' = objs s -> full_name_f f s' o = full_name_f f s o.
Proof.
  intros H. revert o. induction f as [|f IH]; intros o; cbn [full_name_f]; [reflexivity|].
  rewrite H. destruct (objs s o) as [ob|]; [|reflexivity]. destruct (o_parent ob); [rewrite IH|]; reflexivity.
Qed.
Lemma full_name_objs s s' o : objs s' = objs s -> dfuel s' = dfuel s -> full_name s' o = full_name s o.
Proof. intros H Hd. unfold full_name. rewrite Hd. apply full_name_f_objs. exact H. Qed.

Lemma set_all_id s : set_all s (allobjs s) = s.
Proof. destruct s; reflexivity. Qed.

Lemma unregister_gen l : forall s a,
  fold_left (fun s0 o => set_all s0 (pdel (full_name s0 o) (allobjs s0))) l (set_all s a) =
  set_all s (fold_left (fun a o => pdel (full_name s o) a) l a).
Proof.
  induction l as [|o l IH]; intros s a; cbn [fold_left]; [reflexivity|].
  change (set_all (set_all s a) (pdel (full_name (set_all s a) o) (allobjs (set_all s a))))
    with (set_all s (pdel (full_name (set_all s a) o) a)).
  rewrite (full_name_objs (set_all s a) s o) by reflexivity. apply IH.
Qed.
Lemma unregister_spec l s :
  unregister s l = set_all s (fold_left (fun a o => pdel (full_name s o) a) l (allobjs s)).
Proof. unfold unregister. rewrite <- (set_all_id s) at 1. apply unregister_gen. Qed.

Lemma register_gen l : forall s a,
  fold_left (fun s0 o => set_all s0 (pset (full_name s0 o) o (allobjs s0))) l (set_all s a) =
  set_all s (fold_left (fun a o => pset (full_name s o) o a) l a).
Proof.
  induction l as [|o l IH]; intros s a; cbn [fold_left]; [reflexivity|].
  change (set_all (set_all s a) (pset (full_name (set_all s a) o) o (allobjs (set_all s a))))
    with (set_all s (pset (full_name (set_all s a) o) o a)).
  rewrite (full_name_objs (set_all s a) s o) by reflexivity. apply IH.
Qed.
Lemma register_spec l s :
  register s l = set_all s (fold_left (fun a o => pset (full_name s o) o a) l (allobjs s)).
Proof. unfold register. rewrite <- (set_all_id s) at 1. apply register_gen. Qed.

(* deleting a list of keys / inserting a list of bindings with distinct keys *)
Lemma fold_pdel_spec ks : forall a k,
  NoDup (map fst a) ->
  NoDup (map fst (fold_left (fun a k' => pdel k' a) ks a)) /\
  (In k ks -> pget k (fold_left (fun a k' => pdel k' a) ks a) = None) /\
  (~ In k ks -> pget k (fold_left (fun a k' => pdel k' a) ks a) = pget k a).
Proof.
  induction ks as [|k0 ks IH]; intros a k Hnd; cbn [fold_left In].
  - split; [exact Hnd|]. split; [tauto|reflexivity].
  - destruct (IH (pdel k0 a) k (pdel_keys_nodup k0 a Hnd)) as (N1 & A & B). split; [exact N1|]. split.
    + intros [->|Hin]; [|apply A; exact Hin].
      destruct (in_dec (list_eq_dec N.eq_dec) k ks) as [Hin|Hni]; [apply A; exact Hin|].
      rewrite (B Hni). apply pget_pdel_same. exact Hnd.
    + intros Hni. rewrite B by tauto. apply pget_pdel_other. intros E. apply Hni. left. congruence.
Qed.

Lemma fold_pset_spec (l : list (path * oid)) : forall a,
  NoDup (map fst a) -> NoDup (map fst l) ->
  NoDup (map fst (fold_left (fun a ko => pset (fst ko) (snd ko) a) l a)) /\
  (forall k o, In (k, o) l -> pget k (fold_left (fun a ko => pset (fst ko) (snd ko) a) l a) = Some o) /\
  (forall k, ~ In k (map fst l) -> pget k (fold_left (fun a ko => pset (fst ko) (snd ko) a) l a) = pget k a).
Proof.
  induction l as [|[k0 o0] l IH]; intros a Hnd Hl; cbn [fold_left map fst In].
  - split; [exact Hnd|]. split; [intros k o []|reflexivity].
  - inversion Hl as [|? ? Hni Hl']; subst.
    destruct (IH (pset k0 o0 a) (pset_keys_nodup k0 o0 a Hnd) Hl') as (N1 & A & B). split; [exact N1|]. split.
    + intros k o [E|Hin]; [|apply A; exact Hin]. inversion E; subst. cbn [fst snd]. rewrite (B k Hni). apply pget_pset_same.
    + intros k Hk. cbn [fst snd]. rewrite B by tauto. apply pget_pset_other. intros E. apply Hk. left. congruence.
Qed.

Lemma fold_left_map {X Y Z} (f : X -> Z -> X) (g : Y -> Z) l : forall a,
  fold_left (fun a y => f a (g y)) l a = fold_left f (map g l) a.
Proof. induction l as [|y l IH]; intros a; cbn [fold_left map]; [reflexivity|apply IH]. Qed.

Lemma NoDup_map_in {X Y} (f : X -> Y) l :
  (forall a b, In a l -> In b l -> f a = f b -> a = b) -> NoDup l -> NoDup (map f l).
Proof.
  induction l as [|x l IH]; intros Hinj Hnd; cbn [map]; [constructor|].
  inversion Hnd as [|? ? Hni Hnd']; subst. constructor.
  - intros Hin. apply in_map_iff in Hin. destruct Hin as (y & E & Hy).
    assert (y = x) by (apply Hinj; [right; exact Hy|left; reflexivity|exact E]). subst y. contradiction.
  - apply IH; [|exact Hnd']. intros a b Ha Hb. apply Hinj; right; assumption.
Qed.

Lemma In_nget {V} k (v : V) l : NoDup (map fst l) -> In (k, v) l -> nget k l = Some v.
Proof.
  unfold nget. induction l as [|[k' v'] l IH]; cbn [map fst In aget]; [tauto|]. intros Hnd [E|Hin].
  - inversion E; subst. rewrite N.eqb_refl. reflexivity.
  - inversion Hnd as [|? ? Hni Hnd']; subst. destruct (N.eqb_spec k' k) as [->|Hne]; [|apply IH; assumption].
    exfalso. apply Hni. apply in_map_iff. exists (k, v). auto.
Qed.

(* full names are the expected qualified names as soon as names and parents are the expected ones along the chain *)
Lemma full_name_expected p nm par (C : oid -> Prop) s :
  dfuel s = depth_fuel p ->
  (forall o, C o -> exists ob, objs s o = Some ob /\ o_name ob = nm o /\ o_parent ob = par o) ->
  (forall o q, C o -> par o = Some q -> C q) ->
  forall o, C o -> full_name s o = key p nm par o.
Proof.
  intros Hf Hst Hcl. unfold full_name, key. rewrite Hf. generalize (depth_fuel p) as f.
  induction f as [|f IH]; intros o Ho; cbn [full_name_f qname_f]; [reflexivity|].
  destruct (Hst o Ho) as (ob & Eo & Hn & Hp). rewrite Eo, Hn, Hp.
  destruct (par o) as [q|] eqn:Eq; [|reflexivity]. rewrite (IH q (Hcl o q Ho Eq)). reflexivity.
Qed.

Section Move.
  Variable p : project.
  Variables (R D ix xname n : N).
  Notation x := (D, ix, 0).
  Notation Rm := (R, 0, 0).
  Notation Dm := (D, 0, 0).

  (* expected name and parent after the move: x is called n and lives in module R *)
  Definition nm1 (o : oid) : N := if oid_eqb o x then n else sname p o.
  Definition par1 (o : oid) : option oid := if oid_eqb o x then Some Rm else sparent p o.

  Notation nm0 := (sname p).
  Notation par0 := (sparent p).
  Notation key0 := (key p nm0 par0).
  Notation key1 := (key p nm1 par1).

  Hypothesis H0 : keys_distinct p.
  Hypothesis H1 : forall o o', sobj p o <> None -> sobj p o' <> None -> key1 o = key1 o' -> o = o'.
  Hypothesis HRD : R <> D.
  Hypothesis Hix : ix <> 0.
  Hypothesis Hxdom : sobj p x <> None.
  Hypothesis Hxname : sname p x = xname.

  Definition sub (o : oid) : Prop := fst (fst o) = D /\ snd (fst o) = ix.

  Lemma sparent_stmt0 m i : i <> 0 -> sobj p (m, i, 0) <> None -> sparent p (m, i, 0) = Some (m, 0, 0).
  Proof.
    intros Hi Hd. unfold sparent. unfold sobj in *. apply N.eqb_neq in Hi. rewrite Hi in *.
    destruct (stmt_at p m i) as [st|]; [|congruence]. destruct st; cbn in Hd |- *; congruence.
  Qed.

  Lemma sparent_x : par0 x = Some Dm.
  Proof. apply sparent_stmt0; assumption. Qed.

  Lemma sub_dom o : sobj p o <> None -> sub o -> o = x \/ par0 o = Some x.
  Proof.
    destruct o as [[m i] j]. unfold sub. cbn [fst snd]. intros Hd [-> ->].
    destruct (N.eq_dec j 0) as [->|Hj]; [left; reflexivity|right].
    unfold sparent. unfold sobj in *. apply N.eqb_neq in Hix. rewrite Hix in *.
    destruct (stmt_at p D ix) as [st|]; [|congruence]. apply N.eqb_neq in Hj.
    destruct st; cbn [stmt_info] in *; rewrite ?Hj in *; try congruence.
    destruct (nth_error members (N.to_nat (j - 1))) as [[[mk nn] dd]|]; [|congruence].
    unfold member_info. destruct (N.eqb mk 0); reflexivity.
  Qed.

  Lemma par0_nonsub o q : ~ sub o -> par0 o = Some q -> ~ sub q.
  Proof.
    destruct o as [[m i] j]. unfold sub, sparent, sobj. cbn [fst snd]. intros Hns.
    destruct (N.eqb i 0) eqn:Ei.
    - destruct (N.eqb j 0); [|discriminate]. destruct (modinfo_of p m) as [mi|]; [|discriminate]. cbn [s_parent].
      destruct (m_parent mi); [|discriminate]. intros E. inversion E; subst q. cbn [fst snd]. intros [_ E0]. congruence.
    - destruct (stmt_at p m i) as [st|]; [|discriminate].
      destruct st; cbn [stmt_info]; try discriminate.
      + destruct (N.eqb j 0).
        * intros E. inversion E; subst q. cbn [fst snd]. intros [_ E0]. congruence.
        * destruct (nth_error members (N.to_nat (j - 1))) as [[[mk nn] dd]|]; [|discriminate].
          unfold member_info. destruct (N.eqb mk 0); intros E; inversion E; subst q; cbn [fst snd]; exact Hns.
      + destruct (N.eqb j 0); [|discriminate]. intros E. inversion E; subst q. cbn [fst snd]. intros [_ E0]. congruence.
      + destruct (N.eqb j 0); [|discriminate]. intros E. inversion E; subst q. cbn [fst snd]. intros [_ E0]. congruence.
  Qed.

  Lemma sub_x : sub x.
  Proof. split; reflexivity. Qed.

  Lemma nonsub_ne_x o : ~ sub o -> oid_eqb o x = false.
  Proof. intros H. apply oid_eqb_neq. intros ->. apply H. apply sub_x. Qed.

  Lemma key1_nonsub_f f : forall o, ~ sub o -> qname_f nm1 par1 f o = qname_f nm0 par0 f o.
  Proof.
    induction f as [|f IH]; intros o Hns; cbn [qname_f]; [reflexivity|].
    assert (En : nm1 o = nm0 o) by (unfold nm1; rewrite (nonsub_ne_x o Hns); reflexivity).
    assert (Ep : par1 o = par0 o) by (unfold par1; rewrite (nonsub_ne_x o Hns); reflexivity).
    rewrite En, Ep.
    destruct (par0 o) as [q|] eqn:Eq; [|reflexivity]. rewrite (IH q (par0_nonsub o q Hns Eq)). reflexivity.
  Qed.
  Lemma key1_nonsub o : ~ sub o -> key1 o = key0 o.
  Proof. apply key1_nonsub_f. Qed.

  Lemma Rm_nonsub : ~ sub Rm.
  Proof. intros [E _]. cbn in E. congruence. Qed.
  Lemma Dm_nonsub : ~ sub Dm.
  Proof. intros [_ E]. cbn in E. congruence. Qed.

  Lemma sparent_third o q : par0 o = Some q -> snd q = 0.
  Proof.
    destruct o as [[m i] j]. unfold sparent, sobj.
    destruct (N.eqb i 0).
    - destruct (N.eqb j 0); [|discriminate]. destruct (modinfo_of p m) as [mi|]; [|discriminate]. cbn [s_parent].
      destruct (m_parent mi); [|discriminate]. intros E. inversion E. reflexivity.
    - destruct (stmt_at p m i) as [st|]; [|discriminate]. destruct st; cbn [stmt_info]; try discriminate.
      + destruct (N.eqb j 0); [intros E; inversion E; reflexivity|].
        destruct (nth_error members (N.to_nat (j - 1))) as [[[mk nn] dd]|]; [|discriminate].
        unfold member_info. destruct (N.eqb mk 0); intros E; inversion E; reflexivity.
      + destruct (N.eqb j 0); [intros E; inversion E; reflexivity|discriminate].
      + destruct (N.eqb j 0); [intros E; inversion E; reflexivity|discriminate].
  Qed.

  Lemma member_third c : par0 c = Some x -> snd c <> 0.
  Proof.
    destruct c as [[m i] j]. unfold sparent, sobj. cbn [snd].
    destruct (N.eqb i 0) eqn:Ei.
    - destruct (N.eqb j 0); [|discriminate]. destruct (modinfo_of p m) as [mi|]; [|discriminate]. cbn [s_parent].
      destruct (m_parent mi); [|discriminate]. intros E. inversion E. congruence.
    - destruct (stmt_at p m i) as [st|]; [|discriminate]. destruct st; cbn [stmt_info]; try discriminate.
      + destruct (N.eqb j 0) eqn:Ej; [intros E; inversion E; congruence|]. intros _. apply N.eqb_neq. exact Ej.
      + destruct (N.eqb j 0); [intros E; inversion E; congruence|discriminate].
      + destruct (N.eqb j 0); [intros E; inversion E; congruence|discriminate].
  Qed.

  Lemma sub_dec o : sub o \/ ~ sub o.
  Proof.
    unfold sub. destruct (N.eq_dec (fst (fst o)) D) as [E1|E1]; [|right; tauto].
    destruct (N.eq_dec (snd (fst o)) ix) as [E2|E2]; [left; auto|right; tauto].
  Qed.

  (* ---- Documentable.reparent(x, R, n) on a coherent registry ---- *)
  Lemma reparent_move C s :
    OA p nm0 par0 C s -> OR p nm0 par0 C s -> C x -> C Rm -> C Dm ->
    let s' := reparent s x Rm n in
    OA p nm1 par1 C s' /\ OR p nm1 par1 C s' /\ meta_weak Dm s s' /\
    (exists db, objs s' Dm = Some db /\ nget xname (o_alias db) = Some (key1 x)) /\ same_ctl s s'.
  Proof.
    intros HA HR Cx CR CD s'. subst s'.
    assert (Hex : forall o, C o -> exists ob, objs s o = Some ob).
    { intros o Co. destruct (objs s o) eqn:E; [eauto|]. apply (oa_exists _ _ _ _ _ HA) in Co. congruence. }
    destruct (Hex x Cx) as (xb & Ex). destruct (Hex Rm CR) as (rb & Er). destruct (Hex Dm CD) as (db & Ed).
    assert (Hsx : exists six, sobj p x = Some six) by (destruct (sobj p x); [eauto|congruence]).
    destruct Hsx as (six & Esx).
    destruct (oa_static _ _ _ _ _ HA x xb six Ex Esx) as (_ & _ & Hxn & Hxp & _).
    rewrite sparent_x in Hxp. rewrite Hxname in Hxn.
    assert (HxR : x <> Rm) by (intros E; inversion E; congruence).
    assert (HxD : x <> Dm) by (intros E; inversion E; congruence).
    assert (HRDm : Rm <> Dm) by (intros E; inversion E; congruence).
    (* the members of x are leaves *)
    set (cs := map snd (o_contents xb)).
    assert (Hcs : forall c, In c cs <-> C c /\ par0 c = Some x).
    { intros c. unfold cs. rewrite in_map_iff. split.
      - intros ([k c'] & E & Hin). cbn [snd] in E. subst c'.
        pose proof (In_nget k c _ (oa_cnodup _ _ _ _ _ HA x xb Ex) Hin) as Hg.
        destruct (oa_contents _ _ _ _ _ HA x xb k c Ex Hg) as (A & B & _). auto.
      - intros [Cc Pc]. destruct (oa_complete _ _ _ _ _ HA c x Cc Pc) as (xb' & Ex' & Hg). rewrite Ex in Ex'. inversion Ex'; subst xb'.
        exists (nm0 c, c). split; [reflexivity|apply nget_In; exact Hg]. }
    assert (Hleaf : forall c, In c cs -> contents_of s c = []).
    { intros c Hc. apply Hcs in Hc. destruct Hc as [Cc Pc]. destruct (Hex c Cc) as (cb & Ec). unfold contents_of. rewrite Ec.
      destruct (o_contents cb) as [|[k v] l] eqn:El; [reflexivity|]. exfalso.
      assert (Hg : nget k (o_contents cb) = Some v) by (rewrite El; unfold nget; cbn [aget]; rewrite N.eqb_refl; reflexivity).
      destruct (oa_contents _ _ _ _ _ HA c cb k v Ec Hg) as (_ & Pv & _).
      apply sparent_third in Pv. apply member_third in Pc. contradiction. }
    assert (Hsub : subtree s x = x :: cs).
    { unfold subtree. rewrite (oa_fuel _ _ _ _ _ HA). unfold depth_fuel. rewrite Nat.add_comm. cbn [Nat.add subtree_f].
      f_equal. assert (Ecx : contents_of s x = o_contents xb) by (unfold contents_of; rewrite Ex; reflexivity).
      rewrite Ecx. unfold cs.
      assert (Hgen : forall l : list (N * oid), (forall kc, In kc l -> contents_of s (snd kc) = []) ->
                               flat_map (fun c => subtree_f (3 + length p) s (snd c)) l = map snd l).
      { induction l as [|kc l IH]; intros Hl; cbn [flat_map map]; [reflexivity|].
        rewrite IH by (intros kc' Hin; apply Hl; right; exact Hin).
        cbn [Nat.add subtree_f]. rewrite (Hl kc (or_introl eq_refl)). reflexivity. }
      apply Hgen. intros kc Hin. apply Hleaf. unfold cs. apply in_map. exact Hin. }
    assert (HCsub : forall o, In o (x :: cs) -> C o).
    { intros o [<-|Hc]; [exact Cx|apply Hcs in Hc; tauto]. }
    assert (Hsubl : forall o, C o -> (In o (x :: cs) <-> sub o)).
    { intros o Co. split.
      - intros [<-|Hc]; [apply sub_x|]. apply Hcs in Hc. destruct Hc as [_ Pc].
        destruct o as [[m i] j]. unfold sub. cbn [fst snd].
        unfold sparent, sobj in Pc. destruct (N.eqb i 0) eqn:Ei.
        + destruct (N.eqb j 0); [|discriminate]. destruct (modinfo_of p m) as [mi|]; [|discriminate]. cbn [s_parent] in Pc.
          destruct (m_parent mi); [|discriminate]. inversion Pc. congruence.
        + destruct (stmt_at p m i) as [st|]; [|discriminate]. destruct st; cbn [stmt_info] in Pc; try discriminate.
          * destruct (N.eqb j 0); [inversion Pc; congruence|].
            destruct (nth_error members (N.to_nat (j - 1))) as [[[mk nn] dd]|]; [|discriminate].
            unfold member_info in Pc. destruct (N.eqb mk 0); inversion Pc; auto.
          * destruct (N.eqb j 0); [inversion Pc; congruence|discriminate].
          * destruct (N.eqb j 0); [inversion Pc; congruence|discriminate].
      - intros Hs. destruct (sub_dom o (oa_dom _ _ _ _ _ HA o Co) Hs) as [->|Pc]; [left; reflexivity|right].
        apply Hcs. auto. }
    (* the state after each phase *)
    unfold reparent. rewrite Ex, Hxp. cbv zeta. rewrite Hsub.
    rewrite (unregister_spec (x :: cs) s).
    assert (Hfn0 : forall o, C o -> full_name s o = key0 o) by (intros o Co; eapply full_name_key; eassumption).
    set (A1 := fold_left (fun a o => pdel (full_name s o) a) (x :: cs) (allobjs s)).
    set (s1 := set_all s A1).
    assert (E1x : objs s1 x = Some xb) by exact Ex.
    rewrite (upd_obj_some s1 x _ xb E1x). rewrite Hxn.
    match goal with |- context [set_obj s1 x ?b] => set (xb' := b) end.
    set (s2 := set_obj s1 x xb').
    assert (O2 : forall o, objs s2 o = if oid_eqb o x then Some xb' else objs s o) by (intros o; reflexivity).
    assert (Hfn1 : forall s3, objs s3 = objs s2 \/
                              (forall o, objs s3 o = if oid_eqb o Dm then option_map (fun b => with_contents (ndel xname (o_contents b)) b) (objs s2 Dm) else objs s2 o) ->
                              dfuel s3 = dfuel s -> forall o, C o -> full_name s3 o = key1 o).
    { intros s3 Hobj Hdf. apply (full_name_expected p nm1 par1 C s3).
      - rewrite Hdf. apply (oa_fuel _ _ _ _ _ HA).
      - intros o Co. destruct (Hex o Co) as (ob & Eo). destruct (sobj p o) as [si|] eqn:Es; [|exfalso; apply (oa_dom _ _ _ _ _ HA o Co); exact Es].
        destruct (oa_static _ _ _ _ _ HA o ob si Eo Es) as (_ & _ & Hn & Hp & _).
        assert (Hbase : exists ob2, objs s2 o = Some ob2 /\ o_name ob2 = nm1 o /\ o_parent ob2 = par1 o).
        { rewrite O2. unfold nm1, par1. destruct (oid_eqb o x) eqn:E.
          - exists xb'. repeat split.
          - exists ob. auto. }
        destruct Hbase as (ob2 & E2 & N2 & P2).
        destruct Hobj as [Hobj|Hobj]; [rewrite Hobj; eauto|]. rewrite Hobj.
        destruct (oid_eqb o Dm) eqn:EDm; [|eauto].
        apply oid_eqb_eq in EDm. subst o. rewrite E2. cbn [option_map]. eexists. split; [reflexivity|]. cbn [with_contents o_name o_parent]. auto.
      - intros o q Co. unfold par1. destruct (oid_eqb o x); [intros E; inversion E; exact CR|apply (oa_closed _ _ _ _ _ HA); exact Co]. }
    rewrite (register_spec (x :: cs) s2).
    assert (Hfn2 : forall o, C o -> full_name s2 o = key1 o) by (apply Hfn1; [left; reflexivity|reflexivity]).
    set (A3 := fold_left (fun a o => pset (full_name s2 o) o a) (x :: cs) (allobjs s2)).
    set (s3 := set_all s2 A3).
    assert (O3 : forall o, objs s3 o = objs s2 o) by (intros o; reflexivity).
    assert (E3D : objs s3 Dm = Some db) by (rewrite O3, O2, (oid_eqb_neq Dm x (fun e => HxD (eq_sym e))); exact Ed).
    rewrite (upd_obj_some s3 Dm _ db E3D).
    set (db1 := with_contents (ndel xname (o_contents db)) db).
    set (s4 := set_obj s3 Dm db1).
    assert (E4D : objs s4 Dm = Some db1) by apply objs_set_obj_same.
    rewrite (upd_obj_some s4 Dm _ db1 E4D).
    assert (Hfn4 : full_name s4 x = key1 x).
    { apply Hfn1; [right|reflexivity|exact Cx]. intros o. unfold s4. rewrite objs_set_obj.
      destruct (oid_eqb o Dm) eqn:E; [|apply O3]. rewrite O2, (oid_eqb_neq Dm x (fun e => HxD (eq_sym e))), Ed. reflexivity. }
    rewrite Hfn4.
    set (db2 := with_alias (nset xname (key1 x) (o_alias db1)) db1).
    set (s5 := set_obj s4 Dm db2).
    assert (E5R : objs s5 Rm = Some rb).
    { unfold s5, s4. rewrite !objs_set_obj_other by exact HRDm. rewrite O3, O2, (oid_eqb_neq Rm x (fun e => HxR (eq_sym e))). exact Er. }
    rewrite (upd_obj_some s5 Rm _ rb E5R).
    set (rb' := with_contents (nset n x (o_contents rb)) rb).
    set (s6 := set_obj s5 Rm rb').
    assert (O6 : forall o, objs s6 o = if oid_eqb o Rm then Some rb' else if oid_eqb o Dm then Some db2
                                       else if oid_eqb o x then Some xb' else objs s o).
    { intros o. unfold s6, s5, s4. rewrite !objs_set_obj.
      destruct (oid_eqb o Rm); [reflexivity|]. destruct (oid_eqb o Dm); [reflexivity|]. rewrite O3. apply O2. }
    assert (HA6 : allobjs s6 = A3) by reflexivity.
    (* the registry *)
    assert (HA1 : A1 = fold_left (fun a k => pdel k a) (map (fun o => key0 o) (x :: cs)) (allobjs s)).
    { unfold A1. rewrite <- (fold_left_map (fun a k => pdel k a) (fun o => key0 o)).
      assert (Hg : forall l a, (forall o, In o l -> C o) ->
                             fold_left (fun a o => pdel (full_name s o) a) l a = fold_left (fun a o => pdel (key0 o) a) l a).
      { induction l as [|o l IH]; intros a Hl; cbn [fold_left]; [reflexivity|].
        rewrite (Hfn0 o (Hl o (or_introl eq_refl))). apply IH. intros o' Ho'. apply Hl. right. exact Ho'. }
      apply Hg. exact HCsub. }
    assert (HA3 : A3 = fold_left (fun a ko => pset (fst ko) (snd ko) a) (map (fun o => (key1 o, o)) (x :: cs)) A1).
    { unfold A3. change (allobjs s2) with A1.
      rewrite <- (fold_left_map (fun a ko => pset (fst ko) (snd ko) a) (fun o => (key1 o, o))). cbn [fst snd].
      assert (Hg : forall l a, (forall o, In o l -> C o) ->
                             fold_left (fun a o => pset (full_name s2 o) o a) l a = fold_left (fun a o => pset (key1 o) o a) l a).
      { induction l as [|o l IH]; intros a Hl; cbn [fold_left]; [reflexivity|].
        rewrite (Hfn2 o (Hl o (or_introl eq_refl))). apply IH. intros o' Ho'. apply Hl. right. exact Ho'. }
      apply Hg. exact HCsub. }
    assert (Hndl : NoDup (x :: cs)).
    { constructor.
      - intros Hin. apply Hcs in Hin. destruct Hin as [_ Pc]. rewrite sparent_x in Pc. inversion Pc. congruence.
      - unfold cs. pose proof (oa_cnodup _ _ _ _ _ HA x xb Ex) as Hnd.
        assert (Hinj : forall l, NoDup (map fst l) -> (forall k c, In (k, c) l -> nget k l = Some c) ->
                                 (forall k c, In (k, c) l -> nm0 c = k) -> NoDup (map snd l)).
        { induction l as [|[k c] l IH]; cbn [map fst snd]; intros Hnd' Hg Hk; [constructor|].
          inversion Hnd' as [|? ? Hni Hnd'']; subst. constructor.
          - intros Hin. apply in_map_iff in Hin. destruct Hin as ([k' c'] & E & Hin). cbn [snd] in E. subst c'.
            apply Hni. apply in_map_iff. exists (k', c). split; [|exact Hin]. cbn [fst].
            rewrite <- (Hk k' c (or_intror Hin)). rewrite <- (Hk k c (or_introl eq_refl)). reflexivity.
          - apply IH; [exact Hnd''| |].
            + intros k' c' Hin. apply In_nget; assumption.
            + intros k' c' Hin. apply Hk. right. exact Hin. }
        apply Hinj; [exact Hnd| |].
        + intros k c Hin. apply In_nget; assumption.
        + intros k c Hin. pose proof (In_nget k c _ Hnd Hin) as Hg.
          destruct (oa_contents _ _ _ _ _ HA x xb k c Ex Hg) as (_ & _ & E). exact E. }
    assert (Hk1inj : NoDup (map fst (map (fun o => (key1 o, o)) (x :: cs)))).
    { rewrite map_map. cbn [fst]. apply NoDup_map_in; [|exact Hndl].
      intros a b Ha Hb E. apply H1; [apply (oa_dom _ _ _ _ _ HA); apply HCsub; exact Ha|apply (oa_dom _ _ _ _ _ HA); apply HCsub; exact Hb|exact E]. }
    pose proof (fold_pdel_spec (map (fun o => key0 o) (x :: cs)) (allobjs s) [] (or_nodup _ _ _ _ _ HR)) as (Hnd1 & _).
    rewrite <- HA1 in Hnd1.
    pose proof (fold_pset_spec (map (fun o => (key1 o, o)) (x :: cs)) A1 Hnd1 Hk1inj) as (Hnd3 & Hin3 & Hout3).
    rewrite <- HA3 in Hnd3, Hin3, Hout3.
    assert (Hreg : forall k o, pget k A3 = Some o <-> C o /\ key1 o = k).
    { intros k o. destruct (in_dec (list_eq_dec N.eq_dec) k (map fst (map (fun o => (key1 o, o)) (x :: cs)))) as [Hin|Hni].
      - rewrite map_map in Hin. cbn [fst] in Hin. apply in_map_iff in Hin. destruct Hin as (o1 & <- & Ho1).
        rewrite (Hin3 (key1 o1) o1) by (apply in_map_iff; exists o1; auto). split.
        + intros E. inversion E; subst o. split; [apply HCsub; exact Ho1|reflexivity].
        + intros [Co E]. f_equal. apply H1; [apply (oa_dom _ _ _ _ _ HA); apply HCsub; exact Ho1|apply (oa_dom _ _ _ _ _ HA); exact Co|congruence].
      - rewrite (Hout3 k Hni). rewrite HA1.
        destruct (fold_pdel_spec (map (fun o => key0 o) (x :: cs)) (allobjs s) k (or_nodup _ _ _ _ _ HR)) as (_ & Hdel & Hkeep).
        destruct (in_dec (list_eq_dec N.eq_dec) k (map (fun o => key0 o) (x :: cs))) as [Hin0|Hni0].
        + rewrite (Hdel Hin0). split; [discriminate|]. intros [Co E]. exfalso.
          apply in_map_iff in Hin0. destruct Hin0 as (o1 & E1 & Ho1).
          destruct (sub_dec o) as [Hs|Hns].
          * apply Hni. rewrite map_map. cbn [fst]. apply in_map_iff. exists o. split; [exact E|]. apply (Hsubl o Co). exact Hs.
          * rewrite (key1_nonsub o Hns) in E. assert (o1 = o).
            { apply H0; [apply (oa_dom _ _ _ _ _ HA); apply HCsub; exact Ho1|apply (oa_dom _ _ _ _ _ HA); exact Co|exact (eq_trans E1 (eq_sym E))]. }
            subst o1. apply Hns. apply (Hsubl o Co). exact Ho1.
        + rewrite (Hkeep Hni0). split.
          * intros Hg. destruct (or_sound _ _ _ _ _ HR k o Hg) as [Co E]. split; [exact Co|].
            assert (Hns : ~ sub o).
            { intros Hs. apply Hni0. apply in_map_iff. exists o. split; [exact E|]. apply (Hsubl o Co). exact Hs. }
            rewrite (key1_nonsub o Hns). exact E.
          * intros [Co E]. assert (Hns : ~ sub o).
            { intros Hs. apply Hni. rewrite map_map. cbn [fst]. apply in_map_iff. exists o. split; [exact E|]. apply (Hsubl o Co). exact Hs. }
            rewrite (key1_nonsub o Hns) in E. rewrite <- E. apply (or_complete _ _ _ _ _ HR). exact Co. }
    assert (Hxb' : o_tag xb' = o_tag xb /\ o_kind xb' = o_kind xb /\ o_doc xb' = o_doc xb /\ o_contents xb' = o_contents xb /\
                   o_all xb' = o_all xb /\ o_alias xb' = o_alias xb /\ o_name xb' = n /\ o_parent xb' = Some Rm)
      by (unfold xb'; repeat split).
    destruct Hxb' as (X1 & X2 & X3 & X4 & X5 & X6 & X7 & X8).
    assert (Hne_x : forall o, o <> x -> nm1 o = nm0 o /\ par1 o = par0 o).
    { intros o Hne. unfold nm1, par1. rewrite (oid_eqb_neq o x Hne). auto. }
    assert (Hnm1x : nm1 x = n /\ par1 x = Some Rm) by (unfold nm1, par1; rewrite oid_eqb_refl; auto).
    destruct Hnm1x as [Hn1x Hp1x].
    fold s6.
    split; [|split; [|split; [|split]]].
    - (* objects *)
      constructor.
      + exact (oa_fuel _ _ _ _ _ HA).
      + exact (oa_dom _ _ _ _ _ HA).
      + intros o. rewrite O6. destruct (oid_eqb o Rm) eqn:E1; [apply oid_eqb_eq in E1; subst o; split; [intros _; exact CR|discriminate]|].
        destruct (oid_eqb o Dm) eqn:E2; [apply oid_eqb_eq in E2; subst o; split; [intros _; exact CD|discriminate]|].
        destruct (oid_eqb o x) eqn:E3; [apply oid_eqb_eq in E3; subst o; split; [intros _; exact Cx|discriminate]|].
        apply (oa_exists _ _ _ _ _ HA).
      + intros o ob si. rewrite O6. destruct (oid_eqb o Rm) eqn:E1.
        { apply oid_eqb_eq in E1. subst o. intros E Hs. inversion E; subst ob.
          destruct (oa_static _ _ _ _ _ HA Rm rb si Er Hs) as (A1' & A2 & A3' & A4 & A5).
          destruct (Hne_x Rm (fun e => HxR (eq_sym e))) as [-> ->]. unfold rb'. cbn [with_contents o_tag o_kind o_name o_parent o_doc]. auto. }
        destruct (oid_eqb o Dm) eqn:E2.
        { apply oid_eqb_eq in E2. subst o. intros E Hs. inversion E; subst ob.
          destruct (oa_static _ _ _ _ _ HA Dm db si Ed Hs) as (A1' & A2 & A3' & A4 & A5).
          destruct (Hne_x Dm (fun e => HxD (eq_sym e))) as [-> ->]. unfold db2, db1. cbn [with_alias with_contents o_tag o_kind o_name o_parent o_doc]. auto. }
        destruct (oid_eqb o x) eqn:E3.
        { apply oid_eqb_eq in E3. subst o. intros E Hs. inversion E; subst ob.
          destruct (oa_static _ _ _ _ _ HA x xb si Ex Hs) as (A1' & A2 & A3' & A4 & A5).
          rewrite X1, X2, X3, X7, X8, Hn1x, Hp1x. auto. }
        intros E Hs. destruct (oa_static _ _ _ _ _ HA o ob si E Hs) as (A1' & A2 & A3' & A4 & A5).
        destruct (Hne_x o) as [-> ->]; [intros ->; rewrite oid_eqb_refl in E3; discriminate|]. auto.
      + intros o q Co. destruct (oid_eq_dec o x) as [->|Hne].
        * rewrite Hp1x. intros E. inversion E. exact CR.
        * destruct (Hne_x o Hne) as [_ ->]. apply (oa_closed _ _ _ _ _ HA). exact Co.
      + intros S sb k o. rewrite O6. destruct (oid_eqb S Rm) eqn:E1.
        { apply oid_eqb_eq in E1. subst S. intros E. inversion E; subst sb. unfold rb'. cbn [with_contents o_contents].
          destruct (N.eq_dec k n) as [->|Hkn].
          - rewrite nget_nset_same. intros E'. inversion E'; subst o. auto.
          - rewrite nget_nset_other by exact Hkn. intros Hg. destruct (oa_contents _ _ _ _ _ HA Rm rb k o Er Hg) as (A & B & Cn).
            assert (Hox : o <> x) by (intros ->; rewrite sparent_x in B; inversion B; congruence).
            destruct (Hne_x o Hox) as [-> ->]. auto. }
        destruct (oid_eqb S Dm) eqn:E2.
        { apply oid_eqb_eq in E2. subst S. intros E. inversion E; subst sb. unfold db2, db1. cbn [with_alias with_contents o_contents].
          destruct (N.eq_dec k xname) as [->|Hkx].
          - rewrite (nget_ndel_same xname (o_contents db) (oa_cnodup _ _ _ _ _ HA Dm db Ed)). discriminate.
          - rewrite nget_ndel_other by exact Hkx. intros Hg. destruct (oa_contents _ _ _ _ _ HA Dm db k o Ed Hg) as (A & B & Cn).
            assert (Hox : o <> x) by (intros ->; congruence).
            destruct (Hne_x o Hox) as [-> ->]. auto. }
        destruct (oid_eqb S x) eqn:E3.
        { apply oid_eqb_eq in E3. subst S. intros E. inversion E; subst sb. rewrite X4. intros Hg.
          destruct (oa_contents _ _ _ _ _ HA x xb k o Ex Hg) as (A & B & Cn).
          assert (Hox : o <> x) by (intros ->; rewrite sparent_x in B; inversion B; congruence).
          destruct (Hne_x o Hox) as [-> ->]. auto. }
        intros E Hg. destruct (oa_contents _ _ _ _ _ HA S sb k o E Hg) as (A & B & Cn).
        assert (Hox : o <> x).
        { intros ->. rewrite sparent_x in B. inversion B; subst S. rewrite oid_eqb_refl in E2. discriminate. }
        destruct (Hne_x o Hox) as [-> ->]. auto.
      + intros o S Co. destruct (oid_eq_dec o x) as [->|Hne].
        * rewrite Hp1x, Hn1x. intros E. inversion E; subst S. exists rb'. rewrite O6, oid_eqb_refl. split; [reflexivity|].
          unfold rb'. cbn [with_contents o_contents]. apply nget_nset_same.
        * destruct (Hne_x o Hne) as [-> ->]. intros Hp.
          destruct (oa_complete _ _ _ _ _ HA o S Co Hp) as (sb & Es & Hg). rewrite O6.
          destruct (oid_eqb S Rm) eqn:E1.
          { apply oid_eqb_eq in E1. subst S. rewrite Er in Es. inversion Es; subst sb. exists rb'. split; [reflexivity|].
            unfold rb'. cbn [with_contents o_contents]. rewrite nget_nset_other; [exact Hg|]. intros En. apply Hne.
            apply H1; [apply (oa_dom _ _ _ _ _ HA); exact Co|exact Hxdom|]. apply key_same.
            - rewrite Hp1x. destruct (Hne_x o Hne) as [_ ->]. exact Hp.
            - rewrite Hn1x. destruct (Hne_x o Hne) as [-> _]. exact En. }
          destruct (oid_eqb S Dm) eqn:E2.
          { apply oid_eqb_eq in E2. subst S. rewrite Ed in Es. inversion Es; subst sb. exists db2. split; [reflexivity|].
            unfold db2, db1. cbn [with_alias with_contents o_contents]. rewrite nget_ndel_other; [exact Hg|]. intros En. apply Hne.
            apply H0; [apply (oa_dom _ _ _ _ _ HA); exact Co|exact Hxdom|]. apply (key_same p nm0 par0); [rewrite sparent_x; exact Hp|congruence]. }
          destruct (oid_eqb S x) eqn:E3.
          { apply oid_eqb_eq in E3. subst S. rewrite Ex in Es. inversion Es; subst sb. exists xb'. rewrite X4. auto. }
          exists sb. auto.
      + intros S sb. rewrite O6. destruct (oid_eqb S Rm) eqn:E1.
        { intros E. inversion E; subst sb. unfold rb'. cbn [with_contents o_contents]. apply nset_keys_nodup.
          exact (oa_cnodup _ _ _ _ _ HA Rm rb Er). }
        destruct (oid_eqb S Dm) eqn:E2.
        { intros E. inversion E; subst sb. unfold db2, db1. cbn [with_alias with_contents o_contents]. apply ndel_keys_nodup.
          exact (oa_cnodup _ _ _ _ _ HA Dm db Ed). }
        destruct (oid_eqb S x) eqn:E3.
        { intros E. inversion E; subst sb. rewrite X4. exact (oa_cnodup _ _ _ _ _ HA x xb Ex). }
        apply (oa_cnodup _ _ _ _ _ HA).
    - (* registry *)
      constructor.
      + intros k o. change (pget k A3 = Some o -> C o /\ key1 o = k). apply Hreg.
      + intros o Co. change (pget (key1 o) A3 = Some o). apply Hreg. auto.
      + change (NoDup (map fst A3)). exact Hnd3.
    - (* docstrings, __all__, alias maps *)
      intros o ob Ho. rewrite O6. destruct (oid_eqb o Rm) eqn:E1.
      { apply oid_eqb_eq in E1. subst o. rewrite Er in Ho. inversion Ho; subst ob. exists rb'. unfold rb'. repeat split. }
      destruct (oid_eqb o Dm) eqn:E2.
      { apply oid_eqb_eq in E2. subst o. rewrite Ed in Ho. inversion Ho; subst ob. exists db2. unfold db2, db1. repeat split.
        intros Hc. contradiction. }
      destruct (oid_eqb o x) eqn:E3.
      { apply oid_eqb_eq in E3. subst o. rewrite Ex in Ho. inversion Ho; subst ob. exists xb'. repeat split; assumption. }
      exists ob. auto.
    - exists db2. rewrite O6, (oid_eqb_neq Dm Rm (fun e => HRDm (eq_sym e))), oid_eqb_refl. split; [reflexivity|].
      unfold db2. cbn [with_alias o_alias]. apply nget_nset_same.
    - repeat split.
  Qed.
End Move.

(* ---------------------------------------------------------------- helpers that relate two instances of the invariant *)
Lemma created_finish p s fr rest :
  frames s = fr :: rest -> f_todo fr = [] ->
  forall o, created_of p s o <-> created_of p (set_frames (set_mst s (f_mod fr) PROCESSED) rest) o.
Proof.
  intros Hf Ht.
  assert (Hpend : forall m i, pending_of (set_frames (set_mst s (f_mod fr) PROCESSED) rest) m i <-> pending_of s m i).
  { intros m i. unfold pending_of. cbn [set_frames set_mst unproc frames]. rewrite Hf. split.
    - intros [H|(fr0 & st & Hin & Hm & Hst)]; [left; exact H|right; exists fr0, st; split; [right; exact Hin|auto]].
    - intros [H|(fr0 & st & [<-|Hin] & Hm & Hst)]; [left; exact H|rewrite Ht in Hst; destruct Hst|right; eauto]. }
  intros o. unfold created_of. rewrite Hpend. tauto.
Qed.

Lemma Inv_cross p nmA parA GoodA nmB parB (GoodB : state -> Prop) s fr rest op todo s1 fr1 cur :
  Inv p nmA parA GoodA s -> frames s = fr :: rest -> f_todo fr = op :: todo -> same_ctl s s1 ->
  f_mod fr1 = f_mod fr -> f_todo fr1 = todo ->
  Ctl p (set_frames s1 (fr1 :: rest)) -> GoodB (set_frames s1 (fr1 :: rest)) ->
  OA p nmB parB (created_of p (set_frames s1 (fr1 :: rest))) s1 ->
  OR p nmB parB (created_of p (set_frames s1 (fr1 :: rest))) s1 ->
  meta_weak cur s s1 -> Inv p nmB parB GoodB (set_frames s1 (fr1 :: rest)).
Proof.
  intros HI Hf Ht Hctl Hfm Hft HC2 HG2 HA HR HM. constructor.
  - exact HC2.
  - eapply (OA_same p nmB parB _ s1); [reflexivity|reflexivity|exact HA].
  - eapply (OR_same p nmB parB _ s1); [reflexivity|exact HR].
  - intros fr0. cbn [set_frames frames]. intros [<-|Hin].
    + destruct (op_mi p nmA parA GoodA s fr rest op todo HI Hf Ht) as (mi & pre & Hmi & He).
      exists mi, (pre ++ [op]). rewrite Hfm, Hft, <- app_assoc. split; [exact Hmi|exact He].
    + apply (i_suffix p _ _ _ s HI). rewrite Hf. right. exact Hin.
  - intros m' mb mi Hmb Hmi. cbn [set_frames objs unproc] in *.
    destruct Hctl as (_ & Hu & _). rewrite Hu.
    pose proof (created_module p s m' mi Hmi) as Hc. apply (oa_exists _ _ _ _ _ (i_oa p _ _ _ s HI)) in Hc.
    destruct (objs s (m', 0, 0)) as [mb0|] eqn:E0; [|congruence].
    destruct (HM _ _ E0) as (mb1 & E1 & D1 & D2 & _). rewrite Hmb in E1. inversion E1; subst mb1.
    rewrite D1, D2. exact (i_meta p _ _ _ s HI m' mb0 mi E0 Hmi).
  - exact HG2.
Qed.

(* ================================================================ the machine with one designated re-export *)
Lemma expand_from_app a : forall k b,
  expand_from k (a ++ b) = expand_from k a ++ expand_from (k + N.of_nat (length a)) b.
Proof.
  induction a as [|st a IH]; intros k b; cbn [app expand_from length].
  - replace (k + N.of_nat 0) with k by lia. reflexivity.
  - rewrite IH, <- app_assoc. replace (k + 1 + N.of_nat (length a)) with (k + N.of_nat (S (length a))) by lia. reflexivity.
Qed.

Definition names_ops (names : list (N * N)) : list mop :=
  flat_map (fun oa => [MEnsureSub (fst oa); MImportName (fst oa) (snd oa)]) names.

Lemma names_ops_app a b : names_ops (a ++ b) = names_ops a ++ names_ops b.
Proof. unfold names_ops. apply flat_map_app. Qed.

Section MoveMachine.
  Variable p : project.
  Variables (R D ix xname n : N).
  Notation x := (D, ix, 0).
  Notation Rm := (R, 0, 0).
  Notation Dm := (D, 0, 0).
  Notation nm0 := (sname p).
  Notation par0 := (sparent p).
  Notation nmA := (nm1 p D ix n).
  Notation parA := (par1 p R D ix).
  Notation key0 := (key p nm0 par0).
  Notation keyA := (key p nmA parA).

  Hypothesis Hwf : parents_first p.
  Hypothesis H0 : keys_distinct p.
  Hypothesis H1 : forall o o', sobj p o <> None -> sobj p o' <> None -> keyA o = keyA o' -> o = o'.
  Hypothesis HRD : R <> D.
  Hypothesis Hix : ix <> 0.
  Hypothesis Hxdom : sobj p x <> None.
  Hypothesis Hxname : sname p x = xname.

  Variables (miR miD : modinfo) (spre spost : list stmt) (lvl : N) (mn : path) (npre npost : list (N * N)).
  Hypothesis HR_mod : modinfo_of p R = Some miR.
  Hypothesis HR_stmts : m_stmts miR = spre ++ SImportFrom lvl mn (npre ++ (xname, n) :: npost) :: spost.
  Hypothesis HR_once_names : forall oa, In oa (npre ++ npost) -> snd oa <> n.
  Hypothesis HR_once_stmts : forall lv m' nms oa, In (SImportFrom lv m' nms) (spre ++ spost) -> In oa nms -> snd oa <> n.
  Hypothesis HR_exp : In n (exports_of_mod miR).
  Hypothesis HR_res : static_modname p R lvl mn = Some (skey p Dm).
  Hypothesis HD_mod : modinfo_of p D = Some miD.
  Hypothesis HD_leaf : forall st, In st (m_stmts miD) -> local_stmt st = true.
  Hypothesis HD_all : forall a, last_all (m_stmts miD) None = Some a -> ~ In xname a.
  Hypothesis Honly : forall m mi st, modinfo_of p m = Some mi -> In st (m_stmts mi) ->
    match st with
    | SImportFrom _ _ nms => forall oa, In oa nms -> In (snd oa) (exports_of_mod mi) -> m = R /\ snd oa = n
    | SImportStar _ _ => exports_of_mod mi = []
    | _ => True
    end.

  Definition is_desig (op : mop) : bool := match op with MImportName _ a => N.eqb a n | _ => false end.
  Definition desig_in (l : list mop) : bool := existsb is_desig l.
  Definition dpendb (s : state) : bool :=
    memN R (unproc s) || existsb (fun fr => N.eqb (f_mod fr) R && desig_in (f_todo fr)) (frames s).

  (* the micro-operations of R around the designated import *)
  Definition PRE : list mop := expand_from 1 spre.
  Definition NPRE : list mop := names_ops npre.
  Definition REST : list mop := names_ops npost ++ expand_from (1 + N.of_nat (length spre) + 1) spost.
  Definition T1 : list mop := NPRE ++ MEnsureSub xname :: MImportName xname n :: REST.

  Lemma expand_R : expand_stmts (m_stmts miR) = PRE ++ MResolve lvl mn :: MEnsure :: T1.
  Proof.
    unfold expand_stmts. rewrite HR_stmts, expand_from_app. cbn [expand_from expand_stmt]. unfold PRE, T1, NPRE, REST.
    f_equal. cbn [app]. do 2 f_equal.
    change (flat_map (fun oa : N * N => [MEnsureSub (fst oa); MImportName (fst oa) (snd oa)]) (npre ++ (xname, n) :: npost))
      with (names_ops (npre ++ (xname, n) :: npost)).
    rewrite names_ops_app. rewrite <- app_assoc. f_equal.
  Qed.

  Lemma desig_in_app a b : desig_in (a ++ b) = desig_in a || desig_in b.
  Proof. unfold desig_in. apply existsb_app. Qed.

  Lemma desig_names_ops l : (forall oa, In oa l -> snd oa <> n) -> desig_in (names_ops l) = false.
  Proof.
    induction l as [|oa l IH]; intros H; cbn [names_ops flat_map]; [reflexivity|].
    change (desig_in ([MEnsureSub (fst oa); MImportName (fst oa) (snd oa)] ++ names_ops l) = false).
    rewrite desig_in_app, IH by (intros oa' Hin; apply H; right; exact Hin).
    cbn [desig_in existsb is_desig]. rewrite (proj2 (N.eqb_neq _ _) (H oa (or_introl eq_refl))). reflexivity.
  Qed.

  Lemma desig_expand_from l : forall k,
    (forall lv m' nms oa, In (SImportFrom lv m' nms) l -> In oa nms -> snd oa <> n) -> desig_in (expand_from k l) = false.
  Proof.
    induction l as [|st l IH]; intros k H; cbn [expand_from]; [reflexivity|].
    rewrite desig_in_app, IH by (intros lv m' nms oa Hin; apply (H lv m' nms oa); right; exact Hin). rewrite orb_false_r.
    destruct st; cbn [expand_stmt desig_in existsb is_desig]; try reflexivity.
    change (desig_in (names_ops names) = false). apply desig_names_ops.
    intros oa Hin. eapply (H level modname names oa); [left; reflexivity|exact Hin].
  Qed.

  Lemma desig_PRE : desig_in PRE = false.
  Proof. apply desig_expand_from. intros lv m' nms oa Hin. apply (HR_once_stmts lv m' nms oa). apply in_or_app. left. exact Hin. Qed.
  Lemma desig_NPRE : desig_in NPRE = false.
  Proof. apply desig_names_ops. intros oa Hin. apply HR_once_names. apply in_or_app. left. exact Hin. Qed.
  Lemma desig_REST : desig_in REST = false.
  Proof.
    unfold REST. rewrite desig_in_app. rewrite desig_names_ops by (intros oa Hin; apply HR_once_names; apply in_or_app; right; exact Hin).
    apply desig_expand_from. intros lv m' nms oa Hin. apply (HR_once_stmts lv m' nms oa). apply in_or_app. right. exact Hin.
  Qed.
  Lemma desig_T1 : desig_in T1 = true.
  Proof. unfold T1. rewrite desig_in_app. cbn [desig_in existsb is_desig]. rewrite N.eqb_refl, !orb_true_r. reflexivity. Qed.
  Lemma desig_expand_R : desig_in (expand_stmts (m_stmts miR)) = true.
  Proof. rewrite expand_R, desig_in_app. cbn [desig_in existsb is_desig]. fold (desig_in T1). rewrite desig_T1, !orb_true_r. reflexivity. Qed.

  (* the designated operation occurs once in T1 *)
  Lemma unique_split d l2 op t : forall l1 q,
    desig_in l1 = false -> desig_in l2 = false -> is_desig d = true ->
    l1 ++ d :: l2 = q ++ op :: t ->
    (is_desig op = true -> q = l1 /\ op = d /\ t = l2) /\ (desig_in t = true -> In op l1).
  Proof.
    induction l1 as [|a l1 IH]; intros q Hl1 Hl2 Hd E.
    - destruct q as [|a' q']; cbn [app] in E; inversion E; subst.
      + split; [auto|]. intros Ht. congruence.
      + rewrite desig_in_app in Hl2. cbn [desig_in existsb] in Hl2. fold (desig_in t) in Hl2.
        apply orb_false_iff in Hl2. destruct Hl2 as [_ Hl2]. apply orb_false_iff in Hl2. destruct Hl2 as [Ho Ht].
        split; [intros Hx; congruence|intros Hx; congruence].
    - cbn [desig_in existsb] in Hl1. fold (desig_in l1) in Hl1. apply orb_false_iff in Hl1. destruct Hl1 as [Ha Hl1].
      destruct q as [|a' q']; cbn [app] in E; inversion E; subst.
      + split; [intros Hx; congruence|intros _; left; reflexivity].
      + destruct (IH q' Hl1 Hl2 Hd H3) as [A B]. split.
        * intros Hx. destruct (A Hx) as (-> & -> & ->). auto.
        * intros Hx. right. apply B. exact Hx.
  Qed.

  Definition L1 : list mop := NPRE ++ [MEnsureSub xname].
  Lemma T1_eq : T1 = L1 ++ MImportName xname n :: REST.
  Proof. unfold T1, L1. rewrite <- app_assoc. reflexivity. Qed.
  Lemma desig_L1 : desig_in L1 = false.
  Proof. unfold L1. rewrite desig_in_app, desig_NPRE. reflexivity. Qed.

  Lemma names_ops_kind l op : In op (names_ops l) -> (exists o, op = MEnsureSub o) \/ (exists o a, op = MImportName o a).
  Proof.
    induction l as [|oa l IH]; cbn [names_ops flat_map app In]; [tauto|].
    intros [<-|[<-|H]]; [left; eauto|right; eauto|apply IH; exact H].
  Qed.
  Lemma L1_kind op : In op L1 -> (exists o, op = MEnsureSub o) \/ (exists o a, op = MImportName o a).
  Proof.
    unfold L1. rewrite in_app_iff. intros [H|[<-|[]]]; [apply (names_ops_kind npre); exact H|left; eauto].
  Qed.

  Lemma T1_split q op t :
    T1 = q ++ op :: t ->
    (is_desig op = true -> op = MImportName xname n /\ desig_in t = false) /\
    (desig_in t = true -> is_desig op = false /\ ((exists o, op = MEnsureSub o) \/ (exists o a, op = MImportName o a))).
  Proof.
    intros E. rewrite T1_eq in E.
    assert (Hd : is_desig (MImportName xname n) = true) by (cbn; apply N.eqb_refl).
    destruct (unique_split _ _ _ _ L1 q desig_L1 desig_REST Hd E) as [A B]. split.
    - intros Hx. destruct (A Hx) as (_ & -> & ->). split; [reflexivity|apply desig_REST].
    - intros Hx. pose proof (B Hx) as Hin. split; [|apply L1_kind; exact Hin].
      destruct (is_desig op) eqn:Eo; [|reflexivity]. destruct (A eq_refl) as (_ & _ & ->). rewrite desig_REST in Hx. discriminate.
  Qed.

  (* a module without from-imports only has statement operations *)
  Lemma expand_local_only l : forall k, (forall st, In st l -> local_stmt st = true) ->
    forall op, In op (expand_from k l) -> exists i st, op = MStmt i st.
  Proof.
    induction l as [|st l IH]; intros k Hl op; cbn [expand_from]; [intros []|].
    rewrite in_app_iff. intros [H|H]; [|apply (IH (k + 1)); [intros st' Hin; apply Hl; right; exact Hin|exact H]].
    pose proof (Hl st (or_introl eq_refl)) as Hloc.
    destruct st; cbn [local_stmt] in Hloc; try discriminate; cbn [expand_stmt In] in H; destruct H as [<-|[]]; eauto.
  Qed.
End MoveMachine.
